import LexVerif.Proof.LemireStable
/-!
# Proof.LemireNeg — `compute_float` for `SMALLEST_POWER_OF_TEN ≤ q ≤ −28`

For `e = −q ≥ 28` the table row is a reciprocal truncated **down**: `T·5^e ≤ 2^(b+127) < (T+1)·5^e`,
`b = bitlen (5^e)`. The stability argument of `Proof.LemireStable` applies with the exact value
`N / Dz`, `N = wn·2^(b+127)`, `Dz = 2^64·5^e`: unless the low word is all ones (fall-back), the upper bits
`hi >> sh` are those of `N / Dz`. An exact tie would force `5^e ∣ wn`, impossible for `5^28 > 2^64`; hence
round-half-up on the round bit is round-half-even, in the normal branch and in the subnormal branch
(`cfRound_sub`: the further shift drops sticky bits that cannot matter).
-/
namespace LexVerif.Proof.Lemire
open LexVerif.Spec LexVerif.Model LexVerif.Model.Lemire
open LexVerif.Proof.RoundNE LexVerif.Proof.ExtRound LexVerif.Proof.BinaryCorrect

/-- what is needed of row `−e`, `28 ≤ e ≤ 342`, and of `power(−e)` (checked by evaluation) -/
def rowNegOk (e : Nat) : Bool :=
  match Gen.Lemire.powerOfFive128[342 - e]? with
  | some (hi5, lo5) =>
    decide (hi5 < 2 ^ 64) && decide (lo5 < 2 ^ 64) && decide (2 ^ 63 ≤ hi5) && decide (66 ≤ bitlen (5 ^ e)) &&
    decide ((hi5 * 2 ^ 64 + lo5) * 5 ^ e ≤ 2 ^ (bitlen (5 ^ e) + 127)) &&
    decide (2 ^ (bitlen (5 ^ e) + 127) < (hi5 * 2 ^ 64 + lo5 + 1) * 5 ^ e) &&
    decide (power (wrapI32 (-(e : Int))) = 63 - (e : Int) - (bitlen (5 ^ e) : Int)) && decide (bitlen (5 ^ e) ≤ 795)
  | none => false

theorem rows_neg_all : ((List.range 315).map (· + 28)).all rowNegOk = true := by decide +kernel

theorem rows_neg (e : Nat) (h28 : 28 ≤ e) (h342 : e ≤ 342) :
    ∃ hi5 lo5, Gen.Lemire.powerOfFive128[342 - e]? = some (hi5, lo5) ∧ hi5 < 2 ^ 64 ∧ lo5 < 2 ^ 64 ∧
      2 ^ 63 ≤ hi5 ∧ 66 ≤ bitlen (5 ^ e) ∧
      (hi5 * 2 ^ 64 + lo5) * 5 ^ e ≤ 2 ^ (bitlen (5 ^ e) + 127) ∧
      2 ^ (bitlen (5 ^ e) + 127) < (hi5 * 2 ^ 64 + lo5 + 1) * 5 ^ e ∧
      power (wrapI32 (-(e : Int))) = 63 - (e : Int) - (bitlen (5 ^ e) : Int) ∧ bitlen (5 ^ e) ≤ 795 := by
  have hall := rows_neg_all
  rw [List.all_eq_true] at hall
  have := hall e (by
    rw [List.mem_map]; exact ⟨e - 28, List.mem_range.mpr (by omega), by omega⟩)
  unfold rowNegOk at this
  cases hrow : Gen.Lemire.powerOfFive128[342 - e]? with
  | none => rw [hrow] at this; simp at this
  | some r =>
    obtain ⟨hi5, lo5⟩ := r
    rw [hrow] at this
    simp only [Bool.and_eq_true, decide_eq_true_eq] at this
    obtain ⟨⟨⟨⟨⟨⟨⟨h1, h2⟩, h3⟩, h4⟩, h5⟩, h6⟩, h7⟩, h8⟩ := this
    exact ⟨hi5, lo5, rfl, h1, h2, h3, h4, h5, h6, h7, h8⟩

/-- **upper bits, rows truncated down** (generic in the scale `Dn`: `2^k` for `q ≥ 28`, `5^e` for `q ≤ −28`): with
`X = wn·T`, the exact value `N ∈ [X, X + wn)·Dn`, `z = hi·2^64 + lo` as returned by `compute_product_approx`, and
`lo` not all ones (or `N = X·Dn`), `hi ≥ 2^62` and `hi >> sh` is the quotient of `N` by `2^(64+sh)·2^64·Dn`. -/
theorem upper_bits_lower {p : Nat} (hp61 : p ≤ 61) (wn hi5 lo5 lo hi N Dn : Nat)
    (hwn1 : 2 ^ 63 ≤ wn) (hwn2 : wn < 2 ^ 64) (hhi5n : 2 ^ 63 ≤ hi5) (hlo : lo < 2 ^ 64) (hhi : hi < 2 ^ 64)
    (hzlow : (hi * 2 ^ 64 + lo) * 2 ^ 64 ≤ wn * (hi5 * 2 ^ 64 + lo5))
    (hzup : wn * (hi5 * 2 ^ 64 + lo5) < (hi * 2 ^ 64 + lo + 1) * 2 ^ 64 ∨
      (hi % 2 ^ (62 - p) ≠ 2 ^ (62 - p) - 1 ∧ hi * 2 ^ 64 + lo = wn * hi5 ∧
        wn * (hi5 * 2 ^ 64 + lo5) < (hi * 2 ^ 64 + lo + 2 ^ 64) * 2 ^ 64))
    (hDn : 0 < Dn) (hNlo : wn * (hi5 * 2 ^ 64 + lo5) * Dn ≤ N)
    (hNhi : N < (wn * (hi5 * 2 ^ 64 + lo5) + wn) * Dn)
    (hsafe : lo + 2 ≤ 2 ^ 64 ∨ N = wn * (hi5 * 2 ^ 64 + lo5) * Dn)
    (u sh : Nat) (hu : hi / 2 ^ 63 = u) (hshv : u + 62 - p = sh) :
    2 ^ 62 ≤ hi ∧ N / (2 ^ sh * 2 ^ 64 * (2 ^ 64 * Dn)) = hi / 2 ^ sh := by
  have hX190 : 2 ^ 126 * 2 ^ 64 ≤ wn * (hi5 * 2 ^ 64 + lo5) := by
    have hT : 2 ^ 63 * 2 ^ 64 ≤ hi5 * 2 ^ 64 + lo5 :=
      Nat.le_trans (Nat.mul_le_mul_right (2 ^ 64) hhi5n) (Nat.le_add_right _ _)
    calc 2 ^ 126 * 2 ^ 64 = 2 ^ 63 * (2 ^ 63 * 2 ^ 64) := by
          rw [← Nat.pow_add, ← Nat.pow_add, ← Nat.pow_add]
      _ ≤ wn * (hi5 * 2 ^ 64 + lo5) := Nat.mul_le_mul hwn1 hT
  have hF126 : 2 ^ 126 ≤ wn * hi5 := by
    calc 2 ^ 126 = 2 ^ 63 * 2 ^ 63 := by rw [← Nat.pow_add]
      _ ≤ wn * hi5 := Nat.mul_le_mul hwn1 hhi5n
  generalize hXv : wn * (hi5 * 2 ^ 64 + lo5) = X at *
  have hz126 : 2 ^ 126 ≤ hi * 2 ^ 64 + lo := by
    rcases hzup with h | ⟨_, h, _⟩
    · have h1 := Nat.lt_of_le_of_lt hX190 h
      have h2 := Nat.lt_of_mul_lt_mul_right h1
      omega
    · rw [h]; exact hF126
  have hhi62 : 2 ^ 62 ≤ hi := by
    have e : (2 : Nat) ^ 126 = 2 ^ 62 * 2 ^ 64 := by rw [← Nat.pow_add]
    apply Classical.byContradiction; intro hcon
    have h1 : hi + 1 ≤ 2 ^ 62 := by omega
    have h2 := Nat.mul_le_mul_right (2 ^ 64) h1
    rw [Nat.add_mul, Nat.one_mul] at h2
    omega
  refine ⟨hhi62, ?_⟩
  have hB := Nat.two_pow_pos 64
  have hlowN : (hi * 2 ^ 64 + lo) * (2 ^ 64 * Dn) ≤ N := by
    calc (hi * 2 ^ 64 + lo) * (2 ^ 64 * Dn) = ((hi * 2 ^ 64 + lo) * 2 ^ 64) * Dn := by ring
      _ ≤ X * Dn := Nat.mul_le_mul_right _ hzlow
      _ ≤ N := hNlo
  have hmodlt := Nat.mod_lt hi (Nat.two_pow_pos sh)
  rcases hzup with h | ⟨hm, _, h⟩
  · rcases hsafe with hlo2 | hNX
    · apply quot_stable hi lo sh N _ 2 (2 ^ 64) hlowN ?_ ?_ (Nat.mul_pos hB hDn) hB
      · calc N < (X + wn) * Dn := hNhi
          _ ≤ ((hi * 2 ^ 64 + lo + 2) * 2 ^ 64) * Dn := Nat.mul_le_mul_right _ (by
              have : (hi * 2 ^ 64 + lo + 2) * 2 ^ 64 = (hi * 2 ^ 64 + lo + 1) * 2 ^ 64 + 2 ^ 64 := by ring
              omega)
          _ = (hi * 2 ^ 64 + lo + 2) * (2 ^ 64 * Dn) := by ring
      · exact room_of_lt (by omega) (by omega)
    · apply quot_stable hi lo sh N _ 1 (2 ^ 64) hlowN ?_ ?_ (Nat.mul_pos hB hDn) hB
      · rw [hNX]
        calc X * Dn < ((hi * 2 ^ 64 + lo + 1) * 2 ^ 64) * Dn := Nat.mul_lt_mul_of_pos_right h hDn
          _ = (hi * 2 ^ 64 + lo + 1) * (2 ^ 64 * Dn) := by ring
      · exact room_of_lt (by omega) (by omega)
  · have hu01 : u ≤ 1 := by
      rw [← hu]
      have : hi / 2 ^ 63 < 2 := by
        rw [Nat.div_lt_iff_lt_mul (Nat.two_pow_pos _)]; omega
      omega
    have hm2 := mod_not_allOnes (show 62 - p ≤ sh by omega) hm
    apply quot_stable hi lo sh N _ (2 ^ 64 + 1) (2 ^ 64) hlowN ?_ ?_ (Nat.mul_pos hB hDn) hB
    · calc N < (X + wn) * Dn := hNhi
        _ ≤ ((hi * 2 ^ 64 + lo + (2 ^ 64 + 1)) * 2 ^ 64) * Dn := Nat.mul_le_mul_right _ (by
            have : (hi * 2 ^ 64 + lo + (2 ^ 64 + 1)) * 2 ^ 64 =
                (hi * 2 ^ 64 + lo + 2 ^ 64) * 2 ^ 64 + 2 ^ 64 := by ring
            omega)
        _ = (hi * 2 ^ 64 + lo + (2 ^ 64 + 1)) * (2 ^ 64 * Dn) := by ring
    · exact room_of_lt2 hm2 (by omega)

/-- **the subnormal branch of `compute_float`, abstractly** (`power2 = 1 − t ≤ 0`): the `p + 1` bits `hi >> sh` are
shifted right by `t` more places and rounded half-up on the last bit; without an exact tie at that position this is
the half-to-even quotient of the exact value by `2·D'·2^t`, encoded with exponent field 0 (1 when it reaches `2^(p−1)`).
Covers the `−power2 + 1 ≥ 64 ⇒ 0` exit. -/
theorem cfRound_sub {F p eb sm lg rlo rhi} (LL : LemLayout F p eb sm lg rlo rhi) (q : Int) (lo hi lz : Nat)
    (hhi_lt : hi < 2 ^ 64) (hhi_ge : 2 ^ 62 ≤ hi) (u sh : Nat) (hu : hi / 2 ^ 63 = u) (hshv : u + 62 - p = sh)
    (N D' t : Nat) (hD : 0 < D') (hm0eq : hi / 2 ^ sh = N / D') (ht : 1 ≤ t)
    (hnotie : ¬ (N % (D' * 2 ^ t) = 0 ∧ N / (D' * 2 ^ t) % 4 = 1))
    (hpw2 : power (wrapI32 q) + (u : Int) - (lz : Int) - F.C.minimumExponent = 1 - (t : Int)) :
    ∃ fp, cfRound F q lo hi lz = .ok fp ∧ 0 ≤ fp.exp ∧
      extendedToFloat F fp = encode F.fmt 0 (rhe N (D' * 2 ^ t * 2)) ∧ rhe N (D' * 2 ^ t * 2) ≤ 2 ^ (p - 1) := by
  have lay := LL.lay
  have hf := lay.wf
  have hp := lay.hp; have hp64 := lay.hp64; have heb := lay.heb
  have hms := lay.msNat
  have hfp : F.fmt.p = p := by rw [lay.fmt]
  have hp61 : p ≤ 61 := by
    have h1 := lay.hpb
    have : eb ≠ 2 := by intro h; subst h; omega
    omega
  have hu01 : u ≤ 1 := by
    rw [← hu]
    have : hi / 2 ^ 63 < 2 := by
      rw [Nat.div_lt_iff_lt_mul (Nat.two_pow_pos _)]; omega
    omega
  have hu_iff : (u = 1 ↔ 2 ^ 63 ≤ hi) := by
    rw [← hu]
    constructor
    · intro h
      apply Classical.byContradiction; intro hc
      have : hi / 2 ^ 63 = 0 := Nat.div_eq_of_lt (by omega)
      omega
    · intro h
      have : 1 ≤ hi / 2 ^ 63 := by
        rw [Nat.le_div_iff_mul_le (Nat.two_pow_pos _)]; omega
      omega
  have hm0up : hi / 2 ^ sh < 2 * 2 ^ p := by
    rw [Nat.div_lt_iff_lt_mul (Nat.two_pow_pos _), ← Nat.pow_succ', ← Nat.pow_add]
    by_cases h1 : u = 1
    · rw [show p + 1 + sh = 64 by omega]; exact hhi_lt
    · have : ¬ 2 ^ 63 ≤ hi := fun h => h1 (hu_iff.mpr h)
      rw [show p + 1 + sh = 63 by omega]; omega
  have hTT : 2 ^ p = 2 * 2 ^ (p - 1) := two_pow_pred (by omega)
  have hp63 : 2 * 2 ^ p ≤ 2 ^ 63 := by
    rw [← Nat.pow_succ']; exact Nat.pow_le_pow_right (by decide) (by omega)
  -- x = m0 >> t
  have hxeq : hi / 2 ^ sh / 2 ^ t = N / (D' * 2 ^ t) := by
    rw [hm0eq, Nat.div_div_eq_div_mul]
  have hstep := round_step N (D' * 2 ^ t) (hi / 2 ^ sh / 2 ^ t) false (Nat.mul_pos hD (Nat.two_pow_pos t)) hxeq
    (by rw [hxeq]; constructor; intro h; exact absurd h (by decide); intro h; exact absurd h hnotie)
  simp only [Bool.false_eq_true, if_false] at hstep
  have hxlt : hi / 2 ^ sh / 2 ^ t < 2 ^ p := by
    rw [Nat.div_lt_iff_lt_mul (Nat.two_pow_pos _)]
    have : 2 ^ p * 2 ≤ 2 ^ p * 2 ^ t := Nat.mul_le_mul_left _ (by
      calc 2 = 2 ^ 1 := rfl
        _ ≤ 2 ^ t := Nat.pow_le_pow_right (by decide) ht)
    omega
  generalize hxv : hi / 2 ^ sh / 2 ^ t = x at *
  have hq0le : (x + x % 2) / 2 ≤ 2 ^ (p - 1) := by omega
  rw [← hstep]
  have hinf : F.fmt.infBits = (2 ^ eb - 1) * 2 ^ (p - 1) := by rw [lay.fmt]; rfl
  have hM3 : 3 ≤ 2 ^ eb - 1 := by
    have : 2 ^ 2 ≤ 2 ^ eb := Nat.pow_le_pow_right (by decide) heb
    omega
  have hT := Nat.two_pow_pos (p - 1)
  have henc : encode F.fmt 0 ((x + x % 2) / 2) = (x + x % 2) / 2 := by
    unfold encode
    rw [Nat.zero_mul, Nat.zero_add, hinf, if_neg]
    have : 3 * 2 ^ (p - 1) ≤ (2 ^ eb - 1) * 2 ^ (p - 1) := Nat.mul_le_mul_right _ hM3
    omega
  rw [henc]
  unfold cfRound shr
  simp only []
  rw [hms]
  have hext : litPrecisionExtra = 3 := rfl
  rw [hext, hu]
  have hsh : u + 64 - (p - 1) - 3 = u + 62 - p := by omega
  rw [hsh, hshv, hpw2]
  rw [if_pos (by omega)]
  have hlim : litSubnormalLimit = 64 := rfl
  rw [hlim]
  have htt : (-(1 - (t : Int)) + 1) = (t : Int) := by omega
  rw [htt]
  by_cases h64 : (t : Int) ≥ 64
  · rw [if_pos h64]
    have hx0 : x = 0 := by
      rw [← hxv]
      apply Nat.div_eq_of_lt
      calc hi / 2 ^ sh < 2 * 2 ^ p := hm0up
        _ ≤ 2 ^ 63 := hp63
        _ ≤ 2 ^ t := Nat.pow_le_pow_right (by decide) (by omega)
    subst hx0
    exact ⟨_, rfl, Int.le_refl _, by rw [show fpZero = ⟨0, 0⟩ from rfl, ext_zero lay], Nat.zero_le _⟩
  · rw [if_neg h64, Int.toNat_natCast, hxv]
    have hwrap : wrap64 (x + x % 2) = x + x % 2 := by
      unfold wrap64; apply Nat.mod_eq_of_lt; omega
    rw [hwrap, Nat.pow_one]
    have hs1 : shl64 1 (p - 1) = 2 ^ (p - 1) := by
      unfold shl64; rw [Nat.one_mul]
      exact Nat.mod_eq_of_lt (Nat.pow_lt_pow_right (by decide) (by omega))
    rw [hs1]
    have hbits : F.C.bits.toNat = p + eb := by rw [lay.bits]; rfl
    by_cases hq : (x + x % 2) / 2 ≥ 2 ^ (p - 1)
    · have heq : (x + x % 2) / 2 = 2 ^ (p - 1) := by omega
      simp only [if_pos hq]
      refine ⟨_, rfl, show (0 : Int) ≤ 1 by decide, ?_, hq0le⟩
      rw [heq]
      have := ext_of_hidden F (p - 1) (p + eb) hms hbits
        (Nat.pow_lt_pow_right (by decide) (by omega)) hp64
      exact this
    · simp only [decide_eq_true_eq, if_neg hq]
      refine ⟨_, rfl, Int.le_refl _, ?_, hq0le⟩
      have hlt : (x + x % 2) / 2 < 2 ^ (p - 1) := by omega
      have h2 : 2 ^ (p - 1) ≤ 2 ^ (p + eb) := Nat.pow_le_pow_right (by decide) (by omega)
      have := ext_of_fields F (p - 1) (p + eb) hms hbits ((x + x % 2) / 2) 0 hlt (by omega) hp64
      simpa using this

/-- the value link for a negative decimal exponent: with `L + A = a + e + k` the half-to-even quotient of
`w·2^a` by `2^A·5^e`, encoded at exponent field `k`, is `roundNE (w / 10^e)` -/
theorem roundNE_neg_link {f : Fmt} (hf : WF f) (w e k a A : Nat) (heq : L f + A = a + e + k)
    (h1 : 0 < k → 2 ^ (f.p - 1) ≤ rhe (w * 2 ^ a) (2 ^ A * 5 ^ e))
    (h2 : rhe (w * 2 ^ a) (2 ^ A * 5 ^ e) ≤ 2 * 2 ^ (f.p - 1))
    (hA : 0 < k → 2 ^ A * 5 ^ e * 2 ^ (f.p - 1) ≤ w * 2 ^ a) :
    roundNE f w (10 ^ e) = encode f k (rhe (w * 2 ^ a) (2 ^ A * 5 ^ e)) := by
  have h10 : 0 < 10 ^ e := Nat.pow_pos (by decide)
  rw [← roundNE_scale' hf (Nat.two_pow_pos (a - L f)) w h10]
  apply roundNE_of_scaled hf (Nat.ne_of_gt (Nat.mul_pos (Nat.two_pow_pos _) h10)) k _ _ (2 ^ (L f - a))
    (Nat.two_pow_pos _) (Nat.mul_pos (Nat.two_pow_pos _) (Nat.pow_pos (by decide))) ?_ ?_ h1 h2 hA
  · have : 2 ^ (a - L f) * 2 ^ L f = 2 ^ a * 2 ^ (L f - a) := by
      rw [← Nat.pow_add, ← Nat.pow_add]; refine two_pow_congr ?_; omega
    calc 2 ^ (a - L f) * w * 2 ^ L f = w * (2 ^ (a - L f) * 2 ^ L f) := by ring
      _ = w * (2 ^ a * 2 ^ (L f - a)) := by rw [this]
      _ = w * 2 ^ a * 2 ^ (L f - a) := by ring
  · have : 2 ^ (a - L f) * 2 ^ e * 2 ^ k = 2 ^ A * 2 ^ (L f - a) := by
      rw [← Nat.pow_add, ← Nat.pow_add, ← Nat.pow_add]; refine two_pow_congr ?_; omega
    calc 2 ^ (a - L f) * 10 ^ e * 2 ^ k = 2 ^ (a - L f) * (5 ^ e * 2 ^ e) * 2 ^ k := by
          rw [show (10 : Nat) ^ e = 5 ^ e * 2 ^ e by rw [← Nat.mul_pow]]
      _ = 5 ^ e * (2 ^ (a - L f) * 2 ^ e * 2 ^ k) := by ring
      _ = 5 ^ e * (2 ^ A * 2 ^ (L f - a)) := by rw [this]
      _ = 2 ^ A * 5 ^ e * 2 ^ (L f - a) := by ring

/-- no exact tie when the denominator carries a power of five that cannot divide a `u64` -/
theorem no_tie_of_big5 (e wn s Dq : Nat) (h28 : 28 ≤ e) (hwn0 : 0 < wn) (hwn2 : wn < 2 ^ 64) (hdvd : 5 ^ e ∣ Dq) :
    ¬ (wn * 2 ^ s) % Dq = 0 := by
  intro h
  have h1 : Dq ∣ wn * 2 ^ s := Nat.dvd_of_mod_eq_zero h
  have h2 : 5 ^ e ∣ wn * 2 ^ s := Nat.dvd_trans hdvd h1
  have hcop : Nat.Coprime (5 ^ e) (2 ^ s) := Nat.Coprime.pow e s (by decide)
  have h3 : 5 ^ e ≤ wn := Nat.le_of_dvd hwn0 (hcop.dvd_of_dvd_mul_right h2)
  have h5big : 2 ^ 64 < 5 ^ e := by
    calc 2 ^ 64 < 5 ^ 28 := by decide
      _ ≤ 5 ^ e := Nat.pow_le_pow_right (by decide) h28
  omega

theorem en_neg_normal (e b u lz bias sh p Lf En : Nat) (hshv : u + 62 - p = sh) (hL : Lf = bias + (p - 1) - 1)
    (hu : u ≤ 1) (hp : 2 ≤ p) (hp61 : p ≤ 61) (hL127 : 127 ≤ bias + (p - 1) - 1)
    (hpw : (63 : Int) - e - b + u - lz + bias = ((En + 1 : Nat) : Int)) :
    Lf + (sh + 129) = lz + (b + 127) + e + En := by omega

theorem en_neg_sub (e b u lz bias sh p Lf t : Nat) (hshv : u + 62 - p = sh) (hL : Lf = bias + (p - 1) - 1)
    (hu : u ≤ 1) (hp : 2 ≤ p) (hp61 : p ≤ 61) (hL127 : 127 ≤ bias + (p - 1) - 1)
    (hpw : (63 : Int) - e - b + u - lz + bias = 1 - (t : Int)) :
    Lf + (sh + 129 + t) = lz + (b + 127) + e + 0 := by omega

theorem dpow_normal (sh e : Nat) : 2 ^ sh * 2 ^ 64 * (2 ^ 64 * 5 ^ e) * 2 = 2 ^ (sh + 129) * 5 ^ e := by
  rw [Nat.pow_add]; ring

theorem dpow_sub (sh e t : Nat) : 2 ^ sh * 2 ^ 64 * (2 ^ 64 * 5 ^ e) * 2 ^ t * 2 = 2 ^ (sh + 129 + t) * 5 ^ e := by
  rw [Nat.pow_add, Nat.pow_add]; ring

/-- **`cfRound` on a product with `lo ≥ 2`, subnormal branch**: the answer encodes the half-to-even quotient of the
computed `z = hi·2^64 + lo` -/
theorem cfRound_computed_sub {F p eb sm lg rlo rhi} (LL : LemLayout F p eb sm lg rlo rhi) (q : Int) (lo hi lz : Nat)
    (hlo2 : 2 ≤ lo) (hlo : lo < 2 ^ 64) (hhi_lt : hi < 2 ^ 64) (hhi_ge : 2 ^ 62 ≤ hi) (u sh : Nat)
    (hu : hi / 2 ^ 63 = u) (hshv : u + 62 - p = sh) (t : Nat) (ht : 1 ≤ t)
    (hpw2 : power (wrapI32 q) + (u : Int) - (lz : Int) - F.C.minimumExponent = 1 - (t : Int)) :
    ∃ fp, cfRound F q lo hi lz = .ok fp ∧ 0 ≤ fp.exp ∧
      extendedToFloat F fp = encode F.fmt 0 (rhe (hi * 2 ^ 64 + lo) (2 ^ sh * 2 ^ 64 * 2 ^ t * 2)) ∧
      rhe (hi * 2 ^ 64 + lo) (2 ^ sh * 2 ^ 64 * 2 ^ t * 2) ≤ 2 ^ (p - 1) := by
  have hB := Nat.two_pow_pos 64
  have hzB : (hi * 2 ^ 64 + lo) / 2 ^ 64 = hi := by
    rw [Nat.mul_comm, Nat.mul_add_div hB, Nat.div_eq_of_lt hlo, Nat.add_zero]
  have hquot : hi / 2 ^ sh = (hi * 2 ^ 64 + lo) / (2 ^ sh * 2 ^ 64) := by
    rw [Nat.mul_comm (2 ^ sh), ← Nat.div_div_eq_div_mul, hzB]
  apply cfRound_sub LL q lo hi lz hhi_lt hhi_ge u sh hu hshv (hi * 2 ^ 64 + lo) (2 ^ sh * 2 ^ 64) t
    (Nat.mul_pos (Nat.two_pow_pos _) hB) hquot ht ?_ hpw2
  intro h
  have h1 : 2 ^ 64 ∣ hi * 2 ^ 64 + lo :=
    Nat.dvd_trans ⟨2 ^ sh * 2 ^ t, by ring⟩ (Nat.dvd_of_mod_eq_zero h.1)
  have h2 : 2 ^ 64 ∣ lo := (Nat.dvd_add_right ⟨hi, Nat.mul_comm _ _⟩).mp h1
  have := Nat.le_of_dvd (by omega) h2
  omega

theorem en_lossy_neg_normal (e b u lz bias sh p Lf En : Nat) (hshv : u + 62 - p = sh) (hL : Lf = bias + (p - 1) - 1)
    (hu : u ≤ 1) (hp : 2 ≤ p) (hp61 : p ≤ 61) (hL127 : 127 ≤ bias + (p - 1) - 1) (hb66 : 66 ≤ b)
    (hpw : (63 : Int) - e - b + u - lz + bias = ((En + 1 : Nat) : Int)) :
    (lz + (b + 127) + e - 64) + En = sh + 65 + Lf := by omega

theorem en_lossy_neg_sub (e b u lz bias sh p Lf t : Nat) (hshv : u + 62 - p = sh) (hL : Lf = bias + (p - 1) - 1)
    (hu : u ≤ 1) (hp : 2 ≤ p) (hp61 : p ≤ 61) (hL127 : 127 ≤ bias + (p - 1) - 1) (hb66 : 66 ≤ b)
    (hpw : (63 : Int) - e - b + u - lz + bias = 1 - (t : Int)) :
    (lz + (b + 127) + e - 64) + 0 = sh + 65 + t + Lf := by omega

/-- the lossy answer on a fall-back input of a row `−e ≤ −28` (normal, subnormal or zero) -/
theorem lossyOK_neg {F p eb sm lg rlo rhi} (LL : LemLayout F p eb sm lg rlo rhi) (e b lz hi lo w : Nat)
    (hb66 : 66 ≤ b) (hlz : lz ≤ 63) (hlo : lo < 2 ^ 64) (hall : lo + 1 = 2 ^ 64)
    (hhi : hi < 2 ^ 64) (hhi62 : 2 ^ 62 ≤ hi)
    (hpow : power (wrapI32 (-(e : Int))) = 63 - (e : Int) - (b : Int))
    (hlossy : computeFloat F (-(e : Int)) w true = cfRound F (-(e : Int)) lo hi lz)
    (hzl : (hi * 2 ^ 64 + lo) * (2 ^ 64 * 5 ^ e) ≤ w * 2 ^ lz * 2 ^ (b + 127))
    (hzu : w * 2 ^ lz * 2 ^ (b + 127) * 2 ^ 61 ≤ (hi * 2 ^ 64 + lo) * (2 ^ 64 * 5 ^ e) * (2 ^ 61 + 1)) :
    LossyOK F (-(e : Int)) w w (10 ^ e) := by
  have lay := LL.lay
  have hf := lay.wf
  have hp := lay.hp; have hp64 := lay.hp64; have heb := lay.heb
  have hfp : F.fmt.p = p := by rw [lay.fmt]
  have hp61 : p ≤ 61 := by
    have h1 := lay.hpb
    have : eb ≠ 2 := by intro h; subst h; omega
    omega
  generalize hu : hi / 2 ^ 63 = u
  generalize hshv : u + 62 - p = sh
  have hu01 : u ≤ 1 := by
    rw [← hu]
    have : hi / 2 ^ 63 < 2 := by
      rw [Nat.div_lt_iff_lt_mul (Nat.two_pow_pos _)]; omega
    omega
  have hL := L_eq lay
  have hL127 := lay.hL127
  have hpwv : power (wrapI32 (-(e : Int))) + (u : Int) - (lz : Int) - F.C.minimumExponent =
      (63 : Int) - e - b + u - lz + ((2 ^ (eb - 1) - 1 : Nat) : Int) := by
    rw [hpow, LL.minimum]; omega
  have h10 : (10 : Nat) ^ e = 5 ^ e * 2 ^ e := by rw [← Nat.mul_pow]
  -- the value bounds, common to both branches
  have hb1 : (hi * 2 ^ 64 + lo) * 10 ^ e ≤ w * 2 ^ (lz + (b + 127) + e - 64) := by
    have h1 : ((hi * 2 ^ 64 + lo) * 5 ^ e) * 2 ^ 64 ≤ w * 2 ^ (lz + (b + 127)) := by
      calc ((hi * 2 ^ 64 + lo) * 5 ^ e) * 2 ^ 64 = (hi * 2 ^ 64 + lo) * (2 ^ 64 * 5 ^ e) := by ring
        _ ≤ w * 2 ^ lz * 2 ^ (b + 127) := hzl
        _ = w * 2 ^ (lz + (b + 127)) := by rw [Nat.pow_add 2 lz]; ring
    have h2 := pow_shift_le ((hi * 2 ^ 64 + lo) * 5 ^ e) w _ _ e (lz + (b + 127) + e - 64) h1 (by omega)
    calc (hi * 2 ^ 64 + lo) * 10 ^ e = ((hi * 2 ^ 64 + lo) * 5 ^ e) * 2 ^ e := by rw [h10]; ring
      _ ≤ w * 2 ^ (lz + (b + 127) + e - 64) := h2
  have hb2 : w * 2 ^ (lz + (b + 127) + e - 64) * 2 ^ 61 ≤ (hi * 2 ^ 64 + lo) * 10 ^ e * (2 ^ 61 + 1) := by
    have h1 : (w * 2 ^ 61) * 2 ^ (lz + (b + 127)) ≤ ((hi * 2 ^ 64 + lo) * 5 ^ e * (2 ^ 61 + 1)) * 2 ^ 64 := by
      calc (w * 2 ^ 61) * 2 ^ (lz + (b + 127)) = w * 2 ^ lz * 2 ^ (b + 127) * 2 ^ 61 := by
            rw [Nat.pow_add 2 lz]; ring
        _ ≤ (hi * 2 ^ 64 + lo) * (2 ^ 64 * 5 ^ e) * (2 ^ 61 + 1) := hzu
        _ = ((hi * 2 ^ 64 + lo) * 5 ^ e * (2 ^ 61 + 1)) * 2 ^ 64 := by ring
    have h2 := pow_shift_le (w * 2 ^ 61) ((hi * 2 ^ 64 + lo) * 5 ^ e * (2 ^ 61 + 1)) _ _
      (lz + (b + 127) + e - 64) e h1 (by omega)
    calc w * 2 ^ (lz + (b + 127) + e - 64) * 2 ^ 61 = (w * 2 ^ 61) * 2 ^ (lz + (b + 127) + e - 64) := by ring
      _ ≤ ((hi * 2 ^ 64 + lo) * 5 ^ e * (2 ^ 61 + 1)) * 2 ^ e := h2
      _ = (hi * 2 ^ 64 + lo) * 10 ^ e * (2 ^ 61 + 1) := by rw [h10]; ring
  have hd' : 0 < 2 ^ (lz + (b + 127) + e - 64) := Nat.two_pow_pos _
  by_cases hnormal : (1 : Int) ≤ (63 : Int) - e - b + u - lz + ((2 ^ (eb - 1) - 1 : Nat) : Int)
  · obtain ⟨En, hEn⟩ : ∃ En : Nat, (63 : Int) - e - b + u - lz + ((2 ^ (eb - 1) - 1 : Nat) : Int) = ((En + 1 : Nat) : Int) :=
      ⟨((63 : Int) - e - b + u - lz + ((2 ^ (eb - 1) - 1 : Nat) : Int) - 1).toNat, by omega⟩
    obtain ⟨fp, hfp1, hfp2, hfp3, hq0lo, hq0hi, hm0lo⟩ := cfRound_computed_normal LL (-(e : Int)) lo hi lz (by omega) hlo
      hhi hhi62 u sh hu hshv En (by rw [hpwv, hEn])
    refine ⟨fp, hi * 2 ^ 64 + lo, 2 ^ (lz + (b + 127) + e - 64), by rw [hlossy]; exact hfp1, hfp2, hd', ?_, hb1, hb2⟩
    rw [hfp3]
    symm
    apply roundNE_of_scaled hf (Nat.ne_of_gt hd') En (hi * 2 ^ 64 + lo) _ (2 ^ L F.fmt)
      (Nat.two_pow_pos _) (Nat.mul_pos (Nat.mul_pos (Nat.two_pow_pos _) (Nat.two_pow_pos _)) (by decide)) rfl
    · rw [show ∀ a c : Nat, 2 ^ a * 2 ^ 64 * 2 * 2 ^ c = 2 ^ (a + 65 + c) from fun a c => by
        rw [Nat.pow_add, Nat.pow_add]; ring, ← Nat.pow_add]
      exact two_pow_congr (en_lossy_neg_normal e b u lz (2 ^ (eb - 1) - 1) sh p (L F.fmt) En hshv hL hu01 hp hp61
        hL127 hb66 hEn)
    · intro _; rw [hfp]; exact hq0lo
    · rw [hfp]; exact hq0hi
    · intro _
      rw [hfp]
      have hTT : 2 ^ p = 2 * 2 ^ (p - 1) := two_pow_pred (by omega)
      have hdm := Nat.div_mul_le_self hi (2 ^ sh)
      calc 2 ^ sh * 2 ^ 64 * 2 * 2 ^ (p - 1) = (2 ^ p * 2 ^ sh) * 2 ^ 64 := by rw [hTT]; ring
        _ ≤ (hi / 2 ^ sh * 2 ^ sh) * 2 ^ 64 := Nat.mul_le_mul_right _ (Nat.mul_le_mul_right _ hm0lo)
        _ ≤ hi * 2 ^ 64 := Nat.mul_le_mul_right _ hdm
        _ ≤ hi * 2 ^ 64 + lo := Nat.le_add_right _ _
  · obtain ⟨t, ht⟩ : ∃ t : Nat, (63 : Int) - e - b + u - lz + ((2 ^ (eb - 1) - 1 : Nat) : Int) = 1 - (t : Int) :=
      ⟨(1 - ((63 : Int) - e - b + u - lz + ((2 ^ (eb - 1) - 1 : Nat) : Int))).toNat, by omega⟩
    obtain ⟨fp, hfp1, hfp2, hfp3, hq0le⟩ := cfRound_computed_sub LL (-(e : Int)) lo hi lz (by omega) hlo
      hhi hhi62 u sh hu hshv t (by omega) (by rw [hpwv, ht])
    refine ⟨fp, hi * 2 ^ 64 + lo, 2 ^ (lz + (b + 127) + e - 64), by rw [hlossy]; exact hfp1, hfp2, hd', ?_, hb1, hb2⟩
    rw [hfp3]
    symm
    apply roundNE_of_scaled hf (Nat.ne_of_gt hd') 0 (hi * 2 ^ 64 + lo) _ (2 ^ L F.fmt)
      (Nat.two_pow_pos _) (Nat.mul_pos (Nat.mul_pos (Nat.mul_pos (Nat.two_pow_pos _) (Nat.two_pow_pos _))
        (Nat.two_pow_pos _)) (by decide)) rfl
    · rw [show ∀ a c d : Nat, 2 ^ a * 2 ^ 64 * 2 ^ c * 2 * 2 ^ d = 2 ^ (a + 65 + c + d) from fun a c d => by
        rw [Nat.pow_add, Nat.pow_add, Nat.pow_add]; ring, ← Nat.pow_add]
      exact two_pow_congr (en_lossy_neg_sub e b u lz (2 ^ (eb - 1) - 1) sh p (L F.fmt) t hshv hL hu01 hp hp61
        hL127 hb66 ht)
    · intro h; exact absurd h (Nat.lt_irrefl 0)
    · rw [hfp]; have := Nat.two_pow_pos (p - 1); omega
    · intro h; exact absurd h (Nat.lt_irrefl 0)

/-- **`compute_float` on the reciprocal rows truncated down**, `SMALLEST_POWER_OF_TEN ≤ −e ≤ −28`: it answers, and a
valid answer — normal, subnormal or zero — is `roundNE (w / 10^e)`. -/
theorem computeFloat_trunc_neg {F p eb sm lg rlo rhi} (LL : LemLayout F p eb sm lg rlo rhi) (hrlo : rlo < 28)
    (e : Nat) (h28 : 28 ≤ e) (hesm : e ≤ sm) (w : Nat) (hw0 : w ≠ 0) (hw : w < 2 ^ 64) :
    ∃ fp, computeFloat F (-(e : Int)) w false = .ok fp ∧
      (0 ≤ fp.exp → extendedToFloat F fp = roundNE F.fmt w (10 ^ e)) ∧
      (fp.exp < 0 → EstOK F p fp w (10 ^ e) ∧ LossyOK F (-(e : Int)) w w (10 ^ e)) := by
  have lay := LL.lay
  have hf := lay.wf
  have hp := lay.hp; have hp64 := lay.hp64; have heb := lay.heb
  have hms := lay.msNat
  have hfp : F.fmt.p = p := by rw [lay.fmt]
  have hp61 : p ≤ 61 := by
    have h1 := lay.hpb
    have : eb ≠ 2 := by intro h; subst h; omega
    omega
  have hsm342 := LL.sm342
  obtain ⟨hi5, lo5, hrow, hhi5, hlo5, hhi5n, hb66, hTlo, hThi, hpow, hb795⟩ := rows_neg e h28 (by omega)
  obtain ⟨hlz, hwn1, hwn2, hshl⟩ := clz_norm hw0 hw
  have hidx : (-(e : Int) + 342).toNat = 342 - e := by omega
  have hprec : F.ms + litPrecisionExtra = p + 2 := by rw [hms]; show p - 1 + 3 = p + 2; omega
  obtain ⟨lo, hi, hcpa, hlo, hhi, hzlow, hzup⟩ := cpa_bounds (-(e : Int)) (by omega) (by omega) hi5 lo5
    (by rw [hidx]; exact hrow) hhi5 hlo5 (w * 2 ^ clz64 w) (F.ms + litPrecisionExtra) (by rw [hprec]; omega) hwn2
  have hlossy : computeFloat F (-(e : Int)) w true = cfRound F (-(e : Int)) lo hi (clz64 w) :=
    computeFloat_lossy_eq F (-(e : Int)) w lo hi
      (by intro h; rcases h with h | h; exact hw0 h; rw [LL.smallest] at h; omega)
      (by rw [LL.largest]; omega) (by rw [hshl]; exact hcpa)
  unfold computeFloat
  rw [if_neg (by intro h; rcases h with h | h; exact hw0 h; rw [LL.smallest] at h; omega),
    if_neg (by rw [LL.largest]; omega)]
  simp only [hshl, hcpa]
  generalize hlzv : clz64 w = lz at *
  generalize hb5 : bitlen (5 ^ e) = b at *
  have hAll : litAllOnes = 2 ^ 64 - 1 := by decide
  have hunsafe : (decide (litSafeLo ≤ -(e : Int)) && decide (-(e : Int) ≤ litSafeHi)) = false := by
    have h1 : decide (litSafeLo ≤ -(e : Int)) = false := by
      unfold litSafeLo; simp only [decide_eq_false_iff_not]; omega
    rw [h1]; simp
  rw [hunsafe]
  have hwn0 : 0 < w * 2 ^ lz := by have := Nat.two_pow_pos 63; omega
  have h5pos : 0 < 5 ^ e := Nat.pow_pos (by decide)
  have hNlo : w * 2 ^ lz * (hi5 * 2 ^ 64 + lo5) * 5 ^ e ≤ w * 2 ^ lz * 2 ^ (b + 127) := by
    rw [Nat.mul_assoc]; exact Nat.mul_le_mul_left _ hTlo
  have hNhi : w * 2 ^ lz * 2 ^ (b + 127) < (w * 2 ^ lz * (hi5 * 2 ^ 64 + lo5) + w * 2 ^ lz) * 5 ^ e := by
    calc w * 2 ^ lz * 2 ^ (b + 127) < w * 2 ^ lz * ((hi5 * 2 ^ 64 + lo5 + 1) * 5 ^ e) :=
          Nat.mul_lt_mul_of_pos_left hThi hwn0
      _ = (w * 2 ^ lz * (hi5 * 2 ^ 64 + lo5) + w * 2 ^ lz) * 5 ^ e := by ring
  by_cases hl : lo = litAllOnes
  · -- the fall-back: an invalid-marked answer
    have hc : (!false && lo == litAllOnes && !false) = true := by rw [hl]; simp
    rw [if_pos hc]
    refine ⟨_, rfl, fun hv => ?_, fun _ => ?_⟩
    · have := computeErrorScaled_neg lay (-(e : Int)) hi lz (by rw [hpow]; omega)
      omega
    · have hall : lo + 1 = 2 ^ 64 := by
        rw [hl, hAll]; exact Nat.sub_add_cancel (Nat.two_pow_pos 64)
      obtain ⟨hhi62, hlow, hupp⟩ := fallback_bounds (w * 2 ^ lz) hi5 lo5 lo hi (w * 2 ^ lz * 2 ^ (b + 127))
        (5 ^ e) hwn1 hwn2 hhi5n hhi hzlow (hzup.imp id (fun h => ⟨h.2.1, h.2.2⟩)) h5pos hNlo hNhi hall
      refine ⟨estOK_neg lay e b lz hi w hb795 (by omega) hlz hhi hhi62 hpow hlow hupp, ?_⟩
      obtain ⟨_, hzl, hzu⟩ := lossy_bounds (w * 2 ^ lz) hi5 lo5 lo hi (w * 2 ^ lz * 2 ^ (b + 127))
        (5 ^ e) hwn1 hwn2 hhi5n hhi hzlow (hzup.imp id (fun h => ⟨h.2.1, h.2.2⟩)) h5pos hNlo hNhi hall
      exact lossyOK_neg LL e b lz hi lo w hb66 hlz hlo hall hhi hhi62 hpow hlossy hzl hzu
  · have hc : (!false && lo == litAllOnes && !false) = false := by
      have : (lo == litAllOnes) = false := by simp [hl]
      rw [this]; simp
    rw [hc]
    simp only [Bool.false_eq_true, if_false]
    have hlo2 : lo + 2 ≤ 2 ^ 64 := by rw [hAll] at hl; omega
    generalize hu : hi / 2 ^ 63 = u
    generalize hshv : u + 62 - p = sh
    have hmb : 64 - (F.ms + litPrecisionExtra) = 62 - p := by rw [hprec]; omega
    rw [hmb] at hzup
    obtain ⟨hhi62, hquot⟩ := upper_bits_lower hp61 (w * 2 ^ lz) hi5 lo5 lo hi (w * 2 ^ lz * 2 ^ (b + 127)) (5 ^ e)
      hwn1 hwn2 hhi5n hlo hhi hzlow hzup h5pos hNlo hNhi (Or.inl hlo2) u sh hu hshv
    have hu01 : u ≤ 1 := by
      rw [← hu]
      have : hi / 2 ^ 63 < 2 := by
        rw [Nat.div_lt_iff_lt_mul (Nat.two_pow_pos _)]; omega
      omega
    have hB := Nat.two_pow_pos 64
    have hDpos : 0 < 2 ^ sh * 2 ^ 64 * (2 ^ 64 * 5 ^ e) :=
      Nat.mul_pos (Nat.mul_pos (Nat.two_pow_pos _) hB) (Nat.mul_pos hB h5pos)
    have hdvd : 5 ^ e ∣ 2 ^ sh * 2 ^ 64 * (2 ^ 64 * 5 ^ e) := ⟨2 ^ sh * 2 ^ 64 * 2 ^ 64, by ring⟩
    have hNw : w * 2 ^ lz * 2 ^ (b + 127) = w * 2 ^ (lz + (b + 127)) := by
      rw [Nat.pow_add 2 lz, Nat.mul_assoc]
    have hL := L_eq lay
    have hL127 := lay.hL127
    have hbias := lay.bias
    have hpwv : power (wrapI32 (-(e : Int))) + (u : Int) - (lz : Int) - F.C.minimumExponent =
        (63 : Int) - e - b + u - lz + ((2 ^ (eb - 1) - 1 : Nat) : Int) := by
      rw [hpow, LL.minimum]; omega
    by_cases hnormal : (1 : Int) ≤ (63 : Int) - e - b + u - lz + ((2 ^ (eb - 1) - 1 : Nat) : Int)
    · -- normal result
      obtain ⟨En, hEn⟩ : ∃ En : Nat, (63 : Int) - e - b + u - lz + ((2 ^ (eb - 1) - 1 : Nat) : Int) = ((En + 1 : Nat) : Int) :=
        ⟨((63 : Int) - e - b + u - lz + ((2 ^ (eb - 1) - 1 : Nat) : Int) - 1).toNat, by omega⟩
      have htie : ((decide (lo ≤ litTieLo) && decide (-(e : Int) ≥ F.C.minExponentRoundToEven) &&
          decide (-(e : Int) ≤ F.C.maxExponentRoundToEven) &&
          (hi / 2 ^ sh % (litTieMask + 1) == litTieVal) &&
          (shl64 (hi / 2 ^ sh) sh == hi)) = true) ↔
          (w * 2 ^ lz * 2 ^ (b + 127) % (2 ^ sh * 2 ^ 64 * (2 ^ 64 * 5 ^ e)) = 0 ∧
            w * 2 ^ lz * 2 ^ (b + 127) / (2 ^ sh * 2 ^ 64 * (2 ^ 64 * 5 ^ e)) % 4 = 1) := by
        have hLo : decide (-(e : Int) ≥ F.C.minExponentRoundToEven) = false := by
          rw [LL.minRTE]; simp only [decide_eq_false_iff_not]; omega
        rw [hLo]
        simp only [Bool.and_false, Bool.false_and, Bool.false_eq_true, false_iff, not_and]
        intro hmod0 _
        exact no_tie_of_big5 e (w * 2 ^ lz) (b + 127) _ h28 hwn0 hwn2 hdvd hmod0
      obtain ⟨fp, hfp1, hfp2, hfp3, hq0lo, hq0hi, hm0lo⟩ := cfRound_of_quot LL (-(e : Int)) lo hi lz hhi hhi62 u sh
        hu hshv (w * 2 ^ lz * 2 ^ (b + 127)) (2 ^ sh * 2 ^ 64 * (2 ^ 64 * 5 ^ e)) En hDpos hquot.symm htie
        (by rw [hpwv, hEn])
      refine ⟨fp, hfp1, fun _ => ?_, fun h => absurd h (by omega)⟩
      rw [hfp3, dpow_normal, hNw]
      rw [dpow_normal, hNw] at hq0lo hq0hi
      symm
      apply roundNE_neg_link hf w e En (lz + (b + 127)) (sh + 129)
        (en_neg_normal e b u lz (2 ^ (eb - 1) - 1) sh p (L F.fmt) En hshv hL hu01 hp hp61 hL127 hEn)
      · intro _; rw [hfp]; exact hq0lo
      · rw [hfp]; exact hq0hi
      · intro _
        rw [hfp, ← hNw, ← dpow_normal]
        have hdm := Nat.div_add_mod (w * 2 ^ lz * 2 ^ (b + 127)) (2 ^ sh * 2 ^ 64 * (2 ^ 64 * 5 ^ e))
        have hTT : 2 ^ p = 2 * 2 ^ (p - 1) := two_pow_pred (by omega)
        calc 2 ^ sh * 2 ^ 64 * (2 ^ 64 * 5 ^ e) * 2 * 2 ^ (p - 1)
            = 2 ^ sh * 2 ^ 64 * (2 ^ 64 * 5 ^ e) * 2 ^ p := by rw [hTT]; ring
          _ ≤ 2 ^ sh * 2 ^ 64 * (2 ^ 64 * 5 ^ e) *
              (w * 2 ^ lz * 2 ^ (b + 127) / (2 ^ sh * 2 ^ 64 * (2 ^ 64 * 5 ^ e))) :=
            Nat.mul_le_mul_left _ (by rw [hquot]; exact hm0lo)
          _ ≤ w * 2 ^ lz * 2 ^ (b + 127) := by omega
    · -- subnormal result (or zero)
      obtain ⟨t, ht⟩ : ∃ t : Nat, (63 : Int) - e - b + u - lz + ((2 ^ (eb - 1) - 1 : Nat) : Int) = 1 - (t : Int) :=
        ⟨(1 - ((63 : Int) - e - b + u - lz + ((2 ^ (eb - 1) - 1 : Nat) : Int))).toNat, by omega⟩
      have ht1 : 1 ≤ t := by omega
      have hdvd2 : 5 ^ e ∣ 2 ^ sh * 2 ^ 64 * (2 ^ 64 * 5 ^ e) * 2 ^ t := Dvd.dvd.mul_right hdvd _
      obtain ⟨fp, hfp1, hfp2, hfp3, hq0le⟩ := cfRound_sub LL (-(e : Int)) lo hi lz hhi hhi62 u sh hu hshv
        (w * 2 ^ lz * 2 ^ (b + 127)) (2 ^ sh * 2 ^ 64 * (2 ^ 64 * 5 ^ e)) t hDpos hquot.symm ht1
        (fun h => no_tie_of_big5 e (w * 2 ^ lz) (b + 127) _ h28 hwn0 hwn2 hdvd2 h.1)
        (by rw [hpwv, ht])
      refine ⟨fp, hfp1, fun _ => ?_, fun h => absurd h (by omega)⟩
      rw [hfp3, dpow_sub, hNw]
      rw [dpow_sub, hNw] at hq0le
      symm
      apply roundNE_neg_link hf w e 0 (lz + (b + 127)) (sh + 129 + t)
        (en_neg_sub e b u lz (2 ^ (eb - 1) - 1) sh p (L F.fmt) t hshv hL hu01 hp hp61 hL127 ht)
      · intro h; exact absurd h (Nat.lt_irrefl 0)
      · rw [hfp]; have := Nat.two_pow_pos (p - 1); omega
      · intro h; exact absurd h (Nat.lt_irrefl 0)

end LexVerif.Proof.Lemire
