import LexVerif.Proof.LemireStable
/-!
# Proof.LemireNeg — `compute_float` for `SMALLEST_POWER_OF_TEN ≤ q ≤ −28`

For `e = −q ≥ 28` the table row is a reciprocal truncated **down**: `T·5^e ≤ 2^(b+127) < (T+1)·5^e`,
`b = bitlen (5^e)`. The stability argument of `Proof.LemireStable` applies with the exact value
`N / Dz`, `N = wn·2^(b+127)`, `Dz = 2^64·5^e`: unless the low word is all ones (fall-back), the upper bits
`hi >> sh` are those of `N / Dz`. An exact tie would force `5^e ∣ wn`, impossible for `5^28 > 2^64`; hence
round-half-up on the round bit is round-half-even, in the normal branch and in the subnormal branch
(`cfRound_sub`: the further shift drops sticky bits that cannot matter).
-/
namespace LexVerif.Proof.Lemire
open LexVerif.Spec LexVerif.Model LexVerif.Model.Lemire
open LexVerif.Proof.RoundNE LexVerif.Proof.ExtRound LexVerif.Proof.BinaryCorrect

/-- what is needed of row `−e`, `28 ≤ e ≤ 342`, and of `power(−e)` (checked by evaluation) -/
def rowNegOk (e : Nat) : Bool :=
  match Gen.Lemire.powerOfFive128[342 - e]? with
  | some (hi5, lo5) =>
    decide (hi5 < 2 ^ 64) && decide (lo5 < 2 ^ 64) && decide (2 ^ 63 ≤ hi5) && decide (66 ≤ bitlen (5 ^ e)) &&
    decide ((hi5 * 2 ^ 64 + lo5) * 5 ^ e ≤ 2 ^ (bitlen (5 ^ e) + 127)) &&
    decide (2 ^ (bitlen (5 ^ e) + 127) < (hi5 * 2 ^ 64 + lo5 + 1) * 5 ^ e) &&
    decide (power (wrapI32 (-(e : Int))) = 63 - (e : Int) - (bitlen (5 ^ e) : Int)) && decide (bitlen (5 ^ e) ≤ 795)
  | none => false

theorem rows_neg_all : ((List.range 315).map (· + 28)).all rowNegOk = true := by decide +kernel

theorem rows_neg (e : Nat) (h28 : 28 ≤ e) (h342 : e ≤ 342) :
    ∃ hi5 lo5, Gen.Lemire.powerOfFive128[342 - e]? = some (hi5, lo5) ∧ hi5 < 2 ^ 64 ∧ lo5 < 2 ^ 64 ∧
      2 ^ 63 ≤ hi5 ∧ 66 ≤ bitlen (5 ^ e) ∧
      (hi5 * 2 ^ 64 + lo5) * 5 ^ e ≤ 2 ^ (bitlen (5 ^ e) + 127) ∧
      2 ^ (bitlen (5 ^ e) + 127) < (hi5 * 2 ^ 64 + lo5 + 1) * 5 ^ e ∧
      power (wrapI32 (-(e : Int))) = 63 - (e : Int) - (bitlen (5 ^ e) : Int) ∧ bitlen (5 ^ e) ≤ 795 := by
  have hall := rows_neg_all
  rw [List.all_eq_true] at hall
  have := hall e (by
    rw [List.mem_map]; exact ⟨e - 28, List.mem_range.mpr (by omega), by omega⟩)
  unfold rowNegOk at this
  cases hrow : Gen.Lemire.powerOfFive128[342 - e]? with
  | none => rw [hrow] at this; simp at this
  | some r =>
    obtain ⟨hi5, lo5⟩ := r
    rw [hrow] at this
    simp only [Bool.and_eq_true, decide_eq_true_eq] at this
    obtain ⟨⟨⟨⟨⟨⟨⟨h1, h2⟩, h3⟩, h4⟩, h5⟩, h6⟩, h7⟩, h8⟩ := this
    exact ⟨hi5, lo5, rfl, h1, h2, h3, h4, h5, h6, h7, h8⟩

/-- **upper bits, rows truncated down** (generic in the scale `Dn`: `2^k` for `q ≥ 28`, `5^e` for `q ≤ −28`): with
`X = wn·T`, the exact value `N ∈ [X, X + wn)·Dn`, `z = hi·2^64 + lo` as returned by `compute_product_approx`, and
`lo` not all ones (or `N = X·Dn`), `hi ≥ 2^62` and `hi >> sh` is the quotient of `N` by `2^(64+sh)·2^64·Dn`. -/
theorem upper_bits_lower {p : Nat} (hp61 : p ≤ 61) (wn hi5 lo5 lo hi N Dn : Nat)
    (hwn1 : 2 ^ 63 ≤ wn) (hwn2 : wn < 2 ^ 64) (hhi5n : 2 ^ 63 ≤ hi5) (hlo : lo < 2 ^ 64) (hhi : hi < 2 ^ 64)
    (hzlow : (hi * 2 ^ 64 + lo) * 2 ^ 64 ≤ wn * (hi5 * 2 ^ 64 + lo5))
    (hzup : wn * (hi5 * 2 ^ 64 + lo5) < (hi * 2 ^ 64 + lo + 1) * 2 ^ 64 ∨
      (hi % 2 ^ (62 - p) ≠ 2 ^ (62 - p) - 1 ∧ hi * 2 ^ 64 + lo = wn * hi5 ∧
        wn * (hi5 * 2 ^ 64 + lo5) < (hi * 2 ^ 64 + lo + 2 ^ 64) * 2 ^ 64))
    (hDn : 0 < Dn) (hNlo : wn * (hi5 * 2 ^ 64 + lo5) * Dn ≤ N)
    (hNhi : N < (wn * (hi5 * 2 ^ 64 + lo5) + wn) * Dn)
    (hsafe : lo + 2 ≤ 2 ^ 64 ∨ N = wn * (hi5 * 2 ^ 64 + lo5) * Dn)
    (u sh : Nat) (hu : hi / 2 ^ 63 = u) (hshv : u + 62 - p = sh) :
    2 ^ 62 ≤ hi ∧ N / (2 ^ sh * 2 ^ 64 * (2 ^ 64 * Dn)) = hi / 2 ^ sh := by
  have hX190 : 2 ^ 126 * 2 ^ 64 ≤ wn * (hi5 * 2 ^ 64 + lo5) := by
    have hT : 2 ^ 63 * 2 ^ 64 ≤ hi5 * 2 ^ 64 + lo5 :=
      Nat.le_trans (Nat.mul_le_mul_right (2 ^ 64) hhi5n) (Nat.le_add_right _ _)
    calc 2 ^ 126 * 2 ^ 64 = 2 ^ 63 * (2 ^ 63 * 2 ^ 64) := by
          rw [← Nat.pow_add, ← Nat.pow_add, ← Nat.pow_add]
      _ ≤ wn * (hi5 * 2 ^ 64 + lo5) := Nat.mul_le_mul hwn1 hT
  have hF126 : 2 ^ 126 ≤ wn * hi5 := by
    calc 2 ^ 126 = 2 ^ 63 * 2 ^ 63 := by rw [← Nat.pow_add]
      _ ≤ wn * hi5 := Nat.mul_le_mul hwn1 hhi5n
  generalize hXv : wn * (hi5 * 2 ^ 64 + lo5) = X at *
  have hz126 : 2 ^ 126 ≤ hi * 2 ^ 64 + lo := by
    rcases hzup with h | ⟨_, h, _⟩
    · have h1 := Nat.lt_of_le_of_lt hX190 h
      have h2 := Nat.lt_of_mul_lt_mul_right h1
      omega
    · rw [h]; exact hF126
  have hhi62 : 2 ^ 62 ≤ hi := by
    have e : (2 : Nat) ^ 126 = 2 ^ 62 * 2 ^ 64 := by rw [← Nat.pow_add]
    apply Classical.byContradiction; intro hcon
    have h1 : hi + 1 ≤ 2 ^ 62 := by omega
    have h2 := Nat.mul_le_mul_right (2 ^ 64) h1
    rw [Nat.add_mul, Nat.one_mul] at h2
    omega
  refine ⟨hhi62, ?_⟩
  have hB := Nat.two_pow_pos 64
  have hlowN : (hi * 2 ^ 64 + lo) * (2 ^ 64 * Dn) ≤ N := by
    calc (hi * 2 ^ 64 + lo) * (2 ^ 64 * Dn) = ((hi * 2 ^ 64 + lo) * 2 ^ 64) * Dn := by ring
      _ ≤ X * Dn := Nat.mul_le_mul_right _ hzlow
      _ ≤ N := hNlo
  have hmodlt := Nat.mod_lt hi (Nat.two_pow_pos sh)
  rcases hzup with h | ⟨hm, _, h⟩
  · rcases hsafe with hlo2 | hNX
    · apply quot_stable hi lo sh N _ 2 (2 ^ 64) hlowN ?_ ?_ (Nat.mul_pos hB hDn) hB
      · calc N < (X + wn) * Dn := hNhi
          _ ≤ ((hi * 2 ^ 64 + lo + 2) * 2 ^ 64) * Dn := Nat.mul_le_mul_right _ (by
              have : (hi * 2 ^ 64 + lo + 2) * 2 ^ 64 = (hi * 2 ^ 64 + lo + 1) * 2 ^ 64 + 2 ^ 64 := by ring
              omega)
          _ = (hi * 2 ^ 64 + lo + 2) * (2 ^ 64 * Dn) := by ring
      · exact room_of_lt (by omega) (by omega)
    · apply quot_stable hi lo sh N _ 1 (2 ^ 64) hlowN ?_ ?_ (Nat.mul_pos hB hDn) hB
      · rw [hNX]
        calc X * Dn < ((hi * 2 ^ 64 + lo + 1) * 2 ^ 64) * Dn := Nat.mul_lt_mul_of_pos_right h hDn
          _ = (hi * 2 ^ 64 + lo + 1) * (2 ^ 64 * Dn) := by ring
      · exact room_of_lt (by omega) (by omega)
  · have hu01 : u ≤ 1 := by
      rw [← hu]
      have : hi / 2 ^ 63 < 2 := by
        rw [Nat.div_lt_iff_lt_mul (Nat.two_pow_pos _)]; omega
      omega
    have hm2 := mod_not_allOnes (show 62 - p ≤ sh by omega) hm
    apply quot_stable hi lo sh N _ (2 ^ 64 + 1) (2 ^ 64) hlowN ?_ ?_ (Nat.mul_pos hB hDn) hB
    · calc N < (X + wn) * Dn := hNhi
        _ ≤ ((hi * 2 ^ 64 + lo + (2 ^ 64 + 1)) * 2 ^ 64) * Dn := Nat.mul_le_mul_right _ (by
            have : (hi * 2 ^ 64 + lo + (2 ^ 64 + 1)) * 2 ^ 64 =
                (hi * 2 ^ 64 + lo + 2 ^ 64) * 2 ^ 64 + 2 ^ 64 := by ring
            omega)
        _ = (hi * 2 ^ 64 + lo + (2 ^ 64 + 1)) * (2 ^ 64 * Dn) := by ring
    · exact room_of_lt2 hm2 (by omega)

/-- **the subnormal branch of `compute_float`, abstractly** (`power2 = 1 − t ≤ 0`): the `p + 1` bits `hi >> sh` are
shifted right by `t` more places and rounded half-up on the last bit; without an exact tie at that position this is
the half-to-even quotient of the exact value by `2·D'·2^t`, encoded with exponent field 0 (1 when it reaches `2^(p−1)`).
Covers the `−power2 + 1 ≥ 64 ⇒ 0` exit. -/
theorem cfRound_sub {F p eb sm lg rlo rhi} (LL : LemLayout F p eb sm lg rlo rhi) (q : Int) (lo hi lz : Nat)
    (hhi_lt : hi < 2 ^ 64) (hhi_ge : 2 ^ 62 ≤ hi) (u sh : Nat) (hu : hi / 2 ^ 63 = u) (hshv : u + 62 - p = sh)
    (N D' t : Nat) (hD : 0 < D') (hm0eq : hi / 2 ^ sh = N / D') (ht : 1 ≤ t)
    (hnotie : ¬ (N % (D' * 2 ^ t) = 0 ∧ N / (D' * 2 ^ t) % 4 = 1))
    (hpw2 : power (wrapI32 q) + (u : Int) - (lz : Int) - F.C.minimumExponent = 1 - (t : Int)) :
    ∃ fp, cfRound F q lo hi lz = .ok fp ∧ 0 ≤ fp.exp ∧
      extendedToFloat F fp = encode F.fmt 0 (rhe N (D' * 2 ^ t * 2)) ∧ rhe N (D' * 2 ^ t * 2) ≤ 2 ^ (p - 1) := by
  have lay := LL.lay
  have hf := lay.wf
  have hp := lay.hp; have hp64 := lay.hp64; have heb := lay.heb
  have hms := lay.msNat
  have hfp : F.fmt.p = p := by rw [lay.fmt]
  have hp61 : p ≤ 61 := by
    have h1 := lay.hpb
    have : eb ≠ 2 := by intro h; subst h; omega
    omega
  have hu01 : u ≤ 1 := by
    rw [← hu]
    have : hi / 2 ^ 63 < 2 := by
      rw [Nat.div_lt_iff_lt_mul (Nat.two_pow_pos _)]; omega
    omega
  have hu_iff : (u = 1 ↔ 2 ^ 63 ≤ hi) := by
    rw [← hu]
    constructor
    · intro h
      apply Classical.byContradiction; intro hc
      have : hi / 2 ^ 63 = 0 := Nat.div_eq_of_lt (by omega)
      omega
    · intro h
      have : 1 ≤ hi / 2 ^ 63 := by
        rw [Nat.le_div_iff_mul_le (Nat.two_pow_pos _)]; omega
      omega
  have hm0up : hi / 2 ^ sh < 2 * 2 ^ p := by
    rw [Nat.div_lt_iff_lt_mul (Nat.two_pow_pos _), ← Nat.pow_succ', ← Nat.pow_add]
    by_cases h1 : u = 1
    · rw [show p + 1 + sh = 64 by omega]; exact hhi_lt
    · have : ¬ 2 ^ 63 ≤ hi := fun h => h1 (hu_iff.mpr h)
      rw [show p + 1 + sh = 63 by omega]; omega
  have hTT : 2 ^ p = 2 * 2 ^ (p - 1) := two_pow_pred (by omega)
  have hp63 : 2 * 2 ^ p ≤ 2 ^ 63 := by
    rw [← Nat.pow_succ']; exact Nat.pow_le_pow_right (by decide) (by omega)
  -- x = m0 >> t
  have hxeq : hi / 2 ^ sh / 2 ^ t = N / (D' * 2 ^ t) := by
    rw [hm0eq, Nat.div_div_eq_div_mul]
  have hstep := round_step N (D' * 2 ^ t) (hi / 2 ^ sh / 2 ^ t) false (Nat.mul_pos hD (Nat.two_pow_pos t)) hxeq
    (by rw [hxeq]; constructor; intro h; exact absurd h (by decide); intro h; exact absurd h hnotie)
  simp only [Bool.false_eq_true, if_false] at hstep
  have hxlt : hi / 2 ^ sh / 2 ^ t < 2 ^ p := by
    rw [Nat.div_lt_iff_lt_mul (Nat.two_pow_pos _)]
    have : 2 ^ p * 2 ≤ 2 ^ p * 2 ^ t := Nat.mul_le_mul_left _ (by
      calc 2 = 2 ^ 1 := rfl
        _ ≤ 2 ^ t := Nat.pow_le_pow_right (by decide) ht)
    omega
  generalize hxv : hi / 2 ^ sh / 2 ^ t = x at *
  have hq0le : (x + x % 2) / 2 ≤ 2 ^ (p - 1) := by omega
  rw [← hstep]
  have hinf : F.fmt.infBits = (2 ^ eb - 1) * 2 ^ (p - 1) := by rw [lay.fmt]; rfl
  have hM3 : 3 ≤ 2 ^ eb - 1 := by
    have : 2 ^ 2 ≤ 2 ^ eb := Nat.pow_le_pow_right (by decide) heb
    omega
  have hT := Nat.two_pow_pos (p - 1)
  have henc : encode F.fmt 0 ((x + x % 2) / 2) = (x + x % 2) / 2 := by
    unfold encode
    rw [Nat.zero_mul, Nat.zero_add, hinf, if_neg]
    have : 3 * 2 ^ (p - 1) ≤ (2 ^ eb - 1) * 2 ^ (p - 1) := Nat.mul_le_mul_right _ hM3
    omega
  rw [henc]
  unfold cfRound shr
  simp only []
  rw [hms]
  have hext : litPrecisionExtra = 3 := rfl
  rw [hext, hu]
  have hsh : u + 64 - (p - 1) - 3 = u + 62 - p := by omega
  rw [hsh, hshv, hpw2]
  rw [if_pos (by omega)]
  have hlim : litSubnormalLimit = 64 := rfl
  rw [hlim]
  have htt : (-(1 - (t : Int)) + 1) = (t : Int) := by omega
  rw [htt]
  by_cases h64 : (t : Int) ≥ 64
  · rw [if_pos h64]
    have hx0 : x = 0 := by
      rw [← hxv]
      apply Nat.div_eq_of_lt
      calc hi / 2 ^ sh < 2 * 2 ^ p := hm0up
        _ ≤ 2 ^ 63 := hp63
        _ ≤ 2 ^ t := Nat.pow_le_pow_right (by decide) (by omega)
    subst hx0
    exact ⟨_, rfl, Int.le_refl _, by rw [show fpZero = ⟨0, 0⟩ from rfl, ext_zero lay], Nat.zero_le _⟩
  · rw [if_neg h64, Int.toNat_natCast, hxv]
    have hwrap : wrap64 (x + x % 2) = x + x % 2 := by
      unfold wrap64; apply Nat.mod_eq_of_lt; omega
    rw [hwrap, Nat.pow_one]
    have hs1 : shl64 1 (p - 1) = 2 ^ (p - 1) := by
      unfold shl64; rw [Nat.one_mul]
      exact Nat.mod_eq_of_lt (Nat.pow_lt_pow_right (by decide) (by omega))
    rw [hs1]
    have hbits : F.C.bits.toNat = p + eb := by rw [lay.bits]; rfl
    by_cases hq : (x + x % 2) / 2 ≥ 2 ^ (p - 1)
    · have heq : (x + x % 2) / 2 = 2 ^ (p - 1) := by omega
      simp only [if_pos hq]
      refine ⟨_, rfl, show (0 : Int) ≤ 1 by decide, ?_, hq0le⟩
      rw [heq]
      have := ext_of_hidden F (p - 1) (p + eb) hms hbits
        (Nat.pow_lt_pow_right (by decide) (by omega)) hp64
      exact this
    · simp only [decide_eq_true_eq, if_neg hq]
      refine ⟨_, rfl, Int.le_refl _, ?_, hq0le⟩
      have hlt : (x + x % 2) / 2 < 2 ^ (p - 1) := by omega
      have h2 : 2 ^ (p - 1) ≤ 2 ^ (p + eb) := Nat.pow_le_pow_right (by decide) (by omega)
      have := ext_of_fields F (p - 1) (p + eb) hms hbits ((x + x % 2) / 2) 0 hlt (by omega) hp64
      simpa using this

end LexVerif.Proof.Lemire
