import LexVerif.Proof.WriteIntBasic
import Mathlib.Tactic.Ring
import Mathlib.Tactic.Linarith
/-!
# Proof.Div128 — `mulhi::<u128,u64>` is the high word of the product; the Granlund–Montgomery identity;
`moderate_u128_divrem` / `fast_u128_divrem` compute quotient and remainder
-/
namespace LexVerif.Model.WriteInt
open LexVerif.Spec

theorem mulhi_core (A B C D : Nat) :
    (A * 2 ^ 128 + (B + C) * 2 ^ 64 + D) / 2 ^ 128
      = A + (C + D / 2 ^ 64) / 2 ^ 64 + (B + (C + D / 2 ^ 64) % 2 ^ 64) / 2 ^ 64 := by
  omega

theorem mul_lt_sq (a b : Nat) (ha : a < 2 ^ 64) (hb : b < 2 ^ 64) : a * b < 2 ^ 128 - 2 ^ 65 + 2 := by
  have h1 : a * b ≤ (2 ^ 64 - 1) * (2 ^ 64 - 1) := Nat.mul_le_mul (by omega) (by omega)
  have : (2 ^ 64 - 1) * (2 ^ 64 - 1) = 2 ^ 128 - 2 ^ 65 + 1 := by norm_num
  omega

/-- `mulhi::<u128, u64>(x, y) = ⌊x·y / 2^128⌋` -/
theorem mulhi128_spec (x y : Nat) (hx : x < 2 ^ 128) (hy : y < 2 ^ 128) : mulhi128 x y = x * y / 2 ^ 128 := by
  obtain ⟨x1, hx1⟩ : ∃ a, a = x / 2 ^ 64 := ⟨_, rfl⟩
  obtain ⟨x0, hx0⟩ : ∃ a, a = x % 2 ^ 64 := ⟨_, rfl⟩
  obtain ⟨y1, hy1⟩ : ∃ a, a = y / 2 ^ 64 := ⟨_, rfl⟩
  obtain ⟨y0, hy0⟩ : ∃ a, a = y % 2 ^ 64 := ⟨_, rfl⟩
  have bx1 : x1 < 2 ^ 64 := by omega
  have bx0 : x0 < 2 ^ 64 := by omega
  have by1 : y1 < 2 ^ 64 := by omega
  have by0 : y0 < 2 ^ 64 := by omega
  have ex : x = x1 * 2 ^ 64 + x0 := by omega
  have ey : y = y1 * 2 ^ 64 + y0 := by omega
  have hA := mul_lt_sq x1 y1 bx1 by1
  have hB := mul_lt_sq x1 y0 bx1 by0
  have hC := mul_lt_sq x0 y1 bx0 by1
  have hD := mul_lt_sq x0 y0 bx0 by0
  have hprod : x * y = (x1 * y1) * 2 ^ 128 + (x1 * y0 + x0 * y1) * 2 ^ 64 + x0 * y0 := by
    rw [ex, ey]; ring
  unfold mulhi128 w128
  simp only [← hx1, ← hx0, ← hy1, ← hy0]
  rw [hprod]
  generalize x1 * y1 = A at *
  generalize x1 * y0 = B at *
  generalize x0 * y1 = C at *
  generalize x0 * y0 = D at *
  have hres : (A * 2 ^ 128 + (B + C) * 2 ^ 64 + D) / 2 ^ 128 < 2 ^ 128 := by
    have : x * y < 2 ^ 128 * 2 ^ 128 := Nat.mul_lt_mul'' hx hy
    rw [← hprod]
    exact Nat.div_lt_of_lt_mul this
  omega

/-- Granlund–Montgomery: `2^(N+ℓ) ≤ m·d ≤ 2^(N+ℓ) + 2^ℓ` ⇒ `⌊n·m / 2^(N+ℓ)⌋ = ⌊n / d⌋` for `n < 2^N` -/
theorem mulhi_identity (N d m l n : Nat) (hd : 0 < d) (hlo : 2 ^ (N + l) ≤ m * d) (hhi : m * d ≤ 2 ^ (N + l) + 2 ^ l)
    (hn : n < 2 ^ N) : n * m / 2 ^ N / 2 ^ l = n / d := by
  rw [Nat.div_div_eq_div_mul, ← Nat.pow_add]
  obtain ⟨q, hq⟩ : ∃ q, q = n / d := ⟨_, rfl⟩
  rw [← hq]
  have hqd : q * d ≤ n := by rw [hq]; exact Nat.div_mul_le_self n d
  have hqd2 : n < (q + 1) * d := by
    rw [hq, Nat.mul_comm]; exact Nat.lt_mul_div_succ n hd
  have hP : 2 ^ (N + l) = 2 ^ N * 2 ^ l := Nat.pow_add 2 N l
  have hE : 0 < 2 ^ l := Nat.pow_pos (by omega)
  generalize 2 ^ (N + l) = P at *
  generalize 2 ^ l = E at *
  generalize 2 ^ N = T at *
  apply Nat.div_eq_of_lt_le
  · -- q * P ≤ n * m
    have h1 : q * P ≤ q * (m * d) := Nat.mul_le_mul_left q hlo
    have h2 : q * (m * d) = (q * d) * m := by ring
    have h3 : (q * d) * m ≤ n * m := Nat.mul_le_mul_right m hqd
    omega
  · -- n * m < (q + 1) * P   (multiply by d and cancel)
    apply Nat.lt_of_mul_lt_mul_right (a := d)
    have h1 : n * m * d = n * (m * d) := by ring
    have h2 : n * (m * d) ≤ n * (P + E) := Nat.mul_le_mul_left n hhi
    have h3 : n * E < T * E := Nat.mul_lt_mul_of_pos_right hn hE
    have h4 : (n + 1) * P ≤ ((q + 1) * d) * P := Nat.mul_le_mul_right P (by omega)
    have h5 : (q + 1) * P * d = ((q + 1) * d) * P := by ring
    have h6 : n * (P + E) = n * P + n * E := by ring
    have h7 : (n + 1) * P = n * P + P := by ring
    omega

/-- remainder computation `(n - quot·d) as u64` -/
theorem remOf_spec (n d : Nat) (hn : n < 2 ^ 128) (hd : 0 < d) (hd64 : d < 2 ^ 64) : remOf n (n / d) d = n % d := by
  have h1 : n / d * d ≤ n := Nat.div_mul_le_self n d
  have h2 : n / d * d + n % d = n := by rw [Nat.mul_comm]; exact Nat.div_add_mod n d
  have h3 : n % d < d := Nat.mod_lt n hd
  unfold remOf w128
  generalize n / d * d = p at *
  omega

def MulHiPre128 (d m l : Nat) : Prop := 0 < d ∧ m < 2 ^ 128 ∧ 2 ^ (128 + l) ≤ m * d ∧ m * d ≤ 2 ^ (128 + l) + 2 ^ l

instance (d m l : Nat) : Decidable (MulHiPre128 d m l) := by unfold MulHiPre128; infer_instance

theorem moderate_spec (n d f s : Nat) (hn : n < 2 ^ 128) (hd64 : d < 2 ^ 64) (hs : s < 128) (hpre : MulHiPre128 d f s) :
    moderateU128Divrem n d f s = .ok (n / d, n % d) := by
  obtain ⟨hd, hf, hlo, hhi⟩ := hpre
  unfold moderateU128Divrem
  rw [if_neg (by omega), mulhi128_spec n f hn hf, mulhi_identity 128 d f s n hd hlo hhi hn]
  show Res.ok (n / d, remOf n (n / d) d) = _
  rw [remOf_spec n d hn hd hd64]

theorem fast_spec (n d fast fs f s : Nat) (hn : n < 2 ^ 128) (hd64 : d < 2 ^ 64) (hs : s < 128) (hfs : fs < 128)
    (hfast : fast = 2 ^ (64 + fs)) (hdiv : d % 2 ^ fs = 0) (hpos : 0 < d / 2 ^ fs) (hpre : MulHiPre128 d f s) :
    fastU128Divrem n d fast fs f s = .ok (n / d, n % d) := by
  obtain ⟨hd, hf, hlo, hhi⟩ := hpre
  unfold fastU128Divrem
  rw [if_neg (by omega)]
  by_cases hlt : n < fast
  · rw [if_pos hlt, if_neg (by omega)]
    have h64 : n / 2 ^ fs < 2 ^ 64 := by
      rw [hfast, Nat.pow_add] at hlt
      exact Nat.div_lt_of_lt_mul (by rw [Nat.mul_comm]; exact hlt)
    have hq : n / 2 ^ fs % 2 ^ 64 / (d / 2 ^ fs) = n / d := by
      rw [Nat.mod_eq_of_lt h64, Nat.div_div_eq_div_mul, Nat.mul_div_cancel' (Nat.dvd_of_mod_eq_zero hdiv)]
    show Res.ok (n / 2 ^ fs % 2 ^ 64 / (d / 2 ^ fs), remOf n (n / 2 ^ fs % 2 ^ 64 / (d / 2 ^ fs)) d) = _
    rw [hq, remOf_spec n d hn hd hd64]
  · rw [if_neg hlt, mulhi128_spec n f hn hf, mulhi_identity 128 d f s n hd hlo hhi hn]
    show Res.ok (n / d, remOf n (n / d) d) = _
    rw [remOf_spec n d hn hd hd64]

theorem pow2_spec (n mask shr : Nat) (hn : n < 2 ^ 128) (hs : shr ≤ 64) (hm : mask = 2 ^ shr - 1) :
    pow2U128Divrem n mask shr = .ok (n / 2 ^ shr, n % 2 ^ shr) := by
  unfold pow2U128Divrem
  rw [if_neg (by omega), hm]
  have : Nat.land (2 ^ shr - 1) (n % 2 ^ 64) = n % 2 ^ shr := by
    show (2 ^ shr - 1) &&& (n % 2 ^ 64) = _
    rw [Nat.and_comm, Nat.and_two_pow_sub_one_eq_mod, Nat.mod_mod_of_dvd _ (Nat.pow_dvd_pow 2 hs)]
  rw [this]

/-- `div128_rem_1e10(n) = (n / 10^10, n % 10^10)` -/
theorem div128Rem1e10_spec (n : Nat) (hn : n < 2 ^ 128) :
    div128Rem1e10 n = .ok (n / 10000000000, n % 10000000000) := by
  unfold div128Rem1e10
  exact fast_spec n Lit.e10D Lit.e10Fast Lit.e10FastShr Lit.e10Factor Lit.e10FactorShr hn (by decide) (by decide)
    (by decide) (by decide) (by decide) (by decide) (by decide)

end LexVerif.Model.WriteInt
