import LexVerif.Proof.ParseNumberDebugSkip
/-!
# Proof.ParseNumberDebugU64 — `try_parse_8digits`, `parse_8digits`, `parse_u64_digits` under `Ctx`

Obligation (d): the overflow check of `parse_u64_digits` never fires: invariant `m < radix ^ (S - step)`,
`S = u64_step(radix)`, and `radix ^ S ≤ 2^64`.
-/
namespace LexVerif.Proof.PNDebug
open LexVerif LexVerif.Model
open LexVerif.Props.C12 (Bytes.Valid incCount_spec)
open LexVerif.Proof.PNTotal (Adv csum step_adv incCountFold_adv)

variable {c : Cfg}

theorem radix8_eq : ∀ r : Fin 11, radix8 r.val = r.val ^ 8 := by decide

theorem horner_lt {acc d r n : Nat} (ha : acc < r ^ n) (hd : d < r) : acc * r + d < r ^ (n + 1) := by
  have h : (acc + 1) * r ≤ r ^ n * r := Nat.mul_le_mul_right r ha
  rw [Nat.succ_mul] at h
  rw [Nat.pow_succ]
  omega

theorem val8_fold_lt (r : Nat) : ∀ (bs : List Nat) (acc n : Nat), acc < r ^ n →
    (∀ x ∈ bs, 48 ≤ x ∧ x < 48 + r) →
    bs.foldl (fun a x => a * r + (x - 48)) acc < r ^ (n + bs.length) := by
  intro bs
  induction bs with
  | nil => intro acc n h _; simpa using h
  | cons x xs ih =>
    intro acc n h hall
    simp only [List.foldl_cons, List.length_cons]
    have hx := hall x (by simp)
    have := ih (acc * r + (x - 48)) (n + 1) (horner_lt h (by omega)) (fun y hy => hall y (by simp [hy]))
    have e : n + (xs.length + 1) = n + 1 + xs.length := by omega
    rw [e]; exact this

theorem is8Digits_mem {r : Nat} {bs : List Nat} (h : is8Digits r bs = true) : ∀ x ∈ bs, 48 ≤ x ∧ x < 48 + r := by
  intro x hx
  unfold is8Digits at h
  have := List.all_eq_true.mp h x hx
  simpa using this

theorem val8Digits_lt {r : Nat} {bs : List Nat} (h : is8Digits r bs = true) : val8Digits r bs < r ^ bs.length := by
  have := val8_fold_lt r bs 0 0 (by simp) (is8Digits_mem h)
  simpa [val8Digits] using this

theorem canMultidigit_contig {k : Comp} (h : canMultidigit c k = true) : c.iterContiguous k = true := by
  unfold canMultidigit at h
  simp only [Bool.and_eq_true] at h
  exact h.1

theorem tryParse8_spec (cx : Ctx c) (k : Comp) (hcm : canMultidigit c k = true) (b : Bytes) (_hb : Bytes.Valid b) :
    tryParse8 c k b = .ok (none, b) ∨
    ∃ x b', tryParse8 c k b = .ok (some x, b') ∧ Adv b b' ∧ b'.index = b.index + 8 ∧ b.index + 8 ≤ b.slc.length ∧
      x < c.mantissaRadix ^ 8 ∧ DigRange c.mantissaRadix b.slc b.index (b.index + 8) := by
  have hr10 := cx.multi k hcm
  have hic := canMultidigit_contig hcm
  unfold tryParse8
  have h1 : decide (c.mantissaRadix > 10) = false := by simp; omega
  simp only [h1, hic, Bool.and_false, Bool.not_true, Bool.false_eq_true, if_false]
  by_cases hcond : b.slc.length - b.index ≥ 8 ∧ b.index ≤ b.slc.length
  · have hpb : peekBytes c k 8 b = some ((b.slc.drop b.index).take 8) := by
      simp [peekBytes, hic, hcond.1, hcond.2]
    rw [hpb]
    simp only
    split
    · next h8 =>
      right
      have hlen : ((List.drop b.index b.slc).take 8).length = 8 := by
        simp only [List.length_take, List.length_drop]; omega
      obtain ⟨hfa, hfi⟩ := incCountFold_adv (c := c) k (List.range 8) (step_adv b 8 (by omega))
        (by simp only [csum, List.length_range]; omega)
      refine ⟨val8Digits c.mantissaRadix ((b.slc.drop b.index).take 8), _, ?_, hfa, hfi, by omega, ?_, ?_⟩
      · rw [stepBy8_ok b (by omega)]; rfl
      · have := val8Digits_lt h8
        rw [hlen] at this; exact this
      · intro n hn1 hn2
        have hlt : n < b.slc.length := by omega
        refine ⟨b.slc[n], by simp [hlt], ?_⟩
        have hmem : b.slc[n] ∈ (List.drop b.index b.slc).take 8 := by
          apply List.mem_of_getElem? (i := n - b.index)
          rw [List.getElem?_take, if_pos (by omega), List.getElem?_drop]
          have : b.index + (n - b.index) = n := by omega
          rw [this]; simp [hlt]
        have := is8Digits_mem h8 _ hmem
        exact isDig_of_range hr10 this.1 this.2
    · left; rfl
  · have hpb : peekBytes c k 8 b = none := by
      unfold peekBytes
      rw [if_neg]
      simp only [hic, Bool.true_and, Bool.and_eq_true, decide_eq_true_eq]
      exact hcond
    rw [hpb]
    left; rfl

/-- the overflow invariant of `parse_u64_digits` -/
def MInv (c : Cfg) (m step : Nat) : Prop :=
  step ≤ u64Step c.feats c.mantissaRadix ∧ m < c.mantissaRadix ^ (u64Step c.feats c.mantissaRadix - step)

theorem MInv.lt_pow2 (cx : Ctx c) {m step : Nat} (h : MInv c m step) : m < pow2_64 := by
  have h1 : c.mantissaRadix ^ (u64Step c.feats c.mantissaRadix - step) ≤ c.mantissaRadix ^ u64Step c.feats c.mantissaRadix :=
    Nat.pow_le_pow_right (by have := cx.r2; omega) (by omega)
  have := cx.pow
  exact Nat.lt_of_lt_of_le h.2 (Nat.le_trans h1 this)

theorem parse8Loop_safe (cx : Ctx c) (k : Comp) (hcm : canMultidigit c k = true) :
    ∀ (fuel : Nat) (b : Bytes) (m : Nat), Bytes.Valid b → b.slc.length - b.index < fuel →
      Safe (parse8Loop c k fuel b m) (fun r => Adv b r.2 ∧ DigRange c.mantissaRadix b.slc b.index r.2.index) := by
  intro fuel
  induction fuel with
  | zero => intro b _ _ h; omega
  | succ n ih =>
    intro b m hb hf
    unfold parse8Loop
    rcases tryParse8_spec cx k hcm b hb with h | ⟨x, b8, h, hadv, hi8, h8, _, hdr⟩
    · simp only [h, bind, Except.bind]
      exact ⟨adv_refl hb, DigRange.refl _ _ _⟩
    · simp only [h, bind, Except.bind]
      refine (ih b8 _ hadv.valid' (by rw [hadv.len, hi8]; omega)).mono ?_
      intro r ⟨ha, hd⟩
      rw [hadv.slc, hi8] at hd
      exact ⟨hadv.trans ha, hdr.trans hd⟩

theorem parse8Digits_safe (cx : Ctx c) (k : Comp) (b : Bytes) (m : Nat) (hb : Bytes.Valid b) :
    Safe (parse8Digits c k b m) (fun r => Adv b r.2 ∧ DigRange c.mantissaRadix b.slc b.index r.2.index) := by
  unfold parse8Digits
  split
  · exact ⟨adv_refl hb, DigRange.refl _ _ _⟩
  · split
    · next hcm =>
      have hr10 := cx.multi k hcm
      have h1 : decide (c.mantissaRadix ≥ 16) = false := by simp; omega
      simp only [h1, Bool.and_false, Bool.false_eq_true, if_false]
      exact parse8Loop_safe cx k hcm _ b m hb (by omega)
    · exact ⟨adv_refl hb, DigRange.refl _ _ _⟩

theorem u64Loop8_safe (cx : Ctx c) (k : Comp) (hcm : canMultidigit c k = true) :
    ∀ (fuel : Nat) (b : Bytes) (m step : Nat), Bytes.Valid b → b.slc.length - b.index < fuel → MInv c m step →
      Safe (u64Loop8 c k fuel b m step) (fun r => Adv b r.1 ∧ MInv c r.2.1 r.2.2 ∧
        r.2.2 + (r.1.index - b.index) = step) := by
  intro fuel
  induction fuel with
  | zero => intro b _ _ _ h; omega
  | succ n ih =>
    intro b m step hb hf hinv
    unfold u64Loop8
    split
    · next hs8 =>
      rcases tryParse8_spec cx k hcm b hb with h | ⟨x, b8, h, hadv, hi8, h8, hx, _⟩
      · simp only [h, bind, Except.bind]
        exact ⟨adv_refl hb, hinv, by simp⟩
      · simp only [h, bind, Except.bind]
        have hr10 := cx.multi k hcm
        have hr8 : radix8 c.mantissaRadix = c.mantissaRadix ^ 8 := radix8_eq ⟨c.mantissaRadix, by omega⟩
        have hlt : m * c.mantissaRadix ^ 8 + x
            < c.mantissaRadix ^ (u64Step c.feats c.mantissaRadix - (step - 8)) := by
          have e : u64Step c.feats c.mantissaRadix - (step - 8) = (u64Step c.feats c.mantissaRadix - step) + 8 := by
            have := hinv.1; omega
          rw [e, Nat.pow_add]
          have h' : (m + 1) * c.mantissaRadix ^ 8 ≤
              c.mantissaRadix ^ (u64Step c.feats c.mantissaRadix - step) * c.mantissaRadix ^ 8 :=
            Nat.mul_le_mul_right _ hinv.2
          rw [Nat.succ_mul] at h'
          omega
        have hinv2 : MInv c (m * c.mantissaRadix ^ 8 + x) (step - 8) := ⟨by have := hinv.1; omega, hlt⟩
        have hmod : (m * radix8 c.mantissaRadix + x) % pow2_64 = m * c.mantissaRadix ^ 8 + x := by
          rw [hr8]; exact Nat.mod_eq_of_lt (hinv2.lt_pow2 cx)
        rw [hmod]
        refine (ih b8 _ _ hadv.valid' (by rw [hadv.len, hi8]; omega) hinv2).mono ?_
        intro r ⟨ha, hi, hcnt⟩
        refine ⟨hadv.trans ha, hi, ?_⟩
        have := ha.mono
        rw [hi8] at this hcnt
        omega
    · exact ⟨adv_refl hb, hinv, by simp⟩

theorem u64Loop1_safe (cx : Ctx c) (k : Comp) (hg : Good c k) :
    ∀ (fuel : Nat) (b : Bytes) (m step : Nat), Bytes.Valid b → b.slc.length - b.index < fuel → MInv c m step →
      DSRange c k b.slc b.index b.slc.length →
      Safe (u64Loop1 c k fuel b m step) (fun r => Adv b r.1 ∧ MInv c r.2.1 r.2.2 ∧
        (PeekTriv c k → r.2.2 + (r.1.index - b.index) = step) ∧ (r.2.2 = 0 ∨ r.1.index = b.slc.length)) := by
  intro fuel
  induction fuel with
  | zero => intro b _ _ _ h; omega
  | succ n ih =>
    intro b m step hb hf hinv hdig
    obtain ⟨v, b1, hp, ha, hx, _, _, hns, _⟩ := peek_good cx k hg b hb
    have htriv : PeekTriv c k → b1 = b := by
      intro ht
      have := ht b
      rw [hp] at this
      simp only [Except.ok.injEq, Prod.mk.injEq] at this
      exact this.2
    unfold u64Loop1
    simp only [hp, bind, Except.bind]
    cases v with
    | none =>
      have hge : b1.slc.length ≤ b1.index := by
        rcases Nat.lt_or_ge b1.index b1.slc.length with h | h
        · have := hx; simp [h] at this
        · exact h
      have hv : b1.index ≤ b1.slc.length := ha.valid'
      refine ⟨ha, hinv, ?_, Or.inr ?_⟩
      · intro ht; rw [htriv ht]; simp
      · have := ha.len; simp only; omega
    | some ch =>
      simp only
      have hxs : b1.slc[b1.index]? = some ch := hx.symm
      have hlt := get_lt hxs
      split
      · next hs =>
        have hyd : IsDig c.mantissaRadix ch := by
          obtain ⟨y, hy, hyd⟩ := hdig b1.index ha.mono (by rw [← ha.len]; exact hlt)
          rw [← ha.slc, hxs] at hy
          cases hy
          rcases hyd with h | ⟨h1, h2⟩
          · exact h
          · exact absurd (by rw [h1]) (hns h2)
        have hd : charToValidDigit ch c.mantissaRadix < c.mantissaRadix := hyd
        have hlt2 : m * c.mantissaRadix + charToValidDigit ch c.mantissaRadix
            < c.mantissaRadix ^ (u64Step c.feats c.mantissaRadix - (step - 1)) := by
          have e : u64Step c.feats c.mantissaRadix - (step - 1) = (u64Step c.feats c.mantissaRadix - step) + 1 := by
            have := hinv.1; omega
          rw [e]; exact horner_lt hinv.2 hd
        have hinv2 : MInv c (m * c.mantissaRadix + charToValidDigit ch c.mantissaRadix) (step - 1) :=
          ⟨by have := hinv.1; omega, hlt2⟩
        have hlt64 := hinv2.lt_pow2 cx
        have h1 : decide (m * c.mantissaRadix + charToValidDigit ch c.mantissaRadix ≥ pow2_64) = false := by
          simp; omega
        simp only [h1, Bool.and_false, Bool.false_eq_true, if_false]
        rw [iterStep_ok k b1 hlt (Or.inr (ne_sep_of_dig cx.sepNotDigM hxs hyd))]
        simp only
        rw [Nat.mod_eq_of_lt hlt64]
        have hi := incCount_spec c k { b1 with index := b1.index + 1 }
        have hadv : Adv b (Bytes.incCount c k { b1 with index := b1.index + 1 }) := adv_step_inc k ha hlt
        have hf2 : (Bytes.incCount c k { b1 with index := b1.index + 1 }).slc.length
            - (Bytes.incCount c k { b1 with index := b1.index + 1 }).index < n := by
          rw [hi.1, hi.2]; simp only
          have := ha.mono; have := ha.len; omega
        have hdig2 : DSRange c k (Bytes.incCount c k { b1 with index := b1.index + 1 }).slc
            (Bytes.incCount c k { b1 with index := b1.index + 1 }).index
            (Bytes.incCount c k { b1 with index := b1.index + 1 }).slc.length := by
          rw [hi.1, hi.2]
          simp only
          rw [ha.slc]
          intro j h1 h2
          exact hdig j (by have := ha.mono; omega) h2
        refine (ih _ _ _ hadv.valid' hf2 hinv2 hdig2).mono ?_
        intro r ⟨ha2, hi2, hcnt, hend⟩
        rw [hi.1] at hend
        simp only at hend
        rw [ha.slc] at hend
        refine ⟨hadv.trans ha2, hi2, ?_, hend⟩
        intro ht
        have hcnt := hcnt ht
        rw [hi.2] at hcnt
        have hb1 := htriv ht
        subst hb1
        have := ha2.mono
        rw [hi.2] at this
        simp only at this hcnt
        omega
      · next hs =>
        refine ⟨ha, hinv, ?_, Or.inl (by simp only; omega)⟩
        intro ht; rw [htriv ht]; simp

theorem parseU64Digits_safe (cx : Ctx c) (k : Comp) (hg : Good c k) (b : Bytes) (m step : Nat) (hb : Bytes.Valid b)
    (hinv : MInv c m step) (hdig : DSRange c k b.slc b.index b.slc.length) :
    Safe (parseU64Digits c k b m step) (fun r => Adv b r.1 ∧ MInv c r.2.1 r.2.2 ∧
      (PeekTriv c k → r.2.2 + (r.1.index - b.index) = step) ∧ (r.2.2 = 0 ∨ r.1.index = b.slc.length)) := by
  unfold parseU64Digits
  have key : ∀ (b1 : Bytes) (m1 step1 : Nat), Adv b b1 → MInv c m1 step1 → step1 + (b1.index - b.index) = step →
      Safe (u64Loop1 c k (b1.slc.length + 1) b1 m1 step1) (fun r => Adv b r.1 ∧ MInv c r.2.1 r.2.2 ∧
        (PeekTriv c k → r.2.2 + (r.1.index - b.index) = step) ∧ (r.2.2 = 0 ∨ r.1.index = b.slc.length)) := by
    intro b1 m1 step1 ha hi hcnt
    have hdig1 : DSRange c k b1.slc b1.index b1.slc.length := by
      rw [ha.slc]; intro j h1 h2; exact hdig j (by have := ha.mono; omega) h2
    refine (u64Loop1_safe cx k hg _ b1 m1 step1 ha.valid' (by omega) hi hdig1).mono ?_
    intro r ⟨ha2, hi2, hc2, hend⟩
    rw [ha.slc] at hend
    refine ⟨ha.trans ha2, hi2, ?_, hend⟩
    intro ht
    have := hc2 ht
    have := ha.mono
    have := ha2.mono
    omega
  split
  · next hcond =>
    simp only [Bool.and_eq_true, Bool.not_eq_true'] at hcond
    have hr10 := cx.multi k hcond.2
    have h1 : decide (c.mantissaRadix ≥ 16) = false := by simp; omega
    simp only [h1, Bool.and_false, Bool.false_eq_true, if_false]
    refine Safe.bind (u64Loop8_safe cx k hcond.2 _ b m step hb (by omega) hinv) ?_
    rintro ⟨b1, m1, step1⟩ ⟨ha, hi, hcnt⟩
    exact key b1 m1 step1 ha hi hcnt
  · simp only [pure, Except.pure, bind, Except.bind]
    exact key b m step (adv_refl hb) hinv (by simp)

end LexVerif.Proof.PNDebug
