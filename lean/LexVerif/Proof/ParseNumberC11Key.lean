import LexVerif.Proof.ParseNumberC11
import LexVerif.Proof.ParseNumberTotalMain
/-!
# Proof.ParseNumberC11Key — `parse_number` cannot succeed on a byte that is neither digit nor decimal point

Setting: no digit-separator byte (`Bytes::IS_CONTIGUOUS`; any feature set, any flags, debug or release), no base
prefix, mantissa digits required. If the byte under the cursor is not a mantissa digit and not the decimal point,
`parse_number` consumes nothing, finds `n_digits = 0` and returns an error. Consequently a special-value string
whose first byte (in either case) is such a byte is never shadowed by a number.
-/
set_option linter.unusedSectionVars false
set_option linter.unusedSimpArgs false
namespace LexVerif.Proof.C11
open LexVerif LexVerif.Model LexVerif.Spec
open LexVerif.Props.C12 (Bytes.Valid)
open LexVerif.Proof.PNTotal (isSep_contig)

section
variable {c : Cfg} (hb : c.bytesContiguous = true)
include hb

theorem peek_contig_ok (k : Comp) (b b' : Bytes) (v : Option Nat) (h : peek c k b = .ok (v, b')) :
    v = b.slc[b.index]? ∧ b' = b := by
  unfold peek at h
  cases hs : c.skip k with
  | noskip => rw [hs] at h; cases h; exact ⟨rfl, rfl⟩
  | unreachable => rw [hs] at h; cases h
  | pred p =>
    rw [hs] at h
    simp only [Except.ok.injEq] at h
    unfold peekPred at h
    cases hx : b.slc[b.index]? with
    | none => rw [hx] at h; cases h; exact ⟨rfl, rfl⟩
    | some x =>
      rw [hx] at h
      simp only [isSep_contig hb, Bool.false_eq_true, if_false] at h
      cases h; exact ⟨rfl, rfl⟩

omit hb in
theorem is8Digits_head (r x : Nat) (xs : List Nat) (h : is8Digits r (x :: xs) = true) (hr : r ≤ 10) :
    ∃ d, charToDigit x r = some d := by
  simp only [is8Digits, List.all_cons, Bool.and_eq_true, decide_eq_true_eq] at h
  refine ⟨x - 48, ?_⟩
  have h1 := h.1.1
  have h2 := h.1.2
  simp only [charToDigit, charToValidDigit, hr, if_true]
  have : (x + 256 - 48) % 256 = x - 48 := by omega
  rw [this, if_pos (by omega)]

omit hb in
theorem tryParse8_stuck (k : Comp) (b b' : Bytes) (v : Option Nat) (x : Nat) (hx : b.slc[b.index]? = some x)
    (hnd : charToDigit x c.mantissaRadix = none) (hr : c.mantissaRadix ≤ 10)
    (h : tryParse8 c k b = .ok (v, b')) : v = none ∧ b' = b := by
  unfold tryParse8 at h
  split at h
  · cases h
  split at h
  · cases h
  split at h
  · next hpk => cases h; exact ⟨rfl, rfl⟩
  · next bs hpk =>
    split at h
    · next h8 =>
      exfalso
      unfold peekBytes at hpk
      split at hpk
      · next hc =>
        simp only [Option.some.injEq] at hpk
        have hd := PNTotal.drop_of_get hx
        rw [hd] at hpk
        simp only [List.take_succ_cons] at hpk
        rw [← hpk] at h8
        obtain ⟨d, hd2⟩ := is8Digits_head _ _ _ h8 hr
        rw [hnd] at hd2; cases hd2
      · cases hpk
    · cases h; exact ⟨rfl, rfl⟩

omit hb in
theorem parse8Digits_stuck (k : Comp) (b b' : Bytes) (m m' x : Nat) (hx : b.slc[b.index]? = some x)
    (hnd : charToDigit x c.mantissaRadix = none) (hrad : c.feats.powerOfTwo = false → c.mantissaRadix ≤ 10)
    (h : parse8Digits c k b m = .ok (m', b')) : b' = b := by
  unfold parse8Digits at h
  split at h
  · cases h; rfl
  split at h
  · next hcm =>
    have hr : c.mantissaRadix ≤ 10 := by
      simp only [canMultidigit, Bool.and_eq_true, Bool.or_eq_true, Bool.not_eq_true', decide_eq_true_eq] at hcm
      rcases hcm.2 with h1 | h1
      · exact hrad h1
      · exact h1
    split at h
    · cases h
    · unfold parse8Loop at h
      simp only [bind, Except.bind, pure, Except.pure] at h
      cases ht : tryParse8 c k b with
      | error e => rw [ht] at h; cases h
      | ok pr =>
        obtain ⟨v, b1⟩ := pr
        obtain ⟨rfl, rfl⟩ := tryParse8_stuck k b b1 v x hx hnd hr ht
        rw [ht] at h
        cases h; rfl
  · cases h; rfl

theorem parseDigits_stuck (k : Comp) (b b' : Bytes) (ds : List Nat) (x : Nat) (hx : b.slc[b.index]? = some x)
    (hnd : charToDigit x c.mantissaRadix = none)
    (h : parseDigits c k c.mantissaRadix b = .ok (ds, b')) : b' = b := by
  unfold parseDigits parseDigitsLoop at h
  simp only [bind, Except.bind, pure, Except.pure] at h
  cases hp : peek c k b with
  | error e => rw [hp] at h; cases h
  | ok pr =>
    obtain ⟨v, b1⟩ := pr
    obtain ⟨rfl, rfl⟩ := peek_contig_ok hb k b b1 v hp
    rw [hp] at h
    simp only [hx, hnd] at h
    cases h; rfl

/-- the integer phase consumes nothing on a non-digit -/
theorem integerPhase_stuck (b : Bytes) (ip : IntPart) (x : Nat) (hx : b.slc[b.index]? = some x)
    (hnd : charToDigit x c.mantissaRadix = none) (hrad : c.feats.powerOfTwo = false → c.mantissaRadix ≤ 10)
    (hr1 : 1 ≤ c.mantissaRadix) (h : integerPhase c b = .ok ip) :
    ip.start = b ∧ ip.byte = b ∧ ip.nDigits = 0 := by
  have hx48 : x ≠ 48 := by
    intro h48
    rw [h48] at hnd
    have : charToDigit 48 c.mantissaRadix = some 0 := by
      by_cases h10 : c.mantissaRadix ≤ 10
      · simp [charToDigit, charToValidDigit, h10]; omega
      · simp [charToDigit, charToValidDigit, h10]; omega
    rw [this] at hnd; cases hnd
  have hpp : ∀ r, prefixPhase c b = .ok r → r = (false, b) := by
    intro r hr
    unfold prefixPhase at hr
    simp only [prefixRepair, Bool.false_eq_true, if_false] at hr
    split at hr
    · simp only [bind, Except.bind, readIfValueCased] at hr
      cases hp : peek c .integer b with
      | error e => rw [hp] at hr; cases hr
      | ok pr =>
        obtain ⟨v, b1⟩ := pr
        obtain ⟨rfl, rfl⟩ := peek_contig_ok hb .integer b b1 v hp
        rw [hp] at hr
        have hne : (b1.slc[b1.index]? == some 48) = false := by rw [hx]; simpa using hx48
        simp only [hne, Bool.false_eq_true, if_false, pure, Except.pure] at hr
        cases hr; rfl
    · cases hr; rfl
  unfold integerPhase at h
  simp only [bind, Except.bind, pure, Except.pure] at h
  cases hpp0 : prefixPhase c b with
  | error e => rw [hpp0] at h; cases h
  | ok r0 =>
  have := hpp r0 hpp0
  subst this
  rw [hpp0] at h
  simp only [Bool.not_false, Bool.and_true] at h
  cases h8 : parse8Digits c .integer b 0 with
  | error e => rw [h8] at h; cases h
  | ok p8 =>
    obtain ⟨m, b1⟩ := p8
    have e1 := parse8Digits_stuck .integer b b1 0 m x hx hnd hrad h8
    subst e1
    rw [h8] at h
    simp only at h
    cases hdg : parseDigits c .integer c.mantissaRadix b1 with
    | error e => rw [hdg] at h; cases h
    | ok pd =>
      obtain ⟨ds, b2⟩ := pd
      have e2 := parseDigits_stuck hb .integer b1 b2 ds x hx hnd hdg
      subst e2
      rw [hdg] at h
      simp only [Nat.sub_self] at h
      split at h
      · cases h
      · split at h
        · cases h
        · split at h
          · cases h
          · cases h; exact ⟨rfl, rfl, rfl⟩

/-- **key lemma**: `parse_number` does not succeed when the byte under the cursor is neither a mantissa digit nor the
decimal point (no separator byte, no base prefix, mantissa digits required; any feature set, debug or release) -/
theorem parseNumber_not_ok (p : Bool) (o : POpts) (b : Bytes) (neg fv : Bool) (x : Nat)
    (hx : b.slc[b.index]? = some x) (hnd : charToDigit x c.mantissaRadix = none) (hdp : x ≠ o.dp)
    (hrad : c.feats.powerOfTwo = false → c.mantissaRadix ≤ 10) (hr1 : 1 ≤ c.mantissaRadix)
    (hm : c.requiredMantissaDigits = true) (r : Number × Nat) :
    parseNumber c p o b neg fv ≠ .ok r := by
  intro h
  unfold parseNumber at h
  simp only [bind, Except.bind] at h
  split at h
  · cases h
  split at h
  · cases h
  cases hi : integerPhase c b with
  | error e => rw [hi] at h; cases h
  | ok ip =>
    obtain ⟨s1, s2, s3⟩ := integerPhase_stuck hb b ip x hx hnd hrad hr1 hi
    rw [hi] at h
    simp only at h
    have hfc : ip.byte.firstIsCased o.dp = false := by
      rw [s2]; simp only [Bytes.firstIsCased, Bytes.first, hx]; simpa using hdp
    have hfr : fractionPhase c o ip.byte ip.mantissa = .ok ⟨ip.byte, ip.mantissa, 0, 0, none, false⟩ := by
      unfold fractionPhase; rw [hfc]; rfl
    rw [hfr] at h
    simp only [hm, s3, Nat.add_zero, decide_true, Bool.true_or, Bool.and_self, if_true] at h
    cases hp : peek c .integer ip.start with
    | error e => rw [hp] at h; cases h
    | ok pr =>
      rw [hp] at h
      simp only at h
      split at h <;> cases h

/-! ## a special-value match starts with (either case of) the first byte of the string -/

theorem iterNext_contig_ok (k : Comp) (b b' : Bytes) (v : Option Nat) (h : iterNext c k b = .ok (v, b')) :
    v = b.slc[b.index]? := by
  unfold iterNext at h
  simp only [bind, Except.bind, pure, Except.pure] at h
  cases hp : peek c k b with
  | error e => rw [hp] at h; cases h
  | ok pr =>
    obtain ⟨v1, b1⟩ := pr
    obtain ⟨rfl, rfl⟩ := peek_contig_ok hb k b b1 v1 hp
    rw [hp] at h
    simp only at h
    split at h
    · next hv => cases h; exact hv.symm
    · next x hv => cases h; exact hv.symm

theorem isSpecialEq_head (b : Bytes) (y : Nat) (ys : List Nat) (n : Nat)
    (h : isSpecialEq c b (y :: ys) = .ok n) (hn : n ≠ 0) :
    ∃ x, b.slc[b.index]? = some x ∧ (Nat.xor x y = 0 ∨ Nat.xor x y = 32) := by
  unfold isSpecialEq at h
  simp only [bind, Except.bind, pure, Except.pure] at h
  split at h
  · next hcs =>
    -- case-sensitive
    unfold Model.startsWith at h
    simp only [bind, Except.bind, pure, Except.pure] at h
    cases hi : iterNext c .special b with
    | error e => rw [hi] at h; cases h
    | ok pr =>
      obtain ⟨v, b1⟩ := pr
      have hv := iterNext_contig_ok hb .special b b1 v hi
      rw [hi] at h
      simp only at h
      by_cases hvy : v = some y
      · refine ⟨y, by rw [← hv, hvy], Or.inl ?_⟩
        simp
      · rw [if_neg hvy] at h
        simp only [Bool.false_eq_true, if_false] at h
        cases h; exact absurd rfl hn
  · unfold Model.startsWithUncased at h
    simp only [bind, Except.bind, pure, Except.pure] at h
    cases hi : iterNext c .special b with
    | error e => rw [hi] at h; cases h
    | ok pr =>
      obtain ⟨v, b1⟩ := pr
      have hv := iterNext_contig_ok hb .special b b1 v hi
      rw [hi] at h
      simp only at h
      cases v with
      | none =>
        simp only [Bool.false_eq_true, if_false] at h
        cases h; exact absurd rfl hn
      | some xi =>
        simp only at h
        by_cases hxor : (Nat.xor xi y ≠ 0 && Nat.xor xi y ≠ 32) = true
        · rw [if_pos hxor] at h
          simp only [Bool.false_eq_true, if_false] at h
          cases h; exact absurd rfl hn
        · refine ⟨xi, hv.symm, ?_⟩
          simp only [ne_eq, Bool.and_eq_true, decide_eq_true_eq] at hxor
          by_cases h0 : Nat.xor xi y = 0
          · exact Or.inl h0
          · by_cases h32 : Nat.xor xi y = 32
            · exact Or.inr h32
            · exact absurd ⟨h0, h32⟩ hxor

omit hb in
/-- which string matched -/
theorem parsePositiveSpecial_some (o : POpts) (b : Bytes) (sp : Special) (n : Nat)
    (h : parsePositiveSpecial c o b = .ok (some (sp, n))) :
    ∃ str, (o.nan = some str ∨ o.inf = some str ∨ o.infinity = some str) ∧
      b.slc.length - b.index ≥ str.length ∧ isSpecialEq c b str = .ok n ∧ n ≠ 0 := by
  rw [PNTotal.parsePositiveSpecial_eq] at h
  have key : ∀ (so : Option (List Nat)) (m : Nat), PNTotal.try1 c b (b.bufferLength - b.index) so = .ok m → m ≠ 0 →
      ∃ str, so = some str ∧ b.slc.length - b.index ≥ str.length ∧ isSpecialEq c b str = .ok m := by
    intro so m hm hm0
    unfold PNTotal.try1 at hm
    cases so with
    | none => cases hm; exact absurd rfl hm0
    | some str =>
      simp only at hm
      split at hm
      · next hl => exact ⟨str, rfl, hl, hm⟩
      · cases hm; exact absurd rfl hm0
  split at h
  · cases h
  · simp only [bind, Except.bind, pure, Except.pure] at h
    cases h1 : PNTotal.try1 c b (b.bufferLength - b.index) o.nan with
    | error e => rw [h1] at h; cases h
    | ok n1 =>
      rw [h1] at h
      simp only at h
      split at h
      · next hn1 =>
        cases h
        obtain ⟨str, e, hl, hs⟩ := key _ _ h1 hn1
        exact ⟨str, Or.inl e, hl, hs, hn1⟩
      · cases h2 : PNTotal.try1 c b (b.bufferLength - b.index) o.infinity with
        | error e => rw [h2] at h; cases h
        | ok n2 =>
          rw [h2] at h
          simp only at h
          split at h
          · next hn2 =>
            cases h
            obtain ⟨str, e, hl, hs⟩ := key _ _ h2 hn2
            exact ⟨str, Or.inr (Or.inr e), hl, hs, hn2⟩
          · cases h3 : PNTotal.try1 c b (b.bufferLength - b.index) o.inf with
            | error e => rw [h3] at h; cases h
            | ok n3 =>
              rw [h3] at h
              simp only at h
              split at h
              · next hn3 =>
                cases h
                obtain ⟨str, e, hl, hs⟩ := key _ _ h3 hn3
                exact ⟨str, Or.inr (Or.inl e), hl, hs, hn3⟩
              · cases h

/-- syntactic exclusion: every special string is non-empty and its first byte, in either case, is neither a mantissa
digit nor the decimal point -/
def SpecialHeadsOK (c : Cfg) (o : POpts) : Prop :=
  ∀ str, (o.nan = some str ∨ o.inf = some str ∨ o.infinity = some str) →
    ∃ y ys, str = y :: ys ∧
      ∀ x, (Nat.xor x y = 0 ∨ Nat.xor x y = 32) → charToDigit x c.mantissaRadix = none ∧ x ≠ o.dp

/-- if the special-value parser matches at the cursor, `parse_number` fails there -/
theorem parseNumber_not_ok_of_special (p : Bool) (o : POpts) (b : Bytes) (neg fv : Bool) (sp : Special) (n : Nat)
    (hh : SpecialHeadsOK c o) (hrad : c.feats.powerOfTwo = false → c.mantissaRadix ≤ 10) (hr1 : 1 ≤ c.mantissaRadix)
    (hm : c.requiredMantissaDigits = true) (hs : parsePositiveSpecial c o b = .ok (some (sp, n)))
    (r : Number × Nat) : parseNumber c p o b neg fv ≠ .ok r := by
  obtain ⟨str, hstr, _, heq, hn0⟩ := parsePositiveSpecial_some o b sp n hs
  obtain ⟨y, ys, rfl, hy⟩ := hh str hstr
  obtain ⟨x, hx, hxor⟩ := isSpecialEq_head hb b y ys n heq hn0
  obtain ⟨hnd, hdp⟩ := hy x hxor
  exact parseNumber_not_ok hb p o b neg fv x hx hnd hdp hrad hr1 hm r

/-- the syntactic sufficient condition for `NoShadow` -/
theorem noShadow_of_heads (o : POpts) (s : List Nat) (fv : Bool)
    (hh : SpecialHeadsOK c o) (hrad : c.feats.powerOfTwo = false → c.mantissaRadix ≤ 10) (hr1 : 1 ≤ c.mantissaRadix)
    (hm : c.requiredMantissaDigits = true) : NoShadow c o s fv := by
  intro neg b _ hsh
  obtain ⟨n, count, sp, h1, _, h3⟩ := hsh
  rw [parseSpecialComplete_eq] at h3
  cases hps : parsePositiveSpecial c o b with
  | error e => rw [hps] at h3; cases h3
  | ok r =>
    cases r with
    | none => rw [hps] at h3; cases h3
    | some pr =>
      obtain ⟨sp2, m⟩ := pr
      exact parseNumber_not_ok_of_special hb true o b neg fv sp2 m hh hrad hr1 hm hps _ h1

end
end LexVerif.Proof.C11
