import LexVerif.Proof.SepGen1
import LexVerif.Proof.ParseNumberTotal
/-!
# Proof.SepGen2 — the class `GenStrip` (any separator predicate on any component) and the run of `parse_number` over an
input WITH separators, phase by phase, in terms of the trace of `parse_digits`
-/
set_option linter.unusedSimpArgs false
namespace LexVerif.Proof.Sep
open LexVerif LexVerif.Model LexVerif.Spec
open LexVerif.Props.C12

/-- byte `x` passes the comparison `parse_number` makes against the exponent character -/
def matchesExp (c : Cfg) (o : POpts) (x : Nat) : Bool :=
  if c.caseSensitiveExponent && c.feats.format then x == o.exp else eqIgnoreCase x o.exp

/-- the class for the general strip / insert theorems: release build of a valid separator format — ANY of the 15 `peek`
variants on each component — without base prefix / suffix, leading zeros allowed, STANDARD's required exponent /
mantissa digits; the separator is none of: sign character, decimal point, (case-folded) exponent character, digit. -/
structure GenStrip (c : Cfg) (o : POpts) : Prop where
  rel : RelClass c
  sep : c.digitSeparator ≠ 0
  noPrefix : c.basePrefix = 0
  noSuffix : c.baseSuffix = 0
  noLz : c.noFloatLeadingZeros = false
  reqExp : c.requiredExponentDigits = true
  reqMant : c.requiredMantissaDigits = true
  sepPlus : c.isSep 43 = false
  sepMinus : c.isSep 45 = false
  sepDp : c.isSep o.dp = false
  sepExp : ∀ x, c.isSep x = true → matchesExp c o x = false
  dpDigit : charToDigit o.dp c.mantissaRadix = none
  sepDigM : ∀ x, c.isSep x = true → charToDigit x c.mantissaRadix = none
  sepDigE : ∀ x, c.isSep x = true → charToDigit x c.exponentRadix = none
  radixM1 : 1 ≤ c.mantissaRadix
  radixM : c.mantissaRadix ≤ 36
  radixE : c.exponentRadix ≤ 36
  dpSign : o.dp ≠ 43 ∧ o.dp ≠ 45

theorem GenStrip.format {c : Cfg} {o : POpts} (h : GenStrip c o) : c.feats.format = true := by
  have := h.sep
  unfold Cfg.digitSeparator at this
  cases hf : c.feats.format
  · simp [hf] at this
  · rfl

theorem GenStrip.bytes {c : Cfg} {o : POpts} (h : GenStrip c o) : c.bytesContiguous = false := by
  simp [Cfg.bytesContiguous, h.sep]

theorem GenStrip.tot {c : Cfg} {o : POpts} (h : GenStrip c o) : PNTotal.Rel c := ⟨h.rel.debug, h.rel.reach⟩

theorem firstIs_exp (c : Cfg) (o : POpts) (b : Bytes) :
    b.firstIs o.exp (c.caseSensitiveExponent && c.feats.format) =
      (match b.slc[b.index]? with | some x => matchesExp c o x | none => false) := by
  unfold Bytes.firstIs Bytes.firstIsCased Bytes.firstIsUncased Bytes.first matchesExp
  cases b.slc[b.index]? with
  | none => cases (c.caseSensitiveExponent && c.feats.format) <;> simp
  | some x => cases (c.caseSensitiveExponent && c.feats.format) <;> simp

/-- sum of the three digit counts after `advS` -/
theorem advS_csum (c : Cfg) (k : Comp) (di dc : Nat) (b : Bytes) (hf : c.feats.format = true) (hk : k ≠ .special) :
    Bytes.currentCount c (advS c k di dc b) - Bytes.currentCount c b = dc ∨ c.bytesContiguous = true := by
  cases hb : c.bytesContiguous
  · left
    simp only [Bytes.currentCount, hb, Bool.false_eq_true, if_false, advS_count c k di dc b hf hk]
    omega
  · right; rfl

/-- the bytes of the digit prefix are no separators -/
theorem digitsPrefix_take_noSep (c : Cfg) (r : Nat) (hsep : ∀ x, c.isSep x = true → charToDigit x r = none) :
    ∀ l : List Nat, NoSep c (l.take (digitsPrefix r l).length) := by
  intro l
  induction l with
  | nil => intro x hx; simp at hx
  | cons y ys ih =>
    simp only [digitsPrefix]
    cases hdg : charToDigit y r with
    | none => intro x hx; simp at hx
    | some d =>
      simp only [List.length_cons, List.take_succ_cons]
      intro x hx
      simp only [List.mem_cons] at hx
      rcases hx with rfl | hx
      · cases hcs : c.isSep x with
        | false => rfl
        | true => have := hsep x hcs; rw [hdg] at this; cases this
      · exact ih x hx

/-- **the digit run of one component**, fast path included: `parse_8digits` followed by `parse_digits` yields what
`parse_digits` alone yields from the same state (same end state, same mantissa); for a component without separator
flags the cursor moves by exactly the number of digits. -/
theorem digitsRun_any (c : Cfg) (k : Comp) (hS : RelClass c)
    (hsep : ∀ x, c.isSep x = true → charToDigit x c.mantissaRadix = none) (b : Bytes) (m : Nat) (hv : Bytes.Valid b) :
    ∃ m1 b1 ds1 ds e, parse8Digits c k b m = .ok (m1, b1) ∧ parseDigits c k c.mantissaRadix b1 = .ok (ds1, e) ∧
      parseDigits c k c.mantissaRadix b = .ok (ds, e) ∧
      foldMantissa c.mantissaRadix m1 ds1 = foldMantissa c.mantissaRadix m ds ∧
      (c.iterContiguous k = true → e.index - b.index = ds.length ∧ NoSep c (slice b.slc b.index e.index)) := by
  cases hc : c.iterContiguous k
  · obtain ⟨ds, e, h, _⟩ := PNTotal.parseDigits_tot ⟨hS.debug, hS.reach⟩ k c.mantissaRadix b hv
    exact ⟨m, b, ds, ds, e, parse8Digits_sep c k hc b m, h, h, rfl, by intro h; cases h⟩
  · have hp := plainPeek_noskip c k b.slc (skip_of_contig c k hc)
    obtain ⟨m1, b1, ds1, h1, h2, h3⟩ := digitsRun_pk c k hS b m hp
    refine ⟨m1, b1, ds1, _, _, h1, h2, parseDigits_pk c k _ hS.debug b hp, h3, ?_⟩
    intro _
    refine ⟨by simp, ?_⟩
    simp only [adv_index, slice_drop]
    exact digitsPrefix_take_noSep c _ hsep _

/-- `parse_digits` of component `k` from state `b` yields the digits `ds` and ends in state `e` -/
structure Run (c : Cfg) (k : Comp) (r : Nat) (b e : Bytes) (ds : List Nat) : Prop where
  run : parseDigits c k r b = .ok (ds, e)
  eq : e = advS c k (e.index - b.index) ds.length b
  le : b.index ≤ e.index
  valid : e.index ≤ b.slc.length
  yields : (nonSep c (slice b.slc b.index e.index)).map (fun x => charToDigit x r) = ds.map some
  stop : ∀ x, b.slc[e.index]? = some x → charToDigit x r = none

theorem Run.of (c : Cfg) (k : Comp) (r : Nat) (hd : c.debug = false)
    (hsep : ∀ x, c.isSep x = true → charToDigit x r = none) (b e : Bytes) (ds : List Nat) (hv : Bytes.Valid b)
    (h : parseDigits c k r b = .ok (ds, e)) : Run c k r b e ds := by
  obtain ⟨h1, h2, h3, h4, h5⟩ := parseDigits_trace c k r hd hsep b e ds hv h
  exact ⟨h, h1, h2, h3, h4, h5⟩

theorem Run.slc {c : Cfg} {k : Comp} {r : Nat} {b e : Bytes} {ds : List Nat} (h : Run c k r b e ds) : e.slc = b.slc := by
  rw [h.eq]; simp

theorem Run.count {c : Cfg} {k : Comp} {r : Nat} {b e : Bytes} {ds : List Nat} (h : Run c k r b e ds)
    (hf : c.feats.format = true) (hb : c.bytesContiguous = false) (hk : k ≠ .special) :
    Bytes.currentCount c e - Bytes.currentCount c b = ds.length := by
  rw [h.eq]
  simp only [Bytes.currentCount, hb, Bool.false_eq_true, if_false, advS_count c k _ _ b hf hk]
  omega

theorem Run.countLB {c : Cfg} {k : Comp} {r : Nat} {b e : Bytes} {ds : List Nat} (h : Run c k r b e ds)
    (hf : c.feats.format = true) (hb : c.bytesContiguous = false) (hk : k ≠ .special) :
    Bytes.currentCount c e = Bytes.currentCount c b + ds.length := by
  rw [h.eq]
  simp only [Bytes.currentCount, hb, Bool.false_eq_true, if_false, advS_count c k _ _ b hf hk]

theorem slice_length (s : List Nat) (i j : Nat) (h : j ≤ s.length) : (slice s i j).length = j - i := by
  simp only [slice, List.length_take, List.length_drop]; omega

/-- `integerPhase` over an input with separators, in terms of the integer digit run -/
theorem integerPhase_left (c : Cfg) (o : POpts) (hG : GenStrip c o) (b : Bytes) (hv : Bytes.Valid b) :
    ∃ ds e, Run c .integer c.mantissaRadix b e ds ∧
      (c.iterContiguous .integer = true → e.index - b.index = ds.length ∧ NoSep c (slice b.slc b.index e.index)) ∧
      integerPhase c b =
        (if (c.requiredIntegerDigits && decide (ds.length = 0)) = true then .error (.err "EmptyInteger" e.index)
         else .ok ⟨false, b, e, foldMantissa c.mantissaRadix 0 ds, ds.length, slice b.slc b.index e.index⟩) := by
  obtain ⟨m1, b1, ds1, ds, e, h1, h2, h3, h4, h5⟩ := digitsRun_any c .integer hG.rel hG.sepDigM b 0 hv
  have hR := Run.of c .integer _ hG.rel.debug hG.sepDigM b e ds hv h3
  refine ⟨ds, e, hR, h5, ?_⟩
  unfold integerPhase
  simp only [prefixPhase_none c hG.noPrefix b, bind, Except.bind, h1, h2, pure, Except.pure, h4,
    hR.count hG.format hG.bytes (by decide), hG.format, Bool.true_and]
  have hbd : (if (!c.iterContiguous Comp.integer) = true then e.index - b.index else ds.length) = e.index - b.index := by
    cases hc : c.iterContiguous .integer
    · simp
    · simp [(h5 hc).1]
  rw [hbd]
  by_cases hz : (c.requiredIntegerDigits && decide (ds.length = 0)) = true
  · simp only [hz, if_true]
  · simp only [hz, Bool.false_eq_true, if_false]
    have hlen : e.index - b.index ≤ (b.slc.drop b.index).length := by
      have := hR.valid; simp only [List.length_drop]; omega
    rw [sliceTo_ok c b _ _ hlen]
    simp only [hG.noLz, Bool.and_false, Bool.false_and, Bool.false_eq_true, if_false, slice]

/-- `fractionPhase` over an input with separators -/
theorem fractionPhase_left (c : Cfg) (o : POpts) (hG : GenStrip c o) (b : Bytes) (m : Nat) (hv : Bytes.Valid b) :
    (b.firstIsCased o.dp = false ∧ fractionPhase c o b m = .ok ⟨b, m, 0, 0, none, false⟩) ∨
    (b.slc[b.index]? = some o.dp ∧ ∃ ds e, Run c .fraction c.mantissaRadix { b with index := b.index + 1 } e ds ∧
      (c.iterContiguous .fraction = true →
        e.index - (b.index + 1) = ds.length ∧ NoSep c (slice b.slc (b.index + 1) e.index)) ∧
      fractionPhase c o b m =
        (if (c.requiredFractionDigits && decide (ds.length = 0)) = true then .error (.err "EmptyFraction" e.index)
         else .ok ⟨e, foldMantissa c.mantissaRadix m ds, ds.length, scaleVal c (-(ds.length : Int)),
           some (slice b.slc (b.index + 1) e.index), true⟩)) := by
  by_cases hdp : b.firstIsCased o.dp = true
  · right
    have hget : b.slc[b.index]? = some o.dp := by
      simp only [Bytes.firstIsCased, Bytes.first, beq_iff_eq] at hdp; exact hdp
    have hlt : b.index < b.slc.length := (List.getElem?_eq_some_iff.mp hget).1
    have hv1 : Bytes.Valid ({ b with index := b.index + 1 } : Bytes) := by unfold Bytes.Valid; simp only; omega
    obtain ⟨m1, b1, ds1, ds, e, h1, h2, h3, h4, h5⟩ :=
      digitsRun_any c .fraction hG.rel hG.sepDigM { b with index := b.index + 1 } m hv1
    have hR := Run.of c .fraction _ hG.rel.debug hG.sepDigM _ e ds hv1 h3
    refine ⟨hget, ds, e, hR, h5, ?_⟩
    unfold fractionPhase
    simp only [hdp, if_true, step_release c hG.rel.debug, bind, Except.bind, h1, h2, pure, Except.pure, h4,
      hR.count hG.format hG.bytes (by decide), hG.format, Bool.true_and, scaleExponent_release c hG.rel.debug]
    have hbd : (if (!c.iterContiguous Comp.fraction) = true then e.index - (b.index + 1) else ds.length)
        = e.index - (b.index + 1) := by
      cases hc : c.iterContiguous .fraction
      · simp
      · simp [(h5 hc).1]
    rw [hbd]
    have hlen : e.index - (b.index + 1) ≤ (({ b with index := b.index + 1 } : Bytes).slc.drop
        ({ b with index := b.index + 1 } : Bytes).index).length := by
      have := hR.valid; simp only [List.length_drop] at this ⊢; omega
    rw [sliceTo_ok c { b with index := b.index + 1 } _ _ hlen]
    simp only [slice]
  · left
    have hdp' : b.firstIsCased o.dp = false := by simpa using hdp
    refine ⟨hdp', ?_⟩
    unfold fractionPhase
    simp only [hdp', Bool.false_eq_true, if_false, pure, Except.pure]

end LexVerif.Proof.Sep
