import LexVerif.Proof.SepLocal1
/-!
# Proof.SepLocal2 — the neighbourhood of a position inside a stored slice `R = s[a..e)` against its neighbourhood in
the whole buffer `s`
-/
set_option linter.unusedSimpArgs false
namespace LexVerif.Proof.Sep
open LexVerif LexVerif.Model LexVerif.Spec
open LexVerif.Props.C12

theorem slice_get (s : List Nat) (a e j : Nat) (h : a + j < e) : (slice s a e)[j]? = s[a + j]? := by
  unfold slice
  rw [List.getElem?_take, if_pos (by omega), List.getElem?_drop]

theorem slice_get_none (s : List Nat) (a e j : Nat) (h : e ≤ a + j) : (slice s a e)[j]? = none := by
  unfold slice
  rw [List.getElem?_take, if_neg (by omega)]

theorem slice_drop_eq (s : List Nat) (a e j : Nat) : (slice s a e).drop j = slice s (a + j) e := by
  unfold slice
  rw [List.drop_take, List.drop_drop]
  congr 1
  omega

/-- first non-separator byte of a prefix: the one of the whole list, or none because the prefix is all separators -/
theorem firstNonSep_take (c : Cfg) : ∀ (l : List Nat) (m : Nat),
    firstNonSep c (l.take m) = firstNonSep c l ∨
    (firstNonSep c (l.take m) = none ∧ (l.take m).all c.isSep = true ∧ firstNonSep c l = firstNonSep c (l.drop m)) := by
  intro l
  induction l with
  | nil => intro m; left; simp
  | cons x xs ih =>
    intro m
    cases m with
    | zero => right; simp [firstNonSep]
    | succ k =>
      simp only [List.take_succ_cons, List.drop_succ_cons, firstNonSep]
      cases hs : c.isSep x with
      | false => left; simp
      | true =>
        simp only [if_true]
        rcases ih k with h | ⟨h1, h2, h3⟩
        · exact Or.inl h
        · exact Or.inr ⟨h1, by simp [hs, h2], h3⟩

theorem firstNonSep_head (c : Cfg) (l : List Nat) (h : ∀ x, l.head? = some x → c.isSep x = false) :
    firstNonSep c l = l.head? := by
  cases l with
  | nil => rfl
  | cons x xs => simp [firstNonSep, h x rfl]

theorem countSeps_take (c : Cfg) : ∀ (l : List Nat) (m : Nat), countSeps c (l.take m) = min (countSeps c l) m := by
  intro l
  induction l with
  | nil => intro m; simp [countSeps]
  | cons x xs ih =>
    intro m
    cases m with
    | zero => simp [countSeps]
    | succ k =>
      simp only [List.take_succ_cons, countSeps]
      cases hs : c.isSep x with
      | false => simp
      | true => simp only [if_true, ih k]; omega

/-- `prevc` inside the slice: the one of the whole buffer, or none because everything before (inside the slice) is a
separator — then the buffer's `prevc` is the one seen from the slice start -/
theorem prevc_slice (c : Cfg) (s : List Nat) (a e : Nat) : ∀ j, a + j ≤ e →
    prevcByte c (slice s a e) j = prevcByte c s (a + j) ∨
    (prevcByte c (slice s a e) j = none ∧ prevcByte c s (a + j) = prevcByte c s a) := by
  intro j
  induction j with
  | zero => intro _; right; simp [prevcByte]
  | succ k ih =>
    intro h
    have hk : a + k < e := by omega
    have e1 : a + (k + 1) = (a + k) + 1 := by omega
    rw [e1]
    simp only [prevcByte, slice_get s a e k hk]
    cases hv : s[a + k]? with
    | none => left; rfl
    | some x =>
      simp only
      cases hs : c.isSep x with
      | false => left; simp
      | true =>
        simp only [if_true]
        exact ih (by omega)

/-- the neighbourhood of position `a + j` of `s`, seen from inside the slice `s[a..e)`, is `Weaker` than the one seen in
`s` — given what surrounds the slice: before it nothing or a byte that is neither digit nor separator, after it
likewise -/
theorem nbr_slice (c : Cfg) (s : List Nat) (a e j : Nat) (hj : a + j < e) (he : e ≤ s.length)
    (hprev : (∀ x, getPrev s a = some x → c.isDigit x = false ∧ c.isSep x = false) ∨ 0 < j ∧
      (∀ x, s[a]? = some x → c.isSep x = false))
    (hnext : ∀ x, s[e]? = some x → c.isDigit x = false ∧ c.isSep x = false) :
    Weaker c (nbr c (slice s a e) j).prev (nbr c s (a + j)).prev ∧
    Weaker c (nbr c (slice s a e) j).next (nbr c s (a + j)).next ∧
    Weaker c (nbr c (slice s a e) j).prevc (nbr c s (a + j)).prevc ∧
    Weaker c (nbr c (slice s a e) j).nextc (nbr c s (a + j)).nextc := by
  simp only [nbr]
  refine ⟨?_, ?_, ?_, ?_⟩
  · -- prev
    cases j with
    | zero =>
      right
      refine ⟨by simp [getPrev], ?_⟩
      rcases hprev with h | ⟨h, _⟩
      · simpa using h
      · omega
    | succ k =>
      left
      have : a + (k + 1) ≠ 0 := by omega
      simp only [getPrev, Nat.succ_ne_zero, if_false, Nat.add_sub_cancel, this]
      rw [slice_get s a e k (by omega)]
      congr 1
  · -- next
    by_cases h1 : a + (j + 1) < e
    · left; rw [slice_get s a e (j + 1) h1]; congr 1
    · right
      refine ⟨slice_get_none s a e (j + 1) (by omega), ?_⟩
      have : a + j + 1 = e := by omega
      rw [this]; exact hnext
  · -- prevc
    rcases prevc_slice c s a e j (by omega) with h | ⟨h1, h2⟩
    · exact Or.inl h
    · right
      refine ⟨h1, ?_⟩
      rw [h2]
      rcases hprev with h | ⟨h0, h⟩
      · -- seen from the slice start: the byte before it, which is no separator
        cases a with
        | zero => intro y hy; simp [prevcByte] at hy
        | succ a0 =>
          intro y hy
          simp only [prevcByte] at hy
          cases hv : s[a0]? with
          | none => rw [hv] at hy; cases hy
          | some x =>
            have hx := h x (by simp [getPrev, hv])
            rw [hv] at hy
            simp only [hx.2, Bool.false_eq_true, if_false, Option.some.injEq] at hy
            subst hy; exact hx
      · -- the slice starts with a non-separator: the scan inside the slice finds it
        exfalso
        obtain ⟨k, rfl⟩ : ∃ k, j = k + 1 := ⟨j - 1, by omega⟩
        -- prevcByte (slice) (k+1) = none is impossible: position 0 of the slice is not a separator
        have hne : ∀ m, m ≤ k → prevcByte c (slice s a e) (m + 1) ≠ none := by
          intro m
          induction m with
          | zero =>
            intro _
            simp only [prevcByte, slice_get s a e 0 (by omega), Nat.add_zero]
            cases hv : s[a]? with
            | none =>
              have := List.getElem?_eq_none_iff.mp hv
              omega
            | some x => simp [h x hv]
          | succ m ihm =>
            intro hm
            simp only [prevcByte, slice_get s a e (m + 1) (by omega)]
            cases hv : s[a + (m + 1)]? with
            | none =>
              have := List.getElem?_eq_none_iff.mp hv
              omega
            | some x =>
              simp only
              split
              · exact ihm (by omega)
              · simp
        exact hne k (Nat.le_refl _) h1
  · -- nextc
    simp only [nextcByte, slice_drop_eq]
    have hdrop : slice s (a + (j + 1)) e = (s.drop (a + j + 1)).take (e - (a + j + 1)) := by
      unfold slice; congr 2
    rw [hdrop]
    rcases firstNonSep_take c (s.drop (a + j + 1)) (e - (a + j + 1)) with h | ⟨h1, _, h3⟩
    · exact Or.inl h
    · right
      refine ⟨h1, ?_⟩
      rw [h3, List.drop_drop]
      have : a + j + 1 + (e - (a + j + 1)) = e := by omega
      rw [this, firstNonSep_head c _ (by
        intro x hx
        rw [List.head?_drop] at hx
        exact (hnext x hx).2), List.head?_drop]
      exact hnext

end LexVerif.Proof.Sep
