import LexVerif.Proof.ParseNumberC11Prefix
import LexVerif.Proof.SepBasic
/-!
# Proof.ParseNumberC11SepPeek — C11 (B) with digit separators: one `peek` under truncation of the buffer

`peek` of a skip iterator decides from the neighbourhood of a separator whether to skip it: `prev` / `prevc` (never
touched by a truncation behind the cursor) and `next` / `nextc` — the byte right after the separator resp. the first
non-separator byte after it. When `peek` skips, that look-ahead byte IS the byte `peek` returns (for the consecutive
predicates the cursor lands on it; for the others it is `index + 1`), so a truncation at `n ≥ ` the new cursor changes the
look-ahead only when `n` = the new cursor, and then it changes `some x` into `none`. Every predicate is monotone for
that change (`holds_weaken`) unless it asks for a *digit* after the separator (`Pred.needsDigit`: i, il, ic, and ilc at
the first position); there the returned byte `x` is a mantissa-radix digit, which a digit loop of the same radix consumes
— so the cut lies behind it.

When `peek` does not skip (returns the separator itself) a cut right at the cursor turns the separator into end of
input — same answer for every caller (no digit, no match); a cut further right could flip the decision, which is why
`Adm` asks for the cut to be exactly at a cursor that rests on a separator.
-/
set_option linter.unusedSectionVars false
set_option linter.unusedSimpArgs false
set_option linter.unusedVariables false
namespace LexVerif.Proof.C11
open LexVerif LexVerif.Model LexVerif.Spec
open LexVerif.Props.C12 (Bytes.Valid incCount_spec peek_spec peekPred_spec countSeps_le)
open LexVerif.Proof.PNTotal (Rel)

/-- predicates whose skip decision can require a digit after the separator -/
def predNeedsDigit : Pred → Bool
  | .i | .il | .ic | .ilc => true
  | _ => false

/-- the iterator of component `k` may ask "is the byte after the separator a (mantissa-radix) digit?" -/
def DigitLook (c : Cfg) (k : Comp) : Prop := ∃ p, c.skip k = .pred p ∧ predNeedsDigit p = true

/-- `n` is an admissible cut for an iterator of component `k` that came to rest at `b'`: not before the cursor; exactly at
the cursor when it rests on a separator; behind the cursor when it rests on a mantissa digit and the iterator's
predicate looks for digits -/
def Adm (c : Cfg) (k : Comp) (n : Nat) (b' : Bytes) : Prop :=
  b'.index ≤ n ∧ ∀ x, b'.slc[b'.index]? = some x →
    (c.isSep x = true → n = b'.index) ∧ (DigitLook c k → c.isDigit x = true → b'.index < n)

/-! ## lists -/

theorem firstNonSep_eq (c : Cfg) (l : List Nat) : firstNonSep c l = l[countSeps c l]? := by
  induction l with
  | nil => simp [firstNonSep, countSeps]
  | cons x xs ih =>
    simp only [firstNonSep, countSeps]
    split
    · simp only [List.getElem?_cons_succ]; exact ih
    · simp

theorem countSeps_take (c : Cfg) (l : List Nat) : ∀ m, countSeps c l ≤ m → countSeps c (l.take m) = countSeps c l := by
  induction l with
  | nil => intro m _; simp [countSeps]
  | cons x xs ih =>
    intro m hm
    by_cases hs : c.isSep x = true
    · simp only [countSeps, hs, if_true] at hm ⊢
      obtain ⟨m2, rfl⟩ : ∃ m2, m = m2 + 1 := ⟨m - 1, by omega⟩
      simp only [List.take_succ_cons, countSeps, hs, if_true]
      rw [ih m2 (by omega)]
    · cases m with
      | zero => simp [countSeps, hs]
      | succ m2 => simp [List.take_succ_cons, countSeps, hs]

theorem prevcByte_take (c : Cfg) (s : List Nat) (n : Nat) : ∀ i, i ≤ n → prevcByte c (s.take n) i = prevcByte c s i := by
  intro i
  induction i with
  | zero => intro _; rfl
  | succ j ih =>
    intro hj
    simp only [prevcByte]
    rw [take_get_lt s n j (by omega), ih (by omega)]

theorem getPrev_take (s : List Nat) (n i : Nat) (h : i ≤ n) : getPrev (s.take n) i = getPrev s i := by
  unfold getPrev
  split
  · rfl
  · rw [take_get_lt s n (i - 1) (by omega)]

/-! ## the predicates -/

/-- the skip decision survives when the look-ahead byte (`next` for the non-consecutive predicates, `nextc` for the
consecutive ones) is replaced by end of input — provided that byte was not a digit the predicate asked for -/
theorem holds_weaken (c : Cfg) (p : Pred) (first : Bool) (n1 n2 : Nbr)
    (h : p.holds c n1 first = true) (hp : n2.prev = n1.prev) (hpc : n2.prevc = n1.prevc)
    (hn : p.consecutive = false → n2.next = n1.next ∨
      (n2.next = none ∧ (predNeedsDigit p = true → ∀ x, n1.next = some x → c.isDigit x = false)))
    (hnc : p.consecutive = true → n2.nextc = n1.nextc ∨
      (n2.nextc = none ∧ (predNeedsDigit p = true → ∀ x, n1.nextc = some x → c.isDigit x = false))) :
    p.holds c n2 first = true := by
  obtain ⟨pv1, nx1, pc1, nc1⟩ := n1
  obtain ⟨pv2, nx2, pc2, nc2⟩ := n2
  simp only at hp hpc hn hnc
  subst hp hpc
  cases p <;> cases first <;>
    simp only [Pred.consecutive, predNeedsDigit, Bool.false_eq_true, forall_const, false_implies,
      true_implies, reduceCtorEq, Pred.holds, if_false, if_true] at hn hnc h ⊢
  all_goals (try (rcases hn with rfl | ⟨rfl, hd⟩))
  all_goals (try (rcases hnc with rfl | ⟨rfl, hd⟩))
  all_goals (try exact h)
  all_goals (cases nx1 <;> cases nc1 <;> cases pv2 <;> cases pc2 <;> simp_all)

/-! ## `peek` -/

theorem nextc_take (c : Cfg) (s : List Nat) (i n : Nat)
    (h : i + 1 + countSeps c (s.drop (i + 1)) ≤ n) :
    countSeps c ((s.take n).drop (i + 1)) = countSeps c (s.drop (i + 1)) ∧
    nextcByte c (s.take n) i =
      if i + 1 + countSeps c (s.drop (i + 1)) < n then nextcByte c s i else none := by
  have e : (s.take n).drop (i + 1) = (s.drop (i + 1)).take (n - (i + 1)) := by rw [List.drop_take]
  have hc := countSeps_take c (s.drop (i + 1)) (n - (i + 1)) (by omega)
  refine ⟨by rw [e, hc], ?_⟩
  unfold nextcByte
  rw [firstNonSep_eq, firstNonSep_eq, e, hc, List.getElem?_take]
  by_cases hlt : i + 1 + countSeps c (s.drop (i + 1)) < n
  · rw [if_pos hlt, if_pos (by omega)]
  · rw [if_neg hlt, if_neg (by omega)]

theorem nextcByte_eq (c : Cfg) (s : List Nat) (i : Nat) :
    nextcByte c s i = s[i + 1 + countSeps c (s.drop (i + 1))]? := by
  unfold nextcByte
  rw [firstNonSep_eq, List.getElem?_drop]

/-- `peek_1!` / `peek_n!` on the buffer cut at an admissible `n` -/
theorem peekPred_trunc (c : Cfg) (p : Pred) (cnt : Nat) (b : Bytes) (n : Nat)
    (hn : (peekPred c p cnt b).2.index ≤ n)
    (hA : ∀ x, (peekPred c p cnt b).1 = some x → c.isSep x = true → n = (peekPred c p cnt b).2.index)
    (hB : predNeedsDigit p = true → ∀ x, (peekPred c p cnt b).1 = some x → c.isDigit x = true →
      (peekPred c p cnt b).2.index < n) :
    peekPred c p cnt (trunc n b) =
      (if (peekPred c p cnt b).2.index < n then (peekPred c p cnt b).1 else none, trunc n (peekPred c p cnt b).2) := by
  unfold peekPred at hn hA hB ⊢
  rw [get_trunc]
  cases hg : b.slc[b.index]? with
  | none =>
    simp only [hg] at hn hA hB ⊢
    have e : (if b.index < n then (none : Option Nat) else none) = none := by split <;> rfl
    rw [e]
  | some v =>
    simp only [hg] at hn hA hB ⊢
    by_cases hs : c.isSep v = true
    · simp only [hs, if_true] at hn hA hB ⊢
      by_cases hh : p.holds c (nbr c b.slc b.index) (cnt == 0) = true
      · simp only [hh, if_true] at hn hA hB ⊢
        have hidx : b.index + 1 ≤
            (if p.consecutive = true then b.index + 1 + countSeps c (List.drop (b.index + 1) b.slc) else b.index + 1) := by
          split <;> omega
        have hin : b.index < n := by omega
        rw [if_pos hin]
        simp only [hs, if_true, trunc_slc, trunc_index]
        -- the decision on the truncated buffer
        have hh2 : p.holds c (nbr c (b.slc.take n) b.index) (cnt == 0) = true := by
          apply holds_weaken c p (cnt == 0) (nbr c b.slc b.index) _ hh
          · exact getPrev_take _ _ _ (by omega)
          · exact prevcByte_take c _ _ _ (by omega)
          · intro hpc
            simp only [hpc, Bool.false_eq_true, if_false] at hn hB
            simp only [nbr]
            by_cases hlt : b.index + 1 < n
            · left; exact take_get_lt _ _ _ hlt
            · right
              refine ⟨take_get_ge _ _ _ (by omega), ?_⟩
              intro hnd x hx
              cases hd : c.isDigit x with
              | false => rfl
              | true => have := hB hnd x hx hd; omega
          · intro hpc
            simp only [hpc, if_true] at hn hB
            simp only [nbr]
            obtain ⟨_, e2⟩ := nextc_take c b.slc b.index n hn
            by_cases hlt : b.index + 1 + countSeps c (List.drop (b.index + 1) b.slc) < n
            · left; rw [e2, if_pos hlt]
            · right
              refine ⟨by rw [e2, if_neg hlt], ?_⟩
              intro hnd x hx
              rw [nextcByte_eq] at hx
              cases hd : c.isDigit x with
              | false => rfl
              | true => have := hB hnd x hx hd; omega
        rw [hh2]
        simp only [if_true]
        by_cases hpc : p.consecutive = true
        · simp only [hpc, if_true] at hn ⊢
          obtain ⟨e1, _⟩ := nextc_take c b.slc b.index n hn
          rw [e1]
          by_cases hlt : b.index + 1 + countSeps c (List.drop (b.index + 1) b.slc) < n
          · rw [if_pos hlt, take_get_lt _ _ _ hlt]; rfl
          · rw [if_neg hlt, take_get_ge _ _ _ (by omega)]; rfl
        · simp only [hpc, Bool.false_eq_true, if_false] at hn ⊢
          by_cases hlt : b.index + 1 < n
          · rw [if_pos hlt, take_get_lt _ _ _ hlt]; rfl
          · rw [if_neg hlt, take_get_ge _ _ _ (by omega)]; rfl
      · simp only [hh, Bool.false_eq_true, if_false] at hn hA hB ⊢
        have := hA v rfl hs
        have hlt : ¬ b.index < n := by omega
        simp only [hlt, if_false]
    · simp only [hs, Bool.false_eq_true, if_false] at hn hA hB ⊢
      by_cases hin : b.index < n
      · simp only [hin, if_true, hs, Bool.false_eq_true, if_false]
      · simp only [hin, if_false]

@[simp] theorem trunc_iterCount (c : Cfg) (k : Comp) (n : Nat) (b : Bytes) :
    (trunc n b).iterCount c k = b.iterCount c k := by cases b; rfl

theorem bytes_eq_at (b b' : Bytes) (h1 : b'.slc = b.slc) (h2 : b'.ic = b.ic) (h3 : b'.fc = b.fc) (h4 : b'.ec = b.ec) :
    b' = Bytes.at b b'.index := by
  cases b; cases b'; simp only [Bytes.at] at *; simp [h1, h2, h3, h4]

/-- the state after `peek` is the old state with the cursor moved forward -/
theorem peek_at (c : Cfg) (k : Comp) (b b' : Bytes) (v : Option Nat) (hv : Bytes.Valid b)
    (hp : peek c k b = .ok (v, b')) :
    b' = Bytes.at b b'.index ∧ v = b.slc[b'.index]? ∧ b.index ≤ b'.index ∧ b'.index ≤ b.slc.length := by
  obtain ⟨h1, h2, h3, h4, h5, h6, h7⟩ := peek_spec c k b b' v hv hp
  refine ⟨bytes_eq_at b b' h1 h2 h3 h4, by rw [h7, h1], h5, ?_⟩
  have : b'.index ≤ b'.slc.length := h6
  rwa [h1] at this

/-- **one `peek` under truncation**: at an admissible cut the iterator makes the same decision and lands on the same
cursor; it sees the same byte, or end of input when the cut is at the new cursor -/
theorem peek_trunc (c : Cfg) (k : Comp) (b b' : Bytes) (v : Option Nat) (hv : Bytes.Valid b)
    (hp : peek c k b = .ok (v, b')) (n : Nat) (ha : Adm c k n b') :
    peek c k (trunc n b) = .ok (if b'.index < n then v else none, trunc n b') := by
  obtain ⟨_, _, _, _, _, _, h7⟩ := peek_spec c k b b' v hv hp
  unfold peek at hp ⊢
  cases hs : c.skip k with
  | noskip =>
    simp only [hs, Except.ok.injEq, Prod.mk.injEq] at hp ⊢
    obtain ⟨rfl, rfl⟩ := hp
    exact ⟨get_trunc b n, rfl⟩
  | unreachable => simp [hs] at hp
  | pred p =>
    simp only [hs, Except.ok.injEq] at hp ⊢
    rw [trunc_iterCount]
    have key := peekPred_trunc c p (b.iterCount c k) b n
    rw [hp] at key
    simp only at key
    apply key ha.1
    · intro x hx hsx
      exact (ha.2 x (by rw [← h7]; exact hx)).1 hsx
    · intro hnd x hx hdx
      exact (ha.2 x (by rw [← h7]; exact hx)).2 ⟨p, hs, hnd⟩ hdx

/-- on a byte that is not the separator `peek` does not move -/
theorem peek_nonsep (c : Cfg) (hc : Rel c) (k : Comp) (b : Bytes) (x : Nat) (hx : b.slc[b.index]? = some x)
    (hs : c.isSep x = false) : peek c k b = .ok (some x, b) := by
  unfold peek
  cases hk : c.skip k with
  | noskip => simp [hx]
  | unreachable => exact absurd hk (hc.hs k)
  | pred p => simp [peekPred, hx, hs]

theorem peek_none (c : Cfg) (hc : Rel c) (k : Comp) (b : Bytes) (hx : b.slc[b.index]? = none) :
    peek c k b = .ok (none, b) := by
  unfold peek
  cases hk : c.skip k with
  | noskip => simp [hx]
  | unreachable => exact absurd hk (hc.hs k)
  | pred p => simp [peekPred, hx]

/-- an iterator that never skips accepts every cut at or behind its cursor -/
theorem Adm.of_noskip {c : Cfg} {k : Comp} (hk : c.skip k = .noskip) : ¬ DigitLook c k := by
  rintro ⟨p, hp, _⟩
  rw [hk] at hp; cases hp

/-- `Adm` only looks at the buffer and the cursor -/
theorem Adm.congr {c : Cfg} {k : Comp} {n : Nat} {b1 b2 : Bytes} (h : Adm c k n b1) (hs : b2.slc = b1.slc)
    (hi : b2.index = b1.index) : Adm c k n b2 := by
  unfold Adm at *
  rw [hs, hi]; exact h

/-- a cut strictly behind a cursor that rests on a non-separator byte is admissible -/
theorem Adm.of_lt {c : Cfg} {k : Comp} {n : Nat} {b : Bytes} (hlt : b.index < n)
    (hs : ∀ x, b.slc[b.index]? = some x → c.isSep x = false) : Adm c k n b := by
  refine ⟨by omega, fun x hx => ⟨fun h => ?_, fun _ _ => hlt⟩⟩
  rw [hs x hx] at h; cases h

/-! ## a `peek` that comes to rest on a separator stays there -/

/-- a non-consecutive predicate that skipped onto another separator does not skip that one (same position class):
only I+L at the first position with a non-digit before it can skip onto a separator at all -/
theorem holds_land_sep (c : Cfg) (p : Pred) (first : Bool) (n1 n2 : Nbr) (x y : Nat)
    (hpc : p.consecutive = false) (h : p.holds c n1 first = true) (hx : n1.next = some x) (hs : c.isSep x = true)
    (hy : n2.prev = some y) (hsy : c.isSep y = true) (hdx : c.isDigit x = false) (hdy : c.isDigit y = false) :
    p.holds c n2 first = false := by
  obtain ⟨pv1, nx1, pc1, nc1⟩ := n1
  obtain ⟨pv2, nx2, pc2, nc2⟩ := n2
  simp only at hx hy
  subst hx hy
  cases p <;> cases first <;>
    simp only [Pred.consecutive, Pred.holds, Bool.false_eq_true, if_false, if_true, reduceCtorEq] at hpc h ⊢
  all_goals (cases pv1 <;> simp_all)

theorem any_of_skip_pred (f : SepFlags) (p : Pred) (h : f.skip = .pred p) : f.any = true := by
  obtain ⟨i, l, t, cc⟩ := f
  cases i <;> cases l <;> cases t <;> cases cc <;> simp [SepFlags.skip] at h <;> rfl

/-- an iterator with a separator predicate is not contiguous: its `current_count()` is its digit count -/
theorem iterContiguous_of_pred (c : Cfg) (k : Comp) (p : Pred) (h : c.skip k = .pred p) : c.iterContiguous k = false := by
  cases k with
  | special =>
    simp only [Cfg.skip] at h
    split at h
    · next hs => simp [Cfg.iterContiguous, hs]
    · cases h
  | integer => simp [Cfg.iterContiguous, any_of_skip_pred _ p h]
  | fraction => simp [Cfg.iterContiguous, any_of_skip_pred _ p h]
  | exponent => simp [Cfg.iterContiguous, any_of_skip_pred _ p h]

theorem getPrev_succ (s : List Nat) (i : Nat) : getPrev s (i + 1) = s[i]? := by
  simp [getPrev]

/-- `peek` again from the state a `peek` returned with a separator under the cursor: nothing moves -/
theorem peek_idem (c : Cfg) (k : Comp) (b0 b : Bytes) (x : Nat) (hv : Bytes.Valid b0)
    (hp : peek c k b0 = .ok (some x, b)) (hs : c.isSep x = true) (hnd : ∀ y, c.isSep y = true → c.isDigit y = false) :
    peek c k b = .ok (some x, b) := by
  obtain ⟨p1, p2, p3, p4⟩ := peek_at c k b0 b (some x) hv hp
  have hslc : b.slc = b0.slc := by rw [p1]; rfl
  have hxb : b.slc[b.index]? = some x := by rw [hslc]; exact p2.symm
  unfold peek at hp ⊢
  cases hsk : c.skip k with
  | noskip => simp only [hxb]
  | unreachable => simp [hsk] at hp
  | pred p =>
    simp only [hsk, Except.ok.injEq] at hp ⊢
    have hnc : c.iterContiguous k = false := iterContiguous_of_pred c k p hsk
    have hcnt : b.iterCount c k = b0.iterCount c k := by
      rw [p1]; unfold Bytes.iterCount Bytes.at; simp only [hnc, Bool.false_eq_true, if_false]
    rw [hcnt]
    unfold peekPred at hp ⊢
    simp only [hxb, hs, if_true]
    -- the second decision
    have key : p.holds c (nbr c b.slc b.index) (b0.iterCount c k == 0) = false := by
      cases hg : b0.slc[b0.index]? with
      | none => simp [hg] at hp
      | some v =>
        simp only [hg] at hp
        by_cases hsv : c.isSep v = true
        · simp only [hsv, if_true] at hp
          by_cases hh : p.holds c (nbr c b0.slc b0.index) (b0.iterCount c k == 0) = true
          · simp only [hh, if_true, Prod.mk.injEq] at hp
            by_cases hpc : p.consecutive = true
            · exfalso
              simp only [hpc, if_true] at hp
              have := Sep.countSeps_stop c (b0.slc.drop (b0.index + 1)) x (by rw [List.getElem?_drop]; exact hp.1)
              rw [hs] at this; cases this
            · have hpc : p.consecutive = false := by simpa using hpc
              simp only [hpc, Bool.false_eq_true, if_false] at hp
              have hbi : b.index = b0.index + 1 := by rw [← hp.2]
              apply holds_land_sep c p _ (nbr c b0.slc b0.index) _ x v hpc hh
                (by simp only [nbr]; exact hp.1) hs ?_ hsv (hnd x hs) (hnd v hsv)
              simp only [nbr, hbi, getPrev_succ, hslc, hg]
          · simp only [hh, Bool.false_eq_true, if_false, Prod.mk.injEq] at hp
            rw [← hp.2]
            simpa using hh
        · simp only [hsv, Bool.false_eq_true, if_false, Prod.mk.injEq, Option.some.injEq] at hp
          rw [hp.1] at hsv; exact absurd hs hsv
    rw [key]
    simp

/-- the state a `peek` returns is a rest state: `peek` again does not move (whatever byte is under the cursor) -/
theorem peek_rest (c : Cfg) (hc : Rel c) (k : Comp) (b0 b : Bytes) (v : Option Nat) (hv : Bytes.Valid b0)
    (hp : peek c k b0 = .ok (v, b)) (hnd : ∀ y, c.isSep y = true → c.isDigit y = false) :
    peek c k b = .ok (v, b) := by
  obtain ⟨p1, p2, p3, p4⟩ := peek_at c k b0 b v hv hp
  have hslc : b.slc = b0.slc := by rw [p1]; rfl
  cases v with
  | none => exact peek_none c hc k b (by rw [hslc]; exact p2.symm)
  | some x =>
    cases hs : c.isSep x with
    | true => exact peek_idem c k b0 b x hv hp hs hnd
    | false => exact peek_nonsep c hc k b x (by rw [hslc]; exact p2.symm) hs

end LexVerif.Proof.C11
