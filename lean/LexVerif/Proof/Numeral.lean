import LexVerif.Spec.Numeral
/-!
# Proof.Numeral — facts about the canonical numeral `Spec.toDigits`

`toDigits_lt` / `toDigits_step` (fuel-free recursion equations), `ofDigits_toDigits`,
`toDigits_digit_lt`, `toDigits_head_ne_zero`, `toDigits_length_spec`, `toDigits_unique`,
and the fixed-width (zero padded) digit strings `padDigits` used by the chunked writers.
-/
namespace LexVerif.Spec

theorem toDigitsAux_acc (r : Nat) : ∀ (fuel n : Nat) (acc : List Nat),
    toDigitsAux r fuel n acc = toDigitsAux r fuel n [] ++ acc := by
  intro fuel
  induction fuel with
  | zero => intro n acc; simp [toDigitsAux]
  | succ f ih =>
    intro n acc
    simp only [toDigitsAux]
    split
    · simp
    · rw [ih (n / r) (n % r :: acc), ih (n / r) [n % r]]; simp

theorem toDigitsAux_fuel (r : Nat) (hr : 2 ≤ r) : ∀ (f1 f2 n : Nat), n < f1 → n < f2 →
    toDigitsAux r f1 n [] = toDigitsAux r f2 n [] := by
  intro f1
  induction f1 with
  | zero => intro f2 n h; omega
  | succ f ih =>
    intro f2 n h1 h2
    cases f2 with
    | zero => omega
    | succ g =>
      simp only [toDigitsAux]
      split
      · rfl
      · rename_i hn
        have hlt : n / r < n := Nat.div_lt_self (by omega) (by omega)
        rw [toDigitsAux_acc r f, toDigitsAux_acc r g, ih g (n / r) (by omega) (by omega)]

theorem toDigits_lt (r n : Nat) (h : n < r) : toDigits r n = [n] := by
  simp [toDigits, toDigitsAux, h]

theorem toDigits_step (r n : Nat) (hr : 2 ≤ r) (h : r ≤ n) :
    toDigits r n = toDigits r (n / r) ++ [n % r] := by
  have hlt : n / r < n := Nat.div_lt_self (by omega) (by omega)
  have e : toDigitsAux r (n + 1) n [] = toDigitsAux r n (n / r) [n % r] := by
    rw [toDigitsAux, if_neg (by omega)]
  unfold toDigits
  rw [e, toDigitsAux_acc]
  rw [toDigitsAux_fuel r hr n (n / r + 1) (n / r) (by omega) (by omega)]

theorem ofDigits_append (r : Nat) (a b : List Nat) :
    ofDigits r (a ++ b) = b.foldl (fun acc d => acc * r + d) (ofDigits r a) := by
  simp [ofDigits, List.foldl_append]

theorem ofDigits_snoc (r : Nat) (a : List Nat) (d : Nat) : ofDigits r (a ++ [d]) = ofDigits r a * r + d := by
  simp [ofDigits_append]

/-- strong induction along `n ↦ n / r` -/
theorem radix_induction {P : Nat → Prop} (r : Nat) (hr : 2 ≤ r)
    (base : ∀ n, n < r → P n) (step : ∀ n, r ≤ n → P (n / r) → P n) : ∀ n, P n := by
  intro n
  induction n using Nat.strongRecOn with
  | _ n ih =>
    by_cases h : n < r
    · exact base n h
    · exact step n (by omega) (ih (n / r) (Nat.div_lt_self (by omega) (by omega)))

/-- (1) the numeral denotes the number -/
theorem ofDigits_toDigits (r n : Nat) (hr : 2 ≤ r) : ofDigits r (toDigits r n) = n := by
  induction n using radix_induction r hr with
  | base n h => simp [toDigits_lt r n h, ofDigits]
  | step n h ih =>
    rw [toDigits_step r n hr h, ofDigits_snoc, ih]
    have := Nat.div_add_mod n r
    rw [Nat.mul_comm] at this; exact this

/-- (2) every digit is below the radix -/
theorem toDigits_digit_lt (r n : Nat) (hr : 2 ≤ r) : ∀ d ∈ toDigits r n, d < r := by
  induction n using radix_induction r hr with
  | base n h => simp [toDigits_lt r n h]; exact h
  | step n h ih =>
    rw [toDigits_step r n hr h]
    intro d hd
    rcases List.mem_append.mp hd with h1 | h1
    · exact ih d h1
    · simp at h1; subst h1; exact Nat.mod_lt _ (by omega)

theorem toDigits_ne_nil (r n : Nat) (hr : 2 ≤ r) : toDigits r n ≠ [] := by
  by_cases h : n < r
  · simp [toDigits_lt r n h]
  · rw [toDigits_step r n hr (by omega)]; simp

theorem toDigits_zero (r : Nat) (hr : 2 ≤ r) : toDigits r 0 = [0] := toDigits_lt r 0 (by omega)

/-- (3) no leading zero unless the number is zero -/
theorem toDigits_head_ne_zero (r n : Nat) (hr : 2 ≤ r) (hn : n ≠ 0) : (toDigits r n).head? ≠ some 0 := by
  induction n using radix_induction r hr with
  | base n h => simp [toDigits_lt r n h]; exact hn
  | step n h ih =>
    rw [toDigits_step r n hr h]
    have hq : n / r ≠ 0 := by
      have := Nat.div_pos h (by omega : 0 < r); omega
    have hne := toDigits_ne_nil r (n / r) hr
    cases hd : toDigits r (n / r) with
    | nil => exact absurd hd hne
    | cons a as => have := ih hq; rw [hd] at this; simpa using this

/-- (4) the length is the number of digits: the smallest `k ≥ 1` with `n < r^k` -/
theorem toDigits_length_spec (r n : Nat) (hr : 2 ≤ r) :
    1 ≤ (toDigits r n).length ∧ n < r ^ (toDigits r n).length ∧
      ((toDigits r n).length = 1 ∨ r ^ ((toDigits r n).length - 1) ≤ n) := by
  induction n using radix_induction r hr with
  | base n h => simp [toDigits_lt r n h]; exact h
  | step n h ih =>
    rw [toDigits_step r n hr h]
    obtain ⟨h1, h2, h3⟩ := ih
    simp only [List.length_append, List.length_singleton, Nat.add_sub_cancel]
    refine ⟨by omega, ?_, Or.inr ?_⟩
    · rw [Nat.pow_succ]
      have := Nat.div_add_mod n r
      have hm := Nat.mod_lt n (by omega : 0 < r)
      calc n = r * (n / r) + n % r := by omega
        _ < r * (n / r) + r := by omega
        _ = (n / r + 1) * r := by rw [Nat.add_mul, Nat.mul_comm]; simp
        _ ≤ r ^ (toDigits r (n / r)).length * r := Nat.mul_le_mul_right r (by omega)
    · rcases h3 with h3 | h3
      · rw [h3]; simpa using h
      · have : (toDigits r (n / r)).length = ((toDigits r (n / r)).length - 1) + 1 := by omega
        rw [this, Nat.pow_succ]
        calc r ^ ((toDigits r (n / r)).length - 1) * r ≤ (n / r) * r := Nat.mul_le_mul_right r h3
          _ ≤ n := Nat.div_mul_le_self n r

/-- the length is determined by the bracketing powers -/
theorem toDigits_length_eq (r n k : Nat) (hr : 2 ≤ r) (hk : 1 ≤ k) (hlt : n < r ^ k)
    (hge : k = 1 ∨ r ^ (k - 1) ≤ n) : (toDigits r n).length = k := by
  obtain ⟨h1, h2, h3⟩ := toDigits_length_spec r n hr
  generalize (toDigits r n).length = L at *
  rcases Nat.lt_trichotomy L k with h | h | h
  · -- L < k: r^L ≤ r^(k-1) ≤ n < r^L
    exfalso
    rcases hge with hge | hge
    · omega
    · have : r ^ L ≤ r ^ (k - 1) := Nat.pow_le_pow_right (by omega) (by omega)
      omega
  · exact h
  · exfalso
    rcases h3 with h3 | h3
    · omega
    · have : r ^ k ≤ r ^ (L - 1) := Nat.pow_le_pow_right (by omega) (by omega)
      omega

theorem toDigits_length_le (r n k : Nat) (hr : 2 ≤ r) (hk : 1 ≤ k) (hlt : n < r ^ k) :
    (toDigits r n).length ≤ k := by
  obtain ⟨_, _, h3⟩ := toDigits_length_spec r n hr
  rcases h3 with h3 | h3
  · omega
  · rcases Nat.lt_or_ge k (toDigits r n).length with hgt | hle
    · exfalso
      have : r ^ k ≤ r ^ ((toDigits r n).length - 1) := Nat.pow_le_pow_right (by omega) (by omega)
      omega
    · exact hle

/-- a canonical numeral: digits below the radix, and either `[0]` or no leading zero -/
def Canonical (r : Nat) (ds : List Nat) : Prop :=
  ds ≠ [] ∧ (∀ d ∈ ds, d < r) ∧ (ds = [0] ∨ ds.head? ≠ some 0)

theorem toDigits_canonical (r n : Nat) (hr : 2 ≤ r) : Canonical r (toDigits r n) := by
  refine ⟨toDigits_ne_nil r n hr, toDigits_digit_lt r n hr, ?_⟩
  by_cases hn : n = 0
  · left; rw [hn]; exact toDigits_zero r hr
  · right; exact toDigits_head_ne_zero r n hr hn

theorem snoc_induction {P : List Nat → Prop} (nil : P []) (snoc : ∀ l d, P l → P (l ++ [d])) : ∀ l, P l := by
  intro l
  have : ∀ m : List Nat, P m.reverse := by
    intro m; induction m with
    | nil => exact nil
    | cons a m ih => rw [List.reverse_cons]; exact snoc _ _ ih
  simpa using this l.reverse

/-- (5) uniqueness: a canonical digit list denoting `n` is `toDigits r n` -/
theorem toDigits_unique (r : Nat) (hr : 2 ≤ r) : ∀ (ds : List Nat) (n : Nat),
    Canonical r ds → ofDigits r ds = n → ds = toDigits r n := by
  intro ds
  induction ds using snoc_induction with
  | nil => intro n h; exact absurd rfl h.1
  | snoc init d ih =>
    intro n ⟨_, hlt, hz⟩ hv
    rw [ofDigits_snoc] at hv
    have hd : d < r := hlt d (by simp)
    cases init with
    | nil =>
      simp [ofDigits] at hv
      subst hv
      simp [toDigits_lt r d hd]
    | cons a as =>
      -- init is non-empty and has no leading zero, so its value is positive
      have hhead : (a :: as).head? ≠ some 0 := by
        rcases hz with hz | hz
        · simp at hz
        · simpa using hz
      have hcan : Canonical r (a :: as) :=
        ⟨by simp, fun x hx => hlt x (by simp at hx ⊢; rcases hx with h | h <;> simp [h]), Or.inr hhead⟩
      have hinit := ih (ofDigits r (a :: as)) hcan rfl
      have hpos : ofDigits r (a :: as) ≠ 0 := by
        intro h0
        rw [h0, toDigits_zero r hr] at hinit
        simp at hinit
        exact hhead (by simp [hinit.1])
      have hn : r ≤ n := by
        have : 1 ≤ ofDigits r (a :: as) := by omega
        calc r = 1 * r := by simp
          _ ≤ ofDigits r (a :: as) * r := Nat.mul_le_mul_right r this
          _ ≤ n := by omega
      have hdiv : n / r = ofDigits r (a :: as) := by
        rw [← hv, Nat.mul_comm, Nat.mul_add_div (by omega), Nat.div_eq_of_lt hd]; simp
      have hmod : n % r = d := by
        rw [← hv, Nat.mul_comm, Nat.mul_add_mod, Nat.mod_eq_of_lt hd]
      rw [toDigits_step r n hr hn, hdiv, hmod, ← hinit]

/-! ## fixed-width digit strings -/

/-- the `k` low digits of `m` in radix `r`, most significant first (zero padded) -/
def padDigits (r : Nat) : Nat → Nat → List Nat
  | 0, _ => []
  | k + 1, m => padDigits r k (m / r) ++ [m % r]

@[simp] theorem padDigits_length (r k m : Nat) : (padDigits r k m).length = k := by
  induction k generalizing m with
  | zero => rfl
  | succ k ih => simp [padDigits, ih]

/-- splitting off the `k` low digits -/
theorem toDigits_split (r : Nat) (hr : 2 ≤ r) : ∀ (k n : Nat), r ^ k ≤ n →
    toDigits r n = toDigits r (n / r ^ k) ++ padDigits r k (n % r ^ k) := by
  intro k
  induction k with
  | zero => intro n _; simp [padDigits]
  | succ k ih =>
    intro n h
    have hrk : 0 < r ^ k := Nat.pow_pos (by omega)
    have hn : r ≤ n := by
      calc r = 1 * r := by simp
        _ ≤ r ^ k * r := Nat.mul_le_mul_right r hrk
        _ = r ^ (k + 1) := by rw [Nat.pow_succ]
        _ ≤ n := h
    have hq : r ^ k ≤ n / r := by
      rw [Nat.le_div_iff_mul_le (by omega)]; rw [← Nat.pow_succ]; exact h
    rw [toDigits_step r n hr hn, ih (n / r) hq]
    simp only [padDigits, List.append_assoc]
    have e1 : n / r / r ^ k = n / r ^ (k + 1) := by
      rw [Nat.div_div_eq_div_mul, Nat.pow_succ, Nat.mul_comm]
    have e2 : n / r % r ^ k = n % r ^ (k + 1) / r := by
      rw [Nat.pow_succ, Nat.mul_comm, Nat.mod_mul_right_div_self]
    have e3 : n % r = n % r ^ (k + 1) % r := by
      rw [Nat.pow_succ, Nat.mul_comm, Nat.mod_mul_right_mod]
    rw [e1, e2, ← e3]

/-- a number below `r^k` padded with zeros to width `k` -/
theorem padDigits_eq_replicate_append (r : Nat) (hr : 2 ≤ r) : ∀ (k m : Nat), m < r ^ k → 1 ≤ k →
    padDigits r k m = List.replicate (k - (toDigits r m).length) 0 ++ toDigits r m := by
  intro k
  induction k with
  | zero => intro m _ h; omega
  | succ k ih =>
    intro m hm _
    by_cases hlt : m < r
    · -- single digit: all higher digits are zero
      rw [toDigits_lt r m hlt]
      simp only [padDigits, List.length_singleton, Nat.add_sub_cancel]
      rw [Nat.div_eq_of_lt hlt, Nat.mod_eq_of_lt hlt]
      have hz : ∀ j, padDigits r j 0 = List.replicate j 0 := by
        intro j; induction j with
        | zero => rfl
        | succ j ihj => simp [padDigits, ihj, List.replicate_succ']
      rw [hz]
    · have hm' : r ≤ m := by omega
      have hk : 1 ≤ k := by
        rcases Nat.eq_zero_or_pos k with h0 | h0
        · subst h0; simp at hm; omega
        · exact h0
      have hq : m / r < r ^ k := by
        rw [Nat.div_lt_iff_lt_mul (by omega)]; rw [← Nat.pow_succ]; exact hm
      rw [toDigits_step r m hr hm']
      simp only [padDigits, List.length_append, List.length_singleton]
      rw [ih (m / r) hq hk, List.append_assoc]
      congr 2
      omega

end LexVerif.Spec
