import LexVerif.Proof.SepEnable3
/-!
# Proof.SepEnable4 — every separator at a position the flags enable (`DocEnabled`) ⟹ no digit iterator stops on a
separator (`NonStuck`), for all 15 `peek` variants
-/
set_option linter.unusedSimpArgs false
namespace LexVerif.Proof.Sep
open LexVerif LexVerif.Model LexVerif.Spec
open LexVerif.Props.C12

theorem sepFlags_none_of_noskip (c : Cfg) (k : Comp) (hks : k ≠ .special) (h : c.skip k = .noskip) :
    c.sepFlags k = SepFlags.none := by
  have hc := contig_of_noskip c k h
  cases k with
  | special => exact absurd rfl hks
  | integer =>
    simp only [Cfg.iterContiguous, Bool.not_eq_true', SepFlags.any, Bool.or_eq_false_iff] at hc
    generalize c.sepFlags .integer = x at *
    obtain ⟨i, l, t, cc⟩ := x; simp only at hc; obtain ⟨⟨⟨h1, h2⟩, h3⟩, h4⟩ := hc; subst h1 h2 h3 h4; rfl
  | fraction =>
    simp only [Cfg.iterContiguous, Bool.not_eq_true', SepFlags.any, Bool.or_eq_false_iff] at hc
    generalize c.sepFlags .fraction = x at *
    obtain ⟨i, l, t, cc⟩ := x; simp only at hc; obtain ⟨⟨⟨h1, h2⟩, h3⟩, h4⟩ := hc; subst h1 h2 h3 h4; rfl
  | exponent =>
    simp only [Cfg.iterContiguous, Bool.not_eq_true', SepFlags.any, Bool.or_eq_false_iff] at hc
    generalize c.sepFlags .exponent = x at *
    obtain ⟨i, l, t, cc⟩ := x; simp only at hc; obtain ⟨⟨⟨h1, h2⟩, h3⟩, h4⟩ := hc; subst h1 h2 h3 h4; rfl

/-- **the digit run of a component over its enabled part ends at the terminator** (start exactly at the part start,
digit count 0) -/
theorem partEnabled_end (c : Cfg) (k : Comp) (hks : k ≠ .special) (hd : c.debug = false) (hf : c.feats.format = true)
    (hreach : c.skip k ≠ .unreachable) (r : Nat) (hsepr : ∀ x, c.isSep x = true → charToDigit x r = none)
    (hsepd : ∀ x, c.isSep x = true → c.isDigit x = false) (s : List Nat) (a z : Nat)
    (hP : PartEnabled c k r s a z) (b e : Bytes) (ds : List Nat) (hbs : b.slc = s) (hba : b.index = a)
    (h0 : c.iterContiguous k = false → Bytes.iterCount c k b = 0) (hR : Run c k r b e ds) : e.index = z := by
  cases hk : c.skip k with
  | unreachable => exact absurd hk hreach
  | noskip =>
    -- no separator flag: the part contains no separator at all
    have hfl := sepFlags_none_of_noskip c k hks hk
    have hnosep : ∀ i, a ≤ i → i < z → ∀ x, s[i]? = some x → c.isSep x = false := by
      intro i h1 h2 x hx
      cases hs : c.isSep x with
      | false => rfl
      | true =>
        exfalso
        have hen := hP.enabled i h1 h2 x hx hs
        unfold DocEnabledAt at hen
        rw [hfl] at hen
        obtain ⟨e1, e2, e3, e4, _⟩ := hen
        cases hB : (prevcByte c s i).any c.isDigit <;> cases hA : (nextcByte c s i).any c.isDigit
        · exact e4 hB hA
        · have := e2 hB hA; simp [SepFlags.none] at this
        · have := e3 hB hA; simp [SepFlags.none] at this
        · have := e1 hB hA; simp [SepFlags.none] at this
    have hle := hR.le
    rw [hba] at hle
    -- the run cannot pass `z`, and cannot stop before it
    have hez : e.index ≤ z := by
      by_cases hq : e.index ≤ z
      · exact hq
      · exfalso
        have hzl : z < s.length := by have := hR.valid; rw [hbs] at this; omega
        have haz := hP.le.1
        have hmem : s[z] ∈ slice b.slc b.index e.index := by
          unfold slice
          apply List.mem_of_getElem? (i := z - a)
          rw [List.getElem?_take, if_pos (by omega), List.getElem?_drop, hbs, hba]
          have : a + (z - a) = z := by have := hP.le.1; omega
          rw [this]; exact List.getElem?_eq_getElem hzl
        have ht := hP.term _ (List.getElem?_eq_getElem hzl)
        rcases hR.bytes _ hmem with h | h
        · rw [ht.1] at h; cases h
        · rw [ht.2.1] at h; cases h
    by_cases hlt : e.index < z
    · exfalso
      have hin : e.index < s.length := by have := hP.le.2; omega
      have hx := List.getElem?_eq_getElem hin
      have hst := hR.stop _ (by rw [hbs]; exact hx)
      rcases hP.body e.index hle hlt _ hx with h | h
      · rw [hnosep e.index hle hlt _ hx] at h; cases h
      · rw [hst] at h; cases h.1
    · omega
  | pred p =>
    have hc := contig_of_pred c k p hk
    obtain ⟨hE, hsingle⟩ := partEnabled_run c k p hks hk r hsepd s a z hP
    have hrun := hR.run
    unfold parseDigits at hrun
    refine run_to_term c k p hk hd hc hf hks r hsepr s a z hP.le.2
      (fun i h1 h2 x hx => by
        rcases hP.body i h1 h2 x hx with h | h
        · exact Or.inl h
        · exact Or.inr h.1)
      (fun x hx => ⟨(hP.term x hx).1, (hP.term x hx).2.1⟩) hE hsingle _ b e ds hrun hbs (by omega)
      (by rw [hba]; exact hP.le.1) ?_ ?_
    · rw [hba, slice_self, h0 hc]; rfl
    · intro x _ _; left; exact hba

/-- `parse_digits` from the state a `peek` left behind (on a non-separator) is `parse_digits` from the state before -/
theorem parseDigitsLoop_after_peek (c : Cfg) (k : Comp) (r : Nat) (hk : c.skip k ≠ .unreachable) (b1 b0 : Bytes)
    (v : Option Nat) (hv : Bytes.Valid b1) (hp : peek c k b1 = .ok (v, b0))
    (hN : ∀ x, b0.slc[b0.index]? = some x → c.isSep x = false) (n : Nat) :
    parseDigitsLoop c k r (n + 1) b0 = parseDigitsLoop c k r (n + 1) b1 := by
  have hs := peek_spec c k b1 b0 v hv hp
  rw [parseDigitsLoop.eq_2, parseDigitsLoop.eq_2, hp, peek_at_nonsep c k b0 hk hN, ← hs.2.2.2.2.2.2]

/-- the integer run behind `is_consumed`'s `peek`: the `peek` lands on a non-separator and the run ends at the
terminator of the integer part -/
theorem int_after_peek (c : Cfg) (k : Comp) (hks : k ≠ .special) (hd : c.debug = false) (hf : c.feats.format = true)
    (hreach : ∀ k, c.skip k ≠ .unreachable) (r : Nat) (hsepr : ∀ x, c.isSep x = true → charToDigit x r = none)
    (hsepd : ∀ x, c.isSep x = true → c.isDigit x = false) (s : List Nat) (a z : Nat)
    (hP : PartEnabled c k r s a z) (b1 b0 : Bytes) (v : Option Nat) (hbs : b1.slc = s) (hba : b1.index = a)
    (h0 : c.iterContiguous k = false → Bytes.iterCount c k b1 = 0) (hp : peek c k b1 = .ok (v, b0)) :
    (∀ x, s[b0.index]? = some x → c.isSep x = false) ∧ ∀ e ds, Run c k r b0 e ds → e.index = z := by
  have hv1 : Bytes.Valid b1 := by unfold Bytes.Valid; rw [hbs, hba]; exact Nat.le_trans hP.le.1 hP.le.2
  obtain ⟨dd, ee, hrun, _⟩ := PNTotal.parseDigits_tot ⟨hd, hreach⟩ k r b1 hv1
  have hR1 := Run.of c k r hd hsepr b1 ee dd hv1 hrun
  have hend := partEnabled_end c k hks hd hf (hreach k) r hsepr hsepd s a z hP b1 ee dd hbs hba h0 hR1
  have hs := peek_spec c k b1 b0 v hv1 hp
  have hb0s : b0.slc = s := by rw [hs.1]; exact hbs
  have hN : ∀ x, s[b0.index]? = some x → c.isSep x = false := by
    intro x hx
    cases hcs : c.isSep x with
    | false => rfl
    | true =>
      exfalso
      -- the run from `b1` would stop right here, on a separator — but it ends at the terminator
      have hvx : v = some x := by rw [hs.2.2.2.2.2.2, hb0s]; exact hx
      unfold parseDigits at hrun
      rw [parseDigitsLoop.eq_2, hp, hvx] at hrun
      simp only [bind, Except.bind, hsepr x hcs, pure, Except.pure, Except.ok.injEq, Prod.mk.injEq] at hrun
      rw [← hrun.2] at hend
      rw [hend] at hx
      rw [(hP.term x hx).1] at hcs; cases hcs
  refine ⟨hN, ?_⟩
  intro e ds hR
  have heq := parseDigitsLoop_after_peek c k r (hreach k) b1 b0 v hv1 hp (by rw [hb0s]; exact hN) b1.slc.length
  have h2 := hR.run
  unfold parseDigits at h2 hrun
  rw [hs.1, heq, hrun] at h2
  simp only [Except.ok.injEq, Prod.mk.injEq] at h2
  rw [← h2.2]; exact hend

/-- length of the sign `parse_sign!` consumes (if it succeeds) -/
def signLen (l : List Nat) : Nat :=
  match l.head? with
  | some 43 => 1
  | some 45 => 1
  | _ => 0

/-- the exponent part behind the terminator `y` of the mantissa: if the byte at `y` is the exponent character, the
bytes behind it and the optional sign form an enabled exponent part -/
def ExpEnabled (c : Cfg) (o : POpts) (s : List Nat) (y : Nat) : Prop :=
  ∀ x, s[y]? = some x → matchesExp c o x = true →
    ∃ zE, PartEnabled c .exponent c.exponentRadix s (y + 1 + signLen (s.drop (y + 1))) zE

/-- **every separator of `s` is at a position the flags enable**: the integer part (behind the optional sign), the
fraction part (behind the decimal point that terminates the integer part) and the exponent part (behind the exponent
character and its optional sign) each satisfy the documented position rules of their component -/
def DocEnabled (c : Cfg) (o : POpts) (s : List Nat) : Prop :=
  ∃ zI, PartEnabled c .integer c.mantissaRadix s (signLen s) zI ∧
    (s[zI]? = some o.dp → ∃ zF, PartEnabled c .fraction c.mantissaRadix s (zI + 1) zF ∧ ExpEnabled c o s zF) ∧
    (s[zI]? ≠ some o.dp → ExpEnabled c o s zI)

/-- `parse_sign!` consumes exactly `signLen` bytes when it succeeds -/
theorem parseSign_signLen (c : Cfg) (hd : c.debug = false) (np rq : Bool) (ip ms : String) (b b1 : Bytes) (neg : Bool)
    (h : parseSign c np rq ip ms b = .ok (neg, b1)) :
    b1 = { b with index := b.index + signLen (b.slc.drop b.index) } := by
  unfold parseSign at h
  simp only [step_release c hd, bind, Except.bind, pure, Except.pure, Bytes.first] at h
  have hh : (b.slc.drop b.index).head? = b.slc[b.index]? := by simp [List.head?_drop]
  unfold signLen
  rw [hh]
  split at h
  · next heq =>
    split at h
    · simp only [Except.ok.injEq, Prod.mk.injEq] at h; rw [← h.2, heq]; rfl
    · cases h
  · next heq =>
    simp only [Except.ok.injEq, Prod.mk.injEq] at h; rw [← h.2, heq]; rfl
  · next h43 h45 =>
    split at h
    · cases h
    · simp only [Except.ok.injEq, Prod.mk.injEq] at h
      rw [← h.2]
      cases hv : b.slc[b.index]? with
      | none => simp
      | some x =>
        have h1 : x ≠ 43 := by intro e; subst e; exact h43 hv
        have h2 : x ≠ 45 := by intro e; subst e; exact h45 hv
        split
        · next he => simp only [Option.some.injEq] at he; exact absurd he h1
        · next he => simp only [Option.some.injEq] at he; exact absurd he h2
        · simp

/-- **`DocEnabled` ⟹ `NonStuck`** -/
theorem nonStuck_of_docEnabled (c : Cfg) (o : POpts) (hG : GenStrip c o) (s : List Nat) (hD : DocEnabled c o s) :
    NonStuck c o s := by
  obtain ⟨zI, hPI, hdpE, hnodpE⟩ := hD
  intro neg b1 v b0 hps hp
  unfold parseMantissaSign at hps
  have hb1 := parseSign_signLen c hG.rel.debug _ _ _ _ _ _ _ hps
  simp only [new_slc, new_index, List.drop_zero, Nat.zero_add] at hb1
  have hb1s : b1.slc = s := by rw [hb1]
  have hb1i : b1.index = signLen s := by rw [hb1]
  have hcnt1 : b1.ic = 0 ∧ b1.fc = 0 ∧ b1.ec = 0 := by rw [hb1]; exact ⟨rfl, rfl, rfl⟩
  obtain ⟨hN0, hIend⟩ := int_after_peek c .integer (by decide) hG.rel.debug hG.format hG.rel.reach _ hG.sepDigM
    hG.sepNotDigit s _ zI hPI b1 b0 v hb1s hb1i (by intro hc; simp [Bytes.iterCount, hc, hcnt1.1]) hp
  have hv1 : Bytes.Valid b1 := by
    unfold Bytes.Valid; rw [hb1s, hb1i]; exact Nat.le_trans hPI.le.1 hPI.le.2
  have hsp := peek_spec c .integer b1 b0 v hv1 hp
  have hb0s : b0.slc = s := by rw [hsp.1]; exact hb1s
  -- the exponent part
  have hexpN : ∀ (f : Bytes) (y : Nat), f.slc = s → f.index = y → f.ec = 0 → ExpEnabled c o s y → ExpNormal c o s f := by
    intro f y hfs hfi hfe hE hfx r hr e ds hR x hx
    rw [firstIs_exp, hfs, hfi] at hfx
    cases hz : s[y]? with
    | none => rw [hz] at hfx; cases hfx
    | some w =>
      rw [hz] at hfx
      obtain ⟨zE, hPE⟩ := hE w hz hfx
      unfold parseExponentSign at hr
      have hr2 := parseSign_signLen c hG.rel.debug _ _ _ _ _ _ _ hr
      simp only [hfs, hfi] at hr2
      have hend := partEnabled_end c .exponent (by decide) hG.rel.debug hG.format (hG.rel.reach _) _ hG.sepDigE
        hG.sepNotDigit s _ zE hPE r.2 e ds (by rw [hr2]) (by rw [hr2])
        (by intro hc; rw [hr2]; simp [Bytes.iterCount, hc, hfe]) hR
      rw [hend] at hx
      exact (hPE.term x hx).1
  refine ⟨hN0, ?_⟩
  intro eI dsI hRI
  have heIi := hIend eI dsI hRI
  have heI : eI.slc = s := by rw [hRI.slc]; exact hb0s
  have heIc : eI.fc = 0 ∧ eI.ec = 0 := by
    rw [hRI.eq]
    simp [advS, hsp.2.2.1, hsp.2.2.2.1, hcnt1.2.1, hcnt1.2.2]
  refine ⟨?_, ?_, ?_⟩
  · intro x hx; rw [heIi] at hx; exact (hPI.term x hx).1
  · intro hdp eF dsF hRF
    rw [heIi] at hdp
    obtain ⟨zF, hPF, hEF⟩ := hdpE hdp
    have hendF := partEnabled_end c .fraction (by decide) hG.rel.debug hG.format (hG.rel.reach _) _ hG.sepDigM
      hG.sepNotDigit s _ zF hPF { eI with index := eI.index + 1 } eF dsF heI (by simp only; rw [heIi])
      (by intro hc; simp [Bytes.iterCount, hc, heIc.1]) hRF
    have heF : eF.slc = s := by rw [hRF.slc]; exact heI
    have heFc : eF.ec = 0 := by rw [hRF.eq]; simp [advS, heIc.2]
    refine ⟨?_, hexpN eF zF heF hendF heFc hEF⟩
    intro x hx; rw [hendF] at hx; exact (hPF.term x hx).1
  · intro hnodp
    rw [heIi] at hnodp
    exact hexpN eI zI heI heIi heIc.2 (hnodpE hnodp)

/-! ### executable form of `PartEnabled` (for concrete inputs) -/

instance (fl : SepFlags) (a b d : Bool) : Decidable (FlagsEnable fl a b d) := by
  unfold FlagsEnable; infer_instance

instance (c : Cfg) (fl : SepFlags) (s : List Nat) (i : Nat) : Decidable (DocEnabledAt c fl s i) := by
  unfold DocEnabledAt; infer_instance

def partEnabledB (c : Cfg) (k : Comp) (r : Nat) (s : List Nat) (a z : Nat) : Bool :=
  decide (a ≤ z) && decide (z ≤ s.length) &&
  ((List.range (z - a)).all fun t =>
    match s[a + t]? with
    | some x =>
      (c.isSep x || ((charToDigit x r).isSome && c.isDigit x)) &&
        (!c.isSep x || decide (DocEnabledAt c (c.sepFlags k) s (a + t)))
    | none => false) &&
  (match s[z]? with
   | some x => !c.isSep x && (charToDigit x r).isNone && !c.isDigit x
   | none => true) &&
  (match getPrev s a with
   | some x => !c.isDigit x && !c.isSep x
   | none => true)

theorem partEnabled_of_B (c : Cfg) (k : Comp) (r : Nat) (s : List Nat) (a z : Nat)
    (h : partEnabledB c k r s a z = true) : PartEnabled c k r s a z := by
  unfold partEnabledB at h
  simp only [Bool.and_eq_true, decide_eq_true_eq] at h
  obtain ⟨⟨⟨⟨h1, h2⟩, h3⟩, h4⟩, h5⟩ := h
  have hbody : ∀ i, a ≤ i → i < z → ∀ x, s[i]? = some x →
      (c.isSep x = true ∨ ((charToDigit x r).isSome = true ∧ c.isDigit x = true)) ∧
      (c.isSep x = true → DocEnabledAt c (c.sepFlags k) s i) := by
    intro i hai hiz x hx
    have := List.all_eq_true.mp h3 (i - a) (List.mem_range.mpr (by omega))
    have e : a + (i - a) = i := by omega
    rw [e, hx] at this
    simp only [Bool.and_eq_true, Bool.or_eq_true, Bool.not_eq_true', decide_eq_true_eq] at this
    refine ⟨this.1, ?_⟩
    intro hs
    rcases this.2 with h | h
    · rw [hs] at h; cases h
    · exact h
  refine ⟨⟨h1, h2⟩, fun i hai hiz x hx => (hbody i hai hiz x hx).1, ?_, ?_,
    fun i hai hiz x hx hs => (hbody i hai hiz x hx).2 hs⟩
  · intro x hx
    rw [hx] at h4
    simp only [Bool.and_eq_true, Bool.not_eq_true', Option.isNone_iff_eq_none] at h4
    exact ⟨h4.1.1, h4.1.2, h4.2⟩
  · intro x hx
    rw [hx] at h5
    simp only [Bool.and_eq_true, Bool.not_eq_true'] at h5
    exact h5

end LexVerif.Proof.Sep
