import LexVerif.Proof.SepEnable3
/-!
# Proof.SepEnable4 — every separator at a position the flags enable (`DocEnabled`) ⟹ no digit iterator stops on a
separator (`NonStuck`), for all 15 `peek` variants
-/
set_option linter.unusedSimpArgs false
namespace LexVerif.Proof.Sep
open LexVerif LexVerif.Model LexVerif.Spec
open LexVerif.Props.C12

theorem sepFlags_none_of_noskip (c : Cfg) (k : Comp) (hks : k ≠ .special) (h : c.skip k = .noskip) :
    c.sepFlags k = SepFlags.none := by
  have hc := contig_of_noskip c k h
  cases k with
  | special => exact absurd rfl hks
  | integer =>
    simp only [Cfg.iterContiguous, Bool.not_eq_true', SepFlags.any, Bool.or_eq_false_iff] at hc
    generalize c.sepFlags .integer = x at *
    obtain ⟨i, l, t, cc⟩ := x; simp only at hc; obtain ⟨⟨⟨h1, h2⟩, h3⟩, h4⟩ := hc; subst h1 h2 h3 h4; rfl
  | fraction =>
    simp only [Cfg.iterContiguous, Bool.not_eq_true', SepFlags.any, Bool.or_eq_false_iff] at hc
    generalize c.sepFlags .fraction = x at *
    obtain ⟨i, l, t, cc⟩ := x; simp only at hc; obtain ⟨⟨⟨h1, h2⟩, h3⟩, h4⟩ := hc; subst h1 h2 h3 h4; rfl
  | exponent =>
    simp only [Cfg.iterContiguous, Bool.not_eq_true', SepFlags.any, Bool.or_eq_false_iff] at hc
    generalize c.sepFlags .exponent = x at *
    obtain ⟨i, l, t, cc⟩ := x; simp only at hc; obtain ⟨⟨⟨h1, h2⟩, h3⟩, h4⟩ := hc; subst h1 h2 h3 h4; rfl

/-- **the digit run of a component over its enabled part ends at the terminator** (start exactly at the part start,
digit count 0) -/
theorem partEnabled_end (c : Cfg) (k : Comp) (hks : k ≠ .special) (hd : c.debug = false) (hf : c.feats.format = true)
    (hreach : c.skip k ≠ .unreachable) (r : Nat) (hsepr : ∀ x, c.isSep x = true → charToDigit x r = none)
    (hsepd : ∀ x, c.isSep x = true → c.isDigit x = false) (s : List Nat) (a z : Nat)
    (hP : PartEnabled c k r s a z) (b e : Bytes) (ds : List Nat) (hbs : b.slc = s) (hba : b.index = a)
    (h0 : c.iterContiguous k = false → Bytes.iterCount c k b = 0) (hR : Run c k r b e ds) : e.index = z := by
  cases hk : c.skip k with
  | unreachable => exact absurd hk hreach
  | noskip =>
    -- no separator flag: the part contains no separator at all
    have hfl := sepFlags_none_of_noskip c k hks hk
    have hnosep : ∀ i, a ≤ i → i < z → ∀ x, s[i]? = some x → c.isSep x = false := by
      intro i h1 h2 x hx
      cases hs : c.isSep x with
      | false => rfl
      | true =>
        exfalso
        have hen := hP.enabled i h1 h2 x hx hs
        unfold DocEnabledAt at hen
        rw [hfl] at hen
        obtain ⟨e1, e2, e3, e4, _⟩ := hen
        cases hB : (prevcByte c s i).any c.isDigit <;> cases hA : (nextcByte c s i).any c.isDigit
        · exact e4 hB hA
        · have := e2 hB hA; simp [SepFlags.none] at this
        · have := e3 hB hA; simp [SepFlags.none] at this
        · have := e1 hB hA; simp [SepFlags.none] at this
    have hle := hR.le
    rw [hba] at hle
    -- the run cannot pass `z`, and cannot stop before it
    have hez : e.index ≤ z := by
      by_cases hq : e.index ≤ z
      · exact hq
      · exfalso
        have hzl : z < s.length := by have := hR.valid; rw [hbs] at this; omega
        have haz := hP.le.1
        have hmem : s[z] ∈ slice b.slc b.index e.index := by
          unfold slice
          apply List.mem_of_getElem? (i := z - a)
          rw [List.getElem?_take, if_pos (by omega), List.getElem?_drop, hbs, hba]
          have : a + (z - a) = z := by have := hP.le.1; omega
          rw [this]; exact List.getElem?_eq_getElem hzl
        have ht := hP.term _ (List.getElem?_eq_getElem hzl)
        rcases hR.bytes _ hmem with h | h
        · rw [ht.1] at h; cases h
        · rw [ht.2.1] at h; cases h
    by_cases hlt : e.index < z
    · exfalso
      have hin : e.index < s.length := by have := hP.le.2; omega
      have hx := List.getElem?_eq_getElem hin
      have hst := hR.stop _ (by rw [hbs]; exact hx)
      rcases hP.body e.index hle hlt _ hx with h | h
      · rw [hnosep e.index hle hlt _ hx] at h; cases h
      · rw [hst] at h; cases h.1
    · omega
  | pred p =>
    have hc := contig_of_pred c k p hk
    obtain ⟨hE, hsingle⟩ := partEnabled_run c k p hks hk r hsepd s a z hP
    have hrun := hR.run
    unfold parseDigits at hrun
    refine run_to_term c k p hk hd hc hf hks r hsepr s a z hP.le.2
      (fun i h1 h2 x hx => by
        rcases hP.body i h1 h2 x hx with h | h
        · exact Or.inl h
        · exact Or.inr h.1)
      (fun x hx => ⟨(hP.term x hx).1, (hP.term x hx).2.1⟩) hE hsingle _ b e ds hrun hbs (by omega)
      (by rw [hba]; exact hP.le.1) ?_ ?_
    · rw [hba, slice_self, h0 hc]; rfl
    · intro x _ _; left; exact hba

end LexVerif.Proof.Sep
