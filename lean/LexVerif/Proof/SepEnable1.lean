import LexVerif.Proof.SepGen10
/-!
# Proof.SepEnable1 — a separator run at a position the flags enable (docs/DigitSeparators.md) is skipped: the predicate
of the component holds there. Pure case analysis over the 15 `peek` variants.

Position kinds of a maximal run of separators inside the digits of a component: a digit of the component before it
(`dB`) and a digit after it (`dA`) — internal; only after — leading; only before — trailing. Run length 1 (`single`)
unless the consecutive flag is set.
-/
set_option linter.unusedSimpArgs false
namespace LexVerif.Proof.Sep
open LexVerif LexVerif.Model LexVerif.Spec
open LexVerif.Props.C12

/-- `o` is a digit byte (and no separator) -/
def IsD (c : Cfg) (o : Option Nat) : Prop := ∃ y, o = some y ∧ c.isDigit y = true ∧ c.isSep y = false
/-- `o` is nothing, or a byte that is neither digit nor separator -/
def IsO (c : Cfg) (o : Option Nat) : Prop := o = none ∨ ∃ y, o = some y ∧ c.isDigit y = false ∧ c.isSep y = false
/-- `o` is a separator (and no digit) -/
def IsS (c : Cfg) (o : Option Nat) : Prop := ∃ y, o = some y ∧ c.isDigit y = false ∧ c.isSep y = true

/-- what the predicates can ask about a neighbour that is a digit (`d = true`) or nothing / another byte (`d = false`) -/
structure OptFacts (c : Cfg) (o : Option Nat) (d : Bool) : Prop where
  anyDigit : o.any c.isDigit = d
  anySep : o.any c.isSep = false
  allOther : o.all (fun x => !c.isDigit x && !c.isSep x) = !d
  allNoSep : o.all (fun x => !c.isSep x) = true
  allNoDigit : o.all (fun x => !c.isDigit x) = !d
  allDigit : d = true → o.all c.isDigit = true

theorem optFacts_D (c : Cfg) (o : Option Nat) (h : IsD c o) : OptFacts c o true := by
  obtain ⟨y, rfl, h1, h2⟩ := h
  constructor <;> simp [h1, h2]

theorem optFacts_O (c : Cfg) (o : Option Nat) (h : IsO c o) : OptFacts c o false := by
  rcases h with rfl | ⟨y, rfl, h1, h2⟩
  · constructor <;> simp
  · constructor <;> simp [h1, h2]

/-- the same for a neighbour that is a separator -/
structure SepFacts (c : Cfg) (o : Option Nat) : Prop where
  anyDigit : o.any c.isDigit = false
  anySep : o.any c.isSep = true
  allOther : o.all (fun x => !c.isDigit x && !c.isSep x) = false
  allNoSep : o.all (fun x => !c.isSep x) = false

theorem sepFacts_S (c : Cfg) (o : Option Nat) (h : IsS c o) : SepFacts c o := by
  obtain ⟨y, rfl, h1, h2⟩ := h
  constructor <;> simp [h1, h2]

/-- the flags enable a run of this kind (`dB`/`dA`: digit before / after) and length (`single`) -/
def FlagsEnable (fl : SepFlags) (dB dA single : Bool) : Prop :=
  (dB = true → dA = true → fl.i = true) ∧ (dB = false → dA = true → fl.l = true) ∧
  (dB = true → dA = false → fl.t = true) ∧ (dB = false → dA = false → False) ∧ (single = false → fl.c = true)

/-- **an enabled run is skipped**: at the first separator of a maximal run whose kind and length the flags enable, the
predicate of the component holds (`first` = no digit of the component seen yet = no digit before the run) -/
theorem enabled_holds (c : Cfg) (fl : SepFlags) (p : Pred) (hp : fl.skip = .pred p) (n : Nbr) (dB dA single : Bool)
    (hen : FlagsEnable fl dB dA single) (hprev : OptFacts c n.prev dB) (hprevc : n.prevc = n.prev)
    (hnextc : OptFacts c n.nextc dA)
    (hnext : if single = true then n.next = n.nextc else SepFacts c n.next) :
    p.holds c n (!dB) = true := by
  obtain ⟨fi, fl', ft, fc⟩ := fl
  obtain ⟨p1, x1, pc1, xc1⟩ := n
  obtain ⟨e1, e2, e3, e4, e5⟩ := hen
  simp only at hprev hprevc hnextc hnext e1 e2 e3 e5
  subst hprevc
  obtain ⟨a1, a2, a3, a4, a5, a6⟩ := hprev
  obtain ⟨b1, b2, b3, b4, b5, b6⟩ := hnextc
  cases single
  · -- a run of several separators: the consecutive flag is set
    simp only [Bool.false_eq_true, if_false] at hnext
    obtain ⟨s1, s2, s3, s4⟩ := hnext
    have hc : fc = true := e5 rfl
    subst hc
    cases dB <;> cases dA <;> cases fi <;> cases fl' <;> cases ft <;>
      simp only [SepFlags.skip, Skip.pred.injEq, reduceCtorEq] at hp <;>
      first
        | (exfalso; exact e4 rfl rfl)
        | (simp at e1; done) | (simp at e2; done) | (simp at e3; done)
        | (subst hp; simp_all [Pred.holds])
  · simp only [if_true] at hnext
    subst hnext
    cases dB <;> cases dA <;> cases fi <;> cases fl' <;> cases ft <;> cases fc <;>
      simp only [SepFlags.skip, Skip.pred.injEq, reduceCtorEq] at hp <;>
      first
        | (exfalso; exact e4 rfl rfl)
        | (simp at e1; done) | (simp at e2; done) | (simp at e3; done)
        | (subst hp; simp_all [Pred.holds])

end LexVerif.Proof.Sep
