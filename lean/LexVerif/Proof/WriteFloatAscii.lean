import LexVerif.Model.WriteFloat
import LexVerif.Proof.Numeral
/-!
# Proof.WriteFloatAscii — every byte of the decimal float formatting model is 7-bit ASCII (helpers for C17)
-/
namespace LexVerif.Proof.WriteFloatAscii
open LexVerif.Spec LexVerif.Model LexVerif.Model.WriteFloat

/-- all bytes are 7-bit ASCII -/
def Asc (l : List Nat) : Prop := ∀ b ∈ l, b < 128
/-- all digit values are below `r` -/
def Digs (r : Nat) (l : List Nat) : Prop := ∀ d ∈ l, d < r

theorem asc_nil : Asc [] := by intro b hb; cases hb
theorem asc_append {a b : List Nat} (ha : Asc a) (hb : Asc b) : Asc (a ++ b) := by
  intro x hx; rcases List.mem_append.mp hx with h | h
  · exact ha x h
  · exact hb x h
theorem asc_cons {x : Nat} {l : List Nat} (hx : x < 128) (hl : Asc l) : Asc (x :: l) := by
  intro y hy; rcases List.mem_cons.mp hy with h | h
  · subst h; exact hx
  · exact hl y h
theorem asc_zeros (n : Nat) : Asc (zeros n) := by
  intro b hb; unfold zeros at hb; rw [List.mem_replicate] at hb; omega
theorem asc_of_append_left {a b : List Nat} (h : Asc (a ++ b)) : Asc a :=
  fun x hx => h x (List.mem_append_left _ hx)
theorem asc_of_append_right {a b : List Nat} (h : Asc (a ++ b)) : Asc b :=
  fun x hx => h x (List.mem_append_right _ hx)

theorem digitChar_lt (d : Nat) (h : d < 36) : digitChar d < 128 := by
  unfold digitChar; split <;> omega

theorem asc_chars {ds : List Nat} (h : Digs 36 ds) : Asc (chars ds) := by
  intro b hb; unfold chars at hb
  obtain ⟨d, hd, rfl⟩ := List.mem_map.mp hb
  exact digitChar_lt d (h d hd)

theorem digs_mono {r s : Nat} {l : List Nat} (hrs : r ≤ s) (h : Digs r l) : Digs s l :=
  fun d hd => Nat.lt_of_lt_of_le (h d hd) hrs
theorem digs_take {r : Nat} {l : List Nat} (n : Nat) (h : Digs r l) : Digs r (l.take n) :=
  fun d hd => h d (List.mem_of_mem_take hd)
theorem digs_drop {r : Nat} {l : List Nat} (n : Nat) (h : Digs r l) : Digs r (l.drop n) :=
  fun d hd => h d (List.mem_of_mem_drop hd)
theorem digs_tail {r : Nat} {l : List Nat} (h : Digs r l) : Digs r l.tail :=
  fun d hd => h d (List.mem_of_mem_tail hd)
theorem digs_reverse {r : Nat} {l : List Nat} (h : Digs r l) : Digs r l.reverse :=
  fun d hd => h d (List.mem_reverse.mp hd)

theorem asc_numeral (r n : Nat) (hr : 2 ≤ r) (hr36 : r ≤ 36) : Asc (numeral r n) := by
  unfold numeral
  exact asc_chars (digs_mono hr36 (LexVerif.Spec.toDigits_digit_lt r n hr))

/-! ## rounding keeps digits digits -/

theorem roundUp_go_digs (r : Nat) (hr : 2 ≤ r) : ∀ l : List Nat, Digs r l → Digs r (roundUp.go r l).1
  | [], _ => by
    intro d hd; simp [roundUp.go] at hd; omega
  | d :: rest, h => by
    unfold roundUp.go
    split
    · intro x hx
      rcases List.mem_cons.mp hx with hx | hx
      · subst hx; assumption
      · exact h x (List.mem_cons_of_mem _ hx)
    · exact roundUp_go_digs r hr rest (fun x hx => h x (List.mem_cons_of_mem _ hx))

theorem roundUp_digs (r : Nat) (hr : 2 ≤ r) (ds : List Nat) (h : Digs r ds) : Digs r (roundUp r ds).1 := by
  unfold roundUp
  exact digs_reverse (roundUp_go_digs r hr ds.reverse (digs_reverse h))

theorem truncateAndRound_digs (ds : List Nat) (o : WOpts) (h : Digs 10 ds) : Digs 10 (truncateAndRound ds o).1 := by
  unfold truncateAndRound
  split
  · exact h
  · split
    · exact h
    · split
      · exact digs_take _ h
      · simp only
        split
        · exact digs_take _ h
        · split
          · exact roundUp_digs 10 (by omega) _ (digs_take _ h)
          · split
            · exact roundUp_digs 10 (by omega) _ (digs_take _ h)
            · exact digs_take _ h


theorem trimSci_digs (o : WOpts) (ds : List Nat) (h : Digs 10 ds) : Digs 10 (trimSci o ds) := by
  unfold trimSci; split
  · exact digs_take _ h
  · exact h
theorem trimPos_digs (o : WOpts) (l : Nat) (ds : List Nat) (h : Digs 10 ds) : Digs 10 (trimPos o l ds) := by
  unfold trimPos; split
  · exact digs_take _ h
  · exact h
theorem roundSci_digs (ds : List Nat) (o : WOpts) (h : Digs 10 ds) : Digs 10 (roundSci ds o).1 :=
  trimSci_digs o _ (truncateAndRound_digs ds o h)
theorem roundPos_digs (ds : List Nat) (e : Int) (o : WOpts) (h : Digs 10 ds) : Digs 10 (roundPos ds e o).1 :=
  trimPos_digs o _ _ (truncateAndRound_digs ds o h)

/-! ## the list-level layout functions -/

@[simp] theorem asc_append_iff (a b : List Nat) : Asc (a ++ b) ↔ Asc a ∧ Asc b :=
  ⟨fun h => ⟨asc_of_append_left h, asc_of_append_right h⟩, fun h => asc_append h.1 h.2⟩
@[simp] theorem asc_cons_iff (x : Nat) (l : List Nat) : Asc (x :: l) ↔ x < 128 ∧ Asc l :=
  ⟨fun h => ⟨h x (List.mem_cons_self ..), fun y hy => h y (List.mem_cons_of_mem _ hy)⟩, fun h => asc_cons h.1 h.2⟩
@[simp] theorem asc_nil_iff : Asc [] ↔ True := ⟨fun _ => trivial, fun _ => asc_nil⟩
@[simp] theorem asc_zeros_iff (n : Nat) : Asc (zeros n) ↔ True := ⟨fun _ => trivial, fun _ => asc_zeros n⟩

theorem asc_chars10 {ds : List Nat} (h : Digs 10 ds) : Asc (chars ds) := asc_chars (digs_mono (by omega) h)

theorem digitChar_headD_lt (ds : List Nat) (h : Digs 10 ds) : digitChar (ds.headD 0) < 128 := by
  cases ds with
  | nil => simp [digitChar]
  | cons d t => exact digitChar_lt d (by have := h d (List.mem_cons_self ..); omega)

theorem asc_writeExponent (fmt : Format) (feats : Features) (e : Int) (c r : Nat) (hc : c < 128)
    (hr : 2 ≤ r) (hr36 : r ≤ 36) : Asc (writeExponent fmt feats e c r) := by
  unfold writeExponent
  simp only [asc_append_iff, asc_cons_iff, asc_nil_iff, and_true]
  refine ⟨⟨hc, ?_⟩, asc_numeral r _ hr hr36⟩
  split
  · simp
  · split <;> simp

theorem asc_writeScientific (fmt : Format) (feats : Features) (ds : List Nat) (e : Int) (o : WOpts) (r : Nat)
    (hd : Digs 10 ds) (hexp : o.exp < 128) (hdp : o.dp < 128) (hr : 2 ≤ r) (hr36 : r ≤ 36) :
    Asc (writeScientific fmt feats ds e o r) := by
  unfold writeScientific
  have htr := roundSci_digs ds o hd
  generalize roundSci ds o = tr at htr
  obtain ⟨ds', c⟩ := tr
  simp only at htr ⊢
  have h0 : digitChar (ds'.head?.getD 0) < 128 := by simpa using digitChar_headD_lt ds' htr
  have ht := asc_chars10 (digs_tail htr)
  simp only [asc_append_iff]
  refine ⟨?_, asc_writeExponent fmt feats _ _ r hexp hr hr36⟩
  split
  · simp [h0]
  · split
    · simp [h0, hdp, ht]
    · split
      · simp [h0, hdp]
      · simp [h0, hdp, ht]

theorem asc_writeNegative (ds : List Nat) (e : Int) (o : WOpts) (hd : Digs 10 ds) (hdp : o.dp < 128) :
    Asc (writeNegative ds e o) := by
  unfold writeNegative
  have htr := truncateAndRound_digs ds o hd
  generalize truncateAndRound ds o = tr at htr
  obtain ⟨ds', c⟩ := tr
  simp only at htr ⊢
  have hc := asc_chars10 htr
  repeat' split
  all_goals simp [hdp, hc]

theorem asc_writePositive (ds : List Nat) (e : Int) (o : WOpts) (hd : Digs 10 ds) (hdp : o.dp < 128) :
    Asc (writePositive ds e o) := by
  unfold writePositive
  have htr := roundPos_digs ds e o hd
  generalize roundPos ds e o = tr at htr
  obtain ⟨ds', c⟩ := tr
  simp only at htr ⊢
  have hc := asc_chars10 htr
  have h1 := fun n => asc_chars10 (digs_take n htr)
  have h2 := fun n => asc_chars10 (digs_drop n htr)
  repeat' split
  all_goals simp [hc, hdp, h1, h2]

/-- valid options have ASCII punctuation -/
theorem isValidAscii_lt (c : Nat) (h : FormatError.isValidAscii c = true) : c < 128 := by
  unfold FormatError.isValidAscii at h
  simp only [Bool.or_eq_true, Bool.and_eq_true, decide_eq_true_eq] at h
  omega

theorem isValidLetter_lt (c : Nat) (h : isValidLetter c = true) : c < 128 := by
  unfold isValidLetter at h
  simp only [Bool.or_eq_true, Bool.and_eq_true, decide_eq_true_eq] at h
  omega

theorem specialError_asc (s : Option (List Nat)) (a b : Nat) (i t : String) (h : specialError s a b i t = none) :
    ∀ l, s = some l → Asc l := by
  intro l hl
  subst hl
  unfold specialError at h
  simp only at h
  split at h
  · cases h
  · split at h
    · cases h
    · rename_i hall
      intro x hx
      have : l.all isValidLetter = true := by
        cases hq : l.all isValidLetter with
        | true => rfl
        | false => simp [hq] at hall
      exact isValidLetter_lt x (List.all_eq_true.mp this x hx)

structure ValidOpts (o : WOpts) : Prop where
  exp : o.exp < 128
  dp : o.dp < 128
  nan : ∀ l, o.nan = some l → Asc l
  inf : ∀ l, o.inf = some l → Asc l

theorem validOpts_of_build (o : WOpts) (h : wOptsError o = none) : ValidOpts o := by
  unfold wOptsError at h
  cases hn : specialError o.nan 78 110 "InvalidNanString" "NanStringTooLong" with
  | some e => simp [hn] at h
  | none =>
    cases hi : specialError o.inf 73 105 "InvalidInfString" "InfStringTooLong" with
    | some e => simp [hn, hi] at h
    | none =>
      simp only [hn, hi] at h
      have he : FormatError.isValidAscii o.exp = true := by
        cases hq : FormatError.isValidAscii o.exp with
        | true => rfl
        | false =>
          exfalso; revert h; simp only [hq]
          repeat' split
          all_goals simp_all
      have hd : FormatError.isValidAscii o.dp = true := by
        cases hq : FormatError.isValidAscii o.dp with
        | true => rfl
        | false =>
          exfalso; revert h; simp only [hq]
          repeat' split
          all_goals simp_all
      exact ⟨isValidAscii_lt _ he, isValidAscii_lt _ hd, specialError_asc _ _ _ _ _ hn, specialError_asc _ _ _ _ _ hi⟩

end LexVerif.Proof.WriteFloatAscii
