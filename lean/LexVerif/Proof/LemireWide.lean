import LexVerif.Proof.LemireError
/-!
# Proof.LemireWide — estimates of a truncated mantissa

`lemire` hands the slow path an estimate computed from the first 19 digits `w`; the value `V` of all the digits lies in
`[w, w + 1)·10^q`. `EstW … c` is `EstOK` with the slack `4` replaced by `c`; an estimate of `w·10^q` is a `40`-estimate of
every such `V` when `w ≥ 2^59` (`estW_widen`), and a `c`-estimate with `2c ≤ 2^(64−p)` still rounds down to a pattern `b`
with `b ≤ roundNE V ≤ b + 1` (`bracket_of_estW`; the proofs of `Proof.LemireFallback` with `c` for `4`).
-/
namespace LexVerif.Proof.Lemire
open LexVerif.Spec LexVerif.Model LexVerif.Model.Lemire LexVerif.Model.Bellerophon
open LexVerif.Proof.RoundNE LexVerif.Proof.ExtRound LexVerif.Proof.BinaryCorrect

/-- `EstOK` with slack `c`: `mant·2^K ≤ (num/den)·2^L·2^S < (mant + c)·2^K` -/
def EstW (F : FTy) (p : Nat) (fp : ExtendedFloat80) (c : Nat) (num den : Nat) : Prop :=
  2 ^ 63 ≤ fp.mant ∧ fp.mant < 2 ^ 64 ∧ -(4096 : Int) ≤ fp.exp - invalidFp ∧ fp.exp - invalidFp ≤ 4096 ∧
  fp.mant * 2 ^ ((fp.exp - invalidFp) + 64 - p - 1).toNat * den ≤
    num * 2 ^ L F.fmt * 2 ^ shiftOf p (fp.exp - invalidFp) ∧
  num * 2 ^ L F.fmt * 2 ^ shiftOf p (fp.exp - invalidFp) <
    (fp.mant + c) * 2 ^ ((fp.exp - invalidFp) + 64 - p - 1).toNat * den

theorem estW_of_estOK {F p fp num den} (h : EstOK F p fp num den) : EstW F p fp 4 num den := h

/-- **widening**: an estimate of `wn/wd` is a `40`-estimate of every `vn/vd ∈ [wn/wd, (wn/wd)·(w+1)/w)` when
`mant + 4 ≤ 36·w` (e.g. `w ≥ 2^59`) -/
theorem estW_widen {F : FTy} {p : Nat} {fp : ExtendedFloat80} (wn wd vn vd w : Nat) (h : EstOK F p fp wn wd)
    (hw : fp.mant + 4 ≤ 36 * w) (hw0 : 0 < w) (hwd : 0 < wd) (hlo : wn * vd ≤ vn * wd)
    (hhi : vn * wd * w < wn * vd * (w + 1)) : EstW F p fp 40 vn vd := by
  obtain ⟨h1, h2, h3, h4, h5, h6⟩ := h
  refine ⟨h1, h2, h3, h4, ?_, ?_⟩
  all_goals
    rw [Nat.mul_assoc wn] at h5 h6
    rw [Nat.mul_assoc vn]
    generalize 2 ^ ((fp.exp - invalidFp) + 64 - p - 1).toNat = KK at *
    have hLSpos : 0 < 2 ^ L F.fmt * 2 ^ shiftOf p (fp.exp - invalidFp) :=
      Nat.mul_pos (Nat.two_pow_pos _) (Nat.two_pow_pos _)
    generalize 2 ^ L F.fmt * 2 ^ shiftOf p (fp.exp - invalidFp) = LS at *
  · apply Nat.le_of_mul_le_mul_right _ hwd
    calc fp.mant * KK * vd * wd = (fp.mant * KK * wd) * vd := by ring
      _ ≤ (wn * LS) * vd := Nat.mul_le_mul_right _ h5
      _ = (wn * vd) * LS := by ring
      _ ≤ (vn * wd) * LS := Nat.mul_le_mul_right _ hlo
      _ = vn * LS * wd := by ring
  · apply Nat.lt_of_mul_lt_mul_right (a := wd * w)
    have e1 : (fp.mant + 4) * (w + 1) ≤ (fp.mant + 40) * w := by
      have : (fp.mant + 4) * (w + 1) = (fp.mant + 4) * w + (fp.mant + 4) := by ring
      have : (fp.mant + 40) * w = (fp.mant + 4) * w + 36 * w := by ring
      omega
    calc vn * LS * (wd * w) = (vn * wd * w) * LS := by ring
      _ < (wn * vd * (w + 1)) * LS := Nat.mul_lt_mul_of_pos_right hhi hLSpos
      _ = (wn * LS) * (vd * (w + 1)) := by ring
      _ ≤ ((fp.mant + 4) * KK * wd) * (vd * (w + 1)) := Nat.mul_le_mul_right _ (Nat.le_of_lt h6)
      _ = ((fp.mant + 4) * (w + 1)) * (KK * wd * vd) := by ring
      _ ≤ ((fp.mant + 40) * w) * (KK * wd * vd) := Nat.mul_le_mul_right _ e1
      _ = (fp.mant + 40) * KK * vd * (wd * w) := by ring

/-- **the generic bracket**: an un-biased estimate `est` (normalised mantissa, not deeper than the subnormal range,
finite when rounded down) whose value is at most the exact value `num/den`, which in turn is less than the value of
`est.mant + 4` at the same exponent, rounds down to a pattern `b` with `b ≤ roundNE (num/den) ≤ b + 1`. -/
theorem bracket_of_estimate_c {F p eb} (lay : Layout F p eb) (c : Nat) (hc : 2 * c ≤ 2 ^ (64 - p)) (est : ExtendedFloat80) (hm1 : 2 ^ 63 ≤ est.mant)
    (hm2 : est.mant < 2 ^ 64) (hp2 : -est.exp + 1 ≤ 64) (num den : Nat) (hd : 0 < den)
    (hlo : est.mant * 2 ^ (est.exp + 64 - p - 1).toNat * den ≤ num * 2 ^ L F.fmt * 2 ^ shiftOf p est.exp)
    (hhi : num * 2 ^ L F.fmt * 2 ^ shiftOf p est.exp < (est.mant + c) * 2 ^ (est.exp + 64 - p - 1).toNat * den) :
    extendedToFloat F (round F est roundDown) ≤ roundNE F.fmt num den ∧
      roundNE F.fmt num den ≤ extendedToFloat F (round F est roundDown) + 1 := by
  have hf := lay.wf
  have hp := lay.hp; have hp64 := lay.hp64; have heb := lay.heb
  have hfp : F.fmt.p = p := by rw [lay.fmt]
  have hp61 : p ≤ 61 := by
    have h1 := lay.hpb
    have : eb ≠ 2 := by intro h; subst h; omega
    omega
  have hrd := LexVerif.Proof.Slow.round_down_bits lay est hm1 hm2 hp2
  rw [hrd]
  obtain ⟨q1, q2, q3, q4, q5⟩ := quot_bounds hp (by omega) hm1 hm2 est.exp hp2
  have hS3 : 64 - p ≤ shiftOf p est.exp := by
    unfold shiftOf; split <;> omega
  generalize hK : (est.exp + 64 - p - 1).toNat = K at *
  generalize hS : shiftOf p est.exp = S at *
  generalize hMn : est.mant = Mn at *
  have hdm := Nat.div_add_mod Mn (2 ^ S)
  have hml := Nat.mod_lt Mn (Nat.two_pow_pos S)
  have hS8 : 2 * c ≤ 2 ^ S := Nat.le_trans hc (Nat.pow_le_pow_right (by decide) hS3)
  generalize hM' : Mn / 2 ^ S = M' at *
  have hT := Nat.two_pow_pos (p - 1)
  have h1' : 0 < K → 2 ^ (F.fmt.p - 1) ≤ M' := by rw [hfp]; intro h; exact (q1 h).2.1
  have iv0 : ival F.fmt (K * 2 ^ (p - 1) + M') = M' * 2 ^ K := by
    have := ival_kq F.fmt K M' h1' (by rw [hfp]; omega)
    rwa [hfp] at this
  have iv1 : ival F.fmt (K * 2 ^ (p - 1) + M' + 1) = (M' + 1) * 2 ^ K := by
    have := ival_kq F.fmt K (M' + 1) (fun h => by have := h1' h; omega) (by rw [hfp]; omega)
    rw [hfp] at this
    rw [Nat.add_assoc]; exact this
  have iv2 : (M' + 2) * 2 ^ K ≤ ival F.fmt (K * 2 ^ (p - 1) + M' + 2) := by
    by_cases hc : M' + 2 ≤ 2 * 2 ^ (p - 1)
    · have := ival_kq F.fmt K (M' + 2) (fun h => by have := h1' h; omega) (by rw [hfp]; exact hc)
      rw [hfp] at this
      rw [Nat.add_assoc, this]
    · have hM : M' + 1 = 2 * 2 ^ (p - 1) := by omega
      have e : K * 2 ^ (p - 1) + M' + 2 = (K + 1) * 2 ^ (p - 1) + (2 ^ (p - 1) + 1) := by
        rw [Nat.add_mul, Nat.one_mul]; omega
      have := ival_kq F.fmt (K + 1) (2 ^ (p - 1) + 1) (fun _ => by rw [hfp]; omega) (by rw [hfp]; omega)
      rw [hfp] at this
      rw [e, this, Nat.pow_succ]
      have : (2 ^ (p - 1) + 1) * (2 ^ K * 2) = (2 * 2 ^ (p - 1) + 2) * 2 ^ K := by ring
      rw [this, ← hM]
      exact Nat.mul_le_mul_right _ (by omega)
  have hA := Nat.two_pow_pos K
  have hSg := Nat.two_pow_pos S
  generalize hX : num * 2 ^ L F.fmt = X at *
  have hlo' : den * (M' * 2 ^ K) ≤ X := by
    apply Nat.le_of_mul_le_mul_right _ hSg
    calc den * (M' * 2 ^ K) * 2 ^ S = (2 ^ S * M') * 2 ^ K * den := by ring
      _ ≤ Mn * 2 ^ K * den :=
        Nat.mul_le_mul_right _ (Nat.mul_le_mul_right _ (by omega))
      _ ≤ X * 2 ^ S := hlo
  by_cases hov : F.fmt.infBits ≤ K * 2 ^ (p - 1) + M'
  · -- the estimate is already beyond the largest finite float: `b = +∞ = roundNE x`
    have henc : encode F.fmt K M' = F.fmt.infBits := by
      unfold encode; rw [hfp, if_pos hov]
    rw [henc]
    refine ⟨?_, Nat.le_trans (roundNE_le_infBits hf num hd) (Nat.le_succ _)⟩
    apply le_roundNE_of_ival hf num den _ hd (Nat.le_refl _)
    rw [hX]
    have := ival_mono F.fmt hov
    rw [iv0] at this
    exact Nat.le_trans (Nat.mul_le_mul_left _ this) hlo'
  · have henc : encode F.fmt K M' = K * 2 ^ (p - 1) + M' := by
      unfold encode; rw [hfp, if_neg hov]
    rw [henc]
    apply weak_bracket_of_bounds hf num den _ hd (by omega)
    · rw [hX, iv0]; exact hlo'
    · rw [hX, iv1]
      have h3 : 2 * X < den * ((2 * M' + 3) * 2 ^ K) := by
        apply Nat.lt_of_mul_lt_mul_right (a := 2 ^ S)
        have e1 : 2 * (Mn + c) ≤ (2 * M' + 3) * 2 ^ S := by
          have : (2 * M' + 3) * 2 ^ S = 2 * (2 ^ S * M') + 3 * 2 ^ S := by ring
          omega
        calc 2 * X * 2 ^ S = 2 * (X * 2 ^ S) := by ring
          _ < 2 * ((Mn + c) * 2 ^ K * den) := Nat.mul_lt_mul_of_pos_left hhi (by decide)
          _ = (2 * (Mn + c)) * (2 ^ K * den) := by ring
          _ ≤ ((2 * M' + 3) * 2 ^ S) * (2 ^ K * den) := Nat.mul_le_mul_right _ e1
          _ = den * ((2 * M' + 3) * 2 ^ K) * 2 ^ S := by ring
      have h4 : den * ((2 * M' + 3) * 2 ^ K) ≤
          den * ((M' + 1) * 2 ^ K + ival F.fmt (K * 2 ^ (p - 1) + M' + 2)) := by
        apply Nat.mul_le_mul_left
        have : (2 * M' + 3) * 2 ^ K = (M' + 1) * 2 ^ K + (M' + 2) * 2 ^ K := by ring
        omega
      omega

/-- below the subnormal range the estimate rounds down to `+0`, and the value is less than one unit -/
theorem bracket_deep_c {F p eb} (lay : Layout F p eb) (c : Nat) (hc : 2 * c ≤ 2 ^ (64 - p)) (est : ExtendedFloat80) (hm2 : est.mant < 2 ^ 64)
    (hp2 : ¬ -est.exp + 1 ≤ 64) (num den : Nat) (hd : 0 < den)
    (hhi : num * 2 ^ L F.fmt * 2 ^ shiftOf p est.exp < (est.mant + c) * 2 ^ (est.exp + 64 - p - 1).toNat * den) :
    extendedToFloat F (round F est roundDown) = 0 ∧ roundNE F.fmt num den ≤ 1 := by
  have hf := lay.wf
  have hp := lay.hp; have hp64 := lay.hp64
  constructor
  · unfold round roundDown
    rw [lay.ms]
    have h1 : -est.exp ≥ 64 - ((p - 1 : Nat) : Int) - 1 := by omega
    rw [if_pos h1]
    have h2 : (min (-est.exp + 1) 64).toNat = 64 := by
      rw [Int.min_def, if_neg (by omega)]; rfl
    simp only [h2, if_true]
    have h3 : ¬ ((0 : Nat) : Int) ≥ F.C.hiddenBitMask := by
      rw [lay.hidden]; have := Nat.two_pow_pos (p - 1); omega
    rw [if_neg h3]
    exact ext_zero lay
  · have hK : (est.exp + 64 - p - 1).toNat = 0 := by omega
    have hS : 65 ≤ shiftOf p est.exp := by
      unfold shiftOf; rw [if_pos (by omega)]; omega
    rw [hK, Nat.pow_zero, Nat.mul_one] at hhi
    have h65 : est.mant + c ≤ 2 ^ 65 := by
      have : (2 : Nat) ^ 65 = 2 * 2 ^ 64 := by rw [← Nat.pow_succ']
      have : (2 : Nat) ^ (64 - p) ≤ 2 ^ 64 := Nat.pow_le_pow_right (by decide) (by omega)
      omega
    have hS2 : 2 ^ 65 ≤ 2 ^ shiftOf p est.exp := Nat.pow_le_pow_right (by decide) hS
    have hlt : num * 2 ^ L F.fmt < den := by
      apply Nat.lt_of_mul_lt_mul_right (a := 2 ^ shiftOf p est.exp)
      calc num * 2 ^ L F.fmt * 2 ^ shiftOf p est.exp < (est.mant + c) * den := hhi
        _ ≤ 2 ^ shiftOf p est.exp * den := Nat.mul_le_mul_right _ (Nat.le_trans h65 hS2)
        _ = den * 2 ^ shiftOf p est.exp := Nat.mul_comm _ _
    have hinf : 0 ≤ F.fmt.infBits := Nat.zero_le _
    have := (weak_bracket_of_bounds hf num den 0 hd hinf (by rw [ival_zero]; omega) (by
      have i1 : ival F.fmt 1 = 1 := by
        have := ival_kq F.fmt 0 1 (by omega) (by have := Nat.two_pow_pos (F.fmt.p - 1); omega)
        simpa using this
      have i2 : 2 ≤ ival F.fmt 2 := by
        have := ival_strictMono F.fmt (show 1 < 2 by decide); omega
      have : den * 3 ≤ den * (ival F.fmt (0 + 1) + ival F.fmt (0 + 2)) := Nat.mul_le_mul_left _ (by
        rw [Nat.zero_add, Nat.zero_add, i1]; omega)
      omega)).2
    simpa using this

/-- **an estimate brackets the value** (`Props.C01.Bracket` / `Props.C01Slow.WeakBracket` for the invalid-marked answer
`fp`): every case — deep underflow (`b = 0`), subnormal and normal, overflow (`b = +∞`). -/
theorem bracket_of_estW {F p eb} (lay : Layout F p eb) (c : Nat) (hc : 2 * c ≤ 2 ^ (64 - p)) (fp : ExtendedFloat80)
    (num den : Nat) (hd : 0 < den) (h : EstW F p fp c num den) :
    extendedToFloat F (round F { fp with exp := fp.exp - invalidFp } roundDown) ≤ roundNE F.fmt num den ∧
      roundNE F.fmt num den ≤ extendedToFloat F (round F { fp with exp := fp.exp - invalidFp } roundDown) + 1 := by
  obtain ⟨hm1, hm2, _, _, hlo, hhi⟩ := h
  by_cases hp2 : -(fp.exp - invalidFp) + 1 ≤ 64
  · exact bracket_of_estimate_c lay c hc { fp with exp := fp.exp - invalidFp } hm1 hm2 hp2 num den hd hlo hhi
  · obtain ⟨e1, e2⟩ := bracket_deep_c lay c hc { fp with exp := fp.exp - invalidFp } hm2 hp2 num den hd hhi
    rw [e1]
    exact ⟨Nat.zero_le _, e2⟩

end LexVerif.Proof.Lemire
