import LexVerif.Proof.LemireNeg
/-!
# Proof.LemireNegSmall — `compute_float` for `−27 ≤ q ≤ −1`

For `e = −q ≤ 27` the table row is the reciprocal rounded **up**: `(T − 1)·5^e ≤ 2^(b+127) < T·5^e`. The error is on the
other side: the exact value `N = wn·2^(b+127)` lies **below** `wn·T·5^e`, by less than `wn·5^e < 2^127`; a borrow out of
the upper bits (when `lo = 0` and the dropped bits of `hi` are zero) is excluded because `N` and the boundary are both
multiples of `2^129`. The round-to-even test: an exact tie shows as `lo = 0` with zero dropped bits and forces
`5^e·2^p ≤ w` (the window); conversely the pattern `lo ≤ 1` is an exact tie — by the same divisibility after the second
multiplication, and never occurs without it (`tieRowOk`: a per-row check that `wn·hi5 ≡ 0, 1 (mod 2^(64+sh))` has no
normalised solution).
-/
namespace LexVerif.Proof.Lemire
open LexVerif.Spec LexVerif.Model LexVerif.Model.Lemire
open LexVerif.Proof.RoundNE LexVerif.Proof.ExtRound LexVerif.Proof.BinaryCorrect

/-- what is needed of row `−e`, `1 ≤ e ≤ 27`, and of `power(−e)` (checked by evaluation) -/
def rowNegSmallOk (e : Nat) : Bool :=
  match Gen.Lemire.powerOfFive128[342 - e]? with
  | some (hi5, lo5) =>
    decide (hi5 < 2 ^ 64) && decide (lo5 < 2 ^ 64) && decide (2 ^ 63 ≤ hi5) && decide (3 ≤ bitlen (5 ^ e)) &&
    decide (bitlen (5 ^ e) ≤ 63) && decide (5 ^ e < 2 ^ 63) &&
    decide (2 ^ (bitlen (5 ^ e) + 127) < (hi5 * 2 ^ 64 + lo5) * 5 ^ e) &&
    decide ((hi5 * 2 ^ 64 + lo5) * 5 ^ e ≤ 2 ^ (bitlen (5 ^ e) + 127) + 5 ^ e) &&
    decide (power (wrapI32 (-(e : Int))) = 63 - (e : Int) - (bitlen (5 ^ e) : Int))
  | none => false

theorem rows_neg_small_all : ((List.range 27).map (· + 1)).all rowNegSmallOk = true := by decide +kernel

theorem rows_neg_small (e : Nat) (h1 : 1 ≤ e) (h27 : e ≤ 27) :
    ∃ hi5 lo5, Gen.Lemire.powerOfFive128[342 - e]? = some (hi5, lo5) ∧ hi5 < 2 ^ 64 ∧ lo5 < 2 ^ 64 ∧
      2 ^ 63 ≤ hi5 ∧ 3 ≤ bitlen (5 ^ e) ∧ bitlen (5 ^ e) ≤ 63 ∧ 5 ^ e < 2 ^ 63 ∧
      2 ^ (bitlen (5 ^ e) + 127) < (hi5 * 2 ^ 64 + lo5) * 5 ^ e ∧
      (hi5 * 2 ^ 64 + lo5) * 5 ^ e ≤ 2 ^ (bitlen (5 ^ e) + 127) + 5 ^ e ∧
      power (wrapI32 (-(e : Int))) = 63 - (e : Int) - (bitlen (5 ^ e) : Int) := by
  have hall := rows_neg_small_all
  rw [List.all_eq_true] at hall
  have := hall e (by
    rw [List.mem_map]; exact ⟨e - 1, List.mem_range.mpr (by omega), by omega⟩)
  unfold rowNegSmallOk at this
  cases hrow : Gen.Lemire.powerOfFive128[342 - e]? with
  | none => rw [hrow] at this; simp at this
  | some r =>
    obtain ⟨hi5, lo5⟩ := r
    rw [hrow] at this
    simp only [Bool.and_eq_true, decide_eq_true_eq] at this
    obtain ⟨⟨⟨⟨⟨⟨⟨⟨h1, h2⟩, h3⟩, h4⟩, h5⟩, h6⟩, h7⟩, h8⟩, h9⟩ := this
    exact ⟨hi5, lo5, rfl, h1, h2, h3, h4, h5, h6, h7, h8, h9⟩

/-- **upper bits, rows rounded up**: `X = wn·T`, the exact value `N ∈ [X − wn, X)·Dn` (`Dn = 5^e < 2^63`) is a multiple
of `2^129`. Then `hi ≥ 2^62`, `hi >> sh` is the quotient of `N` by `2^(64+sh)·2^64·Dn` (no borrow), and
`N > (z − 1)·2^64·Dn`. -/
theorem upper_bits_upper {p : Nat} (hp61 : p ≤ 61) (wn hi5 lo5 lo hi N Dn : Nat)
    (hwn1 : 2 ^ 63 ≤ wn) (hwn2 : wn < 2 ^ 64) (hhi5n : 2 ^ 63 ≤ hi5) (hlo : lo < 2 ^ 64) (hhi : hi < 2 ^ 64)
    (hzlow : (hi * 2 ^ 64 + lo) * 2 ^ 64 ≤ wn * (hi5 * 2 ^ 64 + lo5))
    (hzup : wn * (hi5 * 2 ^ 64 + lo5) < (hi * 2 ^ 64 + lo + 1) * 2 ^ 64 ∨
      (hi % 2 ^ (62 - p) ≠ 2 ^ (62 - p) - 1 ∧ hi * 2 ^ 64 + lo = wn * hi5 ∧
        wn * (hi5 * 2 ^ 64 + lo5) < (hi * 2 ^ 64 + lo + 2 ^ 64) * 2 ^ 64))
    (hDn : 0 < Dn) (hDn63 : Dn < 2 ^ 63) (hNlt : N < wn * (hi5 * 2 ^ 64 + lo5) * Dn)
    (hNge : wn * (hi5 * 2 ^ 64 + lo5) * Dn ≤ N + wn * Dn) (hdiv : 2 ^ 129 ∣ N)
    (u sh : Nat) (hu : hi / 2 ^ 63 = u) (hshv : u + 62 - p = sh) :
    2 ^ 62 ≤ hi ∧ N / (2 ^ sh * 2 ^ 64 * (2 ^ 64 * Dn)) = hi / 2 ^ sh ∧
      (hi * 2 ^ 64 + lo) * (2 ^ 64 * Dn) < N + 2 ^ 64 * Dn := by
  have hX190 : 2 ^ 126 * 2 ^ 64 ≤ wn * (hi5 * 2 ^ 64 + lo5) := by
    have hT : 2 ^ 63 * 2 ^ 64 ≤ hi5 * 2 ^ 64 + lo5 :=
      Nat.le_trans (Nat.mul_le_mul_right (2 ^ 64) hhi5n) (Nat.le_add_right _ _)
    calc 2 ^ 126 * 2 ^ 64 = 2 ^ 63 * (2 ^ 63 * 2 ^ 64) := by
          rw [← Nat.pow_add, ← Nat.pow_add, ← Nat.pow_add]
      _ ≤ wn * (hi5 * 2 ^ 64 + lo5) := Nat.mul_le_mul hwn1 hT
  have hF126 : 2 ^ 126 ≤ wn * hi5 := by
    calc 2 ^ 126 = 2 ^ 63 * 2 ^ 63 := by rw [← Nat.pow_add]
      _ ≤ wn * hi5 := Nat.mul_le_mul hwn1 hhi5n
  generalize hXv : wn * (hi5 * 2 ^ 64 + lo5) = X at *
  have hz126 : 2 ^ 126 ≤ hi * 2 ^ 64 + lo := by
    rcases hzup with h | ⟨_, h, _⟩
    · have h1 := Nat.lt_of_le_of_lt hX190 h
      have h2 := Nat.lt_of_mul_lt_mul_right h1
      omega
    · rw [h]; exact hF126
  have hhi62 : 2 ^ 62 ≤ hi := by
    have e : (2 : Nat) ^ 126 = 2 ^ 62 * 2 ^ 64 := by rw [← Nat.pow_add]
    apply Classical.byContradiction; intro hcon
    have h1 : hi + 1 ≤ 2 ^ 62 := by omega
    have h2 := Nat.mul_le_mul_right (2 ^ 64) h1
    rw [Nat.add_mul, Nat.one_mul] at h2
    omega
  have hB := Nat.two_pow_pos 64
  -- N > (z − 1)·Dz
  have hgt : (hi * 2 ^ 64 + lo) * (2 ^ 64 * Dn) < N + 2 ^ 64 * Dn := by
    calc (hi * 2 ^ 64 + lo) * (2 ^ 64 * Dn) = ((hi * 2 ^ 64 + lo) * 2 ^ 64) * Dn := by ring
      _ ≤ X * Dn := Nat.mul_le_mul_right _ hzlow
      _ ≤ N + wn * Dn := hNge
      _ < N + 2 ^ 64 * Dn := by
        have := Nat.mul_lt_mul_of_pos_right hwn2 hDn
        omega
  refine ⟨hhi62, ?_, hgt⟩
  have hu01 : u ≤ 1 := by
    rw [← hu]
    have : hi / 2 ^ 63 < 2 := by
      rw [Nat.div_lt_iff_lt_mul (Nat.two_pow_pos _)]; omega
    omega
  have hsh1 : 1 ≤ sh := by omega
  have hsmall : 2 ^ 64 * Dn ≤ 2 ^ 129 := by
    have h3 : 2 ^ 64 * Dn ≤ 2 ^ 64 * 2 ^ 63 := Nat.mul_le_mul_left _ (Nat.le_of_lt hDn63)
    have h4 : (2 : Nat) ^ 64 * 2 ^ 63 = 2 ^ 127 := by rw [← Nat.pow_add]
    have h5 : (2 : Nat) ^ 127 ≤ 2 ^ 129 := Nat.pow_le_pow_right (by decide) (by decide)
    omega
  have hdvdA : ∀ m, 2 ^ 129 ∣ m * (2 ^ sh * 2 ^ 64 * (2 ^ 64 * Dn)) := by
    intro m
    obtain ⟨s', rfl⟩ : ∃ s', sh = s' + 1 := ⟨sh - 1, by omega⟩
    exact ⟨m * 2 ^ s' * Dn, by
      rw [show (2 : Nat) ^ 129 = 2 * 2 ^ 64 * 2 ^ 64 by
        rw [← Nat.pow_succ', ← Nat.pow_add], Nat.pow_succ]; ring⟩
  have hroom1 : hi % 2 ^ sh * 2 ^ 64 + lo + 1 ≤ 2 ^ sh * 2 ^ 64 :=
    room_of_lt (by have := Nat.mod_lt hi (Nat.two_pow_pos sh); omega) (by omega)
  have hroomB : hi % 2 ^ (62 - p) ≠ 2 ^ (62 - p) - 1 → hi % 2 ^ sh * 2 ^ 64 + lo + 2 ^ 64 ≤ 2 ^ sh * 2 ^ 64 :=
    fun hm => room_of_lt2 (mod_not_allOnes (show 62 - p ≤ sh by omega) hm) (by omega)
  have hdm := Nat.div_add_mod hi (2 ^ sh)
  have hDzpos : 0 < 2 ^ 64 * Dn := Nat.mul_pos hB hDn
  generalize 2 ^ (62 - p) = Mb at *
  generalize 2 ^ sh = A at *
  generalize hi / A = m0 at *
  generalize hi % A = r at *
  generalize 2 ^ 129 = G at *
  generalize 2 ^ 64 = B at *
  have e1 : hi * B = A * m0 * B + r * B := by rw [← hdm]; ring
  have hzsplit : (hi * B + lo) * (B * Dn) = m0 * (A * B * (B * Dn)) + (r * B + lo) * (B * Dn) := by
    rw [e1]; ring
  apply Nat.div_eq_of_lt_le
  · -- lower bound: no borrow
    by_cases hr : r * B + lo = 0
    · rw [hr, Nat.zero_mul, Nat.add_zero] at hzsplit
      apply Classical.byContradiction; intro hcon
      have hlt : N < m0 * (A * B * (B * Dn)) := Nat.lt_of_not_le hcon
      obtain ⟨n', hn'⟩ := hdiv
      obtain ⟨z', hz'⟩ := hdvdA m0
      rw [hzsplit, hz', hn'] at hgt
      rw [hz', hn'] at hlt
      have h1 : n' < z' := Nat.lt_of_mul_lt_mul_left hlt
      have h2 : G * (n' + 1) ≤ G * z' := Nat.mul_le_mul_left _ h1
      rw [Nat.mul_add, Nat.mul_one] at h2
      generalize G * n' = U at *
      generalize G * z' = V at *
      generalize B * Dn = W at *
      omega
    · have h2 : 1 * (B * Dn) ≤ (r * B + lo) * (B * Dn) := Nat.mul_le_mul_right _ (by omega)
      rw [Nat.one_mul] at h2
      rw [hzsplit] at hgt
      generalize m0 * (A * B * (B * Dn)) = U at *
      generalize (r * B + lo) * (B * Dn) = V at *
      generalize B * Dn = W at *
      omega
  · -- upper bound
    have hup : ∀ c, X < (hi * B + lo + c) * B → r * B + lo + c ≤ A * B →
        N < (m0 + 1) * (A * B * (B * Dn)) := by
      intro c h1 h2
      calc N < X * Dn := hNlt
        _ ≤ ((hi * B + lo + c) * B) * Dn := Nat.mul_le_mul_right _ (Nat.le_of_lt h1)
        _ = (hi * B + lo + c) * (B * Dn) := by ring
        _ ≤ (A * m0 * B + A * B) * (B * Dn) :=
          Nat.mul_le_mul_right _ (by rw [e1]; omega)
        _ = (m0 + 1) * (A * B * (B * Dn)) := by ring
    rcases hzup with h | ⟨hm, _, h⟩
    · exact hup 1 h hroom1
    · exact hup B h (hroomB hm)

end LexVerif.Proof.Lemire
