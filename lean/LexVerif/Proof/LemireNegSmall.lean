import LexVerif.Proof.LemireNeg
/-!
# Proof.LemireNegSmall — `compute_float` for `−27 ≤ q ≤ −1`

For `e = −q ≤ 27` the table row is the reciprocal rounded **up**: `(T − 1)·5^e ≤ 2^(b+127) < T·5^e`. The error is on the
other side: the exact value `N = wn·2^(b+127)` lies **below** `wn·T·5^e`, by less than `wn·5^e < 2^127`; a borrow out of
the upper bits (when `lo = 0` and the dropped bits of `hi` are zero) is excluded because `N` and the boundary are both
multiples of `2^129`. The round-to-even test: an exact tie shows as `lo = 0` with zero dropped bits and forces
`5^e·2^p ≤ w` (the window); conversely the pattern `lo ≤ 1` is an exact tie — by the same divisibility after the second
multiplication, and never occurs without it (`tieRowOk`: a per-row check that `wn·hi5 ≡ 0, 1 (mod 2^(64+sh))` has no
normalised solution).
-/
namespace LexVerif.Proof.Lemire
open LexVerif.Spec LexVerif.Model LexVerif.Model.Lemire
open LexVerif.Proof.RoundNE LexVerif.Proof.ExtRound LexVerif.Proof.BinaryCorrect

/-- what is needed of row `−e`, `1 ≤ e ≤ 27`, and of `power(−e)` (checked by evaluation) -/
def rowNegSmallOk (e : Nat) : Bool :=
  match Gen.Lemire.powerOfFive128[342 - e]? with
  | some (hi5, lo5) =>
    decide (hi5 < 2 ^ 64) && decide (lo5 < 2 ^ 64) && decide (2 ^ 63 ≤ hi5) && decide (3 ≤ bitlen (5 ^ e)) &&
    decide (bitlen (5 ^ e) ≤ 63) && decide (5 ^ e < 2 ^ 63) &&
    decide (2 ^ (bitlen (5 ^ e) + 127) < (hi5 * 2 ^ 64 + lo5) * 5 ^ e) &&
    decide ((hi5 * 2 ^ 64 + lo5) * 5 ^ e ≤ 2 ^ (bitlen (5 ^ e) + 127) + 5 ^ e) &&
    decide (power (wrapI32 (-(e : Int))) = 63 - (e : Int) - (bitlen (5 ^ e) : Int))
  | none => false

theorem rows_neg_small_all : ((List.range 27).map (· + 1)).all rowNegSmallOk = true := by decide +kernel

theorem rows_neg_small (e : Nat) (h1 : 1 ≤ e) (h27 : e ≤ 27) :
    ∃ hi5 lo5, Gen.Lemire.powerOfFive128[342 - e]? = some (hi5, lo5) ∧ hi5 < 2 ^ 64 ∧ lo5 < 2 ^ 64 ∧
      2 ^ 63 ≤ hi5 ∧ 3 ≤ bitlen (5 ^ e) ∧ bitlen (5 ^ e) ≤ 63 ∧ 5 ^ e < 2 ^ 63 ∧
      2 ^ (bitlen (5 ^ e) + 127) < (hi5 * 2 ^ 64 + lo5) * 5 ^ e ∧
      (hi5 * 2 ^ 64 + lo5) * 5 ^ e ≤ 2 ^ (bitlen (5 ^ e) + 127) + 5 ^ e ∧
      power (wrapI32 (-(e : Int))) = 63 - (e : Int) - (bitlen (5 ^ e) : Int) := by
  have hall := rows_neg_small_all
  rw [List.all_eq_true] at hall
  have := hall e (by
    rw [List.mem_map]; exact ⟨e - 1, List.mem_range.mpr (by omega), by omega⟩)
  unfold rowNegSmallOk at this
  cases hrow : Gen.Lemire.powerOfFive128[342 - e]? with
  | none => rw [hrow] at this; simp at this
  | some r =>
    obtain ⟨hi5, lo5⟩ := r
    rw [hrow] at this
    simp only [Bool.and_eq_true, decide_eq_true_eq] at this
    obtain ⟨⟨⟨⟨⟨⟨⟨⟨h1, h2⟩, h3⟩, h4⟩, h5⟩, h6⟩, h7⟩, h8⟩, h9⟩ := this
    exact ⟨hi5, lo5, rfl, h1, h2, h3, h4, h5, h6, h7, h8, h9⟩

/-- **upper bits, rows rounded up**: `X = wn·T`, the exact value `N ∈ [X − wn, X)·Dn` (`Dn = 5^e < 2^63`) is a multiple
of `2^129`. Then `hi ≥ 2^62`, `hi >> sh` is the quotient of `N` by `2^(64+sh)·2^64·Dn` (no borrow), and
`N > (z − 1)·2^64·Dn`. -/
theorem upper_bits_upper {p : Nat} (hp61 : p ≤ 61) (wn hi5 lo5 lo hi N Dn : Nat)
    (hwn1 : 2 ^ 63 ≤ wn) (hwn2 : wn < 2 ^ 64) (hhi5n : 2 ^ 63 ≤ hi5) (hlo : lo < 2 ^ 64) (hhi : hi < 2 ^ 64)
    (hzlow : (hi * 2 ^ 64 + lo) * 2 ^ 64 ≤ wn * (hi5 * 2 ^ 64 + lo5))
    (hzup : wn * (hi5 * 2 ^ 64 + lo5) < (hi * 2 ^ 64 + lo + 1) * 2 ^ 64 ∨
      (hi % 2 ^ (62 - p) ≠ 2 ^ (62 - p) - 1 ∧ hi * 2 ^ 64 + lo = wn * hi5 ∧
        wn * (hi5 * 2 ^ 64 + lo5) < (hi * 2 ^ 64 + lo + 2 ^ 64) * 2 ^ 64))
    (hDn : 0 < Dn) (hDn63 : Dn < 2 ^ 63) (hNlt : N < wn * (hi5 * 2 ^ 64 + lo5) * Dn)
    (hNge : wn * (hi5 * 2 ^ 64 + lo5) * Dn ≤ N + wn * Dn) (hdiv : 2 ^ 129 ∣ N)
    (u sh : Nat) (hu : hi / 2 ^ 63 = u) (hshv : u + 62 - p = sh) :
    2 ^ 62 ≤ hi ∧ N / (2 ^ sh * 2 ^ 64 * (2 ^ 64 * Dn)) = hi / 2 ^ sh ∧
      (hi * 2 ^ 64 + lo) * (2 ^ 64 * Dn) < N + 2 ^ 64 * Dn := by
  have hX190 : 2 ^ 126 * 2 ^ 64 ≤ wn * (hi5 * 2 ^ 64 + lo5) := by
    have hT : 2 ^ 63 * 2 ^ 64 ≤ hi5 * 2 ^ 64 + lo5 :=
      Nat.le_trans (Nat.mul_le_mul_right (2 ^ 64) hhi5n) (Nat.le_add_right _ _)
    calc 2 ^ 126 * 2 ^ 64 = 2 ^ 63 * (2 ^ 63 * 2 ^ 64) := by
          rw [← Nat.pow_add, ← Nat.pow_add, ← Nat.pow_add]
      _ ≤ wn * (hi5 * 2 ^ 64 + lo5) := Nat.mul_le_mul hwn1 hT
  have hF126 : 2 ^ 126 ≤ wn * hi5 := by
    calc 2 ^ 126 = 2 ^ 63 * 2 ^ 63 := by rw [← Nat.pow_add]
      _ ≤ wn * hi5 := Nat.mul_le_mul hwn1 hhi5n
  generalize hXv : wn * (hi5 * 2 ^ 64 + lo5) = X at *
  have hz126 : 2 ^ 126 ≤ hi * 2 ^ 64 + lo := by
    rcases hzup with h | ⟨_, h, _⟩
    · have h1 := Nat.lt_of_le_of_lt hX190 h
      have h2 := Nat.lt_of_mul_lt_mul_right h1
      omega
    · rw [h]; exact hF126
  have hhi62 : 2 ^ 62 ≤ hi := by
    have e : (2 : Nat) ^ 126 = 2 ^ 62 * 2 ^ 64 := by rw [← Nat.pow_add]
    apply Classical.byContradiction; intro hcon
    have h1 : hi + 1 ≤ 2 ^ 62 := by omega
    have h2 := Nat.mul_le_mul_right (2 ^ 64) h1
    rw [Nat.add_mul, Nat.one_mul] at h2
    omega
  have hB := Nat.two_pow_pos 64
  -- N > (z − 1)·Dz
  have hgt : (hi * 2 ^ 64 + lo) * (2 ^ 64 * Dn) < N + 2 ^ 64 * Dn := by
    calc (hi * 2 ^ 64 + lo) * (2 ^ 64 * Dn) = ((hi * 2 ^ 64 + lo) * 2 ^ 64) * Dn := by ring
      _ ≤ X * Dn := Nat.mul_le_mul_right _ hzlow
      _ ≤ N + wn * Dn := hNge
      _ < N + 2 ^ 64 * Dn := by
        have := Nat.mul_lt_mul_of_pos_right hwn2 hDn
        omega
  refine ⟨hhi62, ?_, hgt⟩
  have hu01 : u ≤ 1 := by
    rw [← hu]
    have : hi / 2 ^ 63 < 2 := by
      rw [Nat.div_lt_iff_lt_mul (Nat.two_pow_pos _)]; omega
    omega
  have hsh1 : 1 ≤ sh := by omega
  have hsmall : 2 ^ 64 * Dn ≤ 2 ^ 129 := by
    have h3 : 2 ^ 64 * Dn ≤ 2 ^ 64 * 2 ^ 63 := Nat.mul_le_mul_left _ (Nat.le_of_lt hDn63)
    have h4 : (2 : Nat) ^ 64 * 2 ^ 63 = 2 ^ 127 := by rw [← Nat.pow_add]
    have h5 : (2 : Nat) ^ 127 ≤ 2 ^ 129 := Nat.pow_le_pow_right (by decide) (by decide)
    omega
  have hdvdA : ∀ m, 2 ^ 129 ∣ m * (2 ^ sh * 2 ^ 64 * (2 ^ 64 * Dn)) := by
    intro m
    obtain ⟨s', rfl⟩ : ∃ s', sh = s' + 1 := ⟨sh - 1, by omega⟩
    exact ⟨m * 2 ^ s' * Dn, by
      rw [show (2 : Nat) ^ 129 = 2 * 2 ^ 64 * 2 ^ 64 by
        rw [← Nat.pow_succ', ← Nat.pow_add], Nat.pow_succ]; ring⟩
  have hroom1 : hi % 2 ^ sh * 2 ^ 64 + lo + 1 ≤ 2 ^ sh * 2 ^ 64 :=
    room_of_lt (by have := Nat.mod_lt hi (Nat.two_pow_pos sh); omega) (by omega)
  have hroomB : hi % 2 ^ (62 - p) ≠ 2 ^ (62 - p) - 1 → hi % 2 ^ sh * 2 ^ 64 + lo + 2 ^ 64 ≤ 2 ^ sh * 2 ^ 64 :=
    fun hm => room_of_lt2 (mod_not_allOnes (show 62 - p ≤ sh by omega) hm) (by omega)
  have hdm := Nat.div_add_mod hi (2 ^ sh)
  have hDzpos : 0 < 2 ^ 64 * Dn := Nat.mul_pos hB hDn
  generalize 2 ^ (62 - p) = Mb at *
  generalize 2 ^ sh = A at *
  generalize hi / A = m0 at *
  generalize hi % A = r at *
  generalize 2 ^ 129 = G at *
  generalize 2 ^ 64 = B at *
  have e1 : hi * B = A * m0 * B + r * B := by rw [← hdm]; ring
  have hzsplit : (hi * B + lo) * (B * Dn) = m0 * (A * B * (B * Dn)) + (r * B + lo) * (B * Dn) := by
    rw [e1]; ring
  apply Nat.div_eq_of_lt_le
  · -- lower bound: no borrow
    by_cases hr : r * B + lo = 0
    · rw [hr, Nat.zero_mul, Nat.add_zero] at hzsplit
      apply Classical.byContradiction; intro hcon
      have hlt : N < m0 * (A * B * (B * Dn)) := Nat.lt_of_not_le hcon
      obtain ⟨n', hn'⟩ := hdiv
      obtain ⟨z', hz'⟩ := hdvdA m0
      rw [hzsplit, hz', hn'] at hgt
      rw [hz', hn'] at hlt
      have h1 : n' < z' := Nat.lt_of_mul_lt_mul_left hlt
      have h2 : G * (n' + 1) ≤ G * z' := Nat.mul_le_mul_left _ h1
      rw [Nat.mul_add, Nat.mul_one] at h2
      generalize G * n' = U at *
      generalize G * z' = V at *
      generalize B * Dn = W at *
      omega
    · have h2 : 1 * (B * Dn) ≤ (r * B + lo) * (B * Dn) := Nat.mul_le_mul_right _ (by omega)
      rw [Nat.one_mul] at h2
      rw [hzsplit] at hgt
      generalize m0 * (A * B * (B * Dn)) = U at *
      generalize (r * B + lo) * (B * Dn) = V at *
      generalize B * Dn = W at *
      omega
  · -- upper bound
    have hup : ∀ c, X < (hi * B + lo + c) * B → r * B + lo + c ≤ A * B →
        N < (m0 + 1) * (A * B * (B * Dn)) := by
      intro c h1 h2
      calc N < X * Dn := hNlt
        _ ≤ ((hi * B + lo + c) * B) * Dn := Nat.mul_le_mul_right _ (Nat.le_of_lt h1)
        _ = (hi * B + lo + c) * (B * Dn) := by ring
        _ ≤ (A * m0 * B + A * B) * (B * Dn) :=
          Nat.mul_le_mul_right _ (by rw [e1]; omega)
        _ = (m0 + 1) * (A * B * (B * Dn)) := by ring
    rcases hzup with h | ⟨hm, _, h⟩
    · exact hup 1 h hroom1
    · exact hup B h (hroomB hm)

/-! ## the round-to-even test on the rows rounded up -/

/-- an exact tie shows as `lo = 0` with zero dropped bits -/
theorem tie_pattern_of_exact (hi lo sh N Dz : Nat) (hDz : 0 < Dz)
    (hquot : N / (2 ^ sh * 2 ^ 64 * Dz) = hi / 2 ^ sh) (hgt : (hi * 2 ^ 64 + lo) * Dz < N + Dz)
    (hmod : N % (2 ^ sh * 2 ^ 64 * Dz) = 0) : lo = 0 ∧ hi % 2 ^ sh = 0 := by
  have hdmN := Nat.div_add_mod N (2 ^ sh * 2 ^ 64 * Dz)
  rw [hmod, Nat.add_zero, hquot] at hdmN
  have hdm := Nat.div_add_mod hi (2 ^ sh)
  have hB := Nat.two_pow_pos 64
  generalize 2 ^ sh = A at *
  generalize hi / A = m0 at *
  generalize hi % A = r at *
  generalize 2 ^ 64 = B at *
  have e1 : (hi * B + lo) * Dz = A * B * Dz * m0 + (r * B + lo) * Dz := by rw [← hdm]; ring
  have h1 : (r * B + lo) * Dz < 1 * Dz := by
    rw [Nat.one_mul]
    rw [e1, hdmN] at hgt
    generalize (r * B + lo) * Dz = V at *
    omega
  have h2 : r * B + lo < 1 := Nat.lt_of_mul_lt_mul_right h1
  have h3 : r * B = 0 := by omega
  refine ⟨by omega, ?_⟩
  rcases Nat.mul_eq_zero.mp h3 with h | h
  · exact h
  · omega

/-- after the second multiplication the pattern `lo ≤ 1`, zero dropped bits, is an exact tie -/
theorem exact_of_tie_pattern (hi lo sh N X Dn : Nat) (hsh : 1 ≤ sh) (hDn : 0 < Dn) (hDn63 : Dn < 2 ^ 63)
    (hlo1 : lo ≤ 1) (hr0 : hi % 2 ^ sh = 0) (hX : X < (hi * 2 ^ 64 + lo + 1) * 2 ^ 64) (hNlt : N < X * Dn)
    (hgt : (hi * 2 ^ 64 + lo) * (2 ^ 64 * Dn) < N + 2 ^ 64 * Dn) (hdiv : 2 ^ 129 ∣ N) :
    N % (2 ^ sh * 2 ^ 64 * (2 ^ 64 * Dn)) = 0 := by
  obtain ⟨m0, rfl⟩ : ∃ m0, hi = 2 ^ sh * m0 := Nat.dvd_of_mod_eq_zero hr0
  have hB := Nat.two_pow_pos 64
  have hsmall : 2 * (2 ^ 64 * Dn) ≤ 2 ^ 129 := by
    have h3 : 2 ^ 64 * Dn ≤ 2 ^ 64 * 2 ^ 63 := Nat.mul_le_mul_left _ (Nat.le_of_lt hDn63)
    have h4 : (2 : Nat) ^ 64 * 2 ^ 63 = 2 ^ 127 := by rw [← Nat.pow_add]
    have h5 : 2 * (2 : Nat) ^ 127 ≤ 2 ^ 129 := by
      rw [← Nat.pow_succ']; exact Nat.pow_le_pow_right (by decide) (by decide)
    omega
  have hdvdA : 2 ^ 129 ∣ m0 * (2 ^ sh * 2 ^ 64 * (2 ^ 64 * Dn)) := by
    obtain ⟨s', rfl⟩ : ∃ s', sh = s' + 1 := ⟨sh - 1, by omega⟩
    exact ⟨m0 * 2 ^ s' * Dn, by
      rw [show (2 : Nat) ^ 129 = 2 * 2 ^ 64 * 2 ^ 64 by
        rw [← Nat.pow_succ', ← Nat.pow_add], Nat.pow_succ]; ring⟩
  have hup : N < m0 * (2 ^ sh * 2 ^ 64 * (2 ^ 64 * Dn)) + 2 * (2 ^ 64 * Dn) := by
    calc N < X * Dn := hNlt
      _ ≤ ((2 ^ sh * m0 * 2 ^ 64 + lo + 1) * 2 ^ 64) * Dn := Nat.mul_le_mul_right _ (Nat.le_of_lt hX)
      _ = (2 ^ sh * m0 * 2 ^ 64 + lo + 1) * (2 ^ 64 * Dn) := by ring
      _ ≤ (2 ^ sh * m0 * 2 ^ 64 + 2) * (2 ^ 64 * Dn) := Nat.mul_le_mul_right _ (by omega)
      _ = m0 * (2 ^ sh * 2 ^ 64 * (2 ^ 64 * Dn)) + 2 * (2 ^ 64 * Dn) := by ring
  have hlow : m0 * (2 ^ sh * 2 ^ 64 * (2 ^ 64 * Dn)) < N + 2 ^ 64 * Dn := by
    calc m0 * (2 ^ sh * 2 ^ 64 * (2 ^ 64 * Dn)) = (2 ^ sh * m0 * 2 ^ 64) * (2 ^ 64 * Dn) := by ring
      _ ≤ (2 ^ sh * m0 * 2 ^ 64 + lo) * (2 ^ 64 * Dn) := Nat.mul_le_mul_right _ (Nat.le_add_right _ _)
      _ < N + 2 ^ 64 * Dn := hgt
  obtain ⟨n', hn'⟩ := hdiv
  obtain ⟨t', ht'⟩ := hdvdA
  have hup' : 2 ^ 129 * n' < 2 ^ 129 * t' + 2 * (2 ^ 64 * Dn) := by rw [← hn', ← ht']; exact hup
  have hlow' : 2 ^ 129 * t' < 2 ^ 129 * n' + 2 ^ 64 * Dn := by rw [← hn', ← ht']; exact hlow
  have hnt : n' = t' := by
    generalize 2 ^ 129 = G at hup' hlow' hsmall
    generalize 2 ^ 64 * Dn = W at hup' hlow' hsmall
    rcases Nat.lt_trichotomy n' t' with h | h | h
    · have := Nat.mul_le_mul_left G (show n' + 1 ≤ t' from h)
      rw [Nat.mul_add, Nat.mul_one] at this
      generalize G * n' = U at *
      generalize G * t' = V at *
      omega
    · exact h
    · have := Nat.mul_le_mul_left G (show t' + 1 ≤ n' from h)
      rw [Nat.mul_add, Nat.mul_one] at this
      generalize G * n' = U at *
      generalize G * t' = V at *
      omega
  have hNT : N = m0 * (2 ^ sh * 2 ^ 64 * (2 ^ 64 * Dn)) := by rw [ht', hn', hnt]
  rw [hNT]
  exact Nat.mul_mod_left _ _

/-- a number not divisible by `2^k` is `2^v·odd` with `v < k` -/
theorem odd_part_of (k : Nat) : ∀ n, n % 2 ^ k ≠ 0 → ∃ v h, v < k ∧ n = 2 ^ v * h ∧ h % 2 = 1 := by
  induction k with
  | zero => intro n h; simp [Nat.mod_one] at h
  | succ k ih =>
    intro n h
    by_cases hodd : n % 2 = 1
    · exact ⟨0, n, by omega, by simp, hodd⟩
    · have hev : n % 2 = 0 := by omega
      have hn : n = 2 * (n / 2) := by omega
      have : n / 2 % 2 ^ k ≠ 0 := by
        intro hc
        apply h
        rw [hn, Nat.pow_succ', Nat.mul_mod_mul_left, hc]
      obtain ⟨v, h', hv, e, ho⟩ := ih (n / 2) this
      exact ⟨v + 1, h', by omega, by rw [hn, e, Nat.pow_succ]; ring, ho⟩

/-- `wn·a ≡ 0 (mod 2^(64+sh))` has no solution `0 < wn < 2^64` when `a` has at most `sh` trailing zeros -/
theorem no_zero_residue (a sh wn : Nat) (ha : a % 2 ^ (sh + 1) ≠ 0) (hwn0 : 0 < wn) (hwn : wn < 2 ^ 64) :
    wn * a % 2 ^ (64 + sh) ≠ 0 := by
  intro h
  obtain ⟨v, h', hv, e, ho⟩ := odd_part_of (sh + 1) a ha
  have hdvd : 2 ^ (64 + sh) ∣ wn * a := Nat.dvd_of_mod_eq_zero h
  have hsplit : 2 ^ (64 + sh) = 2 ^ v * 2 ^ (64 + sh - v) := by
    rw [← Nat.pow_add]; refine two_pow_congr ?_; omega
  rw [hsplit, e, show wn * (2 ^ v * h') = 2 ^ v * (wn * h') by ring] at hdvd
  have h2 : 2 ^ (64 + sh - v) ∣ wn * h' := Nat.dvd_of_mul_dvd_mul_left (Nat.two_pow_pos v) hdvd
  have hc2 : Nat.Coprime 2 h' := by
    unfold Nat.Coprime; rw [Nat.gcd_rec, ho]; rfl
  have hcop : Nat.Coprime (2 ^ (64 + sh - v)) h' := Nat.Coprime.pow_left _ hc2
  have h3 : 2 ^ (64 + sh - v) ∣ wn := hcop.dvd_of_dvd_mul_right h2
  have h4 : 2 ^ (64 + sh - v) ≤ wn := Nat.le_of_dvd hwn0 h3
  have h5 : 2 ^ 64 ≤ 2 ^ (64 + sh - v) := Nat.pow_le_pow_right (by decide) (by omega)
  omega

theorem no_one_residue_even (a k wn : Nat) (ha : a % 2 = 0) (hk : 1 ≤ k) : wn * a % 2 ^ k ≠ 1 := by
  intro h
  have hdvd : 2 ∣ 2 ^ k := by
    obtain ⟨k', rfl⟩ : ∃ k', k = k' + 1 := ⟨k - 1, by omega⟩
    exact ⟨2 ^ k', by rw [Nat.pow_succ']⟩
  have h1 : wn * a % 2 ^ k % 2 = wn * a % 2 := Nat.mod_mod_of_dvd _ hdvd
  have h2 : wn * a % 2 = 0 := by rw [Nat.mul_mod, ha, Nat.mul_zero]
  omega

theorem no_one_residue_odd (a G x wn : Nat) (hx : a * x % G = 1) (hwn : wn < G) (hne : wn ≠ x % G) :
    wn * a % G ≠ 1 := by
  intro h
  apply hne
  have : wn % G = x % G := by
    calc wn % G = (wn * (a * x % G)) % G := by rw [hx, Nat.mul_one]
      _ = (wn * (a * x)) % G := Nat.mul_mod_mod _ _ _
      _ = ((wn * a) * x) % G := by rw [Nat.mul_assoc]
      _ = ((wn * a) % G * x) % G := (Nat.mod_mul_mod _ _ _).symm
      _ = x % G := by rw [h, Nat.one_mul]
  rw [← this, Nat.mod_eq_of_lt hwn]

/-- `2`-adic inverse of an odd `a` modulo `2^128` by Newton iteration (only used as a certificate: the check
`a·x ≡ 1` is evaluated) -/
def inv2 (a : Nat) : Nat :=
  (List.range 7).foldl (fun x _ => x * (2 ^ 128 + 2 - a * x % 2 ^ 128) % 2 ^ 128) 1

/-- the inverse certificate for modulus `2^(64+sh)`: the only residue `wn` with `wn·a ≡ 1` is not a normalised `u64` -/
def invOutside (a sh : Nat) : Bool :=
  (a * inv2 a % 2 ^ (64 + sh) == 1) &&
  (decide (inv2 a % 2 ^ (64 + sh) < 2 ^ 63) || decide (2 ^ 64 ≤ inv2 a % 2 ^ (64 + sh)))

/-- **per-row tie check** (`1 ≤ e ≤` the round-to-even window): without the second multiplication the first product
`wn·hi5` cannot look like a tie — `wn·hi5 ≡ 0, 1 (mod 2^(64+sh))`, `sh ∈ {62 − p, 63 − p}`, has no normalised solution:
`hi5` has at most `62 − p` trailing zeros, and it is even or its inverse lies outside `[2^63, 2^64)`. -/
def tieRowOk (p e : Nat) : Bool :=
  match Gen.Lemire.powerOfFive128[342 - e]? with
  | some (hi5, _) =>
    decide (hi5 % 2 ^ (63 - p) ≠ 0) &&
    (decide (hi5 % 2 = 0) || (invOutside hi5 (62 - p) && invOutside hi5 (63 - p)))
  | none => false

theorem tieRows_f64 : ∀ e, 1 ≤ e → e ≤ 4 → tieRowOk 53 e = true := by decide +kernel
theorem tieRows_f32 : ∀ e, 1 ≤ e → e ≤ 17 → tieRowOk 24 e = true := by decide +kernel

theorem no_spurious_tie {p e : Nat} (hok : tieRowOk p e = true) (hp61 : p ≤ 61) {hi5 lo5 : Nat}
    (hrow : Gen.Lemire.powerOfFive128[342 - e]? = some (hi5, lo5)) (sh : Nat) (hsh : sh = 62 - p ∨ sh = 63 - p)
    (wn : Nat) (hwn1 : 2 ^ 63 ≤ wn) (hwn2 : wn < 2 ^ 64) : 2 ≤ wn * hi5 % 2 ^ (64 + sh) := by
  unfold tieRowOk at hok
  rw [hrow] at hok
  simp only [Bool.and_eq_true, Bool.or_eq_true, decide_eq_true_eq] at hok
  obtain ⟨htz, hcase⟩ := hok
  have hwn0 : 0 < wn := by have := Nat.two_pow_pos 63; omega
  have hne0 : wn * hi5 % 2 ^ (64 + sh) ≠ 0 := by
    apply no_zero_residue hi5 sh wn ?_ hwn0 hwn2
    intro hc
    apply htz
    have hdvd : 2 ^ (63 - p) ∣ 2 ^ (sh + 1) := Nat.pow_dvd_pow 2 (by omega)
    rw [← Nat.mod_mod_of_dvd hi5 hdvd, hc, Nat.zero_mod]
  have hne1 : wn * hi5 % 2 ^ (64 + sh) ≠ 1 := by
    rcases hcase with hev | ⟨h1, h2⟩
    · exact no_one_residue_even hi5 (64 + sh) wn hev (by omega)
    · have hio : invOutside hi5 sh = true := by
        rcases hsh with h | h
        · rw [h]; exact h1
        · rw [h]; exact h2
      clear h1 h2
      unfold invOutside at hio
      generalize inv2 hi5 = x at hio
      simp only [Bool.and_eq_true, Bool.or_eq_true, beq_iff_eq, decide_eq_true_eq] at hio
      obtain ⟨hx, hout⟩ := hio
      apply no_one_residue_odd hi5 (2 ^ (64 + sh)) x wn hx
      · calc wn < 2 ^ 64 := hwn2
          _ ≤ 2 ^ (64 + sh) := Nat.pow_le_pow_right (by decide) (by omega)
      · omega
  omega

/-- an exact tie forces `5^e·m0 ≤ wn` for the odd quotient `m0` -/
theorem window_of_tie (e wn s m0 t : Nat) (hm0 : m0 % 2 = 1) (hwn0 : 0 < wn)
    (h : wn * 2 ^ s = m0 * (2 ^ t * 5 ^ e)) : 5 ^ e * m0 ≤ wn := by
  have h5pos : 0 < 5 ^ e := Nat.pow_pos (by decide)
  have hcop : Nat.Coprime (5 ^ e) (2 ^ s) := Nat.Coprime.pow e s (by decide)
  have hdvd : 5 ^ e ∣ wn * 2 ^ s := ⟨m0 * 2 ^ t, by rw [h]; ring⟩
  obtain ⟨j, hj⟩ := hcop.dvd_of_dvd_mul_right hdvd
  have hj0 : 0 < j := by
    rcases Nat.eq_zero_or_pos j with h0 | h0
    · rw [h0, Nat.mul_zero] at hj; omega
    · exact h0
  have h2 : 5 ^ e * (j * 2 ^ s) = 5 ^ e * (m0 * 2 ^ t) := by
    calc 5 ^ e * (j * 2 ^ s) = (5 ^ e * j) * 2 ^ s := by ring
      _ = wn * 2 ^ s := by rw [hj]
      _ = m0 * (2 ^ t * 5 ^ e) := h
      _ = 5 ^ e * (m0 * 2 ^ t) := by ring
  have h3 : j * 2 ^ s = m0 * 2 ^ t := Nat.eq_of_mul_eq_mul_left h5pos h2
  have hc2 : Nat.Coprime m0 2 := by
    unfold Nat.Coprime; rw [Nat.gcd_comm, Nat.gcd_rec, hm0]; rfl
  have hcm : Nat.Coprime m0 (2 ^ s) := Nat.Coprime.pow_right _ hc2
  have hd2 : m0 ∣ j * 2 ^ s := ⟨2 ^ t, h3⟩
  have h4 : m0 ≤ j := Nat.le_of_dvd hj0 (hcm.dvd_of_dvd_mul_right hd2)
  rw [hj]
  exact Nat.mul_le_mul_left _ h4

theorem m0_ge {p : Nat} (hp61 : p ≤ 61) (hi u sh : Nat) (hhi_lt : hi < 2 ^ 64) (hhi_ge : 2 ^ 62 ≤ hi)
    (hu : hi / 2 ^ 63 = u) (hshv : u + 62 - p = sh) : 2 ^ p ≤ hi / 2 ^ sh ∧ u ≤ 1 := by
  have hu01 : u ≤ 1 := by
    rw [← hu]
    have : hi / 2 ^ 63 < 2 := by
      rw [Nat.div_lt_iff_lt_mul (Nat.two_pow_pos _)]; omega
    omega
  refine ⟨?_, hu01⟩
  rw [Nat.le_div_iff_mul_le (Nat.two_pow_pos _), ← Nat.pow_add]
  by_cases h1 : u = 1
  · have : 2 ^ 63 ≤ hi := by
      apply Classical.byContradiction; intro hc
      have : hi / 2 ^ 63 = 0 := Nat.div_eq_of_lt (by omega)
      omega
    rw [show p + sh = 63 by omega]; exact this
  · rw [show p + sh = 62 by omega]; exact hhi_ge

/-- **`compute_float` on the reciprocal rows rounded up**, `−27 ≤ −e ≤ −1`: it answers with a valid float, and that
float is `roundNE (w / 10^e)`. `hwin`: the round-to-even window is where `5^e·2^p` still fits a `u64`;
`htc`: the per-row tie check. -/
theorem computeFloat_neg_small {F p eb sm lg rlo rhi} (LL : LemLayout F p eb sm lg rlo rhi)
    (hwin : 2 ^ 64 ≤ 5 ^ (rlo + 1) * 2 ^ p) (htc : ∀ e, 1 ≤ e → e ≤ rlo → tieRowOk p e = true)
    (hbias : 91 ≤ 2 ^ (eb - 1) - 1)
    (e : Nat) (h1 : 1 ≤ e) (h27 : e ≤ 27) (hesm : e ≤ sm) (w : Nat) (hw0 : w ≠ 0) (hw : w < 2 ^ 64) :
    ∃ fp, computeFloat F (-(e : Int)) w false = .ok fp ∧ 0 ≤ fp.exp ∧
      extendedToFloat F fp = roundNE F.fmt w (10 ^ e) := by
  have lay := LL.lay
  have hf := lay.wf
  have hp := lay.hp; have hp64 := lay.hp64; have heb := lay.heb
  have hms := lay.msNat
  have hfp : F.fmt.p = p := by rw [lay.fmt]
  have hp61 : p ≤ 61 := by
    have h1 := lay.hpb
    have : eb ≠ 2 := by intro h; subst h; omega
    omega
  obtain ⟨hi5, lo5, hrow, hhi5, hlo5, hhi5n, hb3, hb63, h5lt, hTgt, hTle, hpow⟩ := rows_neg_small e h1 h27
  obtain ⟨hlz, hwn1, hwn2, hshl⟩ := clz_norm hw0 hw
  have hidx : (-(e : Int) + 342).toNat = 342 - e := by omega
  have hprec : F.ms + litPrecisionExtra = p + 2 := by rw [hms]; show p - 1 + 3 = p + 2; omega
  obtain ⟨lo, hi, hcpa, hlo, hhi, hzlow, hzup⟩ := cpa_bounds (-(e : Int)) (by omega) (by omega) hi5 lo5
    (by rw [hidx]; exact hrow) hhi5 hlo5 (w * 2 ^ clz64 w) (F.ms + litPrecisionExtra) (by rw [hprec]; omega) hwn2
  unfold computeFloat
  rw [if_neg (by intro h; rcases h with h | h; exact hw0 h; rw [LL.smallest] at h; omega),
    if_neg (by rw [LL.largest]; omega)]
  simp only [hshl, hcpa]
  generalize hlzv : clz64 w = lz at *
  generalize hb5 : bitlen (5 ^ e) = b at *
  have hsafe : (decide (litSafeLo ≤ -(e : Int)) && decide (-(e : Int) ≤ litSafeHi)) = true := by
    have h1 : decide (litSafeLo ≤ -(e : Int)) = true := by
      unfold litSafeLo; simp only [decide_eq_true_eq]; omega
    have h2 : decide (-(e : Int) ≤ litSafeHi) = true := by
      unfold litSafeHi; simp only [decide_eq_true_eq]; omega
    rw [h1, h2]; rfl
  rw [hsafe]
  simp only [Bool.not_true, Bool.and_false, Bool.false_eq_true, if_false]
  have hwn0 : 0 < w * 2 ^ lz := by have := Nat.two_pow_pos 63; omega
  have h5pos : 0 < 5 ^ e := Nat.pow_pos (by decide)
  have hNlt : w * 2 ^ lz * 2 ^ (b + 127) < w * 2 ^ lz * (hi5 * 2 ^ 64 + lo5) * 5 ^ e := by
    rw [Nat.mul_assoc (w * 2 ^ lz)]; exact Nat.mul_lt_mul_of_pos_left hTgt hwn0
  have hNge : w * 2 ^ lz * (hi5 * 2 ^ 64 + lo5) * 5 ^ e ≤ w * 2 ^ lz * 2 ^ (b + 127) + w * 2 ^ lz * 5 ^ e := by
    rw [Nat.mul_assoc (w * 2 ^ lz), ← Nat.mul_add]; exact Nat.mul_le_mul_left _ hTle
  have hdiv : 2 ^ 129 ∣ w * 2 ^ lz * 2 ^ (b + 127) :=
    Dvd.dvd.mul_left (Nat.pow_dvd_pow 2 (by omega)) _
  generalize hu : hi / 2 ^ 63 = u
  generalize hshv : u + 62 - p = sh
  have hmb : 64 - (F.ms + litPrecisionExtra) = 62 - p := by rw [hprec]; omega
  rw [hmb] at hzup
  obtain ⟨hhi62, hquot, hgt⟩ := upper_bits_upper hp61 (w * 2 ^ lz) hi5 lo5 lo hi (w * 2 ^ lz * 2 ^ (b + 127)) (5 ^ e)
    hwn1 hwn2 hhi5n hlo hhi hzlow hzup h5pos h5lt hNlt hNge hdiv u sh hu hshv
  obtain ⟨hm0lo, hu01⟩ := m0_ge hp61 hi u sh hhi hhi62 hu hshv
  have hB := Nat.two_pow_pos 64
  have hDpos : 0 < 2 ^ sh * 2 ^ 64 * (2 ^ 64 * 5 ^ e) :=
    Nat.mul_pos (Nat.mul_pos (Nat.two_pow_pos _) hB) (Nat.mul_pos hB h5pos)
  have hNw : w * 2 ^ lz * 2 ^ (b + 127) = w * 2 ^ (lz + (b + 127)) := by
    rw [Nat.pow_add 2 lz, Nat.mul_assoc]
  have hL := L_eq lay
  have hL127 := lay.hL127
  have hpwv : power (wrapI32 (-(e : Int))) + (u : Int) - (lz : Int) - F.C.minimumExponent =
      (63 : Int) - e - b + u - lz + ((2 ^ (eb - 1) - 1 : Nat) : Int) := by
    rw [hpow, LL.minimum]; omega
  obtain ⟨En, hEn⟩ : ∃ En : Nat, (63 : Int) - e - b + u - lz + ((2 ^ (eb - 1) - 1 : Nat) : Int) = ((En + 1 : Nat) : Int) :=
    ⟨((63 : Int) - e - b + u - lz + ((2 ^ (eb - 1) - 1 : Nat) : Int) - 1).toNat, by omega⟩
  have hdmhi := Nat.div_add_mod hi (2 ^ sh)
  have hshl2 : shl64 (hi / 2 ^ sh) sh = hi / 2 ^ sh * 2 ^ sh := by
    unfold shl64
    apply Nat.mod_eq_of_lt
    have := Nat.div_mul_le_self hi (2 ^ sh)
    omega
  have hDz : 0 < 2 ^ 64 * 5 ^ e := Nat.mul_pos hB h5pos
  have htie : ((decide (lo ≤ litTieLo) && decide (-(e : Int) ≥ F.C.minExponentRoundToEven) &&
      decide (-(e : Int) ≤ F.C.maxExponentRoundToEven) &&
      (hi / 2 ^ sh % (litTieMask + 1) == litTieVal) &&
      (shl64 (hi / 2 ^ sh) sh == hi)) = true) ↔
      (w * 2 ^ lz * 2 ^ (b + 127) % (2 ^ sh * 2 ^ 64 * (2 ^ 64 * 5 ^ e)) = 0 ∧
        w * 2 ^ lz * 2 ^ (b + 127) / (2 ^ sh * 2 ^ 64 * (2 ^ 64 * 5 ^ e)) % 4 = 1) := by
    rw [hshl2, LL.minRTE, LL.maxRTE, hquot]
    unfold litTieLo litTieMask litTieVal
    simp only [Bool.and_eq_true, decide_eq_true_eq, beq_iff_eq]
    constructor
    · rintro ⟨⟨⟨⟨hl1, hwn⟩, _⟩, hm4⟩, hsl⟩
      refine ⟨?_, hm4⟩
      have hr0 : hi % 2 ^ sh = 0 := by rw [Nat.mul_comm] at hdmhi; omega
      rcases hzup with hX | ⟨_, hzeq, _⟩
      · exact exact_of_tie_pattern hi lo sh _ _ (5 ^ e) (by omega) h5pos h5lt hl1 hr0 hX hNlt hgt hdiv
      · exfalso
        have he : e ≤ rlo := by omega
        have h2 := no_spurious_tie (htc e h1 he) hp61 hrow sh (by omega) (w * 2 ^ lz) hwn1 hwn2
        rw [← hzeq] at h2
        have hz : hi * 2 ^ 64 + lo = 2 ^ (64 + sh) * (hi / 2 ^ sh) + lo := by
          have : hi * 2 ^ 64 = 2 ^ (64 + sh) * (hi / 2 ^ sh) := by
            conv_lhs => rw [← hsl]
            rw [Nat.pow_add]; ring
          rw [this]
        rw [hz, Nat.mul_add_mod] at h2
        have hlt : lo < 2 ^ (64 + sh) :=
          Nat.lt_of_lt_of_le hlo (Nat.pow_le_pow_right (by decide) (by omega))
        rw [Nat.mod_eq_of_lt hlt] at h2
        omega
    · rintro ⟨hmod0, hm4⟩
      obtain ⟨hl0, hr0⟩ := tie_pattern_of_exact hi lo sh _ (2 ^ 64 * 5 ^ e) hDz hquot hgt hmod0
      have hdmN := Nat.div_add_mod (w * 2 ^ lz * 2 ^ (b + 127)) (2 ^ sh * 2 ^ 64 * (2 ^ 64 * 5 ^ e))
      rw [hmod0, Nat.add_zero, hquot] at hdmN
      have hodd : hi / 2 ^ sh % 2 = 1 := by omega
      have hwle := window_of_tie e (w * 2 ^ lz) (b + 127) (hi / 2 ^ sh) (sh + 64 + 64) hodd hwn0 (by
        rw [← hdmN, Nat.pow_add, Nat.pow_add]; ring)
      have he : e ≤ rlo := by
        apply Classical.byContradiction; intro hc
        have h5 : 5 ^ (rlo + 1) ≤ 5 ^ e := Nat.pow_le_pow_right (by decide) (by omega)
        have h6 : 5 ^ (rlo + 1) * 2 ^ p ≤ 5 ^ e * (hi / 2 ^ sh) := Nat.mul_le_mul h5 hm0lo
        omega
      refine ⟨⟨⟨⟨by omega, by omega⟩, by omega⟩, hm4⟩, ?_⟩
      rw [Nat.mul_comm] at hdmhi; omega
  obtain ⟨fp, hfp1, hfp2, hfp3, hq0lo, hq0hi, _⟩ := cfRound_of_quot LL (-(e : Int)) lo hi lz hhi hhi62 u sh
    hu hshv (w * 2 ^ lz * 2 ^ (b + 127)) (2 ^ sh * 2 ^ 64 * (2 ^ 64 * 5 ^ e)) En hDpos hquot.symm htie
    (by rw [hpwv, hEn])
  refine ⟨fp, hfp1, hfp2, ?_⟩
  rw [hfp3, dpow_normal, hNw]
  rw [dpow_normal, hNw] at hq0lo hq0hi
  symm
  apply roundNE_neg_link hf w e En (lz + (b + 127)) (sh + 129)
    (en_neg_normal e b u lz (2 ^ (eb - 1) - 1) sh p (L F.fmt) En hshv hL hu01 hp hp61 hL127 hEn)
  · intro _; rw [hfp]; exact hq0lo
  · rw [hfp]; exact hq0hi
  · intro _
    rw [hfp, ← hNw, ← dpow_normal]
    have hdm := Nat.div_add_mod (w * 2 ^ lz * 2 ^ (b + 127)) (2 ^ sh * 2 ^ 64 * (2 ^ 64 * 5 ^ e))
    have hTT : 2 ^ p = 2 * 2 ^ (p - 1) := two_pow_pred (by omega)
    calc 2 ^ sh * 2 ^ 64 * (2 ^ 64 * 5 ^ e) * 2 * 2 ^ (p - 1)
        = 2 ^ sh * 2 ^ 64 * (2 ^ 64 * 5 ^ e) * 2 ^ p := by rw [hTT]; ring
      _ ≤ 2 ^ sh * 2 ^ 64 * (2 ^ 64 * 5 ^ e) *
          (w * 2 ^ lz * 2 ^ (b + 127) / (2 ^ sh * 2 ^ 64 * (2 ^ 64 * 5 ^ e))) :=
        Nat.mul_le_mul_left _ (by rw [hquot]; exact hm0lo)
      _ ≤ w * 2 ^ lz * 2 ^ (b + 127) := by omega

end LexVerif.Proof.Lemire
