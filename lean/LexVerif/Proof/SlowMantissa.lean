import LexVerif.Proof.SlowBigint
import LexVerif.Proof.Numeral
/-!
# Proof.SlowMantissa — `parse_mantissa` accumulates exactly the digit string

`Took`: a run of the inner loops (`try_parse_8digits!`, the single-digit `while`) moves `m` digits from the
bytes into `value`; `digitsLoop_spec`: one component (`'integer:` / `'fraction:` loop) either exhausts its bytes
or stops at `max_digits` with the temporaries flushed; `parseMantissa_value`: the result is the value of the
first `max_digits` significant digits and their count, or — when a **non-zero** digit was cut — that value times
the radix plus one, with one more digit counted (`round_up_truncated!`); a cut tail of zeros changes nothing.
-/
namespace LexVerif.Proof.Slow
open LexVerif.Spec LexVerif.Proof.Tables LexVerif.Model LexVerif.Model.Slow

/-- digit values of bytes -/
def dv (radix : Nat) (bs : List Nat) : List Nat := bs.map fun c => Binary.digitVal c radix

/-- every byte is a digit of the radix (what `parse_number` validated) -/
def ValidDigits (radix : Nat) (bs : List Nat) : Prop := ∀ c ∈ bs, Binary.digitVal c radix < radix

theorem foldl_horner (r : Nat) : ∀ (ds : List Nat) (acc : Nat),
    ds.foldl (fun a d => a * r + d) acc = acc * r ^ ds.length + ofDigits r ds
  | [], acc => by simp [ofDigits]
  | d :: ds, acc => by
    have h1 := foldl_horner r ds (acc * r + d)
    have h2 := foldl_horner r ds (0 * r + d)
    simp only [List.foldl_cons, List.length_cons, ofDigits] at *
    rw [h1, h2, Nat.pow_succ]
    ring

theorem ofDigits_append_pow (r : Nat) (a b : List Nat) :
    ofDigits r (a ++ b) = ofDigits r a * r ^ b.length + ofDigits r b := by
  unfold ofDigits; rw [List.foldl_append, foldl_horner]; rfl

theorem ofDigits_cons (r d : Nat) (ds : List Nat) : ofDigits r (d :: ds) = d * r ^ ds.length + ofDigits r ds := by
  have := ofDigits_append_pow r [d] ds
  simpa [ofDigits] using this

theorem ofDigits_lt {r : Nat} : ∀ (ds : List Nat), (∀ d ∈ ds, d < r) → ofDigits r ds < r ^ ds.length
  | [], _ => by simp [ofDigits]
  | d :: ds, h => by
    rw [ofDigits_cons, List.length_cons, Nat.pow_succ]
    have h1 := ofDigits_lt ds (fun x hx => h x (List.mem_cons_of_mem _ hx))
    have h2 : d < r := h d (List.mem_cons_self ..)
    have : (d + 1) * r ^ ds.length ≤ r * r ^ ds.length := Nat.mul_le_mul_right _ h2
    rw [Nat.add_mul, Nat.one_mul] at this
    rw [Nat.mul_comm (r ^ ds.length) r]
    omega

theorem dv_lt {radix : Nat} {bs : List Nat} (h : ValidDigits radix bs) : ∀ d ∈ dv radix bs, d < radix := by
  intro d hd
  unfold dv at hd
  obtain ⟨c, hc, rfl⟩ := List.mem_map.mp hd
  exact h c hc

theorem valid_take {radix : Nat} {bs : List Nat} (h : ValidDigits radix bs) (n : Nat) : ValidDigits radix (bs.take n) :=
  fun c hc => h c (List.mem_of_mem_take hc)
theorem valid_drop {radix : Nat} {bs : List Nat} (h : ValidDigits radix bs) (n : Nat) : ValidDigits radix (bs.drop n) :=
  fun c hc => h c (List.mem_of_mem_drop hc)

/-- `m` digits moved from the bytes into `value` -/
structure Took (radix : Nat) (bs : List Nat) (st : PM) (m : Nat) (bs' : List Nat) (st' : PM) : Prop where
  le : m ≤ bs.length
  rest : bs' = bs.drop m
  result : st'.result = st.result
  counter : st'.counter = st.counter + m
  count : st'.count = st.count + m
  value : st'.value = st.value * radix ^ m + ofDigits radix (dv radix (bs.take m))

theorem Took.refl (radix : Nat) (bs : List Nat) (st : PM) : Took radix bs st 0 bs st :=
  ⟨Nat.zero_le _, rfl, rfl, rfl, rfl, by simp [dv, ofDigits]⟩

theorem Took.trans {radix : Nat} {bs bs1 bs2 : List Nat} {st st1 st2 : PM} {m1 m2 : Nat}
    (a : Took radix bs st m1 bs1 st1) (b : Took radix bs1 st1 m2 bs2 st2) :
    Took radix bs st (m1 + m2) bs2 st2 := by
  have hle2 : m2 ≤ bs.length - m1 := by have := b.le; rw [a.rest, List.length_drop] at this; exact this
  refine ⟨by have := a.le; omega, by rw [b.rest, a.rest, List.drop_drop], by rw [b.result, a.result],
    by rw [b.counter, a.counter]; omega, by rw [b.count, a.count]; omega, ?_⟩
  rw [b.value, a.value, a.rest]
  have e : bs.take (m1 + m2) = bs.take m1 ++ (bs.drop m1).take m2 := List.take_add
  rw [e]
  unfold dv
  rw [List.map_append, ofDigits_append_pow, List.length_map, List.length_take, List.length_drop,
    Nat.min_eq_left hle2, Nat.pow_add]
  ring

theorem ofDigits_take_add (radix : Nat) (bs : List Nat) (m1 m2 : Nat) (h : m2 ≤ bs.length - m1) :
    ofDigits radix (dv radix (bs.take (m1 + m2))) =
      ofDigits radix (dv radix (bs.take m1)) * radix ^ m2 + ofDigits radix (dv radix ((bs.drop m1).take m2)) := by
  have e : bs.take (m1 + m2) = bs.take m1 ++ (bs.drop m1).take m2 := List.take_add
  rw [e]
  unfold dv
  rw [List.map_append, ofDigits_append_pow, List.length_map, List.length_take, List.length_drop,
    Nat.min_eq_left h]

/-- what `parse_mantissa` needs of the tables for one build and radix -/
structure MantOk (E : Env) (radix : Nat) : Prop where
  radix_pos : 0 < radix
  step_pos : 0 < E.S.u64PowerLimit radix
  step_lt : radix ^ E.S.u64PowerLimit radix < 2 ^ 64
  intpow : ∀ e, e ≤ E.S.u64PowerLimit radix → intPowFastPath E e radix = some (radix ^ e)
  multi : multidigit E radix = true → radix ≤ 10

theorem wrap64_id {x : Nat} (h : x < 2 ^ 64) : wrap64 x = x := by unfold wrap64; exact Nat.mod_eq_of_lt h

theorem pow_le_step {radix a b : Nat} (hr : 0 < radix) (h : a ≤ b) : radix ^ a ≤ radix ^ b :=
  Nat.pow_le_pow_right hr h

/-- the single-digit loop -/
theorem singleLoop_spec {radix step maxDigits : Nat} (hr : 0 < radix) (hstep : radix ^ step < 2 ^ 64) :
    ∀ (bs : List Nat) (st : PM), ValidDigits radix bs → st.counter ≤ step → st.value < radix ^ st.counter →
      ∃ m, Took radix bs st m (singleLoop radix step maxDigits bs st).1 (singleLoop radix step maxDigits bs st).2.1 ∧
        m = min bs.length (min (step - st.counter) (maxDigits - st.count)) ∧
        ((singleLoop radix step maxDigits bs st).2.2 = true ↔
          (m = bs.length ∧ st.counter + m < step ∧ st.count + m < maxDigits))
  | [], st, _, _, _ => by
    refine ⟨0, ?_, by simp, ?_⟩
    · unfold singleLoop; exact Took.refl _ _ _
    · unfold singleLoop; simp
  | c :: cs, st, hv, hc, hval => by
    unfold singleLoop
    by_cases hcond : st.counter < step ∧ st.count < maxDigits
    · rw [if_pos hcond]
      have hd : Binary.digitVal c radix < radix := hv c (List.mem_cons_self ..)
      have hb : st.value * radix + Binary.digitVal c radix < radix ^ (st.counter + 1) := by
        rw [Nat.pow_succ]
        have : (st.value + 1) * radix ≤ radix ^ st.counter * radix := Nat.mul_le_mul_right _ hval
        rw [Nat.add_mul, Nat.one_mul] at this
        omega
      have hb64 : st.value * radix + Binary.digitVal c radix < 2 ^ 64 :=
        Nat.lt_of_lt_of_le hb (Nat.le_trans (pow_le_step hr (by omega)) (Nat.le_of_lt hstep))
      have hw : wrap64 (wrap64 (st.value * radix) + Binary.digitVal c radix) =
          st.value * radix + Binary.digitVal c radix := by
        rw [wrap64_id (Nat.lt_of_le_of_lt (Nat.le_add_right _ _) hb64), wrap64_id hb64]
      rw [hw]
      obtain ⟨m, tk, hm, hex⟩ := singleLoop_spec hr hstep cs
        { st with value := st.value * radix + Binary.digitVal c radix, counter := st.counter + 1,
                  count := st.count + 1 }
        (fun x hx => hv x (List.mem_cons_of_mem _ hx)) (by simp; omega) (by simpa using hb)
      have one : Took radix (c :: cs) st 1 cs
          { st with value := st.value * radix + Binary.digitVal c radix, counter := st.counter + 1,
                    count := st.count + 1 } :=
        ⟨by simp, by simp, rfl, rfl, rfl, by simp [dv, ofDigits]⟩
      refine ⟨1 + m, one.trans tk, ?_, ?_⟩
      · simp only [List.length_cons] at hm ⊢; omega
      · rw [hex]; simp only [List.length_cons]; omega
    · rw [if_neg hcond]
      refine ⟨0, Took.refl _ _ _, ?_, ?_⟩
      · simp only [List.length_cons]; omega
      · simp only [List.length_cons, Bool.false_eq_true, false_iff]; omega

theorem parse8_some {radix : Nat} (h10 : radix ≤ 10) {bs : List Nat} (hv : ValidDigits radix bs) {v : Nat}
    (h : Binary.parse8 radix bs = some v) : 8 ≤ bs.length ∧ v = ofDigits radix (dv radix (bs.take 8)) := by
  unfold Binary.parse8 at h
  split at h
  · exact absurd h (by simp)
  · rename_i hl
    dsimp only at h
    split at h
    · injection h with h
      refine ⟨by omega, ?_⟩
      rw [← h]
      unfold ofDigits dv Binary.digitVal
      simp only [if_pos h10]
    · exact absurd h (by simp)

/-- the 8-digit loop -/
theorem parse8Loop_spec {radix step maxDigits : Nat} (hr : 0 < radix) (h10 : radix ≤ 10)
    (hstep : radix ^ step < 2 ^ 64) :
    ∀ (fuel : Nat) (bs : List Nat) (st : PM), ValidDigits radix bs → st.counter ≤ step →
      st.value < radix ^ st.counter →
      ∃ m, Took radix bs st m (parse8Loop radix step maxDigits fuel bs st).1
          (parse8Loop radix step maxDigits fuel bs st).2 ∧
        st.counter + m ≤ step ∧ (m ≠ 0 → st.count + m ≤ maxDigits)
  | 0, bs, st, _, hc, _ => ⟨0, by unfold parse8Loop; exact Took.refl _ _ _, by omega, by simp⟩
  | fuel + 1, bs, st, hv, hc, hval => by
    unfold parse8Loop
    by_cases hcond : step - st.counter ≥ 8 ∧ maxDigits - st.count ≥ 8
    · rw [if_pos hcond]
      cases hp : Binary.parse8 radix bs with
      | none => exact ⟨0, Took.refl _ _ _, by omega, by simp⟩
      | some v =>
        obtain ⟨hl, hvv⟩ := parse8_some h10 hv hp
        have hlt : ofDigits radix (dv radix (bs.take 8)) < radix ^ 8 := by
          have := ofDigits_lt (dv radix (bs.take 8)) (dv_lt (valid_take hv 8))
          rwa [show (dv radix (bs.take 8)).length = 8 by simp [dv, List.length_take]; omega] at this
        have hb : st.value * radix ^ 8 + v < radix ^ (st.counter + 8) := by
          rw [Nat.pow_add, hvv]
          have : (st.value + 1) * radix ^ 8 ≤ radix ^ st.counter * radix ^ 8 := Nat.mul_le_mul_right _ hval
          rw [Nat.add_mul, Nat.one_mul] at this
          omega
        have hle : radix ^ (st.counter + 8) ≤ radix ^ step := pow_le_step hr (by omega)
        have h8 : radix ^ 8 < 2 ^ 64 := Nat.lt_of_le_of_lt (pow_le_step hr (by omega)) hstep
        have hb64 : st.value * radix ^ 8 + v < 2 ^ 64 :=
          Nat.lt_of_lt_of_le hb (Nat.le_trans hle (Nat.le_of_lt hstep))
        have hw : wrap64 (wrap64 (st.value * wrap64 (radix ^ 8)) + v) = st.value * radix ^ 8 + v := by
          rw [wrap64_id h8, wrap64_id (Nat.lt_of_le_of_lt (Nat.le_add_right _ _) hb64), wrap64_id hb64]
        simp only [hw]
        obtain ⟨m, tk, b1, b2⟩ := parse8Loop_spec hr h10 hstep fuel (bs.drop 8)
          { st with value := st.value * radix ^ 8 + v, counter := st.counter + 8, count := st.count + 8 }
          (valid_drop hv 8) (by simp; omega) (by simpa using hb)
        have eight : Took radix bs st 8 (bs.drop 8)
            { st with value := st.value * radix ^ 8 + v, counter := st.counter + 8, count := st.count + 8 } :=
          ⟨hl, rfl, rfl, rfl, rfl, by rw [hvv]⟩
        refine ⟨8 + m, eight.trans tk, ?_, ?_⟩
        · simp only at b1; omega
        · intro _; simp only at b2
          by_cases hm0 : m = 0
          · omega
          · have := b2 hm0; omega
    · rw [if_neg hcond]
      exact ⟨0, Took.refl _ _ _, by omega, by simp⟩

/-- the number accumulated so far: big integer and the pending native chunk -/
def acc (radix : Nat) (st : PM) : Nat := st.result * radix ^ st.counter + st.value

theorem Took.value_lt {radix : Nat} {bs bs' : List Nat} {st st' : PM} {m : Nat} (t : Took radix bs st m bs' st')
    (hv : ValidDigits radix bs) (h : st.value < radix ^ st.counter) : st'.value < radix ^ st'.counter := by
  rw [t.value, t.counter, Nat.pow_add]
  have hl := ofDigits_lt (dv radix (bs.take m)) (dv_lt (valid_take hv m))
  have hlen : (dv radix (bs.take m)).length = m := by
    simp only [dv, List.length_map, List.length_take]; exact Nat.min_eq_left t.le
  rw [hlen] at hl
  have : (st.value + 1) * radix ^ m ≤ radix ^ st.counter * radix ^ m := Nat.mul_le_mul_right _ h
  rw [Nat.add_mul, Nat.one_mul] at this
  omega

theorem Took.acc_eq {radix : Nat} {bs bs' : List Nat} {st st' : PM} {m : Nat} (t : Took radix bs st m bs' st') :
    acc radix st' = acc radix st * radix ^ m + ofDigits radix (dv radix (bs.take m)) := by
  unfold acc
  rw [t.value, t.counter, t.result, Nat.pow_add]
  ring

theorem Took.digits_lt {radix : Nat} {bs bs' : List Nat} {st st' : PM} {m : Nat} (t : Took radix bs st m bs' st')
    (hv : ValidDigits radix bs) : ofDigits radix (dv radix (bs.take m)) < radix ^ m := by
  have hl := ofDigits_lt (dv radix (bs.take m)) (dv_lt (valid_take hv m))
  have hlen : (dv radix (bs.take m)).length = m := by
    simp only [dv, List.length_map, List.length_take]; exact Nat.min_eq_left t.le
  rwa [hlen] at hl

theorem addTemporaryEnd_eq {E : Env} {radix : Nat} (H : MantOk E radix) (st : PM)
    (hc : st.counter ≤ E.S.u64PowerLimit radix) (hval : st.value < radix ^ st.counter)
    (hfit : acc radix st < 2 ^ (64 * E.L.bigintLimbs)) : addTemporaryEnd E radix st = some (acc radix st) := by
  unfold addTemporaryEnd acc at *
  by_cases h0 : st.counter = 0
  · rw [if_neg (by omega)]
    rw [h0, Nat.pow_zero] at hval
    have : st.value = 0 := by omega
    rw [h0, this]; simp
  · rw [if_pos h0, H.intpow _ hc]
    simp only [Option.bind_some]
    have hlt : radix ^ st.counter < 2 ^ 64 :=
      Nat.lt_of_le_of_lt (pow_le_step H.radix_pos hc) H.step_lt
    rw [wrap64_id hlt, addTemporary_eq hfit]

/-- **one component loop** (`'integer:` / `'fraction:`): either all bytes are consumed before `max_digits`
(`exhausted`, temporaries pending), or exactly `max_digits − count` more digits are taken, the temporaries are
flushed and the unread bytes are returned (`full`); no capacity check fails while the accumulated number fits. -/
theorem digitsLoop_spec {E : Env} {radix maxDigits : Nat} (H : MantOk E radix) :
    ∀ (fuel : Nat) (bs : List Nat) (st : PM), bs.length < fuel → ValidDigits radix bs →
      st.counter < E.S.u64PowerLimit radix → st.value < radix ^ st.counter → st.count ≤ maxDigits →
      (acc radix st + 1) * radix ^ (min bs.length (maxDigits - st.count)) ≤ 2 ^ (64 * E.L.bigintLimbs) →
      (bs.length < maxDigits - st.count →
        ∃ st', digitsLoop E radix maxDigits (E.S.u64PowerLimit radix) (wrap64 (radix ^ E.S.u64PowerLimit radix))
            fuel bs st = .exhausted st' ∧
          st'.counter < E.S.u64PowerLimit radix ∧ st'.value < radix ^ st'.counter ∧
          st'.count = st.count + bs.length ∧
          acc radix st' = acc radix st * radix ^ bs.length + ofDigits radix (dv radix bs)) ∧
      (maxDigits - st.count ≤ bs.length →
        ∃ st', digitsLoop E radix maxDigits (E.S.u64PowerLimit radix) (wrap64 (radix ^ E.S.u64PowerLimit radix))
            fuel bs st = .full st' (bs.drop (maxDigits - st.count)) ∧
          st'.count = maxDigits ∧
          st'.result = acc radix st * radix ^ (maxDigits - st.count) +
            ofDigits radix (dv radix (bs.take (maxDigits - st.count))))
  | 0, bs, st, hf, _, _, _, _, _ => by omega
  | fuel + 1, bs, st, hf, hv, hc, hval, hcount, hfit => by
    have hr := H.radix_pos
    generalize hstepdef : E.S.u64PowerLimit radix = step at *
    have hstep : radix ^ step < 2 ^ 64 := by rw [← hstepdef]; exact H.step_lt
    unfold digitsLoop
    dsimp only
    -- the 8-digit loop
    obtain ⟨m8, tk8, b1, b2⟩ : ∃ m, Took radix bs st m
        (if multidigit E radix then parse8Loop radix step maxDigits bs.length bs st else (bs, st)).1
        (if multidigit E radix then parse8Loop radix step maxDigits bs.length bs st else (bs, st)).2 ∧
        st.counter + m ≤ step ∧ (m ≠ 0 → st.count + m ≤ maxDigits) := by
      by_cases hmd : multidigit E radix = true
      · rw [if_pos hmd]
        exact parse8Loop_spec hr (H.multi hmd) hstep _ bs st hv (by omega) hval
      · rw [if_neg hmd]; exact ⟨0, Took.refl _ _ _, by omega, by simp⟩
    generalize (if multidigit E radix then parse8Loop radix step maxDigits bs.length bs st else (bs, st)) = r8 at *
    have hv8 : ValidDigits radix r8.1 := by rw [tk8.rest]; exact valid_drop hv _
    have hval8 := tk8.value_lt hv hval
    obtain ⟨m1, tk1, hm1, hex⟩ := singleLoop_spec (maxDigits := maxDigits) hr hstep r8.1 r8.2 hv8
      (by rw [tk8.counter]; exact b1) hval8
    have tk := tk8.trans tk1
    have hlen8 : r8.1.length = bs.length - m8 := by rw [tk8.rest, List.length_drop]
    rw [hlen8, tk8.counter, tk8.count] at hm1 hex
    have hm8c : st.count + m8 ≤ maxDigits := by
      by_cases h0 : m8 = 0
      · omega
      · exact b2 h0
    have hm8l := tk8.le
    generalize hm : m8 + m1 = m at *
    have hmmin : m = min bs.length (min (step - st.counter) (maxDigits - st.count)) := by omega
    generalize singleLoop radix step maxDigits r8.1 r8.2 = r1 at *
    obtain ⟨rbs, st1, ex⟩ := r1
    simp only at tk hex ⊢
    have hacc := tk.acc_eq
    have hdl := tk.digits_lt hv
    have hval1 := tk.value_lt hv hval
    have hn : m ≤ min bs.length (maxDigits - st.count) := by omega
    -- the accumulated number fits
    have hfit1 : acc radix st1 + 1 ≤ (acc radix st + 1) * radix ^ m := by
      rw [hacc, Nat.add_mul, Nat.one_mul]; omega
    have hfitm : (acc radix st + 1) * radix ^ m ≤ 2 ^ (64 * E.L.bigintLimbs) :=
      Nat.le_trans (Nat.mul_le_mul_left _ (pow_le_step hr hn)) hfit
    by_cases hext : ex = true
    · -- bytes exhausted
      rw [if_pos hext]
      obtain ⟨e1, e2, e3⟩ := hex.mp hext
      have hml : m = bs.length := by omega
      constructor
      · intro _
        refine ⟨st1, rfl, by rw [tk.counter]; omega, hval1, by rw [tk.count, hml], ?_⟩
        rw [hacc, hml, List.take_length]
      · intro h; omega
    · rw [if_neg hext]
      have hnex : ¬ (m1 = bs.length - m8 ∧ st.counter + m8 + m1 < step ∧ st.count + m8 + m1 < maxDigits) :=
        fun h => hext (hex.mpr h)
      by_cases hfull : st1.count = maxDigits
      · rw [if_pos hfull]
        have hmd : m = maxDigits - st.count := by rw [tk.count] at hfull; omega
        rw [addTemporaryEnd_eq H st1 (by rw [hstepdef, tk.counter]; omega) hval1
          (by omega)]
        constructor
        · intro h; omega
        · intro _
          refine ⟨{ st1 with result := acc radix st1 }, ?_, hfull, ?_⟩
          · rw [tk.rest, hmd]
          · show acc radix st1 = _
            rw [hacc, hmd]
      · rw [if_neg hfull]
        have hcnt : st.count + m < maxDigits := by rw [tk.count] at hfull; omega
        have hcs : st.counter + m = step := by omega
        have hflush : addTemporary E.L.bigintLimbs st1.result (wrap64 (radix ^ step)) st1.value =
            some (acc radix st1) := by
          rw [wrap64_id hstep]
          have : acc radix st1 = st1.result * radix ^ step + st1.value := by
            unfold acc; rw [tk.counter, hcs]
          rw [this]
          exact addTemporary_eq (by rw [← this]; omega)
        rw [hflush]
        simp only
        have hmpos : 0 < m := by omega
        have hfit2 : (acc radix ⟨acc radix st1, 0, 0, st1.count⟩ + 1) *
            radix ^ (min rbs.length (maxDigits - st1.count)) ≤ 2 ^ (64 * E.L.bigintLimbs) := by
          have ea : acc radix ⟨acc radix st1, 0, 0, st1.count⟩ = acc radix st1 := by simp [acc]
          rw [ea, tk.rest, List.length_drop, tk.count]
          have hsplit : m + min (bs.length - m) (maxDigits - (st.count + m)) ≤ min bs.length (maxDigits - st.count) := by
            omega
          calc (acc radix st1 + 1) * radix ^ (min (bs.length - m) (maxDigits - (st.count + m)))
              ≤ (acc radix st + 1) * radix ^ m * radix ^ (min (bs.length - m) (maxDigits - (st.count + m))) :=
                Nat.mul_le_mul_right _ hfit1
            _ = (acc radix st + 1) * radix ^ (m + min (bs.length - m) (maxDigits - (st.count + m))) := by
                rw [Nat.pow_add]; ring
            _ ≤ (acc radix st + 1) * radix ^ (min bs.length (maxDigits - st.count)) :=
                Nat.mul_le_mul_left _ (pow_le_step hr hsplit)
            _ ≤ _ := hfit
        obtain ⟨ih1, ih2⟩ := digitsLoop_spec H fuel rbs ⟨acc radix st1, 0, 0, st1.count⟩
          (by rw [tk.rest, List.length_drop]; omega) (by rw [tk.rest]; exact valid_drop hv _)
          (by simp only; rw [hstepdef]; omega) (by simp) (by simp only; rw [tk.count]; omega) hfit2
        rw [hstepdef] at ih1 ih2
        have ea : acc radix ⟨acc radix st1, 0, 0, st1.count⟩ = acc radix st1 := by simp [acc]
        simp only [ea] at ih1 ih2
        rw [tk.rest, List.length_drop, tk.count] at ih1 ih2
        rw [tk.rest, tk.count]
        constructor
        · intro h
          have hle := tk.le
          obtain ⟨st', i1, i2, i3, i4, i5⟩ := ih1 (by clear ih1 ih2; omega)
          have i4' : st'.count = st.count + bs.length := by rw [i4]; clear * - hle; omega
          refine ⟨st', i1, i2, i3, i4', ?_⟩
          rw [i5, hacc]
          have := ofDigits_take_add radix bs m (bs.length - m) (Nat.le_refl _)
          rw [show m + (bs.length - m) = bs.length by omega, List.take_length] at this
          have hd : (bs.drop m).take (bs.length - m) = bs.drop m :=
            List.take_of_length_le (by rw [List.length_drop])
          rw [this, hd]
          rw [show bs.length = m + (bs.length - m) by omega, Nat.pow_add]
          simp only [Nat.add_sub_cancel_left]
          ring
        · intro h
          obtain ⟨st', i1, i2, i3⟩ := ih2 (by clear ih1 ih2; omega)
          have hk : m + (maxDigits - (st.count + m)) = maxDigits - st.count := by omega
          refine ⟨st', ?_, i2, ?_⟩
          · rw [i1, List.drop_drop, hk]
          · rw [i3, hacc]
            have := ofDigits_take_add radix bs m (maxDigits - (st.count + m)) (by omega)
            rw [show m + (maxDigits - (st.count + m)) = maxDigits - st.count by omega] at this
            rw [this, show maxDigits - st.count = m + (maxDigits - (st.count + m)) by omega, Nat.pow_add]
            ring

/-! ## `parse_mantissa` -/

/-- the significant digit bytes `parse_mantissa` reads: leading zeros of the integer part are skipped, and those
of the fraction too when the integer part has no other digit -/
def sigBytes (integer : List Nat) (fraction : Option (List Nat)) : List Nat :=
  match fraction with
  | none => Binary.skipZeros integer
  | some fr => if Binary.skipZeros integer = [] then Binary.skipZeros fr else Binary.skipZeros integer ++ fr

theorem anyNonzero_append (a b : List Nat) : anyNonzero (a ++ b) = (anyNonzero a || anyNonzero b) := by
  unfold anyNonzero; rw [List.any_append]

theorem valid_skipZeros {radix : Nat} {bs : List Nat} (h : ValidDigits radix bs) :
    ValidDigits radix (Binary.skipZeros bs) := by
  intro c hc
  unfold Binary.skipZeros at hc
  exact h c ((List.dropWhile_sublist _).subset hc)

theorem valid_append {radix : Nat} {a b : List Nat} (ha : ValidDigits radix a) (hb : ValidDigits radix b) :
    ValidDigits radix (a ++ b) := by
  intro c hc
  rcases List.mem_append.mp hc with h | h
  · exact ha c h
  · exact hb c h

theorem dv_length (radix : Nat) (bs : List Nat) : (dv radix bs).length = bs.length := by simp [dv]

theorem ofDigits_dv_lt {radix : Nat} {bs : List Nat} (h : ValidDigits radix bs) :
    ofDigits radix (dv radix bs) < radix ^ bs.length := by
  have := ofDigits_lt (dv radix bs) (dv_lt h)
  rwa [dv_length] at this

theorem ofDigits_dv_append (radix : Nat) (a b : List Nat) :
    ofDigits radix (dv radix (a ++ b)) = ofDigits radix (dv radix a) * radix ^ b.length + ofDigits radix (dv radix b) := by
  unfold dv
  rw [List.map_append, ofDigits_append_pow, List.length_map]

theorem roundUpTruncated_eq {E : Env} {radix : Nat} (st : PM)
    (h : st.result * radix + 1 < 2 ^ (64 * E.L.bigintLimbs)) :
    roundUpTruncated E radix st = some (st.result * radix + 1, st.count + 1) := by
  unfold roundUpTruncated
  rw [addTemporary_eq h]; rfl

/-- the part of `parse_mantissa` after a component stopped at `max_digits` -/
theorem cut_tail {E : Env} {radix maxDigits : Nat} (hr : 2 ≤ radix) (st : PM) (rest : List Nat)
    (hres : st.result < radix ^ maxDigits) (hc : st.count = maxDigits)
    (hfit : radix ^ (maxDigits + 1) ≤ 2 ^ (64 * E.L.bigintLimbs)) :
    (if anyNonzero rest then roundUpTruncated E radix st else some (st.result, st.count)) =
      if anyNonzero rest then some (st.result * radix + 1, maxDigits + 1) else some (st.result, maxDigits) := by
  have hb : st.result * radix + 1 < 2 ^ (64 * E.L.bigintLimbs) := by
    have : (st.result + 1) * radix ≤ radix ^ maxDigits * radix := Nat.mul_le_mul_right _ hres
    have e : radix ^ (maxDigits + 1) = radix ^ maxDigits * radix := Nat.pow_succ _ _
    rw [Nat.add_mul, Nat.one_mul] at this
    omega
  by_cases h : anyNonzero rest = true
  · rw [if_pos h, if_pos h, roundUpTruncated_eq st hb, hc]
  · rw [if_neg h, if_neg h, hc]

/-- **`parseMantissa_value`**: for validated digit bytes and a build whose big integer holds `radix^(max_digits+1)`,
`parse_mantissa` does not panic and returns
* all `n ≤ max_digits` significant digits: their value and `n`;
* more than `max_digits`: the value `P` of the first `max_digits` and `max_digits` when every cut digit is `0`,
  else `P·radix + 1` and `max_digits + 1` (the flag "a non-zero digit was cut" is exactly the `+1`). -/
theorem parseMantissa_value {E : Env} {radix maxDigits : Nat} (H : MantOk E radix) (hr : 2 ≤ radix)
    (hmax : 0 < maxDigits) (integer : List Nat) (fraction : Option (List Nat))
    (hvi : ValidDigits radix integer) (hvf : ∀ fr, fraction = some fr → ValidDigits radix fr)
    (hfit : radix ^ (maxDigits + 1) ≤ 2 ^ (64 * E.L.bigintLimbs)) :
    parseMantissa E radix maxDigits integer fraction =
      if (sigBytes integer fraction).length ≤ maxDigits then
        some (ofDigits radix (dv radix (sigBytes integer fraction)), (sigBytes integer fraction).length)
      else if anyNonzero ((sigBytes integer fraction).drop maxDigits) then
        some (ofDigits radix (dv radix ((sigBytes integer fraction).take maxDigits)) * radix + 1, maxDigits + 1)
      else some (ofDigits radix (dv radix ((sigBytes integer fraction).take maxDigits)), maxDigits) := by
  have hrp : 0 < radix := by omega
  have hpow : ∀ a, a ≤ maxDigits → radix ^ a ≤ 2 ^ (64 * E.L.bigintLimbs) := fun a ha =>
    Nat.le_trans (pow_le_step hrp (by omega)) hfit
  have hpowlt : ∀ a, a ≤ maxDigits → radix ^ a < 2 ^ (64 * E.L.bigintLimbs) := fun a ha => by
    have h1 : radix ^ a < radix ^ (maxDigits + 1) := Nat.pow_lt_pow_right (by omega) (by omega)
    omega
  unfold parseMantissa
  dsimp only
  generalize hii : Binary.skipZeros integer = ii
  have hvii : ValidDigits radix ii := by rw [← hii]; exact valid_skipZeros hvi
  have acc0 : acc radix ⟨0, 0, 0, 0⟩ = 0 := by simp [acc]
  obtain ⟨s1, s2⟩ := digitsLoop_spec (maxDigits := maxDigits) H (ii.length + 1) ii ⟨0, 0, 0, 0⟩ (by omega) hvii
    H.step_pos (by simp) (by simp) (by
      rw [acc0]; simp only [Nat.zero_add, Nat.one_mul, Nat.sub_zero]
      exact hpow _ (Nat.min_le_right _ _))
  simp only [Nat.sub_zero, acc0, Nat.zero_mul, Nat.zero_add] at s1 s2
  by_cases hlen : ii.length < maxDigits
  · -- the integer digits are exhausted first
    obtain ⟨st', e1, c1, c2, c3, c4⟩ := s1 hlen
    rw [e1]
    dsimp only
    have hacc1 : acc radix st' < radix ^ ii.length := by rw [c4]; exact ofDigits_dv_lt hvii
    cases fraction with
    | none =>
      have hs : sigBytes integer none = ii := by unfold sigBytes; exact hii
      rw [hs, if_pos (by omega), addTemporaryEnd_eq H st' (by omega) c2
        (Nat.lt_of_lt_of_le hacc1 (hpow _ (by omega))), c4, c3]
      rfl
    | some fr =>
      have hvfr := hvf fr rfl
      dsimp only
      generalize hfr' : (if st'.count = 0 then Binary.skipZeros fr else fr) = fr'
      have hvfr' : ValidDigits radix fr' := by
        rw [← hfr']; split
        · exact valid_skipZeros hvfr
        · exact hvfr
      have hs : sigBytes integer (some fr) = ii ++ fr' := by
        simp only [sigBytes, hii]
        rw [← hfr', c3]
        by_cases hnil : ii = []
        · subst hnil; simp
        · rw [if_neg hnil, if_neg (by
            intro h; exact hnil (List.eq_nil_of_length_eq_zero h))]
      rw [hs]
      obtain ⟨t1, t2⟩ := digitsLoop_spec (maxDigits := maxDigits) H (fr'.length + 1) fr' st' (by omega) hvfr'
        c1 c2 (by omega) (by
          have h1 : acc radix st' + 1 ≤ radix ^ ii.length := hacc1
          have h2 : ii.length + min fr'.length (maxDigits - st'.count) ≤ maxDigits := by omega
          calc (acc radix st' + 1) * radix ^ (min fr'.length (maxDigits - st'.count))
              ≤ radix ^ ii.length * radix ^ (min fr'.length (maxDigits - st'.count)) := Nat.mul_le_mul_right _ h1
            _ = radix ^ (ii.length + min fr'.length (maxDigits - st'.count)) := by rw [Nat.pow_add]
            _ ≤ _ := hpow _ h2)
      rw [c3, c4] at t1 t2
      by_cases hl2 : fr'.length < maxDigits - ii.length
      · obtain ⟨st2, f1, d1, d2, d3, d4⟩ := t1 hl2
        rw [f1]
        dsimp only
        have hlt : acc radix st2 < 2 ^ (64 * E.L.bigintLimbs) := by
          rw [d4, ← ofDigits_dv_append]
          have := ofDigits_dv_lt (valid_append hvii hvfr')
          exact Nat.lt_of_lt_of_le this (hpow _ (by rw [List.length_append]; omega))
        rw [addTemporaryEnd_eq H st2 (by omega) d2 hlt, if_pos (by rw [List.length_append]; omega),
          d4, ← ofDigits_dv_append, d3, List.length_append]
        rfl
      · obtain ⟨st2, f1, d1, d2⟩ := t2 (by omega)
        rw [f1]
        dsimp only
        have htake : (ii ++ fr').take maxDigits = ii ++ fr'.take (maxDigits - ii.length) := by
          rw [List.take_append, List.take_of_length_le (by omega)]
        have hdrop : (ii ++ fr').drop maxDigits = fr'.drop (maxDigits - ii.length) := by
          rw [List.drop_append, List.drop_of_length_le (by omega), List.nil_append]
        have hres : st2.result = ofDigits radix (dv radix ((ii ++ fr').take maxDigits)) := by
          rw [d2, htake, ofDigits_dv_append, List.length_take, Nat.min_eq_left (by omega)]
        have hreslt : st2.result < radix ^ maxDigits := by
          rw [hres]
          have := ofDigits_dv_lt (valid_take (valid_append hvii hvfr') maxDigits)
          rwa [List.length_take, Nat.min_eq_left (by rw [List.length_append]; omega)] at this
        rw [cut_tail hr st2 _ hreslt d1 hfit, hdrop, ← hres]
        by_cases hle : (ii ++ fr').length ≤ maxDigits
        · rw [if_pos hle]
          have hleq : fr'.length = maxDigits - ii.length := by rw [List.length_append] at hle; omega
          have hnil : fr'.drop (maxDigits - ii.length) = [] := List.drop_of_length_le (by omega)
          rw [hnil]
          simp only [anyNonzero, List.any_nil, Bool.false_eq_true, if_false]
          rw [hres, List.take_of_length_le hle, List.length_append]
          congr 2; omega
        · rw [if_neg hle]
  · -- `max_digits` reached inside the integer digits
    obtain ⟨st', e1, c1, c2⟩ := s2 (by omega)
    rw [e1]
    dsimp only
    have hiine : ii ≠ [] := by intro h; rw [h] at hlen; simp at hlen; omega
    have hres0 : st'.result = ofDigits radix (dv radix (ii.take maxDigits)) := c2
    have hreslt : st'.result < radix ^ maxDigits := by
      rw [hres0]
      have := ofDigits_dv_lt (valid_take hvii maxDigits)
      rwa [List.length_take, Nat.min_eq_left (by omega)] at this
    cases fraction with
    | none =>
      have hs : sigBytes integer none = ii := by unfold sigBytes; exact hii
      rw [hs]
      have : (if anyNonzero (ii.drop maxDigits) then roundUpTruncated E radix st'
          else some (st'.result, st'.count)) = _ := cut_tail hr st' (ii.drop maxDigits) hreslt c1 hfit
      simp only
      rw [this, ← hres0]
      by_cases hle : ii.length ≤ maxDigits
      · rw [if_pos hle]
        have hnil : ii.drop maxDigits = [] := List.drop_of_length_le hle
        rw [hnil]
        simp only [anyNonzero, List.any_nil, Bool.false_eq_true, if_false]
        rw [hres0, List.take_of_length_le hle]
        congr 2; omega
      · rw [if_neg hle]
    | some fr =>
      have hvfr := hvf fr rfl
      have hs : sigBytes integer (some fr) = ii ++ fr := by
        simp only [sigBytes, hii]; rw [if_neg hiine]
      rw [hs]
      have htake : (ii ++ fr).take maxDigits = ii.take maxDigits := by
        rw [List.take_append, show maxDigits - ii.length = 0 by omega]; simp
      have hdrop : (ii ++ fr).drop maxDigits = ii.drop maxDigits ++ fr := by
        rw [List.drop_append, show maxDigits - ii.length = 0 by omega]; simp
      rw [htake, hdrop, anyNonzero_append, ← hres0]
      simp only
      have hb : st'.result * radix + 1 < 2 ^ (64 * E.L.bigintLimbs) := by
        have : (st'.result + 1) * radix ≤ radix ^ maxDigits * radix := Nat.mul_le_mul_right _ hreslt
        have e : radix ^ (maxDigits + 1) = radix ^ maxDigits * radix := Nat.pow_succ _ _
        rw [Nat.add_mul, Nat.one_mul] at this
        omega
      by_cases ha : anyNonzero (ii.drop maxDigits) = true
      · rw [if_pos ha, roundUpTruncated_eq st' hb, c1, if_neg (by
          rw [List.length_append]
          intro hle
          have : ii.drop maxDigits = [] := List.drop_of_length_le (by omega)
          rw [this] at ha; simp [anyNonzero] at ha)]
        simp [ha]
      · rw [if_neg ha]
        have ha' : anyNonzero (ii.drop maxDigits) = false := by simpa using ha
        rw [ha', Bool.false_or]
        by_cases hb2 : anyNonzero fr = true
        · rw [if_pos hb2, roundUpTruncated_eq st' hb, c1, if_neg (by
            rw [List.length_append]
            intro hle
            have : fr = [] := List.eq_nil_of_length_eq_zero (by omega)
            rw [this] at hb2; simp [anyNonzero] at hb2), if_pos hb2]
        · rw [if_neg hb2, if_neg hb2, c1]
          by_cases hle : (ii ++ fr).length ≤ maxDigits
          · rw [if_pos hle]
            rw [List.length_append] at hle
            have hfr : fr = [] := List.eq_nil_of_length_eq_zero (by omega)
            subst hfr
            simp only [List.length_nil, Nat.add_zero] at hle
            rw [hres0, List.append_nil, List.take_of_length_le (by omega)]
            congr 2; omega
          · rw [if_neg hle]

end LexVerif.Proof.Slow
