import LexVerif.Proof.RoundNEDecode
import Mathlib.Tactic.Ring
import Mathlib.Tactic.Linarith
/-!
# Proof.RoundNEStep — a relative change of at most `2^−p` moves `roundNE` by at most one pattern

`roundNE_step`: if `v ≤ v' ≤ v·(M+1)/M` with `M ≥ 2^p`, then `roundNE v' ≤ roundNE v + 1`.
(Neighbouring rounding cells are spread by a factor of more than `1 + 2^−p`.)
Used for C19: a lossy answer computed from a truncated mantissa is the correctly rounded float or its
lower neighbour.
-/
namespace LexVerif.Proof.RoundNE
open LexVerif.Spec

/-- the midpoints two patterns apart are spread by more than `2^−p` relative -/
theorem cells_spread {f : Fmt} (hf : WF f) (b : Nat) :
    ival f b + ival f (b + 1) < 2 ^ f.p * (ival f (b + 2) - ival f b) := by
  have hTT := two_pow_P hf
  obtain ⟨k, q, rfl, h1, h2⟩ := decomp f b
  generalize hT : 2 ^ (f.p - 1) = T at *
  have hTpos : 0 < T := by rw [← hT]; exact Nat.two_pow_pos _
  have i0 : ival f (k * T + q) = q * 2 ^ k := by rw [← hT]; exact ival_kq f k q (by rw [hT]; exact h1) (by rw [hT]; omega)
  have i1 : ival f (k * T + q + 1) = (q + 1) * 2 ^ k := by
    rw [Nat.add_assoc, ← hT]; exact ival_kq f k (q + 1) (by rw [hT]; omega) (by rw [hT]; omega)
  have i2 : (q + 2) * 2 ^ k ≤ ival f (k * T + q + 2) := by
    by_cases hq : q + 2 ≤ 2 * T
    · have : ival f (k * T + q + 2) = (q + 2) * 2 ^ k := by
        rw [Nat.add_assoc, ← hT]; exact ival_kq f k (q + 2) (by rw [hT]; omega) (by rw [hT]; omega)
      rw [this]
    · have hqe : q = 2 * T - 1 := by omega
      have e : k * T + q + 2 = (k + 1) * T + (T + 1) := by rw [hqe, Nat.add_mul]; omega
      have : ival f ((k + 1) * T + (T + 1)) = (T + 1) * 2 ^ (k + 1) := by
        rw [← hT]; exact ival_kq f (k + 1) _ (by rw [hT]; omega) (by rw [hT]; omega)
      rw [e, this, hqe, Nat.pow_succ]
      have : 2 * T - 1 + 2 = 2 * T + 1 := by omega
      rw [this]
      nlinarith [Nat.two_pow_pos k]
  rw [i0, i1, hTT]
  have hp := Nat.two_pow_pos k
  have hge : 2 * 2 ^ k ≤ ival f (k * T + q + 2) - q * 2 ^ k := by
    have : (q + 2) * 2 ^ k = q * 2 ^ k + 2 * 2 ^ k := by ring
    omega
  have h3 : 2 * T * (2 * 2 ^ k) ≤ 2 * T * (ival f (k * T + q + 2) - q * 2 ^ k) := Nat.mul_le_mul_left _ hge
  have h4 : q * 2 ^ k + (q + 1) * 2 ^ k < 2 * T * (2 * 2 ^ k) := by nlinarith
  omega

/-- **one-step lemma**: `v ≤ v' ≤ v·(M+1)/M`, `M ≥ 2^p` ⇒ `roundNE v' ≤ roundNE v + 1` (cross-multiplied) -/
theorem roundNE_step {f : Fmt} (hf : WF f) {n1 d1 n2 d2 M : Nat} (hd1 : 0 < d1) (hd2 : 0 < d2)
    (hM : 2 ^ f.p ≤ M) (hrel : n2 * d1 * M ≤ n1 * d2 * (M + 1)) :
    roundNE f n2 d2 ≤ roundNE f n1 d1 + 1 := by
  apply Classical.byContradiction; intro hcon
  have c1 := inCell_roundNE hf n1 (Nat.ne_of_gt hd1)
  have c2 := inCell_roundNE hf n2 (Nat.ne_of_gt hd2)
  generalize roundNE f n1 d1 = a at *
  generalize roundNE f n2 d2 = c at *
  have hca : a + 2 ≤ c := by omega
  have ha_fin : a < f.infBits := by have := c2.le_inf; omega
  have hU := c1.upper ha_fin
  have hLo := c2.lower (by omega)
  have m1 : ival f (a + 1) ≤ ival f (c - 1) := ival_mono f (by omega)
  have m2 : ival f (a + 2) ≤ ival f c := ival_mono f hca
  have hsp := cells_spread hf a
  have hmono : ival f a ≤ ival f (a + 2) := ival_mono f (by omega)
  generalize ival f a = I0 at *
  generalize ival f (a + 1) = I1 at *
  generalize ival f (a + 2) = I2 at *
  generalize ival f (c - 1) = J1 at *
  generalize ival f c = J2 at *
  generalize hN1 : n1 * 2 ^ L f = N1 at *
  generalize hN2 : n2 * 2 ^ L f = N2 at *
  -- scale `hrel` by 2^L
  have hrel' : N2 * d1 * M ≤ N1 * d2 * (M + 1) := by
    have := Nat.mul_le_mul_right (2 ^ L f) hrel
    rw [← hN1, ← hN2]
    calc n2 * 2 ^ L f * d1 * M = n2 * d1 * M * 2 ^ L f := by ring
      _ ≤ n1 * d2 * (M + 1) * 2 ^ L f := this
      _ = n1 * 2 ^ L f * d2 * (M + 1) := by ring
  -- D1·D2·M·(I1 + I2) ≤ 2·N2·D1·M ≤ 2·N1·D2·(M+1) ≤ D1·D2·(M+1)·(I0 + I1)
  have k1 : d2 * (I1 + I2) ≤ 2 * N2 := by
    have : d2 * (I1 + I2) ≤ d2 * (J1 + J2) := Nat.mul_le_mul_left _ (by omega)
    omega
  have k2 : d1 * M * (d2 * (I1 + I2)) ≤ d1 * M * (2 * N2) := Nat.mul_le_mul_left _ k1
  have k3 : d2 * (M + 1) * (2 * N1) ≤ d2 * (M + 1) * (d1 * (I0 + I1)) := Nat.mul_le_mul_left _ hU
  have k4 : d1 * M * (2 * N2) = 2 * (N2 * d1 * M) := by ring
  have k5 : d2 * (M + 1) * (2 * N1) = 2 * (N1 * d2 * (M + 1)) := by ring
  have k6 : d1 * M * (d2 * (I1 + I2)) ≤ d2 * (M + 1) * (d1 * (I0 + I1)) := by omega
  have k7 : d1 * M * (d2 * (I1 + I2)) = (d1 * d2) * (M * (I1 + I2)) := by ring
  have k8 : d2 * (M + 1) * (d1 * (I0 + I1)) = (d1 * d2) * ((M + 1) * (I0 + I1)) := by ring
  rw [k7, k8] at k6
  have k9 : M * (I1 + I2) ≤ (M + 1) * (I0 + I1) := Nat.le_of_mul_le_mul_left k6 (Nat.mul_pos hd1 hd2)
  -- M·(I2 − I0) ≤ I0 + I1 < 2^p·(I2 − I0) ≤ M·(I2 − I0)
  have k10 : 2 ^ f.p * (I2 - I0) ≤ M * (I2 - I0) := Nat.mul_le_mul_right _ hM
  have k11 : M * (I2 - I0) + M * I0 = M * I2 := by
    rw [← Nat.mul_add]; congr 1; omega
  nlinarith

end LexVerif.Proof.RoundNE
