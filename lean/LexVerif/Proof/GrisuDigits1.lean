import LexVerif.Model.Grisu
import LexVerif.Spec.Numeral
import LexVerif.Proof.DragonboxBits
import Mathlib.Tactic.Ring
import Mathlib.Tactic.Linarith
/-!
# Proof.GrisuDigits1 — digit-list bookkeeping and the weeding loop of `generate_digits`

* `DigitsOK ds N`: the characters appended so far (no leading `'0'`) denote `N`;
* `Final ds V N`: the shape of the returned digit string (value `V`, as many digits as `N`);
* `final_of_step`: appending a digit `d` and decrementing the last character `dec ≤ d` times;
* `roundDigit_spec`: whatever `mant` is, `round_digit` leaves `rem + dec·unit ≤ delta`.
-/
namespace LexVerif.Proof.GrisuDigits
open LexVerif.Model.Grisu LexVerif.Model.Dragonbox LexVerif.Spec
open LexVerif.Proof.DragonboxBits

theorem ofDigits_snoc (r : Nat) (a : List Nat) (d : Nat) : ofDigits r (a ++ [d]) = ofDigits r a * r + d := by
  simp [ofDigits, List.foldl_append]

theorem ofDigits_nil (r : Nat) : ofDigits r [] = 0 := rfl

/-- the digits appended so far: characters `'0'..'9'`, value `N`, no leading zero, `N` has exactly `ds.length` digits -/
structure DigitsOK (ds : List Nat) (N : Nat) : Prop where
  chars : ∀ c ∈ ds, 48 ≤ c ∧ c ≤ 57
  val : ofDigits 10 (ds.map (· - 48)) = N
  head : ds.head? ≠ some 48
  zero : N = 0 → ds = []
  len : N ≠ 0 → 10 ^ ds.length ≤ 10 * N

theorem digitsOK_nil : DigitsOK [] 0 :=
  ⟨by simp, rfl, by simp, fun _ => rfl, fun h => absurd rfl h⟩

/-- the append step shared by both loops -/
def pushDigit (ds : List Nat) (digit : Nat) : List Nat :=
  if digit ≠ 0 ∨ ds ≠ [] then ds ++ [(48 + digit) % 256] else ds

/-- the returned digit string -/
structure Final (ds : List Nat) (V N : Nat) : Prop where
  chars : ∀ c ∈ ds, 48 ≤ c ∧ c ≤ 57
  ne : ds ≠ []
  head : ds.head? ≠ some 48
  val : ofDigits 10 (ds.map (· - 48)) = V
  len : ∀ n, N < 10 ^ n → ds.length ≤ n

theorem decLast_snoc (ds : List Nat) (c dec : Nat) :
    decLast (ds ++ [c]) dec = ds ++ [(c + 256 - dec % 256) % 256] := by
  simp [decLast]

theorem decLast_nil (dec : Nat) : decLast [] dec = [] := by
  simp [decLast]

theorem pushDigit_ok {ds : List Nat} {N d : Nat} (h : DigitsOK ds N) (hd : d < 10) :
    DigitsOK (pushDigit ds d) (10 * N + d) := by
  unfold pushDigit
  by_cases hc : d ≠ 0 ∨ ds ≠ []
  · rw [if_pos hc]
    have hch : (48 + d) % 256 = 48 + d := by omega
    rw [hch]
    refine ⟨?_, ?_, ?_, ?_, ?_⟩
    · intro c hcm
      rcases List.mem_append.1 hcm with h1 | h1
      · exact h.chars c h1
      · simp at h1; omega
    · rw [List.map_append, List.map_cons, List.map_nil, ofDigits_snoc, h.val]; omega
    · cases ds with
      | nil =>
        simp
        have : N = 0 := by rw [← h.val]; rfl
        rcases hc with hc | hc
        · omega
        · exact absurd rfl hc
      | cons a t => simpa using h.head
    · intro h0
      have hN : N = 0 := by omega
      have hd0 : d = 0 := by omega
      have := h.zero hN
      rcases hc with hc | hc
      · exact absurd hd0 hc
      · exact absurd this hc
    · intro _
      rw [List.length_append, List.length_singleton, Nat.pow_succ]
      by_cases hN : N = 0
      · have := h.zero hN
        subst this; subst hN
        simp
        rcases hc with hc | hc
        · omega
        · exact absurd rfl hc
      · have := h.len hN
        omega
  · rw [if_neg hc]
    have h1 : d = 0 := by
      by_cases h : d = 0
      · exact h
      · exact absurd (Or.inl h) hc
    have h2 : ds = [] := by
      by_cases h : ds = []
      · exact h
      · exact absurd (Or.inr h) hc
    subst h1; subst h2
    have : N = 0 := by rw [← h.val]; rfl
    subst this
    exact digitsOK_nil

/-- append digit `d`, then decrement the last character `dec ≤ d` times (`V = 10N + d − dec ≥ 1`) -/
theorem final_of_step {ds : List Nat} {N d dec : Nat} (h : DigitsOK ds N) (hd : d < 10) (hdec : dec ≤ d)
    (hpos : 1 ≤ 10 * N + d - dec) :
    Final (decLast (pushDigit ds d) dec) (10 * N + d - dec) (10 * N + d) := by
  have hok := pushDigit_ok h hd
  have hne : d ≠ 0 ∨ ds ≠ [] := by
    by_cases h0 : N = 0
    · left; omega
    · right; intro hnil; subst hnil
      exact h0 (by rw [← h.val]; rfl)
  have hlen : (pushDigit ds d).length = ds.length + 1 := by
    unfold pushDigit; rw [if_pos hne]; simp
  have hlen' : ∀ n, 10 * N + d < 10 ^ n → ds.length + 1 ≤ n := by
    intro n hn
    have hN' : 10 * N + d ≠ 0 := by omega
    have h1 := hok.len hN'
    rw [hlen] at h1
    by_cases hle : ds.length + 1 ≤ n
    · exact hle
    · exfalso
      have h2 : 10 ^ (n + 1) ≤ 10 ^ (ds.length + 1) := Nat.pow_le_pow_right (by omega) (by omega)
      rw [Nat.pow_succ] at h2
      omega
  unfold pushDigit
  rw [if_pos hne, decLast_snoc]
  have hch : ((48 + d) % 256 + 256 - dec % 256) % 256 = 48 + d - dec := by omega
  rw [hch]
  refine ⟨?_, by simp, ?_, ?_, ?_⟩
  · intro c hcm
    rcases List.mem_append.1 hcm with h1 | h1
    · exact h.chars c h1
    · simp at h1; omega
  · cases ds with
    | nil =>
      simp
      have : N = 0 := by rw [← h.val]; rfl
      omega
    | cons a t => simpa using h.head
  · rw [List.map_append, List.map_cons, List.map_nil, ofDigits_snoc, h.val]; omega
  · intro n hn
    rw [List.length_append, List.length_singleton]
    exact hlen' n hn

/-- `round_digit`: independent of `mant`, the final remainder stays `≤ delta` -/
theorem roundDigit_spec (delta unit mant : Nat) (hdelta : delta < 2 ^ 64) :
    ∀ (fuel rem dec : Nat), rem ≤ delta →
      ∃ e, (roundDigit delta unit mant fuel rem dec).2 = dec + e ∧ rem + e * unit ≤ delta := by
  intro fuel
  induction fuel with
  | zero => intro rem dec h; exact ⟨0, by simp [roundDigit], by omega⟩
  | succ fuel ih =>
    intro rem dec h
    rw [roundDigit]
    split
    · rename_i hc
      have h1 : sub64 delta rem ≥ unit := hc.2.1
      rw [sub64_eq h hdelta] at h1
      have h2 : u64 (rem + unit) = rem + unit := by unfold u64; omega
      rw [h2]
      obtain ⟨e, he1, he2⟩ := ih (rem + unit) (dec + 1) (by omega)
      refine ⟨e + 1, by rw [he1]; omega, ?_⟩
      rw [Nat.add_mul]; omega
    · exact ⟨0, rfl, by omega⟩

end LexVerif.Proof.GrisuDigits
