import LexVerif.Proof.SlowPositive
/-!
# Proof.SlowNegative — `negative_digit_comp` returns `roundNE (M / radix^j)`

Given the error float `fp` (normalised 64-bit significand, biased binary exponent, not below the underflow cut)
whose round-down `b = k·2^(p−1) + q` is finite and brackets the value, `b ≤ M/radix^j ≤ next(b)`:

* `round_down_bits`: `extended_to_float(round(fp, round_down)) = encode k q`;
* `decode_kq`: `b.mantissa() = q`, `b.exponent() = k + 1 − EXPONENT_BIAS` (denormal, first binade, normal);
* the two big integers compared are `M·2^a` and `(2q+1)·(radix/2)^j·2^c` with `c − a = k + j − EXPONENT_BIAS`, i.e. the
  value against the half-way point `b + h`, **exactly** (`cmp_scale`);
* the final `round(fp, …)` re-derives `q` from `fp` and adds 1 on `Greater`, on `Equal` when `q` is odd;
* `roundNE_of_q0` turns "bracketed + compared with the midpoint + ties to even" into `roundNE`.
-/
namespace LexVerif.Proof.Slow
open LexVerif.Spec LexVerif.Proof.Tables LexVerif.Model LexVerif.Model.Slow LexVerif.Model.Bellerophon
open LexVerif.Proof.RoundNE LexVerif.Proof.ExtRound LexVerif.Proof.BinaryCorrect

theorem rnte_false (fp : ExtendedFloat80) (s : Nat) (h : fp.mant < 2 ^ 64) :
    roundNearestTieEven fp s (fun _ _ _ => false) = roundDown fp s := by
  unfold roundNearestTieEven roundDown
  have : (if s = 64 then 0 else shr64m fp.mant s) < 2 ^ 64 := by
    split
    · exact Nat.two_pow_pos _
    · unfold shr64m shr
      exact Nat.lt_of_le_of_lt (Nat.div_le_self _ _) h
  simp only [Bool.false_eq_true, if_false, Nat.add_zero]
  unfold wrap64
  rw [Nat.mod_eq_of_lt this]

theorem round_roundDown (F : FTy) (fp : ExtendedFloat80) (h : fp.mant < 2 ^ 64) :
    round F fp roundDown = round F fp (fun f s => roundNearestTieEven f s (fun _ _ _ => false)) := by
  unfold round
  simp only [rnte_false fp _ h]

theorem upOf_false (mant s : Nat) : upOf mant s (fun _ _ _ => false) = 0 := by
  unfold upOf; simp

/-- `b` = the error float rounded down -/
theorem round_down_bits {F p eb} (lay : Layout F p eb) (fp : ExtendedFloat80) (hm1 : 2 ^ 63 ≤ fp.mant)
    (hm2 : fp.mant < 2 ^ 64) (hp2 : -fp.exp + 1 ≤ 64) :
    extendedToFloat F (round F fp roundDown) =
      encode F.fmt (fp.exp + 64 - p - 1).toNat (fp.mant / 2 ^ shiftOf p fp.exp) := by
  rw [round_roundDown F fp hm2]
  have := (round_bits lay fp.mant fp.exp (fun _ _ _ => false) hm1 hm2 hp2).2
  rw [upOf_false, Nat.add_zero] at this
  exact this

/-- fields of a finite pattern `k·2^(p−1) + q` (`q` carries the hidden bit when `k > 0` or `q ≥ 2^(p−1)`) -/
theorem decode_kq {F p eb} (lay : Layout F p eb) (hden : F.C.denormalExponent = 1 - F.C.exponentBias)
    (k q : Nat) (h1 : 0 < k → 2 ^ (p - 1) ≤ q) (h2 : q < 2 * 2 ^ (p - 1))
    (hfin : k * 2 ^ (p - 1) + q ≤ F.fmt.infBits) :
    floatMantissa F (k * 2 ^ (p - 1) + q) = q ∧
    floatExponent F (k * 2 ^ (p - 1) + q) = (k : Int) + 1 - F.C.exponentBias := by
  have hfp : F.fmt.p = p := by rw [lay.fmt]
  have hfe : F.fmt.ebits = eb := by rw [lay.fmt]
  have hinf : F.fmt.infBits = (2 ^ eb - 1) * 2 ^ (p - 1) := by rw [lay.fmt]; rfl
  unfold floatMantissa floatExponent isDenormal Fmt.expField Fmt.manField
  rw [hfp, hfe, lay.hidden]
  rw [hinf] at hfin
  generalize hT : 2 ^ (p - 1) = T at *
  have hTpos : 0 < T := by rw [← hT]; exact Nat.two_pow_pos _
  by_cases hq : q < T
  · have hk0 : k = 0 := by
      apply Classical.byContradiction; intro hk; have := h1 (by omega); omega
    subst hk0
    simp only [Nat.zero_mul, Nat.zero_add]
    rw [Nat.div_eq_of_lt hq, Nat.zero_mod, Nat.mod_eq_of_lt hq]
    simp [hden]
  · have e1 : k * T + q = (k + 1) * T + (q - T) := by rw [Nat.add_mul]; omega
    have hqT : q - T < T := by omega
    have hdiv : (k * T + q) / T = k + 1 := by
      rw [e1, Nat.add_comm, Nat.add_mul_div_right _ _ hTpos, Nat.div_eq_of_lt hqT]; omega
    have hmod : (k * T + q) % T = q - T := by
      rw [e1, Nat.add_comm, Nat.add_mul_mod_self_right, Nat.mod_eq_of_lt hqT]
    have hk1 : k + 1 < 2 ^ eb := by
      apply Classical.byContradiction; intro hc
      have : 2 ^ eb * T ≤ (k + 1) * T := Nat.mul_le_mul_right T (by omega)
      have e2 : (2 ^ eb - 1) * T + T = 2 ^ eb * T := by
        have := Nat.two_pow_pos eb
        rw [← Nat.succ_mul]; congr 1; omega
      rw [e1] at hfin; omega
    rw [hdiv, hmod, Nat.mod_eq_of_lt (by omega)]
    have hne : ¬ (k + 1 = 0) := by omega
    simp only [hne, decide_false, Bool.false_eq_true, if_false]
    constructor
    · have : ((T : Nat) : Int).toNat = T := Int.toNat_natCast _
      rw [this]; omega
    · push_cast; ring

/-- comparing `M·2^a` with `t·2^c` (`a`, `c` the negative / positive part of `be = k + j − (L+1)`) is comparing
`2·M·2^L` with `t·2^(k+j)` -/
theorem cmp_scale (M t k j L : Nat) (be : Int) (hbe : be = (k : Int) + j - (L + 1)) :
    compare (M * 2 ^ (-be).toNat) (t * 2 ^ be.toNat) = compare (2 * (M * 2 ^ L)) (t * 2 ^ (k + j)) := by
  have key : ∀ a b c : Nat, 0 < c → compare (a * c) (b * c) = compare a b := by
    intro a b c hc
    rcases Nat.lt_trichotomy a b with h | h | h
    · rw [Nat.compare_eq_lt.mpr h, Nat.compare_eq_lt.mpr (Nat.mul_lt_mul_of_pos_right h hc)]
    · subst h; rw [Nat.compare_eq_eq.mpr rfl, Nat.compare_eq_eq.mpr rfl]
    · rw [Nat.compare_eq_gt.mpr h, Nat.compare_eq_gt.mpr (Nat.mul_lt_mul_of_pos_right h hc)]
  by_cases h0 : 0 ≤ be
  · obtain ⟨n, hn⟩ : ∃ n : Nat, be = (n : Int) := ⟨be.toNat, by omega⟩
    subst hn
    have e1 : (-(n : Int)).toNat = 0 := by omega
    have e2 : k + j = n + (L + 1) := by omega
    rw [e1, Int.toNat_natCast, Nat.pow_zero, Nat.mul_one, e2]
    have a1 : 2 * (M * 2 ^ L) = M * 2 ^ (L + 1) := by rw [Nat.pow_succ]; ring
    have a2 : t * 2 ^ (n + (L + 1)) = t * 2 ^ n * 2 ^ (L + 1) := by rw [Nat.pow_add]; ring
    rw [a1, a2, key _ _ _ (Nat.two_pow_pos _)]
  · obtain ⟨n, hn⟩ : ∃ n : Nat, -be = (n : Int) := ⟨(-be).toNat, by omega⟩
    have e0 : be.toNat = 0 := by omega
    have e2 : L + 1 = n + (k + j) := by omega
    rw [hn, Int.toNat_natCast, e0, Nat.pow_zero, Nat.mul_one]
    have a1 : 2 * (M * 2 ^ L) = M * 2 ^ n * 2 ^ (k + j) := by
      have : 2 * 2 ^ L = 2 ^ (L + 1) := by rw [Nat.pow_succ]; ring
      calc 2 * (M * 2 ^ L) = M * (2 * 2 ^ L) := by ring
        _ = M * 2 ^ (n + (k + j)) := by rw [this, e2]
        _ = M * 2 ^ n * 2 ^ (k + j) := by rw [Nat.pow_add]; ring
    rw [a1, key _ _ _ (Nat.two_pow_pos _)]

/-- the rounding decision: bracketed by `b = (k, q)` and `next(b)`, compared exactly with the midpoint, ties to even -/
theorem roundNE_of_bracket {f : Fmt} (hf : WF f) {num den : Nat} (hd : 0 < den) (k q : Nat)
    (h1 : 0 < k → 2 ^ (f.p - 1) ≤ q) (h2 : q < 2 * 2 ^ (f.p - 1))
    (hlo : q * 2 ^ k * den ≤ num * 2 ^ L f) (hhi : num * 2 ^ L f ≤ (q + 1) * 2 ^ k * den) :
    roundNE f num den = encode f k
      (q + if ordUp (compare (2 * (num * 2 ^ L f)) ((2 * q + 1) * 2 ^ k * den)) (decide (q % 2 = 1)) then 1 else 0) := by
  have hDk : 0 < den * 2 ^ k := Nat.mul_pos hd (Nat.two_pow_pos k)
  have eq1 : q * 2 ^ k * den = den * 2 ^ k * q := by ring
  have eq2 : (q + 1) * 2 ^ k * den = den * 2 ^ k * q + den * 2 ^ k := by ring
  have eq3 : (2 * q + 1) * 2 ^ k * den = 2 * (den * 2 ^ k * q) + den * 2 ^ k := by ring
  rw [eq1] at hlo
  rw [eq2] at hhi
  rw [eq3]
  generalize hN : num * 2 ^ L f = N at *
  generalize hD : den * 2 ^ k = Dk at *
  have hA : 0 < k → Dk * 2 ^ (f.p - 1) ≤ N := by
    intro hk
    have := Nat.mul_le_mul_left Dk (h1 hk)
    omega
  rcases Nat.lt_trichotomy (2 * N) (2 * (Dk * q) + Dk) with hc | hc | hc
  · rw [Nat.compare_eq_lt.mpr hc]
    simp only [ordUp, Bool.false_eq_true, if_false, Nat.add_zero]
    apply roundNE_of_q0 hf (Nat.ne_of_gt hd) k q h1 (by omega)
    all_goals rw [hN, hD]
    all_goals first | exact hA | omega
  · rw [Nat.compare_eq_eq.mpr hc]
    by_cases hodd : q % 2 = 1
    · simp only [ordUp, hodd, decide_true, if_true]
      have e : Dk * (q + 1) = Dk * q + Dk := by ring
      apply roundNE_of_q0 hf (Nat.ne_of_gt hd) k (q + 1) (fun hk => by have := h1 hk; omega) (by omega)
      all_goals (rw [hN, hD]; try rw [e])
      all_goals first | exact hA | omega
    · simp only [ordUp, hodd, decide_false, Bool.false_eq_true, if_false, Nat.add_zero]
      apply roundNE_of_q0 hf (Nat.ne_of_gt hd) k q h1 (by omega)
      all_goals rw [hN, hD]
      all_goals first | exact hA | omega
  · rw [Nat.compare_eq_gt.mpr hc]
    simp only [ordUp, if_true]
    have e : Dk * (q + 1) = Dk * q + Dk := by ring
    apply roundNE_of_q0 hf (Nat.ne_of_gt hd) k (q + 1) (fun hk => by have := h1 hk; omega) (by omega)
    all_goals (rw [hN, hD]; try rw [e])
    all_goals first | exact hA | omega

theorem bhOf_kq {F p eb} (lay : Layout F p eb) (hden : F.C.denormalExponent = 1 - F.C.exponentBias)
    (k q : Nat) (h1 : 0 < k → 2 ^ (p - 1) ≤ q) (h2 : q < 2 * 2 ^ (p - 1))
    (hfin : k * 2 ^ (p - 1) + q ≤ F.fmt.infBits) :
    bhOf F (k * 2 ^ (p - 1) + q) = ⟨2 * q + 1, (k : Int) - F.C.exponentBias⟩ := by
  obtain ⟨dm, de⟩ := decode_kq lay hden k q h1 h2 hfin
  unfold bhOf bOf
  rw [dm, de]
  dsimp only
  have hp64 := lay.hp64; have heb := lay.heb; have hp := lay.hp
  have hq : q < 2 ^ 62 := by
    have : 2 * 2 ^ (p - 1) ≤ 2 ^ 62 := by
      rw [← Nat.pow_succ']; exact Nat.pow_le_pow_right (by decide) (by omega)
    omega
  have h62 : (2 : Nat) ^ 62 = 4611686018427387904 := by norm_num
  have h64 : (2 : Nat) ^ 64 = 18446744073709551616 := by norm_num
  congr 1
  · unfold wrap64 shl64
    rw [h64]; omega
  · omega

/-- the computation of `negative_digit_comp` with both roundings abstracted: `hbits` — the estimate rounds down to
`b = k·2^(p−1) + q`; `hround` — the final `round` re-derives `q` and adds what the callback says; `hfinal` — `roundNE` of
the value is `b` plus the increment the exact comparison with `b + h` dictates. Instantiated for an estimate above the
underflow cut (`negativeDigitComp_core`) and below it (`negativeDigitComp_tiny`, `b = 0`). -/
theorem negativeDigitComp_abstract {F p eb} (lay : Layout F p eb)
    (hden : F.C.denormalExponent = 1 - F.C.exponentBias) {E : Env} (hdbg : E.debug = false)
    {radix h : Nat} (hr : radix = 2 * h) (Th : BigPowOk E h) (T2 : BigPowOk E 2)
    {M : Nat} (hM : M ≠ 0) (fp : ExtendedFloat80) {e : Int} (he : e < 0) (he' : -(2 ^ 28 : Int) < e)
    (k q : Nat) (hkb : (k : Int) < 2 ^ 20 + 64)
    (hbits : extendedToFloat F (round F fp roundDown) = k * 2 ^ (p - 1) + q)
    (h1 : 0 < k → 2 ^ (p - 1) ≤ q) (qb : q < 2 * 2 ^ (p - 1))
    (hround : ∀ ord : Ordering,
      0 ≤ (round F fp (fun f s => roundNearestTieEven f s (fun isOdd _ _ => ordUp ord isOdd))).exp ∧
      extendedToFloat F (round F fp (fun f s => roundNearestTieEven f s (fun isOdd _ _ => ordUp ord isOdd))) =
        encode F.fmt k (q + if ordUp ord (decide (q % 2 = 1)) then 1 else 0))
    (hfin : k * 2 ^ (p - 1) + q ≤ F.fmt.infBits)
    (hfinal : roundNE F.fmt M (radix ^ (-e).toNat) = encode F.fmt k
      (q + if ordUp (compare (2 * (M * 2 ^ L F.fmt)) ((2 * q + 1) * 2 ^ k * radix ^ (-e).toNat)) (decide (q % 2 = 1))
        then 1 else 0))
    (hfitT : (2 * q + 1) * h ^ (-e).toNat * 2 ^ ((k : Int) - F.C.exponentBias - e).toNat < 2 ^ (64 * E.L.bigintLimbs))
    (hfitR : M * 2 ^ (-((k : Int) - F.C.exponentBias - e)).toNat < 2 ^ (64 * E.L.bigintLimbs)) :
    ∃ r, negativeDigitComp E F radix M fp e = some r ∧ 0 ≤ r.exp ∧
      extendedToFloat F r = roundNE F.fmt M (radix ^ (-e).toNat) := by
  have hp := lay.hp; have hp64 := lay.hp64; have heb := lay.heb
  have hfp : F.fmt.p = p := by rw [lay.fmt]
  have hbh := bhOf_kq lay hden k q h1 qb hfin
  have hB := lay.bias
  have heb15 := lay.heb15
  have hbias0 : 0 ≤ F.C.exponentBias := by rw [hB]; omega
  have hbias : F.C.exponentBias < 2 ^ 16 := by
    rw [hB]
    have : 2 ^ (eb - 1) ≤ 2 ^ 14 := Nat.pow_le_pow_right (by decide) (by omega)
    have h14 : (2 : Nat) ^ 14 = 16384 := by norm_num
    have h16 : (2 : Int) ^ 16 = 65536 := by norm_num
    omega
  have h16 : (2 : Int) ^ 16 = 65536 := by norm_num
  have h20 : (2 : Int) ^ 20 = 1048576 := by norm_num
  have h28 : (2 : Int) ^ 28 = 268435456 := by norm_num
  have h29 : (2 : Nat) ^ 29 = 536870912 := by norm_num
  have h31 : (2 : Int) ^ 31 = 2147483648 := by norm_num
  have h32 : (2 : Int) ^ 32 = 4294967296 := by norm_num
  obtain ⟨j, hj⟩ : ∃ j : Nat, -e = (j : Int) := ⟨(-e).toNat, by omega⟩
  have hjpos : 0 < j := by omega
  have hjn : (-e).toNat = j := by omega
  rw [hjn] at hfinal hfitT ⊢
  generalize hbe : (k : Int) - F.C.exponentBias - e = be at *
  have hrad2 : radix % 2 = 0 := by omega
  have hhalf : radix / 2 = h := by omega
  have hhpos : 0 < h := by
    have := Th.split
    apply Nat.pos_of_ne_zero; intro h0
    rw [h0] at this
    split at this <;> simp_all
  have hradpos : 0 < radix := by omega
  have w1 : wrapI32 (-e) = (j : Int) := by rw [hj]; apply wrapI32_eq <;> omega
  have w2 : wrapI32 ((k : Int) - F.C.exponentBias - e) = be := by rw [hbe]; apply wrapI32_eq <;> omega
  have hj0 : ¬ ((j : Int) = 0) := by omega
  have hT1 : (2 * q + 1) * h ^ j < 2 ^ (64 * E.L.bigintLimbs) :=
    Nat.lt_of_le_of_lt (Nat.le_mul_of_pos_right _ (Nat.two_pow_pos _)) hfitT
  unfold negativeDigitComp compareBig
  rw [hdbg]
  dsimp only
  rw [hbits, hbh]
  dsimp only
  simp only [Bool.false_and, Bool.false_eq_true, if_false, hrad2, if_true, w1, w2, hj0, not_false_eq_true,
    ne_eq, not_true_eq_false, hhalf, Option.bind_some]
  rw [asU32_ofNat (by omega) (by omega), Int.toNat_natCast,
    bigintPow_eq Th (by omega) j (by omega) hT1]
  simp only [Option.bind_some]
  -- the comparison is the one with the midpoint
  have hcmp := cmp_scale M ((2 * q + 1) * h ^ j) k j (L F.fmt) be (by
    rw [← hbe, hB, ← hj]
    have hL := L_eq lay
    rw [hL]; omega)
  have hmid : (2 * q + 1) * h ^ j * 2 ^ (k + j) = (2 * q + 1) * 2 ^ k * radix ^ j := by
    rw [hr, Nat.mul_pow, Nat.pow_add]; ring
  rw [hmid] at hcmp
  obtain ⟨r1, r2⟩ := hround (compare (M * 2 ^ (-be).toNat) ((2 * q + 1) * h ^ j * 2 ^ be.toNat))
  replace r2 : extendedToFloat F (round F fp (fun f s => roundNearestTieEven f s (fun isOdd _ _ =>
      ordUp (compare (M * 2 ^ (-be).toNat) ((2 * q + 1) * h ^ j * 2 ^ be.toNat)) isOdd))) =
      roundNE F.fmt M (radix ^ j) := by
    rw [r2, hcmp]; exact hfinal.symm
  by_cases hpos : be > 0
  · rw [if_pos hpos, asU32_ofNat (by omega) (by omega),
      bigintPow_eq T2 (Nat.mul_ne_zero (by omega) (Nat.ne_of_gt (Nat.pow_pos hhpos))) be.toNat (by omega) hfitT]
    simp only [Option.map_some]
    have e0 : (-be).toNat = 0 := by omega
    rw [e0, Nat.pow_zero, Nat.mul_one] at r1 r2
    exact ⟨_, rfl, r1, r2⟩
  · rw [if_neg hpos]
    by_cases hneg : be < 0
    · have w3 : wrapI32 (-be) = -be := by apply wrapI32_eq <;> omega
      rw [if_pos hneg, w3, asU32_ofNat (by omega) (by omega), bigintPow_eq T2 hM _ (by omega) hfitR]
      simp only [Option.map_some]
      have e0 : be.toNat = 0 := by omega
      rw [e0, Nat.pow_zero, Nat.mul_one] at r1 r2
      exact ⟨_, rfl, r1, r2⟩
    · rw [if_neg hneg]
      simp only [Option.map_some]
      have e0 : be.toNat = 0 := by omega
      have e1 : (-be).toNat = 0 := by omega
      rw [e0, e1, Nat.pow_zero, Nat.mul_one, Nat.mul_one] at r1 r2
      exact ⟨_, rfl, r1, r2⟩

/-- the estimate above the underflow cut: whatever tells that `roundNE` of the value is `b` plus the increment the exact
comparison with `b + h` dictates (`hfinal`) makes the call correct. -/
theorem negativeDigitComp_core {F p eb} (lay : Layout F p eb)
    (hden : F.C.denormalExponent = 1 - F.C.exponentBias) {E : Env} (hdbg : E.debug = false)
    {radix h : Nat} (hr : radix = 2 * h) (Th : BigPowOk E h) (T2 : BigPowOk E 2)
    {M : Nat} (hM : M ≠ 0) (fp : ExtendedFloat80) (hm1 : 2 ^ 63 ≤ fp.mant) (hm2 : fp.mant < 2 ^ 64)
    (hp2 : -fp.exp + 1 ≤ 64) (hfe : fp.exp < 2 ^ 20) {e : Int} (he : e < 0) (he' : -(2 ^ 28 : Int) < e)
    (k q : Nat) (hk : k = (fp.exp + 64 - p - 1).toNat) (hq : q = fp.mant / 2 ^ shiftOf p fp.exp)
    (hfin : k * 2 ^ (p - 1) + q < F.fmt.infBits)
    (hfinal : roundNE F.fmt M (radix ^ (-e).toNat) = encode F.fmt k
      (q + if ordUp (compare (2 * (M * 2 ^ L F.fmt)) ((2 * q + 1) * 2 ^ k * radix ^ (-e).toNat)) (decide (q % 2 = 1))
        then 1 else 0))
    (hfitT : (2 * q + 1) * h ^ (-e).toNat * 2 ^ ((k : Int) - F.C.exponentBias - e).toNat < 2 ^ (64 * E.L.bigintLimbs))
    (hfitR : M * 2 ^ (-((k : Int) - F.C.exponentBias - e)).toNat < 2 ^ (64 * E.L.bigintLimbs)) :
    ∃ r, negativeDigitComp E F radix M fp e = some r ∧ 0 ≤ r.exp ∧
      extendedToFloat F r = roundNE F.fmt M (radix ^ (-e).toNat) := by
  have hp := lay.hp; have hp64 := lay.hp64; have heb := lay.heb
  have hfp : F.fmt.p = p := by rw [lay.fmt]
  have h20 : (2 : Int) ^ 20 = 1048576 := by norm_num
  obtain ⟨qa, qb, qc, qd, qe⟩ := quot_bounds hp (by omega) hm1 hm2 fp.exp hp2
  rw [← hk, ← hq] at qa
  rw [← hq] at qb
  rw [← hk] at qe
  have h1 : 0 < k → 2 ^ (p - 1) ≤ q := fun h0 => (qa h0).2.1
  have hbits : extendedToFloat F (round F fp roundDown) = k * 2 ^ (p - 1) + q := by
    rw [round_down_bits lay fp hm1 hm2 hp2, ← hk, ← hq]
    unfold encode
    rw [hfp, if_neg (by omega)]
  apply negativeDigitComp_abstract lay hden hdbg hr Th T2 hM fp he he' k q (by omega) hbits h1 qb ?_ (Nat.le_of_lt hfin) hfinal
    hfitT hfitR
  intro ord
  obtain ⟨r1, r2⟩ := round_bits lay fp.mant fp.exp (fun isOdd _ _ => ordUp ord isOdd) hm1 hm2 hp2
  rw [← hk, ← hq] at r2
  refine ⟨r1, ?_⟩
  rw [r2]
  unfold upOf
  rw [← hq]

/-- **`negative_digit_comp_correct`** on the model (even radix `radix = 2·h`, the radices with a digit limit).
`fp`: normalised significand, exponent not below the underflow cut; `b = k·2^(p−1) + q` its round-down, finite;
the value `M / radix^j` (`j = −e > 0`) is bracketed by `b` and `next(b)` (in units of `2^−L`); the two big
integers fit (`hfitT`, `hfitR`: the capacity guard). Then no panic, a valid float, bits = `roundNE (M / radix^j)`. -/
theorem negativeDigitComp_correct {F p eb} (lay : Layout F p eb)
    (hden : F.C.denormalExponent = 1 - F.C.exponentBias) {E : Env} (hdbg : E.debug = false)
    {radix h : Nat} (hr : radix = 2 * h) (Th : BigPowOk E h) (T2 : BigPowOk E 2)
    {M : Nat} (hM : M ≠ 0) (fp : ExtendedFloat80) (hm1 : 2 ^ 63 ≤ fp.mant) (hm2 : fp.mant < 2 ^ 64)
    (hp2 : -fp.exp + 1 ≤ 64) (hfe : fp.exp < 2 ^ 20) {e : Int} (he : e < 0) (he' : -(2 ^ 28 : Int) < e)
    (k q : Nat) (hk : k = (fp.exp + 64 - p - 1).toNat) (hq : q = fp.mant / 2 ^ shiftOf p fp.exp)
    (hfin : k * 2 ^ (p - 1) + q < F.fmt.infBits)
    (hlo : q * 2 ^ k * radix ^ (-e).toNat ≤ M * 2 ^ L F.fmt)
    (hhi : M * 2 ^ L F.fmt ≤ (q + 1) * 2 ^ k * radix ^ (-e).toNat)
    (hfitT : (2 * q + 1) * h ^ (-e).toNat * 2 ^ ((k : Int) - F.C.exponentBias - e).toNat < 2 ^ (64 * E.L.bigintLimbs))
    (hfitR : M * 2 ^ (-((k : Int) - F.C.exponentBias - e)).toNat < 2 ^ (64 * E.L.bigintLimbs)) :
    ∃ r, negativeDigitComp E F radix M fp e = some r ∧ 0 ≤ r.exp ∧
      extendedToFloat F r = roundNE F.fmt M (radix ^ (-e).toNat) := by
  have hp := lay.hp; have hp64 := lay.hp64; have heb := lay.heb
  have hfp : F.fmt.p = p := by rw [lay.fmt]
  obtain ⟨qa, qb, qc, qd, qe⟩ := quot_bounds hp (by omega) hm1 hm2 fp.exp hp2
  rw [← hk, ← hq] at qa
  rw [← hq] at qb
  have hhpos : 0 < h := by
    have := Th.split
    apply Nat.pos_of_ne_zero; intro h0
    rw [h0] at this
    split at this <;> simp_all
  exact negativeDigitComp_core lay hden hdbg hr Th T2 hM fp hm1 hm2 hp2 hfe he he' k q hk hq hfin
    (roundNE_of_bracket lay.wf (Nat.pow_pos (by omega) : 0 < radix ^ (-e).toNat) k q
      (by rw [hfp]; exact fun h0 => (qa h0).2.1) (by rw [hfp]; exact qb) hlo hhi) hfitT hfitR

/-- the rounding decision under the **weak** bracket of the pipeline (`Props.C01.Bracket`): the correctly rounded value is
`b` or its successor (as bit patterns) — all `negative_digit_comp` needs: the exact comparison with `b + h` then tells
which, by the cell characterisation of `roundNE` -/
theorem roundNE_of_weak_bracket {f : Fmt} (hf : WF f) {num den : Nat} (hd : 0 < den) (k q : Nat)
    (h1 : 0 < k → 2 ^ (f.p - 1) ≤ q) (h2 : q < 2 * 2 ^ (f.p - 1))
    (hfin : k * 2 ^ (f.p - 1) + q < f.infBits)
    (hlo : k * 2 ^ (f.p - 1) + q ≤ roundNE f num den) (hhi : roundNE f num den ≤ k * 2 ^ (f.p - 1) + q + 1) :
    roundNE f num den = encode f k
      (q + if ordUp (compare (2 * (num * 2 ^ L f)) ((2 * q + 1) * 2 ^ k * den)) (decide (q % 2 = 1)) then 1 else 0) := by
  have cell := inCell_roundNE hf num (Nat.ne_of_gt hd)
  have hi1 : ival f (k * 2 ^ (f.p - 1) + q) = q * 2 ^ k := ival_kq f k q h1 (by omega)
  have hi2 : ival f (k * 2 ^ (f.p - 1) + q + 1) = (q + 1) * 2 ^ k := by
    rw [Nat.add_assoc]; exact ival_kq f k (q + 1) (fun h0 => by have := h1 h0; omega) (by omega)
  have hmid : den * (ival f (k * 2 ^ (f.p - 1) + q) + ival f (k * 2 ^ (f.p - 1) + q + 1)) =
      (2 * q + 1) * 2 ^ k * den := by rw [hi1, hi2]; ring
  obtain ⟨t, hT, _⟩ := T_even hf
  have hpar : (k * 2 ^ (f.p - 1) + q) % 2 = q % 2 := by
    rw [hT, show k * (2 * t) = 2 * (k * t) by ring]; omega
  -- the unclamped encodings
  have enc0 : encode f k q = k * 2 ^ (f.p - 1) + q := by unfold encode; rw [if_neg (by omega)]
  have enc1 : encode f k (q + 1) = k * 2 ^ (f.p - 1) + q + 1 := by
    unfold encode
    split
    · omega
    · omega
  generalize hb : k * 2 ^ (f.p - 1) + q = b at *
  generalize hN : num * 2 ^ L f = N at *
  generalize hr : roundNE f num den = r at *
  have hcases : r = b ∨ r = b + 1 := by omega
  rcases Nat.lt_trichotomy (2 * N) ((2 * q + 1) * 2 ^ k * den) with hc | hc | hc
  · rw [Nat.compare_eq_lt.mpr hc]
    simp only [ordUp, Bool.false_eq_true, if_false, Nat.add_zero]
    rw [enc0]
    rcases hcases with h | h
    · exact h
    · exfalso
      have := cell.lower (by omega)
      rw [h, Nat.add_sub_cancel, hmid] at this
      omega
  · rw [Nat.compare_eq_eq.mpr hc]
    by_cases hodd : q % 2 = 1
    · simp only [ordUp, hodd, decide_true, if_true]
      rw [enc1]
      rcases hcases with h | h
      · exfalso
        have := cell.upper_tie (by omega) (by rw [h, hmid]; exact hc)
        rw [h] at this; omega
      · exact h
    · simp only [ordUp, hodd, decide_false, Bool.false_eq_true, if_false, Nat.add_zero]
      rw [enc0]
      rcases hcases with h | h
      · exact h
      · exfalso
        have := cell.lower_tie (by omega) (by rw [h, Nat.add_sub_cancel, hmid]; exact hc.symm)
        rw [h] at this; omega
  · rw [Nat.compare_eq_gt.mpr hc]
    simp only [ordUp, if_true]
    rw [enc1]
    rcases hcases with h | h
    · exfalso
      have := cell.upper (by omega)
      rw [h, hmid] at this
      omega
    · exact h

/-- **`negative_digit_comp_correct`, weak-bracket form**: as `negativeDigitComp_correct`, with the precondition of the
pipeline theorem — `b ≤ roundNE (M/radix^j) ≤ b + 1` as bit patterns, `b` the round-down of the error float -/
theorem negativeDigitComp_correct_weak {F p eb} (lay : Layout F p eb)
    (hden : F.C.denormalExponent = 1 - F.C.exponentBias) {E : Env} (hdbg : E.debug = false)
    {radix h : Nat} (hr : radix = 2 * h) (Th : BigPowOk E h) (T2 : BigPowOk E 2)
    {M : Nat} (hM : M ≠ 0) (fp : ExtendedFloat80) (hm1 : 2 ^ 63 ≤ fp.mant) (hm2 : fp.mant < 2 ^ 64)
    (hp2 : -fp.exp + 1 ≤ 64) (hfe : fp.exp < 2 ^ 20) {e : Int} (he : e < 0) (he' : -(2 ^ 28 : Int) < e)
    (k q : Nat) (hk : k = (fp.exp + 64 - p - 1).toNat) (hq : q = fp.mant / 2 ^ shiftOf p fp.exp)
    (hfin : k * 2 ^ (p - 1) + q < F.fmt.infBits)
    (hlo : k * 2 ^ (p - 1) + q ≤ roundNE F.fmt M (radix ^ (-e).toNat))
    (hhi : roundNE F.fmt M (radix ^ (-e).toNat) ≤ k * 2 ^ (p - 1) + q + 1)
    (hfitT : (2 * q + 1) * h ^ (-e).toNat * 2 ^ ((k : Int) - F.C.exponentBias - e).toNat < 2 ^ (64 * E.L.bigintLimbs))
    (hfitR : M * 2 ^ (-((k : Int) - F.C.exponentBias - e)).toNat < 2 ^ (64 * E.L.bigintLimbs)) :
    ∃ r, negativeDigitComp E F radix M fp e = some r ∧ 0 ≤ r.exp ∧
      extendedToFloat F r = roundNE F.fmt M (radix ^ (-e).toNat) := by
  have hp := lay.hp; have hp64 := lay.hp64; have heb := lay.heb
  have hfp : F.fmt.p = p := by rw [lay.fmt]
  obtain ⟨qa, qb, qc, qd, qe⟩ := quot_bounds hp (by omega) hm1 hm2 fp.exp hp2
  rw [← hk, ← hq] at qa
  rw [← hq] at qb
  have hhpos : 0 < h := by
    have := Th.split
    apply Nat.pos_of_ne_zero; intro h0
    rw [h0] at this
    split at this <;> simp_all
  exact negativeDigitComp_core lay hden hdbg hr Th T2 hM fp hm1 hm2 hp2 hfe he he' k q hk hq hfin
    (roundNE_of_weak_bracket lay.wf (Nat.pow_pos (by omega) : 0 < radix ^ (-e).toNat) k q
      (by rw [hfp]; exact fun h0 => (qa h0).2.1) (by rw [hfp]; exact qb) (by rw [hfp]; exact hfin)
      (by rw [hfp]; exact hlo) (by rw [hfp]; exact hhi)) hfitT hfitR

/-! ## the estimate below the underflow cut (`−exp + 1 > 64`): `b = 0`, the answer is `0` or the least subnormal -/

/-- `shared::round` of an estimate more than 64 bits below the least subnormal's exponent: only the callback's
increment survives -/
theorem round_tiny {F p eb} (lay : Layout F p eb) (mant : Nat) (e : Int) (cb : Bool → Bool → Bool → Bool)
    (hm2 : mant < 2 ^ 64) (he : -e + 1 > 64) :
    round F ⟨mant, e⟩ (fun f s => roundNearestTieEven f s cb) = ⟨upOf mant 64 cb, 0⟩ := by
  have hp := lay.hp; have hp64 := lay.hp64; have heb := lay.heb
  unfold round
  rw [lay.ms, lay.hidden]
  have hden : -e ≥ 64 - ((p - 1 : Nat) : Int) - 1 := by omega
  rw [if_pos hden]
  have hmin : (min (-e + 1) 64).toNat = 64 := by
    rw [Int.min_eq_right (by omega)]; rfl
  simp only [hmin, rnte_eq mant e 64 cb hm2 (by decide) (Nat.le_refl _)]
  have hdiv : mant / 2 ^ 64 = 0 := Nat.div_eq_of_lt hm2
  rw [hdiv, Nat.zero_add]
  have hu := upOf_le mant 64 cb
  have hT : 2 ≤ 2 ^ (p - 1) := by
    calc 2 = 2 ^ 1 := rfl
      _ ≤ 2 ^ (p - 1) := Nat.pow_le_pow_right (by decide) (by omega)
  have : ¬ (((upOf mant 64 cb : Nat) : Int) ≥ ((2 ^ (p - 1) : Nat) : Int)) := by omega
  rw [if_neg this]

theorem ext_small {F p eb} (lay : Layout F p eb) (u : Nat) (hu : u ≤ 1) : extendedToFloat F ⟨u, 0⟩ = u := by
  have hp := lay.hp; have hp64 := lay.hp64; have heb := lay.heb
  have hbits : F.C.bits.toNat = p + eb := by rw [lay.bits]; rfl
  have hT : 2 ≤ 2 ^ (p - 1) := by
    calc 2 = 2 ^ 1 := rfl
      _ ≤ 2 ^ (p - 1) := Nat.pow_le_pow_right (by decide) (by omega)
  have hbig : 2 ^ (p - 1) ≤ 2 ^ (p + eb) := Nat.pow_le_pow_right (by decide) (by omega)
  have := ext_of_fields F (p - 1) (p + eb) lay.msNat hbits u 0 (by omega) (by omega) hp64
  simpa using this

/-- **`negative_digit_comp` below the underflow cut**: the estimate rounds down to `+0`, `b + h` is half the least
subnormal, and the comparison decides between `0` and the least subnormal (`k = q = 0` in `negativeDigitComp_abstract`) -/
theorem negativeDigitComp_tiny {F p eb} (lay : Layout F p eb)
    (hden : F.C.denormalExponent = 1 - F.C.exponentBias) {E : Env} (hdbg : E.debug = false)
    {radix h : Nat} (hr : radix = 2 * h) (Th : BigPowOk E h) (T2 : BigPowOk E 2)
    {M : Nat} (hM : M ≠ 0) (fp : ExtendedFloat80) (hm2 : fp.mant < 2 ^ 64)
    (hp2 : -fp.exp + 1 > 64) {e : Int} (he : e < 0) (he' : -(2 ^ 28 : Int) < e)
    (hfinal : roundNE F.fmt M (radix ^ (-e).toNat) = encode F.fmt 0
      (0 + if ordUp (compare (2 * (M * 2 ^ L F.fmt)) ((2 * 0 + 1) * 2 ^ 0 * radix ^ (-e).toNat)) (decide (0 % 2 = 1))
        then 1 else 0))
    (hfitT : (2 * 0 + 1) * h ^ (-e).toNat * 2 ^ (((0 : Nat) : Int) - F.C.exponentBias - e).toNat <
      2 ^ (64 * E.L.bigintLimbs))
    (hfitR : M * 2 ^ (-(((0 : Nat) : Int) - F.C.exponentBias - e)).toNat < 2 ^ (64 * E.L.bigintLimbs)) :
    ∃ r, negativeDigitComp E F radix M fp e = some r ∧ 0 ≤ r.exp ∧
      extendedToFloat F r = roundNE F.fmt M (radix ^ (-e).toNat) := by
  have hp := lay.hp; have hp64 := lay.hp64; have heb := lay.heb
  have hfp : F.fmt.p = p := by rw [lay.fmt]
  have hinfpos : 0 < F.fmt.infBits := infBits_pos lay.wf
  have h20 : (2 : Int) ^ 20 = 1048576 := by norm_num
  have hbits : extendedToFloat F (round F fp roundDown) = 0 * 2 ^ (p - 1) + 0 := by
    rw [round_roundDown F fp hm2, round_tiny lay fp.mant fp.exp _ hm2 hp2, upOf_false]
    simpa using LexVerif.Proof.BinaryCorrect.ext_zero lay
  apply negativeDigitComp_abstract lay hden hdbg hr Th T2 hM fp he he' 0 0 (by omega) hbits (by omega)
    (by have := Nat.two_pow_pos (p - 1); omega) ?_ (by simpa using hinfpos) hfinal hfitT hfitR
  intro ord
  rw [round_tiny lay fp.mant fp.exp _ hm2 hp2]
  have hu : upOf fp.mant 64 (fun isOdd _ _ => ordUp ord isOdd) = if ordUp ord (decide (0 % 2 = 1)) then 1 else 0 := by
    unfold upOf
    rw [Nat.div_eq_of_lt hm2]
  refine ⟨Int.le_refl _, ?_⟩
  rw [hu]
  have hinf2 : 2 ≤ F.fmt.infBits := by
    rw [infBits_eq, hfp]
    have hM3 := M_ge lay.wf
    have hT : 2 ≤ 2 ^ (p - 1) := by
      calc 2 = 2 ^ 1 := rfl
        _ ≤ 2 ^ (p - 1) := Nat.pow_le_pow_right (by decide) (by omega)
    calc 2 ≤ 2 ^ (p - 1) := hT
      _ = 1 * 2 ^ (p - 1) := (Nat.one_mul _).symm
      _ ≤ F.fmt.maxExpField * 2 ^ (p - 1) := Nat.mul_le_mul_right _ (by omega)
  have hule : (if ordUp ord (decide (0 % 2 = 1)) then 1 else 0) ≤ 1 := by split <;> omega
  generalize (if ordUp ord (decide (0 % 2 = 1)) then 1 else 0) = u at hule ⊢
  rw [ext_small lay u hule]
  unfold encode
  rw [hfp, if_neg (by omega)]
  omega

/-- weak-bracket form below the underflow cut: `0 ≤ roundNE x ≤ 1` as bit patterns -/
theorem negativeDigitComp_tiny_weak {F p eb} (lay : Layout F p eb)
    (hden : F.C.denormalExponent = 1 - F.C.exponentBias) {E : Env} (hdbg : E.debug = false)
    {radix h : Nat} (hr : radix = 2 * h) (Th : BigPowOk E h) (T2 : BigPowOk E 2)
    {M : Nat} (hM : M ≠ 0) (fp : ExtendedFloat80) (hm2 : fp.mant < 2 ^ 64)
    (hp2 : -fp.exp + 1 > 64) {e : Int} (he : e < 0) (he' : -(2 ^ 28 : Int) < e)
    (hhi : roundNE F.fmt M (radix ^ (-e).toNat) ≤ 1)
    (hfitT : (2 * 0 + 1) * h ^ (-e).toNat * 2 ^ (((0 : Nat) : Int) - F.C.exponentBias - e).toNat <
      2 ^ (64 * E.L.bigintLimbs))
    (hfitR : M * 2 ^ (-(((0 : Nat) : Int) - F.C.exponentBias - e)).toNat < 2 ^ (64 * E.L.bigintLimbs)) :
    ∃ r, negativeDigitComp E F radix M fp e = some r ∧ 0 ≤ r.exp ∧
      extendedToFloat F r = roundNE F.fmt M (radix ^ (-e).toNat) := by
  have hhpos : 0 < h := by
    have := Th.split
    apply Nat.pos_of_ne_zero; intro h0
    rw [h0] at this
    split at this <;> simp_all
  have hfp : F.fmt.p = p := by rw [lay.fmt]
  have hinfpos : 0 < F.fmt.infBits := infBits_pos lay.wf
  exact negativeDigitComp_tiny lay hden hdbg hr Th T2 hM fp hm2 hp2 he he'
    (roundNE_of_weak_bracket lay.wf (Nat.pow_pos (by omega) : 0 < radix ^ (-e).toNat) 0 0 (by omega)
      (by have := Nat.two_pow_pos (F.fmt.p - 1); omega) (by simpa using hinfpos) (by simp) (by simpa using hhi))
    hfitT hfitR

/-! ## the estimate rounds down to infinity -/

/-- **`b = +∞`**: an estimate of a value of at least `2^(emax+1)` that `lemire` did not answer itself. `bh(+∞)` is the
hidden bit with the all-ones exponent field, `(2·2^(p−1) + 1)·2^(2^eb − 2 − bias)`; whatever the comparison says, the
final `round` overflows again: the result is `+∞ = roundNE` of the value. -/
theorem negativeDigitComp_inf {F p eb} (lay : Layout F p eb)
    (hden : F.C.denormalExponent = 1 - F.C.exponentBias) {E : Env} (hdbg : E.debug = false)
    {radix h : Nat} (hr : radix = 2 * h) (Th : BigPowOk E h) (T2 : BigPowOk E 2)
    {M : Nat} (hM : M ≠ 0) (fp : ExtendedFloat80) (hm1 : 2 ^ 63 ≤ fp.mant) (hm2 : fp.mant < 2 ^ 64)
    (hp2 : -fp.exp + 1 ≤ 64) {e : Int} (he : e < 0) (he' : -(2 ^ 28 : Int) < e)
    (hov : F.fmt.infBits ≤ (fp.exp + 64 - p - 1).toNat * 2 ^ (p - 1) + fp.mant / 2 ^ shiftOf p fp.exp)
    (hval : roundNE F.fmt M (radix ^ (-e).toNat) = F.fmt.infBits)
    (hfitT : (2 * 2 ^ (p - 1) + 1) * h ^ (-e).toNat * 2 ^ (((2 ^ eb - 2 : Nat) : Int) - F.C.exponentBias - e).toNat <
      2 ^ (64 * E.L.bigintLimbs))
    (hfitR : M * 2 ^ (-(((2 ^ eb - 2 : Nat) : Int) - F.C.exponentBias - e)).toNat < 2 ^ (64 * E.L.bigintLimbs)) :
    ∃ r, negativeDigitComp E F radix M fp e = some r ∧ 0 ≤ r.exp ∧
      extendedToFloat F r = roundNE F.fmt M (radix ^ (-e).toNat) := by
  have hp := lay.hp; have hp64 := lay.hp64; have heb := lay.heb; have heb15 := lay.heb15
  have hfp : F.fmt.p = p := by rw [lay.fmt]
  have hinf : F.fmt.infBits = (2 ^ eb - 1) * 2 ^ (p - 1) := by rw [lay.fmt]; rfl
  have hT := Nat.two_pow_pos (p - 1)
  have heb4 : 4 ≤ 2 ^ eb := by
    calc 4 = 2 ^ 2 := rfl
      _ ≤ 2 ^ eb := Nat.pow_le_pow_right (by decide) heb
  have heb15' : 2 ^ eb ≤ 2 ^ 15 := Nat.pow_le_pow_right (by decide) heb15
  have h15 : (2 : Nat) ^ 15 = 32768 := by norm_num
  have h20 : (2 : Int) ^ 20 = 1048576 := by norm_num
  have hkq : (2 ^ eb - 2) * 2 ^ (p - 1) + 2 ^ (p - 1) = F.fmt.infBits := by
    rw [hinf, ← Nat.succ_mul]; congr 1; omega
  have henc : ∀ x, encode F.fmt (2 ^ eb - 2) (2 ^ (p - 1) + x) = F.fmt.infBits := by
    intro x
    unfold encode
    rw [hfp, if_pos (by omega)]
  apply negativeDigitComp_abstract lay hden hdbg hr Th T2 hM fp he he' (2 ^ eb - 2) (2 ^ (p - 1)) (by omega) ?_
    (fun _ => Nat.le_refl _) (by omega) ?_ (Nat.le_of_eq hkq) (by rw [hval, henc]) hfitT hfitR
  · rw [round_down_bits lay fp hm1 hm2 hp2]
    unfold encode
    rw [hfp, if_pos hov, hkq]
  · intro ord
    obtain ⟨r1, r2⟩ := round_bits lay fp.mant fp.exp (fun isOdd _ _ => ordUp ord isOdd) hm1 hm2 hp2
    refine ⟨r1, ?_⟩
    rw [r2, henc]
    unfold encode
    rw [hfp, if_pos (by omega)]

end LexVerif.Proof.Slow
