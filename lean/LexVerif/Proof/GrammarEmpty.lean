import LexVerif.Proof.GrammarMain
/-!
# Proof.GrammarEmpty — nothing after the optional sign, digits required

The class `(splitSign s).2 = []` (empty input, bare `+` / `-`) is excluded from `parseFloatSyntax_grammar`
because of the findings `finding_empty_input` (formats that require neither integer nor mantissa digits accept `""`
and a bare sign). When the format requires integer or mantissa digits — every format when the `format` feature is
off, STANDARD, … — model and grammar agree on this class: both reject.
-/
namespace LexVerif.Proof.Grammar
open LexVerif LexVerif.Spec LexVerif.Model

theorem eqSpecial_nil (cased : Bool) (t : List Nat) (ht : t ≠ []) : eqSpecial cased [] t = false := by
  cases t with
  | nil => exact absurd rfl ht
  | cons a as => rfl

theorem specialOf_nil (y : Syn) (o : POpts) (wf : SpecialsWF o) : specialOf y o [] = none := by
  have h : ∀ str : Option (List Nat), str ≠ some [] → isSpecial y str [] = false := by
    intro str hne
    cases str with
    | none => rfl
    | some t =>
      have : t ≠ [] := fun e => hne (by rw [e])
      simp [isSpecial, eqSpecial_nil _ t this]
  simp [specialOf, h _ wf.nan_ne, h _ wf.inf_ne, h _ wf.infinity_ne]

theorem numberOk_nil (y : Syn) (o : POpts) (sign : Option Bool) (hreq : (y.reqInt || y.reqMant) = true) :
    numberOk y (splitNumber y o sign []) = false := by
  have hP : splitNumber y o sign [] = ⟨sign, false, [], false, [], false, none, [], false, []⟩ := by
    simp [splitNumber, splitPrefix, takeDigits, splitFraction, splitExponent, splitSuffix]
  rw [hP]
  simp only [numberOk, List.isEmpty_nil, Bool.and_true]
  cases hi : y.reqInt <;> cases hm : y.reqMant <;> simp_all

/-- **Empty input / bare sign, integer or mantissa digits required**: the complete parser reports an `Error` and the
grammar rejects (separator-free, prefix-free format, release build). -/
theorem parseFloatSyntax_emptybody {c : Cfg} (hs : Std c) (o : POpts) (wf : SpecialsWF o) (s : List Nat) (fv : Bool)
    (hbody : (splitSign s).2 = []) (hreq : (c.requiredIntegerDigits || c.requiredMantissaDigits) = true) :
    (∃ k i, parseFloatSyntax c o false s fv = .error (.err k i)) ∧ grammarFloatSyn (cfgSyn c) o s = .err := by
  have hreq2 : ((cfgSyn c).reqInt || (cfgSyn c).reqMant) = true := by rw [syn_reqInt, syn_reqMant]; exact hreq
  constructor
  · have htl0 : tl (Bytes.new s) = s := by simp [tl, Bytes.new]
    obtain ⟨hsg1, hsg2⟩ := parseSign_spec (c := c) hs.release c.noPositiveMantissaSign c.requiredMantissaSign
      "InvalidPositiveSign" "MissingSign" (Bytes.new s)
    rw [htl0] at hsg1 hsg2
    unfold parseFloatSyntax parseMantissaSign
    cases hso : signOk c.noPositiveMantissaSign c.requiredMantissaSign (splitSign s).1 with
    | false =>
      obtain ⟨k, i, he⟩ := hsg1 hso
      exact ⟨k, i, by simp only [he, bind, Except.bind]⟩
    | true =>
      obtain ⟨b1, he, hadv⟩ := hsg2 hso
      have hle := (splitSign_rest s).2
      have hv1 : b1.index ≤ b1.slc.length := hadv.valid (by rw [htl0]; omega) (by simp [Bytes.new])
      have htl1 : tl b1 = (splitSign s).2 := by
        rw [hadv.tl, htl0]; exact (splitSign_rest s).1.symm
      have hcons : (tl b1).isEmpty = true := by rw [htl1, hbody]; rfl
      refine ⟨"Empty", b1.index, ?_⟩
      simp only [he, bind, Except.bind, isConsumed_spec hs.nosep b1 hv1, hcons, if_true, hreq]
  · unfold grammarFloatSyn
    split
    · rfl
    · simp only [hbody, numberOk_nil _ o _ hreq2, Bool.false_eq_true, if_false, specialOf_nil _ o wf]
      split <;> rfl

/-- non-vacuity: STANDARD requires mantissa digits; `-` is rejected by both sides -/
example : (Cfg.requiredIntegerDigits ⟨{}, Format.standard, false⟩ || Cfg.requiredMantissaDigits ⟨{}, Format.standard, false⟩)
    = true ∧ (splitSign [45]).2 = [] := by decide

end LexVerif.Proof.Grammar
