import LexVerif.Proof.DragonboxEdges32
/-! `compute_nearest_normal` (f64), binade edges (mantissa field `1` and `2^52 - 1`) at every 4th exponent field, part A -/
namespace LexVerif.Proof.DragonboxSpec
open LexVerif.Model.Dragonbox
theorem edges64_0_512 : (edges .f64 0 512 4).all (dragonboxOk .f64) = true := by decide +kernel
theorem edges64_512_1024 : (edges .f64 512 1024 4).all (dragonboxOk .f64) = true := by decide +kernel
end LexVerif.Proof.DragonboxSpec
