import LexVerif.Proof.RoundTripShape
/-!
# Proof.RoundTripForm — what the shapes of the decimal writer contain (C08)

For each layout: the integer part is non-empty and free of superfluous leading zeros, a fraction part (if present)
is non-empty, every digit is decimal, and the digits are `zeros ++ rounded digits ++ zeros` with the exponent
accounting for the padding and the carry (`DigitsForm`).
-/
namespace LexVerif.Proof.RoundTrip
open LexVerif.Spec LexVerif.Model LexVerif.Model.WriteFloat

/-- the literal `ints . frac e exp` consists of the digits `R` (between zeros) at scientific exponent `sci` -/
def DigitsForm (ints frac : List Nat) (exp : Int) (R : List Nat) (sci : Int) : Prop :=
  ∃ lz z : Nat, ints ++ frac = List.replicate lz 0 ++ R ++ List.replicate z 0 ∧
    exp - (frac.length : Int) + (z : Int) + (R.length : Int) = sci + 1

/-- digit-level facts about a shape -/
structure ShapeDigits (s : Shape) (R : List Nat) (sci : Int) : Prop where
  ints_ne : s.ints ≠ []
  ints_lt : ∀ d ∈ s.ints, d < 10
  frac_ne : ∀ fs, s.frac = some fs → fs ≠ []
  frac_lt : ∀ fs, s.frac = some fs → ∀ d ∈ fs, d < 10
  noLZ : leadingZeros s.ints = false
  form : DigitsForm s.ints (s.frac.getD []) (s.exp.getD 0) R sci

theorem roundUp_go_carry (r : Nat) : ∀ rl : List Nat, (roundUp.go r rl).2 = true → (roundUp.go r rl).1 = [1]
  | [], _ => by simp [roundUp.go]
  | d :: rest, h => by
    unfold roundUp.go at h ⊢
    by_cases c : d + 1 < r
    · simp [c] at h
    · simp only [c, if_false] at h ⊢
      exact roundUp_go_carry r rest h

theorem roundUp_carry (r : Nat) (l : List Nat) (h : (roundUp r l).2 = true) : (roundUp r l).1 = [1] := by
  have e1 : (roundUp r l).1 = (roundUp.go r l.reverse).1.reverse := by unfold roundUp; rfl
  have e2 : (roundUp r l).2 = (roundUp.go r l.reverse).2 := by unfold roundUp; rfl
  rw [e2] at h
  rw [e1, roundUp_go_carry r _ h]; rfl

theorem truncateAndRound_cases (ds : List Nat) (o : WOpts) :
    (∃ l, truncateAndRound ds o = (l, false)) ∨ (∃ l, truncateAndRound ds o = roundUp 10 l) := by
  unfold truncateAndRound
  split
  · exact Or.inl ⟨_, rfl⟩
  · split
    · exact Or.inl ⟨_, rfl⟩
    · split
      · exact Or.inl ⟨_, rfl⟩
      · simp only []
        split
        · exact Or.inl ⟨_, rfl⟩
        · split
          · exact Or.inr ⟨_, rfl⟩
          · split
            · exact Or.inr ⟨_, rfl⟩
            · exact Or.inl ⟨_, rfl⟩

/-- a carry out of the top digit leaves the single digit `1` -/
theorem truncateAndRound_carry (ds : List Nat) (o : WOpts) (h : (truncateAndRound ds o).2 = true) :
    (truncateAndRound ds o).1 = [1] := by
  rcases truncateAndRound_cases ds o with ⟨l, hl⟩ | ⟨l, hl⟩
  · rw [hl] at h; simp at h
  · rw [hl] at h ⊢; exact roundUp_carry 10 l h

theorem cons_rep (n : Nat) : 0 :: List.replicate n 0 = List.replicate (1 + n) 0 := by
  rw [Nat.add_comm]; rfl

theorem rep_app (a b : Nat) : List.replicate a 0 ++ List.replicate b 0 = List.replicate (a + b) 0 :=
  List.replicate_append_replicate

/-- a leading zero after rounding means the value was `[0]` -/
theorem truncateAndRound_head_zero (ds : List Nat) (o : WOpts) (h : DigitsOk ds) (hmx : o.maxDigits ≠ some 0)
    (h0 : (truncateAndRound ds o).1.head? = some 0) : ds = [0] := by
  unfold truncateAndRound at h0
  cases hm : o.maxDigits with
  | none => simp only [hm] at h0; exact h.head h0
  | some mx =>
    have h1 : 1 ≤ mx := by
      rcases Nat.eq_zero_or_pos mx with hz | hz
      · subst hz; exact absurd hm hmx
      · exact hz
    simp only [hm] at h0
    by_cases c1 : mx ≥ ds.length
    · simp only [c1, if_true] at h0; exact h.head h0
    · have hlen : mx < ds.length := by omega
      have hT := take_head_ne ds mx h h1 hlen
      have hR := roundUp_ok (ds.take mx) (take_ok ds mx h h1).lt hT
      have hR0 : ¬ (roundUp 10 (ds.take mx)).1.head? = some 0 := by
        intro hh
        have := hR.head hh
        rw [this] at hh
        have h3 := roundUp_go_spec (ds.take mx).reverse (by simpa using (take_ok ds mx h h1).lt)
          (by simpa [List.getLast?_reverse] using hT)
        have e1 : (roundUp 10 (ds.take mx)).1 = (roundUp.go 10 (ds.take mx).reverse).1.reverse := by
          unfold roundUp; rfl
        rw [e1] at this
        have h4 := h3.2.2 0 (by
          have : (roundUp.go 10 (ds.take mx).reverse).1 = [0] := by
            have := congrArg List.reverse this
            simpa using this
          rw [this]; rfl)
        exact h4 rfl
      simp only [c1, if_false] at h0
      split at h0
      · exact absurd rfl (hT 0 h0)
      · split at h0
        · exact absurd rfl (hT 0 h0)
        · split at h0
          · exact absurd h0 hR0
          · split at h0
            · exact absurd h0 hR0
            · exact absurd rfl (hT 0 h0)

/-! ## the three layouts -/

theorem mem_replicate_zero_lt {n d : Nat} (h : d ∈ List.replicate n 0) : d < 10 := by
  have := (List.mem_replicate.mp h).2; omega

theorem sciShape_digits (noEWF : Bool) (ds : List Nat) (sci : Int) (o : WOpts)
    (hR : DigitsOk (roundSci ds o).1) :
    ShapeDigits (sciShape noEWF ds sci o) (roundSci ds o).1
      (sci + (if (roundSci ds o).2 then 1 else 0)) := by
  unfold sciShape
  generalize roundSci ds o = tr at *
  obtain ⟨R, c⟩ := tr
  simp only [] at hR ⊢
  obtain ⟨d, t, rfl⟩ : ∃ d t, R = d :: t := by
    cases R with
    | nil => exact absurd rfl hR.ne
    | cons d t => exact ⟨d, t, rfl⟩
  have hd : d < 10 := hR.lt d (by simp)
  have ht : ∀ x ∈ t, x < 10 := fun x hx => hR.lt x (by simp [hx])
  simp only [List.headD_cons, List.tail_cons, List.length_cons]
  refine ⟨by simp, by simpa using hd, ?_, ?_, by simp [leadingZeros], ?_⟩
  · intro fs hfs
    split at hfs
    · cases hfs
    · split at hfs
      · rename_i c2
        cases hfs
        intro h
        simp only [List.append_eq_nil_iff, padZ, List.replicate_eq_nil_iff] at h
        omega
      · split at hfs
        · cases hfs; simp
        · rename_i c3
          cases hfs
          intro h; subst h; simp at c3
  · intro fs hfs x hx
    split at hfs
    · cases hfs
    · split at hfs
      · cases hfs
        simp only [List.mem_append, padZ] at hx
        rcases hx with hx | hx
        · exact ht x hx
        · exact mem_replicate_zero_lt hx
      · split at hfs
        · cases hfs; simp at hx; omega
        · cases hfs; exact ht x hx
  · unfold DigitsForm
    split
    · rename_i c1
      have : t = [] := by
        have := c1.2.1
        cases t with
        | nil => rfl
        | cons a b => simp at this
      subst this
      exact ⟨0, 0, by simp, by simp⟩
    · split
      · exact ⟨0, minExactDigits (t.length + 1) o - (t.length + 1), by simp [padZ], by
          simp only [Option.getD_some, List.length_append, padZ, List.length_replicate, List.length_cons]
          push_cast
          omega⟩
      · split
        · rename_i c3
          have : t = [] := by
            cases t with
            | nil => rfl
            | cons a b => simp at c3
          subst this
          exact ⟨0, 1, by simp, by simp⟩
        · exact ⟨0, 0, by simp, by simp only [Option.getD_some, List.length_cons]; push_cast; omega⟩

theorem negShape_digits (ds : List Nat) (sci : Int) (o : WOpts) (hneg : sci < 0)
    (hR : DigitsOk (truncateAndRound ds o).1) :
    ShapeDigits (negShape ds sci o) (truncateAndRound ds o).1
      (sci + (if (truncateAndRound ds o).2 then 1 else 0)) := by
  have hcarry := truncateAndRound_carry ds o
  unfold negShape
  generalize truncateAndRound ds o = tr at *
  obtain ⟨R, c⟩ := tr
  simp only [] at hR hcarry ⊢
  have hk : 1 ≤ sci.natAbs := by omega
  by_cases c1 : c = true ∧ sci.natAbs = 1
  · have hR1 : R = [1] := hcarry c1.1
    subst hR1
    have hs : sci = -1 := by omega
    simp only [c1, and_self, if_true]
    by_cases c2 : o.trim = true
    · simp only [c2, if_true]
      exact ⟨by simp, by simp, by simp, by simp, by simp [leadingZeros], 0, 0, by simp, by simp [hs]⟩
    · simp only [c2, if_false, Bool.false_eq_true]
      refine ⟨by simp, by simp, by simp, ?_, by simp [leadingZeros], 0, 1 + (minExactDigits 2 o - 2), ?_, ?_⟩
      · intro fs hfs x hx
        simp only [Option.some.injEq] at hfs
        subst hfs
        simp only [List.mem_cons, padZ] at hx
        rcases hx with hx | hx
        · omega
        · exact mem_replicate_zero_lt hx
      · simp [padZ, cons_rep]
      · simp only [Option.getD_some, Option.getD_none, List.length_cons, padZ, List.length_replicate, hs,
          List.length_nil]
        push_cast
        omega
  · simp only [c1, if_false]
    refine ⟨by simp, by simp, by simp [hR.ne], ?_, by simp [leadingZeros], ?_⟩
    · intro fs hfs x hx
      simp only [Option.some.injEq] at hfs
      subst hfs
      simp only [List.mem_append, padZ] at hx
      rcases hx with (hx | hx) | hx
      · exact mem_replicate_zero_lt hx
      · exact hR.lt x hx
      · exact mem_replicate_zero_lt hx
    · refine ⟨1 + (if c = true then sci.natAbs - 2 else sci.natAbs - 1), minExactDigits R.length o - R.length, ?_, ?_⟩
      · simp only [Option.getD_some, padZ, List.cons_append, List.nil_append, List.append_assoc, ← cons_rep]
      · simp only [Option.getD_some, Option.getD_none, List.length_append, padZ, List.length_replicate]
        by_cases hc : c = true
        · have : 2 ≤ sci.natAbs := by
            rcases Nat.lt_or_ge sci.natAbs 2 with h | h
            · exact absurd ⟨hc, by omega⟩ c1
            · exact h
          simp only [hc, if_true]
          push_cast
          omega
        · simp only [hc, if_false, Bool.false_eq_true]
          push_cast
          omega

theorem posShape_digits (ds : List Nat) (sci : Int) (o : WOpts) (hpos : 0 ≤ sci)
    (hR : DigitsOk (roundPos ds sci o).1)
    (hzero : (roundPos ds sci o).1.head? = some 0 → sci = 0 ∧ (roundPos ds sci o).2 = false) :
    ShapeDigits (posShape ds sci o) (roundPos ds sci o).1
      (sci + (if (roundPos ds sci o).2 then 1 else 0)) := by
  unfold posShape
  generalize roundPos ds sci o = tr at *
  obtain ⟨R, c⟩ := tr
  simp only [] at hR hzero ⊢
  have hRlen : 1 ≤ R.length := by
    cases R with
    | nil => exact absurd rfl hR.ne
    | cons a b => simp
  -- the integer part starts with the first digit of `R`; a leading zero only for the single `0`
  have hLZ : ∀ l : List Nat, l.head? = R.head? → (R.head? = some 0 → l.length = 1) → leadingZeros l = false := by
    intro l h1 h2
    unfold leadingZeros
    by_cases h0 : R.head? = some 0
    · have := h2 h0; simp [this]
    · rw [h1]
      have : (R.head? == some 0) = false := by simpa using h0
      simp [this]
  by_cases c1 : sci.toNat + 1 + (if c = true then 1 else 0) ≥ R.length
  · simp only [c1, if_true]
    have hints_lt : ∀ d ∈ R ++ List.replicate (sci.toNat + 1 + (if c = true then 1 else 0) - R.length) 0, d < 10 := by
      intro d hd
      simp only [List.mem_append] at hd
      rcases hd with hd | hd
      · exact hR.lt d hd
      · exact mem_replicate_zero_lt hd
    have hnoLZ : leadingZeros (R ++ List.replicate (sci.toNat + 1 + (if c = true then 1 else 0) - R.length) 0) = false := by
      apply hLZ
      · cases R with
        | nil => exact absurd rfl hR.ne
        | cons a b => rfl
      · intro h0
        have hR0 := hR.head h0
        obtain ⟨hs, hc⟩ := hzero h0
        subst hR0
        simp [hs, hc]
    by_cases c2 : o.trim = true
    · simp only [c2, if_true]
      refine ⟨by simp [hR.ne], hints_lt, by simp, by simp, hnoLZ,
        0, sci.toNat + 1 + (if c = true then 1 else 0) - R.length, by simp, ?_⟩
      simp only [Option.getD_none, List.length_nil]
      by_cases hc : c = true
      · simp only [hc, if_true] at c1 ⊢; push_cast; omega
      · simp only [hc, if_false, Bool.false_eq_true] at c1 ⊢; push_cast; omega
    · simp only [c2, if_false, Bool.false_eq_true]
      refine ⟨by simp [hR.ne], hints_lt, by simp, ?_, hnoLZ, 0,
        (sci.toNat + 1 + (if c = true then 1 else 0) - R.length) + (1 +
          (minExactDigits (sci.toNat + 1 + (if c = true then 1 else 0) + 1) o -
            (sci.toNat + 1 + (if c = true then 1 else 0) + 1))), ?_, ?_⟩
      · intro fs hfs x hx
        simp only [Option.some.injEq] at hfs
        subst hfs
        simp only [List.mem_cons, padZ] at hx
        rcases hx with hx | hx
        · omega
        · exact mem_replicate_zero_lt hx
      · simp only [Option.getD_some, padZ, List.nil_append, List.append_assoc, ← rep_app, ← cons_rep]
        rfl
      · simp only [Option.getD_some, Option.getD_none, List.length_cons, padZ, List.length_replicate]
        by_cases hc : c = true
        · simp only [hc, if_true] at c1 ⊢; push_cast; omega
        · simp only [hc, if_false, Bool.false_eq_true] at c1 ⊢; push_cast; omega
  · simp only [c1, if_false]
    have hlead : 1 ≤ sci.toNat + 1 + (if c = true then 1 else 0) := by omega
    refine ⟨?_, fun d hd => hR.lt d (List.mem_of_mem_take hd), ?_, ?_, ?_, 0,
      minExactDigits R.length o - R.length, ?_, ?_⟩
    · intro h
      have := congrArg List.length h
      simp only [List.length_take, List.length_nil] at this
      omega
    · intro fs hfs
      simp only [Option.some.injEq] at hfs
      subst hfs
      intro h
      have := congrArg List.length h
      simp only [List.length_append, List.length_drop, List.length_nil] at this
      omega
    · intro fs hfs x hx
      simp only [Option.some.injEq] at hfs
      subst hfs
      simp only [List.mem_append, padZ] at hx
      rcases hx with hx | hx
      · exact hR.lt x (List.mem_of_mem_drop hx)
      · exact mem_replicate_zero_lt hx
    · apply hLZ
      · cases R with
        | nil => exact absurd rfl hR.ne
        | cons a b =>
          obtain ⟨m, hm⟩ : ∃ m, sci.toNat + 1 + (if c = true then 1 else 0) = m + 1 := ⟨_, (Nat.sub_add_cancel hlead).symm⟩
          rw [hm]; rfl
      · intro h0
        have hR0 := hR.head h0
        subst hR0
        simp at c1 <;> omega
    · simp only [Option.getD_some, padZ, List.nil_append, List.replicate_zero]
      rw [← List.append_assoc, List.take_append_drop]
    · simp only [Option.getD_some, Option.getD_none, List.length_append, List.length_drop, padZ, List.length_replicate]
      by_cases hc : c = true
      · simp only [hc, if_true] at c1 ⊢; push_cast; omega
      · simp only [hc, if_false, Bool.false_eq_true] at c1 ⊢; push_cast; omega

/-! ## the dispatchers -/

/-- input domain of the digit generators: canonical digits; zero is `([0], 0)` -/
structure WriterInput (ds : List Nat) (sci : Int) : Prop where
  ok : DigitsOk ds
  zero : ds = [0] → sci = 0

theorem trimSci_ok (o : WOpts) (ds : List Nat) (h : DigitsOk ds) : DigitsOk (trimSci o ds) := by
  unfold trimSci
  split
  · cases ds with
    | nil => exact absurd rfl h.ne
    | cons d t =>
      refine ⟨by simp, fun x hx => h.lt x (by simp at hx; simp [hx]), fun h0 => ?_⟩
      simp at h0; simp [h0]
  · exact h

theorem trimPos_ok (o : WOpts) (l : Nat) (ds : List Nat) (h : DigitsOk ds) (hl : 1 ≤ l) : DigitsOk (trimPos o l ds) := by
  unfold trimPos
  split
  · rename_i hc
    cases ds with
    | nil => exact absurd rfl h.ne
    | cons d t =>
      obtain ⟨k, rfl⟩ : ∃ k, l = k + 1 := ⟨l - 1, by omega⟩
      refine ⟨by simp, fun x hx => h.lt x (List.mem_of_mem_take hx), fun h0 => ?_⟩
      simp only [List.take_succ_cons, List.head?_cons, Option.some.injEq] at h0
      have := h.head (by simp [h0])
      simp only [List.cons.injEq] at this
      simp [h0, this.2]
  · exact h

theorem trimPos_head (o : WOpts) (l : Nat) (ds : List Nat) (hl : 1 ≤ l) : (trimPos o l ds).head? = ds.head? := by
  unfold trimPos
  split
  · obtain ⟨k, rfl⟩ : ∃ k, l = k + 1 := ⟨l - 1, by omega⟩
    cases ds <;> simp
  · rfl

theorem shapeN_digits (fmt : Format) (ds : List Nat) (sci : Int) (o : WOpts) (hin : WriterInput ds sci)
    (hmx : o.maxDigits ≠ some 0) :
    ShapeDigits (shapeN fmt ds sci o) (keptN fmt ds sci o)
      (sci + (if (truncateAndRound ds o).2 then 1 else 0)) := by
  have hR := truncateAndRound_ok ds o hin.ok hmx
  unfold shapeN keptN
  simp only []
  split
  · exact sciShape_digits _ ds sci o (trimSci_ok o _ hR)
  · split
    · rename_i hneg; exact negShape_digits ds sci o hneg hR
    · rename_i hpos
      have hl : 1 ≤ sci.toNat + 1 + (if (truncateAndRound ds o).2 = true then 1 else 0) := by omega
      refine posShape_digits ds sci o (by omega) (trimPos_ok o _ _ hR hl) ?_
      intro h0
      have h0' : (truncateAndRound ds o).1.head? = some 0 := by
        rw [← trimPos_head o _ _ hl]; exact h0
      have hds := truncateAndRound_head_zero ds o hin.ok hmx h0'
      subst hds
      show sci = 0 ∧ (truncateAndRound [0] o).2 = false
      rw [truncateAndRound_zero o hmx]
      exact ⟨hin.zero rfl, rfl⟩

theorem shapeC_digits (fmt : Format) (ds : List Nat) (sci : Int) (o : WOpts) (hin : WriterInput ds sci)
    (hmx : o.maxDigits ≠ some 0) :
    ShapeDigits (shapeC fmt ds sci o) (keptC fmt ds sci o)
      (sci + (if (truncateAndRound ds o).2 then 1 else 0)) := by
  have hR := truncateAndRound_ok ds o hin.ok hmx
  have hin' : WriterInput (truncateAndRound ds o).1 (sci + (if (truncateAndRound ds o).2 then 1 else 0)) := by
    refine ⟨hR, ?_⟩
    intro h0
    have hds := truncateAndRound_head_zero ds o hin.ok hmx (by rw [h0]; rfl)
    subst hds
    rw [truncateAndRound_zero o hmx]
    simp [hin.zero rfl]
  have h := shapeN_digits fmt (truncateAndRound ds o).1 (sci + (if (truncateAndRound ds o).2 then 1 else 0))
    { o with maxDigits := none } hin' (by simp)
  rw [truncateAndRound_none (truncateAndRound ds o).1 { o with maxDigits := none } rfl] at h
  simpa [shapeC, keptC] using h

theorem shapeOf_digits (fmt : Format) (feats : Features) (ds : List Nat) (sci : Int) (o : WOpts)
    (hin : WriterInput ds sci) (hmx : o.maxDigits ≠ some 0) :
    ShapeDigits (shapeOf fmt feats ds sci o) (keptOf fmt feats ds sci o)
      (sci + (if (truncateAndRound ds o).2 then 1 else 0)) := by
  unfold shapeOf keptOf
  split
  · exact shapeC_digits _ ds sci o hin hmx
  · exact shapeN_digits _ ds sci o hin hmx

/-! ## notation flags -/

/-- which notation flags a shape respects, in terms of the (effective) format it was laid out for -/
structure ShapeFlags (fmt : Format) (s : Shape) : Prop where
  noExp : fmt.noExponentNotation = true → s.exp = none
  reqExp : fmt.requiredExponentNotation = true → fmt.noExponentNotation = false → s.exp ≠ none
  expFrac : fmt.noExponentWithoutFraction = true → s.exp ≠ none → s.frac ≠ none

theorem negShape_exp (ds : List Nat) (sci : Int) (o : WOpts) : (negShape ds sci o).exp = none := by
  unfold negShape; simp only []
  by_cases c1 : (truncateAndRound ds o).2 = true ∧ sci.natAbs = 1
  · rw [if_pos c1]; by_cases c2 : o.trim = true <;> simp [c2]
  · rw [if_neg c1]

theorem posShape_exp (ds : List Nat) (sci : Int) (o : WOpts) : (posShape ds sci o).exp = none := by
  unfold posShape; simp only []
  by_cases c1 : sci.toNat + 1 + (if (roundPos ds sci o).2 = true then 1 else 0) ≥ (roundPos ds sci o).1.length
  · rw [if_pos c1]; by_cases c2 : o.trim = true <;> simp [c2]
  · rw [if_neg c1]

theorem sciShape_frac (ds : List Nat) (sci : Int) (o : WOpts) : (sciShape true ds sci o).frac ≠ none := by
  unfold sciShape
  simp only [not_true_eq_false, false_and, if_false]
  split
  · simp
  · split <;> simp

theorem shapeN_flags (fmt : Format) (ds : List Nat) (sci : Int) (o : WOpts) : ShapeFlags fmt (shapeN fmt ds sci o) := by
  unfold shapeN
  simp only []
  refine ⟨?_, ?_, ?_⟩
  · intro h
    simp only [h, not_true_eq_false, false_and, if_false]
    split
    · exact negShape_exp ds sci o
    · exact posShape_exp ds sci o
  · intro h1 h2
    simp only [h1, h2, true_or, and_true, Bool.false_eq_true, not_false_eq_true, if_true]
    simp [sciShape]
  · intro h1 h2
    split
    · rw [h1]; exact sciShape_frac ds sci o
    · rename_i c
      simp only [c, if_false] at h2
      split at h2
      · exact absurd (negShape_exp ds sci o) h2
      · exact absurd (posShape_exp ds sci o) h2

theorem shapeOf_flags (fmt : Format) (feats : Features) (ds : List Nat) (sci : Int) (o : WOpts) :
    ShapeFlags (effFmt feats fmt) (shapeOf fmt feats ds sci o) := by
  unfold shapeOf
  split
  · exact shapeN_flags _ _ _ _
  · exact shapeN_flags _ _ _ _

end LexVerif.Proof.RoundTrip
