import LexVerif.Proof.BytesLimbs
import LexVerif.Proof.SlowCompose
/-!
# Proof.BytesCompare — `compare_bytes`: generating the digits of `b + h` and comparing them with the input

`compare_bytes(number, num, den)` produces the radix-`r` digits of `num/den` one at a time (`large_quorem`, then
`num = rem·r`) and compares each with the next significant digit of the input. On numbers (`stepsN`, `cmpDigits`):
for digits `ds` (values below `r`) and a current numerator `x`,

  `cmpDigits r Y ds x = compare (ofDigits r ds · Y · r) (x · r^|ds|)`,

i.e. the comparison of `0.d₁d₂…` (scaled) with `x/Y` (`cmpDigits_spec`). `compareBytes_spec`: the limb-level
`compare_bytes` on the significant bytes of a `Number` is `cmpDigits` of their values, and it does not panic when the
divisor's top limb is in the range the normalisation step of `byte_comp` establishes.
-/
namespace LexVerif.Proof.Slow
open LexVerif.Spec LexVerif.Model LexVerif.Model.Slow LexVerif.Proof.RoundNE

/-- the digit loop on numbers: `inl o` = decided, `inr x'` = all digits consumed, numerator left -/
def stepsN (r Y : Nat) : List Nat → Nat → Ordering ⊕ Nat
  | [], x => .inr x
  | d :: ds, x =>
    if x = 0 then (if (d :: ds).any (· ≠ 0) then .inl .gt else .inr 0)
    else if d < x / Y then .inl .lt
    else if d > x / Y then .inl .gt
    else stepsN r Y ds (x % Y * r)

/-- the whole comparison: at the end, a non-zero numerator means the input is a proper prefix of the expansion -/
def cmpDigits (r Y : Nat) (ds : List Nat) (x : Nat) : Ordering :=
  match stepsN r Y ds x with
  | .inl o => o
  | .inr x' => if x' = 0 then .eq else .lt

theorem stepsN_zero (r Y : Nat) (ds : List Nat) :
    stepsN r Y ds 0 = if ds.any (· ≠ 0) then .inl .gt else .inr 0 := by
  cases ds with
  | nil => simp [stepsN]
  | cons d ds => simp [stepsN]

theorem stepsN_append (r Y : Nat) : ∀ (a b : List Nat) (x : Nat),
    stepsN r Y (a ++ b) x = match stepsN r Y a x with
      | .inl o => .inl o
      | .inr x' => stepsN r Y b x'
  | [], b, x => by simp [stepsN]
  | d :: ds, b, x => by
    by_cases hx : x = 0
    · subst hx
      rw [stepsN_zero, stepsN_zero]
      by_cases ha : (d :: ds).any (· ≠ 0) = true
      · have : ((d :: ds) ++ b).any (· ≠ 0) = true := by rw [List.any_append, ha]; rfl
        rw [if_pos this, if_pos ha]
      · rw [if_neg ha]
        simp only []
        rw [stepsN_zero]
        have : ((d :: ds) ++ b).any (· ≠ 0) = b.any (· ≠ 0) := by
          rw [List.any_append]
          have : (d :: ds).any (· ≠ 0) = false := by simpa using ha
          rw [this]; rfl
        rw [this]
    · simp only [List.cons_append, stepsN, if_neg hx]
      by_cases h1 : d < x / Y
      · simp [h1]
      · by_cases h2 : d > x / Y
        · simp [h1, h2]
        · simp only [h1, h2, if_false]
          exact stepsN_append r Y ds b _

theorem ofDigits_pos_of_any {r : Nat} (hr : 0 < r) : ∀ (ds : List Nat), ds.any (· ≠ 0) = true → 0 < ofDigits r ds
  | [], h => by simp at h
  | d :: ds, h => by
    rw [ofDigits_cons]
    by_cases hd : d = 0
    · have : ds.any (· ≠ 0) = true := by simpa [hd] using h
      have := ofDigits_pos_of_any hr ds this
      omega
    · have : 0 < d * r ^ ds.length := Nat.mul_pos (Nat.pos_of_ne_zero hd) (Nat.pow_pos hr)
      omega

theorem ofDigits_zero_of_not_any {r : Nat} : ∀ (ds : List Nat), ds.any (· ≠ 0) = false → ofDigits r ds = 0
  | [], _ => rfl
  | d :: ds, h => by
    simp only [List.any_cons, Bool.or_eq_false_iff, decide_eq_false_iff_not, ne_eq, not_not] at h
    rw [ofDigits_cons, h.1, ofDigits_zero_of_not_any ds h.2]
    simp

theorem cmp_add_right (a b c : Nat) : compare (a + c) (b + c) = compare a b := by
  rcases Nat.lt_trichotomy a b with h | h | h
  · rw [cmp_lt h, cmp_lt (by omega)]
  · rw [cmp_eq h, cmp_eq (by omega)]
  · rw [cmp_gt h, cmp_gt (by omega)]

/-- **the digit comparison compares the numbers** -/
theorem cmpDigits_spec {r Y : Nat} (hr : 0 < r) (hY : 0 < Y) : ∀ (ds : List Nat) (x : Nat), (∀ d ∈ ds, d < r) →
    cmpDigits r Y ds x = compare (ofDigits r ds * Y * r) (x * r ^ ds.length)
  | [], x, _ => by
    unfold cmpDigits
    simp only [stepsN, ofDigits, List.foldl_nil, Nat.zero_mul, List.length_nil, Nat.pow_zero, Nat.mul_one]
    by_cases hx : x = 0
    · rw [if_pos hx, hx]; rfl
    · rw [if_neg hx]; exact (cmp_lt (Nat.pos_of_ne_zero hx)).symm
  | d :: ds, x, hds => by
    have hd : d < r := hds d (List.mem_cons_self ..)
    have hds' : ∀ e ∈ ds, e < r := fun e he => hds e (List.mem_cons_of_mem _ he)
    have hD := ofDigits_lt ds hds'
    have hrk : 0 < r ^ ds.length := Nat.pow_pos hr
    by_cases hx : x = 0
    · subst hx
      unfold cmpDigits
      rw [stepsN_zero, Nat.zero_mul]
      by_cases ha : (d :: ds).any (· ≠ 0) = true
      · rw [if_pos ha]
        simp only []
        have := ofDigits_pos_of_any hr _ ha
        exact (cmp_gt (Nat.mul_pos (Nat.mul_pos this hY) hr)).symm
      · rw [if_neg ha]
        simp only [if_true]
        rw [ofDigits_zero_of_not_any _ (by simpa using ha)]
        simp
    · have ih := cmpDigits_spec hr hY ds (x % Y * r) hds'
      have hdm := Nat.div_add_mod x Y
      have hml := Nat.mod_lt x hY
      rw [ofDigits_cons, List.length_cons, Nat.pow_succ]
      generalize hq : x / Y = q at *
      generalize hrem : x % Y = rem at *
      generalize hDv : ofDigits r ds = D at *
      generalize hK : r ^ ds.length = K at *
      have hxe : x * (K * r) = (q * K) * Y * r + rem * r * K := by rw [← hdm]; ring
      unfold cmpDigits at ih ⊢
      simp only [stepsN, if_neg hx, hq, hrem]
      by_cases h1 : d < q
      · simp only [h1, if_true]
        symm; apply cmp_lt
        have a1 : (d * K + D) * Y * r < ((d + 1) * K) * Y * r := by
          apply Nat.mul_lt_mul_of_pos_right _ hr
          apply Nat.mul_lt_mul_of_pos_right _ hY
          rw [Nat.add_mul, Nat.one_mul]; omega
        have a2 : ((d + 1) * K) * Y * r ≤ (q * K) * Y * r :=
          Nat.mul_le_mul_right _ (Nat.mul_le_mul_right _ (Nat.mul_le_mul_right _ h1))
        omega
      · by_cases h2 : d > q
        · simp only [h1, h2, if_false, if_true]
          symm; apply cmp_gt
          have a1 : ((q + 1) * K) * Y * r ≤ (d * K + D) * Y * r := by
            apply Nat.mul_le_mul_right
            apply Nat.mul_le_mul_right
            have : (q + 1) * K ≤ d * K := Nat.mul_le_mul_right _ h2
            omega
          have a2 : rem * r * K < Y * r * K :=
            Nat.mul_lt_mul_of_pos_right (Nat.mul_lt_mul_of_pos_right hml hr) hrk
          have a3 : ((q + 1) * K) * Y * r = (q * K) * Y * r + Y * r * K := by ring
          omega
        · simp only [h1, h2, if_false]
          have hdq : d = q := by omega
          rw [ih, hxe, hdq]
          have e1 : (q * K + D) * Y * r = D * Y * r + (q * K) * Y * r := by ring
          have e2 : (q * K) * Y * r + rem * r * K = rem * r * K + (q * K) * Y * r := by ring
          rw [e1, e2, cmp_add_right]

/-! ## the limb level -/

/-- the divisor after the normalisation step of `byte_comp`: its top limb exceeds `radix + 1`, and
`(radix + 1)·(top + 1) ≤ 2^64`, so that every numerator below `(radix + 1)·den` has at most as many limbs -/
structure DenOk (cap radix : Nat) (den : Limbs) : Prop where
  norm : Normalized den
  top : ∃ ys yn1, den = ys ++ [yn1] ∧ radix + 2 ≤ yn1 ∧ (radix + 1) * (yn1 + 1) ≤ B64
  len : den.length ≤ cap
  r2 : 2 ≤ radix

/-- a numerator: normalised, below `(radix + 1)·den` (the quotient digit is at most `radix`) -/
def NumOk (radix : Nat) (den num : Limbs) : Prop := Normalized num ∧ valL num < (radix + 1) * valL den

theorem denOk_facts {cap radix : Nat} {den : Limbs} (D : DenOk cap radix den) :
    0 < valL den ∧ (radix + 1) * valL den ≤ B64 ^ den.length ∧ radix + 1 < 2 ^ 32 := by
  obtain ⟨ys, yn1, rfl, hy, hr⟩ := D.top
  have oys := (limbsOk_append.mp D.norm.1).1
  have hys := valL_lt oys
  have hpos : 0 < B64 ^ ys.length := Nat.pow_pos B64_pos
  rw [valL_append]
  simp only [List.length_append, List.length_singleton]
  refine ⟨?_, ?_, ?_⟩
  · have : 0 < B64 ^ ys.length * yn1 := Nat.mul_pos hpos (by omega)
    omega
  · rw [Nat.pow_succ]
    have h1 : (radix + 1) * (valL ys + B64 ^ ys.length * yn1) ≤ (radix + 1) * (B64 ^ ys.length * (yn1 + 1)) :=
      Nat.mul_le_mul_left _ (by rw [Nat.mul_add, Nat.mul_one]; omega)
    have h2 : (radix + 1) * (B64 ^ ys.length * (yn1 + 1)) = B64 ^ ys.length * ((radix + 1) * (yn1 + 1)) := by ring
    have h3 : B64 ^ ys.length * ((radix + 1) * (yn1 + 1)) ≤ B64 ^ ys.length * B64 := Nat.mul_le_mul_left _ hr
    omega
  · have h1 : (radix + 1) * (radix + 1) ≤ (radix + 1) * (yn1 + 1) := Nat.mul_le_mul_left _ (by omega)
    have hB : B64 = 2 ^ 32 * 2 ^ 32 := by unfold B64; norm_num
    apply Classical.byContradiction; intro hcon
    have : 2 ^ 32 * 2 ^ 32 ≤ (radix + 1) * (radix + 1) := Nat.mul_le_mul (by omega) (by omega)
    have : (radix + 1) * (radix + 1) < (radix + 1) * (yn1 + 1) := Nat.mul_lt_mul_of_pos_left (by omega) (by omega)
    omega

theorem numOk_length {cap radix : Nat} {den num : Limbs} (D : DenOk cap radix den) (h : NumOk radix den num) :
    num.length ≤ den.length := by
  obtain ⟨_, hrY, _⟩ := denOk_facts D
  by_cases hne : num = []
  · subst hne; simp
  · have h1 := valL_ge h.1 hne
    have h3 : B64 ^ (num.length - 1) < B64 ^ den.length := by have := h.2; omega
    have := (Nat.pow_lt_pow_iff_right (by unfold B64; norm_num : 1 < B64)).mp h3
    omega

theorem isEmpty_iff {num : Limbs} (h : Normalized num) : num.isEmpty = true ↔ valL num = 0 := by
  rw [valL_eq_zero h]
  cases num <;> simp

/-- **one digit**: `quorem`, compare with the input digit, multiply the remainder by the radix -/
theorem stepDigit_spec {cap radix : Nat} {den num : Limbs} (D : DenOk cap radix den) (N : NumOk radix den num) (c : Nat) :
    (Binary.digitVal c radix < valL num / valL den → stepDigit cap radix c num den = .done .lt) ∧
    (Binary.digitVal c radix > valL num / valL den → stepDigit cap radix c num den = .done .gt) ∧
    (Binary.digitVal c radix = valL num / valL den →
      ∃ num', stepDigit cap radix c num den = .cont num' ∧ NumOk radix den num' ∧
        valL num' = valL num % valL den * radix) := by
  obtain ⟨hYpos, hrY, hr32⟩ := denOk_facts D
  have hr2 := D.r2
  have hnl := numOk_length D N
  obtain ⟨ys, yn1, hden, hyr, hr⟩ := D.top
  have hdl : den.length = ys.length + 1 := by rw [hden]; simp
  have hyB : yn1 + 1 < B64 := by
    have : 3 * (yn1 + 1) ≤ (radix + 1) * (yn1 + 1) := Nat.mul_le_mul_right _ (by omega)
    omega
  have hrB : radix < B64 := by
    have : (2 : Nat) ^ 32 < B64 := by unfold B64; norm_num
    omega
  obtain ⟨R, hq, nR, vR⟩ := largeQuoremL_spec (x := num) (ys := ys) (yn1 := yn1) N.1 (by rw [← hden]; exact D.norm)
    (by omega) (radix + 1) (by rw [← hden]; exact N.2) (by omega) hyB
  rw [← hden] at hq vR
  -- the quotient is a small number
  have hqs : valL num / valL den < 2 ^ 32 := by
    have : valL num / valL den < radix + 1 := by
      rw [Nat.div_lt_iff_lt_mul hYpos]; exact N.2
    omega
  have hml := Nat.mod_lt (valL num) hYpos
  -- the remainder times the radix
  have hRr : valL R * radix < radix * valL den := by
    rw [vR, Nat.mul_comm radix]
    exact Nat.mul_lt_mul_of_pos_right hml (by omega)
  have hRl : R.length ≤ cap := by
    have : NumOk radix den R := ⟨nR, by
      have : valL R * 1 ≤ valL R * radix := Nat.mul_le_mul_left _ (by omega)
      have : radix * valL den ≤ (radix + 1) * valL den := Nat.mul_le_mul_right _ (by omega)
      omega⟩
    have := numOk_length D this
    have := D.len
    omega
  have hle1 : radix * valL den ≤ (radix + 1) * valL den := Nat.mul_le_mul_right _ (by omega)
  obtain ⟨m1, m2⟩ := smallMulL_spec (cap := cap) nR hRl (y := radix) (by omega) hrB
  obtain ⟨z, hz⟩ := m2 (by
    have : B64 ^ den.length ≤ B64 ^ cap := Nat.pow_le_pow_right B64_pos D.len
    omega)
  obtain ⟨nz, vz⟩ := m1 z hz
  unfold stepDigit
  rw [hq]
  simp only [hz, Nat.mod_eq_of_lt hqs]
  refine ⟨fun h => by rw [if_pos h], fun h => ?_, fun h => ?_⟩
  · rw [if_neg (by omega), if_pos h]
  · rw [if_neg (by omega), if_neg (by omega)]
    exact ⟨z, rfl, ⟨nz, by rw [vz]; omega⟩, by rw [vz, vR]⟩

theorem anyNonzero_dv {radix : Nat} : ∀ (bs : List Nat), (∀ c ∈ bs, c < 256) →
    anyNonzero bs = (dv radix bs).any (· ≠ 0)
  | [], _ => rfl
  | c :: cs, h => by
    have ih := anyNonzero_dv (radix := radix) cs (fun x hx => h x (List.mem_cons_of_mem _ hx))
    unfold anyNonzero at ih ⊢
    simp only [dv, List.map_cons, List.any_cons] at ih ⊢
    rw [ih]
    congr 1
    by_cases h48 : c = 48
    · subst h48
      have : Binary.digitVal 48 radix = 0 := by
        unfold Binary.digitVal; split
        · rfl
        · simp
      simp [this]
    · have := digitVal_ne_zero (radix := radix) (h c (List.mem_cons_self ..)) h48
      simp [h48, this]

/-- `integer_compare!` follows `stepsN` -/
theorem integerCompare_spec {cap radix : Nat} {den : Limbs} (D : DenOk cap radix den) :
    ∀ (bs : List Nat) (num : Limbs), (∀ c ∈ bs, c < 256) → NumOk radix den num →
      match stepsN radix (valL den) (dv radix bs) (valL num) with
      | .inl o => integerCompare cap radix den bs num = .done o
      | .inr x' => ∃ num', integerCompare cap radix den bs num = .cont num' ∧ NumOk radix den num' ∧ valL num' = x'
  | [], num, _, N => by
    simp only [dv, List.map_nil, stepsN, integerCompare]
    exact ⟨num, rfl, N, rfl⟩
  | c :: cs, num, hb, N => by
    have hcs : ∀ x ∈ cs, x < 256 := fun x hx => hb x (List.mem_cons_of_mem _ hx)
    by_cases hx : valL num = 0
    · have hemp : num.isEmpty = true := (isEmpty_iff N.1).mpr hx
      rw [hx, stepsN_zero, ← anyNonzero_dv _ hb]
      unfold integerCompare
      rw [if_pos hemp]
      by_cases ha : anyNonzero (c :: cs) = true
      · rw [if_pos ha, if_pos ha]
      · rw [if_neg ha, if_neg ha]
        exact ⟨num, rfl, N, hx⟩
    · have hemp : ¬ num.isEmpty = true := fun h => hx ((isEmpty_iff N.1).mp h)
      obtain ⟨s1, s2, s3⟩ := stepDigit_spec D N c
      have hdv : dv radix (c :: cs) = Binary.digitVal c radix :: dv radix cs := rfl
      rw [hdv]
      simp only [stepsN, if_neg hx]
      unfold integerCompare
      rw [if_neg hemp]
      by_cases h1 : Binary.digitVal c radix < valL num / valL den
      · rw [if_pos h1, s1 h1]
      · rw [if_neg h1]
        by_cases h2 : Binary.digitVal c radix > valL num / valL den
        · rw [if_pos h2, s2 h2]
        · rw [if_neg h2]
          obtain ⟨num', e1, N', v'⟩ := s3 (by omega)
          rw [e1]
          simp only []
          rw [← v']
          exact integerCompare_spec D cs num' hcs N'

/-- `fraction_compare!` follows `stepsN`, then decides at the end of the input -/
theorem fractionCompare_spec {cap radix : Nat} {den : Limbs} (D : DenOk cap radix den) :
    ∀ (bs : List Nat) (num : Limbs), (∀ c ∈ bs, c < 256) → NumOk radix den num →
      match stepsN radix (valL den) (dv radix bs) (valL num) with
      | .inl o => fractionCompare cap radix den bs num = .done o
      | .inr x' => if x' = 0 then ∃ num', fractionCompare cap radix den bs num = .cont num'
          else fractionCompare cap radix den bs num = .done .lt
  | [], num, _, N => by
    simp only [dv, List.map_nil, stepsN, fractionCompare]
    by_cases hx : valL num = 0
    · rw [if_pos hx, if_pos ((isEmpty_iff N.1).mpr hx)]
      exact ⟨num, rfl⟩
    · rw [if_neg hx, if_neg (fun h => hx ((isEmpty_iff N.1).mp h))]
  | c :: cs, num, hb, N => by
    have hcs : ∀ x ∈ cs, x < 256 := fun x hx => hb x (List.mem_cons_of_mem _ hx)
    by_cases hx : valL num = 0
    · have hemp : num.isEmpty = true := (isEmpty_iff N.1).mpr hx
      rw [hx, stepsN_zero, ← anyNonzero_dv _ hb]
      unfold fractionCompare
      rw [if_pos hemp]
      by_cases ha : anyNonzero (c :: cs) = true
      · rw [if_pos ha, if_pos ha]
      · rw [if_neg ha, if_neg ha]
        simp only [if_true]
        exact ⟨num, rfl⟩
    · have hemp : ¬ num.isEmpty = true := fun h => hx ((isEmpty_iff N.1).mp h)
      obtain ⟨s1, s2, s3⟩ := stepDigit_spec D N c
      have hdv : dv radix (c :: cs) = Binary.digitVal c radix :: dv radix cs := rfl
      rw [hdv]
      simp only [stepsN, if_neg hx]
      unfold fractionCompare
      rw [if_neg hemp]
      by_cases h1 : Binary.digitVal c radix < valL num / valL den
      · rw [if_pos h1, s1 h1]
      · rw [if_neg h1]
        by_cases h2 : Binary.digitVal c radix > valL num / valL den
        · rw [if_pos h2, s2 h2]
        · rw [if_neg h2]
          obtain ⟨num', e1, N', v'⟩ := s3 (by omega)
          rw [e1]
          simp only []
          rw [← v']
          exact fractionCompare_spec D cs num' hcs N'

theorem dv_append (radix : Nat) (a b : List Nat) : dv radix (a ++ b) = dv radix a ++ dv radix b := by
  unfold dv; rw [List.map_append]

theorem skipZeros_lt {bs : List Nat} (h : ∀ c ∈ bs, c < 256) : ∀ c ∈ Binary.skipZeros bs, c < 256 := by
  intro c hc
  unfold Binary.skipZeros at hc
  exact h c ((List.dropWhile_suffix _).subset hc)

/-- **`compare_bytes`** on the significant bytes of a `Number` is the digit comparison of their values; no panic -/
theorem compareBytes_spec {cap radix : Nat} {den num : Limbs} (D : DenOk cap radix den) (N : NumOk radix den num)
    (integer : List Nat) (fraction : Option (List Nat)) (hbi : ∀ c ∈ integer, c < 256)
    (hbf : ∀ fr, fraction = some fr → ∀ c ∈ fr, c < 256) (hne : sigBytes integer fraction ≠ []) :
    compareBytes cap radix integer fraction num den =
      some (cmpDigits radix (valL den) (dv radix (sigBytes integer fraction)) (valL num)) := by
  have hii := skipZeros_lt hbi
  unfold compareBytes cmpDigits
  dsimp only
  cases fraction with
  | none =>
    simp only [sigBytes] at hne ⊢
    have hemp : (Binary.skipZeros integer).isEmpty = false := by
      cases h : Binary.skipZeros integer with
      | nil => exact absurd h hne
      | cons a as => rfl
    rw [hemp]
    simp only [Bool.false_eq_true, if_false]
    have := integerCompare_spec D (Binary.skipZeros integer) num hii N
    cases hs : stepsN radix (valL den) (dv radix (Binary.skipZeros integer)) (valL num) with
    | inl o => rw [hs] at this; simp only [] at this; rw [this]
    | inr x' =>
      rw [hs] at this
      simp only [] at this
      obtain ⟨num', e1, N', v'⟩ := this
      rw [e1]
      simp only []
      by_cases hx : x' = 0
      · rw [if_pos hx]
        have : num'.isEmpty = true := (isEmpty_iff N'.1).mpr (by rw [v', hx])
        simp [this]
      · rw [if_neg hx]
        have : num'.isEmpty = false := by
          cases h : num'.isEmpty with
          | false => rfl
          | true => exact absurd ((isEmpty_iff N'.1).mp h) (by rw [v']; exact hx)
        simp [this]
  | some fr =>
    have hfr := hbf fr rfl
    simp only [sigBytes] at hne ⊢
    by_cases hi0 : Binary.skipZeros integer = []
    · rw [if_pos hi0] at hne ⊢
      rw [hi0]
      simp only [List.isEmpty_nil, if_true]
      have := fractionCompare_spec D (Binary.skipZeros fr) num (skipZeros_lt hfr) N
      cases hs : stepsN radix (valL den) (dv radix (Binary.skipZeros fr)) (valL num) with
      | inl o => rw [hs] at this; simp only [] at this; rw [this]
      | inr x' =>
        rw [hs] at this
        simp only [] at this
        by_cases hx : x' = 0
        · rw [if_pos hx] at this
          obtain ⟨num', e1⟩ := this
          rw [e1]; simp [hx]
        · rw [if_neg hx] at this
          rw [this]; simp [hx]
    · rw [if_neg hi0] at hne ⊢
      have hemp : (Binary.skipZeros integer).isEmpty = false := by
        cases h : Binary.skipZeros integer with
        | nil => exact absurd h hi0
        | cons a as => rfl
      rw [hemp]
      simp only [Bool.false_eq_true, if_false]
      rw [dv_append, stepsN_append]
      have := integerCompare_spec D (Binary.skipZeros integer) num hii N
      cases hs : stepsN radix (valL den) (dv radix (Binary.skipZeros integer)) (valL num) with
      | inl o => rw [hs] at this; simp only [] at this; rw [this]
      | inr x' =>
        rw [hs] at this
        simp only [] at this
        obtain ⟨num', e1, N', v'⟩ := this
        rw [e1]
        simp only []
        have h2 := fractionCompare_spec D fr num' hfr N'
        rw [v'] at h2
        cases hs2 : stepsN radix (valL den) (dv radix fr) x' with
        | inl o => rw [hs2] at h2; simp only [] at h2; rw [h2]
        | inr x'' =>
          rw [hs2] at h2
          simp only [] at h2
          by_cases hx : x'' = 0
          · rw [if_pos hx] at h2
            obtain ⟨num'', e2⟩ := h2
            rw [e2]; simp [hx]
          · rw [if_neg hx] at h2
            rw [h2]; simp [hx]

end LexVerif.Proof.Slow
