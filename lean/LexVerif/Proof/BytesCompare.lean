import LexVerif.Proof.BytesLimbs
import LexVerif.Proof.SlowMantissa
/-!
# Proof.BytesCompare — `compare_bytes`: generating the digits of `b + h` and comparing them with the input

`compare_bytes(number, num, den)` produces the radix-`r` digits of `num/den` one at a time (`large_quorem`, then
`num = rem·r`) and compares each with the next significant digit of the input. On numbers (`stepsN`, `cmpDigits`):
for digits `ds` (values below `r`) and a current numerator `x`,

  `cmpDigits r Y ds x = compare (ofDigits r ds · Y · r) (x · r^|ds|)`,

i.e. the comparison of `0.d₁d₂…` (scaled) with `x/Y` (`cmpDigits_spec`). `compareBytes_spec`: the limb-level
`compare_bytes` on the significant bytes of a `Number` is `cmpDigits` of their values, and it does not panic when the
divisor's top limb is in the range the normalisation step of `byte_comp` establishes.
-/
namespace LexVerif.Proof.Slow
open LexVerif.Spec LexVerif.Model LexVerif.Model.Slow LexVerif.Proof.RoundNE

/-- the digit loop on numbers: `inl o` = decided, `inr x'` = all digits consumed, numerator left -/
def stepsN (r Y : Nat) : List Nat → Nat → Ordering ⊕ Nat
  | [], x => .inr x
  | d :: ds, x =>
    if x = 0 then (if (d :: ds).any (· ≠ 0) then .inl .gt else .inr 0)
    else if d < x / Y then .inl .lt
    else if d > x / Y then .inl .gt
    else stepsN r Y ds (x % Y * r)

/-- the whole comparison: at the end, a non-zero numerator means the input is a proper prefix of the expansion -/
def cmpDigits (r Y : Nat) (ds : List Nat) (x : Nat) : Ordering :=
  match stepsN r Y ds x with
  | .inl o => o
  | .inr x' => if x' = 0 then .eq else .lt

theorem stepsN_zero (r Y : Nat) (ds : List Nat) :
    stepsN r Y ds 0 = if ds.any (· ≠ 0) then .inl .gt else .inr 0 := by
  cases ds with
  | nil => simp [stepsN]
  | cons d ds => simp [stepsN]

theorem stepsN_append (r Y : Nat) : ∀ (a b : List Nat) (x : Nat),
    stepsN r Y (a ++ b) x = match stepsN r Y a x with
      | .inl o => .inl o
      | .inr x' => stepsN r Y b x'
  | [], b, x => by simp [stepsN]
  | d :: ds, b, x => by
    by_cases hx : x = 0
    · subst hx
      rw [stepsN_zero, stepsN_zero]
      by_cases ha : (d :: ds).any (· ≠ 0) = true
      · have : ((d :: ds) ++ b).any (· ≠ 0) = true := by rw [List.any_append, ha]; rfl
        rw [if_pos this, if_pos ha]
      · rw [if_neg ha]
        simp only []
        rw [stepsN_zero]
        have : ((d :: ds) ++ b).any (· ≠ 0) = b.any (· ≠ 0) := by
          rw [List.any_append]
          have : (d :: ds).any (· ≠ 0) = false := by simpa using ha
          rw [this]; rfl
        rw [this]
    · simp only [List.cons_append, stepsN, if_neg hx]
      by_cases h1 : d < x / Y
      · simp [h1]
      · by_cases h2 : d > x / Y
        · simp [h1, h2]
        · simp only [h1, h2, if_false]
          exact stepsN_append r Y ds b _

theorem ofDigits_pos_of_any {r : Nat} (hr : 0 < r) : ∀ (ds : List Nat), ds.any (· ≠ 0) = true → 0 < ofDigits r ds
  | [], h => by simp at h
  | d :: ds, h => by
    rw [ofDigits_cons]
    by_cases hd : d = 0
    · have : ds.any (· ≠ 0) = true := by simpa [hd] using h
      have := ofDigits_pos_of_any hr ds this
      omega
    · have : 0 < d * r ^ ds.length := Nat.mul_pos (Nat.pos_of_ne_zero hd) (Nat.pow_pos hr)
      omega

theorem ofDigits_zero_of_not_any {r : Nat} : ∀ (ds : List Nat), ds.any (· ≠ 0) = false → ofDigits r ds = 0
  | [], _ => rfl
  | d :: ds, h => by
    simp only [List.any_cons, Bool.or_eq_false_iff, decide_eq_false_iff_not, ne_eq, not_not] at h
    rw [ofDigits_cons, h.1, ofDigits_zero_of_not_any ds h.2]
    simp

theorem cmp_add_right (a b c : Nat) : compare (a + c) (b + c) = compare a b := by
  rcases Nat.lt_trichotomy a b with h | h | h
  · rw [cmp_lt h, cmp_lt (by omega)]
  · rw [cmp_eq h, cmp_eq (by omega)]
  · rw [cmp_gt h, cmp_gt (by omega)]

/-- **the digit comparison compares the numbers** -/
theorem cmpDigits_spec {r Y : Nat} (hr : 0 < r) (hY : 0 < Y) : ∀ (ds : List Nat) (x : Nat), (∀ d ∈ ds, d < r) →
    cmpDigits r Y ds x = compare (ofDigits r ds * Y * r) (x * r ^ ds.length)
  | [], x, _ => by
    unfold cmpDigits
    simp only [stepsN, ofDigits, List.foldl_nil, Nat.zero_mul, List.length_nil, Nat.pow_zero, Nat.mul_one]
    by_cases hx : x = 0
    · rw [if_pos hx, hx]; rfl
    · rw [if_neg hx]; exact (cmp_lt (Nat.pos_of_ne_zero hx)).symm
  | d :: ds, x, hds => by
    have hd : d < r := hds d (List.mem_cons_self ..)
    have hds' : ∀ e ∈ ds, e < r := fun e he => hds e (List.mem_cons_of_mem _ he)
    have hD := ofDigits_lt ds hds'
    have hrk : 0 < r ^ ds.length := Nat.pow_pos hr
    by_cases hx : x = 0
    · subst hx
      unfold cmpDigits
      rw [stepsN_zero, Nat.zero_mul]
      by_cases ha : (d :: ds).any (· ≠ 0) = true
      · rw [if_pos ha]
        simp only []
        have := ofDigits_pos_of_any hr _ ha
        exact (cmp_gt (Nat.mul_pos (Nat.mul_pos this hY) hr)).symm
      · rw [if_neg ha]
        simp only [if_true]
        rw [ofDigits_zero_of_not_any _ (by simpa using ha)]
        simp
    · have ih := cmpDigits_spec hr hY ds (x % Y * r) hds'
      have hdm := Nat.div_add_mod x Y
      have hml := Nat.mod_lt x hY
      rw [ofDigits_cons, List.length_cons, Nat.pow_succ]
      generalize hq : x / Y = q at *
      generalize hrem : x % Y = rem at *
      generalize hDv : ofDigits r ds = D at *
      generalize hK : r ^ ds.length = K at *
      have hxe : x * (K * r) = (q * K) * Y * r + rem * r * K := by rw [← hdm]; ring
      unfold cmpDigits at ih ⊢
      simp only [stepsN, if_neg hx, hq, hrem]
      by_cases h1 : d < q
      · simp only [h1, if_true]
        symm; apply cmp_lt
        have a1 : (d * K + D) * Y * r < ((d + 1) * K) * Y * r := by
          apply Nat.mul_lt_mul_of_pos_right _ hr
          apply Nat.mul_lt_mul_of_pos_right _ hY
          rw [Nat.add_mul, Nat.one_mul]; omega
        have a2 : ((d + 1) * K) * Y * r ≤ (q * K) * Y * r :=
          Nat.mul_le_mul_right _ (Nat.mul_le_mul_right _ (Nat.mul_le_mul_right _ h1))
        omega
      · by_cases h2 : d > q
        · simp only [h1, h2, if_false, if_true]
          symm; apply cmp_gt
          have a1 : ((q + 1) * K) * Y * r ≤ (d * K + D) * Y * r := by
            apply Nat.mul_le_mul_right
            apply Nat.mul_le_mul_right
            have : (q + 1) * K ≤ d * K := Nat.mul_le_mul_right _ h2
            omega
          have a2 : rem * r * K < Y * r * K :=
            Nat.mul_lt_mul_of_pos_right (Nat.mul_lt_mul_of_pos_right hml hr) hrk
          have a3 : ((q + 1) * K) * Y * r = (q * K) * Y * r + Y * r * K := by ring
          omega
        · simp only [h1, h2, if_false]
          have hdq : d = q := by omega
          rw [ih, hxe, hdq]
          have e1 : (q * K + D) * Y * r = D * Y * r + (q * K) * Y * r := by ring
          have e2 : (q * K) * Y * r + rem * r * K = rem * r * K + (q * K) * Y * r := by ring
          rw [e1, e2, cmp_add_right]

end LexVerif.Proof.Slow
