import LexVerif.Spec.Float
/-!
# Proof.RoundNECore — Nat/Int-level analysis of `Spec.roundNE` (Mathlib-free)

Everything is scaled by `2^L`, `L = -eminLsb`, so that every finite float is a natural number
`ival b` (its value in units of the smallest subnormal).  The main results:

* `ilog2Q_spec`   : `2^e ≤ num/den < 2^(e+1)` for `e = ilog2Q num den`;
* `roundNE_eq`    : `roundNE f num den = min infBits (k·2^(p-1) + rhe (num·2^L) (den·2^k))`;
* `inCell_roundNE`: the result's *rounding cell* contains `num/den` (midpoints to the neighbours,
                    ties only for even patterns);
* `inCell_mono`   : cells are ordered — hence monotonicity, uniqueness, scale invariance.
-/
namespace LexVerif.Proof.RoundNE
open LexVerif.Spec

/-! ## `a·2^e ≤ b` for an integer exponent -/

/-- `a · 2^e ≤ b` with `e : Int`, in `Nat` arithmetic. -/
def le2 (a b : Nat) (e : Int) : Prop := a * 2 ^ e.toNat ≤ b * 2 ^ (-e).toNat

theorem le2_shift (a b : Nat) (e : Int) (s : Nat) (h : 0 ≤ e + s) :
    le2 a b e ↔ a * 2 ^ (e + s).toNat ≤ b * 2 ^ s := by
  unfold le2
  by_cases he : 0 ≤ e
  · have h1 : (-e).toNat = 0 := by omega
    have h2 : (e + s).toNat = e.toNat + s := by omega
    rw [h1, h2, Nat.pow_add, ← Nat.mul_assoc]
    simp only [Nat.pow_zero, Nat.mul_one]
    exact (Nat.mul_le_mul_right_iff (Nat.two_pow_pos s)).symm
  · have h1 : e.toNat = 0 := by omega
    obtain ⟨j, hj⟩ : ∃ j : Nat, (-e).toNat = j := ⟨_, rfl⟩
    have h2 : s = (e + s).toNat + j := by omega
    rw [h1, hj]
    generalize (e + s).toNat = t at h2
    subst h2
    rw [Nat.pow_add, Nat.pow_zero, Nat.mul_one, Nat.mul_comm (2 ^ t), ← Nat.mul_assoc]
    exact (Nat.mul_le_mul_right_iff (Nat.two_pow_pos t)).symm

theorem le2_anti {a b : Nat} {e e' : Int} (h : e ≤ e') (h' : le2 a b e') : le2 a b e := by
  have hs : 0 ≤ e + ((-e).toNat : Nat) := by omega
  have hs' : 0 ≤ e' + ((-e).toNat : Nat) := by omega
  rw [le2_shift a b e _ hs]
  rw [le2_shift a b e' _ hs'] at h'
  refine Nat.le_trans (Nat.mul_le_mul_left a (Nat.pow_le_pow_right (by decide) ?_)) h'
  omega

/-! ## `bitlen` and `ilog2Q` -/

theorem bitlen_pos {n : Nat} (h : n ≠ 0) : 0 < bitlen n := by simp [bitlen, h]

theorem bitlen_lower {n : Nat} (h : n ≠ 0) : 2 ^ (bitlen n - 1) ≤ n := by
  simp only [bitlen, h, if_false, Nat.add_sub_cancel]
  exact Nat.log2_self_le h

theorem bitlen_upper (n : Nat) : n < 2 ^ bitlen n := by
  unfold bitlen
  split
  · subst_vars; decide
  · exact Nat.lt_log2_self

/-- `2^e ≤ num/den < 2^(e+1)` for `e = ilog2Q num den`. -/
theorem ilog2Q_spec {num den : Nat} (hn : num ≠ 0) (hd : den ≠ 0) :
    le2 den num (ilog2Q num den) ∧ ¬ le2 den num (ilog2Q num den + 1) := by
  have hbn := bitlen_pos hn
  have hbd := bitlen_pos hd
  have hnl := bitlen_lower hn
  have hnu := bitlen_upper num
  have hdl := bitlen_lower hd
  have hdu := bitlen_upper den
  obtain ⟨bn, hbn'⟩ : ∃ bn, bitlen num = bn + 1 := ⟨bitlen num - 1, by omega⟩
  obtain ⟨bd, hbd'⟩ : ∃ bd, bitlen den = bd + 1 := ⟨bitlen den - 1, by omega⟩
  have key : ∀ e : Int, (if e ≥ 0 then den * 2 ^ e.toNat ≤ num else den ≤ num * 2 ^ (-e).toNat)
      ↔ le2 den num e := by
    intro e; unfold le2
    split
    · have : (-e).toNat = 0 := by omega
      simp [this]
    · have : e.toNat = 0 := by omega
      simp [this]
  simp only [ilog2Q, key]
  rw [hbn'] at hnl hnu
  rw [hbd'] at hdl hdu
  rw [hbn', hbd']
  simp only [Nat.add_sub_cancel] at hnl hdl
  generalize hE : ((bn + 1 : Nat) : Int) - ((bd + 1 : Nat) : Int) = e0
  by_cases hok' : (if e0 ≥ 0 then den * 2 ^ e0.toNat ≤ num else den ≤ num * 2 ^ (-e0).toNat)
  · have hok := (key e0).mp hok'
    rw [if_pos hok']
    refine ⟨hok, ?_⟩
    rw [le2_shift den num (e0 + 1) (bd + 1) (by omega)]
    have : (e0 + 1 + ((bd + 1 : Nat) : Int)).toNat = bn + 2 := by omega
    rw [this]
    have h1 : 2 ^ bd * 2 ^ (bn + 2) ≤ den * 2 ^ (bn + 2) := Nat.mul_le_mul_right _ hdl
    have h2 : num * 2 ^ (bd + 1) < 2 ^ (bn + 1) * 2 ^ (bd + 1) :=
      Nat.mul_lt_mul_of_pos_right hnu (Nat.two_pow_pos _)
    have h3 : 2 ^ bd * 2 ^ (bn + 2) = 2 ^ (bn + 1) * 2 ^ (bd + 1) := by
      rw [← Nat.pow_add, ← Nat.pow_add]; congr 1; omega
    omega
  · have hok := fun h => hok' ((key e0).mpr h)
    rw [if_neg hok']
    refine ⟨?_, by simpa using hok⟩
    rw [le2_shift den num (e0 - 1) (bd + 1) (by omega)]
    have : (e0 - 1 + ((bd + 1 : Nat) : Int)).toNat = bn := by omega
    rw [this]
    rw [Nat.mul_comm num]
    exact Nat.mul_le_mul (Nat.le_of_lt hdu) hnl

/-! ## round-half-even quotient -/

/-- `n/d` rounded to the nearest integer, ties to even (the `q`/`rem` step of `roundNE`). -/
def rhe (n d : Nat) : Nat :=
  if 2 * (n % d) > d ∨ (2 * (n % d) = d ∧ (n / d) % 2 = 1) then n / d + 1 else n / d

theorem rhe_spec (n : Nat) {d : Nat} (hd : 0 < d) :
    2 * (d * rhe n d) ≤ 2 * n + d ∧ 2 * n ≤ 2 * (d * rhe n d) + d ∧
    (2 * (d * rhe n d) = 2 * n + d → rhe n d % 2 = 0) ∧
    (2 * n = 2 * (d * rhe n d) + d → rhe n d % 2 = 0) := by
  have h1 := Nat.div_add_mod n d
  have h2 := Nat.mod_lt n hd
  unfold rhe
  split
  · rw [Nat.mul_succ]; omega
  · omega

theorem rhe_scale (c n d : Nat) (hc : 0 < c) : rhe (c * n) (c * d) = rhe n d := by
  unfold rhe
  rw [Nat.mul_div_mul_left _ _ hc, Nat.mul_mod_mul_left]
  have e1 : (2 * (c * (n % d)) > c * d) ↔ (2 * (n % d) > d) := by
    rw [show 2 * (c * (n % d)) = c * (2 * (n % d)) by rw [Nat.mul_left_comm]]
    exact Nat.mul_lt_mul_left hc
  have e2 : (2 * (c * (n % d)) = c * d) ↔ (2 * (n % d) = d) := by
    rw [show 2 * (c * (n % d)) = c * (2 * (n % d)) by rw [Nat.mul_left_comm]]
    exact Nat.mul_right_inj (Nat.ne_of_gt hc)
  simp only [e1, e2]

/-! ## `roundNE` in structured form -/

def scaled (num den : Nat) (lsb : Int) : Nat × Nat :=
  if lsb ≥ 0 then (num, den * 2 ^ lsb.toNat) else (num * 2 ^ (-lsb).toNat, den)
def lsbOf (f : Fmt) (e : Int) : Int :=
  if e - ((f.p : Int) - 1) < f.eminLsb then f.eminLsb else e - ((f.p : Int) - 1)
def renorm (f : Fmt) (q : Nat) (lsb : Int) : Nat × Int :=
  if q = 2 ^ f.p then (2 ^ (f.p - 1), lsb + 1) else (q, lsb)
def pack (f : Fmt) (q : Nat) (lsb : Int) : Nat :=
  if q < 2 ^ (f.p - 1) then q
  else if lsb + ((f.p : Int) - 1) + (f.bias : Int) ≥ (f.maxExpField : Int) then f.infBits
  else (lsb + ((f.p : Int) - 1) + (f.bias : Int)).toNat * 2 ^ (f.p - 1) + (q - 2 ^ (f.p - 1))

theorem roundNE_unfold (f : Fmt) (num den : Nat) : roundNE f num den =
    if num = 0 then 0 else
      let lsb := lsbOf f (ilog2Q num den)
      let s := scaled num den lsb
      let r := renorm f (rhe s.1 s.2) lsb
      pack f r.1 r.2 := by rfl

/-- well-formed format: at least 2 bits of precision and of exponent -/
structure WF (f : Fmt) : Prop where
  hp : 2 ≤ f.p
  he : 2 ≤ f.ebits

theorem wf_f64 : WF f64 := ⟨by decide, by decide⟩
theorem wf_f32 : WF f32 := ⟨by decide, by decide⟩

/-- `L = -eminLsb`: every finite float is an integer multiple of `2^-L`. -/
def L (f : Fmt) : Nat := f.bias + (f.p - 1) - 1

theorem bias_pos {f : Fmt} (hf : WF f) : 1 ≤ f.bias := by
  unfold Fmt.bias
  have : 2 ^ 1 ≤ 2 ^ (f.ebits - 1) := Nat.pow_le_pow_right (by decide) (by have := hf.he; omega)
  omega

theorem eminLsb_eq {f : Fmt} (hf : WF f) : f.eminLsb = -((L f : Nat) : Int) := by
  have := bias_pos hf
  have := hf.hp
  unfold Fmt.eminLsb L
  omega

/-- exponent (relative to `-L`) of the last kept bit -/
def kOf (f : Fmt) (e : Int) : Nat := (e + (L f : Int) - ((f.p - 1 : Nat) : Int)).toNat

theorem lsbOf_eq {f : Fmt} (hf : WF f) (e : Int) : lsbOf f e = (kOf f e : Int) - (L f : Int) := by
  have := hf.hp
  unfold lsbOf kOf
  rw [eminLsb_eq hf]
  split <;> omega

theorem scaled_rhe (num den : Nat) (lsb : Int) (l : Nat) (h : 0 ≤ lsb + l) :
    rhe (scaled num den lsb).1 (scaled num den lsb).2 = rhe (num * 2 ^ l) (den * 2 ^ (lsb + l).toNat) := by
  unfold scaled
  split
  · have : (lsb + l).toNat = lsb.toNat + l := by omega
    rw [this, Nat.pow_add, ← Nat.mul_assoc, Nat.mul_comm num, Nat.mul_comm (den * _)]
    exact (rhe_scale _ _ _ (Nat.two_pow_pos l)).symm
  · obtain ⟨j, hj⟩ : ∃ j : Nat, (-lsb).toNat = j := ⟨_, rfl⟩
    have h2 : l = j + (lsb + l).toNat := by omega
    rw [hj]
    generalize (lsb + l).toNat = t at h2
    subst h2
    show rhe (num * 2 ^ j) den = _
    rw [Nat.pow_add, ← Nat.mul_assoc, Nat.mul_comm (num * 2 ^ j), Nat.mul_comm den]
    exact (rhe_scale _ _ _ (Nat.two_pow_pos t)).symm

theorem pow_bounds {f : Fmt} (hf : WF f) {num den : Nat} (hn : num ≠ 0) (hd : den ≠ 0) :
    (0 < kOf f (ilog2Q num den) →
        den * 2 ^ (f.p - 1 + kOf f (ilog2Q num den)) ≤ num * 2 ^ (L f)) ∧
    num * 2 ^ (L f) < den * 2 ^ (f.p + kOf f (ilog2Q num den)) := by
  obtain ⟨hlo, hhi⟩ := ilog2Q_spec hn hd
  have hp := hf.hp
  generalize ilog2Q num den = e at *
  generalize hk : kOf f e = k
  unfold kOf at hk
  constructor
  · intro hk0
    have h := le2_anti (e := ((f.p - 1 + k : Nat) : Int) - (L f : Int)) (by omega) hlo
    rw [le2_shift _ _ _ (L f) (by omega)] at h
    have e1 : (((f.p - 1 + k : Nat) : Int) - (L f : Int) + (L f : Int)).toNat = f.p - 1 + k := by omega
    rwa [e1] at h
  · apply Nat.lt_of_not_le
    intro hc
    apply hhi
    have h : le2 den num (((f.p + k : Nat) : Int) - (L f : Int)) := by
      rw [le2_shift _ _ _ (L f) (by omega)]
      have e1 : (((f.p + k : Nat) : Int) - (L f : Int) + (L f : Int)).toNat = f.p + k := by omega
      rwa [e1]
    exact le2_anti (by omega) h

theorem rhe_ge (n d : Nat) : n / d ≤ rhe n d ∧ rhe n d ≤ n / d + 1 := by
  unfold rhe; split <;> omega

theorem q0_bounds {f : Fmt} (hf : WF f) {num den : Nat} (hn : num ≠ 0) (hd : den ≠ 0) :
    (0 < kOf f (ilog2Q num den) →
      2 ^ (f.p - 1) ≤ rhe (num * 2 ^ (L f)) (den * 2 ^ kOf f (ilog2Q num den))) ∧
    rhe (num * 2 ^ (L f)) (den * 2 ^ kOf f (ilog2Q num den)) ≤ 2 ^ f.p := by
  obtain ⟨h1, h2⟩ := pow_bounds hf hn hd
  generalize kOf f (ilog2Q num den) = k at *
  have hD : 0 < den * 2 ^ k := Nat.mul_pos (Nat.pos_of_ne_zero hd) (Nat.two_pow_pos k)
  obtain ⟨g1, g2⟩ := rhe_ge (num * 2 ^ (L f)) (den * 2 ^ k)
  constructor
  · intro hk
    refine Nat.le_trans ?_ g1
    rw [Nat.le_div_iff_mul_le hD]
    have := h1 hk
    rwa [show den * 2 ^ (f.p - 1 + k) = 2 ^ (f.p - 1) * (den * 2 ^ k) by
      rw [Nat.pow_add]; ac_rfl] at this
  · have : num * 2 ^ (L f) / (den * 2 ^ k) < 2 ^ f.p := by
      rw [Nat.div_lt_iff_lt_mul hD]
      rwa [show den * 2 ^ (f.p + k) = 2 ^ f.p * (den * 2 ^ k) by rw [Nat.pow_add]; ac_rfl] at h2
    omega

theorem two_pow_P {f : Fmt} (hf : WF f) : 2 ^ f.p = 2 * 2 ^ (f.p - 1) := by
  have := hf.hp
  rw [show f.p = (f.p - 1) + 1 by omega, Nat.pow_succ, Nat.mul_comm]; simp

theorem T_even {f : Fmt} (hf : WF f) : ∃ t, 2 ^ (f.p - 1) = 2 * t ∧ 0 < t := by
  have := hf.hp
  refine ⟨2 ^ (f.p - 2), ?_, Nat.two_pow_pos _⟩
  rw [show f.p - 1 = (f.p - 2) + 1 by omega, Nat.pow_succ, Nat.mul_comm]

theorem M_ge {f : Fmt} (hf : WF f) : 3 ≤ f.maxExpField := by
  unfold Fmt.maxExpField
  have : 2 ^ 2 ≤ 2 ^ f.ebits := Nat.pow_le_pow_right (by decide) hf.he
  omega

theorem M_eq {f : Fmt} (hf : WF f) : f.maxExpField = 2 * f.bias + 1 := by
  unfold Fmt.maxExpField Fmt.bias
  have := hf.he
  have : 2 ^ f.ebits = 2 * 2 ^ (f.ebits - 1) := by
    rw [show f.ebits = (f.ebits - 1) + 1 by omega, Nat.pow_succ, Nat.mul_comm]; simp
  have := Nat.two_pow_pos (f.ebits - 1)
  omega

theorem infBits_eq (f : Fmt) : f.infBits = f.maxExpField * 2 ^ (f.p - 1) := rfl

theorem pack_renorm {f : Fmt} (hf : WF f) (k q0 : Nat) (h1 : 0 < k → 2 ^ (f.p - 1) ≤ q0)
    (h2 : q0 ≤ 2 ^ f.p) :
    pack f (renorm f q0 ((k : Int) - (L f : Int))).1 (renorm f q0 ((k : Int) - (L f : Int))).2 =
      if f.infBits ≤ k * 2 ^ (f.p - 1) + q0 then f.infBits else k * 2 ^ (f.p - 1) + q0 := by
  have hp := hf.hp
  have hb := bias_pos hf
  have hM := M_ge hf
  have hTT := two_pow_P hf
  have hinf := infBits_eq f
  generalize hT : 2 ^ (f.p - 1) = T at *
  generalize hMM : f.maxExpField = M at *
  have hTpos : 0 < T := by rw [← hT]; exact Nat.two_pow_pos _
  have hL : (L f : Int) = (f.bias : Int) + ((f.p : Int) - 1) - 1 := by unfold L; omega
  have cmp1 : ∀ j : Nat, M ≤ j → M * T ≤ j * T := fun j h => Nat.mul_le_mul_right T h
  have cmp2 : ∀ j : Nat, j ≤ M → j * T ≤ M * T := fun j h => Nat.mul_le_mul_right T h
  have e1 : (k + 1) * T = k * T + T := Nat.succ_mul k T
  have e2 : (k + 2) * T = k * T + 2 * T := by rw [Nat.add_mul]
  unfold renorm pack
  by_cases hq : q0 = 2 ^ f.p
  · simp only [hq, if_true, hT, Nat.lt_irrefl, if_false, Nat.sub_self, Nat.add_zero]
    have hb2 : ((k : Int) - (L f : Int) + 1 + ((f.p : Int) - 1) + (f.bias : Int)) = ((k + 2 : Nat) : Int) := by
      omega
    rw [hb2, hTT]
    by_cases hc : M ≤ k + 2
    · have := cmp1 _ hc
      rw [if_pos (by omega), if_pos (by omega)]
    · have := cmp2 (k + 3) (by omega)
      have e3 : (k + 3) * T = k * T + 3 * T := by rw [Nat.add_mul]
      rw [if_neg (by omega), if_neg (by omega)]
      simp only [Int.toNat_natCast]; omega
  · simp only [hq, if_false, hT]
    have hb1 : ((k : Int) - (L f : Int) + ((f.p : Int) - 1) + (f.bias : Int)) = ((k + 1 : Nat) : Int) := by
      omega
    rw [hb1]
    by_cases hlt : q0 < T
    · have hk0 : k = 0 := by
        apply Classical.byContradiction; intro hk; have := h1 (by omega); omega
      subst hk0
      have := cmp2 1 (by omega)
      rw [if_pos hlt, if_neg (by omega)]; omega
    · rw [if_neg hlt]
      have hq2 : q0 < 2 * T := by omega
      by_cases hc : M ≤ k + 1
      · have := cmp1 _ hc
        rw [if_pos (by omega), if_pos (by omega)]
      · have := cmp2 (k + 2) (by omega)
        rw [if_neg (by omega), if_neg (by omega)]
        simp only [Int.toNat_natCast]; omega

/-- `roundNE` is "encode the rounded significand by adding it to `k·2^(p-1)`, clamp at infinity". -/
theorem roundNE_eq {f : Fmt} (hf : WF f) {num den : Nat} (hn : num ≠ 0) (hd : den ≠ 0) :
    roundNE f num den =
      if f.infBits ≤ kOf f (ilog2Q num den) * 2 ^ (f.p - 1) +
            rhe (num * 2 ^ (L f)) (den * 2 ^ kOf f (ilog2Q num den))
      then f.infBits
      else kOf f (ilog2Q num den) * 2 ^ (f.p - 1) +
            rhe (num * 2 ^ (L f)) (den * 2 ^ kOf f (ilog2Q num den)) := by
  obtain ⟨h1, h2⟩ := q0_bounds hf hn hd
  rw [roundNE_unfold, if_neg hn]
  simp only []
  rw [scaled_rhe num den _ (L f) (by rw [lsbOf_eq hf]; omega), lsbOf_eq hf]
  have : ((kOf f (ilog2Q num den) : Int) - (L f : Int) + (L f : Int)).toNat = kOf f (ilog2Q num den) := by
    omega
  rw [this]
  exact pack_renorm hf _ _ h1 h2

end LexVerif.Proof.RoundNE
