import LexVerif.Spec.Float
/-!
# Proof.RoundNECore — Nat/Int-level analysis of `Spec.roundNE` (Mathlib-free)

Everything is scaled by `2^L`, `L = -eminLsb`, so that every finite float is a natural number
`ival b` (its value in units of the smallest subnormal).  The main results:

* `ilog2Q_spec`   : `2^e ≤ num/den < 2^(e+1)` for `e = ilog2Q num den`;
* `roundNE_eq`    : `roundNE f num den = min infBits (k·2^(p-1) + rhe (num·2^L) (den·2^k))`;
* `inCell_roundNE`: the result's *rounding cell* contains `num/den` (midpoints to the neighbours,
                    ties only for even patterns);
* `inCell_mono`   : cells are ordered — hence monotonicity, uniqueness, scale invariance.
-/
namespace LexVerif.Proof.RoundNE
open LexVerif.Spec

/-! ## `a·2^e ≤ b` for an integer exponent -/

/-- `a · 2^e ≤ b` with `e : Int`, in `Nat` arithmetic. -/
def le2 (a b : Nat) (e : Int) : Prop := a * 2 ^ e.toNat ≤ b * 2 ^ (-e).toNat

theorem le2_shift (a b : Nat) (e : Int) (s : Nat) (h : 0 ≤ e + s) :
    le2 a b e ↔ a * 2 ^ (e + s).toNat ≤ b * 2 ^ s := by
  unfold le2
  by_cases he : 0 ≤ e
  · have h1 : (-e).toNat = 0 := by omega
    have h2 : (e + s).toNat = e.toNat + s := by omega
    rw [h1, h2, Nat.pow_add, ← Nat.mul_assoc]
    simp only [Nat.pow_zero, Nat.mul_one]
    exact (Nat.mul_le_mul_right_iff (Nat.two_pow_pos s)).symm
  · have h1 : e.toNat = 0 := by omega
    obtain ⟨j, hj⟩ : ∃ j : Nat, (-e).toNat = j := ⟨_, rfl⟩
    have h2 : s = (e + s).toNat + j := by omega
    rw [h1, hj]
    generalize (e + s).toNat = t at h2
    subst h2
    rw [Nat.pow_add, Nat.pow_zero, Nat.mul_one, Nat.mul_comm (2 ^ t), ← Nat.mul_assoc]
    exact (Nat.mul_le_mul_right_iff (Nat.two_pow_pos t)).symm

theorem le2_anti {a b : Nat} {e e' : Int} (h : e ≤ e') (h' : le2 a b e') : le2 a b e := by
  have hs : 0 ≤ e + ((-e).toNat : Nat) := by omega
  have hs' : 0 ≤ e' + ((-e).toNat : Nat) := by omega
  rw [le2_shift a b e _ hs]
  rw [le2_shift a b e' _ hs'] at h'
  refine Nat.le_trans (Nat.mul_le_mul_left a (Nat.pow_le_pow_right (by decide) ?_)) h'
  omega

/-! ## `bitlen` and `ilog2Q` -/

theorem bitlen_pos {n : Nat} (h : n ≠ 0) : 0 < bitlen n := by simp [bitlen, h]

theorem bitlen_lower {n : Nat} (h : n ≠ 0) : 2 ^ (bitlen n - 1) ≤ n := by
  simp only [bitlen, h, if_false, Nat.add_sub_cancel]
  exact Nat.log2_self_le h

theorem bitlen_upper (n : Nat) : n < 2 ^ bitlen n := by
  unfold bitlen
  split
  · subst_vars; decide
  · exact Nat.lt_log2_self

/-- `2^e ≤ num/den < 2^(e+1)` for `e = ilog2Q num den`. -/
theorem ilog2Q_spec {num den : Nat} (hn : num ≠ 0) (hd : den ≠ 0) :
    le2 den num (ilog2Q num den) ∧ ¬ le2 den num (ilog2Q num den + 1) := by
  have hbn := bitlen_pos hn
  have hbd := bitlen_pos hd
  have hnl := bitlen_lower hn
  have hnu := bitlen_upper num
  have hdl := bitlen_lower hd
  have hdu := bitlen_upper den
  obtain ⟨bn, hbn'⟩ : ∃ bn, bitlen num = bn + 1 := ⟨bitlen num - 1, by omega⟩
  obtain ⟨bd, hbd'⟩ : ∃ bd, bitlen den = bd + 1 := ⟨bitlen den - 1, by omega⟩
  have key : ∀ e : Int, (if e ≥ 0 then den * 2 ^ e.toNat ≤ num else den ≤ num * 2 ^ (-e).toNat)
      ↔ le2 den num e := by
    intro e; unfold le2
    split
    · have : (-e).toNat = 0 := by omega
      simp [this]
    · have : e.toNat = 0 := by omega
      simp [this]
  simp only [ilog2Q, key]
  rw [hbn'] at hnl hnu
  rw [hbd'] at hdl hdu
  rw [hbn', hbd']
  simp only [Nat.add_sub_cancel] at hnl hdl
  generalize hE : ((bn + 1 : Nat) : Int) - ((bd + 1 : Nat) : Int) = e0
  by_cases hok' : (if e0 ≥ 0 then den * 2 ^ e0.toNat ≤ num else den ≤ num * 2 ^ (-e0).toNat)
  · have hok := (key e0).mp hok'
    rw [if_pos hok']
    refine ⟨hok, ?_⟩
    rw [le2_shift den num (e0 + 1) (bd + 1) (by omega)]
    have : (e0 + 1 + ((bd + 1 : Nat) : Int)).toNat = bn + 2 := by omega
    rw [this]
    have h1 : 2 ^ bd * 2 ^ (bn + 2) ≤ den * 2 ^ (bn + 2) := Nat.mul_le_mul_right _ hdl
    have h2 : num * 2 ^ (bd + 1) < 2 ^ (bn + 1) * 2 ^ (bd + 1) :=
      Nat.mul_lt_mul_of_pos_right hnu (Nat.two_pow_pos _)
    have h3 : 2 ^ bd * 2 ^ (bn + 2) = 2 ^ (bn + 1) * 2 ^ (bd + 1) := by
      rw [← Nat.pow_add, ← Nat.pow_add]; congr 1; omega
    omega
  · have hok := fun h => hok' ((key e0).mpr h)
    rw [if_neg hok']
    refine ⟨?_, by simpa using hok⟩
    rw [le2_shift den num (e0 - 1) (bd + 1) (by omega)]
    have : (e0 - 1 + ((bd + 1 : Nat) : Int)).toNat = bn := by omega
    rw [this]
    rw [Nat.mul_comm num]
    exact Nat.mul_le_mul (Nat.le_of_lt hdu) hnl

end LexVerif.Proof.RoundNE
