import LexVerif.Proof.DragonboxSpec
/-! `compute_nearest_shorter` (f64): exponent fields 512 … 1023, every one checked against `Spec.shortest` by the kernel. -/
namespace LexVerif.Proof.DragonboxSpec
open LexVerif.Model.Dragonbox

theorem shorter64_512_640 : (expChunk .f64 512 640).all (dragonboxOk .f64) = true := by decide +kernel
theorem shorter64_640_768 : (expChunk .f64 640 768).all (dragonboxOk .f64) = true := by decide +kernel
theorem shorter64_768_896 : (expChunk .f64 768 896).all (dragonboxOk .f64) = true := by decide +kernel
theorem shorter64_896_1024 : (expChunk .f64 896 1024).all (dragonboxOk .f64) = true := by decide +kernel

end LexVerif.Proof.DragonboxSpec
