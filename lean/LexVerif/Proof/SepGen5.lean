import LexVerif.Proof.SepGen4
/-!
# Proof.SepGen5 — the many-digits re-parse over an input with separators equals the closed form over the stripped
input (`manyClosed`), for any separator predicates whose stored slices re-scan consistently (`SliceOK`)
-/
set_option linter.unusedSimpArgs false
namespace LexVerif.Proof.Sep
open LexVerif LexVerif.Model LexVerif.Spec
open LexVerif.Props.C12

theorem char48_digit (r : Nat) (h1 : 1 ≤ r) : charToDigit 48 r = some 0 := by
  unfold charToDigit charToValidDigit
  by_cases h10 : r ≤ 10
  · simp [h10]; omega
  · simp [h10]; omega

/-- `skip_zeros` at a byte that is neither a separator nor `'0'` (or at the end) does nothing -/
theorem skipZeros_stay (c : Cfg) (k : Comp) (b : Bytes) (hk : c.skip k ≠ .unreachable)
    (h : ∀ x, b.slc[b.index]? = some x → c.isSep x = false ∧ x ≠ 48) : skipZeros c k b = .ok (0, b) := by
  unfold skipZeros
  rw [skipZerosLoop.eq_2]
  unfold readIfValueCased
  rw [peek_at_nonsep c k b hk (fun x hx => (h x hx).1)]
  simp only [bind, Except.bind]
  cases hv : b.slc[b.index]? with
  | none => simp [pure, Except.pure]
  | some x =>
    have : (some x == some 48) = false := by simp [(h x hv).2]
    simp [this, pure, Except.pure]

/-- **`skip_zeros` started where a digit run starts** (first pass state): it consumes the leading zeros of the run -/
theorem skipZeros_first (c : Cfg) (o : POpts) (hG : GenStrip c o) (k : Comp) (hk : k = .integer ∨ k = .fraction)
    (b e : Bytes) (ds : List Nat) (hv : Bytes.Valid b) (hR : Run c k c.mantissaRadix b e ds)
    (hcon : c.iterContiguous k = true → NoSep c (slice b.slc b.index e.index)) :
    ∃ z bz, skipZeros c k b = .ok (z, bz) ∧ z ≤ ds.length ∧ bz.slc = b.slc ∧ b.index ≤ bz.index ∧ bz.index ≤ e.index ∧
      nonSep c (slice b.slc b.index bz.index) = List.replicate z 48 ∧
      (z < ds.length → ∃ v, b.slc[bz.index]? = some v ∧ v ≠ 48 ∧ (charToDigit v c.mantissaRadix).isSome) ∧
      (z = ds.length → bz = e) := by
  have hks : k ≠ .special := by rcases hk with rfl | rfl <;> decide
  have hrun := hR.run
  unfold parseDigits at hrun
  obtain ⟨bz, z, g1, g2, g3, g4, g5, g6, g7, g8⟩ :=
    skipZerosLoop_along c k _ hG.rel.debug (hG.rel.reach k) hG.sepDigM (char48_digit _ hG.radixM1) _ b e ds hv hrun
  refine ⟨z, bz, ?_, g2, by rw [g3]; simp, g4, g5, g6, fun h => (g7 h).1, g8⟩
  unfold skipZeros
  simp only [g1, bind, Except.bind, pure, Except.pure, Except.ok.injEq, Prod.mk.injEq, and_true]
  cases hc : c.iterContiguous k
  · rw [g3]
    rcases hk with rfl | rfl <;> simp [Bytes.iterCount, hc, advS, hG.format]
  · -- no separator flags: the cursor moved over the zeros only
    simp only [Bytes.iterCount, hc, if_true]
    have hns : NoSep c (slice b.slc b.index bz.index) := by
      intro x hx
      apply hcon hc x
      unfold slice at hx ⊢
      have hsub : (b.slc.drop b.index).take (bz.index - b.index)
          = ((b.slc.drop b.index).take (e.index - b.index)).take (bz.index - b.index) := by
        rw [List.take_take]; congr 1; omega
      rw [hsub] at hx
      exact List.mem_of_mem_take hx
    have := congrArg List.length g6
    rw [nonSep_of_noSep c _ hns, slice_length _ _ _ (by have := hR.valid; omega), List.length_replicate] at this
    exact this

/-- a stretch of the input that strips to `z` zeros, followed by a byte that is neither a separator nor `'0'`: what
the stripped input shows at the corresponding position -/
theorem zeros_at (c : Cfg) (s : List Nat) (a j z : Nat) (hj : a ≤ j)
    (hrep : nonSep c (slice s a j) = List.replicate z 48)
    (hst : ∀ x, s[j]? = some x → c.isSep x = false ∧ x ≠ 48) :
    zerosPrefix ((nonSep c s).drop (nonSep c (s.take a)).length) = z ∧
    (nonSep c (s.take j)).length = (nonSep c (s.take a)).length + z ∧
    (nonSep c s)[(nonSep c (s.take a)).length + z]? = s[j]? := by
  have hlen : (nonSep c (s.take j)).length = (nonSep c (s.take a)).length + z := by
    have e : j = a + (j - a) := by omega
    have h2 := nonSep_take_add c s a (j - a)
    rw [← e] at h2
    rw [h2]
    have : nonSep c ((s.drop a).take (j - a)) = List.replicate z 48 := hrep
    rw [this, List.length_replicate]
  refine ⟨?_, hlen, ?_⟩
  · rw [nonSep_take_drop, drop_slice_append s a j hj, nonSep_append, hrep]
    apply zerosPrefix_replicate
    intro x hx
    cases hv : s[j]? with
    | none => rw [drop_of_none hv] at hx; simp [nonSep] at hx
    | some y =>
      rw [drop_of_get hv, nonSep_cons_non c y _ (hst y hv).1] at hx
      simp only [List.head?_cons, Option.some.injEq] at hx
      rw [← hx]; exact (hst y hv).2
  · rw [← hlen]
    exact strip_idx c s j (fun x hx => (hst x hx).1)

/-- the two `skip_zeros` calls at the start of the many-digits path, against the stripped input -/
theorem zeros_part (c : Cfg) (o : POpts) (hG : GenStrip c o) (s : List Nat) (b eI : Bytes) (dsI : List Nat)
    (hs : b.slc = s) (hv : Bytes.Valid b) (hRI : Run c .integer c.mantissaRadix b eI dsI)
    (hconI : c.iterContiguous .integer = true → NoSep c (slice s b.index eI.index))
    (hNI : ∀ x, s[eI.index]? = some x → c.isSep x = false)
    (hfrac : s[eI.index]? = some o.dp → ∃ dsF eF, Run c .fraction c.mantissaRadix { eI with index := eI.index + 1 } eF dsF ∧
      (c.iterContiguous .fraction = true → NoSep c (slice s (eI.index + 1) eF.index)) ∧
      (∀ x, s[eF.index]? = some x → c.isSep x = false)) :
    ∃ z bz dpf zf bzF, skipZeros c .integer b = .ok (z, bz) ∧ bz.slc = s ∧ bz.firstIsCased o.dp = dpf ∧
      skipZeros c .fraction (if dpf = true then { bz with index := bz.index + 1 } else bz) = .ok (zf, bzF) ∧
      zerosPrefix ((nonSep c s).drop (nonSep c (s.take b.index)).length) = z ∧
      ((nonSep c s)[(nonSep c (s.take b.index)).length + z]? == some o.dp) = dpf ∧
      zerosPrefix ((nonSep c s).drop (if dpf = true then (nonSep c (s.take b.index)).length + z + 1
        else (nonSep c (s.take b.index)).length + z)) = zf := by
  have h48 := char48_digit _ hG.radixM1
  obtain ⟨z, bz, g1, g2, g3, g4, g5, g6, g7, g8⟩ :=
    skipZeros_first c o hG .integer (Or.inl rfl) b eI dsI hv hRI (by rw [hs]; exact hconI)
  rw [hs] at g6 g7
  have hbzs : bz.slc = s := by rw [g3, hs]
  -- the byte under the cursor after the integer zeros: not a separator, not `'0'`
  have hst : ∀ x, s[bz.index]? = some x → c.isSep x = false ∧ x ≠ 48 := by
    intro x hx
    by_cases hz : z < dsI.length
    · obtain ⟨v, hv1, hv48, hvd⟩ := g7 hz
      rw [hx] at hv1; cases hv1
      refine ⟨?_, hv48⟩
      cases hcs : c.isSep x with
      | false => rfl
      | true => have := hG.sepDigM x hcs; rw [this] at hvd; cases hvd
    · have hbe := g8 (by omega)
      rw [hbe] at hx
      refine ⟨hNI x hx, ?_⟩
      intro e48; subst e48
      have := hRI.stop 48 (by rw [hs]; exact hx)
      rw [h48] at this; cases this
  obtain ⟨r1, r2, r3⟩ := zeros_at c s b.index bz.index z g4 g6 hst
  by_cases hdp : s[bz.index]? = some o.dp
  · -- a decimal point follows: all integer digits are zeros and the fraction run starts behind it
    have hzl : z = dsI.length := by
      by_cases hne : z = dsI.length
      · exact hne
      · exfalso
        obtain ⟨v, hv1, _, hvd⟩ := g7 (by omega)
        rw [hdp] at hv1; cases hv1
        rw [hG.dpDigit] at hvd; cases hvd
    have hbe := g8 hzl
    subst hbe
    obtain ⟨dsF, eF, hRF, hconF, hNF⟩ := hfrac hdp
    have hvF : Bytes.Valid ({ bz with index := bz.index + 1 } : Bytes) := by
      unfold Bytes.Valid; simp only
      have := (List.getElem?_eq_some_iff.mp hdp).1
      rw [hbzs]; omega
    obtain ⟨zf, bzF, f1, f2, f3, f4, f5, f6, f7, f8⟩ :=
      skipZeros_first c o hG .fraction (Or.inr rfl) _ eF dsF hvF hRF (by simp only [hbzs]; exact hconF)
    simp only [hbzs] at f6 f7
    have hstF : ∀ x, s[bzF.index]? = some x → c.isSep x = false ∧ x ≠ 48 := by
      intro x hx
      by_cases hz : zf < dsF.length
      · obtain ⟨v, hv1, hv48, hvd⟩ := f7 hz
        rw [hx] at hv1; cases hv1
        refine ⟨?_, hv48⟩
        cases hcs : c.isSep x with
        | false => rfl
        | true => have := hG.sepDigM x hcs; rw [this] at hvd; cases hvd
      · have hbe := f8 (by omega)
        rw [hbe] at hx
        refine ⟨hNF x hx, ?_⟩
        intro e48; subst e48
        have := hRF.stop 48 (by simp only [hbzs]; exact hx)
        rw [h48] at this; cases this
    obtain ⟨q1, q2, q3⟩ := zeros_at c s (bz.index + 1) bzF.index zf f4 f6 hstF
    have hidx : (nonSep c (s.take (bz.index + 1))).length = (nonSep c (s.take b.index)).length + z + 1 := by
      rw [nonSep_take_add, drop_of_get hdp, List.take_succ_cons, List.take_zero, nonSep_cons_non c _ _ hG.sepDp, r2]
      simp [nonSep]
    refine ⟨z, bz, true, zf, bzF, g1, hbzs, ?_, by simpa using f1, r1, ?_, ?_⟩
    · simp [Bytes.firstIsCased, Bytes.first, hbzs, hdp]
    · rw [r3, hdp]; simp
    · simp only [if_true]; rw [← hidx]; exact q1
  · -- no decimal point under the cursor: the fraction `skip_zeros` stays
    have hstay := skipZeros_stay c .fraction bz (hG.rel.reach _) (by rw [hbzs]; exact hst)
    obtain ⟨q1, _, _⟩ := zeros_at c s bz.index bz.index 0 (Nat.le_refl _) (by simp [slice_self, nonSep]) hst
    refine ⟨z, bz, false, 0, bz, g1, hbzs, ?_, by simpa using hstay, r1, ?_, ?_⟩
    · simp only [Bytes.firstIsCased, Bytes.first, hbzs]
      cases hv : s[bz.index]? with
      | none => rfl
      | some x => simp; intro e; subst e; exact hdp hv
    · rw [r3]
      cases hv : s[bz.index]? with
      | none => rfl
      | some x => simp; intro e; subst e; exact hdp hv
    · simp only [Bool.false_eq_true, if_false]; rw [← r2]; exact q1

/-- **the many-digits re-parse over an input with separators = its closed form over the stripped input** -/
theorem manyDigits_left (c : Cfg) (o : POpts) (hG : GenStrip c o) (s : List Nat) (neg : Bool)
    (ip : IntPart) (fp : FracPart) (ep : ExpPart) (nDigits step : Nat) (ex0 : Int) (endIdx : Nat)
    (eI : Bytes) (dsI : List Nat) (hs : ip.start.slc = s) (hv : Bytes.Valid ip.start)
    (hRI : Run c .integer c.mantissaRadix ip.start eI dsI)
    (hconI : c.iterContiguous .integer = true → NoSep c (slice s ip.start.index eI.index))
    (hNI : ∀ x, s[eI.index]? = some x → c.isSep x = false)
    (hfrac : s[eI.index]? = some o.dp → ∃ dsF eF, Run c .fraction c.mantissaRadix { eI with index := eI.index + 1 } eF dsF ∧
      (c.iterContiguous .fraction = true → NoSep c (slice s (eI.index + 1) eF.index)) ∧
      (∀ x, s[eF.index]? = some x → c.isSep x = false))
    (hokI : SliceOK c .integer ip.integerDigits)
    (hokF : ∀ fd, fp.fraction = some fd → SliceOK c .fraction fd) :
    manyDigitsPhase c o neg ip fp ep nDigits step ex0 endIdx =
      (manyClosed c.mantissaRadix (scaleVal c) o.dp (nonSep c s) (nonSep c (s.take ip.start.index)).length
        (nonSep c ip.integerDigits) ip.nDigits (fp.fraction.map (nonSep c)) fp.mantissa ep.explicit neg nDigits step
        ex0 endIdx (c.feats.format && !c.bytesContiguous)).map
        (fun r => ({ r.1 with integer := ip.integerDigits, fraction := fp.fraction }, r.2)) := by
  obtain ⟨z, bz, dpf, zf, bzF, h1, h2, h3, h4, r1, r2, r3⟩ :=
    zeros_part c o hG s ip.start eI dsI hs hv hRI hconI hNI hfrac
  unfold manyDigitsPhase manyClosed manyCore
  simp only [h1, bind, Except.bind, h3, r1, r2]
  cases dpf <;>
  simp only [if_true, Bool.false_eq_true, if_false, step_release c hG.rel.debug, pure, Except.pure] at h4 r3 ⊢ <;>
  simp only [h4, r3] <;>
  ( by_cases hnd : nDigits - step - z - zf > 0
    · simp only [hnd, if_true]
      obtain ⟨n1, bzI, buI, i1, i2, i3⟩ := rescan_zeros_u64 c o hG .integer (Or.inl rfl) ip.integerDigits hokI 0 step
      simp only [i1, i2, i3, hG.format, hG.bytes, Bool.not_false, Bool.true_and, Option.isNone_map]
      split
      · simp only [pure, Except.pure, scaleExponent_release c hG.rel.debug, Except.map]
      · cases hfr : fp.fraction with
        | none => simp [hfr] at *
        | some fd =>
          have hokf := hokF fd hfr
          simp only [Option.map_some]
          split
          · next hm0 =>
            obtain ⟨n2, bzF2, buF, j1, j2, j3⟩ := rescan_zeros_u64 c o hG .fraction (Or.inr rfl) fd hokf
              (u64Spec c.mantissaRadix (List.drop (zerosPrefix (nonSep c ip.integerDigits)) (nonSep c ip.integerDigits)) 0 step).2.1
              (u64Spec c.mantissaRadix (List.drop (zerosPrefix (nonSep c ip.integerDigits)) (nonSep c ip.integerDigits)) 0 step).2.2
            simp only [hm0] at j2 j3
            simp only [j1, j2, j3, pure, Except.pure, scaleExponent_release c hG.rel.debug, hm0, if_true, Except.map]
          · next hm0 =>
            obtain ⟨buF, j2, j3⟩ := rescan_u64 c o hG .fraction (Or.inr rfl) fd hokf
              (u64Spec c.mantissaRadix (List.drop (zerosPrefix (nonSep c ip.integerDigits)) (nonSep c ip.integerDigits)) 0 step).2.1
              (u64Spec c.mantissaRadix (List.drop (zerosPrefix (nonSep c ip.integerDigits)) (nonSep c ip.integerDigits)) 0 step).2.2
            simp only [j2, j3, pure, Except.pure, scaleExponent_release c hG.rel.debug, hm0, if_false, List.drop_zero,
              Nat.zero_add, Except.map]
    · simp only [hnd, if_false, pure, Except.pure, Except.map] )

end LexVerif.Proof.Sep
