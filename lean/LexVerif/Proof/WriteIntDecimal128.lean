import LexVerif.Proof.WriteIntDecimal
import LexVerif.Proof.Div128
/-!
# Proof.WriteIntDecimal128 — `from_u128` and the `Decimal::decimal(_signed)` dispatch
-/
namespace LexVerif.Model.WriteInt
open LexVerif.Spec

theorem bind_assoc' {α β γ : Type} (x : Res α) (f : α → Res β) (g : β → Res γ) :
    ((x >>= f) >>= g) = (x >>= fun a => f a >>= g) := by
  cases x <;> rfl

theorem fromU128_spec (n : Nat) (hn : n < 2 ^ 128) : MantSpec (fromU128 n) (numeral 10 n) 39 := by
  intro buffer hb
  have hlenN : (numeral 10 n).length ≤ 39 := dec_len_le n 39 (by omega) (by omega)
  unfold fromU128
  have eN : Lit.sliceU128 = 39 := rfl
  rw [eN]
  apply onSlice_arm buffer _ n _ hb hlenN
  intro buf hl
  have hbl : (numeral 10 n).length ≤ buf.length := by rw [hl]; exact hlenN
  have e4 : Lit.t4 = 10000 := rfl
  have e10 : Lit.t10 = 10000000000 := rfl
  have e20 : Lit.t20 = 100000000000000000000 := rfl
  have e30 : Lit.t30 = 1000000000000000000000000000000 := rfl
  have hle : ∀ m, m ≤ n → (numeral 10 m).length ≤ buf.length := fun m hm => by
    rw [hl]; exact dec_len_le m 39 (by omega) (by omega)
  by_cases h4 : n < Lit.t4
  · rw [if_pos h4]; exact small4_spec 128 buf n (by omega) (by omega) hbl
  rw [if_neg h4]
  by_cases h10 : n < Lit.t10
  · rw [if_pos h10]; exact mid10_spec buf n (by omega) (by omega) hbl
  rw [if_neg h10]
  have hd1 := div128Rem1e10_spec n hn
  have hd2 := div128Rem1e10_spec (n / 10000000000) (by omega)
  have hd3 := div128Rem1e10_spec (n / 10000000000 / 10000000000) (by omega)
  by_cases h30 : n ≥ Lit.t30
  · rw [if_pos h30, hd1, bind_ok]
    simp only []
    rw [hd2, bind_ok]
    simp only []
    rw [hd3, bind_ok]
    simp only []
    have ha : n / 10000000000 / 10000000000 / 10000000000 % 2 ^ 32 = n / 10000000000 / 10000000000 / 10000000000 := by
      omega
    rw [ha, ← bind_assoc', ← bind_assoc']
    exact alex_step buf n _
      (alex_step buf (n / 10000000000) _
        (alex_step buf (n / 10000000000 / 10000000000) _
          (armOK_of_mant (fromU32 _) _ 10 (fromU32_spec _ (by omega)) buf (by omega))
          (by omega) (hle _ (by omega)) (by omega))
        (by omega) (hle _ (by omega)) (by omega))
      (by omega) hbl (by omega)
  rw [if_neg h30]
  by_cases h20 : n ≥ Lit.t20
  · rw [if_pos h20, hd1, bind_ok]
    simp only []
    rw [hd2, bind_ok]
    simp only []
    have ha : n / 10000000000 / 10000000000 % 2 ^ 64 = n / 10000000000 / 10000000000 := by omega
    rw [ha, ← bind_assoc']
    exact alex_step buf n _
      (alex_step buf (n / 10000000000) _
        (armOK_of_mant (fromU64 _) _ 20 (fromU64_spec _ (by omega)) buf (by omega))
        (by omega) (hle _ (by omega)) (by omega))
      (by omega) hbl (by omega)
  · rw [if_neg h20, hd1, bind_ok]
    simp only []
    have ha : n / 10000000000 % 2 ^ 64 = n / 10000000000 := by omega
    rw [ha]
    exact alex_step buf n _
      (armOK_of_mant (fromU64 _) _ 20 (fromU64_spec _ (by omega)) buf (by omega))
      (by omega) hbl (by omega)

/-- maximal decimal magnitude written through `decimal(_signed)` for a type of `bits` bits -/
theorem decimal_spec (bits value : Nat) (signedCall : Bool) (hb : ValidBits bits) (hv : value < 2 ^ bits)
    (hs : signedCall = true → value ≤ 2 ^ (bits - 1)) :
    MantSpec (decimal bits value signedCall) (numeral 10 value)
      (if bits = 8 then 3 else if bits = 16 then 5 else if bits = 32 then 10
       else if bits = 64 then (if signedCall then 19 else 20) else 39) := by
  unfold decimal
  rcases hb with h | h | h | h | h <;> subst h
  · simp only [if_true]; exact fromU8_spec value (by omega)
  · simp only [if_true, show ¬ (16 = 8) by omega, if_false]; exact fromU16_spec value (by omega)
  · simp only [if_true, show ¬ (32 = 8) by omega, show ¬ (32 = 16) by omega, if_false]
    exact fromU32_spec value (by omega)
  · simp only [if_true, show ¬ (64 = 8) by omega, show ¬ (64 = 16) by omega, show ¬ (64 = 32) by omega, if_false]
    cases signedCall with
    | true => simp only [if_true]; exact fromI64_spec value (by have := hs rfl; omega)
    | false => simp only [Bool.false_eq_true, if_false]; exact fromU64_spec value hv
  · simp only [if_true, show ¬ (128 = 8) by omega, show ¬ (128 = 16) by omega, show ¬ (128 = 32) by omega,
      show ¬ (128 = 64) by omega, if_false]
    exact fromU128_spec value hv

/-- the `&mut buffer[..N]` re-slice of the decimal writer for a type -/
def needDec (bits : Nat) (sg : Bool) : Nat :=
  if bits = 8 then 3 else if bits = 16 then 5 else if bits = 32 then 10
  else if bits = 64 then (if sg then 19 else 20) else 39

/-- sign byte + decimal slice fit `FORMATTED_SIZE_DECIMAL` (+1 for `+` on an unsigned type) -/
theorem dec_room (feats : Features) (t : IntTy) (reqSign : Bool) (v : Int) (hbits : ValidBits t.bits)
    (hv : t.inRange v) :
    needDec t.bits t.signed + (signBytes feats reqSign v).length ≤ requiredSize feats t 10 reqSign := by
  obtain ⟨bits, sg⟩ := t
  simp only [IntTy.inRange, IntTy.minVal, IntTy.maxVal, IntTy.maxMag] at hv
  simp only at hbits ⊢
  have hsl : (signBytes feats reqSign v).length ≤ 1 := by
    unfold signBytes
    split
    · simp
    · split <;> simp
  unfold requiredSize bufferSizeConst
  rw [if_pos rfl]
  cases sg with
  | true =>
    have e : (if ¬ (true = true) ∧ feats.format = true ∧ reqSign = true then 1 else 0) = 0 := by simp
    simp only [e]
    rcases hbits with h | h | h | h | h <;> subst h <;> simp [needDec, formattedSizeDecimal] <;> omega
  | false =>
    have hneg : ¬ v < 0 := by have := hv.1; simp at this; omega
    by_cases hs : feats.format = true ∧ reqSign = true
    · have e : (if ¬ (false = true) ∧ feats.format = true ∧ reqSign = true then 1 else 0) = 1 := by simp [hs]
      simp only [e]
      rcases hbits with h | h | h | h | h <;> subst h <;> simp [needDec, formattedSizeDecimal] <;> omega
    · have e : (if ¬ (false = true) ∧ feats.format = true ∧ reqSign = true then 1 else 0) = 0 := by
        rw [if_neg]; intro h; exact hs h.2
      have h0 : (signBytes feats reqSign v).length = 0 := by simp [signBytes, hneg, hs]
      simp only [e, h0]
      rcases hbits with h | h | h | h | h <;> subst h <;> simp [needDec, formattedSizeDecimal]

end LexVerif.Model.WriteInt
