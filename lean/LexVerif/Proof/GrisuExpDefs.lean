import LexVerif.Model.Grisu
import LexVerif.Spec.Shortest
/-!
# Proof.GrisuExpDefs — per-(binary exponent, normalisation shift) certificate of `grisu` (executable part)

`grisu` normalises the upper boundary `(2m+1)·2^(e-1)` by `su = clz(2m+1)` and asks `cached_grisu_power` for a power of ten
`c̃·2^ce ≈ 10^k'` with `-60 ≤ (e-1-su) + ce + 64 ≤ -32`.  For a given pair `(e, su)` — finitely many: `su = 63 - p` for all
normal floats, `e = e_min` and `64 - p ≤ su ≤ 62` for subnormals — `gOk` recomputes the cached power with the MODEL's own
`cachedGrisuPower` and checks (a) the window, (b) `|c̃ − 10^k'/2^ce| ≤ 1/2`, (c) the identity that translates comparisons
in the scaled 64-bit world into the oracle's comparison fractions `scalePQ (e-2) (-k')`.
`Proof/Tables/GrisuExp*.lean` evaluate `gOk` for every pair in the kernel.
-/
namespace LexVerif.Proof.GrisuExp
open LexVerif.Model.Dragonbox LexVerif.Model.Grisu LexVerif.Spec

def prec : FTy → Nat | .f32 => 24 | .f64 => 53

/-- `10^k` and `2^e` as fractions -/
def tenF (k : Int) : Nat × Nat := if k ≥ 0 then (10 ^ k.toNat, 1) else (1, 10 ^ (-k).toNat)
def binF (e : Int) : Nat × Nat := if e ≥ 0 then (2 ^ e.toNat, 1) else (1, 2 ^ (-e).toNat)

/-- numerator / denominator of the exact `c = 10^k' / 2^ce` -/
def cNum (ki ce : Int) : Nat := (tenF ki).1 * (binF ce).2
def cDen (ki ce : Int) : Nat := (tenF ki).2 * (binF ce).1

def gOk (t : FTy) (e : Int) (su : Nat) : Bool :=
  let ue := e - 1 - (su : Int)
  match cachedGrisuPower ue with
  | none => false
  | some (cp, ki) =>
    let shI := -(ue + cp.exp + 64)
    let cn := cNum ki cp.exp
    let cd := cDen ki cp.exp
    let pq := scalePQ (e - 2) (-ki)
    decide (32 ≤ shI ∧ shI ≤ 60)
    && decide (2 ^ 63 ≤ cp.mant ∧ cp.mant < 2 ^ 64)
    && decide (-2000 ≤ ki ∧ ki ≤ 2000 ∧ -2000 ≤ cp.exp ∧ cp.exp ≤ 2000)
    && decide (0 < cd ∧ 0 < cn)
    -- |c̃ − c| ≤ 1/2
    && decide (2 * (cp.mant * cd) ≤ 2 * cn + cd ∧ 2 * cn ≤ 2 * (cp.mant * cd) + cd)
    -- translation to the oracle's fractions at scale `-ki`
    && decide (1 ≤ su ∧ pq.1 * 2 ^ (su - 1) * cn = pq.2 * 2 ^ shI.toNat * 2 ^ 64 * cd)

/-- the `(e, su)` pairs of a format: normal floats, then subnormals -/
def normalPairs (t : FTy) (lo : Int) (cnt : Nat) : List (Int × Nat) :=
  (List.range cnt).map (fun (i : Nat) => (lo + (i : Int), 63 - prec t))

def subnormalPairs (t : FTy) : List (Int × Nat) :=
  (List.range (prec t - 1)).map (fun (i : Nat) => (t.denormalExponent, 64 - prec t + i))

theorem mem_normalPairs {t : FTy} {lo : Int} {cnt : Nat} {e : Int} (h1 : lo ≤ e) (h2 : e < lo + cnt) :
    (e, 63 - prec t) ∈ normalPairs t lo cnt := by
  unfold normalPairs
  apply List.mem_map.mpr
  refine ⟨(e - lo).toNat, List.mem_range.mpr (by omega), ?_⟩
  show (lo + ((e - lo).toNat : Int), 63 - prec t) = (e, 63 - prec t)
  congr 1
  omega

theorem mem_subnormalPairs {t : FTy} {su : Nat} (h1 : 64 - prec t ≤ su) (h2 : su ≤ 62) :
    (t.denormalExponent, su) ∈ subnormalPairs t := by
  unfold subnormalPairs
  apply List.mem_map.mpr
  refine ⟨su - (64 - prec t), List.mem_range.mpr (by cases t <;> simp [prec] at * <;> omega), ?_⟩
  show (t.denormalExponent, 64 - prec t + (su - (64 - prec t))) = (t.denormalExponent, su)
  congr 1
  omega

end LexVerif.Proof.GrisuExp
