import LexVerif.Proof.BellSound
import LexVerif.Proof.RoundNEStep
/-!
# Proof.BellLossy — lossy Bellerophon is within one unit in the last place

With `lossy`, `bellerophon` skips the accuracy decision and rounds the computed significand. By
`prepare_cases` the true value is within a few units of the last place of the 64-bit significand, i.e. within a
relative `2^−53`; by `roundNE_step` the rounded results are then equal or adjacent patterns.
-/
namespace LexVerif.Proof.Bell
open LexVerif.Spec LexVerif.Model LexVerif.Model.Bellerophon
open LexVerif.Gen.Bellerophon (Powers)
open LexVerif.Proof.RoundNE LexVerif.Proof.ExtRound LexVerif.Proof.BinaryCorrect

/-- the increment of the real tie-even callback is the half-to-even increment -/
theorem tieEven_up (mant shift : Nat) (hs0 : 0 < shift) :
    mant / 2 ^ shift + upOf mant shift tieEven = rhe mant (2 ^ shift) := by
  rw [rhe_pow2 mant shift hs0]
  congr 1
  unfold upOf tieEven
  generalize mant % 2 ^ shift = t
  generalize mant / 2 ^ shift = a
  generalize 2 ^ (shift - 1) = h
  by_cases c1 : t > h <;> by_cases c2 : t = h <;> by_cases c3 : a % 2 = 1 <;> simp [c1, c2, c3] <;> omega

/-- lossy `bellFinish` rounds the computed significand: the result is `roundNE (mant·2^(pw − EXPONENT_BIAS))` -/
theorem bellFinish_lossy {F p eb} (lay : Layout F p eb) (mant errors : Nat) (pw : Int)
    (hm1 : 2 ^ 63 ≤ mant) (hm2 : mant < 2 ^ 64) :
    ∃ fp, bellFinish F ⟨mant, pw⟩ errors true = .ok fp ∧ 0 ≤ fp.exp ∧
      extendedToFloat F fp =
        roundNE F.fmt (powFrac (2 ^ 1) (pw - F.C.exponentBias) mant).1
          (powFrac (2 ^ 1) (pw - F.C.exponentBias) mant).2 := by
  have hpw : pw = ((1 : Nat) : Int) * (pw - F.C.exponentBias) + F.C.exponentBias - ((0 : Nat) : Int) := by
    simp
  have hm1' : 2 ^ 63 ≤ mant * 2 ^ 0 := by simpa using hm1
  have hm2' : mant * 2 ^ 0 < 2 ^ 64 := by simpa using hm2
  unfold bellFinish litZeroShift
  simp only []
  by_cases h1 : -pw + 1 > 65
  · rw [if_pos h1]
    refine ⟨_, rfl, Int.le_refl _, ?_⟩
    rw [ext_zero lay, roundNE_norm_zero lay 1 mant 0 (pw - F.C.exponentBias) hm2' (by omega) pw hpw (by omega)]
  · rw [if_neg h1]
    have hc : ¬ ((!true && !errorIsAccurate F errors ⟨mant, pw⟩) = true) := by simp
    rw [if_neg hc]
    by_cases h2 : -pw + 1 = 65
    · rw [if_pos h2]
      refine ⟨_, rfl, Int.le_refl _, ?_⟩
      rw [ext_zero lay, roundNE_norm_zero lay 1 mant 0 (pw - F.C.exponentBias) hm2' (by omega) pw hpw (by omega)]
    · rw [if_neg h2]
      have hp2 : -pw + 1 ≤ 64 := by omega
      obtain ⟨hexp, hbits⟩ := round_bits lay mant pw tieEven hm1 hm2 hp2
      refine ⟨_, rfl, hexp, ?_⟩
      obtain ⟨_, _, hs0, _, _⟩ := quot_bounds lay.hp (by have := lay.hp64; have := lay.heb; omega)
        hm1 hm2 pw hp2
      have := roundNE_norm lay 1 mant 0 (pw - F.C.exponentBias) hm1' hm2' (by omega) pw hpw hp2
      rw [Nat.pow_zero, Nat.mul_one] at this
      show extendedToFloat F (round F ⟨mant, pw⟩ (fun f s => roundNearestTieEven f s tieEven)) = _
      rw [hbits, tieEven_up mant _ hs0, this]

/-- `mant·2^(pw − EXPONENT_BIAS)` against the units `U = den·2^β`, `Y = num·2^L·2^α` of `prepare_cases` -/
theorem approx_units {F p eb} (lay : Layout F p eb) (mant : Nat) (pw : Int) :
    (powFrac (2 ^ 1) (pw - F.C.exponentBias) mant).1 * 2 ^ L F.fmt * 2 ^ (1 - pw).toNat =
      mant * (powFrac (2 ^ 1) (pw - F.C.exponentBias) mant).2 * 2 ^ (pw - 1).toNat ∧
    0 < (powFrac (2 ^ 1) (pw - F.C.exponentBias) mant).2 := by
  have hLb : ((L F.fmt : Nat) : Int) + 1 = F.C.exponentBias := by
    rw [L_eq lay, lay.bias]; have := lay.hL; omega
  unfold powFrac
  by_cases he : pw - F.C.exponentBias ≥ 0
  · rw [if_pos he]
    simp only [Nat.pow_one, Nat.mul_one]
    refine ⟨?_, Nat.one_pos⟩
    rw [Nat.mul_assoc, Nat.mul_assoc, ← Nat.pow_add, ← Nat.pow_add]
    congr 2; omega
  · rw [if_neg he]
    simp only [Nat.pow_one]
    refine ⟨?_, Nat.two_pow_pos _⟩
    rw [Nat.mul_assoc, Nat.mul_assoc, ← Nat.pow_add, ← Nat.pow_add]
    congr 2; omega

/-- **lossy Bellerophon**: the answer is always valid and is `roundNE` of the true value or an adjacent
pattern (`p ≤ 53`; a truncated mantissa holds at least 55 bits, as every `u64_step`-digit mantissa does). -/
theorem bellerophon_lossy_neighbour {F : FTy} {p eb : Nat} (lay : Layout F p eb) (hp53 : p ≤ 53)
    {r : Nat} {P : Powers} (hc : BellFacts r P) (n : Num)
    (hw : n.mantissa < 2 ^ 64) (hmw : n.manyDigits = true → 2 ^ 55 ≤ n.mantissa)
    (num den : Nat) (hd : 0 < den) (htv : TrueValue r n num den) :
    ∃ fp, bellerophon F P n true = .ok fp ∧ 0 ≤ fp.exp ∧
      extendedToFloat F fp ≤ roundNE F.fmt num den + 1 ∧ roundNE F.fmt num den ≤ extendedToFloat F fp + 1 := by
  have hf := lay.wf
  have hfp : F.fmt.p = p := by rw [lay.fmt]
  have hmw44 : n.manyDigits = true → 2 ^ 44 ≤ n.mantissa := by
    intro h; have := hmw h
    have : (2 : Nat) ^ 44 ≤ 2 ^ 55 := by norm_num
    omega
  unfold bellerophon
  rcases prepare_cases lay hc n hw hmw44 num den hd htv with ⟨hp, hz⟩ | ⟨hp, hi⟩ |
    ⟨mant, E, sh, pw, hp, hm1, hm2, hElo, hEhi, hpw1, hpw2, hlo, hhi, htight⟩
  · rw [hp]; exact ⟨_, rfl, Int.le_refl _, by rw [ext_zero lay, hz]; omega, by rw [hz]; omega⟩
  · rw [hp]
    refine ⟨_, rfl, ?_, by rw [ext_inf lay, hi]; omega, by rw [ext_inf lay, hi]; omega⟩
    show 0 ≤ F.C.infinitePower
    rw [lay.infp]; omega
  · rw [hp]
    simp only []
    obtain ⟨fp, hfin, hexp, hval⟩ := bellFinish_lossy lay mant (E * 2 ^ sh) pw hm1 hm2
    refine ⟨fp, hfin, hexp, ?_⟩
    rw [hval]
    obtain ⟨hid, hd1⟩ := approx_units lay mant pw
    generalize (powFrac (2 ^ 1) (pw - F.C.exponentBias) mant).1 = n1 at *
    generalize (powFrac (2 ^ 1) (pw - F.C.exponentBias) mant).2 = d1 at *
    -- the tight excess is at most 2^10 units
    have hT : (8 + if n.manyDigits = true then 2 * 2 ^ clz64 n.mantissa + 1 else 0) ≤ 2 ^ 10 := by
      by_cases hm : n.manyDigits = true
      · rw [if_pos hm]
        have h55 := hmw hm
        have hw0 : n.mantissa ≠ 0 := by have := Nat.two_pow_pos 55; omega
        have hlz : clz64 n.mantissa ≤ 8 := clz_le_of_ge (j := 8) (by simpa using h55) hw (by norm_num)
        have : 2 ^ clz64 n.mantissa ≤ 2 ^ 8 := Nat.pow_le_pow_right (by norm_num) hlz
        have h8 : (2 : Nat) ^ 8 = 256 := by norm_num
        have h10 : (2 : Nat) ^ 10 = 1024 := by norm_num
        omega
      · rw [if_neg hm]; norm_num
    generalize (8 + if n.manyDigits = true then 2 * 2 ^ clz64 n.mantissa + 1 else 0) = Tt at *
    generalize hU : den * 2 ^ (pw - 1).toNat = U at *
    generalize hY : num * 2 ^ L F.fmt * 2 ^ (1 - pw).toNat = Y at *
    have hUpos : 0 < U := by rw [← hU]; exact Nat.mul_pos hd (Nat.two_pow_pos _)
    have hM53 : 2 ^ F.fmt.p ≤ 2 ^ 53 := by rw [hfp]; exact Nat.pow_le_pow_right (by norm_num) hp53
    have hcp := Nat.two_pow_pos (L F.fmt)
    have hap := Nat.two_pow_pos (1 - pw).toNat
    constructor
    · -- x̃ ≤ x·(M+1)/M
      apply roundNE_step hf hd hd1 hM53
      -- n1·den·M ≤ num·d1·(M+1), after multiplying by 2^L·2^α
      apply Nat.le_of_mul_le_mul_right _ (Nat.mul_pos hcp hap)
      have e1 : n1 * den * 2 ^ 53 * (2 ^ L F.fmt * 2 ^ (1 - pw).toNat) =
          (n1 * 2 ^ L F.fmt * 2 ^ (1 - pw).toNat) * den * 2 ^ 53 := by ring
      have e2 : num * d1 * (2 ^ 53 + 1) * (2 ^ L F.fmt * 2 ^ (1 - pw).toNat) = Y * d1 * (2 ^ 53 + 1) := by
        rw [← hY]; ring
      rw [e1, e2, hid]
      have e3 : mant * d1 * 2 ^ (pw - 1).toNat * den * 2 ^ 53 = (mant * U * 2 ^ 53) * d1 := by rw [← hU]; ring
      have e4 : Y * d1 * (2 ^ 53 + 1) = (Y * (2 ^ 53 + 1)) * d1 := by ring
      rw [e3, e4]
      apply Nat.mul_le_mul_right
      -- mant·U·M ≤ Y·(M+1) from mant·U < Y + 4U and mant ≥ 2^63
      have h1 : 2 ^ 63 * U ≤ mant * U := Nat.mul_le_mul_right U hm1
      have h53 : (2 : Nat) ^ 53 = 9007199254740992 := by norm_num
      have h63 : (2 : Nat) ^ 63 = 9223372036854775808 := by norm_num
      rw [h53]; rw [h63] at h1
      generalize mant * U = MU at *
      nlinarith
    · -- x ≤ x̃·(M+1)/M
      apply roundNE_step hf hd1 hd hM53
      apply Nat.le_of_mul_le_mul_right _ (Nat.mul_pos hcp hap)
      have e1 : num * d1 * 2 ^ 53 * (2 ^ L F.fmt * 2 ^ (1 - pw).toNat) = Y * d1 * 2 ^ 53 := by
        rw [← hY]; ring
      have e2 : n1 * den * (2 ^ 53 + 1) * (2 ^ L F.fmt * 2 ^ (1 - pw).toNat) =
          (n1 * 2 ^ L F.fmt * 2 ^ (1 - pw).toNat) * den * (2 ^ 53 + 1) := by ring
      rw [e1, e2, hid]
      have e3 : mant * d1 * 2 ^ (pw - 1).toNat * den * (2 ^ 53 + 1) = (mant * U * (2 ^ 53 + 1)) * d1 := by
        rw [← hU]; ring
      have e4 : Y * d1 * 2 ^ 53 = (Y * 2 ^ 53) * d1 := by ring
      rw [e3, e4]
      apply Nat.mul_le_mul_right
      -- Y·M ≤ mant·U·(M+1) from Y < (mant + Tt)·U, Tt ≤ 2^10, mant ≥ 2^63
      have h1 : 2 ^ 63 * U ≤ mant * U := Nat.mul_le_mul_right U hm1
      have h2 : Tt * U ≤ 2 ^ 10 * U := Nat.mul_le_mul_right U hT
      have h53 : (2 : Nat) ^ 53 = 9007199254740992 := by norm_num
      have h63 : (2 : Nat) ^ 63 = 9223372036854775808 := by norm_num
      have h10 : (2 : Nat) ^ 10 = 1024 := by norm_num
      rw [h53]; rw [h63] at h1; rw [h10] at h2
      rw [Nat.add_mul] at htight
      generalize mant * U = MU at *
      generalize Tt * U = TU at *
      nlinarith

end LexVerif.Proof.Bell
