import LexVerif.Proof.SepStrip5
import LexVerif.Proof.SepPlain
/-!
# Proof.SepGen1 — traces of the digit loops over ANY skip iterator (all 15 `peek` variants)

Predicate-agnostic facts about `parse_digits`, `skip_zeros` and the single-digit part of `parse_u64_digits`:
what they consume, what they count, where they stop — and that `skip_zeros` / `parse_u64_digits` walk along the
trajectory of `parse_digits` started in the same state (they call the same `peek` in the same states).
-/
set_option linter.unusedSimpArgs false
namespace LexVerif.Proof.Sep
open LexVerif LexVerif.Model LexVerif.Spec
open LexVerif.Props.C12

/-- `peek` changes nothing but the cursor -/
theorem peek_eq (c : Cfg) (k : Comp) (b b1 : Bytes) (v : Option Nat) (hv : Bytes.Valid b)
    (hp : peek c k b = .ok (v, b1)) : b1 = { b with index := b.index + (b1.index - b.index) } := by
  have h := peek_spec c k b b1 v hv hp
  obtain ⟨s1, i1, a1, f1, e1⟩ := b1
  obtain ⟨s, i, a, f, e⟩ := b
  simp only at h
  obtain ⟨h1, h2, h3, h4, h5, _⟩ := h
  subst h1 h2 h3 h4
  simp only [Bytes.mk.injEq, true_and, and_true]
  omega

theorem advS_advS (c : Cfg) (k : Comp) (d1 c1 d2 c2 : Nat) (b : Bytes) :
    advS c k d2 c2 (advS c k d1 c1 b) = advS c k (d1 + d2) (c1 + c2) b := by
  cases k <;> cases hf : c.feats.format <;> simp [advS, hf, Nat.add_assoc]

theorem advS_zero_zero (c : Cfg) (k : Comp) (b : Bytes) : advS c k 0 0 b = b := by
  cases k <;> simp [advS]

/-- digit value of a digit byte, as `parse_u64_digits` computes it -/
theorem validDigit_of_digit (x r d : Nat) (h : charToDigit x r = some d) : charToValidDigit x r = d := by
  unfold charToDigit at h
  simp only at h
  split at h
  · simpa using h
  · cases h

/-- **trace of `parse_digits`** over any iterator (release build; the separator is not a digit): the end state is the
start state with the cursor moved and the component's count increased by the number of digits; the bytes moved over
are, up to separators, exactly the digit bytes; the byte under the final cursor (if any) is not a digit. -/
theorem parseDigitsLoop_trace (c : Cfg) (k : Comp) (radix : Nat) (hd : c.debug = false)
    (hsep : ∀ x, c.isSep x = true → charToDigit x radix = none) :
    ∀ (fuel : Nat) (b e : Bytes) (ds : List Nat), Bytes.Valid b →
      parseDigitsLoop c k radix fuel b = .ok (ds, e) →
      e = advS c k (e.index - b.index) ds.length b ∧ b.index ≤ e.index ∧ e.index ≤ b.slc.length ∧
      (nonSep c (slice b.slc b.index e.index)).map (fun x => charToDigit x radix) = ds.map some ∧
      (∀ x, b.slc[e.index]? = some x → charToDigit x radix = none) := by
  intro fuel
  induction fuel with
  | zero => intro b e ds _ h; simp [parseDigitsLoop] at h
  | succ n ih =>
    intro b e ds hv h
    have hy := parseDigitsLoop_yields c k radix hd hsep (n + 1) b e ds hv h
    unfold parseDigitsLoop at h
    cases hp : peek c k b with
    | error er => simp [hp, bind, Except.bind] at h
    | ok r =>
      obtain ⟨v, b1⟩ := r
      have hs := peek_spec c k b b1 v hv hp
      have hb1 := peek_eq c k b b1 v hv hp
      have hle := hs.2.2.2.2.1
      have hv1 : b1.index ≤ b.slc.length := by have := hs.2.2.2.2.2.1; unfold Bytes.Valid at this; rw [hs.1] at this; exact this
      simp only [hp, bind, Except.bind] at h
      have hstop : ∀ (hh : e = b1) (hnd : ∀ ch, v = some ch → charToDigit ch radix = none),
          e = advS c k (e.index - b.index) 0 b ∧ b.index ≤ e.index ∧ e.index ≤ b.slc.length ∧
          (∀ x, b.slc[e.index]? = some x → charToDigit x radix = none) := by
        intro hh hnd
        subst hh
        refine ⟨?_, hle, hv1, ?_⟩
        · rw [advS_zero]; exact hb1
        · intro x hx
          apply hnd x
          rw [hs.2.2.2.2.2.2, hs.1]; exact hx.symm ▸ rfl
      cases v with
      | none =>
        simp only [pure, Except.pure, Except.ok.injEq, Prod.mk.injEq] at h
        obtain ⟨rfl, rfl⟩ := h
        obtain ⟨h1, h2, h3, h4⟩ := hstop rfl (by intro ch hc; cases hc)
        exact ⟨h1, h2, h3, hy, h4⟩
      | some ch =>
        have hlt := peek_some_in_range c k b b1 ch hv hp
        simp only at h
        cases hdg : charToDigit ch radix with
        | none =>
          simp only [hdg, pure, Except.pure, Except.ok.injEq, Prod.mk.injEq] at h
          obtain ⟨rfl, rfl⟩ := h
          obtain ⟨h1, h2, h3, h4⟩ := hstop rfl (by intro ch2 hc; cases hc; exact hdg)
          exact ⟨h1, h2, h3, hy, h4⟩
        | some d =>
          simp only [hdg, iterStep, stepUnchecked_release c _ b1 hd] at h
          cases hrec : parseDigitsLoop c k radix n (Bytes.incCount c k { b1 with index := b1.index + 1 }) with
          | error er => simp [hrec] at h
          | ok r2 =>
            obtain ⟨ds2, b2⟩ := r2
            simp only [hrec, pure, Except.pure, Except.ok.injEq, Prod.mk.injEq] at h
            obtain ⟨rfl, rfl⟩ := h
            have hi := incCount_spec c k { b1 with index := b1.index + 1 }
            have hv2 : Bytes.Valid (Bytes.incCount c k { b1 with index := b1.index + 1 }) := by
              unfold Bytes.Valid; rw [hi.1, hi.2]; simp only; omega
            obtain ⟨g1, g2, g3, _, g5⟩ := ih _ _ _ hv2 hrec
            rw [hi.2] at g1 g2
            rw [hi.1] at g3 g5
            simp only at g1 g2 g3 g5
            rw [hs.1] at g3 g5 hlt
            refine ⟨?_, by omega, g3, hy, g5⟩
            have e1 : ({ b1 with index := b1.index + 1 } : Bytes)
                = { b with index := b.index + (b1.index - b.index) + 1 } := by
              rw [hb1]; simp
            rw [e1, advS_succ] at g1
            rw [List.length_cons]
            refine g1.trans ?_
            congr 1
            omega

theorem parseDigits_trace (c : Cfg) (k : Comp) (radix : Nat) (hd : c.debug = false)
    (hsep : ∀ x, c.isSep x = true → charToDigit x radix = none) (b e : Bytes) (ds : List Nat) (hv : Bytes.Valid b)
    (h : parseDigits c k radix b = .ok (ds, e)) :
    e = advS c k (e.index - b.index) ds.length b ∧ b.index ≤ e.index ∧ e.index ≤ b.slc.length ∧
    (nonSep c (slice b.slc b.index e.index)).map (fun x => charToDigit x radix) = ds.map some ∧
    (∀ x, b.slc[e.index]? = some x → charToDigit x radix = none) :=
  parseDigitsLoop_trace c k radix hd hsep _ b e ds hv h


/-- more fuel does not change a successful run of `parse_digits` -/
theorem parseDigitsLoop_fuel_succ (c : Cfg) (k : Comp) (radix : Nat) (hd : c.debug = false) :
    ∀ (n : Nat) (b : Bytes) (ds : List Nat) (e : Bytes), parseDigitsLoop c k radix n b = .ok (ds, e) →
      parseDigitsLoop c k radix (n + 1) b = .ok (ds, e) := by
  intro n
  induction n with
  | zero => intro b ds e h; simp [parseDigitsLoop] at h
  | succ m ih =>
    intro b ds e h
    rw [parseDigitsLoop.eq_2] at h ⊢
    cases hp : peek c k b with
    | error er => simp [hp, bind, Except.bind] at h
    | ok r =>
      obtain ⟨v, b1⟩ := r
      simp only [hp, bind, Except.bind] at h ⊢
      cases v with
      | none => exact h
      | some ch =>
        simp only at h ⊢
        cases hdg : charToDigit ch radix with
        | none => simp only [hdg] at h ⊢; exact h
        | some d =>
          simp only [hdg, iterStep, stepUnchecked_release c _ b1 hd] at h ⊢
          cases hrec : parseDigitsLoop c k radix m (Bytes.incCount c k { b1 with index := b1.index + 1 }) with
          | error er => simp [hrec] at h
          | ok r2 =>
            obtain ⟨ds2, b2⟩ := r2
            rw [ih _ _ _ hrec]
            simp only [hrec] at h
            exact h

/-- at a byte that is not a separator, or at the end, `peek` returns what is under the cursor and does not move -/
theorem peek_at_nonsep (c : Cfg) (k : Comp) (b : Bytes) (hk : c.skip k ≠ .unreachable)
    (h : ∀ x, b.slc[b.index]? = some x → c.isSep x = false) : peek c k b = .ok (b.slc[b.index]?, b) := by
  unfold peek
  split
  · rfl
  · next p _ =>
    simp only [peekPred]
    cases hv : b.slc[b.index]? with
    | none => rfl
    | some v => simp [h v hv]
  · next hh => exact absurd hh hk

/-- **`skip_zeros` walks along `parse_digits`**: started in the same state it consumes the leading `'0'` digits of the
run; if a non-zero digit follows it stops on it (and `parse_digits` from there yields the rest), otherwise it ends in
the very state `parse_digits` ends in. -/
theorem skipZerosLoop_along (c : Cfg) (k : Comp) (radix : Nat) (hd : c.debug = false) (hk : c.skip k ≠ .unreachable)
    (hsep : ∀ x, c.isSep x = true → charToDigit x radix = none) (h48 : charToDigit 48 radix = some 0) :
    ∀ (fuel : Nat) (b e : Bytes) (ds : List Nat), Bytes.Valid b →
      parseDigitsLoop c k radix fuel b = .ok (ds, e) →
      ∃ bz z, skipZerosLoop c k fuel b = .ok bz ∧ z ≤ ds.length ∧ bz = advS c k (bz.index - b.index) z b ∧
        b.index ≤ bz.index ∧ bz.index ≤ e.index ∧
        nonSep c (slice b.slc b.index bz.index) = List.replicate z 48 ∧
        (z < ds.length → (∃ v, b.slc[bz.index]? = some v ∧ v ≠ 48 ∧ (charToDigit v radix).isSome) ∧
          parseDigitsLoop c k radix fuel bz = .ok (ds.drop z, e)) ∧
        (z = ds.length → bz = e) := by
  intro fuel
  induction fuel with
  | zero => intro b e ds _ h; simp [parseDigitsLoop] at h
  | succ n ih =>
    intro b e ds hv h
    have h0 := h
    unfold parseDigitsLoop at h
    unfold skipZerosLoop readIfValueCased
    cases hp : peek c k b with
    | error er => simp [hp, bind, Except.bind] at h
    | ok r =>
      obtain ⟨v, b1⟩ := r
      have hs := peek_spec c k b b1 v hv hp
      have hb1 := peek_eq c k b b1 v hv hp
      have hk1 := peek_skips c k b b1 v hp
      have hle := hs.2.2.2.2.1
      simp only [hp, bind, Except.bind] at h ⊢
      -- the walk stops here: `peek` did not return `'0'`
      have hstop : (v == some 48) = false → (∀ ds2 e2, (ds, e) = (ds2, e2) → True) →
          (ds = [] → e = b1) → (ds ≠ [] → ∃ ch, v = some ch ∧ (charToDigit ch radix).isSome) →
          ∃ bz z, (Except.ok b1 : Except Err Bytes) = .ok bz ∧ z ≤ ds.length ∧ bz = advS c k (bz.index - b.index) z b ∧
            b.index ≤ bz.index ∧ bz.index ≤ e.index ∧
            nonSep c (slice b.slc b.index bz.index) = List.replicate z 48 ∧
            (z < ds.length → (∃ v, b.slc[bz.index]? = some v ∧ v ≠ 48 ∧ (charToDigit v radix).isSome) ∧
              parseDigitsLoop c k radix (n + 1) bz = .ok (ds.drop z, e)) ∧
            (z = ds.length → bz = e) := by
        intro hne _ hnil hcons
        have htr := parseDigitsLoop_trace c k radix hd hsep (n + 1) b e ds hv h0
        refine ⟨b1, 0, rfl, Nat.zero_le _, ?_, hle, ?_, ?_, ?_, ?_⟩
        · rw [advS_zero]; exact hb1
        · -- b1.index ≤ e.index
          by_cases hds : ds = []
          · rw [hnil hds]; exact Nat.le_refl _
          · obtain ⟨ch, rfl, _⟩ := hcons hds
            -- the run continues from b1, so its end is not before b1
            have hlt := peek_some_in_range c k b b1 ch hv hp
            simp only at h
            cases hdg : charToDigit ch radix with
            | none => simp only [hdg, pure, Except.pure, Except.ok.injEq, Prod.mk.injEq] at h; exact absurd h.1.symm hds
            | some d =>
              simp only [hdg, iterStep, stepUnchecked_release c _ b1 hd] at h
              cases hrec : parseDigitsLoop c k radix n (Bytes.incCount c k { b1 with index := b1.index + 1 }) with
              | error er => simp [hrec] at h
              | ok r2 =>
                obtain ⟨ds2, b2⟩ := r2
                simp only [hrec, pure, Except.pure, Except.ok.injEq, Prod.mk.injEq] at h
                obtain ⟨_, rfl⟩ := h
                have hi := incCount_spec c k { b1 with index := b1.index + 1 }
                have hv2 : Bytes.Valid (Bytes.incCount c k { b1 with index := b1.index + 1 }) := by
                  unfold Bytes.Valid; rw [hi.1, hi.2]; simp only; omega
                have := (parseDigitsLoop_spec c k radix hd n _ _ _ hv2 hrec).2.2
                rw [hi.2] at this; simp only at this; omega
        · simp [nonSep_of_all_sep c _ hk1]
        · intro hz
          have hds : ds ≠ [] := by intro h0'; rw [h0'] at hz; simp at hz
          obtain ⟨ch, rfl, hdig⟩ := hcons hds
          have hget : b.slc[b1.index]? = some ch := by rw [← hs.1]; exact hs.2.2.2.2.2.2.symm
          have hch48 : ch ≠ 48 := by intro e48; subst e48; simp at hne
          refine ⟨⟨ch, hget, hch48, hdig⟩, ?_⟩
          -- `parse_digits` from the post-peek state: `peek` is idempotent at a digit
          have hns : c.isSep ch = false := by
            cases hcs : c.isSep ch with
            | false => rfl
            | true => have := hsep ch hcs; rw [this] at hdig; cases hdig
          have hpk : peek c k b1 = .ok (some ch, b1) := by
            rw [peek_at_nonsep c k b1 hk (by intro x hx; rw [hs.1, hget] at hx; cases hx; exact hns), hs.1, hget]
          simp only [List.drop_zero]
          have h1 := h0
          unfold parseDigitsLoop at h1 ⊢
          simp only [hp, hpk, bind, Except.bind] at h1 ⊢
          exact h1
        · intro hz
          exact (hnil (List.eq_nil_of_length_eq_zero hz.symm)).symm
      cases v with
      | none =>
        simp only [pure, Except.pure, Except.ok.injEq, Prod.mk.injEq] at h
        obtain ⟨rfl, rfl⟩ := h
        have : (none == some 48) = false := rfl
        simp only [this, Bool.false_eq_true, if_false, pure, Except.pure]
        exact hstop rfl (fun _ _ _ => trivial) (fun _ => rfl) (fun h => absurd rfl h)
      | some ch =>
        have hlt := peek_some_in_range c k b b1 ch hv hp
        simp only at h
        by_cases hc48 : ch = 48
        · subst hc48
          simp only [h48, iterStep, stepUnchecked_release c _ b1 hd] at h
          simp only [beq_self_eq_true, if_true, iterStep, stepUnchecked_release c _ b1 hd]
          cases hrec : parseDigitsLoop c k radix n (Bytes.incCount c k { b1 with index := b1.index + 1 }) with
          | error er => simp [hrec] at h
          | ok r2 =>
            obtain ⟨ds2, b2⟩ := r2
            simp only [hrec, pure, Except.pure, Except.ok.injEq, Prod.mk.injEq] at h
            obtain ⟨rfl, rfl⟩ := h
            have hi := incCount_spec c k { b1 with index := b1.index + 1 }
            have hv2 : Bytes.Valid (Bytes.incCount c k { b1 with index := b1.index + 1 }) := by
              unfold Bytes.Valid; rw [hi.1, hi.2]; simp only; omega
            obtain ⟨bz, z, g1, g2, g3, g4, g5, g6, g7, g8⟩ := ih _ _ _ hv2 hrec
            rw [hi.2] at g3 g4
            rw [hi.1, hi.2] at g6
            rw [hi.1] at g7
            simp only at g3 g4 g6 g7
            have hget : b.slc[b1.index]? = some 48 := by rw [← hs.1]; exact hs.2.2.2.2.2.2.symm
            have hns : c.isSep 48 = false := by
              cases hcs : c.isSep 48 with
              | false => rfl
              | true => have := hsep 48 hcs; rw [h48] at this; cases this
            refine ⟨bz, z + 1, g1, by simp only [List.length_cons]; omega, ?_, by omega, g5, ?_, ?_, ?_⟩
            · have e1 : ({ b1 with index := b1.index + 1 } : Bytes)
                  = { b with index := b.index + (b1.index - b.index) + 1 } := by rw [hb1]; simp
              rw [e1, advS_succ] at g3
              refine g3.trans ?_
              congr 1
              omega
            · rw [slice_append b.slc b.index b1.index bz.index hle (by omega),
                slice_append b.slc b1.index (b1.index + 1) bz.index (by omega) (by omega),
                slice_one _ _ _ hget, nonSep_append, nonSep_append, nonSep_of_all_sep c _ hk1]
              rw [hs.1] at g6
              rw [g6]
              simp [nonSep, hns, List.replicate_succ]
            · intro hz
              simp only [List.length_cons] at hz
              obtain ⟨gv, gp⟩ := g7 (by omega)
              rw [hs.1] at gv
              refine ⟨gv, ?_⟩
              simp only [List.drop_succ_cons]
              -- one more unit of fuel does not change a successful run
              exact parseDigitsLoop_fuel_succ c k radix hd n bz _ _ gp
            · intro hz
              simp only [List.length_cons] at hz
              exact g8 (by omega)
        · have hne : (some ch == some 48) = false := by simp [hc48]
          simp only [hne, Bool.false_eq_true, if_false, pure, Except.pure]
          refine hstop hne (fun _ _ _ => trivial) ?_ ?_
          · intro hds
            subst hds
            cases hdg : charToDigit ch radix with
            | none => simp only [hdg, pure, Except.pure, Except.ok.injEq, Prod.mk.injEq] at h; exact h.2.symm
            | some d =>
              simp only [hdg, iterStep, stepUnchecked_release c _ b1 hd] at h
              cases hrec : parseDigitsLoop c k radix n (Bytes.incCount c k { b1 with index := b1.index + 1 }) with
              | error er => simp [hrec] at h
              | ok r2 => simp [hrec, pure, Except.pure] at h
          · intro hds
            refine ⟨ch, rfl, ?_⟩
            cases hdg : charToDigit ch radix with
            | none => simp only [hdg, pure, Except.pure, Except.ok.injEq, Prod.mk.injEq] at h; exact absurd h.1.symm hds
            | some d => rfl

/-- **the single-digit part of `parse_u64_digits` walks along `parse_digits`** when the latter runs to the end of the
buffer (re-scan of a stored slice): it consumes the first `step` digits of the run, folding them into the mantissa. -/
theorem u64Loop1_along (c : Cfg) (k : Comp) (hd : c.debug = false)
    (hsep : ∀ x, c.isSep x = true → charToDigit x c.mantissaRadix = none) :
    ∀ (fuel : Nat) (b e : Bytes) (ds : List Nat) (m st : Nat), Bytes.Valid b →
      parseDigitsLoop c k c.mantissaRadix fuel b = .ok (ds, e) → b.slc[e.index]? = none →
      ∃ bu, u64Loop1 c k fuel b m st =
          .ok (bu, foldMantissa c.mantissaRadix m (ds.take st), st - (ds.take st).length) ∧
        bu = advS c k (bu.index - b.index) (ds.take st).length b ∧ b.index ≤ bu.index ∧ bu.index ≤ b.slc.length := by
  intro fuel
  induction fuel with
  | zero => intro b e ds m st _ h; simp [parseDigitsLoop] at h
  | succ n ih =>
    intro b e ds m st hv h hend
    unfold parseDigitsLoop at h
    unfold u64Loop1
    cases hp : peek c k b with
    | error er => simp [hp, bind, Except.bind] at h
    | ok r =>
      obtain ⟨v, b1⟩ := r
      have hs := peek_spec c k b b1 v hv hp
      have hb1 := peek_eq c k b b1 v hv hp
      have hle := hs.2.2.2.2.1
      have hv1 : b1.index ≤ b.slc.length := by
        have := hs.2.2.2.2.2.1; unfold Bytes.Valid at this; rw [hs.1] at this; exact this
      simp only [hp, bind, Except.bind] at h ⊢
      have hstay : ∀ (l : List Nat), l = [] →
          (Except.ok (b1, m, st) : Except Err (Bytes × Nat × Nat)) =
            .ok (b1, foldMantissa c.mantissaRadix m l, st - l.length) ∧
          b1 = advS c k (b1.index - b.index) l.length b ∧ b.index ≤ b1.index ∧ b1.index ≤ b.slc.length := by
        intro l hl; subst hl
        refine ⟨by simp [foldMantissa], ?_, hle, hv1⟩
        rw [List.length_nil, advS_zero]; exact hb1
      cases v with
      | none =>
        simp only [pure, Except.pure, Except.ok.injEq, Prod.mk.injEq] at h
        obtain ⟨rfl, rfl⟩ := h
        simp only [pure, Except.pure]
        exact ⟨b1, by simpa using hstay [] rfl⟩
      | some ch =>
        have hlt := peek_some_in_range c k b b1 ch hv hp
        have hget : b.slc[b1.index]? = some ch := by rw [← hs.1]; exact hs.2.2.2.2.2.2.symm
        simp only at h ⊢
        cases hdg : charToDigit ch c.mantissaRadix with
        | none =>
          simp only [hdg, pure, Except.pure, Except.ok.injEq, Prod.mk.injEq] at h
          obtain ⟨rfl, rfl⟩ := h
          rw [hget] at hend; cases hend
        | some d =>
          simp only [hdg, iterStep, stepUnchecked_release c _ b1 hd] at h
          cases hrec : parseDigitsLoop c k c.mantissaRadix n (Bytes.incCount c k { b1 with index := b1.index + 1 }) with
          | error er => simp [hrec] at h
          | ok r2 =>
            obtain ⟨ds2, b2⟩ := r2
            simp only [hrec, pure, Except.pure, Except.ok.injEq, Prod.mk.injEq] at h
            obtain ⟨rfl, rfl⟩ := h
            by_cases hst : st > 0
            · simp only [hst, if_true, hd, Bool.false_and, Bool.false_eq_true, if_false, iterStep,
                stepUnchecked_release c _ b1 hd, validDigit_of_digit ch _ d hdg]
              have hi := incCount_spec c k { b1 with index := b1.index + 1 }
              have hv2 : Bytes.Valid (Bytes.incCount c k { b1 with index := b1.index + 1 }) := by
                unfold Bytes.Valid; rw [hi.1, hi.2]; simp only; omega
              obtain ⟨bu, g1, g2, g3, g4⟩ := ih _ _ _ ((m * c.mantissaRadix + d) % pow2_64) (st - 1) hv2 hrec
                (by rw [hi.1, hs.1]; exact hend)
              rw [hi.2] at g2 g3
              rw [hi.1] at g4
              simp only at g2 g3 g4
              rw [hs.1] at g4 hlt
              obtain ⟨st', rfl⟩ : ∃ st', st = st' + 1 := ⟨st - 1, by omega⟩
              simp only [Nat.add_sub_cancel] at g1 g2
              refine ⟨bu, ?_, ?_, by omega, g4⟩
              · simp only [Nat.add_sub_cancel]
                rw [g1]
                simp only [List.take_succ_cons, List.length_cons, foldMantissa, List.foldl_cons]
                have e0 : st' + 1 - ((List.take st' ds2).length + 1) = st' - (List.take st' ds2).length := by omega
                rw [e0]
              · have e1 : ({ b1 with index := b1.index + 1 } : Bytes)
                    = { b with index := b.index + (b1.index - b.index) + 1 } := by rw [hb1]; simp
                rw [e1, advS_succ] at g2
                simp only [List.take_succ_cons, List.length_cons]
                refine g2.trans ?_
                congr 1
                omega
            · have h0 : st = 0 := by omega
              subst h0
              simp only [Nat.lt_irrefl, if_false, pure, Except.pure]
              exact ⟨b1, by simpa using hstay [] rfl⟩

/-- `parse_u64_digits` on bytes that are all digits, in terms of the digit values -/
theorem u64Spec_of_digits (r : Nat) : ∀ (bytes ds : List Nat) (m st : Nat),
    bytes.map (fun x => charToDigit x r) = ds.map some →
    u64Spec r bytes m st = ((ds.take st).length, foldMantissa r m (ds.take st), st - (ds.take st).length) := by
  intro bytes
  induction bytes with
  | nil =>
    intro ds m st h
    cases ds with
    | nil => simp [u64Spec, foldMantissa]
    | cons d ds => simp at h
  | cons x xs ih =>
    intro ds m st h
    cases ds with
    | nil => simp at h
    | cons d ds =>
      simp only [List.map_cons, List.cons.injEq] at h
      simp only [u64Spec]
      by_cases hst : st > 0
      · obtain ⟨st', rfl⟩ : ∃ st', st = st' + 1 := ⟨st - 1, by omega⟩
        simp only [hst, if_true, Nat.add_sub_cancel, validDigit_of_digit x r d h.1, ih ds _ st' h.2,
          List.take_succ_cons, List.length_cons, foldMantissa, List.foldl_cons]
        refine Prod.ext rfl (Prod.ext rfl ?_)
        simp only; omega
      · have h0 : st = 0 := by omega
        subst h0
        simp [foldMantissa]

end LexVerif.Proof.Sep
