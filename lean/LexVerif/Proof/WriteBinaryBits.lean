import LexVerif.Proof.WriteBinaryExact
import LexVerif.Proof.DragonboxSpec
import LexVerif.Proof.RoundNE
import LexVerif.Props.RoundNE
import LexVerif.Proof.Bits
/-!
# Proof.WriteBinaryBits — `Float::mantissa` / `Float::exponent` (mask-and-shift, as in lexical-util) are the fields of
`Spec.Fmt.decode`, so `mantissa · 2^exponent = valQ`; and the final statement on bit patterns.
-/
namespace LexVerif.Proof.WriteBinaryBits
open LexVerif.Spec LexVerif.Model LexVerif.Model.WriteBinary LexVerif.Model.Dragonbox
open LexVerif.Proof.RoundNE LexVerif.Proof.DragonboxSpec LexVerif.Proof.WriteBinaryExact LexVerif.Proof.Bits

theorem masks32 : FTy.f32.exponentMask = (2 ^ 8 - 1) <<< 23 ∧ FTy.f32.mantissaMask = 2 ^ 23 - 1
    ∧ FTy.f32.ms = 23 ∧ FTy.f32.hiddenBit = 2 ^ 23 ∧ FTy.f32.denormalExponent = -149 ∧ FTy.f32.exponentBias = 150 := by
  decide
theorem masks64 : FTy.f64.exponentMask = (2 ^ 11 - 1) <<< 52 ∧ FTy.f64.mantissaMask = 2 ^ 52 - 1
    ∧ FTy.f64.ms = 52 ∧ FTy.f64.hiddenBit = 2 ^ 52 ∧ FTy.f64.denormalExponent = -1074 ∧ FTy.f64.exponentBias = 1075 := by
  decide

theorem decode_f32 (bits : Nat) : f32.decode bits =
    if bits / 2 ^ 23 % 2 ^ 8 = 0 then ⟨f32.isNeg bits, bits % 2 ^ 23, -149⟩
    else ⟨f32.isNeg bits, bits % 2 ^ 23 + 2 ^ 23, ((bits / 2 ^ 23 % 2 ^ 8 : Nat) : Int) - 127 - 23⟩ := rfl

theorem decode_f64 (bits : Nat) : f64.decode bits =
    if bits / 2 ^ 52 % 2 ^ 11 = 0 then ⟨f64.isNeg bits, bits % 2 ^ 52, -1074⟩
    else ⟨f64.isNeg bits, bits % 2 ^ 52 + 2 ^ 52, ((bits / 2 ^ 52 % 2 ^ 11 : Nat) : Int) - 1023 - 52⟩ := rfl

/-- the accessors of lexical-util's `Float` trait agree with the specification's `decode` -/
theorem mantissa_exponent_decode (t : FTy) (bits : Nat) :
    t.mantissa bits = ((fmtOf t).decode bits).m ∧ t.exponent bits = ((fmtOf t).decode bits).e := by
  cases t with
  | f32 =>
    obtain ⟨e1, e2, e3, e4, e5, e6⟩ := masks32
    have hden : FTy.f32.isDenormal bits = decide (bits / 2 ^ 23 % 2 ^ 8 = 0) := by
      unfold FTy.isDenormal
      rw [e1, and_shifted_mask]
      by_cases h : bits / 2 ^ 23 % 2 ^ 8 = 0
      · simp [h]
      · have : bits / 2 ^ 23 % 2 ^ 8 * 2 ^ 23 ≠ 0 := by
          intro h0; rcases Nat.mul_eq_zero.mp h0 with h0 | h0 <;> omega
        simp [h, this]
    unfold FTy.mantissa FTy.exponent fmtOf
    rw [hden, e2, e3, e4, e5, e6, e1, and_shifted_mask_shr, Nat.and_two_pow_sub_one_eq_mod, decode_f32]
    by_cases h : bits / 2 ^ 23 % 2 ^ 8 = 0
    · simp only [h, decide_true, if_true]
      exact ⟨trivial, trivial⟩
    · simp only [h, decide_false, if_false]
      refine ⟨by simp, ?_⟩
      simp only [Bool.false_eq_true, if_false]
      omega
  | f64 =>
    obtain ⟨e1, e2, e3, e4, e5, e6⟩ := masks64
    have hden : FTy.f64.isDenormal bits = decide (bits / 2 ^ 52 % 2 ^ 11 = 0) := by
      unfold FTy.isDenormal
      rw [e1, and_shifted_mask]
      by_cases h : bits / 2 ^ 52 % 2 ^ 11 = 0
      · simp [h]
      · have : bits / 2 ^ 52 % 2 ^ 11 * 2 ^ 52 ≠ 0 := by
          intro h0; rcases Nat.mul_eq_zero.mp h0 with h0 | h0 <;> omega
        simp [h, this]
    unfold FTy.mantissa FTy.exponent fmtOf
    rw [hden, e2, e3, e4, e5, e6, e1, and_shifted_mask_shr, Nat.and_two_pow_sub_one_eq_mod, decode_f64]
    by_cases h : bits / 2 ^ 52 % 2 ^ 11 = 0
    · simp only [h, decide_true, if_true]
      exact ⟨trivial, trivial⟩
    · simp only [h, decide_false, if_false]
      refine ⟨by simp, ?_⟩
      simp only [Bool.false_eq_true, if_false]
      omega

/-- bounds on the accessors for a finite non-zero pattern (sign clear) -/
theorem mantissa_exponent_bounds (t : FTy) {bits : Nat} (h0 : 0 < bits) (hfin : bits < (fmtOf t).infBits) :
    0 < t.mantissa bits ∧ t.mantissa bits * 16 < 2 ^ t.bits ∧ t.mantissa bits < 2 ^ 64
      ∧ -1074 ≤ t.exponent bits ∧ t.exponent bits ≤ 971 := by
  obtain ⟨hm, he⟩ := mantissa_exponent_decode t bits
  rw [hm, he]
  cases t with
  | f32 =>
    have hfin' : bits < 255 * 2 ^ 23 := hfin
    show 0 < (f32.decode bits).m ∧ (f32.decode bits).m * 16 < 2 ^ 32 ∧ (f32.decode bits).m < 2 ^ 64
      ∧ -1074 ≤ (f32.decode bits).e ∧ (f32.decode bits).e ≤ 971
    rw [decode_f32]
    by_cases h : bits / 2 ^ 23 % 2 ^ 8 = 0
    · simp only [h, if_true]; omega
    · simp only [h, if_false]; omega
  | f64 =>
    have hfin' : bits < 2047 * 2 ^ 52 := hfin
    show 0 < (f64.decode bits).m ∧ (f64.decode bits).m * 16 < 2 ^ 64 ∧ (f64.decode bits).m < 2 ^ 64
      ∧ -1074 ≤ (f64.decode bits).e ∧ (f64.decode bits).e ≤ 971
    rw [decode_f64]
    by_cases h : bits / 2 ^ 52 % 2 ^ 11 = 0
    · simp only [h, if_true]; omega
    · simp only [h, if_false]; omega

/-- the radix / exponent-base pairs of binary.rs (`bpb = bpd`) and hex.rs (4/2, 8/2, 16/2, 32/2, 16/4), as exponents of 2 -/
def IsPair (bpd bpb : Nat) : Prop := 1 ≤ bpd ∧ bpd ≤ 5 ∧ (bpb = 1 ∨ (bpb = 2 ∧ bpd = 4) ∨ bpb = bpd)

/-- `writeBinary_exact` at the level of the laid-out digits: for every finite non-zero float (sign removed) the layout
denotes exactly the float's value, in scientific and both positional notations -/
theorem layoutBits_exact (fmt : Format) (o : WOpts) (t : FTy) {bits bpd bpb : Nat}
    (hr : fmt.mantissaRadix = 2 ^ bpd) (hb : fmt.exponentBase = 2 ^ bpb) (hp : IsPair bpd bpb)
    (h0 : 0 < bits) (hfin : bits < (fmtOf t).infBits) :
    layoutQ (2 ^ bpd) (2 ^ bpb) (layoutBits fmt o t bits) = valQ (fmtOf t) bits := by
  obtain ⟨b1, b2, b3, b4, b5⟩ := mantissa_exponent_bounds t h0 hfin
  obtain ⟨hm, he⟩ := mantissa_exponent_decode t bits
  have hw : 5 ≤ t.bits := by cases t <;> decide
  unfold layoutBits
  rw [layoutME_exact fmt o hr hb hp.1 hp.2.1 hp.2.2 b1 hw b2 b3 (by omega) (by omega)]
  unfold valQ
  rw [hm, he]

/-- including `+0.0` -/
theorem layoutBits_exact_all (fmt : Format) (o : WOpts) (t : FTy) {bits bpd bpb : Nat}
    (hr : fmt.mantissaRadix = 2 ^ bpd) (hb : fmt.exponentBase = 2 ^ bpb) (hp : IsPair bpd bpb)
    (hfin : bits < (fmtOf t).infBits) :
    layoutQ (2 ^ bpd) (2 ^ bpb) (layoutBits fmt o t bits) = valQ (fmtOf t) bits := by
  by_cases h0 : 0 < bits
  · exact layoutBits_exact fmt o t hr hb hp h0 hfin
  · have hz : bits = 0 := by omega
    subst hz
    have hm : t.mantissa 0 = 0 := by cases t <;> decide
    have hv : valQ (fmtOf t) 0 = 0 := by
      unfold valQ
      have : ((fmtOf t).decode 0).m = 0 := by cases t <;> decide
      rw [this]; simp
    unfold layoutBits
    rw [hm, hv]
    exact layoutME_zero fmt o _ hr hb hp.1

/-- the literal's exact value as a fraction of naturals — the `(num, den)` the specification parser
(`Spec.litBits`, the judge of `./check C06`) rounds -/
def layoutFrac (r b : Nat) (l : Layout) : Nat × Nat :=
  let m := ofDigits r (l.int ++ l.frac)
  let fl := l.frac.length
  match l.exp with
  | none => (m, r ^ fl)
  | some x => if x ≥ 0 then (m * b ^ x.toNat, r ^ fl) else (m, r ^ fl * b ^ (-x).toNat)

theorem layoutFrac_q (r b : Nat) (hr : 0 < r) (hb : 0 < b) (l : Layout) :
    0 < (layoutFrac r b l).2 ∧ ((layoutFrac r b l).1 : ℚ) / ((layoutFrac r b l).2 : ℚ) = layoutQ r b l := by
  have hrq : (r : ℚ) ≠ 0 := by exact_mod_cast Nat.ne_of_gt hr
  have hbq : (b : ℚ) ≠ 0 := by exact_mod_cast Nat.ne_of_gt hb
  unfold layoutFrac layoutQ
  cases hx : l.exp with
  | none =>
    simp only [expFactor]
    refine ⟨Nat.pow_pos hr, ?_⟩
    push_cast; ring
  | some x =>
    simp only [expFactor]
    by_cases hx0 : x ≥ 0
    · simp only [hx0, if_true]
      refine ⟨Nat.pow_pos hr, ?_⟩
      have : (b : ℚ) ^ x = (b : ℚ) ^ x.toNat := by
        rw [← zpow_natCast, Int.toNat_of_nonneg hx0]
      rw [this]; push_cast; ring
    · simp only [hx0, if_false]
      refine ⟨Nat.mul_pos (Nat.pow_pos hr) (Nat.pow_pos hb), ?_⟩
      have : (b : ℚ) ^ x = ((b : ℚ) ^ (-x).toNat)⁻¹ := by
        rw [← zpow_natCast, Int.toNat_of_nonneg (by omega), zpow_neg, inv_inv]
      rw [this]; push_cast
      field_simp

/-- exactness ⇒ round trip: the fraction denoted by the written digits is rounded back (exact `roundNE`) to the same bits -/
theorem layoutBits_roundtrip (fmt : Format) (o : WOpts) (t : FTy) {bits bpd bpb : Nat}
    (hr : fmt.mantissaRadix = 2 ^ bpd) (hb : fmt.exponentBase = 2 ^ bpb) (hp : IsPair bpd bpb)
    (hfin : bits < (fmtOf t).infBits) :
    roundNE (fmtOf t) (layoutFrac (2 ^ bpd) (2 ^ bpb) (layoutBits fmt o t bits)).1
      (layoutFrac (2 ^ bpd) (2 ^ bpb) (layoutBits fmt o t bits)).2 = bits := by
  obtain ⟨hd, hq⟩ := layoutFrac_q (2 ^ bpd) (2 ^ bpb) (Nat.two_pow_pos _) (Nat.two_pow_pos _) (layoutBits fmt o t bits)
  have hwf : WF (fmtOf t) := by cases t; exact wf_f32; exact wf_f64
  apply LexVerif.Props.RoundNE.roundNE_of_valQ hwf hfin _ hd
  rw [hq, layoutBits_exact_all fmt o t hr hb hp hfin]

end LexVerif.Proof.WriteBinaryBits
