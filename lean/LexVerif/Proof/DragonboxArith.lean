import LexVerif.Model.Dragonbox
/-!
# Proof.DragonboxArith — the arithmetic kernels of algorithm.rs, for ALL inputs in their stated ranges

* `umul128_upper64`, `umul192_upper128`, `umul192_lower128`, `umul96_*` are slices of the exact products;
* `divide_by_pow10` (both magic divisions) is the exact quotient;
* `check_div_pow10` / `div_pow10` are exact on their (finite) precondition ranges.
-/
namespace LexVerif.Proof.DragonboxArith
open LexVerif.Model.Dragonbox

theorem mul_lt_128 {x y : Nat} (hx : x < 2 ^ 64) (hy : y < 2 ^ 64) : x * y < 2 ^ 128 := by
  have : x * y < 2 ^ 64 * 2 ^ 64 := Nat.mul_lt_mul'' hx hy
  simpa [← Nat.pow_add] using this

/-- `umul128_upper64(x, y) = ⌊x·y / 2^64⌋` -/
theorem umul128Upper64_eq {x y : Nat} (hx : x < 2 ^ 64) (hy : y < 2 ^ 64) :
    umul128Upper64 x y = x * y / 2 ^ 64 := by
  have h := mul_lt_128 hx hy
  unfold umul128Upper64 u128 u64
  rw [Nat.mod_eq_of_lt h, Nat.shiftRight_eq_div_pow]
  apply Nat.mod_eq_of_lt
  apply Nat.div_lt_of_lt_mul
  simpa [← Nat.pow_add] using h

/-- `umul192_upper128(x, hi, lo)` = bits 64..191 of the exact product `x·(hi·2^64 + lo)`:
first component = `⌊P / 2^128⌋`, second = `⌊P / 2^64⌋ mod 2^64` -/
theorem umul192Upper128_eq {x hi lo : Nat} (hx : x < 2 ^ 64) (hh : hi < 2 ^ 64) (hl : lo < 2 ^ 64) :
    umul192Upper128 x hi lo =
      (x * (hi * 2 ^ 64 + lo) / 2 ^ 128, x * (hi * 2 ^ 64 + lo) / 2 ^ 64 % 2 ^ 64) := by
  have h1 := mul_lt_128 hx hh
  have h2 := mul_lt_128 hx hl
  have hP : x * (hi * 2 ^ 64 + lo) / 2 ^ 64 = x * hi + x * lo / 2 ^ 64 := by
    rw [Nat.mul_add, ← Nat.mul_assoc, Nat.add_comm, Nat.add_mul_div_right _ _ (by decide : 0 < 2 ^ 64), Nat.add_comm]
  have hlo : x * lo / 2 ^ 64 < 2 ^ 64 := by
    apply Nat.div_lt_of_lt_mul; simpa [← Nat.pow_add] using h2
  -- x·hi ≤ (2^64-1)^2, so the sum stays below 2^128
  have hx' : x ≤ 2 ^ 64 - 1 := by omega
  have hh' : hi ≤ 2 ^ 64 - 1 := by omega
  have hm : x * hi ≤ (2 ^ 64 - 1) * (2 ^ 64 - 1) := Nat.mul_le_mul hx' hh'
  have hsum : x * hi + x * lo / 2 ^ 64 < 2 ^ 128 := by
    have : (2 ^ 64 - 1) * (2 ^ 64 - 1) + 2 ^ 64 ≤ 2 ^ 128 := by decide
    omega
  unfold umul192Upper128
  simp only [umul128Upper64_eq hx hl]
  unfold u128 u64
  rw [Nat.mod_eq_of_lt h1, Nat.mod_eq_of_lt hsum, Nat.shiftRight_eq_div_pow, ← hP]
  have hdiv : x * (hi * 2 ^ 64 + lo) / 2 ^ 64 / 2 ^ 64 = x * (hi * 2 ^ 64 + lo) / 2 ^ 128 := by
    rw [Nat.div_div_eq_div_mul]
  rw [hdiv]
  congr 1
  apply Nat.mod_eq_of_lt
  rw [← hdiv, hP]
  apply Nat.div_lt_of_lt_mul
  simpa [← Nat.pow_add] using hsum

/-- `umul192_lower128(x, yhi, ylo)` = the low 128 bits of the exact product: `hi·2^64 + lo = P mod 2^128` -/
theorem umul192Lower128_eq {x yhi ylo : Nat} (hx : x < 2 ^ 64) (hl : ylo < 2 ^ 64) :
    (umul192Lower128 x yhi ylo).1 * 2 ^ 64 + (umul192Lower128 x yhi ylo).2
      = x * (yhi * 2 ^ 64 + ylo) % 2 ^ 128 := by
  have h2 := mul_lt_128 hx hl
  unfold umul192Lower128 u128 u64
  simp only [Nat.mod_eq_of_lt h2, Nat.shiftRight_eq_div_pow]
  have hq : x * ylo / 2 ^ 64 < 2 ^ 64 := by
    apply Nat.div_lt_of_lt_mul; simpa [← Nat.pow_add] using h2
  rw [Nat.mod_eq_of_lt hq]
  have hP : x * (yhi * 2 ^ 64 + ylo) = x * yhi * 2 ^ 64 + x * ylo := by
    rw [Nat.mul_add, Nat.mul_assoc]
  rw [hP]
  generalize x * yhi = a
  generalize x * ylo = b at *
  omega

/-- second component alone -/
theorem umul192Lower128_lo {x yhi ylo : Nat} (hx : x < 2 ^ 64) (hl : ylo < 2 ^ 64) :
    (umul192Lower128 x yhi ylo).2 = x * ylo % 2 ^ 64 := by
  have h2 := mul_lt_128 hx hl
  unfold umul192Lower128 u128 u64
  simp only [Nat.mod_eq_of_lt h2]

/-- `umul96_upper64(x, y) = ⌊x·y / 2^32⌋` for a 32-bit `x` -/
theorem umul96Upper64_eq {x y : Nat} (hx : x < 2 ^ 32) (hy : y < 2 ^ 64) :
    umul96Upper64 x y = x * y / 2 ^ 32 := by
  have hs : shl64 x 32 = x * 2 ^ 32 := by
    unfold shl64 u64
    have : ((32 : Int) % 64).toNat = 32 := by decide
    rw [this, Nat.shiftLeft_eq]
    apply Nat.mod_eq_of_lt; omega
  unfold umul96Upper64
  rw [hs, umul128Upper64_eq (by omega) hy]
  have : x * 2 ^ 32 * y = x * y * 2 ^ 32 := by rw [Nat.mul_right_comm]
  rw [this, show (2:Nat) ^ 64 = 2 ^ 32 * 2 ^ 32 by decide, ← Nat.div_div_eq_div_mul,
    Nat.mul_div_cancel _ (by decide : 0 < 2 ^ 32)]

theorem umul96Lower64_eq (x y : Nat) : umul96Lower64 x y = x * y % 2 ^ 64 := rfl

/-! ## divide_by_pow10 -/

/-- f32: `(n · 1374389535) >> 37 = n / 100` for every `n < 2^32` -/
theorem divideByPow10_32_eq {n : Nat} (hn : n < 2 ^ 32) : divideByPow10_32 n 2 = n / 100 := by
  unfold divideByPow10_32 u32 u64
  simp only [if_true, Nat.shiftRight_eq_div_pow]
  have h1 : n * 1374389535 % 2 ^ 64 = n * 1374389535 := Nat.mod_eq_of_lt (by omega)
  rw [h1]
  have h2 : n * 1374389535 / 2 ^ 37 = n / 100 := by omega
  rw [h2]; omega

/-- f64: `umul128_upper64(n, 2361183241434822607) >> 7 = n / 1000` for every `n ≤ n_max`, for every `n_max`
that passes the source's own guard `n_max <= 15534100272597517998` -/
theorem divideByPow10_64_eq {n nMax : Nat} (hmax : nMax ≤ 15534100272597517998) (hn : n ≤ nMax) :
    divideByPow10_64 n 3 nMax = n / 1000 := by
  unfold divideByPow10_64
  rw [if_pos ⟨rfl, hmax⟩, umul128Upper64_eq (by omega) (by decide), Nat.shiftRight_eq_div_pow,
    Nat.div_div_eq_div_mul]
  apply Nat.div_eq_of_lt_le <;> omega

/-- the `n_max` the two callers pass, and the dispatch on the type -/
theorem divideByPow10_f64 {n : Nat} (hn : n ≤ 2 ^ 53 * 1000 - 1) :
    divideByPow10 .f64 n 3 (2 ^ 53 * 1000 - 1) = n / 1000 :=
  divideByPow10_64_eq (by decide) hn

theorem divideByPow10_f32 {n : Nat} (hn : n < 2 ^ 32) (nMax : Nat) :
    divideByPow10 .f32 n 2 nMax = n / 100 := by
  unfold divideByPow10
  simp only [u32, Nat.mod_eq_of_lt hn]
  exact divideByPow10_32_eq hn

/-! ## check_div_pow10 / div_pow10: precondition `n ≤ 10^(N+1)` (N = kappa), finite -/

theorem checkDivPow10_f32 : ∀ n ∈ List.range 101, checkDivPow10 .f32 n = (n / 10, decide (n % 10 = 0)) := by
  decide +kernel
theorem checkDivPow10_f64 : ∀ n ∈ List.range 1001, checkDivPow10 .f64 n = (n / 100, decide (n % 100 = 0)) := by
  decide +kernel
theorem divPow10_f32 : ∀ n ∈ List.range 101, divPow10 .f32 n = n / 10 := by decide +kernel
theorem divPow10_f64 : ∀ n ∈ List.range 1001, divPow10 .f64 n = n / 100 := by decide +kernel

end LexVerif.Proof.DragonboxArith
