import LexVerif.Proof.ParseNumberC11SepCfg
/-!
# Proof.ParseNumberC11SepSpecial — C11 (B) with a digit-separator byte: the special-value parser under truncation

The special iterator is either no-skip or (`special_digit_separator`) skips every run of separators unconditionally
(I+L+T+C): its decisions never look at neighbours. `spIdx` is the cursor after its `peek`. `starts_with*` on the cut
buffer: a match that ends at or before the cut is reproduced, a mismatch stays a mismatch (the cut can only turn a byte
into end of input).
-/
set_option linter.unusedSectionVars false
set_option linter.unusedSimpArgs false
set_option linter.unusedVariables false
namespace LexVerif.Proof.C11
open LexVerif LexVerif.Model LexVerif.Spec
open LexVerif.Props.C12 (Bytes.Valid countSeps_le)
open LexVerif.Proof.PNTotal (Rel)

/-- cursor after `peek` of the special iterator -/
def spIdx (c : Cfg) (b : Bytes) : Nat :=
  if c.specialSep then b.index + countSeps c (b.slc.drop b.index) else b.index

theorem peek_special (c : Cfg) (b : Bytes) :
    peek c .special b = .ok (b.slc[spIdx c b]?, Bytes.at b (spIdx c b)) := by
  unfold peek spIdx Cfg.skip
  cases hs : c.specialSep with
  | false => simp [Bytes.at]
  | true =>
    simp only [if_true, peekPred]
    cases hv : b.slc[b.index]? with
    | none => simp [PNTotal.drop_of_none hv, countSeps, hv, Bytes.at]
    | some v =>
      simp only [PNTotal.drop_of_get hv, countSeps]
      by_cases hsv : c.isSep v = true
      · simp only [hsv, if_true, Pred.holds, Pred.consecutive]
        have : b.index + 1 + countSeps c (List.drop (b.index + 1) b.slc)
            = b.index + (countSeps c (List.drop (b.index + 1) b.slc) + 1) := by omega
        rw [this]; rfl
      · simp [hsv, hv, Bytes.at]

theorem spIdx_ge (c : Cfg) (b : Bytes) : b.index ≤ spIdx c b := by
  unfold spIdx; split <;> omega

theorem spIdx_le (c : Cfg) (b : Bytes) (hv : Bytes.Valid b) : spIdx c b ≤ b.slc.length := by
  unfold spIdx
  split
  · have := countSeps_le c (b.slc.drop b.index)
    simp only [List.length_drop] at this
    unfold Bytes.Valid at hv; omega
  · exact hv

theorem countSeps_take_min (c : Cfg) (l : List Nat) : ∀ m, countSeps c (l.take m) = min (countSeps c l) m := by
  induction l with
  | nil => intro m; simp [countSeps]
  | cons x xs ih =>
    intro m
    cases m with
    | zero => simp [countSeps]
    | succ m2 =>
      simp only [List.take_succ_cons, countSeps]
      split
      · rw [ih m2]; omega
      · simp

/-- the special iterator's `peek` on the buffer cut at any `n ≥ cursor` -/
theorem spIdx_trunc (c : Cfg) (b : Bytes) (n : Nat) (hn : b.index ≤ n) :
    spIdx c (trunc n b) = min (spIdx c b) n := by
  unfold spIdx
  simp only [trunc_slc, trunc_index]
  split
  · rw [List.drop_take, countSeps_take_min]; omega
  · omega

/-- `Iterator::next` of the special iterator -/
theorem iterNext_special (c : Cfg) (b : Bytes) :
    iterNext c .special b = .ok (match b.slc[spIdx c b]? with
      | none => (none, Bytes.at b (spIdx c b))
      | some x => (some x, Bytes.at b (spIdx c b + 1))) := by
  unfold iterNext
  simp only [peek_special, bind, Except.bind, pure, Except.pure]
  cases b.slc[spIdx c b]? with
  | none => rfl
  | some x =>
    simp only [Bytes.incCount]
    split <;> (try split) <;> rfl

/-- both `starts_with` variants as one loop with a byte comparison -/
def swG (c : Cfg) (eq : Nat → Nat → Bool) : List Nat → Bytes → Bool × Bytes
  | [], b => (true, b)
  | y :: ys, b =>
    match b.slc[spIdx c b]? with
    | none => (false, Bytes.at b (spIdx c b))
    | some x => if eq x y then swG c eq ys (Bytes.at b (spIdx c b + 1)) else (false, Bytes.at b (spIdx c b + 1))

theorem startsWith_swG (c : Cfg) : ∀ (ys : List Nat) (b : Bytes),
    Model.startsWith c ys b = .ok (swG c (fun x y => x == y) ys b) := by
  intro ys
  induction ys with
  | nil => intro b; rfl
  | cons y ys ih =>
    intro b
    unfold Model.startsWith swG
    simp only [iterNext_special, bind, Except.bind, pure, Except.pure]
    cases b.slc[spIdx c b]? with
    | none => simp
    | some x =>
      simp only [Option.some.injEq, beq_iff_eq]
      by_cases hxy : x = y
      · simp only [hxy, if_true]; exact ih _
      · simp only [hxy, if_false]

theorem startsWithUncased_swG (c : Cfg) : ∀ (ys : List Nat) (b : Bytes),
    Model.startsWithUncased c ys b = .ok (swG c (fun x y => !(Nat.xor x y ≠ 0 && Nat.xor x y ≠ 32)) ys b) := by
  intro ys
  induction ys with
  | nil => intro b; rfl
  | cons y ys ih =>
    intro b
    unfold Model.startsWithUncased swG
    simp only [iterNext_special, bind, Except.bind, pure, Except.pure]
    cases b.slc[spIdx c b]? with
    | none => simp
    | some x =>
      simp only
      by_cases hxy : (Nat.xor x y ≠ 0 && Nat.xor x y ≠ 32) = true
      · simp only [hxy, if_true, Bool.not_true, Bool.false_eq_true, if_false]
      · simp only [hxy, if_false, Bool.not_eq_true] at *
        simp only [hxy, Bool.not_false, if_true]
        exact ih _

/-- a match keeps the buffer and the counts, moves the cursor over at least `|ys|` bytes and stays inside the buffer -/
theorem swG_hit (c : Cfg) (eq : Nat → Nat → Bool) : ∀ (ys : List Nat) (b : Bytes),
    (swG c eq ys b).1 = true →
      (swG c eq ys b).2 = Bytes.at b (swG c eq ys b).2.index ∧ b.index + ys.length ≤ (swG c eq ys b).2.index ∧
      (ys ≠ [] → (swG c eq ys b).2.index ≤ b.slc.length) := by
  intro ys
  induction ys with
  | nil => intro b _; exact ⟨rfl, by simp [swG], fun h => absurd rfl h⟩
  | cons y ys ih =>
    intro b h
    unfold swG at h ⊢
    cases hx : b.slc[spIdx c b]? with
    | none => simp [hx] at h
    | some x =>
      simp only [hx] at h ⊢
      by_cases he : eq x y = true
      · simp only [he, if_true] at h ⊢
        obtain ⟨e1, e2, e3⟩ := ih _ h
        have hge := spIdx_ge c b
        have hlt : spIdx c b < b.slc.length := (List.getElem?_eq_some_iff.mp hx).1
        simp only [at_index, at_slc] at e2 e3
        refine ⟨?_, by simp only [List.length_cons]; omega, fun _ => ?_⟩
        · rw [e1]; rfl
        · cases ys with
          | nil => simp only [swG, at_index]; omega
          | cons z zs => exact e3 (by simp)
      · simp [he] at h

/-- `starts_with*` on the buffer cut at `n`: a match ending at or before `n` is reproduced; a mismatch stays one -/
theorem swG_trunc (c : Cfg) (eq : Nat → Nat → Bool) : ∀ (ys : List Nat) (b : Bytes) (n : Nat), b.index ≤ n →
    ((swG c eq ys b).1 = false → (swG c eq ys (trunc n b)).1 = false) ∧
    ((swG c eq ys b).1 = true → (swG c eq ys b).2.index ≤ n →
      swG c eq ys (trunc n b) = (true, trunc n (swG c eq ys b).2)) := by
  intro ys
  induction ys with
  | nil => intro b n _; exact ⟨fun h => by simp [swG] at h, fun _ _ => rfl⟩
  | cons y ys ih =>
    intro b n hn
    have hsp := spIdx_trunc c b n hn
    have hge := spIdx_ge c b
    by_cases hlt : spIdx c b < n
    · -- the byte the iterator returns lies before the cut
      have e1 : spIdx c (trunc n b) = spIdx c b := by rw [hsp]; omega
      have e2 : (trunc n b).slc[spIdx c (trunc n b)]? = b.slc[spIdx c b]? := by
        rw [e1]; exact take_get_lt _ _ _ hlt
      unfold swG
      rw [e2, e1]
      cases hx : b.slc[spIdx c b]? with
      | none => simp
      | some x =>
        simp only
        by_cases he : eq x y = true
        · simp only [he, if_true]
          have := ih (Bytes.at b (spIdx c b + 1)) n (by simp only [at_index]; omega)
          rw [trunc_at] at this
          exact this
        · simp only [he, if_false, Bool.false_eq_true]
          exact ⟨fun _ => trivial, fun h => by cases h⟩
    · -- the cut is at or before it: end of input
      have e1 : spIdx c (trunc n b) = n := by rw [hsp]; omega
      have e2 : (trunc n b).slc[spIdx c (trunc n b)]? = none := by
        rw [e1]; exact take_get_ge _ _ _ (Nat.le_refl _)
      refine ⟨fun _ => by unfold swG; rw [e2], ?_⟩
      intro hh hle
      exfalso
      have := (swG_hit c eq (y :: ys) b hh).2.1
      simp only [List.length_cons] at this
      -- the match consumed the byte at `spIdx`, which is ≥ n
      unfold swG at hh hle
      cases hx : b.slc[spIdx c b]? with
      | none => simp [hx] at hh
      | some x =>
        simp only [hx] at hh hle
        by_cases he : eq x y = true
        · simp only [he, if_true] at hh hle
          have h2 := (swG_hit c eq ys _ hh).2.1
          simp only [at_index] at h2
          omega
        · simp [he] at hh

/-! ## `is_special_eq`, `parse_positive_special` -/

/-- the byte comparison of `is_special_eq` -/
def spCmp (c : Cfg) : Nat → Nat → Bool :=
  if (c.feats.format && c.caseSensitiveSpecial) = true then (fun x y => x == y)
  else (fun x y => !(Nat.xor x y ≠ 0 && Nat.xor x y ≠ 32))

/-- value of `is_special_eq`: 0, or the cursor after the match and the trailing separators -/
def spEq (c : Cfg) (b : Bytes) (str : List Nat) : Nat :=
  if (swG c (spCmp c) str b).1 then spIdx c (swG c (spCmp c) str b).2 else 0

theorem isSpecialEq_closed (c : Cfg) (b : Bytes) (str : List Nat) : isSpecialEq c b str = .ok (spEq c b str) := by
  unfold isSpecialEq spEq spCmp
  by_cases hcs : (c.feats.format && c.caseSensitiveSpecial) = true
  · simp only [hcs, if_true, startsWith_swG, bind, Except.bind, pure, Except.pure, peek_special]
    split <;> simp [*]
  · simp only [hcs, Bool.false_eq_true, if_false, startsWithUncased_swG, bind, Except.bind, pure, Except.pure,
      peek_special]
    split <;> simp [*]

theorem spEq_trunc (c : Cfg) (b : Bytes) (str : List Nat) (n : Nat) (hn : b.index ≤ n) :
    (spEq c b str = 0 → spEq c (trunc n b) str = 0) ∧
    (spEq c b str ≠ 0 → spEq c b str ≤ n → spEq c (trunc n b) str = spEq c b str) := by
  obtain ⟨t1, t2⟩ := swG_trunc c (spCmp c) str b n hn
  unfold spEq
  cases hh : (swG c (spCmp c) str b).1 with
  | false =>
    simp only [Bool.false_eq_true, if_false, t1 hh]
    exact ⟨fun _ => trivial, fun h => absurd rfl h⟩
  | true =>
    simp only [if_true]
    have hge := spIdx_ge c (swG c (spCmp c) str b).2
    have key : spIdx c (swG c (spCmp c) str b).2 ≤ n →
        (if (swG c (spCmp c) str (trunc n b)).1 = true then spIdx c (swG c (spCmp c) str (trunc n b)).2 else 0)
          = spIdx c (swG c (spCmp c) str b).2 := by
      intro hle
      rw [t2 hh (by omega)]
      simp only [if_true]
      rw [spIdx_trunc c _ n (by omega)]
      omega
    exact ⟨fun h0 => by rw [key (by omega)]; exact h0, fun _ hle => key hle⟩

theorem spEq_facts (c : Cfg) (b : Bytes) (str : List Nat) (hv : Bytes.Valid b) (h : spEq c b str ≠ 0) :
    b.index + str.length ≤ spEq c b str ∧ spEq c b str ≤ b.slc.length := by
  unfold spEq at h ⊢
  cases hh : (swG c (spCmp c) str b).1 with
  | false => simp [hh] at h
  | true =>
    simp only [if_true]
    obtain ⟨e1, e2, e3⟩ := swG_hit c (spCmp c) str b hh
    have hge := spIdx_ge c (swG c (spCmp c) str b).2
    refine ⟨by omega, ?_⟩
    have hv2 : Bytes.Valid (swG c (spCmp c) str b).2 := by
      rw [e1]
      simp only [Bytes.Valid, at_index, at_slc]
      cases str with
      | nil => simp only [swG]; exact hv
      | cons y ys => exact e3 (by simp)
    have := spIdx_le c _ hv2
    rw [e1] at this
    simp only [at_slc] at this
    rw [e1]
    exact this

theorem try1_truncS (c : Cfg) (b : Bytes) (so : Option (List Nat)) (m n : Nat) (hv : Bytes.Valid b) (hn : b.index ≤ n)
    (h : PNTotal.try1 c b (b.bufferLength - b.index) so = .ok m) :
    (m ≠ 0 → b.index < m ∨ so = some []) ∧ (m ≠ 0 → m ≤ b.slc.length) ∧
    ∃ m', PNTotal.try1 c (trunc n b) ((trunc n b).bufferLength - (trunc n b).index) so = .ok m' ∧
      (m = 0 → m' = 0) ∧ (m ≠ 0 → m ≤ n → m' = m) := by
  unfold PNTotal.try1 at h ⊢
  cases so with
  | none =>
    cases h
    exact ⟨fun hh => absurd rfl hh, fun hh => absurd rfl hh, 0, rfl, fun _ => rfl, fun hh => absurd rfl hh⟩
  | some s =>
    simp only [isSpecialEq_closed] at h ⊢
    have hbl : b.bufferLength = b.slc.length := rfl
    have hbl2 : (trunc n b).bufferLength = min n b.slc.length := by
      simp only [Bytes.bufferLength, trunc_slc, List.length_take]
    obtain ⟨q1, q2⟩ := spEq_trunc c b s n hn
    split at h
    · next hl =>
      rw [hbl] at hl
      simp only [Except.ok.injEq] at h
      subst h
      refine ⟨?_, fun hh => (spEq_facts c b s hv hh).2, ?_⟩
      · intro hh
        have := (spEq_facts c b s hv hh).1
        cases s with
        | nil => exact Or.inr rfl
        | cons y ys => simp only [List.length_cons] at this; exact Or.inl (by omega)
      · split
        · exact ⟨_, rfl, q1, q2⟩
        · next hl2 =>
          rw [hbl2, trunc_index] at hl2
          refine ⟨0, rfl, fun _ => rfl, ?_⟩
          intro hm0 hmn
          have := spEq_facts c b s hv hm0
          omega
    · next hl =>
      rw [hbl] at hl
      cases h
      refine ⟨fun hh => absurd rfl hh, fun hh => absurd rfl hh, ?_⟩
      split
      · next hl2 => rw [hbl2, trunc_index] at hl2; omega
      · exact ⟨0, rfl, fun _ => rfl, fun hh => absurd rfl hh⟩

/-- a special-value match is reproduced on the buffer cut right after the match -/
theorem parsePositiveSpecial_truncS (o : POpts) (b : Bytes) (sp : Special) (cnt : Nat) (hv : Bytes.Valid b)
    (hidx : b.index ≤ cnt) (h : parsePositiveSpecial c o b = .ok (some (sp, cnt))) :
    cnt ≤ b.slc.length ∧ parsePositiveSpecial c o (trunc cnt b) = .ok (some (sp, cnt)) := by
  rw [PNTotal.parsePositiveSpecial_eq] at h ⊢
  by_cases hns : (c.feats.format && c.noSpecial) = true
  · rw [if_pos hns] at h; cases h
  rw [if_neg hns] at h ⊢
  simp only [bind, Except.bind, pure, Except.pure] at h ⊢
  cases h1 : PNTotal.try1 c b (b.bufferLength - b.index) o.nan with
  | error e => rw [h1] at h; cases h
  | ok n1 =>
    obtain ⟨_, l1, m1, t1, z1, e1⟩ := try1_truncS c b o.nan n1 cnt hv hidx h1
    rw [h1] at h
    simp only at h
    rw [t1]
    simp only
    by_cases hn1 : n1 ≠ 0
    · rw [if_pos hn1] at h
      simp only [Except.ok.injEq, Option.some.injEq, Prod.mk.injEq] at h
      obtain ⟨rfl, rfl⟩ := h
      have := e1 hn1 (Nat.le_refl _)
      subst this
      rw [if_pos hn1]
      exact ⟨l1 hn1, rfl⟩
    · rw [if_neg hn1] at h
      have hm1 : m1 = 0 := z1 (by omega)
      rw [if_neg (by omega)]
      cases h2 : PNTotal.try1 c b (b.bufferLength - b.index) o.infinity with
      | error e => rw [h2] at h; cases h
      | ok n2 =>
        obtain ⟨_, l2, m2, t2, z2, e2⟩ := try1_truncS c b o.infinity n2 cnt hv hidx h2
        rw [h2] at h
        simp only at h
        rw [t2]
        simp only
        by_cases hn2 : n2 ≠ 0
        · rw [if_pos hn2] at h
          simp only [Except.ok.injEq, Option.some.injEq, Prod.mk.injEq] at h
          obtain ⟨rfl, rfl⟩ := h
          have := e2 hn2 (Nat.le_refl _)
          subst this
          rw [if_pos hn2]
          exact ⟨l2 hn2, rfl⟩
        · rw [if_neg hn2] at h
          have hm2 : m2 = 0 := z2 (by omega)
          rw [if_neg (by omega)]
          cases h3 : PNTotal.try1 c b (b.bufferLength - b.index) o.inf with
          | error e => rw [h3] at h; cases h
          | ok n3 =>
            obtain ⟨_, l3, m3, t3, z3, e3⟩ := try1_truncS c b o.inf n3 cnt hv hidx h3
            rw [h3] at h
            simp only at h
            rw [t3]
            simp only
            by_cases hn3 : n3 ≠ 0
            · rw [if_pos hn3] at h
              simp only [Except.ok.injEq, Option.some.injEq, Prod.mk.injEq] at h
              obtain ⟨rfl, rfl⟩ := h
              have := e3 hn3 (Nat.le_refl _)
              subst this
              rw [if_pos hn3]
              exact ⟨l3 hn3, rfl⟩
            · rw [if_neg hn3] at h
              cases h


/-! ## the number parser and the front end on a buffer that starts with separators and a non-digit -/

theorem countSeps_get_sep (c : Cfg) (l : List Nat) : ∀ j, j < countSeps c l → ∃ x, l[j]? = some x ∧ c.isSep x = true := by
  induction l with
  | nil => intro j h; simp [countSeps] at h
  | cons y ys ih =>
    intro j h
    simp only [countSeps] at h
    split at h
    · next hy =>
      cases j with
      | zero => exact ⟨y, by simp, hy⟩
      | succ j2 =>
        obtain ⟨x, hx, hs⟩ := ih j2 (by omega)
        exact ⟨x, by simpa using hx, hs⟩
    · omega

theorem countSeps_drop (c : Cfg) (l : List Nat) : ∀ j, j ≤ countSeps c l → countSeps c (l.drop j) = countSeps c l - j := by
  induction l with
  | nil => intro j _; simp [countSeps]
  | cons y ys ih =>
    intro j hj
    cases j with
    | zero => simp
    | succ j2 =>
      simp only [countSeps] at hj ⊢
      split at hj
      · next hy =>
        simp only [hy, if_true, List.drop_succ_cons]
        rw [ih j2 (by omega)]; omega
      · omega

/-- `peek` never passes the first non-separator byte -/
theorem peek_le_firstNonSep (c : Cfg) (k : Comp) (b b' : Bytes) (v : Option Nat)
    (hp : peek c k b = .ok (v, b')) : b'.index ≤ b.index + countSeps c (b.slc.drop b.index) := by
  unfold peek at hp
  cases hs : c.skip k with
  | noskip => simp only [hs, Except.ok.injEq, Prod.mk.injEq] at hp; rw [← hp.2]; omega
  | unreachable => simp [hs] at hp
  | pred p =>
    simp only [hs, Except.ok.injEq] at hp
    unfold peekPred at hp
    cases hg : b.slc[b.index]? with
    | none => simp only [hg, Prod.mk.injEq] at hp; rw [← hp.2]; omega
    | some x =>
      simp only [hg] at hp
      rw [PNTotal.drop_of_get hg]
      simp only [countSeps]
      split at hp
      · next hsx =>
        simp only [hsx, if_true]
        split at hp
        · simp only [Prod.mk.injEq] at hp
          rw [← hp.2]
          simp only
          split <;> omega
        · simp only [Prod.mk.injEq] at hp; rw [← hp.2]; omega
      · simp only [Prod.mk.injEq] at hp; rw [← hp.2]; omega

/-- `peek` on a buffer cut behind the first non-separator byte: nothing it looks at is cut off -/
theorem peek_trunc_far (c : Cfg) (k : Comp) (b b' : Bytes) (v : Option Nat) (hp : peek c k b = .ok (v, b')) (n : Nat)
    (hfar : b.index + countSeps c (b.slc.drop b.index) < n) : peek c k (trunc n b) = .ok (v, trunc n b') := by
  unfold peek at hp ⊢
  cases hs : c.skip k with
  | noskip =>
    simp only [hs, Except.ok.injEq, Prod.mk.injEq] at hp ⊢
    obtain ⟨rfl, rfl⟩ := hp
    exact ⟨by rw [get_trunc, if_pos (by omega)], rfl⟩
  | unreachable => simp [hs] at hp
  | pred p =>
    simp only [hs, Except.ok.injEq] at hp ⊢
    rw [trunc_iterCount]
    obtain ⟨rfl, rfl⟩ : v = (peekPred c p (b.iterCount c k) b).1 ∧ b' = (peekPred c p (b.iterCount c k) b).2 := by
      rw [hp]; exact ⟨rfl, rfl⟩
    unfold peekPred
    rw [get_trunc, if_pos (by omega)]
    cases hg : b.slc[b.index]? with
    | none => rfl
    | some x =>
      simp only
      by_cases hsx : c.isSep x = true
      · simp only [hsx, if_true, trunc_slc, trunc_index]
        rw [PNTotal.drop_of_get hg] at hfar
        simp only [countSeps, hsx, if_true] at hfar
        obtain ⟨e1, e2⟩ := nextc_take c b.slc b.index n (by omega)
        have hn : nbr c (b.slc.take n) b.index = nbr c b.slc b.index := by
          simp only [nbr]
          rw [getPrev_take _ _ _ (by omega), take_get_lt _ _ _ (by omega), prevcByte_take c _ _ _ (by omega), e2,
            if_pos (by omega)]
        rw [hn, e1]
        split
        · have hlt : (if p.consecutive = true then b.index + 1 + countSeps c (List.drop (b.index + 1) b.slc)
              else b.index + 1) < n := by split <;> omega
          rw [take_get_lt _ _ _ hlt]
          rfl
        · rfl
      · simp only [hsx, Bool.false_eq_true, if_false]

/-- the run of separators in front of a non-separator byte -/
theorem countSeps_eq_of (c : Cfg) (l : List Nat) : ∀ k x, (∀ j, j < k → ∃ y, l[j]? = some y ∧ c.isSep y = true) →
    l[k]? = some x → c.isSep x = false → countSeps c l = k := by
  induction l with
  | nil => intro k x _ h; simp at h
  | cons y ys ih =>
    intro k x hall hx hsx
    cases k with
    | zero =>
      simp only [List.getElem?_cons_zero, Option.some.injEq] at hx
      subst hx
      simp [countSeps, hsx]
    | succ k2 =>
      obtain ⟨y0, hy0, hsy⟩ := hall 0 (by omega)
      simp only [List.getElem?_cons_zero, Option.some.injEq] at hy0
      subst hy0
      simp only [countSeps, hsy, if_true]
      rw [ih k2 x (fun j hj => by simpa using hall (j + 1) (by omega)) (by simpa using hx) hsx]

section
variable {c : Cfg} {o : POpts} (H : SepCfg c o)
include H

/-- `parse_number` fails on a buffer whose first non-separator byte is neither a mantissa digit nor the decimal point -/
theorem parseNumber_not_ok_of_head (p : Bool) (B : Bytes) (neg fv : Bool) (x : Nat) (hv : Bytes.Valid B)
    (hx : B.slc[B.index + countSeps c (B.slc.drop B.index)]? = some x)
    (hxd : charToDigit x c.mantissaRadix = none) (hxdp : x ≠ o.dp) (hm : c.requiredMantissaDigits = true)
    (r : Number × Nat) : parseNumber c p o B neg fv ≠ .ok r := by
  intro h
  -- every byte from the cursor up to and including that byte is no digit and not the decimal point
  have hrun : ∀ j, B.index ≤ j → j ≤ B.index + countSeps c (B.slc.drop B.index) →
      ∃ w, B.slc[j]? = some w ∧ charToDigit w c.mantissaRadix = none ∧ w ≠ o.dp := by
    intro j h1 h2
    by_cases hj : j = B.index + countSeps c (B.slc.drop B.index)
    · rw [hj]; exact ⟨x, hx, hxd, hxdp⟩
    · obtain ⟨w, hw, hsw⟩ := countSeps_get_sep c (B.slc.drop B.index) (j - B.index) (by omega)
      rw [List.getElem?_drop, show B.index + (j - B.index) = j by omega] at hw
      refine ⟨w, hw, H.sepM w hsw, ?_⟩
      intro e; subst e; rw [H.dpSep] at hsw; cases hsw
  rw [parseNumber_gr H.rel] at h
  cases hi : integerPhase c B with
  | error e => simp [hi] at h
  | ok ip =>
    obtain ⟨⟨s1, s2, s3, s4, s5⟩, ⟨m, b1, ds, h8, hdg⟩, i4, i5, i6, i7, i8, i9, i10⟩ := integerPhase_truncS H B ip hv hi
    -- the base-prefix phase reads no `'0'`: it stays inside the run
    have hst : ip.start.index ≤ B.index + countSeps c (B.slc.drop B.index) := by
      cases hp0 : peek c .integer B with
      | error e => exact absurd ((LexVerif.Props.C12.peek_error_iff c .integer B).mp ⟨e, hp0⟩) (H.rel.hs .integer)
      | ok pr0 =>
        obtain ⟨v0, b0⟩ := pr0
        obtain ⟨t1, t2, t3, t4⟩ := peek_at c .integer B b0 v0 hv hp0
        have hle0 := peek_le_firstNonSep c .integer B b0 v0 hp0
        obtain ⟨w, hw, hwd, _⟩ := hrun b0.index t3 hle0
        have hv48 : v0 ≠ some 48 := by
          rw [t2, hw]
          intro e
          simp only [Option.some.injEq] at e
          subst e
          rw [charToDigit_48 _ H.radix] at hwd; cases hwd
        have := prefixPhase_miss H B b0 v0 hp0 hv48
        rw [s5] at this
        simp only [Except.ok.injEq, Prod.mk.injEq] at this
        rw [this.2]
        split <;> omega
    obtain ⟨w0, hw0, hw0d, _⟩ := hrun ip.start.index s2 hst
    rw [← s1] at hw0
    have e1 : b1 = ip.start := parse8Digits_stuck .integer ip.start b1 0 m w0 hw0 hw0d H.rad h8
    subst e1
    unfold parseDigits at hdg
    rw [parseDigitsLoop] at hdg
    cases hp : peek c .integer ip.start with
    | error e => simp [hp, bind, Except.bind] at hdg
    | ok pr =>
      obtain ⟨v, b2⟩ := pr
      obtain ⟨p1, p2, p3, p4⟩ := peek_at c .integer ip.start b2 v s3 hp
      have hle := peek_le_firstNonSep c .integer ip.start b2 v hp
      have hcd := countSeps_drop c (B.slc.drop B.index) (ip.start.index - B.index) (by omega)
      rw [List.drop_drop, show B.index + (ip.start.index - B.index) = ip.start.index by omega] at hcd
      rw [s1] at hle
      obtain ⟨w, hw, hwd, hwdp⟩ := hrun b2.index (by omega) (by omega)
      rw [← s1, ← p2] at hw
      subst hw
      simp only [hp, bind, Except.bind, pure, Except.pure, hwd, Except.ok.injEq, Prod.mk.injEq] at hdg
      have e2 : ip.byte = b2 := hdg.2.symm
      have hcc : ip.byte.currentCount c = ip.start.currentCount c := by
        rw [e2, p1]; unfold Bytes.currentCount Bytes.at; simp only [H.bytes, Bool.false_eq_true, if_false]
      simp only [hi] at h
      cases hfr : fractionPhase c o ip.byte ip.mantissa with
      | error e => simp [hfr] at h
      | ok fp =>
        obtain ⟨f1, f2, f3, f4, f5, f6, f7⟩ := fractionPhase_truncS H ip.byte ip.mantissa fp i6 hfr
        have hndp : ¬ ip.byte.firstIsCased o.dp = true := by
          rw [e2]
          have hs2 : b2.slc = ip.start.slc := by rw [p1]; rfl
          simp only [Bytes.firstIsCased, Bytes.first, hs2, ← p2, beq_iff_eq, Option.some.injEq]
          exact hwdp
        obtain ⟨g1, g2, g3⟩ := f6 hndp
        simp only [hfr] at h
        have hz : ip.nDigits + fp.nAfterDot = 0 := by rw [g2, i7, hcc]; omega
        rw [if_pos (by simp [hm, hz])] at h
        exact emptyBranch_errS H.rel p o ip fp _ h

/-- `is_consumed` of the integer iterator on a buffer cut behind the first non-separator byte -/
theorem isConsumed_trunc_far (b0 b : Bytes) (h : isConsumed c .integer b0 = .ok (false, b)) (n : Nat)
    (hfar : b0.index + countSeps c (b0.slc.drop b0.index) < n) :
    isConsumed c .integer (trunc n b0) = .ok (false, trunc n b) := by
  unfold isConsumed at h ⊢
  simp only [H.fmt, Bool.not_true, Bool.false_eq_true, if_false, bind, Except.bind, pure, Except.pure] at h ⊢
  cases hp : peek c .integer b0 with
  | error e => simp [hp] at h
  | ok pr =>
    obtain ⟨v, b1⟩ := pr
    simp only [hp, Except.ok.injEq, Prod.mk.injEq] at h
    obtain ⟨hvn, rfl⟩ := h
    rw [peek_trunc_far c .integer b0 b1 v hp n hfar]
    simp only [hvn]

end

/-! ## composition: special-value results -/

theorem spCmp_match (c : Cfg) (x y : Nat) (h : spCmp c x y = true) : Nat.xor x y = 0 ∨ Nat.xor x y = 32 := by
  unfold spCmp at h
  split at h
  · have : x = y := by simpa using h
    subst this
    left
    show x ^^^ x = 0
    exact Nat.xor_self x
  · simp only [ne_eq, Bool.not_eq_true', Bool.and_eq_false_iff, Bool.not_eq_false', decide_eq_false_iff_not,
      Decidable.not_not, decide_eq_true_eq] at h
    exact h

/-- a match of a non-empty special string: the byte the special iterator first returns matches the head, and is consumed -/
theorem spEq_head (c : Cfg) (b : Bytes) (y : Nat) (ys : List Nat) (h : spEq c b (y :: ys) ≠ 0) :
    ∃ x, b.slc[spIdx c b]? = some x ∧ spCmp c x y = true ∧ spIdx c b + 1 ≤ spEq c b (y :: ys) := by
  unfold spEq at h ⊢
  cases hh : (swG c (spCmp c) (y :: ys) b).1 with
  | false => simp [hh] at h
  | true =>
    simp only [if_true]
    have hge := spIdx_ge c (swG c (spCmp c) (y :: ys) b).2
    unfold swG at hh hge ⊢
    cases hx : b.slc[spIdx c b]? with
    | none => simp [hx] at hh
    | some x =>
      simp only [hx] at hh hge ⊢
      by_cases he : spCmp c x y = true
      · simp only [he, if_true] at hh hge ⊢
        have h2 := (swG_hit c (spCmp c) ys _ hh).2.1
        simp only [at_index] at h2
        exact ⟨x, rfl, he, by omega⟩
      · simp [he] at hh

/-- every special string of the options is non-empty and no byte that matches its head (in either case) is the separator -/
def SpecialHeadsNoSep (c : Cfg) (o : POpts) : Prop :=
  ∀ str, (o.nan = some str ∨ o.inf = some str ∨ o.infinity = some str) →
    ∀ y ys, str = y :: ys → ∀ x, (Nat.xor x y = 0 ∨ Nat.xor x y = 32) → c.isSep x = false

section
variable {c : Cfg} {o : POpts} (H : SepCfg c o)
include H

/-- the front end on a buffer cut behind the first non-separator byte after the sign -/
theorem afterSign_trunc_far (s : List Nat) (neg : Bool) (b : Bytes) (h : afterSign c s = .ok (neg, false, b)) (n : Nat)
    (hfar : b.index + countSeps c (b.slc.drop b.index) < n) :
    afterSign c (s.take n) = .ok (neg, false, trunc n b) := by
  unfold afterSign at h ⊢
  simp only [bind, Except.bind, pure, Except.pure] at h ⊢
  cases hs : parseMantissaSign c (Bytes.new s) with
  | error e => rw [hs] at h; cases h
  | ok pr =>
    obtain ⟨n0, b0⟩ := pr
    rw [hs] at h
    simp only at h
    cases hc : isConsumed c .integer b0 with
    | error e => rw [hc] at h; cases h
    | ok pr2 =>
      obtain ⟨cs, b1⟩ := pr2
      rw [hc] at h
      simp only [Except.ok.injEq, Prod.mk.injEq] at h
      obtain ⟨rfl, rfl, rfl⟩ := h
      have hv0 : Bytes.Valid (Bytes.new s) := by simp [Bytes.Valid, Bytes.new]
      obtain ⟨_, a2, a3, a4⟩ := parseSign_trunc_r H.rel _ _ _ _ (Bytes.new s) b0 n0 hv0 hs
      obtain ⟨c1, c2, c3, _⟩ := isConsumed_ok c .integer b0 b1 false a3 hc
      -- the first non-separator byte seen from `b0` is the one seen from `b1`
      have hpk : ∃ v, peek c .integer b0 = .ok (v, b1) := by
        unfold isConsumed at hc
        simp only [H.fmt, Bool.not_true, Bool.false_eq_true, if_false, bind, Except.bind, pure, Except.pure] at hc
        cases hp : peek c .integer b0 with
        | error e => simp [hp] at hc
        | ok pr3 =>
          obtain ⟨v, b2⟩ := pr3
          simp only [hp, Except.ok.injEq, Prod.mk.injEq] at hc
          exact ⟨v, by rw [hc.2]⟩
      obtain ⟨v, hp⟩ := hpk
      have hle := peek_le_firstNonSep c .integer b0 b1 v hp
      have hcd := countSeps_drop c (b0.slc.drop b0.index) (b1.index - b0.index) (by omega)
      rw [List.drop_drop, show b0.index + (b1.index - b0.index) = b1.index by omega] at hcd
      rw [c1] at hfar
      have hfar0 : b0.index + countSeps c (b0.slc.drop b0.index) < n := by omega
      have := a4 n (by omega)
      have e : trunc n (Bytes.new s) = Bytes.new (s.take n) := rfl
      rw [e] at this
      unfold parseMantissaSign at hs ⊢
      rw [this]
      simp only
      rw [isConsumed_trunc_far H b0 b1 hc n hfar0]

/-- **`partial_prefix`, special-value results, formats with a digit-separator byte** -/
theorem partial_prefix_sep_special_g (s : List Nat) (fv : Bool) (sp : Special) (ng : Bool) (cnt : Nat)
    (hm : c.requiredMantissaDigits = true) (hh : SpecialHeadsOK c o) (hhs : SpecialHeadsNoSep c o)
    (h : parseFloatSyntax c o true s fv = .ok (.special sp ng cnt)) :
    parseFloatSyntax c o false (s.take cnt) fv = .ok (.special sp ng cnt) := by
  rw [parseFloatSyntax_eq] at h ⊢
  cases ha : afterSign c s with
  | error e => rw [ha] at h; cases h
  | ok pr =>
    obtain ⟨neg, consumed, b⟩ := pr
    rw [ha] at h
    simp only at h
    cases consumed with
    | true => simp only [if_true] at h; split at h <;> cases h
    | false =>
      simp only [Bool.false_eq_true, if_false] at h
      obtain ⟨hslc, hv, _⟩ := afterSign_ok c s neg false b ha
      obtain ⟨rfl, hps⟩ := tail_partial_special o s fv neg b sp ng cnt h
      obtain ⟨str, hstr, _, heq, hn0⟩ := parsePositiveSpecial_some o b sp cnt hps
      obtain ⟨y, ys, rfl, hnd⟩ := hh str hstr
      rw [isSpecialEq_closed] at heq
      simp only [Except.ok.injEq] at heq
      subst heq
      obtain ⟨x, hx, hcmp, hlt⟩ := spEq_head c b y ys hn0
      have hxy := spCmp_match c x y hcmp
      obtain ⟨hxd, hxdp⟩ := hnd x hxy
      have hxs := hhs _ hstr y ys rfl x hxy
      -- the first non-separator byte after the cursor is that byte
      have hq : b.index + countSeps c (b.slc.drop b.index) = spIdx c b := by
        unfold spIdx at hx ⊢
        split
        · rfl
        · next hns =>
          rw [if_neg hns] at hx
          rw [PNTotal.drop_of_get hx]
          simp [countSeps, hxs]
      have hidx := spIdx_ge c b
      obtain ⟨hle, hpt⟩ := parsePositiveSpecial_truncS o b sp _ hv (by omega) hps
      rw [afterSign_trunc_far H s ng b ha _ (by omega)]
      simp only [Bool.false_eq_true, if_false]
      have hvt : Bytes.Valid (trunc (spEq c b (y :: ys)) b) := trunc_valid H.rel _ b hv (by omega)
      have hxt : (trunc (spEq c b (y :: ys)) b).slc[(trunc (spEq c b (y :: ys)) b).index +
          countSeps c ((trunc (spEq c b (y :: ys)) b).slc.drop (trunc (spEq c b (y :: ys)) b).index)]? = some x := by
        simp only [trunc_slc, trunc_index]
        rw [List.drop_take, countSeps_take_min, show min (countSeps c (List.drop b.index b.slc))
          (spEq c b (y :: ys) - b.index) = countSeps c (List.drop b.index b.slc) by omega, hq,
          take_get_lt _ _ _ (by omega)]
        exact hx
      have hnot := parseNumber_not_ok_of_head H false _ ng fv x hvt hxt hxd hxdp hm
      have htot := PNTotal.parseNumber_tot H.rel false o (trunc (spEq c b (y :: ys)) b) ng fv hvt
      have hlen : (trunc (spEq c b (y :: ys)) b).slc.length = spEq c b (y :: ys) := by
        simp only [trunc_slc, List.length_take]; omega
      have hlen2 : (s.take (spEq c b (y :: ys))).length = spEq c b (y :: ys) := by
        rw [← hslc]; simp only [List.length_take]; omega
      unfold tail
      simp only [Bool.false_eq_true, if_false]
      rw [parseCompleteNumber_eq, parseSpecialComplete_eq, hpt]
      cases hpn : parseNumber c false o (trunc (spEq c b (y :: ys)) b) ng fv with
      | ok r => exact absurd hpn (hnot r)
      | error e =>
        rw [hpn] at htot
        cases e with
        | err k i => simp only [hlen, if_true, hlen2, pure, Except.pure]
        | panic t => exact absurd htot (by simp [PNTotal.NumOK, PNTotal.ErrOK])
        | fault t => exact absurd htot (by simp [PNTotal.NumOK, PNTotal.ErrOK])

end

/-! ## the heads of valid special strings -/

/-- `OptionsBuilder::build` only accepts special strings that start with `N`/`n` (NaN) resp. `I`/`i` (inf, infinity) -/
theorem special_head_cases (o : POpts) (hopt : optionsError o = none) (str : List Nat)
    (hstr : o.nan = some str ∨ o.inf = some str ∨ o.infinity = some str) :
    ∃ y ys, str = y :: ys ∧ (y = 73 ∨ y = 105 ∨ y = 78 ∨ y = 110) := by
  have hhead : ∀ (st : List Nat) (a b : Nat), (a = 73 ∧ b = 105) ∨ (a = 78 ∧ b = 110) →
      (st.isEmpty || !(st.head? = some a || st.head? = some b)) = false →
      ∃ y ys, st = y :: ys ∧ (y = 73 ∨ y = 105 ∨ y = 78 ∨ y = 110) := by
    intro st a b hab hs
    cases st with
    | nil => simp at hs
    | cons y ys =>
      refine ⟨y, ys, rfl, ?_⟩
      simp only [List.isEmpty_cons, List.head?_cons, Option.some.injEq, Bool.false_or, Bool.not_eq_false',
        Bool.or_eq_true, decide_eq_true_eq] at hs
      rcases hab with ⟨rfl, rfl⟩ | ⟨rfl, rfl⟩ <;> rcases hs with rfl | rfl <;> simp
  unfold optionsError at hopt
  simp only at hopt
  split at hopt
  · cases hopt
  split at hopt
  · cases hopt
  split at hopt
  · cases hopt
  · next hnan =>
    split at hopt
    · cases hopt
    · split at hopt
      · cases hopt
      · next hinf =>
        rcases hstr with h | h | h
        · rw [h] at hnan
          simp only at hnan
          by_cases hc : (str.isEmpty || !(decide (str.head? = some 78) || decide (str.head? = some 110))) = true
          · rw [if_pos hc] at hnan; cases hnan
          · exact hhead str 78 110 (Or.inr ⟨rfl, rfl⟩) (by simpa using hc)
        · rw [h] at hinf
          simp only at hinf
          by_cases hc : (str.isEmpty || !(decide (str.head? = some 73) || decide (str.head? = some 105))) = true
          · rw [if_pos hc] at hinf; cases hinf
          · exact hhead str 73 105 (Or.inl ⟨rfl, rfl⟩) (by simpa using hc)
        · rw [h] at hopt
          simp only at hopt
          split at hopt
          · cases hopt
          · next hinfy =>
            by_cases hc : (str.isEmpty || !(decide (str.head? = some 73) || decide (str.head? = some 105))) = true
            · rw [if_pos hc] at hinfy; cases hinfy
            · exact hhead str 73 105 (Or.inl ⟨rfl, rfl⟩) (by simpa using hc)

theorem xor_head_cases (x y : Nat) (hy : y = 73 ∨ y = 105 ∨ y = 78 ∨ y = 110)
    (h : Nat.xor x y = 0 ∨ Nat.xor x y = 32) : x = 73 ∨ x = 105 ∨ x = 78 ∨ x = 110 := by
  have hc : Nat.xor (Nat.xor x y) y = x := by
    show (x ^^^ y) ^^^ y = x
    rw [Nat.xor_assoc, Nat.xor_self, Nat.xor_zero]
  rcases h with h | h <;> rw [h] at hc <;> rcases hy with rfl | rfl | rfl | rfl <;> subst hc <;> decide

/-- valid options and a separator that is none of `I i N n` -/
theorem specialHeadsNoSep_of_valid (c : Cfg) (o : POpts) (hopt : optionsError o = none)
    (hs : c.digitSeparator ≠ 73 ∧ c.digitSeparator ≠ 105 ∧ c.digitSeparator ≠ 78 ∧ c.digitSeparator ≠ 110) :
    SpecialHeadsNoSep c o := by
  intro str hstr y ys hy x hx
  obtain ⟨y2, ys2, e, hy2⟩ := special_head_cases o hopt str hstr
  rw [hy] at e
  simp only [List.cons.injEq] at e
  obtain ⟨rfl, _⟩ := e
  have hxc := xor_head_cases x y hy2 hx
  cases hsx : c.isSep x with
  | false => rfl
  | true =>
    have := isSep_eq c x hsx
    omega

end LexVerif.Proof.C11
