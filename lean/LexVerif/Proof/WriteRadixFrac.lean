import LexVerif.Proof.WriteRadixTermInt
/-!
# Proof.WriteRadixFrac — every digit the (repaired) fraction loop leaves in the buffer is below the radix

* `predOne_table_f64/f32` (kernel-evaluated, 29 generic radices each): the largest float below 1 times the base rounds
  to a float strictly below the base. With monotonicity of rounding: `fraction < 1 ⇒ round(fraction · base) < base`,
  so `digit = ⌊·⌋ ≤ radix - 1` — `fraction.as_u32()` never yields `radix` (`fracDigit_lt`).
* `backtrace_digitBytes`: the repaired back-trace (`carryFix = true`) only writes `digit + 1 < radix`.
* `generate_digitBytes`: all integer and fraction bytes of the scratch buffer are digits of the radix.
* `effFmt_exponentRadix`: clearing the syntax flags keeps the radix fields.
-/
namespace LexVerif.Proof.WriteRadixFrac
open LexVerif.Spec LexVerif.Model LexVerif.Proof.RoundNE LexVerif.Proof.WriteRadixF LexVerif.Proof.WriteRadixTerm
open LexVerif.Proof.WriteRadixWF LexVerif.Proof.WriteRadixInteger
open LexVerif.Model.WriteRadix
open LexVerif.Model.WriteInt (Res)

/-- the radices handled by radix.rs: 3..36 without the powers of two and ten -/
def genericRadices : List Nat :=
  [3, 5, 6, 7, 9, 11, 12, 13, 14, 15, 17, 18, 19, 20, 21, 22, 23, 24, 25, 26, 27, 28, 29, 30, 31, 33, 34, 35, 36]

theorem mem_genericRadices {r : Nat} (h1 : 3 ≤ r) (h2 : r ≤ 36)
    (h : r ≠ 4 ∧ r ≠ 8 ∧ r ≠ 10 ∧ r ≠ 16 ∧ r ≠ 32) : r ∈ genericRadices := by
  unfold genericRadices
  simp only [List.mem_cons, List.mem_nil_iff, or_false]
  omega

/-- `(1 - ulp/2) · base` rounds strictly below `base` -/
def PredOne (f : Fmt) (r : Nat) : Prop := fmul f (one f - 1) (ofNat f r) < ofNat f r

instance (f : Fmt) (r : Nat) : Decidable (PredOne f r) := by unfold PredOne; infer_instance

theorem predOne_table_f32 : ∀ r ∈ genericRadices, PredOne f32 r := by decide +kernel
theorem predOne_table_f64 : ∀ r ∈ genericRadices, PredOne f64 r := by decide +kernel

/-- the digit of one fraction-loop iteration is below the radix -/
theorem fracDigit_lt {f : Fmt} (h : FOK f) {r : Nat} (hr36 : r ≤ 36) (hrp : r < 2 * 2 ^ (f.p - 1))
    (hpo : PredOne f r) {x : Nat} (hx : x < one f) : asU32 f (fmul f x (ofNat f r)) < r := by
  obtain ⟨hd, _, _, _⟩ := frac_step h hr36 hrp (Nat.le_of_lt hx)
  have hle : fmul f x (ofNat f r) ≤ fmul f (one f - 1) (ofNat f r) :=
    fmul_mono h.wf (by omega) (Nat.le_refl _)
  have hlt : fmul f x (ofNat f r) < ofNat f r := Nat.lt_of_le_of_lt hle hpo
  have hv := ival_strictMono f hlt
  rw [(ofNat_ival h hrp).1] at hv
  rw [hd]
  exact (Nat.div_lt_iff_lt_mul (unit_pos f)).mpr hv

theorem backtrace_digitBytes {r : Nat} (hr36 : r ≤ 36) : ∀ (acc g : List Nat),
    (∀ c ∈ acc, DigitByte r c) → ∀ c ∈ (backtrace true r acc g).1, DigitByte r c
  | [], g, _ => by simp [backtrace]
  | c :: rest, g, hacc => by
    have hrest : ∀ c ∈ rest, DigitByte r c := fun c hc => hacc c (by simp [hc])
    unfold backtrace
    split
    · rename_i d _
      split
      · rename_i hd
        have hd' : d + 1 < r := by simpa using hd
        intro c hc
        rcases List.mem_cons.mp hc with rfl | hc
        · exact ⟨d + 1, hd', digitToCharConst_eq hd' hr36⟩
        · exact hrest c hc
      · exact backtrace_digitBytes hr36 rest _ hrest
    · exact backtrace_digitBytes hr36 rest _ hrest

theorem fracLoop_digitBytes {f : Fmt} (h : FOK f) {r : Nat} (hr36 : r ≤ 36) (hrp : r < 2 * 2 ^ (f.p - 1))
    (hpo : PredOne f r) : ∀ (fuel fraction delta : Nat) (acc : List Nat) (x : List Nat × List Nat × Bool),
      fraction < one f → (∀ c ∈ acc, DigitByte r c) →
      fracLoop true f r (ofNat f r) fuel fraction delta acc = .ok x → ∀ c ∈ x.1, DigitByte r c
  | 0, _, _, _, _, _, _, hx => by simp [fracLoop] at hx
  | fuel + 1, fraction, delta, acc, x, hfr, hacc, hx => by
    have hd := fracDigit_lt h hr36 hrp hpo hfr
    obtain ⟨_, _, _, hlt⟩ := frac_step h hr36 hrp (Nat.le_of_lt hfr)
    have hacc' : ∀ c ∈ digitToCharConst (asU32 f (fmul f fraction (ofNat f r))) r :: acc, DigitByte r c := by
      intro c hc
      rcases List.mem_cons.mp hc with rfl | hc
      · exact ⟨_, hd, digitToCharConst_eq hd hr36⟩
      · exact hacc c hc
    unfold fracLoop at hx
    dsimp only at hx
    split at hx
    · simp only [Res.ok.injEq] at hx
      subst hx
      exact backtrace_digitBytes hr36 _ _ hacc'
    · split at hx
      · simp only [Res.ok.injEq] at hx
        subst hx
        exact hacc'
      · exact fracLoop_digitBytes h hr36 hrp hpo fuel _ _ _ x hlt hacc' hx

/-- **all bytes of the scratch buffer between the cursors are digits of the radix** (repaired back-trace) -/
theorem generate_digitBytes {f : Fmt} (h : FOK f) {r : Nat} (hr0 : 0 < r) (hr36 : r ≤ 36)
    (hrp : r < 2 * 2 ^ (f.p - 1)) (hpo : PredOne f r) {bits : Nat} (hb : bits < f.infBits) {g : Gen}
    (hg : generate true f r bits = .ok g) : (∀ c ∈ g.ints ++ g.fracs, DigitByte r c) ∧ g.ints ≠ [] := by
  unfold generate at hg
  cases hfr : genFraction true f r bits with
  | ok fr =>
    rw [hfr] at hg
    simp only [Res.bind] at hg
    cases hi : genInteger f r (if fr.2.2 = true then fadd f (ffloor f bits) (one f) else ffloor f bits) with
    | ok ints =>
      rw [hi] at hg
      simp only [Res.ok.injEq] at hg
      subst hg
      obtain ⟨hints, hne⟩ := genInteger_digitBytes h hr0 hr36 hrp _ hi
      refine ⟨?_, hne⟩
      intro c hc
      rcases List.mem_append.mp hc with hc | hc
      · exact hints c hc
      · -- fraction bytes
        unfold genFraction at hfr
        dsimp only at hfr
        split at hfr
        · cases hl : fracLoop true f r (ofNat f r) halfSize (fsub f bits (ffloor f bits)) (deltaOf f bits) [] with
          | ok x =>
            rw [hl] at hfr
            simp only [Res.bind, Res.ok.injEq] at hfr
            subst hfr
            have hfrac : fsub f bits (ffloor f bits) < one f := by
              rw [lt_one_iff h, fsub_ffloor_exact h.wf hb]; exact Nat.mod_lt _ (unit_pos f)
            have := fracLoop_digitBytes h hr36 hrp hpo halfSize _ _ [] x hfrac (by simp) hl
            exact this c (List.mem_reverse.mp hc)
          | fault => rw [hl] at hfr; simp [Res.bind] at hfr
          | panic => rw [hl] at hfr; simp [Res.bind] at hfr
        · simp only [Res.ok.injEq] at hfr
          subst hfr
          simp at hc
    | fault => rw [hi] at hg; simp at hg
    | panic => rw [hi] at hg; simp at hg
  | fault => rw [hfr] at hg; simp [Res.bind] at hg
  | panic => rw [hfr] at hg; simp [Res.bind] at hg

/-- the integer part alone (any back-trace): used by the conditional theorem for the snapshot code -/
theorem generate_ints {cf : Bool} {f : Fmt} (h : FOK f) {r : Nat} (hr0 : 0 < r) (hr36 : r ≤ 36)
    (hrp : r < 2 * 2 ^ (f.p - 1)) {bits : Nat} {g : Gen} (hg : generate cf f r bits = .ok g) :
    (∀ c ∈ g.ints, DigitByte r c) ∧ g.ints ≠ [] := by
  unfold generate at hg
  cases hfr : genFraction cf f r bits with
  | ok fr =>
    rw [hfr] at hg
    simp only [Res.bind] at hg
    cases hi : genInteger f r (if fr.2.2 = true then fadd f (ffloor f bits) (one f) else ffloor f bits) with
    | ok ints =>
      rw [hi] at hg
      simp only [Res.ok.injEq] at hg
      subst hg
      exact genInteger_digitBytes h hr0 hr36 hrp _ hi
    | fault => rw [hi] at hg; simp at hg
    | panic => rw [hi] at hg; simp at hg
  | fault => rw [hfr] at hg; simp [Res.bind] at hg
  | panic => rw [hfr] at hg; simp [Res.bind] at hg

/-! ## `effFmt` keeps the radix fields -/

theorem effFmt_byteAt (feats : Features) (fmt : Format) {s : Nat} (hs : 64 ≤ s) :
    (WriteFloat.effFmt feats fmt).byteAt s = fmt.byteAt s := by
  unfold WriteFloat.effFmt
  split
  · rfl
  · unfold Format.byteAt
    dsimp only
    have e1 : fmt.raw - fmt.raw % 2 ^ 64 = 2 ^ 64 * (fmt.raw / 2 ^ 64) := by
      have := Nat.div_add_mod fmt.raw (2 ^ 64); omega
    have e2 : (2 : Nat) ^ s = 2 ^ 64 * 2 ^ (s - 64) := by
      rw [← Nat.pow_add]; congr 1; omega
    rw [e1, e2, Nat.mul_div_mul_left _ _ (Nat.two_pow_pos 64), Nat.div_div_eq_div_mul]

theorem effFmt_exponentRadix (feats : Features) (fmt : Format) :
    (WriteFloat.effFmt feats fmt).exponentRadix = fmt.exponentRadix := by
  unfold Format.exponentRadix Format.exponentRadixRaw Format.mantissaRadix
  rw [effFmt_byteAt feats fmt (by decide), effFmt_byteAt feats fmt (by decide)]

end LexVerif.Proof.WriteRadixFrac
