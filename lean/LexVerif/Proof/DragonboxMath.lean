import Mathlib.Tactic.Ring
import Mathlib.Tactic.Linarith

/-!
# Dragonbox, normal case: the pure `Nat` arithmetic

`x = a / b = 2^(e-1)·10^k` is a positive rational with `T ≤ 2x < 10T`, `T = 10^κ ∈ {10, 100}`,
`B = 10·T`.  The scaled rounding interval is `[X, Z] = [(2q−1)x, (2q+1)x]`, centre `Y = 2q·x`,
length `δ = 2x`.  All comparisons are multiplied through by `b`.
-/

namespace LexVerif.Proof.DragonboxMath

structure Setup (a b T q : Nat) : Prop where
  ha : 0 < a
  hb : 0 < b
  hT : T = 10 ∨ T = 100
  hlo : T * b ≤ 2 * a
  hhi : 2 * a < 10 * T * b
  hq : 1 ≤ q

/-- `D·T` is a nearest multiple of `T` to the centre `Y = 2q·a/b`:  `2·|D·T − Y| ≤ T`
(both truncated differences) -/
def Close (a b T q D : Nat) : Prop :=
  2 * (D * T * b - 2 * q * a) ≤ T * b ∧ 2 * (2 * q * a - D * T * b) ≤ T * b

/-! ## generic helpers -/

theorem div_lo (n b : Nat) : n / b * b ≤ n := Nat.div_mul_le_self n b

theorem div_hi (n : Nat) {b : Nat} (hb : 0 < b) : n < n / b * b + b := by
  have h1 := Nat.div_add_mod n b
  have h2 := Nat.mod_lt n hb
  have h3 : b * (n / b) = n / b * b := Nat.mul_comm _ _
  omega

theorem div_mul_eq_iff_dvd (n b : Nat) : n / b * b = n ↔ b ∣ n :=
  ⟨fun h => ⟨n / b, by rw [Nat.mul_comm]; exact h.symm⟩, fun h => Nat.div_mul_cancel h⟩

/-- the three numerators `X·b`, `Y·b`, `Z·b` are `a` apart -/
theorem nums {a q : Nat} (hq : 1 ≤ q) :
    (2 * q - 1) * a + a = 2 * q * a ∧ 2 * q * a + a = (2 * q + 1) * a ∧ a ≤ (2 * q - 1) * a := by
  obtain ⟨k, rfl⟩ : ∃ k, q = k + 1 := ⟨q - 1, by omega⟩
  have e : 2 * (k + 1) - 1 = 2 * k + 1 := by omega
  rw [e]
  exact ⟨by ring, by ring, Nat.le_mul_of_pos_left a (by omega)⟩

variable {a b T q : Nat}

theorem delta_bounds (h : Setup a b T q) : T ≤ 2 * a / b ∧ 2 * a / b < 10 * T :=
  ⟨(Nat.le_div_iff_mul_le h.hb).2 h.hlo, (Nat.div_lt_iff_lt_mul h.hb).2 h.hhi⟩

theorem zi_bound (h : Setup a b T q) {p : Nat} (hq2 : q < 2 ^ p) :
    (2 * q + 1) * a / b < 2 ^ p * (10 * T) := by
  rw [Nat.div_lt_iff_lt_mul h.hb]
  have hhi := h.hhi
  have hT := h.hT
  have h1 : (2 * q + 1) * (2 * a) < (2 * q + 1) * (10 * T * b) :=
    Nat.mul_lt_mul_of_pos_left hhi (by omega)
  have h2 : (q + 1) * b ≤ 2 ^ p * b := Nat.mul_le_mul_right b hq2
  generalize 2 ^ p = N at *
  have e1 : (2 * q + 1) * (2 * a) = 4 * (q * a) + 2 * a := by ring
  have e2 : (2 * q + 1) * (10 * T * b) = (10 * T) * (2 * (q * b)) + (10 * T) * b := by ring
  have e3 : (q + 1) * b = q * b + b := by ring
  have e4 : (2 * q + 1) * a = 2 * (q * a) + a := by ring
  have e5 : N * (10 * T) * b = (10 * T) * (N * b) := by ring
  clear h
  rcases hT with rfl | rfl <;> omega

/-- every multiple of `B` other than `s·B` lies outside `[X, Z]` -/
theorem big_unique (h : Setup a b T q) (D : Nat) (hD : D ≠ (2 * q + 1) * a / b / (10 * T)) :
    D * (10 * T) * b < (2 * q - 1) * a ∨ (2 * q + 1) * a < D * (10 * T) * b := by
  obtain ⟨hX, hY, haX⟩ := nums (a := a) h.hq
  have hb := h.hb
  have hlo := h.hlo
  have hhi := h.hhi
  have hT := h.hT
  have hz1 := div_lo ((2 * q + 1) * a) b
  have hz2 := div_hi ((2 * q + 1) * a) hb
  clear h
  generalize (2 * q + 1) * a = Zn at *
  generalize (2 * q - 1) * a = Xn at *
  generalize 2 * q * a = Yn at *
  generalize Zn / b = zi at *
  have hsr := Nat.div_add_mod zi (10 * T)
  have hrB : zi % (10 * T) < 10 * T := Nat.mod_lt _ (by rcases hT with rfl | rfl <;> omega)
  generalize zi / (10 * T) = s at *
  generalize zi % (10 * T) = r at *
  subst hsr
  have e1 : (10 * T * s + r) * b = (10 * T) * (s * b) + r * b := by ring
  have e2 : D * (10 * T) * b = (10 * T) * (D * b) := by ring
  have m1 : (r + 1) * b ≤ (10 * T) * b := Nat.mul_le_mul_right b hrB
  have e3 : (r + 1) * b = r * b + b := by ring
  rw [e1] at hz1 hz2
  rw [e2]
  rcases Nat.lt_or_gt_of_ne hD with hlt | hgt
  · left
    have m2 : (D + 1) * b ≤ s * b := Nat.mul_le_mul_right b hlt
    have e4 : (D + 1) * b = D * b + b := by ring
    rcases hT with rfl | rfl <;> omega
  · right
    have m2 : (s + 1) * b ≤ D * b := Nat.mul_le_mul_right b hgt
    have e4 : (s + 1) * b = s * b + b := by ring
    rcases hT with rfl | rfl <;> omega

/-- `r < δi`: `s·B ∈ (X, Z]`, and it is the right endpoint iff `r = 0` and `Z` is an integer -/
theorem big_lt (h : Setup a b T q) (hr : (2 * q + 1) * a / b % (10 * T) < 2 * a / b) :
    1 ≤ (2 * q + 1) * a / b / (10 * T)
    ∧ (2 * q - 1) * a < (2 * q + 1) * a / b / (10 * T) * (10 * T) * b
    ∧ (2 * q + 1) * a / b / (10 * T) * (10 * T) * b ≤ (2 * q + 1) * a
    ∧ ((2 * q + 1) * a / b / (10 * T) * (10 * T) * b = (2 * q + 1) * a
        ↔ ((2 * q + 1) * a / b % (10 * T) = 0 ∧ b ∣ (2 * q + 1) * a)) := by
  obtain ⟨hX, hY, haX⟩ := nums (a := a) h.hq
  have hb := h.hb
  have hlo := h.hlo
  have hhi := h.hhi
  have hT := h.hT
  have hz1 := div_lo ((2 * q + 1) * a) b
  have hz2 := div_hi ((2 * q + 1) * a) hb
  have hzd := div_mul_eq_iff_dvd ((2 * q + 1) * a) b
  have hd1 := div_lo (2 * a) b
  have hd2 := div_hi (2 * a) hb
  clear h
  generalize (2 * q + 1) * a = Zn at *
  generalize (2 * q - 1) * a = Xn at *
  generalize 2 * q * a = Yn at *
  generalize Zn / b = zi at *
  generalize 2 * a / b = di at *
  have hsr := Nat.div_add_mod zi (10 * T)
  generalize zi / (10 * T) = s at *
  generalize zi % (10 * T) = r at *
  subst hsr
  have e1 : (10 * T * s + r) * b = (10 * T) * (s * b) + r * b := by ring
  have e2 : s * (10 * T) * b = (10 * T) * (s * b) := by ring
  have m1 : (r + 1) * b ≤ di * b := Nat.mul_le_mul_right b hr
  have e3 : (r + 1) * b = r * b + b := by ring
  rw [e1] at hz1 hz2 hzd
  rw [e2]
  have g2 : Xn < (10 * T) * (s * b) := by rcases hT with rfl | rfl <;> omega
  refine ⟨?_, g2, by omega, ?_, ?_⟩
  · refine Nat.pos_of_ne_zero ?_
    rintro rfl
    rw [Nat.zero_mul] at g2
    omega
  · intro he
    have hrb : r * b = 0 := by omega
    refine ⟨?_, hzd.1 (by omega)⟩
    rcases Nat.mul_eq_zero.1 hrb with h0 | h0
    · exact h0
    · omega
  · rintro ⟨h0, hdvd⟩
    have := hzd.2 hdvd
    have hrb : r * b = 0 := by rw [h0, Nat.zero_mul]
    omega

/-- `r > δi`: `s·B < X` -/
theorem big_gt (h : Setup a b T q) (hr : 2 * a / b < (2 * q + 1) * a / b % (10 * T)) :
    (2 * q + 1) * a / b / (10 * T) * (10 * T) * b < (2 * q - 1) * a := by
  obtain ⟨hX, hY, haX⟩ := nums (a := a) h.hq
  have hb := h.hb
  have hz1 := div_lo ((2 * q + 1) * a) b
  have hd2 := div_hi (2 * a) hb
  clear h
  generalize (2 * q + 1) * a = Zn at *
  generalize (2 * q - 1) * a = Xn at *
  generalize 2 * q * a = Yn at *
  generalize Zn / b = zi at *
  generalize 2 * a / b = di at *
  have hsr := Nat.div_add_mod zi (10 * T)
  generalize zi / (10 * T) = s at *
  generalize zi % (10 * T) = r at *
  subst hsr
  have e1 : (10 * T * s + r) * b = (10 * T) * (s * b) + r * b := by ring
  have e2 : s * (10 * T) * b = (10 * T) * (s * b) := by ring
  have m1 : (di + 1) * b ≤ r * b := Nat.mul_le_mul_right b hr
  have e3 : (di + 1) * b = di * b + b := by ring
  rw [e1] at hz1
  rw [e2]
  omega

/-- `r = δi`: `s·B = zi − δi ∈ {xi, xi + 1}`; decided by the parity of `xi` (as `s·B` is even) -/
theorem big_eq (h : Setup a b T q) (hr : (2 * q + 1) * a / b % (10 * T) = 2 * a / b) :
    1 ≤ (2 * q + 1) * a / b / (10 * T)
    ∧ (2 * q + 1) * a / b / (10 * T) * (10 * T) * b < (2 * q + 1) * a
    ∧ ((2 * q - 1) * a / b % 2 = 1 →
        (2 * q - 1) * a < (2 * q + 1) * a / b / (10 * T) * (10 * T) * b)
    ∧ ((2 * q - 1) * a / b % 2 = 0 →
        (2 * q + 1) * a / b / (10 * T) * (10 * T) * b ≤ (2 * q - 1) * a
        ∧ ((2 * q + 1) * a / b / (10 * T) * (10 * T) * b = (2 * q - 1) * a
            ↔ b ∣ (2 * q - 1) * a)) := by
  obtain ⟨hX, hY, haX⟩ := nums (a := a) h.hq
  have hb := h.hb
  have hlo := h.hlo
  have hhi := h.hhi
  have hT := h.hT
  have hz1 := div_lo ((2 * q + 1) * a) b
  have hz2 := div_hi ((2 * q + 1) * a) hb
  have hd1 := div_lo (2 * a) b
  have hd2 := div_hi (2 * a) hb
  have hx1 := div_lo ((2 * q - 1) * a) b
  have hx2 := div_hi ((2 * q - 1) * a) hb
  have hxd := div_mul_eq_iff_dvd ((2 * q - 1) * a) b
  clear h
  generalize (2 * q + 1) * a = Zn at *
  generalize (2 * q - 1) * a = Xn at *
  generalize 2 * q * a = Yn at *
  generalize Zn / b = zi at *
  generalize Xn / b = xi at *
  generalize 2 * a / b = di at *
  have hsr := Nat.div_add_mod zi (10 * T)
  generalize zi / (10 * T) = s at *
  generalize zi % (10 * T) = r at *
  subst hsr
  subst hr
  have e1 : (10 * T * s + r) * b = (10 * T) * (s * b) + r * b := by ring
  have e2 : s * (10 * T) * b = (10 * T) * (s * b) := by ring
  rw [e1] at hz1 hz2
  rw [e2]
  -- `s·B ∈ {xi, xi + 1}`
  have c1 : 10 * T * s < xi + 2 := by
    refine Nat.lt_of_mul_lt_mul_right (a := b) ?_
    have e4 : 10 * T * s * b = (10 * T) * (s * b) := by ring
    have e5 : (xi + 2) * b = xi * b + 2 * b := by ring
    omega
  have c2 : xi < 10 * T * s + 1 := by
    refine Nat.lt_of_mul_lt_mul_right (a := b) ?_
    have e4 : (10 * T * s + 1) * b = (10 * T) * (s * b) + b := by ring
    omega
  refine ⟨?_, by rcases hT with rfl | rfl <;> omega, ?_, ?_⟩
  · refine Nat.pos_of_ne_zero ?_
    rintro rfl
    rw [Nat.zero_mul] at hz2
    rcases hT with rfl | rfl <;> omega
  · intro hodd
    have c3 : xi + 1 ≤ 10 * T * s := by rcases hT with rfl | rfl <;> omega
    have m := Nat.mul_le_mul_right b c3
    have e4 : 10 * T * s * b = (10 * T) * (s * b) := by ring
    have e5 : (xi + 1) * b = xi * b + b := by ring
    omega
  · intro hev
    have c3 : 10 * T * s = xi := by rcases hT with rfl | rfl <;> omega
    have e4 : (10 * T) * (s * b) = xi * b := by rw [← c3]; ring
    rw [e4]
    exact ⟨hx1, hxd⟩

/-! ## the small-divisor step -/

/-- `D = ⌊(y + T/2)/T⌋` with `y = ⌊Y⌋` is a nearest multiple -/
theorem close_of_near {Y b T D y : Nat} (hT : T = 10 ∨ T = 100) (hy1 : y * b ≤ Y)
    (hy2 : Y < y * b + b) (h1 : D * T ≤ y + T / 2) (h2 : y + T / 2 + 1 ≤ D * T + T) :
    2 * (D * T * b - Y) ≤ T * b ∧ 2 * (Y - D * T * b) ≤ T * b := by
  have m1 := Nat.mul_le_mul_right b h1
  have m2 := Nat.mul_le_mul_right b h2
  have e1 : (y + T / 2) * b = y * b + T / 2 * b := by ring
  have e2 : (y + T / 2 + 1) * b = y * b + T / 2 * b + b := by ring
  have e3 : (D * T + T) * b = D * T * b + T * b := by ring
  rw [e1] at m1
  rw [e2, e3] at m2
  rcases hT with rfl | rfl <;> omega

/-- `Y` an integer exactly half-way between `D·T` and `(D+1)·T` -/
theorem close_of_half {Y b T D y : Nat} (hT : T = 10 ∨ T = 100) (hy : y * b = Y)
    (h1 : D * T + T / 2 = y) :
    2 * (D * T * b - Y) ≤ T * b ∧ 2 * (Y - D * T * b) ≤ T * b := by
  subst h1
  have e1 : (D * T + T / 2) * b = D * T * b + T / 2 * b := by ring
  rw [e1] at hy
  rcases hT with rfl | rfl <;> omega

/-- Step 3 (small divisor): entered with `zi = s'·B + r'`, `δi ≤ r' ≤ B` (`r' = B` after the
right endpoint was excluded) -/
theorem small_step (h : Setup a b T q) (s' r' : Nat)
    (hz : (2 * q + 1) * a / b = s' * (10 * T) + r')
    (h1 : 2 * a / b ≤ r') (h2 : r' ≤ 10 * T) :
    2 * a / b / 2 ≤ r'
    ∧ r' - 2 * a / b / 2 + T / 2 ≤ 10 * T
    ∧ ((r' - 2 * a / b / 2 + T / 2) % T ≠ 0 →
        Close a b T q (10 * s' + (r' - 2 * a / b / 2 + T / 2) / T))
    ∧ ((r' - 2 * a / b / 2 + T / 2) % T = 0 →
        2 * q * a / b % 2 ≠ ((r' - 2 * a / b / 2 + T / 2) + T / 2) % 2 →
          1 ≤ 10 * s' + (r' - 2 * a / b / 2 + T / 2) / T
          ∧ Close a b T q (10 * s' + (r' - 2 * a / b / 2 + T / 2) / T - 1))
    ∧ ((r' - 2 * a / b / 2 + T / 2) % T = 0 →
        2 * q * a / b % 2 = ((r' - 2 * a / b / 2 + T / 2) + T / 2) % 2 →
          Close a b T q (10 * s' + (r' - 2 * a / b / 2 + T / 2) / T)
          ∧ (b ∣ 2 * q * a → 1 ≤ 10 * s' + (r' - 2 * a / b / 2 + T / 2) / T
                ∧ Close a b T q (10 * s' + (r' - 2 * a / b / 2 + T / 2) / T - 1))) := by
  obtain ⟨hX, hY, haX⟩ := nums (a := a) h.hq
  obtain ⟨hdT, -⟩ := delta_bounds h
  have hb := h.hb
  have hT := h.hT
  have hz1 := div_lo ((2 * q + 1) * a) b
  have hz2 := div_hi ((2 * q + 1) * a) hb
  have hd1 := div_lo (2 * a) b
  have hd2 := div_hi (2 * a) hb
  have hy1 := div_lo (2 * q * a) b
  have hy2 := div_hi (2 * q * a) hb
  have hyd := div_mul_eq_iff_dvd (2 * q * a) b
  clear h
  unfold Close
  generalize (2 * q + 1) * a = Zn at *
  generalize (2 * q - 1) * a = Xn at *
  generalize 2 * q * a = Yn at *
  generalize Zn / b = zi at *
  generalize Yn / b = yi at *
  generalize 2 * a / b = di at *
  subst hz
  generalize hhd : di / 2 = hh at *
  -- `hh = ⌊x⌋`
  have n1 : hh * b ≤ a := by
    have m : 2 * hh * b ≤ di * b := Nat.mul_le_mul_right b (by omega)
    have e : 2 * hh * b = 2 * (hh * b) := by ring
    omega
  have n2 : a < hh * b + b := by
    have m : (di + 1) * b ≤ (2 * hh + 2) * b := Nat.mul_le_mul_right b (by omega)
    have e : (di + 1) * b = di * b + b := by ring
    have e2 : (2 * hh + 2) * b = 2 * (hh * b) + 2 * b := by ring
    omega
  -- `yi ∈ {A - 1, A}`, `A = zi - hh`
  have k1 : yi + hh < s' * (10 * T) + r' + 1 := by
    refine Nat.lt_of_mul_lt_mul_right (a := b) ?_
    have e : (yi + hh) * b = yi * b + hh * b := by ring
    have e2 : (s' * (10 * T) + r' + 1) * b = (s' * (10 * T) + r') * b + b := by ring
    omega
  have k2 : s' * (10 * T) + r' < yi + hh + 2 := by
    refine Nat.lt_of_mul_lt_mul_right (a := b) ?_
    have e : (yi + hh + 2) * b = yi * b + hh * b + 2 * b := by ring
    omega
  clear hz1 hz2 hd1 hd2 n1 n2 hX hY haX
  generalize hdist : r' - hh + T / 2 = dist at *
  generalize hD : 10 * s' + dist / T = D at *
  refine ⟨by omega, by rcases hT with rfl | rfl <;> omega, ?_, ?_, ?_⟩
  · intro hne
    exact close_of_near hT hy1 hy2 (by rcases hT with rfl | rfl <;> omega)
      (by rcases hT with rfl | rfl <;> omega)
  · intro hz0 hpar
    have hD1 : 1 ≤ D := by rcases hT with rfl | rfl <;> omega
    exact ⟨hD1, close_of_near hT hy1 hy2 (by rcases hT with rfl | rfl <;> omega)
      (by rcases hT with rfl | rfl <;> omega)⟩
  · intro hz0 hpar
    refine ⟨close_of_near hT hy1 hy2 (by rcases hT with rfl | rfl <;> omega)
      (by rcases hT with rfl | rfl <;> omega), fun hdvd => ?_⟩
    have hD1 : 1 ≤ D := by rcases hT with rfl | rfl <;> omega
    exact ⟨hD1, close_of_half hT (hyd.2 hdvd) (by rcases hT with rfl | rfl <;> omega)⟩

/-- a nearest multiple of `T` lies strictly inside the interval (because `δ ≥ T`; if `δ = T`
then `Y` is itself a multiple) -/
theorem close_inside (h : Setup a b T q) (D : Nat) (hc : Close a b T q D) :
    1 ≤ D ∧ (2 * q - 1) * a < D * T * b ∧ D * T * b < (2 * q + 1) * a := by
  obtain ⟨hX, hY, haX⟩ := nums (a := a) h.hq
  have ha := h.ha
  have hlo := h.hlo
  obtain ⟨hc1, hc2⟩ := hc
  -- the half-way case is impossible when `δ = T`
  have key : 2 * a = T * b →
      ¬ (2 * (2 * q * a - D * T * b) = T * b ∨ 2 * (D * T * b - 2 * q * a) = T * b) := by
    intro hab
    have e1 : 2 * q * a = q * (T * b) := by rw [← hab]; ring
    have e2 : D * T * b = D * (T * b) := by ring
    rw [e1, e2]
    rcases Nat.lt_or_ge D q with hlt | hge
    · have m : (D + 1) * (T * b) ≤ q * (T * b) := Nat.mul_le_mul_right _ hlt
      have e3 : (D + 1) * (T * b) = D * (T * b) + T * b := by ring
      omega
    · have m : q * (T * b) ≤ D * (T * b) := Nat.mul_le_mul_right _ hge
      rcases Nat.lt_or_ge q D with hlt | hge2
      · have m2 : (q + 1) * (T * b) ≤ D * (T * b) := Nat.mul_le_mul_right _ hlt
        have e3 : (q + 1) * (T * b) = q * (T * b) + T * b := by ring
        omega
      · have : D = q := by omega
        subst this
        omega
  clear h
  generalize (2 * q + 1) * a = Zn at *
  generalize (2 * q - 1) * a = Xn at *
  generalize 2 * q * a = Yn at *
  have g2 : Xn < D * T * b := by
    by_cases hab : 2 * a = T * b
    · have := key hab
      omega
    · omega
  have g3 : D * T * b < Zn := by
    by_cases hab : 2 * a = T * b
    · have := key hab
      omega
    · omega
  refine ⟨?_, g2, g3⟩
  refine Nat.pos_of_ne_zero ?_
  rintro rfl
  rw [Nat.zero_mul, Nat.zero_mul] at g2
  omega

end LexVerif.Proof.DragonboxMath
