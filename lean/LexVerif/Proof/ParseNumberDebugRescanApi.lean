import LexVerif.Proof.ParseNumberDebugRescanMain
/-!
# Proof.ParseNumberDebugRescanApi — from format / options validity to the hypotheses of `parseFloatSyntax_safe2`

Validity gives: the decimal point and the base-prefix letter (in either ASCII case) are no digits of the mantissa radix;
with `NoCaseClash` they are not the separator either. A component iterator is contiguous or has one of the 14
predicates (`peek`'s `unreachable!()` arm is excluded by `NumberFormat::error()`).
-/
set_option linter.unusedSimpArgs false
set_option linter.unusedVariables false
namespace LexVerif.Proof.PNDebug
open LexVerif LexVerif.Model LexVerif.Spec
open LexVerif.Proof.Sep (contig_of_noskip)

variable {c : Cfg}

theorem digitVal36_lower (y : Nat) : digitVal36 (lowerAscii y) = digitVal36 y := by
  unfold lowerAscii
  split
  · next h =>
    unfold digitVal36
    have h1 : ¬ (48 ≤ y + 32 ∧ y + 32 ≤ 57) := by omega
    have h2 : ¬ (65 ≤ y + 32 ∧ y + 32 ≤ 90) := by omega
    have h3 : (97 ≤ y + 32 ∧ y + 32 ≤ 122) := by omega
    have h4 : ¬ (48 ≤ y ∧ y ≤ 57) := by omega
    have h5 : y + 32 - 87 = y - 55 := by omega
    rw [if_neg h1, if_neg h2, if_pos h3, if_neg h4, if_pos h, h5]
  · rfl

theorem digitVal36_eqIgnoreCase {y v : Nat} (h : eqIgnoreCase y v = true) : digitVal36 y = digitVal36 v := by
  have : lowerAscii y = lowerAscii v := by simpa [eqIgnoreCase] using h
  rw [← digitVal36_lower y, this, digitVal36_lower]

theorem matchesB_cases {y v : Nat} {cased : Bool} (h : matchesB y v cased = true) : y = v ∨ eqIgnoreCase y v = true := by
  unfold matchesB at h
  split at h
  · left; simpa using h
  · right; exact h

/-- a valid (optional) control character is, in either ASCII case, no digit of the mantissa radix -/
theorem not_isDigit_of_control (hfe : (formatError c.feats c.fmt).isNone = true) (v : Nat)
    (hv : isValidOptionalControl c.fmt v = true) (y : Nat) (hy : y = v ∨ eqIgnoreCase y v = true) :
    c.isDigit y = false := by
  have hm := isValidRadix_le (fe_mantissa hfe)
  have he := isValidRadix_le (fe_expRadix hfe)
  unfold isValidOptionalControl at hv
  simp only [Bool.and_eq_true, Bool.or_eq_true, decide_eq_true_eq] at hv
  obtain ⟨⟨⟨hnone, _⟩, _⟩, hascii⟩ := hv
  have hv256 : v < 256 := by
    rcases hascii with h | h
    · unfold isValidAscii at h
      simp only [Bool.or_eq_true, Bool.and_eq_true, decide_eq_true_eq] at h
      omega
    · omega
  generalize hR : (if c.fmt.mantissaRadix > c.fmt.exponentRadix then c.fmt.mantissaRadix else c.fmt.exponentRadix) = R
    at hnone
  have hR1 : c.fmt.mantissaRadix ≤ R := by rw [← hR]; split <;> omega
  have hR2 : R ≤ 255 := by rw [← hR]; split <;> omega
  rw [LexVerif.Proof.Grammar.charToDigit_eq v R hv256 hR2] at hnone
  have h36 : digitVal36 y = digitVal36 v := by
    rcases hy with h | h
    · rw [h]
    · exact digitVal36_eqIgnoreCase h
  unfold Cfg.isDigit Cfg.mantissaRadix digitVal
  unfold digitVal at hnone
  rw [h36]
  cases hd : digitVal36 v with
  | none => rfl
  | some d =>
    rw [hd] at hnone
    simp only at hnone ⊢
    by_cases hlt : d < R
    · simp [hlt] at hnone
    · have : ¬ d < c.fmt.mantissaRadix := by omega
      simp [this]

theorem fe_prefix {feats : Features} {fmt : Format} (h : (formatError feats fmt).isNone = true) :
    (if feats.format && feats.powerOfTwo then isValidOptionalControl fmt fmt.basePrefix
      else decide (fmt.basePrefix = 0)) = true := by
  unfold formatError at h
  simp only at h
  have h := (isNone_ite_some h).2
  have h := (isNone_ite_some h).2
  have h := (isNone_ite_some h).2
  have h := (isNone_ite_some h).2
  have h := (isNone_ite_some h).1
  by_cases hc : (feats.format && feats.powerOfTwo) = true
  · simp only [hc, if_true] at h ⊢
    simpa using h
  · simp only [hc, if_false] at h ⊢
    simpa using h

/-- the base-prefix letter, as the parser accepts it, is neither a digit nor (given `NoCaseClash`) the separator -/
theorem prefix_not_digit_sep (cx : Ctx c) (hfe : (formatError c.feats c.fmt).isNone = true)
    (hclash : c.basePrefix ≠ 0 → matchesB c.fmt.digitSeparator c.basePrefix c.caseSensitiveBasePrefix = false) :
    c.basePrefix ≠ 0 → ∀ y, matchesB y c.basePrefix c.caseSensitiveBasePrefix = true →
      c.isDigit y = false ∧ c.isSep y = false := by
  intro hne y hm
  have hf : c.feats.format = true := by
    cases hff : c.feats.format
    · simp [Cfg.basePrefix, hff] at hne
    · rfl
  have hbp : c.basePrefix = c.fmt.basePrefix := by simp [Cfg.basePrefix, hf]
  have hctl : isValidOptionalControl c.fmt c.fmt.basePrefix = true := by
    have := fe_prefix hfe
    cases hp2 : c.feats.powerOfTwo
    · simp [hf, hp2] at this
      rw [hbp] at hne; exact absurd this hne
    · simpa [hf, hp2] using this
  refine ⟨?_, ?_⟩
  · rw [hbp] at hm
    exact not_isDigit_of_control hfe _ hctl y (matchesB_cases hm)
  · exact notSep_of_ne cx (matchesB_ne hm (hclash hne))

theorem dp_not_digit (hfe : (formatError c.feats c.fmt).isNone = true) (o : POpts)
    (hopt : isValidOptionsPunctuation c.feats c.fmt o.exp o.dp = true) : c.isDigit o.dp = false := by
  unfold isValidOptionsPunctuation at hopt
  have hctl : isValidControl c.fmt o.dp = true := by
    cases hc : isValidControl c.fmt o.dp
    · simp [hc] at hopt
    · rfl
  unfold isValidControl at hctl
  simp only [Bool.and_eq_true] at hctl
  exact not_isDigit_of_control hfe _ hctl.2 _ (Or.inl rfl)

/-- `SepFlags.skip` is I+T+C exactly for the flags internal + trailing + consecutive -/
theorem flags_of_skip_itc (f : SepFlags) (h : f.skip = .pred .itc) : f = ⟨true, false, true, true⟩ := by
  obtain ⟨i, l, t, cc⟩ := f
  cases i <;> cases l <;> cases t <;> cases cc <;> simp_all [SepFlags.skip]

theorem compOk_of_skip (cx : Ctx c) (k : Comp) (allow : Prop) (h : c.skip k = .pred .itc → allow) : CompOk c k allow := by
  cases hk : c.skip k with
  | noskip => exact Or.inl (contig_of_noskip c k hk)
  | unreachable => exact absurd hk (cx.skipOk k)
  | pred p =>
    right
    refine ⟨p, hk, ?_⟩
    by_cases hp : p = .itc
    · right; subst hp; exact h hk
    · exact Or.inl hp

end LexVerif.Proof.PNDebug
