import LexVerif.Proof.WriteIntDigits
/-!
# Proof.WriteIntSplice — forward (checked) writes of `jeaiii.rs` as list splices
-/
namespace LexVerif.Model.WriteInt
open LexVerif.Spec

/-- `buf` with the bytes `cs` written at offset `i` -/
def splice (buf : Buf) (i : Nat) (cs : List Nat) : Buf := buf.take i ++ cs ++ buf.drop (i + cs.length)

theorem splice_mid (p x s cs : List Nat) (h : x.length = cs.length) :
    splice (p ++ x ++ s) p.length cs = p ++ cs ++ s := by
  unfold splice
  have h1 : (p ++ x ++ s).take p.length = p := by
    rw [List.append_assoc]; simp
  have h2 : (p ++ x ++ s).drop (p.length + cs.length) = s := by
    rw [← h, ← List.length_append]; simp
  rw [h1, h2]

/-- cut a buffer into prefix, a window of length `n` at offset `i`, and suffix -/
theorem cut3 (buf : Buf) (i n : Nat) (h : i + n ≤ buf.length) :
    ∃ p x s, buf = p ++ x ++ s ∧ p.length = i ∧ x.length = n := by
  refine ⟨buf.take i, (buf.drop i).take n, buf.drop (i + n), ?_, ?_, ?_⟩
  · rw [List.append_assoc, ← List.drop_drop, List.take_append_drop, List.take_append_drop]
  · simp [List.length_take]; omega
  · simp [List.length_take]; omega

theorem splice_length (buf : Buf) (i : Nat) (cs : List Nat) (h : i + cs.length ≤ buf.length) :
    (splice buf i cs).length = buf.length := by
  obtain ⟨p, x, s, hb, hp, hx⟩ := cut3 buf i cs.length h
  subst hb; rw [← hp, splice_mid p x s cs hx]; simp; omega

theorem splice_append (buf : Buf) (i : Nat) (a b : List Nat) (h : i + a.length + b.length ≤ buf.length) :
    splice (splice buf i a) (i + a.length) b = splice buf i (a ++ b) := by
  obtain ⟨p, x, s, hb, hp, hx⟩ := cut3 buf i (a.length + b.length) (by omega)
  obtain ⟨x1, x2, x3, hx', hx1, hx2⟩ := cut3 x a.length b.length (by omega)
  have hx3 : x3 = [] := by
    apply List.eq_nil_of_length_eq_zero
    have := congrArg List.length hx'; simp at this; omega
  subst hx3; rw [List.append_nil] at hx'
  subst hx' hb
  rw [← hp]
  have e1 : p ++ (x1 ++ x2) ++ s = p ++ x1 ++ (x2 ++ s) := by simp
  rw [e1, splice_mid p x1 (x2 ++ s) a hx1]
  have e2 : p ++ a ++ (x2 ++ s) = (p ++ a) ++ x2 ++ s := by simp
  have e3 : p.length + a.length = (p ++ a).length := by simp
  rw [e2, e3, splice_mid (p ++ a) x2 s b hx2]
  have e4 : p ++ x1 ++ (x2 ++ s) = p ++ (x1 ++ x2) ++ s := by simp
  rw [e4, splice_mid p (x1 ++ x2) s (a ++ b) (by simp [hx1, hx2])]
  simp

theorem splice_prepend (buf : Buf) (i : Nat) (a b : List Nat) (h : i + a.length + b.length ≤ buf.length) :
    splice (splice buf (i + a.length) b) i a = splice buf i (a ++ b) := by
  obtain ⟨p, x, s, hb, hp, hx⟩ := cut3 buf i (a.length + b.length) (by omega)
  obtain ⟨x1, x2, x3, hx', hx1, hx2⟩ := cut3 x a.length b.length (by omega)
  have hx3 : x3 = [] := by
    apply List.eq_nil_of_length_eq_zero
    have := congrArg List.length hx'; simp at this; omega
  subst hx3; rw [List.append_nil] at hx'
  subst hx' hb
  rw [← hp]
  have e2 : p ++ (x1 ++ x2) ++ s = (p ++ x1) ++ x2 ++ s := by simp
  have e3 : p.length + a.length = (p ++ x1).length := by simp [hx1]
  rw [e2, e3, splice_mid (p ++ x1) x2 s b hx2]
  have e5 : p ++ x1 ++ b ++ s = p ++ x1 ++ (b ++ s) := by simp
  rw [e5, splice_mid p x1 (b ++ s) a hx1]
  have e4 : p ++ x1 ++ x2 ++ s = p ++ (x1 ++ x2) ++ s := by simp
  rw [e4, splice_mid p (x1 ++ x2) s (a ++ b) (by simp [hx1, hx2])]
  simp

theorem splice_zero (buf : Buf) (cs : List Nat) : splice buf 0 cs = cs ++ buf.drop cs.length := by
  simp [splice]

theorem setC_splice (buf : Buf) (i c : Nat) (h : i < buf.length) : setC buf i c = .ok (splice buf i [c]) := by
  obtain ⟨p, x, s, hb, hp, hx⟩ := cut3 buf i 1 (by omega)
  match x, hx with
  | [y], _ =>
    subst hb; rw [← hp, splice_mid p [y] s [c] rfl]
    have : p ++ [y] ++ s = p ++ y :: s := by simp
    rw [this, setC_mid]; simp

/-! ## `write_n!` -/

theorem digitToCharConst10_lt (n : Nat) (h : n < 10) : digitToCharConst10 n = digitChar n := by
  unfold digitToCharConst10 digitChar
  rw [if_pos h]; omega

theorem wr1_spec (buf : Buf) (i n : Nat) (hn : n < 10) (hi : i < buf.length) :
    wr1 buf i n = .ok (splice buf i [digitChar n], i + 1) := by
  unfold wr1
  rw [digitToCharConst10_lt n hn, setC_splice buf i _ hi]; rfl

theorem wr2_spec (buf : Buf) (i m : Nat) (hm : m < 100) (hi : i + 2 ≤ buf.length) :
    wr2 buf i (2 * m) = .ok (splice buf i (pair 10 m), i + 2) := by
  unfold wr2
  have hu : 2 * m % usz = 2 * m := Nat.mod_eq_of_lt (by unfold usz; omega)
  rw [hu, tableGet_even 10 m (by omega), tableGet_odd 10 m (by omega), bind_ok, setC_splice buf i _ (by omega),
    bind_ok, bind_ok]
  rw [setC_splice _ (i + 1) _ (by rw [splice_length _ _ _ (by simp; omega)]; omega), bind_ok]
  have := splice_append buf i [digitChar (m / 10)] [digitChar (m % 10)] (by simp; omega)
  simp only [List.length_singleton] at this
  rw [this]; rfl

/-- the two-digit values produced by `k` successive `next2` steps -/
def jd : Nat → Nat → List Nat
  | _, 0 => []
  | y, k + 1 => (next2 y).2 :: jd (next2 y).1 k

/-- characters of a list of two-digit values -/
def pairs (ds : List Nat) : List Nat := ds.flatMap (pair 10)

theorem pairs_length (ds : List Nat) : (pairs ds).length = 2 * ds.length := by
  induction ds with
  | nil => rfl
  | cons d ds ih => simp [pairs, pair] at ih ⊢; omega

theorem jd_length (y k : Nat) : (jd y k).length = k := by
  induction k generalizing y with
  | zero => rfl
  | succ k ih => simp [jd, ih]

theorem print2s_spec : ∀ (k : Nat) (buf : Buf) (i y : Nat), (∀ d ∈ jd y k, d < 100) → i + 2 * k ≤ buf.length →
    print2s k buf i y = .ok (splice buf i (pairs (jd y k)), i + 2 * k) := by
  intro k
  induction k with
  | zero =>
    intro buf i y _ h
    simp [print2s, jd, pairs, splice]
  | succ k ih =>
    intro buf i y hd h
    have hd0 : (next2 y).2 < 100 := hd _ (by simp [jd])
    have e : (next2 y).2 * 2 % 2 ^ 32 = 2 * (next2 y).2 := by
      rw [Nat.mul_comm]; exact Nat.mod_eq_of_lt (by omega)
    rw [print2s, e, wr2_spec buf i _ hd0 (by omega), bind_ok]
    simp only []
    rw [ih _ _ _ (fun d hm => hd d (by simp [jd, hm])) (by rw [splice_length _ _ _ (by simp [pair]; omega)]; omega)]
    have hl : (pair 10 (next2 y).2).length = 2 := rfl
    have := splice_append buf i (pair 10 (next2 y).2) (pairs (jd (next2 y).1 k))
      (by rw [hl, pairs_length, jd_length]; omega)
    rw [hl] at this
    rw [this]
    simp only [jd, pairs, List.flatMap_cons]
    congr 2; omega

end LexVerif.Model.WriteInt
