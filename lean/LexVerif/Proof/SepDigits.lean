import LexVerif.Proof.SepBasic
/-!
# Proof.SepDigits — what `parse_digits` over a skip iterator yields
-/
namespace LexVerif.Proof.Sep
open LexVerif LexVerif.Model
open LexVerif.Props.C12

/-- non-separator bytes of a list, in order -/
def nonSep (c : Cfg) (l : List Nat) : List Nat := l.filter (fun x => !c.isSep x)

theorem nonSep_append (c : Cfg) (a b : List Nat) : nonSep c (a ++ b) = nonSep c a ++ nonSep c b := by
  simp [nonSep]

theorem nonSep_of_all_sep (c : Cfg) (l : List Nat) (h : l.all c.isSep = true) : nonSep c l = [] := by
  simp only [nonSep, List.filter_eq_nil_iff]
  intro x hx
  have := List.all_eq_true.mp h x hx
  simp [this]

/-- `parse_digits` (release build): the digits handed to the callback are exactly the non-separator bytes
of the region the cursor moved over, in order — provided the separator is not itself a digit. -/
theorem parseDigitsLoop_yields (c : Cfg) (k : Comp) (radix : Nat) (hd : c.debug = false)
    (hsep : ∀ x, c.isSep x = true → charToDigit x radix = none) :
    ∀ (fuel : Nat) (b b' : Bytes) (ds : List Nat), Bytes.Valid b →
      parseDigitsLoop c k radix fuel b = .ok (ds, b') →
      (nonSep c (slice b.slc b.index b'.index)).map (fun x => charToDigit x radix) = ds.map some := by
  intro fuel
  induction fuel with
  | zero => intro b b' ds _ h; simp [parseDigitsLoop] at h
  | succ n ih =>
    intro b b' ds hv h
    unfold parseDigitsLoop at h
    cases hp : peek c k b with
    | error e => simp [hp, bind, Except.bind] at h
    | ok r =>
      obtain ⟨v, b1⟩ := r
      have hs := peek_spec c k b b1 v hv hp
      have hk := peek_skips c k b b1 v hp
      simp only [hp, bind, Except.bind] at h
      cases v with
      | none =>
        simp only [pure, Except.pure, Except.ok.injEq, Prod.mk.injEq] at h
        obtain ⟨rfl, rfl⟩ := h
        simp [nonSep_of_all_sep c _ hk]
      | some ch =>
        have hlt := peek_some_in_range c k b b1 ch hv hp
        simp only at h
        cases hdg : charToDigit ch radix with
        | none =>
          simp only [hdg, pure, Except.pure, Except.ok.injEq, Prod.mk.injEq] at h
          obtain ⟨rfl, rfl⟩ := h
          simp [nonSep_of_all_sep c _ hk]
        | some d =>
          simp only [hdg, iterStep, stepUnchecked_release c _ b1 hd] at h
          cases hrec : parseDigitsLoop c k radix n (Bytes.incCount c k { b1 with index := b1.index + 1 }) with
          | error e => simp [hrec] at h
          | ok r2 =>
            obtain ⟨ds2, b2⟩ := r2
            simp only [hrec, pure, Except.pure, Except.ok.injEq, Prod.mk.injEq] at h
            obtain ⟨rfl, rfl⟩ := h
            have hi := incCount_spec c k { b1 with index := b1.index + 1 }
            have hv2 : Bytes.Valid (Bytes.incCount c k { b1 with index := b1.index + 1 }) := by
              unfold Bytes.Valid; rw [hi.1, hi.2]; simp only; omega
            have hrs := parseDigitsLoop_spec c k radix hd _ _ _ _ hv2 hrec
            have := ih _ _ _ hv2 hrec
            rw [hi.1, hi.2] at this hrs
            simp only at this hrs
            have hch : c.isSep ch = false := by
              cases hcs : c.isSep ch with
              | false => rfl
              | true => have := hsep ch hcs; rw [hdg] at this; cases this
            have hget : b.slc[b1.index]? = some ch := by rw [← hs.1]; exact hs.2.2.2.2.2.2.symm
            rw [slice_append b.slc b.index b1.index b2.index hs.2.2.2.2.1 (by omega),
              slice_append b.slc b1.index (b1.index + 1) b2.index (by omega) (by omega),
              slice_one _ _ _ hget, nonSep_append, nonSep_append, nonSep_of_all_sep c _ hk]
            rw [hs.1] at this
            simp only [List.nil_append, List.map_append, this, List.map_cons]
            simp [nonSep, hch, hdg]

theorem parseDigits_yields (c : Cfg) (k : Comp) (radix : Nat) (hd : c.debug = false)
    (hsep : ∀ x, c.isSep x = true → charToDigit x radix = none) (b b' : Bytes) (ds : List Nat)
    (hv : Bytes.Valid b) (h : parseDigits c k radix b = .ok (ds, b')) :
    (nonSep c (slice b.slc b.index b'.index)).map (fun x => charToDigit x radix) = ds.map some :=
  parseDigitsLoop_yields c k radix hd hsep _ b b' ds hv h

end LexVerif.Proof.Sep
