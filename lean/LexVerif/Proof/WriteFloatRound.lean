import LexVerif.Proof.WriteFloatAscii
import LexVerif.Proof.WriteFloatBuf
import LexVerif.Proof.ParseInt
/-!
# Proof.WriteFloatRound — string-level rounding of `truncate_and_round_decimal` = numeric round-half-even

`val ds` is the number denoted by a decimal digit list.  Main result `truncateAndRound_numeric`:
the kept digits, scaled back to `max` places (one more after a carry), are `⌊n / 10^k⌉` rounded half-to-even, where
`k` digits were cut.
-/
namespace LexVerif.Proof.WriteFloatRound
open LexVerif.Spec LexVerif.Model LexVerif.Proof.WriteFloatAscii LexVerif.Proof.ParseInt

abbrev val (ds : List Nat) : Nat := ofDigits 10 ds

theorem val_append (a b : List Nat) : val (a ++ b) = val a * 10 ^ b.length + val b := by
  induction a with
  | nil => simp [val, ofDigits]
  | cons d a ih =>
    simp only [val] at ih ⊢
    rw [List.cons_append, ofDigits_cons, ofDigits_cons, ih, List.length_append, Nat.pow_add]
    ring

theorem val_snoc (a : List Nat) (d : Nat) : val (a ++ [d]) = val a * 10 + d := by
  rw [val_append]; simp [val, ofDigits]

theorem val_lt (ds : List Nat) (h : Digs 10 ds) : val ds < 10 ^ ds.length := ofDigits_lt 10 ds h

theorem val_eq_zero_iff (ds : List Nat) : val ds = 0 ↔ ∀ d ∈ ds, d = 0 := by
  induction ds with
  | nil => simp [val, ofDigits]
  | cons d ds ih =>
    simp only [val] at ih ⊢
    rw [ofDigits_cons]
    constructor
    · intro h
      have hp : 0 < 10 ^ ds.length := Nat.pow_pos (by omega)
      have h1 : d * 10 ^ ds.length = 0 := by omega
      have h2 : ofDigits 10 ds = 0 := by omega
      have hd : d = 0 := by
        rcases Nat.mul_eq_zero.mp h1 with h | h
        · exact h
        · omega
      intro x hx
      rcases List.mem_cons.mp hx with hx | hx
      · omega
      · exact ih.mp h2 x hx
    · intro h
      have hd := h d (List.mem_cons_self ..)
      have := ih.mpr (fun x hx => h x (List.mem_cons_of_mem _ hx))
      simp [hd, this]

/-! ## `round_up` adds one -/

theorem roundUp_go_numeric : ∀ rl : List Nat, Digs 10 rl →
    (roundUp.go 10 rl).1.length ≤ rl.length + (if (roundUp.go 10 rl).2 = true then 1 else 0) ∧
    val (roundUp.go 10 rl).1.reverse *
        10 ^ (rl.length + (if (roundUp.go 10 rl).2 = true then 1 else 0) - (roundUp.go 10 rl).1.length)
      = val rl.reverse + 1
  | [], _ => by simp [roundUp.go, val, ofDigits]
  | d :: rest, h => by
    have hd : d < 10 := h d (List.mem_cons_self ..)
    have hrest : Digs 10 rest := fun x hx => h x (List.mem_cons_of_mem _ hx)
    unfold roundUp.go
    by_cases hlt : d + 1 < 10
    · rw [if_pos hlt]
      simp only [List.length_cons, Bool.false_eq_true, if_false, Nat.add_zero, Nat.sub_self, Nat.pow_zero, Nat.mul_one,
        List.reverse_cons, Nat.le_refl, true_and]
      rw [val_snoc, val_snoc]; omega
    · rw [if_neg hlt]
      have hd9 : d = 9 := by omega
      obtain ⟨ih1, ih2⟩ := roundUp_go_numeric rest hrest
      generalize roundUp.go 10 rest = res at ih1 ih2 ⊢
      obtain ⟨r', c⟩ := res
      simp only at ih1 ih2 ⊢
      refine ⟨by simp only [List.length_cons]; omega, ?_⟩
      simp only [List.length_cons, List.reverse_cons]
      rw [val_snoc, hd9]
      have he : rest.length + 1 + (if c = true then 1 else 0) - r'.length
          = (rest.length + (if c = true then 1 else 0) - r'.length) + 1 := by omega
      rw [he, Nat.pow_succ, ← Nat.mul_assoc, ih2]
      ring

theorem roundUp_numeric (l : List Nat) (h : Digs 10 l) :
    (roundUp 10 l).1.length ≤ l.length + (if (roundUp 10 l).2 = true then 1 else 0) ∧
    val (roundUp 10 l).1 * 10 ^ (l.length + (if (roundUp 10 l).2 = true then 1 else 0) - (roundUp 10 l).1.length)
      = val l + 1 := by
  have := roundUp_go_numeric l.reverse (digs_reverse h)
  unfold roundUp
  generalize roundUp.go 10 l.reverse = res at this ⊢
  obtain ⟨r', c⟩ := res
  simpa using this

/-! ## the cut-off tail against one half -/

theorem tail_half (t : Nat) (rest : List Nat) (ht : t < 10) (hrest : Digs 10 rest) :
    (t < 5 → 2 * val (t :: rest) < 10 ^ (rest.length + 1)) ∧
    (t > 5 → 2 * val (t :: rest) > 10 ^ (rest.length + 1)) ∧
    (t = 5 → (2 * val (t :: rest) > 10 ^ (rest.length + 1) ↔ rest.any (· ≠ 0) = true) ∧
             (2 * val (t :: rest) = 10 ^ (rest.length + 1) ↔ rest.any (· ≠ 0) = false)) := by
  have hv := val_lt rest hrest
  simp only [val] at hv ⊢
  rw [ofDigits_cons, Nat.pow_succ]
  generalize 10 ^ rest.length = P at hv ⊢
  have hz := val_eq_zero_iff rest
  simp only [val] at hz
  have hany : rest.any (· ≠ 0) = true ↔ ofDigits 10 rest ≠ 0 := by
    rw [Ne, hz]
    simp only [List.any_eq_true, decide_eq_true_eq]
    constructor
    · rintro ⟨x, hx, hne⟩ hall; exact hne (hall x hx)
    · intro hn
      by_contra hc
      apply hn
      intro x hx
      by_contra hx0
      exact hc ⟨x, hx, hx0⟩
  have hany' : rest.any (· ≠ 0) = false ↔ ofDigits 10 rest = 0 := by
    rw [← Bool.not_eq_true, hany]; simp
  generalize ofDigits 10 rest = v at hv hany hany' ⊢
  refine ⟨?_, ?_, ?_⟩
  · intro h; interval_cases t <;> omega
  · intro h; interval_cases t <;> omega
  · intro h; subst h
    rw [hany, hany']
    constructor <;> constructor <;> intro h <;> omega

/-- numeric round-half-to-even of `n / m` -/
def roundHalfEven (n m : Nat) : Nat :=
  if 2 * (n % m) > m ∨ (2 * (n % m) = m ∧ (n / m) % 2 = 1) then n / m + 1 else n / m

theorem div_mod_of_split (a b m : Nat) (hb : b < m) : (a * m + b) / m = a ∧ (a * m + b) % m = b := by
  have hm : 0 < m := by omega
  constructor
  · rw [Nat.add_comm, Nat.add_mul_div_right _ _ hm, Nat.div_eq_of_lt hb]; omega
  · rw [Nat.add_comm, Nat.add_mul_mod_self_right, Nat.mod_eq_of_lt hb]

theorem take_snoc_getD (ds : List Nat) (mx : Nat) (h1 : 1 ≤ mx) (h2 : mx ≤ ds.length) :
    ds.take mx = ds.take (mx - 1) ++ [ds.getD (mx - 1) 0] := by
  have hlt : mx - 1 < ds.length := by omega
  have : ds.take mx = ds.take (mx - 1 + 1) := by congr 1; omega
  rw [this, List.take_add_one, List.getD_eq_getElem?_getD, List.getElem?_eq_getElem hlt]
  simp

/-- **string-level half-even = numeric half-even**.  With `max = mx < ds.length` digits kept under `Round`, the digits
returned by `truncate_and_round_decimal`, scaled to `mx` places (`mx + 1` after a carry), are `n / 10^k` rounded half
to even, where `n` is the number the digit list denotes and `k = ds.length - mx` digits are cut. -/
theorem truncateAndRound_numeric (ds : List Nat) (o : WOpts) (mx : Nat) (hd : Digs 10 ds) (hmx : o.maxDigits = some mx)
    (h1 : 1 ≤ mx) (h2 : mx < ds.length) (hround : o.truncate = false) :
    val (truncateAndRound ds o).1 *
        10 ^ (mx + (if (truncateAndRound ds o).2 = true then 1 else 0) - (truncateAndRound ds o).1.length)
      = roundHalfEven (val ds) (10 ^ (ds.length - mx)) := by
  -- split the number at the cut
  have hsplit : ds = ds.take mx ++ ds.drop mx := (List.take_append_drop mx ds).symm
  have hdl : (ds.drop mx).length = ds.length - mx := List.length_drop ..
  have htl : (ds.take mx).length = mx := by simp; omega
  have hvd := val_lt (ds.drop mx) (digs_drop mx hd)
  rw [hdl] at hvd
  have hval : val ds = val (ds.take mx) * 10 ^ (ds.length - mx) + val (ds.drop mx) := by
    conv => lhs; rw [hsplit]
    rw [val_append, hdl]
  obtain ⟨hq, hr⟩ := div_mod_of_split (val (ds.take mx)) (val (ds.drop mx)) (10 ^ (ds.length - mx)) hvd
  rw [← hval] at hq hr
  -- the first cut digit and what follows it
  have hne : ds.drop mx ≠ [] := by
    intro h; rw [h] at hdl; simp at hdl; omega
  obtain ⟨t, rest, htr⟩ := List.exists_cons_of_ne_nil hne
  have ht : t = ds.getD mx 0 := by
    have : (ds.drop mx).getD 0 0 = ds.getD mx 0 := by
      simp [List.getD_eq_getElem?_getD]
    rw [htr] at this; simpa using this
  have hrest : rest = ds.drop (mx + 1) := by
    have : (ds.drop mx).drop 1 = ds.drop (mx + 1) := by rw [List.drop_drop]
    rw [htr] at this; simpa using this
  have htd : Digs 10 (t :: rest) := htr ▸ digs_drop mx hd
  have hrl : rest.length + 1 = ds.length - mx := by rw [← hdl, htr]; simp
  obtain ⟨hlt5, hgt5, heq5⟩ := tail_half t rest (htd t (List.mem_cons_self ..))
    (fun x hx => htd x (List.mem_cons_of_mem _ hx))
  rw [← htr, hrl] at hlt5 hgt5 heq5
  -- parity of the last kept digit
  have hpar : val (ds.take mx) % 2 = ds.getD (mx - 1) 0 % 2 := by
    rw [take_snoc_getD ds mx h1 (by omega), val_snoc]; omega
  -- rounding up adds one
  obtain ⟨hul, hun⟩ := roundUp_numeric (ds.take mx) (digs_take mx hd)
  rw [htl] at hul hun
  -- now follow the code
  unfold truncateAndRound roundHalfEven
  rw [hmx]
  have hge : ¬ (mx ≥ ds.length) := by omega
  simp only [hround, Bool.false_eq_true, if_false, hge]
  rw [hq, hr, ← ht, ← hrest]
  generalize hP : 10 ^ (ds.length - mx) = P at *
  generalize hv : val (ds.drop mx) = v at *
  generalize hqv : val (ds.take mx) = q at *
  have hkeep : val (ds.take mx) * 10 ^ (mx + 0 - (ds.take mx).length) = q := by
    rw [htl, hqv]; simp
  by_cases c1 : t < 5
  · rw [if_pos c1]
    have := hlt5 c1
    have hnc : ¬ (2 * v > P ∨ 2 * v = P ∧ q % 2 = 1) := by omega
    rw [if_neg hnc]
    simpa using hkeep
  · rw [if_neg c1]
    by_cases c2 : t > 5
    · rw [if_pos c2]
      have := hgt5 c2
      rw [if_pos (Or.inl this)]
      exact hun
    · rw [if_neg c2]
      have ht5 : t = 5 := by omega
      obtain ⟨hgt, heq⟩ := heq5 ht5
      by_cases c3 : ds.getD (mx - 1) 0 % 2 = 1 ∨ rest.any (fun x => decide (x ≠ 0)) = true
      · rw [if_pos c3]
        have hcond : 2 * v > P ∨ 2 * v = P ∧ q % 2 = 1 := by
          rcases c3 with c3 | c3
          · by_cases hany : rest.any (fun x => decide (x ≠ 0)) = true
            · exact Or.inl (hgt.mpr hany)
            · exact Or.inr ⟨heq.mpr (by simpa using hany), by omega⟩
          · exact Or.inl (hgt.mpr c3)
        rw [if_pos hcond]
        exact hun
      · rw [if_neg c3]
        have hcond : ¬ (2 * v > P ∨ 2 * v = P ∧ q % 2 = 1) := by
          intro h
          rcases h with h | ⟨_, h⟩
          · exact c3 (Or.inr (hgt.mp h))
          · exact c3 (Or.inl (by omega))
        rw [if_neg hcond]
        simpa using hkeep

end LexVerif.Proof.WriteFloatRound
