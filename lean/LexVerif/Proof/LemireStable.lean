import LexVerif.Proof.LemireTrunc
import Mathlib.Tactic.Ring
/-!
# Proof.LemireStable — the stability argument, and `compute_float` for `28 ≤ q ≤ 308`

`quot_stable`: if the exact value `N` lies in `[z, z + c)·Dz` for the computed `z = hi·2^64 + lo` and the bits of
`z` below `2^(64+sh)` leave room for `c`, the upper bits `hi >> sh` are the quotient `N / (2^(64+sh)·Dz)`.
`computeFloat_trunc_pos`: for `28 ≤ q ≤ 308` every valid answer of `compute_float` is `roundNE (w·10^q)`.
-/
namespace LexVerif.Proof.Lemire
open LexVerif.Spec LexVerif.Model LexVerif.Model.Lemire
open LexVerif.Proof.RoundNE LexVerif.Proof.ExtRound LexVerif.Proof.BinaryCorrect

/-- **stability of the upper bits** -/
theorem quot_stable (hi lo sh N Dz c B : Nat)
    (hlow : (hi * B + lo) * Dz ≤ N) (hup : N < (hi * B + lo + c) * Dz)
    (hc : hi % 2 ^ sh * B + lo + c ≤ 2 ^ sh * B) (hDz : 0 < Dz) (hB : 0 < B) :
    N / (2 ^ sh * B * Dz) = hi / 2 ^ sh := by
  have hdm := Nat.div_add_mod hi (2 ^ sh)
  generalize 2 ^ sh = A at *
  generalize hi / A = m0 at *
  generalize hi % A = r at *
  have e1 : hi * B = A * m0 * B + r * B := by rw [← hdm]; ring
  apply Nat.div_eq_of_lt_le
  · calc m0 * (A * B * Dz) = (A * m0 * B) * Dz := by ring
      _ ≤ (hi * B + lo) * Dz := Nat.mul_le_mul_right _ (by rw [e1]; omega)
      _ ≤ N := hlow
  · calc N < (hi * B + lo + c) * Dz := hup
      _ ≤ (A * m0 * B + A * B) * Dz := Nat.mul_le_mul_right _ (by rw [e1]; omega)
      _ = (m0 + 1) * (A * B * Dz) := by ring

theorem en_eq (q b u bias lz sh p L : Nat) (hshv : u + 62 - p = sh) (hL : L = bias + (p - 1) - 1) (hu : u ≤ 1)
    (hp : 2 ≤ p) (hp61 : p ≤ 61) (hb65 : 65 ≤ b) (hlz : lz ≤ 63) (hL127 : 127 ≤ bias + (p - 1) - 1) :
    61 + q + b + u + bias - lz = sh + 64 + (64 + (b - 128)) + 1 + (q + L - lz - (128 - b)) := by
  omega

theorem room_of_lt {r A lo c B : Nat} (hr : r + 1 ≤ A) (hlo : lo + c ≤ B) : r * B + lo + c ≤ A * B := by
  have := Nat.mul_le_mul_right B hr
  rw [Nat.add_mul, Nat.one_mul] at this
  omega

theorem room_of_lt2 {r A lo c B : Nat} (hr : r + 2 ≤ A) (hlo : lo + c ≤ 2 * B) : r * B + lo + c ≤ A * B := by
  have := Nat.mul_le_mul_right B hr
  rw [Nat.add_mul] at this
  omega

theorem mod_not_allOnes {hi mb sh : Nat} (h : mb ≤ sh) (hm : hi % 2 ^ mb ≠ 2 ^ mb - 1) :
    hi % 2 ^ sh + 2 ≤ 2 ^ sh := by
  have hlt := Nat.mod_lt hi (Nat.two_pow_pos sh)
  apply Classical.byContradiction; intro hc
  have heq : hi % 2 ^ sh = 2 ^ sh - 1 := by omega
  apply hm
  have hdvd : 2 ^ mb ∣ 2 ^ sh := Nat.pow_dvd_pow 2 h
  rw [← Nat.mod_mod_of_dvd hi hdvd, heq]
  obtain ⟨d, hd⟩ : ∃ d, sh = mb + d := ⟨sh - mb, by omega⟩
  rw [hd, Nat.pow_add]
  have hA := Nat.two_pow_pos mb
  have hDp := Nat.two_pow_pos d
  generalize 2 ^ mb = A at *
  generalize 2 ^ d = D at *
  obtain ⟨D', rfl⟩ : ∃ D', D = D' + 1 := ⟨D - 1, by omega⟩
  have : A * (D' + 1) - 1 = A * D' + (A - 1) := by rw [Nat.mul_add, Nat.mul_one]; omega
  rw [this, Nat.mul_add_mod]
  exact Nat.mod_eq_of_lt (by omega)

/-- the fall-back answer of `compute_float` carries the invalid marker: its exponent is negative -/
theorem computeErrorScaled_neg {F p eb} (lay : Layout F p eb) (q : Int) (hi : Nat) (lz : Nat)
    (hpow : power (wrapI32 q) ≤ 2000) : (computeErrorScaled F q hi lz).exp < 0 := by
  unfold computeErrorScaled
  simp only []
  have hinv : invalidFp = -32768 := rfl
  have hb := lay.bias
  have hb1024 := lay.hb1024
  have hp64 := lay.hp64
  have hlit : litErrorBias = 62 := rfl
  rw [hinv, hb, hlit]
  split <;> omega

/-! ## the fall-back answer as an estimate -/

/-- what an invalid-marked answer `fp` of `compute_float` knows about the exact value `num/den`: its mantissa is
normalised, its un-biased exponent is small, and with `K`, `S` the exponent field and shift that rounding the un-biased estimate to the float format
uses, `mant·2^K ≤ (num/den)·2^L·2^S < (mant + 4)·2^K` (see `Proof.LemireFallback.bracket_of_estimate`). -/
def EstOK (F : FTy) (p : Nat) (fp : ExtendedFloat80) (num den : Nat) : Prop :=
  2 ^ 63 ≤ fp.mant ∧ fp.mant < 2 ^ 64 ∧ -(4096 : Int) ≤ fp.exp - invalidFp ∧ fp.exp - invalidFp ≤ 4096 ∧
  fp.mant * 2 ^ ((fp.exp - invalidFp) + 64 - p - 1).toNat * den ≤
    num * 2 ^ L F.fmt * 2 ^ shiftOf p (fp.exp - invalidFp) ∧
  num * 2 ^ L F.fmt * 2 ^ shiftOf p (fp.exp - invalidFp) <
    (fp.mant + 4) * 2 ^ ((fp.exp - invalidFp) + 64 - p - 1).toNat * den

theorem shift_rel (p : Nat) (hp : p ≤ 64) (P : Int) :
    (shiftOf p P : Int) + (P - 1) = ((P + 64 - p - 1).toNat : Int) := by
  unfold shiftOf
  split <;> omega

theorem pow_shift_le (A Bv a1 b1 a2 b2 : Nat) (h : A * 2 ^ a1 ≤ Bv * 2 ^ b1) (heq : a1 + b2 = a2 + b1) :
    A * 2 ^ a2 ≤ Bv * 2 ^ b2 := by
  apply Nat.le_of_mul_le_mul_right _ (Nat.two_pow_pos (a1 + b2))
  calc A * 2 ^ a2 * 2 ^ (a1 + b2) = (A * 2 ^ a1) * 2 ^ (a2 + b2) := by rw [Nat.pow_add, Nat.pow_add]; ring
    _ ≤ (Bv * 2 ^ b1) * 2 ^ (a2 + b2) := Nat.mul_le_mul_right _ h
    _ = Bv * 2 ^ b2 * 2 ^ (a2 + b1) := by rw [Nat.pow_add, Nat.pow_add]; ring
    _ = Bv * 2 ^ b2 * 2 ^ (a1 + b2) := by rw [heq]

theorem pow_shift_lt (A Bv a1 b1 a2 b2 : Nat) (h : Bv * 2 ^ b1 < A * 2 ^ a1) (heq : a1 + b2 = a2 + b1) :
    Bv * 2 ^ b2 < A * 2 ^ a2 := by
  apply Nat.lt_of_mul_lt_mul_right (a := 2 ^ (a1 + b2))
  calc Bv * 2 ^ b2 * 2 ^ (a1 + b2) = Bv * 2 ^ b2 * 2 ^ (a2 + b1) := by rw [heq]
    _ = (Bv * 2 ^ b1) * 2 ^ (a2 + b2) := by rw [Nat.pow_add, Nat.pow_add]; ring
    _ < (A * 2 ^ a1) * 2 ^ (a2 + b2) := Nat.mul_lt_mul_of_pos_right h (Nat.two_pow_pos _)
    _ = A * 2 ^ a2 * 2 ^ (a1 + b2) := by rw [Nat.pow_add, Nat.pow_add]; ring

/-- with an all-ones low word the exact value lies in `[hi, hi + 2)` units of the upper word -/
theorem fallback_bounds (wn hi5 lo5 lo hi N Dn : Nat)
    (hwn1 : 2 ^ 63 ≤ wn) (hwn2 : wn < 2 ^ 64) (hhi5n : 2 ^ 63 ≤ hi5) (hhi : hi < 2 ^ 64)
    (hzlow : (hi * 2 ^ 64 + lo) * 2 ^ 64 ≤ wn * (hi5 * 2 ^ 64 + lo5))
    (hzup : wn * (hi5 * 2 ^ 64 + lo5) < (hi * 2 ^ 64 + lo + 1) * 2 ^ 64 ∨
      (hi * 2 ^ 64 + lo = wn * hi5 ∧
        wn * (hi5 * 2 ^ 64 + lo5) < (hi * 2 ^ 64 + lo + 2 ^ 64) * 2 ^ 64))
    (hDn : 0 < Dn) (hNlo : wn * (hi5 * 2 ^ 64 + lo5) * Dn ≤ N)
    (hNhi : N < (wn * (hi5 * 2 ^ 64 + lo5) + wn) * Dn) (hall : lo + 1 = 2 ^ 64) :
    2 ^ 62 ≤ hi ∧ hi * (2 ^ 64 * (2 ^ 64 * Dn)) ≤ N ∧ N < (hi + 2) * (2 ^ 64 * (2 ^ 64 * Dn)) := by
  have hX190 : 2 ^ 126 * 2 ^ 64 ≤ wn * (hi5 * 2 ^ 64 + lo5) := by
    have hT : 2 ^ 63 * 2 ^ 64 ≤ hi5 * 2 ^ 64 + lo5 :=
      Nat.le_trans (Nat.mul_le_mul_right (2 ^ 64) hhi5n) (Nat.le_add_right _ _)
    calc 2 ^ 126 * 2 ^ 64 = 2 ^ 63 * (2 ^ 63 * 2 ^ 64) := by
          rw [← Nat.pow_add, ← Nat.pow_add, ← Nat.pow_add]
      _ ≤ wn * (hi5 * 2 ^ 64 + lo5) := Nat.mul_le_mul hwn1 hT
  have hF126 : 2 ^ 126 ≤ wn * hi5 := by
    calc 2 ^ 126 = 2 ^ 63 * 2 ^ 63 := by rw [← Nat.pow_add]
      _ ≤ wn * hi5 := Nat.mul_le_mul hwn1 hhi5n
  generalize hXv : wn * (hi5 * 2 ^ 64 + lo5) = X at *
  have hz126 : 2 ^ 126 ≤ hi * 2 ^ 64 + lo := by
    rcases hzup with h | ⟨h, _⟩
    · have h1 := Nat.lt_of_le_of_lt hX190 h
      have h2 := Nat.lt_of_mul_lt_mul_right h1
      omega
    · rw [h]; exact hF126
  have hhi62 : 2 ^ 62 ≤ hi := by
    have e : (2 : Nat) ^ 126 = 2 ^ 62 * 2 ^ 64 := by rw [← Nat.pow_add]
    apply Classical.byContradiction; intro hcon
    have h1 : hi + 1 ≤ 2 ^ 62 := by omega
    have h2 := Nat.mul_le_mul_right (2 ^ 64) h1
    rw [Nat.add_mul, Nat.one_mul] at h2
    omega
  refine ⟨hhi62, ?_, ?_⟩
  · calc hi * (2 ^ 64 * (2 ^ 64 * Dn)) = (hi * 2 ^ 64 * 2 ^ 64) * Dn := by ring
      _ ≤ ((hi * 2 ^ 64 + lo) * 2 ^ 64) * Dn :=
        Nat.mul_le_mul_right _ (Nat.mul_le_mul_right _ (Nat.le_add_right _ _))
      _ ≤ X * Dn := Nat.mul_le_mul_right _ hzlow
      _ ≤ N := hNlo
  · have hXw : X + wn ≤ (hi + 2) * 2 ^ 64 * 2 ^ 64 := by
      generalize 2 ^ 64 = B at hzup hwn2 hall ⊢
      rcases hzup with h | ⟨_, h⟩
      · have e3 : hi * B + lo + 1 = hi * B + B := by omega
        rw [e3] at h
        have e4 : (hi + 2) * B * B = (hi * B + B) * B + B * B := by ring
        have e5 : B ≤ B * B := Nat.le_mul_of_pos_left _ (by omega)
        rw [e4]
        generalize (hi * B + B) * B = Y at h ⊢
        generalize B * B = BB at e5 ⊢
        omega
      · have e0 : hi * B + lo + B + 1 = hi * B + 2 * B := by omega
        have e3 : (hi + 2) * B * B = (hi * B + lo + B) * B + B := by
          calc (hi + 2) * B * B = (hi * B + 2 * B) * B := by ring
            _ = (hi * B + lo + B + 1) * B := by rw [e0]
            _ = (hi * B + lo + B) * B + B := by ring
        rw [e3]
        generalize (hi * B + lo + B) * B = Y at h ⊢
        omega
    calc N < (X + wn) * Dn := hNhi
      _ ≤ ((hi + 2) * 2 ^ 64 * 2 ^ 64) * Dn := Nat.mul_le_mul_right _ hXw
      _ = (hi + 2) * (2 ^ 64 * (2 ^ 64 * Dn)) := by ring

/-- fields of `compute_error_scaled`: the upper word normalised, the binary exponent of the product, the marker -/
theorem ces_fields (F : FTy) (q : Int) (hi lz : Nat) (hhi : hi < 2 ^ 64) (hhi62 : 2 ^ 62 ≤ hi) :
    ∃ hilz : Nat, hilz ≤ 1 ∧ (computeErrorScaled F q hi lz).mant = hi * 2 ^ hilz ∧ 2 ^ 63 ≤ hi * 2 ^ hilz ∧
      hi * 2 ^ hilz < 2 ^ 64 ∧
      (computeErrorScaled F q hi lz).exp =
        power (wrapI32 q) + F.C.exponentBias - hilz - lz - 62 + invalidFp := by
  unfold computeErrorScaled shr shl64
  simp only []
  have hlit : litErrorBias = 62 := rfl
  rw [hlit]
  by_cases h63 : 2 ^ 63 ≤ hi
  · have hd : hi / 2 ^ 63 = 1 := by
      apply Nat.div_eq_of_lt_le <;> omega
    refine ⟨0, by omega, ?_, by omega, by omega, ?_⟩
    · rw [hd]; simp only [Nat.one_mod, if_true, Nat.pow_zero, Nat.mul_one]
      exact Nat.mod_eq_of_lt hhi
    · rw [hd]; simp
  · have hd : hi / 2 ^ 63 = 0 := Nat.div_eq_of_lt (by omega)
    refine ⟨1, by omega, ?_, by omega, by omega, ?_⟩
    · rw [hd]; simp only [Nat.zero_mod, Nat.zero_ne_one, if_false]
      exact Nat.mod_eq_of_lt (by omega)
    · rw [hd]; simp

/-! ## the lossy answer on the fall-back inputs -/

/-- with `lossy`, `compute_float` answers on `(q, w)` with a valid float which is `roundNE` of a value `n'/d'` that is at
most the exact `num/den` and within a factor `1 + 2^−61` of it (the computed 128-bit product, read as exact) -/
def LossyOK (F : FTy) (q : Int) (w num den : Nat) : Prop :=
  ∃ fp n' d', computeFloat F q w true = .ok fp ∧ 0 ≤ fp.exp ∧ 0 < d' ∧
    extendedToFloat F fp = roundNE F.fmt n' d' ∧ n' * den ≤ num * d' ∧
    num * d' * 2 ^ 61 ≤ n' * den * (2 ^ 61 + 1)

/-- with `lossy` the fall-back test is skipped: past the early exits `compute_float` is `cfRound` of the product -/
theorem computeFloat_lossy_eq (F : FTy) (q : Int) (w lo hi : Nat)
    (h1 : ¬ (w = 0 ∨ q < F.C.smallestPowerOfTen)) (h2 : ¬ q > F.C.largestPowerOfTen)
    (hcpa : computeProductApprox q (shl64m w (clz64 w)) (F.ms + litPrecisionExtra) = some (lo, hi)) :
    computeFloat F q w true = cfRound F q lo hi (clz64 w) := by
  unfold computeFloat
  rw [if_neg h1, if_neg h2]
  simp only [hcpa]
  simp

/-- **`cfRound` on a product with `lo ≥ 2`** (normal range): no tie is detected and the computed `z = hi·2^64 + lo` is not
a multiple of the rounding unit, so the answer encodes the half-to-even quotient of `z` itself -/
theorem cfRound_computed_normal {F p eb sm lg rlo rhi} (LL : LemLayout F p eb sm lg rlo rhi) (q : Int) (lo hi lz : Nat)
    (hlo2 : 2 ≤ lo) (hlo : lo < 2 ^ 64) (hhi_lt : hi < 2 ^ 64) (hhi_ge : 2 ^ 62 ≤ hi) (u sh : Nat)
    (hu : hi / 2 ^ 63 = u) (hshv : u + 62 - p = sh) (En : Nat)
    (hpw2 : power (wrapI32 q) + (u : Int) - (lz : Int) - F.C.minimumExponent = (((En + 1 : Nat)) : Int)) :
    ∃ fp, cfRound F q lo hi lz = .ok fp ∧ 0 ≤ fp.exp ∧
      extendedToFloat F fp = encode F.fmt En (rhe (hi * 2 ^ 64 + lo) (2 ^ sh * 2 ^ 64 * 2)) ∧
      2 ^ (p - 1) ≤ rhe (hi * 2 ^ 64 + lo) (2 ^ sh * 2 ^ 64 * 2) ∧
      rhe (hi * 2 ^ 64 + lo) (2 ^ sh * 2 ^ 64 * 2) ≤ 2 * 2 ^ (p - 1) ∧ 2 ^ p ≤ hi / 2 ^ sh := by
  have hB := Nat.two_pow_pos 64
  have hzB : (hi * 2 ^ 64 + lo) / 2 ^ 64 = hi := by
    rw [Nat.mul_comm, Nat.mul_add_div hB, Nat.div_eq_of_lt hlo, Nat.add_zero]
  have hquot : hi / 2 ^ sh = (hi * 2 ^ 64 + lo) / (2 ^ sh * 2 ^ 64) := by
    rw [Nat.mul_comm (2 ^ sh), ← Nat.div_div_eq_div_mul, hzB]
  have hmodne : (hi * 2 ^ 64 + lo) % (2 ^ sh * 2 ^ 64) ≠ 0 := by
    intro h
    have h1 : 2 ^ 64 ∣ hi * 2 ^ 64 + lo :=
      Nat.dvd_trans ⟨2 ^ sh, Nat.mul_comm _ _⟩ (Nat.dvd_of_mod_eq_zero h)
    have h2 : 2 ^ 64 ∣ lo := (Nat.dvd_add_right ⟨hi, Nat.mul_comm _ _⟩).mp h1
    have := Nat.le_of_dvd (by omega) h2
    omega
  apply cfRound_of_quot LL q lo hi lz hhi_lt hhi_ge u sh hu hshv (hi * 2 ^ 64 + lo) (2 ^ sh * 2 ^ 64) En
    (Nat.mul_pos (Nat.two_pow_pos _) hB) hquot ?_ hpw2
  have hL : decide (lo ≤ litTieLo) = false := by
    unfold litTieLo; simp only [decide_eq_false_iff_not]; omega
  rw [hL]
  simp only [Bool.false_and, Bool.false_eq_true, false_iff, not_and]
  intro h _
  exact hmodne h

theorem rel61 (z Dz N c : Nat) (hc : c * 2 ^ 61 ≤ z) (h : N ≤ (z + c) * Dz) :
    N * 2 ^ 61 ≤ z * Dz * (2 ^ 61 + 1) := by
  calc N * 2 ^ 61 ≤ (z + c) * Dz * 2 ^ 61 := Nat.mul_le_mul_right _ h
    _ = (z * 2 ^ 61 + c * 2 ^ 61) * Dz := by ring
    _ ≤ (z * 2 ^ 61 + z) * Dz := Nat.mul_le_mul_right _ (Nat.add_le_add_left hc _)
    _ = z * Dz * (2 ^ 61 + 1) := by ring

/-- the computed `z` and the exact value on a fall-back input: `z·Dz ≤ N < (z + 2^64 + 1)·Dz`, `z ≥ 2^126` -/
theorem lossy_bounds (wn hi5 lo5 lo hi N Dn : Nat)
    (hwn1 : 2 ^ 63 ≤ wn) (hwn2 : wn < 2 ^ 64) (hhi5n : 2 ^ 63 ≤ hi5) (hhi : hi < 2 ^ 64)
    (hzlow : (hi * 2 ^ 64 + lo) * 2 ^ 64 ≤ wn * (hi5 * 2 ^ 64 + lo5))
    (hzup : wn * (hi5 * 2 ^ 64 + lo5) < (hi * 2 ^ 64 + lo + 1) * 2 ^ 64 ∨
      (hi * 2 ^ 64 + lo = wn * hi5 ∧
        wn * (hi5 * 2 ^ 64 + lo5) < (hi * 2 ^ 64 + lo + 2 ^ 64) * 2 ^ 64))
    (hDn : 0 < Dn) (hNlo : wn * (hi5 * 2 ^ 64 + lo5) * Dn ≤ N)
    (hNhi : N < (wn * (hi5 * 2 ^ 64 + lo5) + wn) * Dn) (hall : lo + 1 = 2 ^ 64) :
    2 ^ 62 ≤ hi ∧ (hi * 2 ^ 64 + lo) * (2 ^ 64 * Dn) ≤ N ∧
      N * 2 ^ 61 ≤ (hi * 2 ^ 64 + lo) * (2 ^ 64 * Dn) * (2 ^ 61 + 1) := by
  obtain ⟨hhi62, _, hupp⟩ := fallback_bounds wn hi5 lo5 lo hi N Dn hwn1 hwn2 hhi5n hhi hzlow hzup hDn hNlo hNhi hall
  have hlowz : (hi * 2 ^ 64 + lo) * (2 ^ 64 * Dn) ≤ N := by
    calc (hi * 2 ^ 64 + lo) * (2 ^ 64 * Dn) = ((hi * 2 ^ 64 + lo) * 2 ^ 64) * Dn := by ring
      _ ≤ wn * (hi5 * 2 ^ 64 + lo5) * Dn := Nat.mul_le_mul_right _ hzlow
      _ ≤ N := hNlo
  refine ⟨hhi62, hlowz, ?_⟩
  -- (hi + 2)·B = z + B + 1, and (B + 1)·2^61 ≤ 2^126 ≤ z
  have hz : (hi + 2) * 2 ^ 64 = hi * 2 ^ 64 + lo + (2 ^ 64 + 1) := by
    rw [Nat.add_mul]; omega
  have h126 : (2 ^ 64 + 1) * 2 ^ 61 ≤ hi * 2 ^ 64 + lo := by
    have e1 : (2 ^ 64 + 1) * 2 ^ 61 ≤ 2 ^ 62 * 2 ^ 64 := by decide
    have e2 : 2 ^ 62 * 2 ^ 64 ≤ hi * 2 ^ 64 := Nat.mul_le_mul_right _ hhi62
    exact Nat.le_trans e1 (Nat.le_trans e2 (Nat.le_add_right _ _))
  have hDz : 0 < 2 ^ 64 * Dn := Nat.mul_pos (Nat.two_pow_pos 64) hDn
  have hupp' : N ≤ (hi * 2 ^ 64 + lo + (2 ^ 64 + 1)) * (2 ^ 64 * Dn) := by
    rw [← hz]
    calc N ≤ (hi + 2) * (2 ^ 64 * (2 ^ 64 * Dn)) := Nat.le_of_lt hupp
      _ = (hi + 2) * 2 ^ 64 * (2 ^ 64 * Dn) := by ring
  exact rel61 _ _ _ _ h126 hupp'

theorem fb_eq_pos (q b lz hilz K S p Lf : Nat) (Cb P : Int) (hL : (Lf : Int) = Cb - 1) (hb65 : 65 ≤ b)
    (hP : P = 62 + (q : Int) + (b : Int) + Cb - hilz - lz - 62) (hrel : (S : Int) + (P - 1) = K) :
    (128 + (b - 128)) + (q + Lf + S) = (hilz + K) + (lz + (128 - b)) := by omega

theorem fb_eq_neg (e b lz hilz K S p Lf : Nat) (Cb P : Int) (hL : (Lf : Int) = Cb - 1)
    (hP : P = (63 : Int) - e - b + Cb - hilz - lz - 62) (hrel : (S : Int) + (P - 1) = K) :
    128 + (Lf + S) = (hilz + K + e) + (lz + (b + 127)) := by omega

/-- the fall-back answer on a row `q ≥ 28` is an estimate of `w·10^q` -/
theorem estOK_pos {F p eb} (lay : Layout F p eb) (q b lz hi w : Nat) (hb65 : 65 ≤ b) (hb716 : b ≤ 716)
    (hq308 : q ≤ 308) (hlz : lz ≤ 63) (hhi : hi < 2 ^ 64) (hhi62 : 2 ^ 62 ≤ hi) (hpow : power (wrapI32 (q : Int)) = 62 + (q : Int) + (b : Int))
    (hlow : hi * (2 ^ 64 * (2 ^ 64 * 2 ^ (b - 128))) ≤ w * 2 ^ lz * 5 ^ q * 2 ^ (128 - b))
    (hupp : w * 2 ^ lz * 5 ^ q * 2 ^ (128 - b) < (hi + 2) * (2 ^ 64 * (2 ^ 64 * 2 ^ (b - 128)))) :
    EstOK F p (computeErrorScaled F (q : Int) hi lz) (w * 10 ^ q) 1 := by
  obtain ⟨hilz, hh1, hm, hm1, hm2, he⟩ := ces_fields F (q : Int) hi lz hhi hhi62
  have hLeq : (L F.fmt : Int) = F.C.exponentBias - 1 := by
    rw [L_eq lay, lay.bias]; have := lay.hL127; omega
  have hbias := lay.bias
  have hb1024 := lay.hb1024
  have hp64 := lay.hp64
  unfold EstOK
  rw [hm, he]
  refine ⟨hm1, hm2, by rw [hpow, hbias]; omega, by rw [hpow, hbias]; omega, ?_, ?_⟩
  all_goals
    rw [show power (wrapI32 (q : Int)) + F.C.exponentBias - (hilz : Int) - (lz : Int) - 62 + invalidFp - invalidFp =
      power (wrapI32 (q : Int)) + F.C.exponentBias - (hilz : Int) - (lz : Int) - 62 by omega]
    generalize hP : power (wrapI32 (q : Int)) + F.C.exponentBias - (hilz : Int) - (lz : Int) - 62 = P
    have hrel := shift_rel p (by have := lay.hp64; omega) P
    generalize hK : (P + 64 - p - 1).toNat = K at *
    generalize hS : shiftOf p P = S at *
    have heq := fb_eq_pos q b lz hilz K S p (L F.fmt) F.C.exponentBias P hLeq hb65 (by rw [← hP, hpow]) hrel
    have h10 : (10 : Nat) ^ q = 5 ^ q * 2 ^ q := by rw [← Nat.mul_pow]
  · have h1 : hi * 2 ^ (128 + (b - 128)) ≤ (w * 5 ^ q) * 2 ^ (lz + (128 - b)) := by
      calc hi * 2 ^ (128 + (b - 128)) = hi * (2 ^ 64 * (2 ^ 64 * 2 ^ (b - 128))) := by
            rw [Nat.pow_add, show (2 : Nat) ^ 128 = 2 ^ 64 * 2 ^ 64 by rw [← Nat.pow_add]]; ring
        _ ≤ w * 2 ^ lz * 5 ^ q * 2 ^ (128 - b) := hlow
        _ = (w * 5 ^ q) * 2 ^ (lz + (128 - b)) := by rw [Nat.pow_add]; ring
    have h2 := pow_shift_le hi (w * 5 ^ q) _ _ (hilz + K) (q + L F.fmt + S) h1 heq
    calc hi * 2 ^ hilz * 2 ^ K * 1 = hi * 2 ^ (hilz + K) := by rw [Nat.pow_add]; ring
      _ ≤ (w * 5 ^ q) * 2 ^ (q + L F.fmt + S) := h2
      _ = w * 10 ^ q * 2 ^ L F.fmt * 2 ^ S := by rw [h10, Nat.pow_add, Nat.pow_add]; ring
  · have h1 : (w * 5 ^ q) * 2 ^ (lz + (128 - b)) < (hi + 2) * 2 ^ (128 + (b - 128)) := by
      calc (w * 5 ^ q) * 2 ^ (lz + (128 - b)) = w * 2 ^ lz * 5 ^ q * 2 ^ (128 - b) := by rw [Nat.pow_add]; ring
        _ < (hi + 2) * (2 ^ 64 * (2 ^ 64 * 2 ^ (b - 128))) := hupp
        _ = (hi + 2) * 2 ^ (128 + (b - 128)) := by
            rw [Nat.pow_add, show (2 : Nat) ^ 128 = 2 ^ 64 * 2 ^ 64 by rw [← Nat.pow_add]]; ring
    have h2 := pow_shift_lt (hi + 2) (w * 5 ^ q) _ _ (hilz + K) (q + L F.fmt + S) h1 heq
    have h4 : 2 * 2 ^ hilz ≤ 4 := by
      rcases Nat.le_one_iff_eq_zero_or_eq_one.mp hh1 with h | h <;> rw [h] <;> decide
    calc w * 10 ^ q * 2 ^ L F.fmt * 2 ^ S = (w * 5 ^ q) * 2 ^ (q + L F.fmt + S) := by
          rw [h10, Nat.pow_add, Nat.pow_add]; ring
      _ < (hi + 2) * 2 ^ (hilz + K) := h2
      _ = (hi * 2 ^ hilz + 2 * 2 ^ hilz) * 2 ^ K := by rw [Nat.pow_add]; ring
      _ ≤ (hi * 2 ^ hilz + 4) * 2 ^ K := Nat.mul_le_mul_right _ (by omega)
      _ = (hi * 2 ^ hilz + 4) * 2 ^ K * 1 := by ring

/-- the fall-back answer on a row `−e ≤ −28` is an estimate of `w / 10^e` -/
theorem estOK_neg {F p eb} (lay : Layout F p eb) (e b lz hi w : Nat) (hb795 : b ≤ 795) (he342 : e ≤ 342)
    (hlz : lz ≤ 63) (hhi : hi < 2 ^ 64) (hhi62 : 2 ^ 62 ≤ hi)
    (hpow : power (wrapI32 (-(e : Int))) = 63 - (e : Int) - (b : Int))
    (hlow : hi * (2 ^ 64 * (2 ^ 64 * 5 ^ e)) ≤ w * 2 ^ lz * 2 ^ (b + 127))
    (hupp : w * 2 ^ lz * 2 ^ (b + 127) < (hi + 2) * (2 ^ 64 * (2 ^ 64 * 5 ^ e))) :
    EstOK F p (computeErrorScaled F (-(e : Int)) hi lz) w (10 ^ e) := by
  obtain ⟨hilz, hh1, hm, hm1, hm2, he⟩ := ces_fields F (-(e : Int)) hi lz hhi hhi62
  have hLeq : (L F.fmt : Int) = F.C.exponentBias - 1 := by
    rw [L_eq lay, lay.bias]; have := lay.hL127; omega
  have hbias := lay.bias
  have hb1024 := lay.hb1024
  have hp64 := lay.hp64
  unfold EstOK
  rw [hm, he]
  refine ⟨hm1, hm2, by rw [hpow, hbias]; omega, by rw [hpow, hbias]; omega, ?_, ?_⟩
  all_goals
    rw [show power (wrapI32 (-(e : Int))) + F.C.exponentBias - (hilz : Int) - (lz : Int) - 62 + invalidFp - invalidFp =
      power (wrapI32 (-(e : Int))) + F.C.exponentBias - (hilz : Int) - (lz : Int) - 62 by omega]
    generalize hP : power (wrapI32 (-(e : Int))) + F.C.exponentBias - (hilz : Int) - (lz : Int) - 62 = P
    have hrel := shift_rel p (by have := lay.hp64; omega) P
    generalize hK : (P + 64 - p - 1).toNat = K at *
    generalize hS : shiftOf p P = S at *
    have heq := fb_eq_neg e b lz hilz K S p (L F.fmt) F.C.exponentBias P hLeq (by rw [← hP, hpow]) hrel
    have h10 : (10 : Nat) ^ e = 5 ^ e * 2 ^ e := by rw [← Nat.mul_pow]
  · have h1 : (hi * 5 ^ e) * 2 ^ 128 ≤ w * 2 ^ (lz + (b + 127)) := by
      calc (hi * 5 ^ e) * 2 ^ 128 = hi * (2 ^ 64 * (2 ^ 64 * 5 ^ e)) := by
            rw [show (2 : Nat) ^ 128 = 2 ^ 64 * 2 ^ 64 by rw [← Nat.pow_add]]; ring
        _ ≤ w * 2 ^ lz * 2 ^ (b + 127) := hlow
        _ = w * 2 ^ (lz + (b + 127)) := by rw [Nat.pow_add 2 lz]; ring
    have h2 := pow_shift_le (hi * 5 ^ e) w _ _ (hilz + K + e) (L F.fmt + S) h1 heq
    calc hi * 2 ^ hilz * 2 ^ K * 10 ^ e = (hi * 5 ^ e) * 2 ^ (hilz + K + e) := by
          rw [h10, Nat.pow_add, Nat.pow_add]; ring
      _ ≤ w * 2 ^ (L F.fmt + S) := h2
      _ = w * 2 ^ L F.fmt * 2 ^ S := by rw [Nat.pow_add]; ring
  · have h1 : w * 2 ^ (lz + (b + 127)) < ((hi + 2) * 5 ^ e) * 2 ^ 128 := by
      calc w * 2 ^ (lz + (b + 127)) = w * 2 ^ lz * 2 ^ (b + 127) := by rw [Nat.pow_add 2 lz]; ring
        _ < (hi + 2) * (2 ^ 64 * (2 ^ 64 * 5 ^ e)) := hupp
        _ = ((hi + 2) * 5 ^ e) * 2 ^ 128 := by
            rw [show (2 : Nat) ^ 128 = 2 ^ 64 * 2 ^ 64 by rw [← Nat.pow_add]]; ring
    have h2 := pow_shift_lt ((hi + 2) * 5 ^ e) w _ _ (hilz + K + e) (L F.fmt + S) h1 heq
    have h4 : 2 * 2 ^ hilz ≤ 4 := by
      rcases Nat.le_one_iff_eq_zero_or_eq_one.mp hh1 with h | h <;> rw [h] <;> decide
    calc w * 2 ^ L F.fmt * 2 ^ S = w * 2 ^ (L F.fmt + S) := by rw [Nat.pow_add]; ring
      _ < ((hi + 2) * 5 ^ e) * 2 ^ (hilz + K + e) := h2
      _ = (hi * 2 ^ hilz + 2 * 2 ^ hilz) * 2 ^ K * (5 ^ e * 2 ^ e) := by rw [Nat.pow_add, Nat.pow_add]; ring
      _ ≤ (hi * 2 ^ hilz + 4) * 2 ^ K * (5 ^ e * 2 ^ e) :=
        Nat.mul_le_mul_right _ (Nat.mul_le_mul_right _ (by omega))
      _ = (hi * 2 ^ hilz + 4) * 2 ^ K * 10 ^ e := by rw [h10]

theorem en_lossy_pos (q b u lz bias sh p Lf : Nat) (hshv : u + 62 - p = sh) (hL : Lf = bias + (p - 1) - 1) (hu : u ≤ 1)
    (hp : 2 ≤ p) (hp61 : p ≤ 61) (hb129 : 129 ≤ b) (hq56 : 56 ≤ q) (hlz : lz ≤ 63) :
    61 + q + b + u + bias - lz = sh + 65 + ((q + b - lz - 64) + Lf) := by omega

/-- the lossy answer on a fall-back input of a row `q ≥ 56` -/
theorem lossyOK_pos {F p eb sm lg rlo rhi} (LL : LemLayout F p eb sm lg rlo rhi) (q b lz hi lo w : Nat)
    (hb129 : 129 ≤ b) (hq56 : 56 ≤ q) (hlz : lz ≤ 63) (hlo : lo < 2 ^ 64) (hall : lo + 1 = 2 ^ 64)
    (hhi : hi < 2 ^ 64) (hhi62 : 2 ^ 62 ≤ hi)
    (hpow : power (wrapI32 (q : Int)) = 62 + (q : Int) + (b : Int))
    (hlossy : computeFloat F (q : Int) w true = cfRound F (q : Int) lo hi lz)
    (hzl : (hi * 2 ^ 64 + lo) * (2 ^ 64 * 2 ^ (b - 128)) ≤ w * 2 ^ lz * 5 ^ q * 2 ^ (128 - b))
    (hzu : w * 2 ^ lz * 5 ^ q * 2 ^ (128 - b) * 2 ^ 61 ≤
      (hi * 2 ^ 64 + lo) * (2 ^ 64 * 2 ^ (b - 128)) * (2 ^ 61 + 1)) :
    LossyOK F (q : Int) w (w * 10 ^ q) 1 := by
  have lay := LL.lay
  have hf := lay.wf
  have hp := lay.hp; have hp64 := lay.hp64; have heb := lay.heb
  have hfp : F.fmt.p = p := by rw [lay.fmt]
  have hp61 : p ≤ 61 := by
    have h1 := lay.hpb
    have : eb ≠ 2 := by intro h; subst h; omega
    omega
  have hk0 : 128 - b = 0 := by omega
  rw [hk0, Nat.pow_zero, Nat.mul_one] at hzl hzu
  generalize hu : hi / 2 ^ 63 = u
  generalize hshv : u + 62 - p = sh
  have hu01 : u ≤ 1 := by
    rw [← hu]
    have : hi / 2 ^ 63 < 2 := by
      rw [Nat.div_lt_iff_lt_mul (Nat.two_pow_pos _)]; omega
    omega
  have hpw2 : power (wrapI32 (q : Int)) + (u : Int) - (lz : Int) - F.C.minimumExponent =
      (((61 + q + b + u + (2 ^ (eb - 1) - 1) - lz + 1 : Nat)) : Int) := by
    rw [hpow, LL.minimum]; omega
  obtain ⟨fp, hfp1, hfp2, hfp3, hq0lo, hq0hi, hm0lo⟩ := cfRound_computed_normal LL (q : Int) lo hi lz (by omega) hlo
    hhi hhi62 u sh hu hshv _ hpw2
  have h10 : (10 : Nat) ^ q = 5 ^ q * 2 ^ q := by rw [← Nat.mul_pow]
  refine ⟨fp, (hi * 2 ^ 64 + lo) * 2 ^ (q + b - lz - 64), 1, by rw [hlossy]; exact hfp1, hfp2, Nat.one_pos, ?_, ?_, ?_⟩
  · rw [hfp3]
    symm
    have hL := L_eq lay
    apply roundNE_of_scaled hf (by decide) _ (hi * 2 ^ 64 + lo) _ (2 ^ ((q + b - lz - 64) + L F.fmt))
      (Nat.two_pow_pos _) (Nat.mul_pos (Nat.mul_pos (Nat.two_pow_pos _) (Nat.two_pow_pos _)) (by decide))
    · rw [Nat.pow_add]; ring
    · rw [Nat.one_mul]
      rw [show ∀ a c : Nat, 2 ^ a * 2 ^ 64 * 2 * 2 ^ c = 2 ^ (a + 65 + c) from fun a c => by
        rw [Nat.pow_add, Nat.pow_add]; ring]
      exact two_pow_congr (en_lossy_pos q b u lz (2 ^ (eb - 1) - 1) sh p (L F.fmt) hshv hL hu01 hp hp61 hb129 hq56 hlz)
    · intro _; rw [hfp]; exact hq0lo
    · rw [hfp]; exact hq0hi
    · intro _
      rw [hfp]
      have hTT : 2 ^ p = 2 * 2 ^ (p - 1) := two_pow_pred (by omega)
      have hdm := Nat.div_mul_le_self hi (2 ^ sh)
      calc 2 ^ sh * 2 ^ 64 * 2 * 2 ^ (p - 1) = (2 ^ p * 2 ^ sh) * 2 ^ 64 := by rw [hTT]; ring
        _ ≤ (hi / 2 ^ sh * 2 ^ sh) * 2 ^ 64 := Nat.mul_le_mul_right _ (Nat.mul_le_mul_right _ hm0lo)
        _ ≤ hi * 2 ^ 64 := Nat.mul_le_mul_right _ hdm
        _ ≤ hi * 2 ^ 64 + lo := Nat.le_add_right _ _
  · have h1 : (hi * 2 ^ 64 + lo) * 2 ^ (64 + (b - 128)) ≤ (w * 5 ^ q) * 2 ^ lz := by
      calc (hi * 2 ^ 64 + lo) * 2 ^ (64 + (b - 128)) = (hi * 2 ^ 64 + lo) * (2 ^ 64 * 2 ^ (b - 128)) := by
            rw [Nat.pow_add]
        _ ≤ w * 2 ^ lz * 5 ^ q := hzl
        _ = (w * 5 ^ q) * 2 ^ lz := by ring
    have h2 := pow_shift_le (hi * 2 ^ 64 + lo) (w * 5 ^ q) _ _ (q + b - lz - 64) q h1 (by omega)
    calc (hi * 2 ^ 64 + lo) * 2 ^ (q + b - lz - 64) * 1 = (hi * 2 ^ 64 + lo) * 2 ^ (q + b - lz - 64) := by ring
      _ ≤ (w * 5 ^ q) * 2 ^ q := h2
      _ = w * 10 ^ q * 1 := by rw [h10]; ring
  · have h1 : (w * 5 ^ q * 2 ^ 61) * 2 ^ lz ≤ ((hi * 2 ^ 64 + lo) * (2 ^ 61 + 1)) * 2 ^ (64 + (b - 128)) := by
      calc (w * 5 ^ q * 2 ^ 61) * 2 ^ lz = w * 2 ^ lz * 5 ^ q * 2 ^ 61 := by ring
        _ ≤ (hi * 2 ^ 64 + lo) * (2 ^ 64 * 2 ^ (b - 128)) * (2 ^ 61 + 1) := hzu
        _ = ((hi * 2 ^ 64 + lo) * (2 ^ 61 + 1)) * 2 ^ (64 + (b - 128)) := by rw [Nat.pow_add]; ring
    have h2 := pow_shift_le (w * 5 ^ q * 2 ^ 61) ((hi * 2 ^ 64 + lo) * (2 ^ 61 + 1)) _ _ q (q + b - lz - 64) h1
      (by omega)
    calc w * 10 ^ q * 1 * 2 ^ 61 = (w * 5 ^ q * 2 ^ 61) * 2 ^ q := by rw [h10]; ring
      _ ≤ ((hi * 2 ^ 64 + lo) * (2 ^ 61 + 1)) * 2 ^ (q + b - lz - 64) := h2
      _ = (hi * 2 ^ 64 + lo) * 2 ^ (q + b - lz - 64) * 1 * (2 ^ 61 + 1) := by ring

/-- **`compute_float` on the truncated rows** `28 ≤ q ≤ 308`: it answers, and a valid answer is `roundNE (w·10^q)`.
(When the low word is all ones on a truncated row the code falls back: the answer is invalid-marked.) -/
theorem computeFloat_trunc_pos {F p eb sm lg rlo rhi} (LL : LemLayout F p eb sm lg rlo rhi) (hrhi : rhi < 28)
    (q : Nat) (h28 : 28 ≤ q) (h308 : q ≤ 308) (hqlg : (q : Int) ≤ lg) (w : Nat) (hw0 : w ≠ 0) (hw : w < 2 ^ 64) :
    ∃ fp, computeFloat F (q : Int) w false = .ok fp ∧
      (0 ≤ fp.exp → extendedToFloat F fp = roundNE F.fmt (w * 10 ^ q) 1) ∧
      (fp.exp < 0 → EstOK F p fp (w * 10 ^ q) 1 ∧ LossyOK F (q : Int) w (w * 10 ^ q) 1) := by
  have lay := LL.lay
  have hf := lay.wf
  have hp := lay.hp; have hp64 := lay.hp64; have heb := lay.heb
  have hms := lay.msNat
  have hfp : F.fmt.p = p := by rw [lay.fmt]
  have hp61 : p ≤ 61 := by
    have h1 := lay.hpb
    have : eb ≠ 2 := by intro h; subst h; omega
    omega
  obtain ⟨hi5, lo5, hrow, hhi5, hlo5, hhi5n, hb65, hTlo, hThi, hpow, hb716, hb128, hb129⟩ := rows_pos q h28 h308
  obtain ⟨hlz, hwn1, hwn2, hshl⟩ := clz_norm hw0 hw
  have hidx : ((q : Int) + 342).toNat = q + 342 := by omega
  have hprec : F.ms + litPrecisionExtra = p + 2 := by rw [hms]; show p - 1 + 3 = p + 2; omega
  obtain ⟨lo, hi, hcpa, hlo, hhi, hzlow, hzup⟩ := cpa_bounds (q : Int) (by omega) (by omega) hi5 lo5
    (by rw [hidx]; exact hrow) hhi5 hlo5 (w * 2 ^ clz64 w) (F.ms + litPrecisionExtra) (by rw [hprec]; omega) hwn2
  have hlossy : computeFloat F (q : Int) w true = cfRound F (q : Int) lo hi (clz64 w) :=
    computeFloat_lossy_eq F (q : Int) w lo hi
      (by intro h; rcases h with h | h; exact hw0 h; rw [LL.smallest] at h; omega)
      (by rw [LL.largest]; omega) (by rw [hshl]; exact hcpa)
  unfold computeFloat
  rw [if_neg (by intro h; rcases h with h | h; exact hw0 h; rw [LL.smallest] at h; omega),
    if_neg (by rw [LL.largest]; omega)]
  simp only [hshl, hcpa]
  generalize hlzv : clz64 w = lz at *
  generalize hb5 : bitlen (5 ^ q) = b at *
  have hAll : litAllOnes = 2 ^ 64 - 1 := by decide
  have hwn0 : 0 < w * 2 ^ lz := by have := Nat.two_pow_pos 63; omega
  have hNlo : w * 2 ^ lz * (hi5 * 2 ^ 64 + lo5) * 2 ^ (b - 128) ≤ w * 2 ^ lz * 5 ^ q * 2 ^ (128 - b) := by
    calc w * 2 ^ lz * (hi5 * 2 ^ 64 + lo5) * 2 ^ (b - 128)
        = w * 2 ^ lz * ((hi5 * 2 ^ 64 + lo5) * 2 ^ (b - 128)) := by ring
      _ ≤ w * 2 ^ lz * (5 ^ q * 2 ^ (128 - b)) := Nat.mul_le_mul_left _ hTlo
      _ = w * 2 ^ lz * 5 ^ q * 2 ^ (128 - b) := by ring
  have hNhi : w * 2 ^ lz * 5 ^ q * 2 ^ (128 - b) <
      (w * 2 ^ lz * (hi5 * 2 ^ 64 + lo5) + w * 2 ^ lz) * 2 ^ (b - 128) := by
    calc w * 2 ^ lz * 5 ^ q * 2 ^ (128 - b) = w * 2 ^ lz * (5 ^ q * 2 ^ (128 - b)) := by ring
      _ < w * 2 ^ lz * ((hi5 * 2 ^ 64 + lo5 + 1) * 2 ^ (b - 128)) := Nat.mul_lt_mul_of_pos_left hThi hwn0
      _ = (w * 2 ^ lz * (hi5 * 2 ^ 64 + lo5) + w * 2 ^ lz) * 2 ^ (b - 128) := by ring
  by_cases hfb : lo = litAllOnes ∧ 55 < q
  · -- the fall-back: an invalid-marked answer
    have hc : (!false && lo == litAllOnes && !(decide (litSafeLo ≤ (q : Int)) && decide ((q : Int) ≤ litSafeHi))) = true := by
      have h2 : decide ((q : Int) ≤ litSafeHi) = false := by
        unfold litSafeHi; simp only [decide_eq_false_iff_not]; omega
      rw [hfb.1, h2]; simp
    rw [if_pos hc]
    refine ⟨_, rfl, fun hv => ?_, fun _ => ?_⟩
    · have := computeErrorScaled_neg lay (q : Int) hi lz (by rw [hpow]; omega)
      omega
    · have hall : lo + 1 = 2 ^ 64 := by
        rw [hfb.1, hAll]; exact Nat.sub_add_cancel (Nat.two_pow_pos 64)
      have hmb : 64 - (F.ms + litPrecisionExtra) = 62 - p := by rw [hprec]; omega
      obtain ⟨hhi62, hlow, hupp⟩ := fallback_bounds (w * 2 ^ lz) hi5 lo5 lo hi (w * 2 ^ lz * 5 ^ q * 2 ^ (128 - b))
        (2 ^ (b - 128)) hwn1 hwn2 hhi5n hhi hzlow (hzup.imp id (fun h => ⟨h.2.1, h.2.2⟩)) (Nat.two_pow_pos _)
        hNlo hNhi hall
      refine ⟨estOK_pos lay q b lz hi w hb65 hb716 h308 hlz hhi hhi62 hpow hlow hupp, ?_⟩
      obtain ⟨_, hzl, hzu⟩ := lossy_bounds (w * 2 ^ lz) hi5 lo5 lo hi (w * 2 ^ lz * 5 ^ q * 2 ^ (128 - b))
        (2 ^ (b - 128)) hwn1 hwn2 hhi5n hhi hzlow (hzup.imp id (fun h => ⟨h.2.1, h.2.2⟩)) (Nat.two_pow_pos _)
        hNlo hNhi hall
      exact lossyOK_pos LL q b lz hi lo w (hb129 hfb.2) (by omega) hlz hlo hall hhi hhi62 hpow hlossy hzl hzu
  · have hc : (!false && lo == litAllOnes && !(decide (litSafeLo ≤ (q : Int)) && decide ((q : Int) ≤ litSafeHi))) = false := by
      by_cases hl : lo = litAllOnes
      · have hq55 : q ≤ 55 := by
          apply Classical.byContradiction; intro hcon; exact hfb ⟨hl, by omega⟩
        have h1 : decide (litSafeLo ≤ (q : Int)) = true := by
          unfold litSafeLo; simp only [decide_eq_true_eq]; omega
        have h2 : decide ((q : Int) ≤ litSafeHi) = true := by
          unfold litSafeHi; simp only [decide_eq_true_eq]; omega
        rw [h1, h2]; simp
      · have : (lo == litAllOnes) = false := by simp [hl]
        rw [this]; simp
    rw [hc]
    simp only [Bool.false_eq_true, if_false]
    -- exact rows: N = X
    have hexact : b ≤ 128 → w * 2 ^ lz * 5 ^ q * 2 ^ (128 - b) = w * 2 ^ lz * (hi5 * 2 ^ 64 + lo5) := by
      intro hb'
      have hk0 : b - 128 = 0 := by omega
      simp only [hk0, Nat.pow_zero, Nat.mul_one] at hTlo hThi
      have hV : 5 ^ q * 2 ^ (128 - b) = hi5 * 2 ^ 64 + lo5 :=
        Nat.le_antisymm (Nat.lt_succ_iff.mp hThi) hTlo
      rw [Nat.mul_assoc, hV]
    have hX190 : 2 ^ 126 * 2 ^ 64 ≤ w * 2 ^ lz * (hi5 * 2 ^ 64 + lo5) := by
      have hT : 2 ^ 63 * 2 ^ 64 ≤ hi5 * 2 ^ 64 + lo5 :=
        Nat.le_trans (Nat.mul_le_mul_right (2 ^ 64) hhi5n) (Nat.le_add_right _ _)
      calc 2 ^ 126 * 2 ^ 64 = 2 ^ 63 * (2 ^ 63 * 2 ^ 64) := by
            rw [← Nat.pow_add, ← Nat.pow_add, ← Nat.pow_add]
        _ ≤ w * 2 ^ lz * (hi5 * 2 ^ 64 + lo5) := Nat.mul_le_mul hwn1 hT
    have hF126 : 2 ^ 126 ≤ w * 2 ^ lz * hi5 := by
      calc 2 ^ 126 = 2 ^ 63 * 2 ^ 63 := by rw [← Nat.pow_add]
        _ ≤ w * 2 ^ lz * hi5 := Nat.mul_le_mul hwn1 hhi5n
    generalize hwnv : w * 2 ^ lz = wn at *
    generalize hXv : wn * (hi5 * 2 ^ 64 + lo5) = X at *
    generalize hNv : wn * 5 ^ q * 2 ^ (128 - b) = N at *
    have hz126 : 2 ^ 126 ≤ hi * 2 ^ 64 + lo := by
      rcases hzup with h | ⟨_, h, _⟩
      · have h1 := Nat.lt_of_le_of_lt hX190 h
        have h2 := Nat.lt_of_mul_lt_mul_right h1
        omega
      · rw [h]; exact hF126
    have hhi62 : 2 ^ 62 ≤ hi := by
      have e : (2 : Nat) ^ 126 = 2 ^ 62 * 2 ^ 64 := by rw [← Nat.pow_add]
      apply Classical.byContradiction; intro hcon
      have h1 : hi + 1 ≤ 2 ^ 62 := by omega
      have h2 := Nat.mul_le_mul_right (2 ^ 64) h1
      rw [Nat.add_mul, Nat.one_mul] at h2
      omega
    generalize hu : hi / 2 ^ 63 = u
    have hu01 : u ≤ 1 := by
      rw [← hu]
      have : hi / 2 ^ 63 < 2 := by
        rw [Nat.div_lt_iff_lt_mul (Nat.two_pow_pos _)]; omega
      omega
    generalize hshv : u + 62 - p = sh
    have hB := Nat.two_pow_pos 64
    have hKpos := Nat.two_pow_pos (b - 128)
    have hlowN : (hi * 2 ^ 64 + lo) * (2 ^ 64 * 2 ^ (b - 128)) ≤ N := by
      calc (hi * 2 ^ 64 + lo) * (2 ^ 64 * 2 ^ (b - 128))
          = ((hi * 2 ^ 64 + lo) * 2 ^ 64) * 2 ^ (b - 128) := by ring
        _ ≤ X * 2 ^ (b - 128) := Nat.mul_le_mul_right _ hzlow
        _ ≤ N := hNlo
    have hmodlt := Nat.mod_lt hi (Nat.two_pow_pos sh)
    have hquot : N / (2 ^ sh * 2 ^ 64 * (2 ^ 64 * 2 ^ (b - 128))) = hi / 2 ^ sh := by
      rcases hzup with h | ⟨hm, _, h⟩
      · by_cases hl : lo = litAllOnes
        · have hq55 : q ≤ 55 := by
            apply Classical.byContradiction; intro hcon; exact hfb ⟨hl, by omega⟩
          have hb' := hb128 hq55
          have hNX : N = X := hexact hb'
          have hk0 : b - 128 = 0 := by omega
          apply quot_stable hi lo sh N _ 1 (2 ^ 64) hlowN ?_ ?_ (Nat.mul_pos hB hKpos) hB
          · rw [hk0, Nat.pow_zero, Nat.mul_one, hNX]; exact h
          · exact room_of_lt (by omega) (by omega)
        · have hlo2 : lo + 2 ≤ 2 ^ 64 := by rw [hAll] at hl; omega
          apply quot_stable hi lo sh N _ 2 (2 ^ 64) hlowN ?_ ?_ (Nat.mul_pos hB hKpos) hB
          · calc N < (X + wn) * 2 ^ (b - 128) := hNhi
              _ ≤ ((hi * 2 ^ 64 + lo + 2) * 2 ^ 64) * 2 ^ (b - 128) := Nat.mul_le_mul_right _ (by
                  have : (hi * 2 ^ 64 + lo + 2) * 2 ^ 64 = (hi * 2 ^ 64 + lo + 1) * 2 ^ 64 + 2 ^ 64 := by ring
                  omega)
              _ = (hi * 2 ^ 64 + lo + 2) * (2 ^ 64 * 2 ^ (b - 128)) := by ring
          · exact room_of_lt (by omega) (by omega)
      · have hmb : 64 - (F.ms + litPrecisionExtra) = 62 - p := by rw [hprec]; omega
        rw [hmb] at hm
        have hm2 := mod_not_allOnes (show 62 - p ≤ sh by omega) hm
        apply quot_stable hi lo sh N _ (2 ^ 64 + 1) (2 ^ 64) hlowN ?_ ?_ (Nat.mul_pos hB hKpos) hB
        · calc N < (X + wn) * 2 ^ (b - 128) := hNhi
            _ ≤ ((hi * 2 ^ 64 + lo + (2 ^ 64 + 1)) * 2 ^ 64) * 2 ^ (b - 128) := Nat.mul_le_mul_right _ (by
                have : (hi * 2 ^ 64 + lo + (2 ^ 64 + 1)) * 2 ^ 64 =
                    (hi * 2 ^ 64 + lo + 2 ^ 64) * 2 ^ 64 + 2 ^ 64 := by ring
                omega)
            _ = (hi * 2 ^ 64 + lo + (2 ^ 64 + 1)) * (2 ^ 64 * 2 ^ (b - 128)) := by ring
        · exact room_of_lt2 hm2 (by omega)
    -- the tie test is off, and an exact tie is impossible
    have h5big : 2 ^ 64 < 5 ^ q := by
      calc 2 ^ 64 < 5 ^ 28 := by decide
        _ ≤ 5 ^ q := Nat.pow_le_pow_right (by decide) h28
    have hDpow : 2 ^ sh * 2 ^ 64 * (2 ^ 64 * 2 ^ (b - 128)) = 2 ^ (sh + 64 + (64 + (b - 128))) := by
      rw [← Nat.pow_add, ← Nat.pow_add, ← Nat.pow_add]
    have htie : ((decide (lo ≤ litTieLo) && decide ((q : Int) ≥ F.C.minExponentRoundToEven) &&
        decide ((q : Int) ≤ F.C.maxExponentRoundToEven) &&
        (hi / 2 ^ sh % (litTieMask + 1) == litTieVal) &&
        (shl64 (hi / 2 ^ sh) sh == hi)) = true) ↔
        (N % (2 ^ sh * 2 ^ 64 * (2 ^ 64 * 2 ^ (b - 128))) = 0 ∧
          N / (2 ^ sh * 2 ^ 64 * (2 ^ 64 * 2 ^ (b - 128))) % 4 = 1) := by
      have hL : decide ((q : Int) ≤ F.C.maxExponentRoundToEven) = false := by
        rw [LL.maxRTE]; simp only [decide_eq_false_iff_not]; omega
      rw [hL]
      simp only [Bool.and_false, Bool.false_and, Bool.false_eq_true, false_iff, not_and]
      intro hmod0 _
      have hdm := Nat.div_add_mod N (2 ^ sh * 2 ^ 64 * (2 ^ 64 * 2 ^ (b - 128)))
      rw [hmod0, Nat.add_zero, hquot, hDpow] at hdm
      have hm0pos : 0 < hi / 2 ^ sh := by
        have := Nat.two_pow_pos p
        rw [Nat.lt_iff_add_one_le, Nat.zero_add, Nat.le_div_iff_mul_le (Nat.two_pow_pos _), Nat.one_mul]
        calc 2 ^ sh ≤ 2 ^ 62 := Nat.pow_le_pow_right (by decide) (by omega)
          _ ≤ hi := hhi62
      have h5 := five_pow_le_of_tie q wn (128 - b) (hi / 2 ^ sh) _ hm0pos (by
        rw [← Nat.mul_assoc, hNv, ← hdm, Nat.mul_comm])
      have := Nat.div_le_self hi (2 ^ sh)
      omega
    have hpw2 : power (wrapI32 (q : Int)) + (u : Int) - (lz : Int) - F.C.minimumExponent =
        (((61 + q + b + u + (2 ^ (eb - 1) - 1) - lz + 1 : Nat)) : Int) := by
      rw [hpow, LL.minimum]
      omega
    obtain ⟨fp, hfp1, hfp2, hfp3, hq0lo, hq0hi, hm0lo⟩ := cfRound_of_quot LL (q : Int) lo hi lz hhi hhi62 u sh hu hshv
      N (2 ^ sh * 2 ^ 64 * (2 ^ 64 * 2 ^ (b - 128))) (61 + q + b + u + (2 ^ (eb - 1) - 1) - lz)
      (Nat.mul_pos (Nat.mul_pos (Nat.two_pow_pos _) hB) (Nat.mul_pos hB hKpos)) hquot.symm htie hpw2
    refine ⟨fp, hfp1, fun _ => ?_, fun h => absurd h (by omega)⟩
    rw [hfp3]
    symm
    have hL := L_eq lay
    have hL127 := lay.hL127
    apply roundNE_of_scaled hf (by decide) _ N _ (2 ^ (q + L F.fmt - lz - (128 - b)))
      (Nat.two_pow_pos _) (Nat.mul_pos (Nat.mul_pos (Nat.mul_pos (Nat.two_pow_pos _) hB) (Nat.mul_pos hB hKpos)) (by decide))
    · rw [← hNv, ← hwnv, show (10 : Nat) ^ q = 5 ^ q * 2 ^ q by rw [← Nat.mul_pow]]
      have : 2 ^ lz * 2 ^ (128 - b) * 2 ^ (q + L F.fmt - lz - (128 - b)) = 2 ^ q * 2 ^ L F.fmt := by
        rw [← Nat.pow_add, ← Nat.pow_add, ← Nat.pow_add]; refine two_pow_congr ?_; omega
      calc w * (5 ^ q * 2 ^ q) * 2 ^ L F.fmt = w * 5 ^ q * (2 ^ q * 2 ^ L F.fmt) := by ring
        _ = w * 5 ^ q * (2 ^ lz * 2 ^ (128 - b) * 2 ^ (q + L F.fmt - lz - (128 - b))) := by rw [this]
        _ = w * 2 ^ lz * 5 ^ q * 2 ^ (128 - b) * 2 ^ (q + L F.fmt - lz - (128 - b)) := by ring
    · rw [Nat.one_mul, hDpow]
      rw [show ∀ a c : Nat, 2 ^ a * 2 * 2 ^ c = 2 ^ (a + 1 + c) from fun a c => by
        rw [Nat.pow_add, Nat.pow_add, Nat.pow_one]]
      exact two_pow_congr (en_eq q b u (2 ^ (eb - 1) - 1) lz sh p (L F.fmt) hshv hL hu01 hp hp61 hb65 hlz hL127)
    · intro _; rw [hfp]; exact hq0lo
    · rw [hfp]; exact hq0hi
    · intro _
      rw [hfp]
      have hdm := Nat.div_add_mod N (2 ^ sh * 2 ^ 64 * (2 ^ 64 * 2 ^ (b - 128)))
      have hTT : 2 ^ p = 2 * 2 ^ (p - 1) := two_pow_pred (by omega)
      calc 2 ^ sh * 2 ^ 64 * (2 ^ 64 * 2 ^ (b - 128)) * 2 * 2 ^ (p - 1)
          = 2 ^ sh * 2 ^ 64 * (2 ^ 64 * 2 ^ (b - 128)) * 2 ^ p := by rw [hTT]; ring
        _ ≤ 2 ^ sh * 2 ^ 64 * (2 ^ 64 * 2 ^ (b - 128)) * (N / (2 ^ sh * 2 ^ 64 * (2 ^ 64 * 2 ^ (b - 128)))) :=
          Nat.mul_le_mul_left _ (by rw [hquot]; exact hm0lo)
        _ ≤ N := by omega

end LexVerif.Proof.Lemire
