import LexVerif.Proof.WriteIntJeaiii
/-!
# Proof.WriteIntJeaiiiArms — one lemma per `write_digits!` arm (`@1, @2, @3, @3-4, @5, @5-6, @7-8, @9, @10, @10u64`)
-/
namespace LexVerif.Model.WriteInt
open LexVerif.Spec

/-- what every arm delivers: the numeral of `n` at offset 0, its length as the returned index -/
def ArmOK (r : Res (Buf × Nat)) (buf : Buf) (n : Nat) : Prop :=
  r = .ok (splice buf 0 (numeral 10 n), (numeral 10 n).length)

theorem fixed1_spec (buf : Buf) (q a : Nat) (ds : List Nat) (n k arg : Nat)
    (hchain : ∃ L0, q = a * 4294967296 + L0 ∧ Chain L0 ds) (hk : ds.length = k)
    (ha1 : 1 ≤ a) (ha : a < 10) (hds : ∀ d ∈ ds, d < 100) (hn : horner a ds = n)
    (hb : (numeral 10 n).length ≤ buf.length) (harg : arg = q / 2 ^ 32) :
    ArmOK (wr1 buf 0 arg >>= fun w => print2s k w.1 1 q) buf n := by
  obtain ⟨hq, hjd⟩ := chain_facts q a ds hchain hds
  obtain ⟨hnum, hlen⟩ := numeral_lead a ds n ha1 (by omega) hds hn
  rw [hk] at hjd hlen
  rw [if_pos ha] at hnum hlen
  unfold ArmOK
  rw [harg, hq, lead1_spec buf a k q ds ha hjd hds (by omega), hlen, hnum]

theorem fixed2_spec (buf : Buf) (q a : Nat) (ds : List Nat) (n k arg : Nat)
    (hchain : ∃ L0, q = a * 4294967296 + L0 ∧ Chain L0 ds) (hk : ds.length = k)
    (ha1 : 10 ≤ a) (ha : a < 100) (hds : ∀ d ∈ ds, d < 100) (hn : horner a ds = n)
    (hb : (numeral 10 n).length ≤ buf.length) (harg : arg = 2 * (q / 2 ^ 32)) :
    ArmOK (wr2 buf 0 arg >>= fun w => print2s k w.1 2 q) buf n := by
  obtain ⟨hq, hjd⟩ := chain_facts q a ds hchain hds
  obtain ⟨hnum, hlen⟩ := numeral_lead a ds n (by omega) ha hds hn
  rw [hk] at hjd hlen
  rw [if_neg (by omega)] at hnum hlen
  unfold ArmOK
  rw [harg, hq, lead2_spec buf a k q ds ha hjd hds (by omega), hlen, hnum]

theorem wd1_spec (buf : Buf) (n : Nat) (h : n < 10) (hb : (numeral 10 n).length ≤ buf.length) :
    ArmOK (wd1 buf n) buf n := by
  rw [numeral_one n h] at hb
  unfold ArmOK wd1
  rw [wr1_spec buf 0 n h (by simp at hb; omega), numeral_one n h]; rfl

theorem wd2_spec (bits : Nat) (buf : Buf) (n : Nat) (hbits : 8 ≤ bits) (h1 : 10 ≤ n) (h2 : n < 100)
    (hb : (numeral 10 n).length ≤ buf.length) : ArmOK (wd2 bits buf n) buf n := by
  rw [numeral_two n h1 h2] at hb
  have h256 : (2:Nat) ^ 8 ≤ 2 ^ bits := Nat.pow_le_pow_right (by omega) hbits
  have e : n * 2 % 2 ^ bits = 2 * n := by rw [Nat.mod_eq_of_lt (by omega)]; omega
  unfold ArmOK wd2
  rw [e, wr2_spec buf 0 n h2 (by simpa [pair] using hb), numeral_two n h1 h2]; rfl

theorem wd3_digits (buf : Buf) (a d1 : Nat) (ha1 : 1 ≤ a) (ha : a < 10) (h1 : d1 < 100)
    (hb : (numeral 10 (100 * a + d1)).length ≤ buf.length) : ArmOK (wd3 buf (100 * a + d1)) buf (100 * a + d1) := by
  obtain ⟨n, hn⟩ : ∃ n, n = (100 * a + d1) := ⟨_, rfl⟩
  rw [← hn] at hb ⊢
  obtain ⟨q, hq⟩ : ∃ q, q = n * 42949673 / 1 := ⟨_, rfl⟩
  have hq1 : 1 * q ≤ (100 * a + d1) * 42949673 := by rw [← hn]; omega
  have hq2 : (100 * a + d1) * 42949673 < 1 * (q + 1) := by rw [← hn]; omega
  have hc := c34 a d1 q ha1 (by omega) h1 hq1 hq2
  have hds : ∀ d ∈ [d1], d < 100 := by intro d hd; simp at hd; omega
  have hh : horner a [d1] = n := by simp [horner]; omega
  have e1 : n % 2 ^ 64 = n := by omega
  have e2 : n * 42949673 % 2 ^ 64 = n * 42949673 := by omega
  have hP : n % 2 ^ 64 * 42949673 % 2 ^ 64 = q := by rw [e1, e2]; omega
  unfold wd3
  simp only [Lit.m34, Lit.hi32, hP]
  exact fixed1_spec buf q a [d1] n 1 _ hc rfl ha1 ha hds hh hb rfl

theorem wd3_spec (buf : Buf) (n : Nat) (h1 : 100 ≤ n) (h2 : n < 1000)
    (hb : (numeral 10 n).length ≤ buf.length) : ArmOK (wd3 buf n) buf n := by
  have hn : (100 * (n / 100) + (n % 100)) = n := by omega
  have := wd3_digits buf (n / 100) (n % 100) (by omega) (by omega) (by omega) (by rw [hn]; exact hb)
  rwa [hn] at this

theorem wd34_digits (buf : Buf) (a d1 : Nat) (ha1 : 1 ≤ a) (ha : a < 100) (h1 : d1 < 100)
    (hb : (numeral 10 (100 * a + d1)).length ≤ buf.length) : ArmOK (wd34 buf (100 * a + d1)) buf (100 * a + d1) := by
  obtain ⟨n, hn⟩ : ∃ n, n = (100 * a + d1) := ⟨_, rfl⟩
  rw [← hn] at hb ⊢
  obtain ⟨q, hq⟩ : ∃ q, q = n * 42949673 / 1 := ⟨_, rfl⟩
  have hq1 : 1 * q ≤ (100 * a + d1) * 42949673 := by rw [← hn]; omega
  have hq2 : (100 * a + d1) * 42949673 < 1 * (q + 1) := by rw [← hn]; omega
  have hc := c34 a d1 q ha1 (by omega) h1 hq1 hq2
  have hds : ∀ d ∈ [d1], d < 100 := by intro d hd; simp at hd; omega
  have hh : horner a [d1] = n := by simp [horner]; omega
  have e1 : n % 2 ^ 64 = n := by omega
  have e2 : n * 42949673 % 2 ^ 64 = n * 42949673 := by omega
  have hP : n % 2 ^ 64 * 42949673 % 2 ^ 64 / 2 ^ 0 = q := by rw [e1, e2]; exact hq.symm
  unfold wd34 ArmOK
  exact printN_spec buf n Lit.m34 0 1 q a [d1] (by simp only [Lit.m34]; exact hP) hc rfl (by omega) (by omega) hds hh hb

theorem wd34_spec (buf : Buf) (n : Nat) (h1 : 100 ≤ n) (h2 : n < 10000)
    (hb : (numeral 10 n).length ≤ buf.length) : ArmOK (wd34 buf n) buf n := by
  have hn : (100 * (n / 100) + (n % 100)) = n := by omega
  have := wd34_digits buf (n / 100) (n % 100) (by omega) (by omega) (by omega) (by rw [hn]; exact hb)
  rwa [hn] at this

theorem wd5_digits (buf : Buf) (a d1 d2 : Nat) (ha1 : 1 ≤ a) (ha : a < 10) (h1 : d1 < 100) (h2 : d2 < 100)
    (hb : (numeral 10 (10000 * a + 100 * d1 + d2)).length ≤ buf.length) : ArmOK (wd5 buf (10000 * a + 100 * d1 + d2)) buf (10000 * a + 100 * d1 + d2) := by
  obtain ⟨n, hn⟩ : ∃ n, n = (10000 * a + 100 * d1 + d2) := ⟨_, rfl⟩
  rw [← hn] at hb ⊢
  obtain ⟨q, hq⟩ : ∃ q, q = n * 429497 / 1 := ⟨_, rfl⟩
  have hq1 : 1 * q ≤ (10000 * a + 100 * d1 + d2) * 429497 := by rw [← hn]; omega
  have hq2 : (10000 * a + 100 * d1 + d2) * 429497 < 1 * (q + 1) := by rw [← hn]; omega
  have hc := c56 a d1 d2 q ha1 (by omega) h1 h2 hq1 hq2
  have hds : ∀ d ∈ [d1, d2], d < 100 := by intro d hd; simp at hd; omega
  have hh : horner a [d1, d2] = n := by simp [horner]; omega
  have e1 : n % 2 ^ 64 = n := by omega
  have e2 : n * 429497 % 2 ^ 64 = n * 429497 := by omega
  have hP : n % 2 ^ 64 * 429497 % 2 ^ 64 = q := by rw [e1, e2]; omega
  unfold wd5
  simp only [Lit.m56, Lit.hi32, hP]
  exact fixed1_spec buf q a [d1, d2] n 2 _ hc rfl ha1 ha hds hh hb rfl

theorem wd5_spec (buf : Buf) (n : Nat) (h1 : 10000 ≤ n) (h2 : n < 100000)
    (hb : (numeral 10 n).length ≤ buf.length) : ArmOK (wd5 buf n) buf n := by
  have hn : (10000 * (n / 10000) + 100 * (n / 100 % 100) + (n % 100)) = n := by omega
  have := wd5_digits buf (n / 10000) (n / 100 % 100) (n % 100) (by omega) (by omega) (by omega) (by omega) (by rw [hn]; exact hb)
  rwa [hn] at this

theorem wd56_digits (buf : Buf) (a d1 d2 : Nat) (ha1 : 1 ≤ a) (ha : a < 100) (h1 : d1 < 100) (h2 : d2 < 100)
    (hb : (numeral 10 (10000 * a + 100 * d1 + d2)).length ≤ buf.length) : ArmOK (wd56 buf (10000 * a + 100 * d1 + d2)) buf (10000 * a + 100 * d1 + d2) := by
  obtain ⟨n, hn⟩ : ∃ n, n = (10000 * a + 100 * d1 + d2) := ⟨_, rfl⟩
  rw [← hn] at hb ⊢
  obtain ⟨q, hq⟩ : ∃ q, q = n * 429497 / 1 := ⟨_, rfl⟩
  have hq1 : 1 * q ≤ (10000 * a + 100 * d1 + d2) * 429497 := by rw [← hn]; omega
  have hq2 : (10000 * a + 100 * d1 + d2) * 429497 < 1 * (q + 1) := by rw [← hn]; omega
  have hc := c56 a d1 d2 q ha1 (by omega) h1 h2 hq1 hq2
  have hds : ∀ d ∈ [d1, d2], d < 100 := by intro d hd; simp at hd; omega
  have hh : horner a [d1, d2] = n := by simp [horner]; omega
  have e1 : n % 2 ^ 64 = n := by omega
  have e2 : n * 429497 % 2 ^ 64 = n * 429497 := by omega
  have hP : n % 2 ^ 64 * 429497 % 2 ^ 64 / 2 ^ 0 = q := by rw [e1, e2]; exact hq.symm
  unfold wd56 ArmOK
  exact printN_spec buf n Lit.m56 0 2 q a [d1, d2] (by simp only [Lit.m56]; exact hP) hc rfl (by omega) (by omega) hds hh hb

theorem wd56_spec (buf : Buf) (n : Nat) (h1 : 10000 ≤ n) (h2 : n < 1000000)
    (hb : (numeral 10 n).length ≤ buf.length) : ArmOK (wd56 buf n) buf n := by
  have hn : (10000 * (n / 10000) + 100 * (n / 100 % 100) + (n % 100)) = n := by omega
  have := wd56_digits buf (n / 10000) (n / 100 % 100) (n % 100) (by omega) (by omega) (by omega) (by omega) (by rw [hn]; exact hb)
  rwa [hn] at this

theorem wd78_digits (buf : Buf) (a d1 d2 d3 : Nat) (ha1 : 1 ≤ a) (ha : a < 100) (h1 : d1 < 100) (h2 : d2 < 100) (h3 : d3 < 100)
    (hb : (numeral 10 (1000000 * a + 10000 * d1 + 100 * d2 + d3)).length ≤ buf.length) : ArmOK (wd78 buf (1000000 * a + 10000 * d1 + 100 * d2 + d3)) buf (1000000 * a + 10000 * d1 + 100 * d2 + d3) := by
  obtain ⟨n, hn⟩ : ∃ n, n = (1000000 * a + 10000 * d1 + 100 * d2 + d3) := ⟨_, rfl⟩
  rw [← hn] at hb ⊢
  obtain ⟨q, hq⟩ : ∃ q, q = n * 281474978 / 65536 := ⟨_, rfl⟩
  have hq1 : 65536 * q ≤ (1000000 * a + 10000 * d1 + 100 * d2 + d3) * 281474978 := by rw [← hn]; omega
  have hq2 : (1000000 * a + 10000 * d1 + 100 * d2 + d3) * 281474978 < 65536 * (q + 1) := by rw [← hn]; omega
  have hc := c78 a d1 d2 d3 q ha1 (by omega) h1 h2 h3 hq1 hq2
  have hds : ∀ d ∈ [d1, d2, d3], d < 100 := by intro d hd; simp at hd; omega
  have hh : horner a [d1, d2, d3] = n := by simp [horner]; omega
  have e1 : n % 2 ^ 64 = n := by omega
  have e2 : n * 281474978 % 2 ^ 64 = n * 281474978 := by omega
  have hP : n % 2 ^ 64 * 281474978 % 2 ^ 64 / 2 ^ 16 = q := by rw [e1, e2]; exact hq.symm
  unfold wd78 ArmOK
  exact printN_spec buf n Lit.m78 Lit.s78 3 q a [d1, d2, d3] (by simp only [Lit.m78, Lit.s78]; exact hP) hc rfl (by omega) (by omega) hds hh hb

theorem wd78_spec (buf : Buf) (n : Nat) (h1 : 1000000 ≤ n) (h2 : n < 100000000)
    (hb : (numeral 10 n).length ≤ buf.length) : ArmOK (wd78 buf n) buf n := by
  have hn : (1000000 * (n / 1000000) + 10000 * (n / 10000 % 100) + 100 * (n / 100 % 100) + (n % 100)) = n := by omega
  have := wd78_digits buf (n / 1000000) (n / 10000 % 100) (n / 100 % 100) (n % 100) (by omega) (by omega) (by omega) (by omega) (by omega) (by rw [hn]; exact hb)
  rwa [hn] at this

theorem wd9_digits (buf : Buf) (a d1 d2 d3 d4 : Nat) (ha1 : 1 ≤ a) (ha : a < 10) (h1 : d1 < 100) (h2 : d2 < 100) (h3 : d3 < 100) (h4 : d4 < 100)
    (hb : (numeral 10 (100000000 * a + 1000000 * d1 + 10000 * d2 + 100 * d3 + d4)).length ≤ buf.length) : ArmOK (wd9 buf (100000000 * a + 1000000 * d1 + 10000 * d2 + 100 * d3 + d4)) buf (100000000 * a + 1000000 * d1 + 10000 * d2 + 100 * d3 + d4) := by
  obtain ⟨n, hn⟩ : ∃ n, n = (100000000 * a + 1000000 * d1 + 10000 * d2 + 100 * d3 + d4) := ⟨_, rfl⟩
  rw [← hn] at hb ⊢
  obtain ⟨q, hq⟩ : ∃ q, q = n * 1441151882 / 33554432 := ⟨_, rfl⟩
  have hq1 : 33554432 * q ≤ (100000000 * a + 1000000 * d1 + 10000 * d2 + 100 * d3 + d4) * 1441151882 := by rw [← hn]; omega
  have hq2 : (100000000 * a + 1000000 * d1 + 10000 * d2 + 100 * d3 + d4) * 1441151882 < 33554432 * (q + 1) := by rw [← hn]; omega
  have hc := c9 a d1 d2 d3 d4 q ha1 (by omega) h1 h2 h3 h4 hq1 hq2
  have hds : ∀ d ∈ [d1, d2, d3, d4], d < 100 := by intro d hd; simp at hd; omega
  have hh : horner a [d1, d2, d3, d4] = n := by simp [horner]; omega
  have e1 : n % 2 ^ 64 = n := by omega
  have e2 : n * 1441151882 % 2 ^ 64 = n * 1441151882 := by omega
  have hP : n % 2 ^ 64 * 1441151882 % 2 ^ 64 / 2 ^ 25 = q := by rw [e1, e2]; exact hq.symm
  unfold wd9
  simp only [Lit.m9, Lit.s9, Lit.hi32, hP]
  exact fixed1_spec buf q a [d1, d2, d3, d4] n 4 _ hc rfl ha1 ha hds hh hb rfl

theorem wd9_spec (buf : Buf) (n : Nat) (h1 : 100000000 ≤ n) (h2 : n < 1000000000)
    (hb : (numeral 10 n).length ≤ buf.length) : ArmOK (wd9 buf n) buf n := by
  have hn : (100000000 * (n / 100000000) + 1000000 * (n / 1000000 % 100) + 10000 * (n / 10000 % 100) + 100 * (n / 100 % 100) + (n % 100)) = n := by omega
  have := wd9_digits buf (n / 100000000) (n / 1000000 % 100) (n / 10000 % 100) (n / 100 % 100) (n % 100) (by omega) (by omega) (by omega) (by omega) (by omega) (by omega) (by rw [hn]; exact hb)
  rwa [hn] at this

theorem wd10_digits (buf : Buf) (a d1 d2 d3 d4 : Nat) (ha1 : 10 ≤ a) (ha : a < 43) (h1 : d1 < 100) (h2 : d2 < 100) (h3 : d3 < 100) (h4 : d4 < 100)
    (hb : (numeral 10 (100000000 * a + 1000000 * d1 + 10000 * d2 + 100 * d3 + d4)).length ≤ buf.length) : ArmOK (wd10 buf (100000000 * a + 1000000 * d1 + 10000 * d2 + 100 * d3 + d4)) buf (100000000 * a + 1000000 * d1 + 10000 * d2 + 100 * d3 + d4) := by
  obtain ⟨n, hn⟩ : ∃ n, n = (100000000 * a + 1000000 * d1 + 10000 * d2 + 100 * d3 + d4) := ⟨_, rfl⟩
  rw [← hn] at hb ⊢
  obtain ⟨q, hq⟩ : ∃ q, q = n * 1441151881 / 33554432 := ⟨_, rfl⟩
  have hq1 : 33554432 * q ≤ (100000000 * a + 1000000 * d1 + 10000 * d2 + 100 * d3 + d4) * 1441151881 := by rw [← hn]; omega
  have hq2 : (100000000 * a + 1000000 * d1 + 10000 * d2 + 100 * d3 + d4) * 1441151881 < 33554432 * (q + 1) := by rw [← hn]; omega
  have hc := c10 a d1 d2 d3 d4 q ha1 (by omega) h1 h2 h3 h4 hq1 hq2
  have hds : ∀ d ∈ [d1, d2, d3, d4], d < 100 := by intro d hd; simp at hd; omega
  have hh : horner a [d1, d2, d3, d4] = n := by simp [horner]; omega
  have e1 : n % 2 ^ 64 = n := by omega
  have e2 : n * 1441151881 % 2 ^ 64 = n * 1441151881 := by omega
  have hP : n % 2 ^ 64 * 1441151881 % 2 ^ 64 / 2 ^ 25 = q := by rw [e1, e2]; exact hq.symm
  have harg : q / 2 ^ 32 * 2 % 2 ^ 64 = 2 * (q / 2 ^ 32) := by omega
  unfold wd10
  simp only [Lit.m10, Lit.s10, Lit.hi32, hP]
  exact fixed2_spec buf q a [d1, d2, d3, d4] n 4 _ hc rfl ha1 (by omega) hds hh hb harg

theorem wd10_spec (buf : Buf) (n : Nat) (h1 : 1000000000 ≤ n) (h2 : n < 4294967296)
    (hb : (numeral 10 n).length ≤ buf.length) : ArmOK (wd10 buf n) buf n := by
  have hn : (100000000 * (n / 100000000) + 1000000 * (n / 1000000 % 100) + 10000 * (n / 10000 % 100) + 100 * (n / 100 % 100) + (n % 100)) = n := by omega
  have := wd10_digits buf (n / 100000000) (n / 1000000 % 100) (n / 10000 % 100) (n / 100 % 100) (n % 100) (by omega) (by omega) (by omega) (by omega) (by omega) (by omega) (by rw [hn]; exact hb)
  rwa [hn] at this

theorem wd10u64_digits (buf : Buf) (a d1 d2 d3 d4 : Nat) (ha1 : 10 ≤ a) (ha : a < 100) (h1 : d1 < 100) (h2 : d2 < 100) (h3 : d3 < 100) (h4 : d4 < 100)
    (hb : (numeral 10 (100000000 * a + 1000000 * d1 + 10000 * d2 + 100 * d3 + d4)).length ≤ buf.length) : ArmOK (wd10u64 buf (100000000 * a + 1000000 * d1 + 10000 * d2 + 100 * d3 + d4)) buf (100000000 * a + 1000000 * d1 + 10000 * d2 + 100 * d3 + d4) := by
  obtain ⟨n, hn⟩ : ∃ n, n = (100000000 * a + 1000000 * d1 + 10000 * d2 + 100 * d3 + d4) := ⟨_, rfl⟩
  rw [← hn] at hb ⊢
  obtain ⟨q, hq⟩ : ∃ q, q = n * 11529215047 / 268435456 := ⟨_, rfl⟩
  have hq1 : 268435456 * q ≤ (100000000 * a + 1000000 * d1 + 10000 * d2 + 100 * d3 + d4) * 11529215047 := by rw [← hn]; omega
  have hq2 : (100000000 * a + 1000000 * d1 + 10000 * d2 + 100 * d3 + d4) * 11529215047 < 268435456 * (q + 1) := by rw [← hn]; omega
  have hc := c10u64 a d1 d2 d3 d4 q ha1 (by omega) h1 h2 h3 h4 hq1 hq2
  have hds : ∀ d ∈ [d1, d2, d3, d4], d < 100 := by intro d hd; simp at hd; omega
  have hh : horner a [d1, d2, d3, d4] = n := by simp [horner]; omega
  have e1 : n % 2 ^ 128 = n := by omega
  have e2 : n * 11529215047 % 2 ^ 128 = n * 11529215047 := by omega
  have e3 : q % 2 ^ 64 = q := by omega
  have hP : n % 2 ^ 128 * 11529215047 % 2 ^ 128 / 2 ^ 28 % 2 ^ 64 = q := by rw [e1, e2]; rw [← e3]; congr 1; exact hq.symm
  have harg : q / 2 ^ 32 * 2 % 2 ^ 64 = 2 * (q / 2 ^ 32) := by omega
  unfold wd10u64
  simp only [Lit.m10u64, Lit.s10u64, Lit.hi32, hP]
  exact fixed2_spec buf q a [d1, d2, d3, d4] n 4 _ hc rfl ha1 (by omega) hds hh hb harg

theorem wd10u64_spec (buf : Buf) (n : Nat) (h1 : 1000000000 ≤ n) (h2 : n < 10000000000)
    (hb : (numeral 10 n).length ≤ buf.length) : ArmOK (wd10u64 buf n) buf n := by
  have hn : (100000000 * (n / 100000000) + 1000000 * (n / 1000000 % 100) + 10000 * (n / 10000 % 100) + 100 * (n / 100 % 100) + (n % 100)) = n := by omega
  have := wd10u64_digits buf (n / 100000000) (n / 1000000 % 100) (n / 10000 % 100) (n / 100 % 100) (n % 100) (by omega) (by omega) (by omega) (by omega) (by omega) (by omega) (by rw [hn]; exact hb)
  rwa [hn] at this

end LexVerif.Model.WriteInt
