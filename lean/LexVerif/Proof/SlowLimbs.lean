import LexVerif.Proof.SlowBigint
import LexVerif.Model.SlowBytes
/-!
# Proof.SlowLimbs — the value-level big-integer operations refine the limb-level ones

`Model.Slow` models a `StackVec` by the `Nat` it denotes and a capacity check by `limbsOf result ≤ SIZE`;
`Model.SlowBytes` has the same Rust functions on limb lists (used for `byte_comp`). For a **normalised** vector
(64-bit limbs, non-zero top limb) the two agree, value and failure alike:

* `limbsOf_valL` — a normalised vector of `n` limbs denotes a number of exactly `n` limbs;
* `smallMul_refines` — `small_mul`: `(smallMulL cap x y).map valL = smallMul cap (valL x) y`;
* `shlLimbs_refines` — `shl_limbs`.

(`shl_bits`, `compare`, `hi64` and `long_mul` are not refined here: the value-level `largeMul` rests on the argument in
its doc comment, and all of them on the correspondence stream — every `pow` with a large power goes through them.)
-/
namespace LexVerif.Proof.Slow
open LexVerif.Spec LexVerif.Model LexVerif.Model.Slow LexVerif.Proof.RoundNE

/-- 64-bit limbs -/
def LimbsOk (x : Limbs) : Prop := ∀ l ∈ x, l < B64

/-- normalised: limbs in range, top limb non-zero -/
def Normalized (x : Limbs) : Prop := LimbsOk x ∧ (∀ l, x.getLast? = some l → l ≠ 0)

theorem B64_pos : 0 < B64 := by unfold B64; exact Nat.two_pow_pos _

theorem valL_append (x : Limbs) (v : Nat) : valL (x ++ [v]) = valL x + B64 ^ x.length * v := by
  induction x with
  | nil => simp [valL]
  | cons a as ih =>
    simp only [List.cons_append, valL, ih, List.length_cons, Nat.pow_succ]
    ring

theorem valL_lt {x : Limbs} (h : LimbsOk x) : valL x < B64 ^ x.length := by
  induction x with
  | nil => simp [valL]
  | cons a as ih =>
    have ha : a < B64 := h a (List.mem_cons_self ..)
    have := ih (fun l hl => h l (List.mem_cons_of_mem _ hl))
    simp only [valL, List.length_cons, Nat.pow_succ]
    have h2 : B64 * (valL as + 1) ≤ B64 * B64 ^ as.length := Nat.mul_le_mul_left _ this
    rw [Nat.mul_add, Nat.mul_one] at h2
    rw [Nat.mul_comm (B64 ^ as.length) B64]
    omega

theorem valL_ge {x : Limbs} (h : Normalized x) (hne : x ≠ []) : B64 ^ (x.length - 1) ≤ valL x := by
  induction x with
  | nil => exact absurd rfl hne
  | cons a as ih =>
    cases has : as with
    | nil =>
      subst has
      have := h.2 a (by simp)
      simp only [valL, List.length_cons, List.length_nil, Nat.zero_add, Nat.sub_self, Nat.pow_zero]
      omega
    | cons b bs =>
      have hn : Normalized as := by
        refine ⟨fun l hl => h.1 l (List.mem_cons_of_mem _ hl), fun l hl => h.2 l ?_⟩
        rw [has] at hl ⊢
        simpa [List.getLast?_cons_cons] using hl
      have := ih hn (by rw [has]; simp)
      rw [has] at this
      simp only [valL, List.length_cons, Nat.add_sub_cancel] at this ⊢
      rw [Nat.pow_succ, Nat.mul_comm (B64 ^ bs.length) B64]
      have h2 : B64 * B64 ^ bs.length ≤ B64 * (b + B64 * valL bs) := Nat.mul_le_mul_left _ this
      omega

/-- a normalised vector of `n` limbs denotes a number that needs exactly `n` limbs -/
theorem limbsOf_valL {x : Limbs} (h : Normalized x) : limbsOf (valL x) = x.length := by
  by_cases hne : x = []
  · subst hne; simp [valL, limbsOf, bitlen_zero]
  · have hlt := valL_lt h.1
    have hge := valL_ge h hne
    have hpos : 0 < x.length := List.length_pos_iff.mpr hne
    have e : ∀ n, B64 ^ n = 2 ^ (64 * n) := fun n => by unfold B64; rw [← Nat.pow_mul]
    rw [e] at hlt hge
    have h1 : limbsOf (valL x) ≤ x.length := (limbsOf_le_iff _ _).mpr hlt
    have h2 : ¬ limbsOf (valL x) ≤ x.length - 1 := by
      rw [limbsOf_le_iff]; omega
    omega

theorem smallMulGo_spec (y : Nat) : ∀ (x : Limbs) (c : Nat),
    valL (smallMulGo y x c).1 + B64 ^ x.length * (smallMulGo y x c).2 = valL x * y + c ∧
    (smallMulGo y x c).1.length = x.length ∧ LimbsOk (smallMulGo y x c).1
  | [], c => by simp [smallMulGo, valL, LimbsOk]
  | a :: as, c => by
    obtain ⟨h1, h2, h3⟩ := smallMulGo_spec y as ((a * y + c) / B64)
    simp only [smallMulGo, valL, List.length_cons]
    refine ⟨?_, by rw [h2], ?_⟩
    · have hdm := Nat.div_add_mod (a * y + c) B64
      rw [Nat.pow_succ]
      calc (a * y + c) % B64 + B64 * valL (smallMulGo y as ((a * y + c) / B64)).1 +
            B64 ^ as.length * B64 * (smallMulGo y as ((a * y + c) / B64)).2
          = (a * y + c) % B64 + B64 * (valL (smallMulGo y as ((a * y + c) / B64)).1 +
              B64 ^ as.length * (smallMulGo y as ((a * y + c) / B64)).2) := by ring
        _ = (a * y + c) % B64 + B64 * (valL as * y + (a * y + c) / B64) := by rw [h1]
        _ = (a + B64 * valL as) * y + c := by
              have : B64 * ((a * y + c) / B64) + (a * y + c) % B64 = a * y + c := hdm
              calc (a * y + c) % B64 + B64 * (valL as * y + (a * y + c) / B64)
                  = B64 * valL as * y + (B64 * ((a * y + c) / B64) + (a * y + c) % B64) := by ring
                _ = B64 * valL as * y + (a * y + c) := by rw [this]
                _ = (a + B64 * valL as) * y + c := by ring
    · intro l hl
      rcases List.mem_cons.mp hl with h | h
      · rw [h]; exact Nat.mod_lt _ B64_pos
      · exact h3 l h

/-- **`small_mul` refinement**: on a normalised vector and a non-zero limb `y`, the value-level `smallMul` is the
limb-level `small_mul` — same value, same capacity failure -/
theorem smallMul_refines {cap : Nat} {x : Limbs} (h : Normalized x) (hlen : x.length ≤ cap) {y : Nat} (hy0 : y ≠ 0)
    (hy : y < B64) : (smallMulL cap x y).map valL = smallMul cap (valL x) y := by
  obtain ⟨h1, h2, h3⟩ := smallMulGo_spec y x 0
  unfold smallMulL smallMul
  dsimp only
  generalize smallMulGo y x 0 = r at *
  obtain ⟨ls, carry⟩ := r
  simp only at h1 h2 h3 ⊢
  rw [Nat.add_zero] at h1
  have e : ∀ n, B64 ^ n = 2 ^ (64 * n) := fun n => by unfold B64; rw [← Nat.pow_mul]
  by_cases hx0 : x = []
  · subst hx0
    simp only [List.length_nil, Nat.pow_zero, Nat.one_mul, valL, Nat.zero_mul] at h1 h2
    have : ls = [] := List.eq_nil_of_length_eq_zero h2
    subst this
    simp only [valL, Nat.zero_add] at h1
    subst h1
    simp [valL]
  · have hvx : valL x ≠ 0 := by
      have := valL_ge h hx0
      have hp : 0 < B64 ^ (x.length - 1) := Nat.pow_pos B64_pos
      omega
    rw [if_neg hvx]
    have hlslt := valL_lt h3
    rw [h2] at hlslt
    by_cases hc : carry = 0
    · subst hc
      rw [Nat.mul_zero, Nat.add_zero] at h1
      simp only [ne_eq, not_true_eq_false, if_false, Option.map_some]
      rw [h1]
      have : limbsOf (valL x * y) ≤ cap := by
        rw [limbsOf_le_iff, ← h1]
        have : 2 ^ (64 * x.length) ≤ 2 ^ (64 * cap) := Nat.pow_le_pow_right (by decide) (by omega)
        rw [e] at hlslt; omega
      simp [Slow.guard, this]
    · rw [if_pos hc]
      unfold tryPush
      rw [h2]
      -- the product needs `x.length + 1` limbs
      have hge : B64 ^ x.length ≤ valL x * y := by
        rw [← h1]
        have : B64 ^ x.length * 1 ≤ B64 ^ x.length * carry := Nat.mul_le_mul_left _ (by omega)
        omega
      by_cases hroom : x.length < cap
      · rw [if_pos hroom]
        simp only [Option.map_some]
        rw [valL_append, h2, h1]
        have hub : valL x * y < B64 ^ (x.length + 1) := by
          have hxl := valL_lt h.1
          calc valL x * y < B64 ^ x.length * B64 := by
                apply Nat.mul_lt_mul_of_lt_of_le hxl (Nat.le_of_lt hy) (by omega)
            _ = B64 ^ (x.length + 1) := by rw [Nat.pow_succ]
        have : limbsOf (valL x * y) ≤ cap := by
          rw [limbsOf_le_iff]
          have : 2 ^ (64 * (x.length + 1)) ≤ 2 ^ (64 * cap) := Nat.pow_le_pow_right (by decide) (by omega)
          rw [e] at hub; omega
        simp [Slow.guard, this]
      · rw [if_neg hroom]
        have hcap : cap = x.length := by omega
        have : ¬ limbsOf (valL x * y) ≤ cap := by
          rw [limbsOf_le_iff, hcap]
          rw [e] at hge; omega
        simp [Slow.guard, this]

theorem valL_zeros_append (n : Nat) (x : Limbs) : valL (List.replicate n 0 ++ x) = B64 ^ n * valL x := by
  induction n with
  | zero => simp
  | succ k ih =>
    simp only [List.replicate_succ, List.cons_append, valL, ih, Nat.pow_succ, Nat.zero_add]
    ring

/-- **`shl_limbs` refinement** -/
theorem shlLimbs_refines {cap : Nat} {x : Limbs} (h : Normalized x) (n : Nat) :
    (shlLimbsL cap x n).map valL = shlLimbs cap (valL x) n := by
  unfold shlLimbsL shlLimbs
  rw [limbsOf_valL h]
  by_cases hc : n + x.length > cap
  · rw [if_pos hc, if_pos hc]; rfl
  · rw [if_neg hc, if_neg hc]
    have e : B64 ^ n = 2 ^ (64 * n) := by unfold B64; rw [← Nat.pow_mul]
    by_cases hx : x = []
    · subst hx; simp [valL]
    · have : x.isEmpty = false := by
        cases x with
        | nil => exact absurd rfl hx
        | cons a as => rfl
      simp only [this, Bool.false_eq_true, if_false, Option.map_some]
      rw [valL_zeros_append, e, Nat.mul_comm]

end LexVerif.Proof.Slow
