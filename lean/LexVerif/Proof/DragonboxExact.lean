import LexVerif.Proof.DragonboxExp
import LexVerif.Proof.DragonboxFarey
import LexVerif.Proof.DragonboxBits
import Mathlib.Tactic.Ring
import Mathlib.Tactic.Linarith
/-!
# Proof.DragonboxExact — the three "exact computation" facts of `compute_nearest_normal`, for every mantissa

From the kernel-checked per-exponent certificate (`expOk t e = true`, `Proof/DragonboxExp.lean`) and the Farey-neighbour
lemmas: for the binary exponent `e`, with `x = a/b = 2^(e-1)·10^k`,

* `compute_mul((2f+1)·2^β, φ̃)  = (⌊(2f+1)·x⌋, (2f+1)·x ∈ ℤ)`,
* `compute_delta(φ̃, β)          = ⌊2x⌋`,
* `compute_mul_parity(n, φ̃, β)  = (⌊n·x⌋ odd, n·x ∈ ℤ)` for the three multipliers `n = 2f−1, 2f, 2f+1`,

for every significand `f` that occurs with exponent `e` — except that the integrality flag of the centre `n = 2f` is wrong
for the two binary32 inputs `excFloats` (the source comment in `compute_nearest_normal` mentions them).
-/
namespace LexVerif.Proof.DragonboxExact
open LexVerif.Model.Dragonbox LexVerif.Spec LexVerif.Proof.DragonboxBits LexVerif.Proof.DragonboxExp
open LexVerif.Proof.DragonboxFarey

/-- the certificate, as propositions -/
structure Facts (t : FTy) (e : Int) (d : ExpData) : Prop where
  hKm : d.minusK = i32 (floorLog10Pow2 e - t.kappa)
  hpow : dragonboxPower t (i32 (-d.minusK)) = some d.pow5
  hbetaM : i32 (e + floorLog2Pow10 (i32 (-d.minusK))) = (d.beta : Int)
  hK : d.minusK = floorLog10Pow2 e - t.kappa ∧ -1000 ≤ d.minusK ∧ d.minusK ≤ 1000
  hbeta : (d.beta : Int) = e + floorLog2Pow10 (-d.minusK)
  hp : d.pow5.1 < 2 ^ 64 ∧ d.pow5.2 < 2 ^ 64
  hb : 1 ≤ d.beta ∧ d.beta ≤ 31 ∧ 2 ^ (prec t + 1) * 2 ^ d.beta ≤ 2 ^ (t.qb / 2)
  hcert : 0 < d.b ∧ 0 < d.a ∧ d.p1 * d.b ≤ d.a * d.q1 ∧ d.a * d.q2 < d.p2 * d.b
      ∧ d.p2 * d.q1 = d.p1 * d.q2 + 1 ∧ 2 ^ (prec t + 1) < d.q1 + d.q2
  happ : d.a * 2 ^ t.qb ≤ phiOf t d.pow5 * 2 ^ d.beta * d.b
      ∧ phiOf t d.pow5 * 2 ^ d.beta * d.q2 < d.p2 * 2 ^ t.qb
      ∧ 2 ^ (prec t + 1) * (phiOf t d.pow5 * 2 ^ d.beta * d.b - d.a * 2 ^ t.qb) * 2 ^ (t.qb / 2) < 2 ^ t.qb * d.b
  hdist : d.b ≤ ((d.a * d.q1 - d.p1 * d.b) + (d.p2 * d.b - d.a * d.q2)) * 2 ^ (t.qb / 2)
  hexc : ∀ n ∈ excNs t e d, n % 2 = 0 ∧ (e, n / 2) ∈ excFloats t
  hdelta : 10 ^ t.kappa.toNat * d.b ≤ 2 * d.a ∧ 2 * d.a < 10 * 10 ^ t.kappa.toNat * d.b
  hgcd : Nat.gcd d.a d.b = 1
  hwin : (e < t.fcPmHalfLower ∨ e > t.divBy5Threshold) → (d.b % 2 = 0 ∨ 2 ^ (prec t + 1) < d.b)
  hscale : (scalePQ (e - 2) (d.minusK + t.kappa + 1)).1 * d.a
        = 2 * (10 * 10 ^ t.kappa.toNat) * (scalePQ (e - 2) (d.minusK + t.kappa + 1)).2 * d.b
      ∧ (scalePQ (e - 2) (d.minusK + t.kappa)).1 * d.a
        = 2 * 10 ^ t.kappa.toNat * (scalePQ (e - 2) (d.minusK + t.kappa)).2 * d.b
  hup : (((prec t + 2 : Nat) : Int) + (e - 2)) * 30103 / 100000 + 2 - (d.minusK + t.kappa) < 420

theorem facts_of_ok {t : FTy} {e : Int} (h : expOk t e = true) : ∃ d, Facts t e d := by
  unfold expOk at h
  cases hd : expData t e with
  | none => rw [hd] at h; simp at h
  | some d =>
    rw [hd] at h
    simp only [] at h
    refine ⟨d, ?_⟩
    -- the model prefix, from the definition of `expData`
    have hpre : d.minusK = i32 (floorLog10Pow2 e - t.kappa)
        ∧ dragonboxPower t (i32 (-d.minusK)) = some d.pow5
        ∧ i32 (e + floorLog2Pow10 (i32 (-d.minusK))) = (d.beta : Int) := by
      unfold expData at hd
      simp only [] at hd
      split at hd
      · simp at hd
      · rename_i pow5 hp
        split at hd
        · simp at hd
        · rename_i hb
          simp only [Option.some.injEq] at hd
          subst hd
          refine ⟨rfl, hp, ?_⟩
          simp only []
          omega
    unfold dataOk at h
    simp only [Bool.and_eq_true, decide_eq_true_eq, List.all_eq_true, Bool.decide_and,
      List.contains_eq_mem] at h
    obtain ⟨⟨⟨⟨⟨⟨⟨⟨⟨⟨⟨⟨h1, h2⟩, h3⟩, h4⟩, h5⟩, h6⟩, h7⟩, h8⟩, h9⟩, h10⟩, h11⟩, h12⟩, h13⟩ := h
    exact ⟨hpre.1, hpre.2.1, hpre.2.2, by simpa using h1, h2, by simpa using h3, by simpa using h4, by simpa using h5,
      by simpa using h6, h7, fun n hn => by simpa using h8 n hn, by simpa using h9, h10, h11, by simpa using h12, h13⟩

variable {t : FTy} {e : Int} {d : ExpData}

theorem cert (F : Facts t e d) : Cert d.a d.b (2 ^ (prec t + 1)) d.p1 d.q1 d.p2 d.q2 :=
  ⟨F.hcert.1, F.hcert.2.2.1, F.hcert.2.2.2.1, F.hcert.2.2.2.2.1, F.hcert.2.2.2.2.2⟩

theorem qb_split (t : FTy) : 2 ^ t.qb = 2 ^ (t.qb / 2) * 2 ^ (t.qb / 2) := by cases t <;> decide

theorem prec_le (t : FTy) : prec t + 1 ≤ 54 := by cases t <;> decide

theorem ten_kappa (t : FTy) : 10 ^ t.kappa.toNat = 10 ∨ 10 ^ t.kappa.toNat = 100 := by cases t <;> decide

/-- (a) floors computed with the cache are the true floors, for every multiplier up to `2^(p+1)` -/
theorem floor_exact (F : Facts t e d) {n : Nat} (h1 : 1 ≤ n) (hn : n ≤ 2 ^ (prec t + 1)) :
    n * (phiOf t d.pow5 * 2 ^ d.beta) / 2 ^ t.qb = n * d.a / d.b :=
  floor_eq (cert F) (Nat.two_pow_pos _) F.happ.1 F.happ.2.1 h1 hn

/-- the "fraction below `2^-(Q/2)`" test is the integrality test, for every non-exceptional multiplier -/
theorem flag_exact (F : Facts t e d) {n : Nat} (h1 : 1 ≤ n) (hn : n ≤ 2 ^ (prec t + 1)) (hlo : nLo t e ≤ n)
    (hx : n ∉ excNs t e d) :
    n * (phiOf t d.pow5 * 2 ^ d.beta) % 2 ^ t.qb < 2 ^ (t.qb / 2) ↔ d.b ∣ n * d.a := by
  have key := flag_iff (cert F) (H := 2 ^ (t.qb / 2)) (Nat.two_pow_pos t.qb) F.happ.1 F.happ.2.1 F.happ.2.2 F.hdist
    h1 hn (by
      intro α hα hnα hD1
      by_contra hlt
      have hlt : α * (d.a * d.q1 - d.p1 * d.b) * 2 ^ (t.qb / 2) < d.b := Nat.lt_of_not_le hlt
      apply hx
      unfold excNs
      simp only []
      apply List.mem_map.mpr
      refine ⟨α, List.mem_filter.mpr ⟨List.mem_range.mpr ?_, ?_⟩, hnα.symm⟩
      · have hpos : 0 < (d.a * d.q1 - d.p1 * d.b) * 2 ^ (t.qb / 2) := Nat.mul_pos hD1 (Nat.two_pow_pos _)
        have : α ≤ d.b / ((d.a * d.q1 - d.p1 * d.b) * 2 ^ (t.qb / 2)) := by
          rw [Nat.le_div_iff_mul_le hpos, ← Nat.mul_assoc]; exact Nat.le_of_lt hlt
        omega
      · rw [decide_eq_true_eq]
        exact ⟨hα, hD1, hlt, hnα ▸ hlo, hnα ▸ hn⟩)
  rw [← key]
  generalize n * (phiOf t d.pow5 * 2 ^ d.beta) % 2 ^ t.qb = X
  rw [qb_split t]
  exact (Nat.mul_lt_mul_right (Nat.two_pow_pos _)).symm

/-- (a) `compute_mul` -/
theorem mul_exact (F : Facts t e d) {n : Nat} (h1 : 1 ≤ n) (hn : n < 2 ^ (prec t + 1)) (hlo : nLo t e ≤ n)
    (hx : n ∉ excNs t e d) :
    computeMul t (n * 2 ^ d.beta) d.pow5 = (n * d.a / d.b, decide (d.b ∣ n * d.a)) := by
  have hu : n * 2 ^ d.beta < 2 ^ (t.qb / 2) :=
    lt_of_lt_of_le (Nat.mul_lt_mul_of_pos_right hn (Nat.two_pow_pos _)) F.hb.2.2
  rw [computeMul_eq t d.pow5 F.hp.1 F.hp.2 hu, floor_exact F h1 (Nat.le_of_lt hn)]
  congr 1
  exact decide_eq_decide.mpr (flag_exact F h1 (Nat.le_of_lt hn) hlo hx)

/-- (c) `compute_mul_parity` -/
theorem parity_exact (F : Facts t e d) {n : Nat} (h1 : 1 ≤ n) (hn : n ≤ 2 ^ (prec t + 1)) (hlo : nLo t e ≤ n)
    (hx : n ∉ excNs t e d) :
    computeMulParity t n d.pow5 (d.beta : Int) = (decide (n * d.a / d.b % 2 = 1), decide (d.b ∣ n * d.a)) := by
  have h64 : n < 2 ^ 64 := by
    have := Nat.pow_le_pow_right (by decide : 0 < 2) (prec_le t)
    have : (2 : Nat) ^ 54 < 2 ^ 64 := by decide
    omega
  rw [computeMulParity_eq t d.pow5 F.hp.1 F.hp.2 F.hb.1 F.hb.2.1 h64, floor_exact F h1 hn]
  congr 1
  exact decide_eq_decide.mpr (flag_exact F h1 hn hlo hx)

/-- the parity component alone needs no exclusion -/
theorem parity_exact_fst (F : Facts t e d) {n : Nat} (h1 : 1 ≤ n) (hn : n ≤ 2 ^ (prec t + 1)) :
    (computeMulParity t n d.pow5 (d.beta : Int)).1 = decide (n * d.a / d.b % 2 = 1) := by
  have h64 : n < 2 ^ 64 := by
    have := Nat.pow_le_pow_right (by decide : 0 < 2) (prec_le t)
    have : (2 : Nat) ^ 54 < 2 ^ 64 := by decide
    omega
  rw [computeMulParity_eq t d.pow5 F.hp.1 F.hp.2 F.hb.1 F.hb.2.1 h64, floor_exact F h1 hn]

theorem delta_lt (F : Facts t e d) : 10 ^ t.kappa.toNat ≤ 2 * d.a / d.b ∧ 2 * d.a / d.b < 10 * 10 ^ t.kappa.toNat := by
  constructor
  · rw [Nat.le_div_iff_mul_le F.hcert.1]; exact F.hdelta.1
  · rw [Nat.div_lt_iff_lt_mul F.hcert.1]; exact F.hdelta.2

/-- (b) `compute_delta` -/
theorem delta_exact (F : Facts t e d) : computeDelta t d.pow5 (d.beta : Int) = 2 * d.a / d.b := by
  have h2 : 2 ≤ 2 ^ (prec t + 1) := by
    calc 2 = 2 ^ 1 := rfl
      _ ≤ 2 ^ (prec t + 1) := Nat.pow_le_pow_right (by decide) (by omega)
  have hf := floor_exact F (n := 2) (by decide) h2
  have hlt := (delta_lt F).2
  rw [computeDelta_eq t d.pow5 F.hp.2 (by have := F.hb.2.1; omega) (by
    rw [hf]; rcases ten_kappa t with h | h <;> rw [h] at hlt <;> omega), hf]

end LexVerif.Proof.DragonboxExact
