import LexVerif.Proof.SepGen2
/-!
# Proof.SepGen3 — a digit run over the input with separators against the same component's run over the stripped input
(first pass of `parse_number`), for any separator predicate
-/
set_option linter.unusedSimpArgs false
namespace LexVerif.Proof.Sep
open LexVerif LexVerif.Model LexVerif.Spec
open LexVerif.Props.C12

theorem drop_slice_append (s : List Nat) (i j : Nat) (h : i ≤ j) : s.drop i = slice s i j ++ s.drop j := by
  unfold slice
  have : s.drop j = (s.drop i).drop (j - i) := by rw [List.drop_drop]; congr 1; omega
  rw [this, List.take_append_drop]

/-- digit bytes followed by a non-digit: the digit prefix is exactly the digit bytes -/
theorem digitsPrefix_append (r : Nat) : ∀ (bytes ds rest : List Nat),
    bytes.map (fun x => charToDigit x r) = ds.map some →
    (∀ x, rest.head? = some x → charToDigit x r = none) →
    digitsPrefix r (bytes ++ rest) = ds := by
  intro bytes
  induction bytes with
  | nil =>
    intro ds rest h hrest
    cases ds with
    | cons d ds => simp at h
    | nil =>
      cases rest with
      | nil => rfl
      | cons x xs => simp [digitsPrefix, hrest x rfl]
  | cons y ys ih =>
    intro ds rest h hrest
    cases ds with
    | nil => simp at h
    | cons d ds =>
      simp only [List.map_cons, List.cons.injEq] at h
      simp only [List.cons_append, digitsPrefix, h.1, ih ds rest h.2 hrest]

theorem map_some_length {α β : Type} {f : α → Option β} {l : List α} {ds : List β} (h : l.map f = ds.map some) :
    l.length = ds.length := by
  have := congrArg List.length h
  simpa using this

/-- the byte under the cursor is not a separator (or the cursor is at the end), stated on the buffer -/
theorem Normal.of_run {c : Cfg} {k : Comp} {r : Nat} {b e : Bytes} {ds : List Nat} (h : Run c k r b e ds)
    (hN : ∀ x, b.slc[e.index]? = some x → c.isSep x = false) : Normal c e := by
  intro x hx; rw [h.slc] at hx; exact hN x hx

/-- **a digit run against the stripped input**: if the run over `s` ends on a byte that is not a separator, the digit
prefix of the stripped input at the corresponding position consists of the same digits, its bytes are the
non-separator bytes the run moved over, and the end positions correspond. -/
theorem Run.strip {c : Cfg} {k : Comp} {r : Nat} {b e b' : Bytes} {ds : List Nat} {s : List Nat}
    (hR : Run c k r b e ds) (hr : StripRel c s b b') (hN : ∀ x, b.slc[e.index]? = some x → c.isSep x = false) :
    digitsPrefix r (b'.slc.drop b'.index) = ds ∧
    (b'.slc.drop b'.index).take ds.length = nonSep c (slice b.slc b.index e.index) ∧
    StripRel c s e (adv c k ds.length b') := by
  have hd := hr.drop
  rw [drop_slice_append b.slc b.index e.index hR.le, nonSep_append] at hd
  have hlen := map_some_length hR.yields
  have hrest : ∀ x, (nonSep c (b.slc.drop e.index)).head? = some x → charToDigit x r = none := by
    intro x hx
    cases hv : b.slc[e.index]? with
    | none => rw [drop_of_none hv] at hx; simp [nonSep] at hx
    | some y =>
      rw [drop_of_get hv, nonSep_cons_non c y _ (hN y hv)] at hx
      simp only [List.head?_cons, Option.some.injEq] at hx
      subst hx
      exact hR.stop y hv
  refine ⟨?_, ?_, ?_⟩
  · rw [hd]; exact digitsPrefix_append r _ ds _ hR.yields hrest
  · rw [hd, ← hlen, List.take_left]
  · have := hr.adv k (e.index - b.index) ds.length (by rw [← slice]; exact hlen)
    rw [← hR.eq] at this
    exact this

/-- the stripped input is free of separators -/
theorem StripRel.noSep {c : Cfg} {s : List Nat} {b b' : Bytes} (h : StripRel c s b b') : NoSep c b'.slc := by
  rw [h.2.1]; exact nonSep_noSep c s

/-- `integerPhase` over the stripped input, given the integer run over the input with separators -/
theorem integerPhase_right (c : Cfg) (o : POpts) (hG : GenStrip c o) (s : List Nat) (b b' e : Bytes) (ds : List Nat)
    (hR : Run c .integer c.mantissaRadix b e ds) (hr : StripRel c s b b')
    (hN : ∀ x, b.slc[e.index]? = some x → c.isSep x = false)
    (hne : (c.requiredIntegerDigits && decide (ds.length = 0)) = false) :
    integerPhase c b' = .ok ⟨false, b', adv c .integer ds.length b', foldMantissa c.mantissaRadix 0 ds, ds.length,
      nonSep c (slice b.slc b.index e.index)⟩ ∧ StripRel c s e (adv c .integer ds.length b') := by
  obtain ⟨h1, h2, h3⟩ := hR.strip hr hN
  refine ⟨?_, h3⟩
  rw [integerPhase_rel c hG.rel b' b' false hr.noSep (prefixPhase_none c hG.noPrefix b')]
  unfold intClosed
  simp only [h1, hG.format, Bool.true_and, hne, Bool.false_eq_true, if_false, h2, hG.noLz, Bool.and_false,
    Bool.false_and]

/-- `fractionPhase` over the stripped input, given the fraction run over the input with separators -/
theorem fractionPhase_right (c : Cfg) (o : POpts) (hG : GenStrip c o) (s : List Nat) (b b' e : Bytes) (m : Nat)
    (ds : List Nat) (hdp : b.slc[b.index]? = some o.dp)
    (hR : Run c .fraction c.mantissaRadix { b with index := b.index + 1 } e ds) (hr : StripRel c s b b')
    (hN : ∀ x, b.slc[e.index]? = some x → c.isSep x = false)
    (hne : (c.requiredFractionDigits && decide (ds.length = 0)) = false) :
    fractionPhase c o b' m = .ok ⟨adv c .fraction ds.length { b' with index := b'.index + 1 },
      foldMantissa c.mantissaRadix m ds, ds.length, scaleVal c (-(ds.length : Int)),
      some (nonSep c (slice b.slc (b.index + 1) e.index)), true⟩ ∧
    StripRel c s e (adv c .fraction ds.length { b' with index := b'.index + 1 }) := by
  have hr1 := hr.step1 o.dp hdp hG.sepDp
  obtain ⟨h1, h2, h3⟩ := hR.strip hr1 hN
  simp only at h1 h2 h3
  refine ⟨?_, h3⟩
  have hf : b'.firstIsCased o.dp = true := by
    have : Normal c b := by intro x hx; rw [hdp] at hx; cases hx; exact hG.sepDp
    have hf1 := hr.first this
    unfold Bytes.firstIsCased
    rw [hf1]
    simp only [Bytes.first, hdp, beq_self_eq_true]
  rw [fractionPhase_rel c hG.rel o b' m hr.noSep]
  unfold fracClosed
  simp only [hf, if_true, h1, hG.format, Bool.true_and, hne, Bool.false_eq_true, if_false, h2]

/-- `parse_sign!` on corresponding cursors: either both do the same, or the left cursor stands on a separator and the
first non-separator byte after it is a sign (then the left run saw no sign and stays where it is) -/
theorem parseSign_strip_g (c : Cfg) (hd : c.debug = false) (hsp : c.isSep 43 = false) (hsm : c.isSep 45 = false) (s : List Nat) (np rq : Bool) (ip ms : String) (b b' : Bytes)
    (hr : StripRel c s b b') (r : Bool × Bytes) (h : parseSign c np rq ip ms b = .ok r) :
    (∃ r', parseSign c np rq ip ms b' = .ok r' ∧ r'.1 = r.1 ∧ StripRel c s r.2 r'.2 ∧
      (b.index ≤ b.slc.length → r.2.index ≤ b.slc.length)) ∨
    (r.2 = b ∧ ∃ y, (nonSep c (b.slc.drop b.index)).head? = some y ∧ (y = 43 ∨ y = 45)) := by
  have hhead := hr.head
  cases hv : b.slc[b.index]? with
  | none =>
    left
    have hN : Normal c b := by intro x hx; rw [hv] at hx; cases hx
    have hf := hr.first hN
    unfold parseSign at h ⊢
    rw [hf]
    simp only [Bytes.first, hv] at h ⊢
    cases rq
    · simp only [Bool.false_eq_true, if_false, pure, Except.pure, Except.ok.injEq] at h ⊢
      subst h; exact ⟨_, rfl, rfl, hr, fun h => h⟩
    · simp at h
  | some x =>
    cases hs : c.isSep x with
    | false =>
      left
      have hN : Normal c b := by intro y hy; rw [hv] at hy; cases hy; exact hs
      have hf := hr.first hN
      have hr1 := hr.step1 x hv hs
      have hlt : b.index < b.slc.length := (List.getElem?_eq_some_iff.mp hv).1
      unfold parseSign at h ⊢
      rw [hf]
      simp only [step_release c hd, bind, Except.bind, pure, Except.pure] at h ⊢
      split at h
      · split at h
        · simp only [Except.ok.injEq] at h; subst h
          simp only [*, if_true]
          exact ⟨_, rfl, rfl, hr1, fun _ => hlt⟩
        · cases h
      · simp only [Except.ok.injEq] at h; subst h
        exact ⟨_, rfl, rfl, hr1, fun _ => hlt⟩
      · split at h
        · cases h
        · simp only [Except.ok.injEq] at h; subst h
          simp only [*, if_false]
          exact ⟨_, rfl, rfl, hr, fun h => h⟩
    | true =>
      have hx43 : x ≠ 43 := by intro e; subst e; rw [hsp] at hs; cases hs
      have hx45 : x ≠ 45 := by intro e; subst e; rw [hsm] at hs; cases hs
      have hb : b.first = some x := by simp [Bytes.first, hv]
      unfold parseSign at h
      rw [hb] at h
      have hleft : (if rq = true then (Except.error (Err.err ms b.index) : Except Err (Bool × Bytes))
          else pure (false, b)) = .ok r := by
        split at h
        · next heq => simp only [Option.some.injEq] at heq; exact absurd heq hx43
        · next heq => simp only [Option.some.injEq] at heq; exact absurd heq hx45
        · exact h
      cases rq
      · simp only [Bool.false_eq_true, if_false, pure, Except.pure, Except.ok.injEq] at hleft
        subst hleft
        cases hy : (nonSep c (b.slc.drop b.index)).head? with
        | none =>
          left
          unfold parseSign
          rw [hhead, hy]
          exact ⟨_, rfl, rfl, hr, fun h => h⟩
        | some y =>
          by_cases hsg : y = 43 ∨ y = 45
          · right; exact ⟨rfl, y, rfl, hsg⟩
          · left
            unfold parseSign
            rw [hhead, hy]
            have h43 : y ≠ 43 := fun e => hsg (Or.inl e)
            have h45 : y ≠ 45 := fun e => hsg (Or.inr e)
            refine ⟨(false, b'), ?_, rfl, hr, fun h => h⟩
            split
            · next heq => simp only [Option.some.injEq] at heq; exact absurd heq h43
            · next heq => simp only [Option.some.injEq] at heq; exact absurd heq h45
            · rfl
      · simp at hleft

/-- `parse_sign!`, from the stripped run back to the run with separators -/
theorem parseSign_strip_rev_g (c : Cfg) (hd : c.debug = false) (hsp : c.isSep 43 = false) (hsm : c.isSep 45 = false) (s : List Nat) (np rq : Bool) (ip ms : String) (b b' : Bytes)
    (hr : StripRel c s b b') (hP : NoSignAfterSep c b) (r' : Bool × Bytes) (h : parseSign c np rq ip ms b' = .ok r') :
    ∃ r, parseSign c np rq ip ms b = .ok r ∧ r'.1 = r.1 ∧ StripRel c s r.2 r'.2 ∧ (b.index ≤ b.slc.length → r.2.index ≤ b.slc.length) := by
  have hhead := hr.head
  cases hv : b.slc[b.index]? with
  | none =>
    have hN : Normal c b := by intro x hx; rw [hv] at hx; cases hx
    have hf := hr.first hN
    unfold parseSign at h ⊢
    rw [hf] at h
    simp only [Bytes.first, hv] at h ⊢
    cases rq
    · simp only [Bool.false_eq_true, if_false, pure, Except.pure, Except.ok.injEq] at h ⊢
      subst h; exact ⟨_, rfl, rfl, hr, fun h => h⟩
    · simp at h
  | some x =>
    have hlt : b.index < b.slc.length := (List.getElem?_eq_some_iff.mp hv).1
    cases hs : c.isSep x with
    | false =>
      have hN : Normal c b := by intro y hy; rw [hv] at hy; cases hy; exact hs
      have hf := hr.first hN
      have hr1 := hr.step1 x hv hs
      unfold parseSign at h ⊢
      rw [hf] at h
      simp only [step_release c hd, bind, Except.bind, pure, Except.pure] at h ⊢
      split at h
      · split at h
        · simp only [Except.ok.injEq] at h; subst h
          simp only [*, if_true]
          exact ⟨_, rfl, rfl, hr1, fun _ => hlt⟩
        · cases h
      · simp only [Except.ok.injEq] at h; subst h
        exact ⟨_, rfl, rfl, hr1, fun _ => hlt⟩
      · split at h
        · cases h
        · simp only [Except.ok.injEq] at h; subst h
          simp only [*, if_false]
          exact ⟨_, rfl, rfl, hr, fun h => h⟩
    | true =>
      have hx43 : x ≠ 43 := by intro e; subst e; rw [hsp] at hs; cases hs
      have hx45 : x ≠ 45 := by intro e; subst e; rw [hsm] at hs; cases hs
      have hb : b.first = some x := by simp [Bytes.first, hv]
      have hright : (if rq = true then (Except.error (Err.err ms b'.index) : Except Err (Bool × Bytes))
          else pure (false, b')) = .ok r' := by
        unfold parseSign at h
        rw [hhead] at h
        cases hy : (nonSep c (b.slc.drop b.index)).head? with
        | none => rw [hy] at h; exact h
        | some y =>
          rw [hy] at h
          have := hP x hv hs y hy
          split at h
          · next heq => simp only [Option.some.injEq] at heq; exact absurd heq this.1
          · next heq => simp only [Option.some.injEq] at heq; exact absurd heq this.2
          · exact h
      cases rq
      · simp only [Bool.false_eq_true, if_false, pure, Except.pure, Except.ok.injEq] at hright
        subst hright
        refine ⟨(false, b), ?_, rfl, hr, fun h => h⟩
        unfold parseSign
        rw [hb]
        split
        · next heq => simp only [Option.some.injEq] at heq; exact absurd heq hx43
        · next heq => simp only [Option.some.injEq] at heq; exact absurd heq hx45
        · rfl
      · simp at hright

/-- the exponent digits over an input with separators, in terms of the exponent digit run -/
theorem expTail_left_g (c : Cfg) (o : POpts) (hG : GenStrip c o) (neg : Bool) (b : Bytes) (ex : Int)
    (hv : Bytes.Valid b) :
    ∃ ds e, Run c .exponent c.exponentRadix b e ds ∧
      expTail c neg b ex =
        (if ds.length = 0 then .error (.err "EmptyExponent" e.index)
         else .ok ⟨e, if neg then -(foldExponent c.exponentRadix 0 ds : Int) else (foldExponent c.exponentRadix 0 ds : Int),
                   ex + if neg then -(foldExponent c.exponentRadix 0 ds : Int) else (foldExponent c.exponentRadix 0 ds : Int)⟩) := by
  obtain ⟨ds, e, h, _⟩ := PNTotal.parseDigits_tot hG.tot .exponent c.exponentRadix b hv
  have hR := Run.of c .exponent _ hG.rel.debug hG.sepDigE b e ds hv h
  refine ⟨ds, e, hR, ?_⟩
  unfold expTail
  simp only [h, bind, Except.bind, hR.count hG.format hG.bytes (by decide), hG.reqExp, Bool.true_and, pure,
    Except.pure, decide_eq_true_eq]

/-- the exponent digits over the stripped input -/
theorem expTail_right_g (c : Cfg) (o : POpts) (hG : GenStrip c o) (s : List Nat) (neg : Bool) (b b' e : Bytes)
    (ds : List Nat) (ex : Int) (hR : Run c .exponent c.exponentRadix b e ds) (hr : StripRel c s b b')
    (hN : ∀ x, b.slc[e.index]? = some x → c.isSep x = false) (hne : ds.length ≠ 0) :
    expTail c neg b' ex =
      .ok ⟨adv c .exponent ds.length b',
        if neg then -(foldExponent c.exponentRadix 0 ds : Int) else (foldExponent c.exponentRadix 0 ds : Int),
        ex + if neg then -(foldExponent c.exponentRadix 0 ds : Int) else (foldExponent c.exponentRadix 0 ds : Int)⟩ ∧
    StripRel c s e (adv c .exponent ds.length b') := by
  obtain ⟨h1, _, h3⟩ := hR.strip hr hN
  refine ⟨?_, h3⟩
  unfold expTail
  simp only [parseDigits_nosep c .exponent _ hG.rel.debug (hG.rel.reach _) b' hr.noSep, h1, bind, Except.bind,
    currentCount_adv_sub c .exponent _ _ (by decide), hG.reqExp, Bool.true_and, pure, Except.pure, decide_eq_true_eq,
    hne, if_false]

/-- **the exponent phase**: run over the input with separators against the run over the stripped input -/
theorem exponentPhase_strip (c : Cfg) (o : POpts) (hG : GenStrip c o) (s : List Nat) (hasExp : Bool) (bC bP : Bytes)
    (hr : StripRel c s bC bP) (hNb : Normal c bC) (hx : hasExp = true → ∃ x, bC.slc[bC.index]? = some x)
    (hv : bC.index ≤ s.length) (fr : Option (List Nat)) (ex : Int) (ep : ExpPart)
    (h : exponentPhase c hasExp bC fr ex = .ok ep)
    (hNe : ∀ x, s[ep.byte.index]? = some x → c.isSep x = false) :
    ∃ ep', exponentPhase c hasExp bP (fr.map (nonSep c)) ex = .ok ep' ∧ StripRel c s ep.byte ep'.byte ∧
      ep'.explicit = ep.explicit ∧ ep'.exponent = ep.exponent ∧ ep.byte.index ≤ s.length := by
  rw [exponentPhase_eq] at h ⊢
  cases hasExp
  · simp only [Bool.false_eq_true, if_false] at h ⊢
    split at h
    · cases h
    · next hc =>
      simp only [pure, Except.pure, Except.ok.injEq] at h
      subst h
      simp only [hc, Bool.false_eq_true, if_false, pure, Except.pure]
      exact ⟨_, rfl, hr, rfl, rfl, hv⟩
  · obtain ⟨x, hget⟩ := hx rfl
    have hr1 := hr.step1 x hget (hNb x hget)
    have hlt : bC.index < bC.slc.length := (List.getElem?_eq_some_iff.mp hget).1
    simp only [if_true, step_release c hG.rel.debug, bind, Except.bind, Option.isNone_map] at h ⊢
    split at h
    · cases h
    · next hc1 =>
      split at h
      · cases h
      · next hc2 =>
        simp only [hc1, hc2, Bool.false_eq_true, if_false]
        unfold parseExponentSign at h ⊢
        cases hps : parseSign c c.noPositiveExponentSign c.requiredExponentSign "InvalidPositiveExponentSign"
            "MissingExponentSign" { bC with index := bC.index + 1 } with
        | error e => simp [hps] at h
        | ok r =>
          simp only [hps] at h
          have hs1 : ({ bC with index := bC.index + 1 } : Bytes).slc = s := hr.1
          rcases parseSign_strip_g c hG.rel.debug hG.sepPlus hG.sepMinus s _ _ _ _ _ _ hr1 r hps with
            ⟨r', h1, h2, h3, h4⟩ | ⟨h1, y, hy, hsg⟩
          · simp only [h1, h2]
            have hv2 : r.2.index ≤ r.2.slc.length := by
              have := h4 (by simp only; omega)
              rw [h3.1]; simp only [hr.1] at this; exact this
            obtain ⟨ds, e, hR, hL⟩ := expTail_left_g c o hG r.1 r.2 ex hv2
            rw [hL] at h
            by_cases hz : ds.length = 0
            · simp [hz] at h
            · simp only [hz, if_false, Except.ok.injEq] at h
              subst h
              simp only at hNe
              have hN2 : ∀ x, r.2.slc[e.index]? = some x → c.isSep x = false := by
                intro x hx; rw [h3.1] at hx; exact hNe x hx
              obtain ⟨g1, g2⟩ := expTail_right_g c o hG s r.1 r.2 r'.2 e ds ex hR h3 hN2 hz
              refine ⟨_, g1, g2, rfl, rfl, ?_⟩
              have := hR.valid; rw [h3.1] at this; exact this
          · -- the left run saw no sign although one follows the separators: it finds no exponent digit
            exfalso
            rw [h1] at h
            have hv2 : Bytes.Valid ({ bC with index := bC.index + 1 } : Bytes) := by
              unfold Bytes.Valid; simp only; omega
            obtain ⟨ds, e, hR, hL⟩ := expTail_left_g c o hG r.1 { bC with index := bC.index + 1 } ex hv2
            rw [hL] at h
            have hempty : ds.length = 0 := by
              cases ds with
              | nil => rfl
              | cons d ds' =>
                exfalso
                have hyl := hR.yields
                have hd := drop_slice_append ({ bC with index := bC.index + 1 } : Bytes).slc
                  ({ bC with index := bC.index + 1 } : Bytes).index e.index hR.le
                rw [hd, nonSep_append] at hy
                cases hl : nonSep c (slice ({ bC with index := bC.index + 1 } : Bytes).slc
                    ({ bC with index := bC.index + 1 } : Bytes).index e.index) with
                | nil => rw [hl] at hyl; simp at hyl
                | cons z zs =>
                  rw [hl] at hy hyl
                  simp only [List.cons_append, List.head?_cons, Option.some.injEq] at hy
                  subst hy
                  simp only [List.map_cons, List.cons.injEq] at hyl
                  have := charToDigit_sign c.exponentRadix hG.radixE
                  rcases hsg with rfl | rfl
                  · rw [this.1] at hyl; cases hyl.1
                  · rw [this.2] at hyl; cases hyl.1
            simp [hempty] at h

end LexVerif.Proof.Sep
