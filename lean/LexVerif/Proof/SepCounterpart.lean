import LexVerif.Proof.SepFreeTop
/-!
# Proof.SepCounterpart — every format has a separator-free counterpart

`Format.clearSep` clears the digit-separator byte (bits 64–71) and the separator flag bits (32–63) of a packed
format and keeps everything else; `plainOf c` is `c` with that format. It is a `PlainClass` format and a `Counterpart`
of `c`, and the documented grammar (`Syn.of`) does not see the difference. With `Proof.SepFreeTop` this transports
every theorem about separator-free formats to all formats on inputs without the separator byte.
-/
namespace LexVerif.Proof.Sep
open LexVerif LexVerif.Model LexVerif.Spec
open LexVerif.Props.C12

/-- the packed format with digit-separator byte and separator flags cleared -/
def clearSep (f : Format) : Format := ⟨2 ^ 72 * (f.raw / 2 ^ 72) + f.raw % 2 ^ 32⟩

/-- `c` without digit separators -/
def plainOf (c : Cfg) : Cfg := ⟨c.feats, clearSep c.fmt, false⟩

section bits
variable (f : Format)

theorem cs_bit_eq (i : Nat) (h : (2 ^ 72 * (f.raw / 2 ^ 72) + f.raw % 2 ^ 32) / 2 ^ i % 2 = f.raw / 2 ^ i % 2) :
    (clearSep f).bit i = f.bit i := by
  simp only [Format.bit, clearSep, h]

theorem cs_bit_zero (i : Nat) (h : (2 ^ 72 * (f.raw / 2 ^ 72) + f.raw % 2 ^ 32) / 2 ^ i % 2 = 0) :
    (clearSep f).bit i = false := by
  simp only [Format.bit, clearSep, h]; rfl

theorem cs_byte_eq (k : Nat) (h : (2 ^ 72 * (f.raw / 2 ^ 72) + f.raw % 2 ^ 32) / 2 ^ k % 256 = f.raw / 2 ^ k % 256) :
    (clearSep f).byteAt k = f.byteAt k := by
  simp only [Format.byteAt, clearSep, h]

/-- a flag bit below 32 survives -/
macro "low_bit" : tactic => `(tactic| exact cs_bit_eq _ _ (by omega))

/-- a byte field at or above bit 72 survives -/
macro "high_byte" : tactic => `(tactic| exact cs_byte_eq _ _ (by omega))

/-- a separator flag bit is cleared -/
macro "sep_bit" : tactic => `(tactic| exact cs_bit_zero _ _ (by omega))

theorem cs_requiredIntegerDigits : (clearSep f).requiredIntegerDigits = f.requiredIntegerDigits := by
  unfold Format.requiredIntegerDigits; low_bit
theorem cs_requiredFractionDigits : (clearSep f).requiredFractionDigits = f.requiredFractionDigits := by
  unfold Format.requiredFractionDigits; low_bit
theorem cs_requiredExponentDigits : (clearSep f).requiredExponentDigits = f.requiredExponentDigits := by
  unfold Format.requiredExponentDigits; low_bit
theorem cs_requiredMantissaDigits : (clearSep f).requiredMantissaDigits = f.requiredMantissaDigits := by
  unfold Format.requiredMantissaDigits; low_bit
theorem cs_noPositiveMantissaSign : (clearSep f).noPositiveMantissaSign = f.noPositiveMantissaSign := by
  unfold Format.noPositiveMantissaSign; low_bit
theorem cs_requiredMantissaSign : (clearSep f).requiredMantissaSign = f.requiredMantissaSign := by
  unfold Format.requiredMantissaSign; low_bit
theorem cs_noExponentNotation : (clearSep f).noExponentNotation = f.noExponentNotation := by
  unfold Format.noExponentNotation; low_bit
theorem cs_noPositiveExponentSign : (clearSep f).noPositiveExponentSign = f.noPositiveExponentSign := by
  unfold Format.noPositiveExponentSign; low_bit
theorem cs_requiredExponentSign : (clearSep f).requiredExponentSign = f.requiredExponentSign := by
  unfold Format.requiredExponentSign; low_bit
theorem cs_noExponentWithoutFraction : (clearSep f).noExponentWithoutFraction = f.noExponentWithoutFraction := by
  unfold Format.noExponentWithoutFraction; low_bit
theorem cs_noSpecial : (clearSep f).noSpecial = f.noSpecial := by
  unfold Format.noSpecial; low_bit
theorem cs_caseSensitiveSpecial : (clearSep f).caseSensitiveSpecial = f.caseSensitiveSpecial := by
  unfold Format.caseSensitiveSpecial; low_bit
theorem cs_noIntegerLeadingZeros : (clearSep f).noIntegerLeadingZeros = f.noIntegerLeadingZeros := by
  unfold Format.noIntegerLeadingZeros; low_bit
theorem cs_noFloatLeadingZeros : (clearSep f).noFloatLeadingZeros = f.noFloatLeadingZeros := by
  unfold Format.noFloatLeadingZeros; low_bit
theorem cs_requiredExponentNotation : (clearSep f).requiredExponentNotation = f.requiredExponentNotation := by
  unfold Format.requiredExponentNotation; low_bit
theorem cs_caseSensitiveExponent : (clearSep f).caseSensitiveExponent = f.caseSensitiveExponent := by
  unfold Format.caseSensitiveExponent; low_bit
theorem cs_caseSensitiveBasePrefix : (clearSep f).caseSensitiveBasePrefix = f.caseSensitiveBasePrefix := by
  unfold Format.caseSensitiveBasePrefix; low_bit
theorem cs_caseSensitiveBaseSuffix : (clearSep f).caseSensitiveBaseSuffix = f.caseSensitiveBaseSuffix := by
  unfold Format.caseSensitiveBaseSuffix; low_bit

theorem cs_basePrefix : (clearSep f).basePrefix = f.basePrefix := by unfold Format.basePrefix; high_byte
theorem cs_baseSuffix : (clearSep f).baseSuffix = f.baseSuffix := by unfold Format.baseSuffix; high_byte
theorem cs_mantissaRadix : (clearSep f).mantissaRadix = f.mantissaRadix := by unfold Format.mantissaRadix; high_byte
theorem cs_exponentBaseRaw : (clearSep f).exponentBaseRaw = f.exponentBaseRaw := by
  unfold Format.exponentBaseRaw; high_byte
theorem cs_exponentRadixRaw : (clearSep f).exponentRadixRaw = f.exponentRadixRaw := by
  unfold Format.exponentRadixRaw; high_byte
theorem cs_exponentBase : (clearSep f).exponentBase = f.exponentBase := by
  unfold Format.exponentBase; rw [cs_exponentBaseRaw, cs_mantissaRadix]
theorem cs_exponentRadix : (clearSep f).exponentRadix = f.exponentRadix := by
  unfold Format.exponentRadix; rw [cs_exponentRadixRaw, cs_mantissaRadix]

theorem cs_digitSeparator : (clearSep f).digitSeparator = 0 := by
  have h : (2 ^ 72 * (f.raw / 2 ^ 72) + f.raw % 2 ^ 32) / 2 ^ 64 % 256 = 0 := by omega
  simp only [Format.digitSeparator, Format.byteAt, clearSep, h]

theorem cs_integerInternalSep : (clearSep f).integerInternalSep = false := by unfold Format.integerInternalSep; sep_bit
theorem cs_fractionInternalSep : (clearSep f).fractionInternalSep = false := by unfold Format.fractionInternalSep; sep_bit
theorem cs_exponentInternalSep : (clearSep f).exponentInternalSep = false := by unfold Format.exponentInternalSep; sep_bit
theorem cs_integerLeadingSep : (clearSep f).integerLeadingSep = false := by unfold Format.integerLeadingSep; sep_bit
theorem cs_fractionLeadingSep : (clearSep f).fractionLeadingSep = false := by unfold Format.fractionLeadingSep; sep_bit
theorem cs_exponentLeadingSep : (clearSep f).exponentLeadingSep = false := by unfold Format.exponentLeadingSep; sep_bit
theorem cs_integerTrailingSep : (clearSep f).integerTrailingSep = false := by unfold Format.integerTrailingSep; sep_bit
theorem cs_fractionTrailingSep : (clearSep f).fractionTrailingSep = false := by unfold Format.fractionTrailingSep; sep_bit
theorem cs_exponentTrailingSep : (clearSep f).exponentTrailingSep = false := by unfold Format.exponentTrailingSep; sep_bit
theorem cs_integerConsecutiveSep : (clearSep f).integerConsecutiveSep = false := by
  unfold Format.integerConsecutiveSep; sep_bit
theorem cs_fractionConsecutiveSep : (clearSep f).fractionConsecutiveSep = false := by
  unfold Format.fractionConsecutiveSep; sep_bit
theorem cs_exponentConsecutiveSep : (clearSep f).exponentConsecutiveSep = false := by
  unfold Format.exponentConsecutiveSep; sep_bit
theorem cs_specialSep : (clearSep f).specialSep = false := by unfold Format.specialSep; sep_bit

end bits

/-- the separator-free format is separator- and (if `c` is) prefix-free in the sense of C12 -/
theorem clearSep_sepPrefixFree (f : Format) (hp : f.basePrefix = 0) : SepPrefixFree (clearSep f) :=
  ⟨cs_digitSeparator f, by rw [cs_basePrefix]; exact hp, cs_integerInternalSep f, cs_fractionInternalSep f,
   cs_exponentInternalSep f, cs_integerLeadingSep f, cs_fractionLeadingSep f, cs_exponentLeadingSep f,
   cs_integerTrailingSep f, cs_fractionTrailingSep f, cs_exponentTrailingSep f, cs_integerConsecutiveSep f,
   cs_fractionConsecutiveSep f, cs_exponentConsecutiveSep f, cs_specialSep f⟩

theorem plainOf_counterpart (c : Cfg) : Counterpart c (plainOf c) := by
  constructor <;>
    simp only [plainOf, Cfg.requiredIntegerDigits, Cfg.requiredFractionDigits, Cfg.requiredExponentDigits,
      Cfg.requiredMantissaDigits, Cfg.noPositiveMantissaSign, Cfg.requiredMantissaSign, Cfg.noExponentNotation,
      Cfg.noPositiveExponentSign, Cfg.requiredExponentSign, Cfg.noExponentWithoutFraction, Cfg.noSpecial,
      Cfg.caseSensitiveSpecial, Cfg.noFloatLeadingZeros, Cfg.requiredExponentNotation, Cfg.caseSensitiveExponent,
      Cfg.caseSensitiveBasePrefix, Cfg.caseSensitiveBaseSuffix, Cfg.basePrefix, Cfg.baseSuffix, Cfg.mantissaRadix,
      Cfg.exponentBase, Cfg.exponentRadix, Cfg.flag,
      cs_requiredIntegerDigits, cs_requiredFractionDigits, cs_requiredExponentDigits, cs_requiredMantissaDigits,
      cs_noPositiveMantissaSign, cs_requiredMantissaSign, cs_noExponentNotation, cs_noPositiveExponentSign,
      cs_requiredExponentSign, cs_noExponentWithoutFraction, cs_noSpecial, cs_caseSensitiveSpecial,
      cs_noFloatLeadingZeros, cs_requiredExponentNotation, cs_caseSensitiveExponent, cs_caseSensitiveBasePrefix,
      cs_caseSensitiveBaseSuffix, cs_basePrefix, cs_baseSuffix, cs_mantissaRadix, cs_exponentBase, cs_exponentRadix]

theorem plainOf_plain (c : Cfg) (hr : c.feats.powerOfTwo = false → c.mantissaRadix ≤ 10) : PlainClass (plainOf c) := by
  refine ⟨rfl, ?_, ?_, ?_⟩
  · simp only [plainOf, Cfg.digitSeparator, cs_digitSeparator]; split <;> rfl
  · intro k
    cases k <;>
      simp [plainOf, Cfg.iterContiguous, Cfg.sepFlags, Cfg.specialSep, Cfg.flag, SepFlags.any,
        cs_integerInternalSep, cs_fractionInternalSep, cs_exponentInternalSep, cs_integerLeadingSep,
        cs_fractionLeadingSep, cs_exponentLeadingSep, cs_integerTrailingSep, cs_fractionTrailingSep,
        cs_exponentTrailingSep, cs_integerConsecutiveSep, cs_fractionConsecutiveSep, cs_exponentConsecutiveSep,
        cs_specialSep]
  · intro h
    have := hr h
    simpa only [plainOf, Cfg.mantissaRadix, cs_mantissaRadix] using this

/-- the documented grammar does not look at separators -/
theorem syn_clearSep (feats : Features) (f : Format) : Syn.of feats (clearSep f) = Syn.of feats f := by
  unfold Syn.of
  simp only [cs_requiredIntegerDigits, cs_requiredFractionDigits, cs_requiredExponentDigits, cs_requiredMantissaDigits,
    cs_noPositiveMantissaSign, cs_requiredMantissaSign, cs_noExponentNotation, cs_noPositiveExponentSign,
    cs_requiredExponentSign, cs_noExponentWithoutFraction, cs_noSpecial, cs_caseSensitiveSpecial,
    cs_noIntegerLeadingZeros, cs_noFloatLeadingZeros, cs_requiredExponentNotation, cs_caseSensitiveExponent,
    cs_caseSensitiveBasePrefix, cs_caseSensitiveBaseSuffix, cs_basePrefix, cs_baseSuffix, cs_mantissaRadix,
    cs_exponentRadix]

end LexVerif.Proof.Sep
