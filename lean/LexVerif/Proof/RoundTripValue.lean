import LexVerif.Proof.RoundTripForm
import LexVerif.Props.RoundNE
/-!
# Proof.RoundTripValue — the exact value of a literal in `DigitsForm` (C08)

A literal whose digits are `zeros ++ R ++ zeros` at scientific exponent `sci` denotes `R · 10^(sci + 1 − |R|)`:
`Spec.litBits` of it is `roundNE` of that decimal (the two short-circuits of `litBits` are not taken when
`-1200 < sci < 1100`), plus the sign bit.
-/
namespace LexVerif.Proof.RoundTrip
open LexVerif.Spec LexVerif.Proof.RoundNE LexVerif.Props.RoundNE

theorem ofDigits_rep_zero (n : Nat) : ofDigits 10 (List.replicate n 0) = 0 :=
  ofDigits_zeros 10 _ (fun d hd => (List.mem_replicate.mp hd).2)

theorem foldl_rep_zero (z acc : Nat) :
    (List.replicate z 0).foldl (fun a d => a * 10 + d) acc = acc * 10 ^ z := by
  induction z generalizing acc with
  | zero => simp
  | succ n ih =>
    simp only [List.replicate_succ, List.foldl_cons, Nat.add_zero, ih, Nat.pow_succ]
    rw [Nat.mul_assoc, Nat.mul_comm 10]

/-- leading zeros vanish, trailing zeros scale -/
theorem ofDigits_form (lz z : Nat) (R : List Nat) :
    ofDigits 10 (List.replicate lz 0 ++ R ++ List.replicate z 0) = ofDigits 10 R * 10 ^ z := by
  rw [ofDigits_append, foldl_rep_zero, ofDigits_append, ofDigits_rep_zero]
  rfl

/-- **exact value of a literal in `DigitsForm`**: `digits · 10^(exp − |frac|) = R · 10^(sci + 1 − |R|)` -/
theorem digitsForm_value (ints frac : List Nat) (e : Int) (R : List Nat) (sci : Int)
    (h : DigitsForm ints frac e R sci) :
    (ofDigits 10 (ints ++ frac) : ℚ) * (10 : ℚ) ^ (e - (frac.length : Int)) =
      (ofDigits 10 R : ℚ) * (10 : ℚ) ^ (sci + 1 - (R.length : Int)) := by
  obtain ⟨lz, z, hcat, hexp⟩ := h
  have hE : sci + 1 - (R.length : Int) = (z : Int) + (e - (frac.length : Int)) := by omega
  have h10 : (10 : ℚ) ≠ 0 := by norm_num
  rw [hcat, ofDigits_form, hE, zpow_add₀ h10, zpow_natCast]
  push_cast
  ring

theorem litBits_of_form {f : Fmt} (hf : WF f) (l : FloatLit) (R : List Nat) (sci : Int)
    (hform : DigitsForm l.intDigits l.fracDigits l.exp R sci) (hD : ofDigits 10 R ≠ 0)
    (hlo : -1200 < sci) (hhi : sci < 1100) :
    litBits f 10 10 l =
      roundNE f (decFrac (ofDigits 10 R) (sci + 1 - (R.length : Int))).1
          (decFrac (ofDigits 10 R) (sci + 1 - (R.length : Int))).2 +
        (if l.neg then f.signBit else 0) := by
  obtain ⟨lz, z, hcat, hexp⟩ := hform
  have hm : ofDigits 10 (l.intDigits ++ l.fracDigits) = ofDigits 10 R * 10 ^ z := by rw [hcat, ofDigits_form]
  have hm0 : ofDigits 10 (l.intDigits ++ l.fracDigits) ≠ 0 := by
    rw [hm]; exact Nat.mul_ne_zero hD (Nat.ne_of_gt (Nat.pow_pos (by omega)))
  have hlen : (l.intDigits ++ l.fracDigits).length = lz + R.length + z := by rw [hcat]; simp; omega
  have hRlen : 1 ≤ R.length := by
    cases R with
    | nil => exact absurd rfl hD
    | cons a b => simp
  have hE : sci + 1 - (R.length : Int) = l.exp - (l.fracDigits.length : Int) + (z : Int) := by omega
  unfold litBits
  simp only [hm0, if_false, hlen]
  have c1 : ¬ l.exp ≥ ((1100 + 6 * l.fracDigits.length : Nat) : Int) := by push_cast; omega
  have c2 : ¬ l.exp ≤ -(((1200 + 6 * (lz + R.length + z) : Nat)) : Int) := by push_cast; omega
  simp only [c1, c2, if_false]
  congr 1
  rw [hE, hm]
  have h10 : (10 : ℚ) ≠ 0 := by norm_num
  by_cases hp : l.exp ≥ 0
  · simp only [hp, if_true]
    apply roundNE_congr hf (Nat.pow_pos (by omega)) (decFrac_den_pos _ _)
    rw [decFrac_Q]
    obtain ⟨a, ha⟩ : ∃ a : Nat, l.exp = (a : Int) := ⟨l.exp.toNat, by omega⟩
    rw [ha]
    simp only [Int.toNat_natCast]
    push_cast
    rw [zpow_add₀ h10, zpow_sub₀ h10, zpow_natCast, zpow_natCast, zpow_natCast]
    field_simp
  · simp only [hp, if_false]
    apply roundNE_congr hf (Nat.mul_pos (Nat.pow_pos (by omega)) (Nat.pow_pos (by omega))) (decFrac_den_pos _ _)
    rw [decFrac_Q]
    obtain ⟨a, ha⟩ : ∃ a : Nat, l.exp = -(a : Int) := ⟨(-l.exp).toNat, by omega⟩
    rw [ha]
    simp only [neg_neg, Int.toNat_natCast]
    push_cast
    rw [zpow_add₀ h10, zpow_sub₀ h10, zpow_neg, zpow_natCast, zpow_natCast, zpow_natCast]
    field_simp

end LexVerif.Proof.RoundTrip
