import LexVerif.Proof.RoundTripForm
import LexVerif.Props.RoundNE
/-!
# Proof.RoundTripValue — the exact value of a literal in `DigitsForm` (C08)

A literal whose digits are `zeros ++ R ++ zeros` at scientific exponent `sci` denotes `R · 10^(sci + 1 − |R|)`:
`Spec.litBits` of it is `roundNE` of that decimal (the two short-circuits of `litBits` are not taken when
`-1200 < sci < 1100`), plus the sign bit.
-/
namespace LexVerif.Proof.RoundTrip
open LexVerif.Spec LexVerif.Proof.RoundNE LexVerif.Props.RoundNE

theorem ofDigits_rep_zero (n : Nat) : ofDigits 10 (List.replicate n 0) = 0 :=
  ofDigits_zeros 10 _ (fun d hd => (List.mem_replicate.mp hd).2)

theorem foldl_rep_zero (z acc : Nat) :
    (List.replicate z 0).foldl (fun a d => a * 10 + d) acc = acc * 10 ^ z := by
  induction z generalizing acc with
  | zero => simp
  | succ n ih =>
    simp only [List.replicate_succ, List.foldl_cons, Nat.add_zero, ih, Nat.pow_succ]
    rw [Nat.mul_assoc, Nat.mul_comm 10]

/-- leading zeros vanish, trailing zeros scale -/
theorem ofDigits_form (lz z : Nat) (R : List Nat) :
    ofDigits 10 (List.replicate lz 0 ++ R ++ List.replicate z 0) = ofDigits 10 R * 10 ^ z := by
  rw [ofDigits_append, foldl_rep_zero, ofDigits_append, ofDigits_rep_zero]
  rfl

/-- **exact value of a literal in `DigitsForm`**: `digits · 10^(exp − |frac|) = R · 10^(sci + 1 − |R|)` -/
theorem digitsForm_value (ints frac : List Nat) (e : Int) (R : List Nat) (sci : Int)
    (h : DigitsForm ints frac e R sci) :
    (ofDigits 10 (ints ++ frac) : ℚ) * (10 : ℚ) ^ (e - (frac.length : Int)) =
      (ofDigits 10 R : ℚ) * (10 : ℚ) ^ (sci + 1 - (R.length : Int)) := by
  obtain ⟨lz, z, hcat, hexp⟩ := h
  have hE : sci + 1 - (R.length : Int) = (z : Int) + (e - (frac.length : Int)) := by omega
  have h10 : (10 : ℚ) ≠ 0 := by norm_num
  rw [hcat, ofDigits_form, hE, zpow_add₀ h10, zpow_natCast]
  push_cast
  ring

/-- the finite range of the float type lies inside `(10^-1200, 10^1100)` — what makes the two short-circuits of
`Spec.litBits` irrelevant for a decimal that rounds to a finite non-zero float -/
structure FmtRange (f : Fmt) : Prop where
  over : roundNE f (10 ^ 1100) 1 = f.infBits
  under : roundNE f 1 (10 ^ 1200) = 0

theorem fmtRange_f64 : FmtRange f64 := ⟨by decide +kernel, by decide +kernel⟩
theorem fmtRange_f32 : FmtRange f32 := ⟨by decide +kernel, by decide +kernel⟩

theorem ofDigits_lt_pow (ds : List Nat) (h : ∀ d ∈ ds, d < 10) : ofDigits 10 ds < 10 ^ ds.length := by
  induction ds using List.reverseRecOn with
  | nil => simp [ofDigits]
  | append_singleton l d ih =>
    have h1 := ih (fun x hx => h x (by simp [hx]))
    have h2 : d < 10 := h d (by simp)
    rw [ofDigits_snoc, List.length_append, List.length_singleton, Nat.pow_succ]
    omega

/-- a literal in `DigitsForm` whose decimal `R · 10^(sci + 1 − |R|)` rounds to the finite non-zero `mbits` has
`litBits = mbits` + sign -/
theorem litBits_of_form {f : Fmt} (hf : WF f) (hrange : FmtRange f) (l : FloatLit) (R : List Nat) (sci : Int)
    (hform : DigitsForm l.intDigits l.fracDigits l.exp R sci) (hRd : ∀ d ∈ R, d < 10)
    (mbits : Nat) (h0 : 0 < mbits) (hfin : mbits < f.infBits)
    (hrt : roundNE f (decFrac (ofDigits 10 R) (sci + 1 - (R.length : Int))).1
      (decFrac (ofDigits 10 R) (sci + 1 - (R.length : Int))).2 = mbits) :
    litBits f 10 10 l = mbits + (if l.neg then f.signBit else 0) := by
  have hD : ofDigits 10 R ≠ 0 := by
    intro hz
    rw [hz] at hrt
    have : (decFrac 0 (sci + 1 - (R.length : Int))).1 = 0 := by unfold decFrac; split <;> simp
    rw [this, roundNE_zero] at hrt
    omega
  obtain ⟨lz, z, hcat, hexp⟩ := hform
  have hm : ofDigits 10 (l.intDigits ++ l.fracDigits) = ofDigits 10 R * 10 ^ z := by rw [hcat, ofDigits_form]
  have hm0 : ofDigits 10 (l.intDigits ++ l.fracDigits) ≠ 0 := by
    rw [hm]; exact Nat.mul_ne_zero hD (Nat.ne_of_gt (Nat.pow_pos (by omega)))
  have hlen : (l.intDigits ++ l.fracDigits).length = lz + R.length + z := by rw [hcat]; simp; omega
  have hE : sci + 1 - (R.length : Int) = l.exp - (l.fracDigits.length : Int) + (z : Int) := by omega
  have h10 : (10 : ℚ) ≠ 0 := by norm_num
  have h10' : (1 : ℚ) ≤ 10 := by norm_num
  rw [hE] at hrt
  -- the short-circuits are not taken
  have c1 : ¬ l.exp ≥ ((1100 + 6 * l.fracDigits.length : Nat) : Int) := by
    intro hc
    push_cast at hc
    have hE1 : (1100 : ℤ) ≤ l.exp - (l.fracDigits.length : Int) + (z : Int) := by omega
    have hval : (((10 ^ 1100 : ℕ) : ℚ)) / ((1 : ℕ) : ℚ) ≤
        ((decFrac (ofDigits 10 R) (l.exp - (l.fracDigits.length : Int) + (z : Int))).1 : ℚ) /
          ((decFrac (ofDigits 10 R) (l.exp - (l.fracDigits.length : Int) + (z : Int))).2 : ℚ) := by
      rw [decFrac_Q]
      push_cast
      rw [div_one]
      have h1 : (1 : ℚ) ≤ (ofDigits 10 R : ℚ) := by exact_mod_cast Nat.one_le_iff_ne_zero.mpr hD
      have h2 : (10 : ℚ) ^ (1100 : ℕ) ≤ (10 : ℚ) ^ (l.exp - (l.fracDigits.length : Int) + (z : Int)) := by
        rw [← zpow_natCast]
        exact zpow_le_zpow_right₀ h10' (by exact_mod_cast hE1)
      calc (10 : ℚ) ^ (1100 : ℕ) = 1 * (10 : ℚ) ^ (1100 : ℕ) := by ring
        _ ≤ (ofDigits 10 R : ℚ) * (10 : ℚ) ^ (l.exp - (l.fracDigits.length : Int) + (z : Int)) :=
          mul_le_mul h1 h2 (by positivity) (by positivity)
    have := roundNE_mono hf (by norm_num) (decFrac_den_pos _ _) hval
    rw [hrange.over, hrt] at this
    omega
  have c2 : ¬ l.exp ≤ -(((1200 + 6 * (lz + R.length + z) : Nat)) : Int) := by
    intro hc
    push_cast at hc
    have hE1 : (R.length : ℤ) + (l.exp - (l.fracDigits.length : Int) + (z : Int)) ≤ -1200 := by omega
    have hval : ((decFrac (ofDigits 10 R) (l.exp - (l.fracDigits.length : Int) + (z : Int))).1 : ℚ) /
          ((decFrac (ofDigits 10 R) (l.exp - (l.fracDigits.length : Int) + (z : Int))).2 : ℚ) ≤
        (((1 : ℕ) : ℚ)) / ((10 ^ 1200 : ℕ) : ℚ) := by
      rw [decFrac_Q]
      push_cast
      have h1 : (ofDigits 10 R : ℚ) ≤ (10 : ℚ) ^ (R.length : ℤ) := by
        rw [zpow_natCast]
        exact_mod_cast Nat.le_of_lt (ofDigits_lt_pow R hRd)
      calc (ofDigits 10 R : ℚ) * (10 : ℚ) ^ (l.exp - (l.fracDigits.length : Int) + (z : Int))
          ≤ (10 : ℚ) ^ (R.length : ℤ) * (10 : ℚ) ^ (l.exp - (l.fracDigits.length : Int) + (z : Int)) :=
            mul_le_mul_of_nonneg_right h1 (by positivity)
        _ = (10 : ℚ) ^ ((R.length : ℤ) + (l.exp - (l.fracDigits.length : Int) + (z : Int))) :=
            (zpow_add₀ h10 _ _).symm
        _ ≤ (10 : ℚ) ^ (-1200 : ℤ) := zpow_le_zpow_right₀ h10' hE1
        _ = 1 / (10 : ℚ) ^ (1200 : ℕ) := by rw [zpow_neg, ← zpow_natCast]; norm_num
    have := roundNE_mono hf (decFrac_den_pos _ _) (by norm_num) hval
    rw [hrange.under, hrt] at this
    omega
  unfold litBits
  simp only [hm0, if_false, hlen]
  simp only [c1, c2, if_false]
  congr 1
  rw [← hrt, hm]
  by_cases hp : l.exp ≥ 0
  · simp only [hp, if_true]
    apply roundNE_congr hf (Nat.pow_pos (by omega)) (decFrac_den_pos _ _)
    rw [decFrac_Q]
    obtain ⟨a, ha⟩ : ∃ a : Nat, l.exp = (a : Int) := ⟨l.exp.toNat, by omega⟩
    rw [ha]
    simp only [Int.toNat_natCast]
    push_cast
    rw [zpow_add₀ h10, zpow_sub₀ h10, zpow_natCast, zpow_natCast, zpow_natCast]
    field_simp
  · simp only [hp, if_false]
    apply roundNE_congr hf (Nat.mul_pos (Nat.pow_pos (by omega)) (Nat.pow_pos (by omega))) (decFrac_den_pos _ _)
    rw [decFrac_Q]
    obtain ⟨a, ha⟩ : ∃ a : Nat, l.exp = -(a : Int) := ⟨(-l.exp).toNat, by omega⟩
    rw [ha]
    simp only [neg_neg, Int.toNat_natCast]
    push_cast
    rw [zpow_add₀ h10, zpow_sub₀ h10, zpow_neg, zpow_natCast, zpow_natCast, zpow_natCast]
    field_simp

end LexVerif.Proof.RoundTrip
