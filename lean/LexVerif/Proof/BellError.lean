import LexVerif.Proof.BellRound
import LexVerif.Proof.BellTables
import Mathlib.Tactic.Ring
import Mathlib.Tactic.Linarith
import Mathlib.Tactic.Positivity
import Mathlib.Tactic.FieldSimp
import Mathlib.Algebra.Order.Field.Rat
import Mathlib.Algebra.Order.Field.Power
/-!
# Proof.BellError — the error accounting of `bellerophon`

Rational-arithmetic core of `bellerophon_error_bound`: one or two extended-precision multiplications
(`mul` = exact product rounded half-up, `Proof.BellMul`) by an exact small power and a **truncated** large
power `b ≤ B < b + 1` move the computed significand at most one unit above and less than two units below the
true scaled value.
-/
namespace LexVerif.Proof.Bell

/-- `c = (P + 2^63) / 2^64` is `P/2^64` rounded half-up -/
theorem rhu_bounds (P c : Nat) (h : c = (P + 2 ^ 63) / 2 ^ 64) :
    (c : ℚ) - 1 / 2 ≤ (P : ℚ) / 2 ^ 64 ∧ (P : ℚ) / 2 ^ 64 < (c : ℚ) + 1 / 2 := by
  have h1 : 2 ^ 64 * c ≤ P + 2 ^ 63 := by rw [h]; exact Nat.mul_div_le _ _
  have h2 : P + 2 ^ 63 < 2 ^ 64 * (c + 1) := by
    rw [h]; exact Nat.lt_mul_div_succ _ (by decide)
  have h1q : ((2 : ℚ) ^ 64) * c ≤ P + 2 ^ 63 := by
    have := (Nat.cast_le (α := ℚ)).mpr h1
    push_cast at this; exact this
  have h2q : (P : ℚ) + 2 ^ 63 < 2 ^ 64 * ((c : ℚ) + 1) := by
    have := (Nat.cast_lt (α := ℚ)).mpr h2
    push_cast at this; exact this
  have hpos : (0 : ℚ) < 2 ^ 64 := by positivity
  have e63 : (2 : ℚ) ^ 63 = 2 ^ 64 / 2 := by norm_num
  rw [e63] at h1q h2q
  generalize (2 : ℚ) ^ 64 = t at *
  constructor
  · rw [le_div_iff₀ hpos]; linarith
  · rw [div_lt_iff₀ hpos]; linarith

/-- **one multiplication by a truncated power** (the significand `a` itself exact):
`Xc = a·B/2^64`, `b ≤ B < b + 1`, `c = rhu(a·b/2^64)`: `c − 1/2 ≤ … `, i.e. `c − Xc ≤ 1/2`, `Xc − c < 3/2`. -/
theorem mul_error_exact (a b c : Nat) (B : ℚ) (ha : a < 2 ^ 64) (hb1 : (b : ℚ) ≤ B) (hb2 : B < b + 1)
    (hc : c = (a * b + 2 ^ 63) / 2 ^ 64) :
    (c : ℚ) - (a : ℚ) * B / 2 ^ 64 ≤ 1 / 2 ∧ (a : ℚ) * B / 2 ^ 64 - c < 3 / 2 := by
  obtain ⟨r1, r2⟩ := rhu_bounds (a * b) c hc
  push_cast at r1 r2
  have haq : (a : ℚ) < 2 ^ 64 := by
    have := (Nat.cast_lt (α := ℚ)).mpr ha; push_cast at this; exact this
  have ha0 : (0 : ℚ) ≤ a := by positivity
  have hpos : (0 : ℚ) < 2 ^ 64 := by positivity
  have e1 : (a : ℚ) * b / 2 ^ 64 ≤ a * B / 2 ^ 64 := by
    apply div_le_div_of_nonneg_right _ (le_of_lt hpos); nlinarith
  have e2 : (a : ℚ) * B / 2 ^ 64 < a * b / 2 ^ 64 + 1 := by
    rw [div_lt_iff₀ hpos]
    have : (a : ℚ) * b / 2 ^ 64 * 2 ^ 64 = a * b := by field_simp
    nlinarith
  constructor <;> linarith

/-- **two multiplications**: `a = rhu(P1/2^64)` carries half a unit itself. -/
theorem mul_error_rounded (P1 a b c : Nat) (B : ℚ) (hP : P1 < 2 ^ 128) (hb : b < 2 ^ 64) (hbpos : 0 < b)
    (ha : a = (P1 + 2 ^ 63) / 2 ^ 64) (hb1 : (b : ℚ) ≤ B) (hb2 : B < b + 1)
    (hc : c = (a * b + 2 ^ 63) / 2 ^ 64) :
    (c : ℚ) - (P1 : ℚ) / 2 ^ 64 * B / 2 ^ 64 < 1 ∧ (P1 : ℚ) / 2 ^ 64 * B / 2 ^ 64 - c < 2 := by
  obtain ⟨r1, r2⟩ := rhu_bounds (a * b) c hc
  obtain ⟨q1, q2⟩ := rhu_bounds P1 a ha
  push_cast at r1 r2
  have hPq : (P1 : ℚ) < 2 ^ 128 := by
    have := (Nat.cast_lt (α := ℚ)).mpr hP; push_cast at this; exact this
  have hbq : (b : ℚ) < 2 ^ 64 := by
    have := (Nat.cast_lt (α := ℚ)).mpr hb; push_cast at this; exact this
  have hb0 : (0 : ℚ) < b := by exact_mod_cast hbpos
  have hP0 : (0 : ℚ) ≤ P1 := by positivity
  have hpos : (0 : ℚ) < 2 ^ 64 := by positivity
  have hA : (P1 : ℚ) / 2 ^ 64 < 2 ^ 64 := by
    rw [div_lt_iff₀ hpos]; calc (P1 : ℚ) < 2 ^ 128 := hPq
      _ = 2 ^ 64 * 2 ^ 64 := by norm_num
  have hA0 : (0 : ℚ) ≤ (P1 : ℚ) / 2 ^ 64 := by positivity
  generalize (P1 : ℚ) / 2 ^ 64 = A at *
  have hB0 : (0 : ℚ) ≤ B := le_trans (le_of_lt hb0) hb1
  -- a·b − A·B = (a − A)·b − A·(B − b)
  have k1 : ((a : ℚ) - A) * b ≤ b / 2 := by nlinarith
  have k2 : (0 : ℚ) ≤ A * (B - b) := mul_nonneg hA0 (by linarith)
  have k3 : (A - (a : ℚ)) * b < b / 2 := by nlinarith
  have k4 : A * (B - b) ≤ A := by nlinarith
  have key1 : (a : ℚ) * b - A * B ≤ b / 2 := by nlinarith
  have key2 : A * B - (a : ℚ) * b < b / 2 + A := by nlinarith
  constructor
  · have : (a : ℚ) * b / 2 ^ 64 - A * B / 2 ^ 64 ≤ 1 / 2 := by
      rw [← sub_div, div_le_iff₀ hpos]; nlinarith
    linarith
  · have : A * B / 2 ^ 64 - (a : ℚ) * b / 2 ^ 64 < 3 / 2 := by
      rw [← sub_div, div_lt_iff₀ hpos]; nlinarith
    linarith

end LexVerif.Proof.Bell
