import LexVerif.Proof.BellRound
import LexVerif.Proof.BellTables
import Mathlib.Tactic.Ring
import Mathlib.Tactic.Linarith
import Mathlib.Tactic.Positivity
import Mathlib.Tactic.FieldSimp
import Mathlib.Algebra.Order.Field.Rat
import Mathlib.Algebra.Order.Field.Power
/-!
# Proof.BellError — the error accounting of `bellerophon`

Rational-arithmetic core of `bellerophon_error_bound`: one or two extended-precision multiplications
(`mul` = exact product rounded half-up, `Proof.BellMul`) by an exact small power and a **truncated** large
power `b ≤ B < b + 1` move the computed significand at most one unit above and less than two units below the
true scaled value.
-/
namespace LexVerif.Proof.Bell

/-- `c = (P + 2^63) / 2^64` is `P/2^64` rounded half-up -/
theorem rhu_bounds (P c : Nat) (h : c = (P + 2 ^ 63) / 2 ^ 64) :
    (c : ℚ) - 1 / 2 ≤ (P : ℚ) / 2 ^ 64 ∧ (P : ℚ) / 2 ^ 64 < (c : ℚ) + 1 / 2 := by
  have h1 : 2 ^ 64 * c ≤ P + 2 ^ 63 := by rw [h]; exact Nat.mul_div_le _ _
  have h2 : P + 2 ^ 63 < 2 ^ 64 * (c + 1) := by
    rw [h]; exact Nat.lt_mul_div_succ _ (by decide)
  have h1q : ((2 : ℚ) ^ 64) * c ≤ P + 2 ^ 63 := by
    have := (Nat.cast_le (α := ℚ)).mpr h1
    push_cast at this; exact this
  have h2q : (P : ℚ) + 2 ^ 63 < 2 ^ 64 * ((c : ℚ) + 1) := by
    have := (Nat.cast_lt (α := ℚ)).mpr h2
    push_cast at this; exact this
  have hpos : (0 : ℚ) < 2 ^ 64 := by positivity
  have e63 : (2 : ℚ) ^ 63 = 2 ^ 64 / 2 := by norm_num
  rw [e63] at h1q h2q
  generalize (2 : ℚ) ^ 64 = t at *
  constructor
  · rw [le_div_iff₀ hpos]; linarith
  · rw [div_lt_iff₀ hpos]; linarith

/-- **one multiplication by a truncated power** (the significand `a` itself exact):
`Xc = a·B/2^64`, `b ≤ B < b + 1`, `c = rhu(a·b/2^64)`: `c − 1/2 ≤ … `, i.e. `c − Xc ≤ 1/2`, `Xc − c < 3/2`. -/
theorem mul_error_exact (a b c : Nat) (B : ℚ) (ha : a < 2 ^ 64) (hb1 : (b : ℚ) ≤ B) (hb2 : B < b + 1)
    (hc : c = (a * b + 2 ^ 63) / 2 ^ 64) :
    (c : ℚ) - (a : ℚ) * B / 2 ^ 64 ≤ 1 / 2 ∧ (a : ℚ) * B / 2 ^ 64 - c < 3 / 2 := by
  obtain ⟨r1, r2⟩ := rhu_bounds (a * b) c hc
  push_cast at r1 r2
  have haq : (a : ℚ) < 2 ^ 64 := by
    have := (Nat.cast_lt (α := ℚ)).mpr ha; push_cast at this; exact this
  have ha0 : (0 : ℚ) ≤ a := by positivity
  have hpos : (0 : ℚ) < 2 ^ 64 := by positivity
  have e1 : (a : ℚ) * b / 2 ^ 64 ≤ a * B / 2 ^ 64 := by
    apply div_le_div_of_nonneg_right _ (le_of_lt hpos); nlinarith
  have e2 : (a : ℚ) * B / 2 ^ 64 < a * b / 2 ^ 64 + 1 := by
    rw [div_lt_iff₀ hpos]
    have : (a : ℚ) * b / 2 ^ 64 * 2 ^ 64 = a * b := by field_simp
    nlinarith
  constructor <;> linarith

/-- **two multiplications**: `a = rhu(P1/2^64)` carries half a unit itself. -/
theorem mul_error_rounded (P1 a b c : Nat) (B : ℚ) (hP : P1 < 2 ^ 128) (hb : b < 2 ^ 64) (hbpos : 0 < b)
    (ha : a = (P1 + 2 ^ 63) / 2 ^ 64) (hb1 : (b : ℚ) ≤ B) (hb2 : B < b + 1)
    (hc : c = (a * b + 2 ^ 63) / 2 ^ 64) :
    (c : ℚ) - (P1 : ℚ) / 2 ^ 64 * B / 2 ^ 64 < 1 ∧ (P1 : ℚ) / 2 ^ 64 * B / 2 ^ 64 - c < 2 := by
  obtain ⟨r1, r2⟩ := rhu_bounds (a * b) c hc
  obtain ⟨q1, q2⟩ := rhu_bounds P1 a ha
  push_cast at r1 r2
  have hPq : (P1 : ℚ) < 2 ^ 128 := by
    have := (Nat.cast_lt (α := ℚ)).mpr hP; push_cast at this; exact this
  have hbq : (b : ℚ) < 2 ^ 64 := by
    have := (Nat.cast_lt (α := ℚ)).mpr hb; push_cast at this; exact this
  have hb0 : (0 : ℚ) < b := by exact_mod_cast hbpos
  have hP0 : (0 : ℚ) ≤ P1 := by positivity
  have hpos : (0 : ℚ) < 2 ^ 64 := by positivity
  have hA : (P1 : ℚ) / 2 ^ 64 < 2 ^ 64 := by
    rw [div_lt_iff₀ hpos]; calc (P1 : ℚ) < 2 ^ 128 := hPq
      _ = 2 ^ 64 * 2 ^ 64 := by norm_num
  have hA0 : (0 : ℚ) ≤ (P1 : ℚ) / 2 ^ 64 := by positivity
  generalize (P1 : ℚ) / 2 ^ 64 = A at *
  have hB0 : (0 : ℚ) ≤ B := le_trans (le_of_lt hb0) hb1
  -- a·b − A·B = (a − A)·b − A·(B − b)
  have k1 : ((a : ℚ) - A) * b ≤ b / 2 := by nlinarith
  have k2 : (0 : ℚ) ≤ A * (B - b) := mul_nonneg hA0 (by linarith)
  have k3 : (A - (a : ℚ)) * b < b / 2 := by nlinarith
  have k4 : A * (B - b) ≤ A := by nlinarith
  have key1 : (a : ℚ) * b - A * B ≤ b / 2 := by nlinarith
  have key2 : A * B - (a : ℚ) * b < b / 2 + A := by nlinarith
  constructor
  · have : (a : ℚ) * b / 2 ^ 64 - A * B / 2 ^ 64 ≤ 1 / 2 := by
      rw [← sub_div, div_le_iff₀ hpos]; nlinarith
    linarith
  · have : A * B / 2 ^ 64 - (a : ℚ) * b / 2 ^ 64 < 3 / 2 := by
      rw [← sub_div, div_lt_iff₀ hpos]; nlinarith
    linarith

open LexVerif.Spec LexVerif.Model LexVerif.Model.Bellerophon
open LexVerif.Gen.Bellerophon (Powers)

/-- the facts `bellCheck` establishes -/
structure BellFacts (r : Nat) (P : Powers) : Prop where
  step_pos : 0 < P.step
  step_le : P.step ≤ 64
  bias_nn : 0 ≤ P.bias
  bias_le : P.bias ≤ 2000
  r2 : 2 ≤ r
  small : ∀ i, i < P.step.toNat → smallOk r P i = true
  large : ∀ j, j < P.large.size → largeOk r P j = true
  under : 2 ^ 1140 ≤ r ^ (P.bias.toNat + 1)
  over : 2 ^ 1024 ≤ r ^ (P.large.size * P.step.toNat - P.bias.toNat)
  bsz : P.bias.toNat ≤ P.large.size * P.step.toNat

theorem bellFacts_of {r : Nat} {P : Powers} (h : bellCheck r P = true) : BellFacts r P := by
  unfold bellCheck at h
  simp only [Bool.and_eq_true, decide_eq_true_eq, List.all_eq_true, List.mem_range] at h
  obtain ⟨⟨⟨⟨⟨⟨⟨⟨⟨h1, h2⟩, h3⟩, h4⟩, h5⟩, h6⟩, h7⟩, h8⟩, h9⟩, h10⟩ := h
  exact ⟨h1, h4, h2, h3, h5, h6, h7, h8, h9, h10⟩

/-- unpacked `smallOk` -/
theorem small_facts {r : Nat} {P : Powers} {i : Nat} (h : smallOk r P i = true) :
    getSmallInt P i = some (r ^ i) ∧ r ^ i < 2 ^ 64 ∧
    ∃ sm ns, getSmall P i = some ⟨sm, -((ns : Nat) : Int)⟩ ∧ ns ≤ 64 ∧ sm = r ^ i * 2 ^ ns ∧
      2 ^ 63 ≤ sm ∧ sm < 2 ^ 64 := by
  unfold smallOk at h
  simp only [Bool.and_eq_true, beq_iff_eq, decide_eq_true_eq] at h
  obtain ⟨⟨h1, h2⟩, h3⟩ := h
  refine ⟨h1, h2, ?_⟩
  cases hg : getSmall P i with
  | none => rw [hg] at h3; exact absurd h3 (by simp)
  | some fp =>
    obtain ⟨sm, es⟩ := fp
    rw [hg] at h3
    simp only [Bool.and_eq_true, beq_iff_eq, decide_eq_true_eq] at h3
    obtain ⟨⟨⟨⟨a1, a2⟩, a3⟩, a4⟩, a5⟩ := h3
    refine ⟨sm, (-es).toNat, ?_, by omega, a3, a4, a5⟩
    have : -(((-es).toNat : Nat) : Int) = es := by omega
    rw [this]

/-- unpacked `largeOk` -/
theorem large_facts {r : Nat} {P : Powers} {j : Nat} (h : largeOk r P j = true) :
    ∃ b eb, getLarge P j = some ⟨b, eb⟩ ∧ 2 ^ 63 ≤ b ∧ b < 2 ^ 64 ∧ -2000 ≤ eb ∧ eb ≤ 2000 ∧
      b * 2 ^ eb.toNat * r ^ (-((j : Int) * P.step - P.bias)).toNat ≤
        r ^ ((j : Int) * P.step - P.bias).toNat * 2 ^ (-eb).toNat ∧
      r ^ ((j : Int) * P.step - P.bias).toNat * 2 ^ (-eb).toNat <
        (b + 1) * 2 ^ eb.toNat * r ^ (-((j : Int) * P.step - P.bias)).toNat := by
  unfold largeOk at h
  cases hg : getLarge P j with
  | none => rw [hg] at h; exact absurd h (by simp)
  | some fp =>
    obtain ⟨b, eb⟩ := fp
    rw [hg] at h
    simp only [Bool.and_eq_true, decide_eq_true_eq] at h
    obtain ⟨⟨⟨⟨⟨a1, a2⟩, a3⟩, a4⟩, a5⟩, a6⟩ := h
    exact ⟨b, eb, rfl, a1, a2, a3, a4, a5, a6⟩

/-! ## real-valued brackets -/

theorem zpow_frac (x : ℚ) (hx : x ≠ 0) (k : Int) : x ^ k = x ^ k.toNat / x ^ (-k).toNat := by
  rcases Int.le_total 0 k with h | h
  · obtain ⟨n, rfl⟩ := Int.eq_ofNat_of_zero_le h
    have : (-(n : Int)).toNat = 0 := by omega
    simp [this]
  · obtain ⟨n, hn⟩ := Int.eq_ofNat_of_zero_le (show 0 ≤ -k by omega)
    have hk : k = -(n : Int) := by omega
    subst hk
    have h1 : (-(n : Int)).toNat = 0 := by omega
    have h2 : (- -(n : Int)).toNat = n := by omega
    rw [h1, h2, zpow_neg, zpow_natCast, pow_zero, one_div]

theorem two_zpow_add (a b : Int) : (2 : ℚ) ^ a * 2 ^ b = 2 ^ (a + b) := (zpow_add₀ (by norm_num) a b).symm

/-- the large power as a real bracket: `B = r^K / 2^eb ∈ [b, b + 1)` -/
theorem large_bracket {r b : Nat} (hr : 2 ≤ r) (K eb : Int)
    (h1 : b * 2 ^ eb.toNat * r ^ (-K).toNat ≤ r ^ K.toNat * 2 ^ (-eb).toNat)
    (h2 : r ^ K.toNat * 2 ^ (-eb).toNat < (b + 1) * 2 ^ eb.toNat * r ^ (-K).toNat) :
    (b : ℚ) ≤ (r : ℚ) ^ K / 2 ^ eb ∧ (r : ℚ) ^ K / 2 ^ eb < b + 1 := by
  have hr0 : (r : ℚ) ≠ 0 := by
    have : (0 : ℚ) < r := by exact_mod_cast (show 0 < r by omega)
    exact ne_of_gt this
  rw [zpow_frac (r : ℚ) hr0 K, zpow_frac (2 : ℚ) (by norm_num) eb]
  have p1 : (0 : ℚ) < (r : ℚ) ^ (-K).toNat := by positivity
  have p2 : (0 : ℚ) < (2 : ℚ) ^ eb.toNat := by positivity
  have p3 : (0 : ℚ) < (2 : ℚ) ^ (-eb).toNat := by positivity
  have h1q := (Nat.cast_le (α := ℚ)).mpr h1
  have h2q := (Nat.cast_lt (α := ℚ)).mpr h2
  push_cast at h1q h2q
  have e : (r : ℚ) ^ K.toNat / (r : ℚ) ^ (-K).toNat / ((2 : ℚ) ^ eb.toNat / 2 ^ (-eb).toNat) =
      ((r : ℚ) ^ K.toNat * 2 ^ (-eb).toNat) / ((r : ℚ) ^ (-K).toNat * 2 ^ eb.toNat) := by
    field_simp
  rw [e]
  constructor
  · rw [le_div_iff₀ (by positivity)]; nlinarith
  · rw [div_lt_iff₀ (by positivity)]; nlinarith

/-! ## the scaling part of `bellPrepare` -/

theorem clz_le_of_ge {m : Nat} {j : Nat} (hm : 2 ^ (63 - j) ≤ m) (h64 : m < 2 ^ 64) (hj : j ≤ 63) :
    clz64 m ≤ j := by
  unfold clz64
  rw [Nat.mod_eq_of_lt h64]
  have h0 : m ≠ 0 := by have := Nat.two_pow_pos (63 - j); omega
  have hup := LexVerif.Proof.RoundNE.bitlen_upper m
  have : 64 - j ≤ bitlen m := by
    apply Classical.byContradiction; intro hc
    have : 2 ^ bitlen m ≤ 2 ^ (63 - j) := Nat.pow_le_pow_right (by decide) (by omega)
    omega
  omega

/-- `scaleLarge`, computed: `c2 = rhu(a·b/2^64)`, normalised by `sh ≤ 2` bits, errors `4·2^sh` or `9·2^sh` -/
theorem scaleLarge_eq (F : FTy) (a b e1 : Nat) (ea eb : Int)
    (ha1 : 2 ^ 62 ≤ a) (ha2 : a < 2 ^ 64) (hb1 : 2 ^ 63 ≤ b) (hb2 : b < 2 ^ 64) (he1 : e1 < 2 ^ 25) :
    ∃ (c2 sh : Nat),
      scaleLarge F ⟨a, ea⟩ e1 ⟨b, eb⟩ =
        .mid ⟨c2 * 2 ^ sh, ea + eb + 64 - sh + F.C.exponentBias⟩ ((if e1 = 0 then 4 else e1 + 5) * 2 ^ sh) ∧
      c2 = (a * b + 2 ^ 63) / 2 ^ 64 ∧
      2 ^ 63 ≤ c2 * 2 ^ sh ∧ c2 * 2 ^ sh < 2 ^ 64 ∧ sh ≤ 2 := by
  have hc2_lo : 2 ^ 61 ≤ (a * b + 2 ^ 63) / 2 ^ 64 := by
    rw [Nat.le_div_iff_mul_le (by norm_num)]
    have h1 : 2 ^ 62 * 2 ^ 63 ≤ a * b := Nat.mul_le_mul ha1 hb1
    have : (2 : Nat) ^ 61 * 2 ^ 64 = 2 ^ 62 * 2 ^ 63 := by norm_num
    omega
  have hc2_hi : (a * b + 2 ^ 63) / 2 ^ 64 < 2 ^ 64 := by
    rw [Nat.div_lt_iff_lt_mul (by norm_num)]
    have h1 : a * b ≤ (2 ^ 64 - 1) * (2 ^ 64 - 1) := Nat.mul_le_mul (by omega) (by omega)
    have : ((2 : Nat) ^ 64 - 1) * (2 ^ 64 - 1) + 2 ^ 63 < 2 ^ 64 * 2 ^ 64 := by norm_num
    omega
  generalize hc2 : (a * b + 2 ^ 63) / 2 ^ 64 = c2 at *
  have hc20 : c2 ≠ 0 := by have := Nat.two_pow_pos 61; omega
  obtain ⟨_, n1, n2, _⟩ := LexVerif.Proof.BinaryCorrect.clz_norm hc20 hc2_hi
  have hsh : clz64 c2 ≤ 2 := clz_le_of_ge (j := 2) hc2_lo hc2_hi (by norm_num)
  have hn := normalize_eq c2 (ea + eb + 64) hc20 hc2_hi
  refine ⟨c2, clz64 c2, ?_, rfl, n1, n2, hsh⟩
  unfold scaleLarge
  rw [mul_mant a b ha2 hb2, hc2, hn]
  generalize clz64 c2 = sh at *
  have hpw : 2 ^ sh ≤ 2 ^ 2 := Nat.pow_le_pow_right (by norm_num) hsh
  have hmod : sh % 32 = sh := Nat.mod_eq_of_lt (by omega)
  have herr : wrap32 (wrap32 ((if e1 > 0 then wrap32 (e1 + 1) else e1) + litErrorHalfscale) * 2 ^ (sh % 32)) =
      (if e1 = 0 then 4 else e1 + 5) * 2 ^ sh := by
    rw [hmod]
    have h25 : (2 : Nat) ^ 25 = 33554432 := by norm_num
    have h32 : (2 : Nat) ^ 32 = 4294967296 := by norm_num
    rw [h25] at he1
    unfold litErrorHalfscale litErrorScale wrap32
    rw [h32]
    by_cases h0 : e1 = 0
    · subst h0; simp; omega
    · have hpos : e1 > 0 := by omega
      simp only [hpos, if_true, h0, if_false]
      have e1' : (e1 + 1) % 4294967296 = e1 + 1 := Nat.mod_eq_of_lt (by omega)
      have e2' : (e1 + 1 + 8 / 2) % 4294967296 = e1 + 5 := by
        rw [Nat.mod_eq_of_lt (by omega)]
      rw [e1', e2']
      apply Nat.mod_eq_of_lt
      have : (e1 + 5) * 2 ^ sh ≤ (e1 + 5) * 2 ^ 2 := Nat.mul_le_mul_left _ hpw
      omega
  simp only [herr]

/-- `scaleSmall` for an untruncated mantissa, computed, with the exact value it stands for:
`(w·si)·2^(−ea) = a` (exact case) or `= P1/2^64` with `a = rhu(P1/2^64)` -/
theorem scaleSmall_eq (w si sm ns errors0 : Nat) (hw0 : w ≠ 0) (hw : w < 2 ^ 64) (hsi : 0 < si)
    (hsm : sm = si * 2 ^ ns) (hsm1 : 2 ^ 63 ≤ sm) (hsm2 : sm < 2 ^ 64) (hns : ns ≤ 64)
    (he0 : errors0 < 2 ^ 24) :
    ∃ (a e1 : Nat) (ea : Int),
      scaleSmall w si ⟨sm, -(ns : Int)⟩ errors0 = (⟨a, ea⟩, e1) ∧ 2 ^ 62 ≤ a ∧ a < 2 ^ 64 ∧ -200 ≤ ea ∧ ea ≤ 64 ∧
      ((e1 = errors0 ∧ ((w * si : Nat) : ℚ) * 2 ^ (-ea) = a) ∨
       (e1 = errors0 + 4 ∧ ∃ P1 : Nat, P1 < 2 ^ 128 ∧ a = (P1 + 2 ^ 63) / 2 ^ 64 ∧
          ((w * si : Nat) : ℚ) * 2 ^ (-ea) = (P1 : ℚ) / 2 ^ 64)) := by
  unfold scaleSmall
  by_cases hov : w * si ≥ 2 ^ 64
  · rw [if_pos hov]
    obtain ⟨hc, hm1, hm2, hshl⟩ := LexVerif.Proof.BinaryCorrect.clz_norm hw0 hw
    rw [normalize_eq w 0 hw0 hw]
    simp only [Int.zero_sub]
    rw [mul_mant _ _ hm2 hsm2]
    generalize hcw : clz64 w = cw at *
    generalize hP1 : w * 2 ^ cw * sm = P1 at *
    have hP1lo : 2 ^ 126 ≤ P1 := by
      rw [← hP1]; calc 2 ^ 126 = 2 ^ 63 * 2 ^ 63 := by norm_num
        _ ≤ w * 2 ^ cw * sm := Nat.mul_le_mul hm1 hsm1
    have h127 : P1 ≤ 2 ^ 128 - 2 ^ 65 + 1 := by
      rw [← hP1]
      have h1 : w * 2 ^ cw * sm ≤ (2 ^ 64 - 1) * (2 ^ 64 - 1) := Nat.mul_le_mul (by omega) (by omega)
      have : ((2 : Nat) ^ 64 - 1) * (2 ^ 64 - 1) = 2 ^ 128 - 2 ^ 65 + 1 := by norm_num
      omega
    have hP1hi : P1 < 2 ^ 128 := by
      have : (2 : Nat) ^ 128 - 2 ^ 65 + 1 < 2 ^ 128 := by norm_num
      omega
    have ha_lo : 2 ^ 62 ≤ (P1 + 2 ^ 63) / 2 ^ 64 := by
      rw [Nat.le_div_iff_mul_le (by norm_num)]
      have : (2 : Nat) ^ 62 * 2 ^ 64 = 2 ^ 126 := by norm_num
      omega
    have ha_hi : (P1 + 2 ^ 63) / 2 ^ 64 < 2 ^ 64 := by
      rw [Nat.div_lt_iff_lt_mul (by norm_num)]
      have : (2 : Nat) ^ 128 - 2 ^ 65 + 1 + 2 ^ 63 < 2 ^ 64 * 2 ^ 64 := by norm_num
      omega
    have hwr : wrap32 (errors0 + litErrorHalfscale) = errors0 + 4 := by
      unfold wrap32 litErrorHalfscale litErrorScale
      have h24 : (2 : Nat) ^ 24 = 16777216 := by norm_num
      have h32 : (2 : Nat) ^ 32 = 4294967296 := by norm_num
      rw [h24] at he0; rw [h32]
      exact Nat.mod_eq_of_lt (by omega)
    rw [hwr]
    refine ⟨_, _, _, rfl, ha_lo, ha_hi, by omega, by omega, Or.inr ⟨rfl, P1, hP1hi, rfl, ?_⟩⟩
    rw [← hP1, hsm]
    push_cast
    have : (2 : ℚ) ^ (-(-(cw : Int) + -(ns : Int) + 64)) = 2 ^ cw * 2 ^ ns / 2 ^ 64 := by
      rw [show -(-(cw : Int) + -(ns : Int) + 64) = (cw : Int) + ns - 64 by ring, zpow_sub₀ (by norm_num),
        zpow_add₀ (by norm_num)]
      norm_cast
    rw [this]; ring
  · rw [if_neg hov]
    have hp64 : w * si < 2 ^ 64 := by omega
    have hp0 : w * si ≠ 0 := Nat.ne_of_gt (Nat.mul_pos (Nat.pos_of_ne_zero hw0) hsi)
    obtain ⟨hc, hm1, hm2, hshl⟩ := LexVerif.Proof.BinaryCorrect.clz_norm hp0 hp64
    rw [normalize_eq (w * si) 0 hp0 hp64]
    simp only [Int.zero_sub]
    have h62 : 2 ^ 62 ≤ w * si * 2 ^ clz64 (w * si) := by
      have : (2:Nat) ^ 62 ≤ 2 ^ 63 := by norm_num
      omega
    refine ⟨_, _, _, rfl, h62, hm2, by omega, by omega, Or.inl ⟨rfl, ?_⟩⟩
    rw [neg_neg, zpow_natCast]; push_cast; ring

/-- **`bellerophon_error_bound`, scaling part**: after both multiplications and the normalisation by
`sh ≤ 2` bits, the significand `mant` satisfies `mant − 2^sh < y < mant + 2·2^sh` for the scaled value
`y = (w·si)·B·2^(eb + EXPONENT_BIAS − exp)` of the (truncated) mantissa `w`, where `B ∈ [b, b+1)` is the real
number the truncated large power stands for; the booked `errors` are `E·2^sh` with `E = 4` or `9` for
`errors0 = 0` and `E = errors0 + 5` or `errors0 + 9` otherwise. -/
theorem scale_bound (F : FTy) (w si sm ns b errors0 : Nat) (eb : Int) (B : ℚ)
    (hw0 : w ≠ 0) (hw : w < 2 ^ 64) (hsi : 0 < si) (hsm : sm = si * 2 ^ ns) (hsm1 : 2 ^ 63 ≤ sm)
    (hsm2 : sm < 2 ^ 64) (hns : ns ≤ 64) (hb1 : 2 ^ 63 ≤ b) (hb2 : b < 2 ^ 64)
    (hB1 : (b : ℚ) ≤ B) (hB2 : B < b + 1) (he0 : errors0 < 2 ^ 24) :
    ∃ (mant sh E : Nat) (pw : Int),
      scaleLarge F (scaleSmall w si ⟨sm, -(ns : Int)⟩ errors0).1 (scaleSmall w si ⟨sm, -(ns : Int)⟩ errors0).2
        ⟨b, eb⟩ = .mid ⟨mant, pw⟩ (E * 2 ^ sh) ∧
      2 ^ 63 ≤ mant ∧ mant < 2 ^ 64 ∧ sh ≤ 2 ∧
      ((errors0 = 0 ∧ (E = 4 ∨ E = 9)) ∨ (0 < errors0 ∧ (E = errors0 + 5 ∨ E = errors0 + 9))) ∧
      -300 ≤ pw - eb - F.C.exponentBias ∧ pw - eb - F.C.exponentBias ≤ 200 ∧
      (mant : ℚ) - 2 ^ sh < ((w * si : Nat) : ℚ) * B * 2 ^ (F.C.exponentBias - pw + eb) ∧
      ((w * si : Nat) : ℚ) * B * 2 ^ (F.C.exponentBias - pw + eb) < mant + 2 * 2 ^ sh := by
  obtain ⟨a, e1, ea, hs, ha1, ha2, hea1, hea2, hcase⟩ :=
    scaleSmall_eq w si sm ns errors0 hw0 hw hsi hsm hsm1 hsm2 hns he0
  have h24 : (2 : Nat) ^ 24 = 16777216 := by norm_num
  have h25 : (2 : Nat) ^ 25 = 33554432 := by norm_num
  have he1 : e1 < 2 ^ 25 := by
    rw [h24] at he0; rw [h25]
    rcases hcase with h | h <;> omega
  obtain ⟨c2, sh, hl, hc2, n1, n2, hsh⟩ := scaleLarge_eq F a b e1 ea eb ha1 ha2 hb1 hb2 he1
  rw [hs]
  simp only []
  refine ⟨_, sh, _, _, hl, n1, n2, hsh, ?_, by omega, by omega, ?_⟩
  · by_cases h0 : errors0 = 0
    · left
      refine ⟨h0, ?_⟩
      rcases hcase with ⟨h, _⟩ | ⟨h, _⟩
      · left; rw [h, h0]; rfl
      · right; rw [h, h0]; rfl
    · right
      refine ⟨by omega, ?_⟩
      rcases hcase with ⟨h, _⟩ | ⟨h, _⟩
      · left; rw [h, if_neg h0]
      · right; rw [h, if_neg (by omega)]
  -- the exponent: EXPONENT_BIAS − pw + eb = −ea − 64 + sh
  have hexp : F.C.exponentBias - (ea + eb + 64 - (sh : Int) + F.C.exponentBias) + eb = -ea + (-64 + (sh : Int)) := by
    ring
  rw [hexp, ← two_zpow_add, ← two_zpow_add]
  have h64 : (2 : ℚ) ^ (-64 : Int) = 1 / 2 ^ 64 := by rw [zpow_neg]; norm_num
  have hshq : (2 : ℚ) ^ (sh : Int) = 2 ^ sh := zpow_natCast 2 sh
  rw [h64, hshq]
  have hsh1 : (1 : ℚ) ≤ 2 ^ sh := one_le_pow₀ (by norm_num)
  have hmant : ((c2 * 2 ^ sh : Nat) : ℚ) = (c2 : ℚ) * 2 ^ sh := by push_cast; ring
  rw [hmant]
  rcases hcase with ⟨h0, hv⟩ | ⟨h4, P1, hP1, haP, hv⟩
  · -- exact small multiplication
    obtain ⟨e1', e2'⟩ := mul_error_exact a b c2 B ha2 hB1 hB2 hc2
    have hy : ((w * si : Nat) : ℚ) * B * (2 ^ (-ea) * (1 / 2 ^ 64 * 2 ^ sh)) = (a : ℚ) * B / 2 ^ 64 * 2 ^ sh := by
      rw [← hv]; ring
    rw [hy]
    constructor <;> nlinarith
  · obtain ⟨e1', e2'⟩ := mul_error_rounded P1 a b c2 B hP1 hb2 (by have := Nat.two_pow_pos 63; omega) haP hB1 hB2 hc2
    have hy : ((w * si : Nat) : ℚ) * B * (2 ^ (-ea) * (1 / 2 ^ 64 * 2 ^ sh)) =
        (P1 : ℚ) / 2 ^ 64 * B / 2 ^ 64 * 2 ^ sh := by
      rw [← hv]; ring
    rw [hy]
    constructor <;> nlinarith

end LexVerif.Proof.Bell
