import LexVerif.Spec.Grammar
/-!
# Proof.GrammarStd — the documented grammar with the STANDARD flags is `Spec.parseStdComplete`

`Spec.Grammar` (declarative: splitter + flag constraints) and `Spec.StdFloat` (greedy scan with positions) were
written independently; here they are proved equal on every input for every format without syntax flags.
-/
namespace LexVerif.Proof.Grammar
open LexVerif LexVerif.Spec LexVerif.Model

def stdFrac (r : Nat) (o : POpts) (rest1 : List Nat) (pos1 : Nat) : List Nat × List Nat × Nat :=
  match rest1 with
  | c :: cs => if c = o.dp then ((takeDigits r cs).1, (takeDigits r cs).2, pos1 + 1 + (takeDigits r cs).1.length) else ([], rest1, pos1)
  | [] => ([], rest1, pos1)

def stdExpSign (cs : List Nat) (pos2 : Nat) : Bool × List Nat × Nat :=
  match cs with
  | 43 :: t => (false, t, pos2 + 2)
  | 45 :: t => (true, t, pos2 + 2)
  | _ => (false, cs, pos2 + 1)

def stdTail (er : Nat) (o : POpts) (neg : Bool) (ids : List Nat) (x : List Nat × List Nat × Nat) : FRes :=
  if ids.length + x.1.length = 0 then .err
  else match x.2.1 with
    | c :: cs =>
      if eqUncased c o.exp then
        if (takeDigits er (stdExpSign cs x.2.2).2.1).1.isEmpty then .err
        else .num ⟨neg, ids, x.1, if (stdExpSign cs x.2.2).1 then -(ofDigits er (takeDigits er (stdExpSign cs x.2.2).2.1).1 : Int)
             else (ofDigits er (takeDigits er (stdExpSign cs x.2.2).2.1).1 : Int)⟩
              ((stdExpSign cs x.2.2).2.2 + (takeDigits er (stdExpSign cs x.2.2).2.1).1.length)
      else .num ⟨neg, ids, x.1, 0⟩ x.2.2
    | [] => .num ⟨neg, ids, x.1, 0⟩ x.2.2

theorem parseNumberStd_stages (r er : Nat) (o : POpts) (neg : Bool) (pos : Nat) (s : List Nat) :
    parseNumberStd r er o neg pos s =
      stdTail er o neg (takeDigits r s).1 (stdFrac r o (takeDigits r s).2 (pos + (takeDigits r s).1.length)) := by
  rfl

def okAt (n : Nat) : FRes → Bool
  | .num _ m => m = n | .nan m => m = n | .inf _ m => m = n | .err => false

theorem takeDigits_length (r : Nat) : ∀ s : List Nat,
    (takeDigits r s).1.length + (takeDigits r s).2.length = s.length := by
  intro s
  induction s with
  | nil => simp [takeDigits]
  | cons c cs ih =>
    unfold takeDigits
    split
    · simp only [List.length_cons]; omega
    · simp

theorem frac_std (y : Syn) (o : POpts) (rest1 : List Nat) (pos1 : Nat) :
    stdFrac y.radix o rest1 pos1 =
      ((splitFraction y o rest1).2.1, (splitFraction y o rest1).2.2,
        pos1 + rest1.length - (splitFraction y o rest1).2.2.length) ∧
    (splitFraction y o rest1).2.2.length ≤ rest1.length := by
  cases rest1 with
  | nil => simp [stdFrac, splitFraction]
  | cons c cs =>
    have l := takeDigits_length y.radix cs
    by_cases hc : c = o.dp
    · simp only [stdFrac, splitFraction, hc, if_true, List.length_cons]
      refine ⟨?_, by omega⟩
      congr 2; omega
    · simp [stdFrac, splitFraction, hc]

theorem expSign_std (cs : List Nat) (pos2 : Nat) :
    stdExpSign cs pos2 = ((splitSign cs).1 == some true, (splitSign cs).2,
      pos2 + 1 + cs.length - (splitSign cs).2.length) ∧ (splitSign cs).2.length ≤ cs.length := by
  unfold stdExpSign splitSign
  split
  · simp; omega
  · simp; omega
  · split <;> simp_all

theorem tail_std (y : Syn) (he : y.csExp = false) (o : POpts) (neg : Bool) (ids fds rest2 : List Nat)
    (pos2 total : Nat) (h : pos2 + rest2.length = total) :
    let E := splitExponent y o rest2
    let okT := E.2.2.2.isEmpty && !(ids.isEmpty && fds.isEmpty) && !(E.1 && E.2.2.1.isEmpty)
    (okT = true → stdTail y.expRadix o neg ids (fds, rest2, pos2) =
        .num ⟨neg, ids, fds, if E.2.1 == some true then -(ofDigits y.expRadix E.2.2.1 : Int)
                              else (ofDigits y.expRadix E.2.2.1 : Int)⟩ total) ∧
    (okT = false → okAt total (stdTail y.expRadix o neg ids (fds, rest2, pos2)) = false) := by
  intro E okT
  subst h
  by_cases hz : ids.length + fds.length = 0
  · have h1 : ids = [] := List.length_eq_zero_iff.mp (by omega)
    have h2 : fds = [] := List.length_eq_zero_iff.mp (by omega)
    subst h1 h2
    simp [okT, stdTail, okAt]
  · have hne : (ids.isEmpty && fds.isEmpty) = false := by
      cases ids <;> cases fds <;> simp_all
    have hz' : ¬(ids = [] ∧ fds = []) := by rintro ⟨rfl, rfl⟩; simp at hz
    cases rest2 with
    | nil =>
      simp [okT, E, stdTail, hz', splitExponent, hne, ofDigits]
    | cons c cs =>
      by_cases hx : eqUncased c o.exp = true
      · have hm : matchByte y.csExp o.exp c = true := by simp [matchByte, he, hx]
        obtain ⟨hs1, hs2⟩ := expSign_std cs pos2
        have l3 := takeDigits_length y.expRadix (splitSign cs).2
        simp only [okT, E, stdTail, hz, if_false, hx, if_true, splitExponent, hm, hs1, hne]
        simp only [List.length_cons]
        by_cases hE : (takeDigits y.expRadix (splitSign cs).2).1.isEmpty = true
        · simp [hE, okAt]
        · simp only [hE, Bool.false_eq_true, if_false, Bool.not_false, Bool.and_true, Bool.and_false]
          constructor
          · intro hr
            have hr' : (takeDigits y.expRadix (splitSign cs).2).2 = [] := by simpa using hr
            rw [hr'] at l3
            simp only [List.length_nil, Nat.add_zero] at l3
            congr 1
            omega
          · intro hr
            have hr' : (takeDigits y.expRadix (splitSign cs).2).2 ≠ [] := by simpa using hr
            have := List.length_pos_iff.mpr hr'
            simp only [okAt, decide_eq_false_iff_not]
            omega
      · have hm : matchByte y.csExp o.exp c = false := by simp [matchByte, he, hx]
        simp [okT, E, stdTail, hz', hx, splitExponent, hm, okAt]

theorem splitPrefix_none (y : Syn) (h : y.pre = 0) (s : List Nat) : splitPrefix y s = (false, s) := by
  unfold splitPrefix
  split <;> simp [h]

theorem splitSuffix_none (y : Syn) (h : y.suf = 0) (s : List Nat) : splitSuffix y s = (false, s) := by
  unfold splitSuffix
  split <;> simp [h]

/-- constraints that remain when no syntax flag is set -/
def okStd (p : Parts) : Bool :=
  p.rest.isEmpty && !(p.ints.isEmpty && p.fracs.isEmpty) && !(p.hasExp && p.exps.isEmpty)

/-- the number scan of `StdFloat` against the splitter of `Grammar` (no prefix, no suffix, uncased exponent) -/
theorem number_std (y : Syn) (hp : y.pre = 0) (hs : y.suf = 0) (he : y.csExp = false)
    (o : POpts) (sign : Option Bool) (pos : Nat) (body : List Nat) :
    (okStd (splitNumber y o sign body) = true →
      parseNumberStd y.radix y.expRadix o (sign == some true) pos body
        = .num ((splitNumber y o sign body).lit y) (pos + body.length)) ∧
    (okStd (splitNumber y o sign body) = false →
      okAt (pos + body.length) (parseNumberStd y.radix y.expRadix o (sign == some true) pos body) = false) := by
  rw [parseNumberStd_stages]
  have l1 := takeDigits_length y.radix body
  obtain ⟨hf1, hf2⟩ := frac_std y o (takeDigits y.radix body).2 (pos + (takeDigits y.radix body).1.length)
  rw [hf1]
  have key := tail_std y he o (sign == some true) (takeDigits y.radix body).1
    (splitFraction y o (takeDigits y.radix body).2).2.1 (splitFraction y o (takeDigits y.radix body).2).2.2
    (pos + (takeDigits y.radix body).1.length + (takeDigits y.radix body).2.length
      - (splitFraction y o (takeDigits y.radix body).2).2.2.length) (pos + body.length) (by omega)
  simpa [okStd, splitNumber, splitPrefix_none y hp, splitSuffix_none y hs, Parts.lit] using key

/-- what the documentation demands of the special strings (options.rs: `nan_string` "must start with `N`",
`inf_string` / `infinity_string` with `I`, "`infinity_string` must be at least as long as `inf_string`");
only what the equality below needs -/
structure SpecialsWF (o : POpts) : Prop where
  nan_ne : o.nan ≠ some []
  inf_ne : o.inf ≠ some []
  infinity_ne : o.infinity ≠ some []
  /-- a NaN string and an infinity string never start with the same letter -/
  nan_inf : ∀ a as b bs, o.nan = some (a :: as) → (o.inf = some (b :: bs) ∨ o.infinity = some (b :: bs)) →
    eqUncased a b = false
  /-- `inf` is not longer than `infinity` -/
  inf_le : ∀ a b, o.inf = some a → o.infinity = some b → a.length ≤ b.length

theorem eqSpecial_uncased : ∀ s t : List Nat,
    eqSpecial false s t = (startsWithUncased s t && decide (t.length = s.length)) := by
  intro s
  induction s with
  | nil => intro t; cases t <;> simp [eqSpecial, startsWithUncased]
  | cons a as ih =>
    intro t
    cases t with
    | nil => simp [eqSpecial, startsWithUncased]
    | cons b bs => simp [eqSpecial, startsWithUncased, matchByte, ih, Bool.and_assoc]

theorem startsWith_length : ∀ s t : List Nat, startsWithUncased s t = true → t.length ≤ s.length := by
  intro s
  induction s with
  | nil => intro t h; cases t <;> simp_all [startsWithUncased]
  | cons a as ih =>
    intro t h
    cases t with
    | nil => simp
    | cons b bs =>
      simp only [startsWithUncased, Bool.and_eq_true] at h
      have := ih bs h.2
      simp only [List.length_cons]; omega

theorem startsWith_head (a b : Nat) (as bs : List Nat) (h : startsWithUncased (a :: as) (b :: bs) = true) :
    eqUncased a b = true := by
  simp only [startsWithUncased, Bool.and_eq_true] at h
  exact h.1

theorem eqUncased_trans_false {a b c : Nat} (h1 : eqUncased a b = true) (h2 : eqUncased b c = false) :
    eqUncased a c = false := by
  simp only [eqUncased, decide_eq_true_eq, decide_eq_false_iff_not] at *
  rw [h1]; exact h2

theorem nan_excludes (o : POpts) (wf : SpecialsWF o) (a : Nat) (as tn t : List Nat) (hnan : o.nan = some tn)
    (ht : o.inf = some t ∨ o.infinity = some t) (hN : startsWithUncased (a :: as) tn = true) :
    startsWithUncased (a :: as) t = false := by
  cases tn with
  | nil => exact absurd hnan wf.nan_ne
  | cons n0 ns =>
    cases t with
    | nil => rcases ht with h | h; exact absurd h wf.inf_ne; exact absurd h wf.infinity_ne
    | cons t0 ts =>
      have h1 := startsWith_head _ _ _ _ hN
      have h2 := wf.nan_inf n0 ns t0 ts hnan ht
      cases h : startsWithUncased (a :: as) (t0 :: ts) with
      | false => rfl
      | true =>
        have h3 := startsWith_head _ _ _ _ h
        simp only [eqUncased, decide_eq_true_eq, decide_eq_false_iff_not] at h1 h2 h3
        exact absurd (h1.symm.trans h3) h2

theorem infinity_excludes (o : POpts) (wf : SpecialsWF o) (s tf ti : List Nat) (hinf : o.inf = some tf)
    (hinfy : o.infinity = some ti) (hI : startsWithUncased s ti = true) (hL : ¬ ti.length = s.length) :
    ¬ tf.length = s.length := by
  have := startsWith_length s ti hI
  have := wf.inf_le tf ti hinf hinfy
  omega

theorem special_std (y : Syn) (hn : y.noSpecial = false) (hc : y.csSpecial = false) (o : POpts) (wf : SpecialsWF o)
    (neg : Bool) (pos : Nat) (body : List Nat) (hb : body ≠ []) :
    (if okAt (pos + body.length) (parseSpecial o neg pos body) then parseSpecial o neg pos body else .err) =
      (match specialOf y o body with
        | some true => .nan (pos + body.length)
        | some false => .inf neg (pos + body.length)
        | none => .err) := by
  obtain ⟨a, as, rfl⟩ : ∃ a as, body = a :: as := by
    cases body with
    | nil => exact absurd rfl hb
    | cons a as => exact ⟨a, as, rfl⟩
  unfold parseSpecial specialOf isSpecial
  simp only [hn, hc, eqSpecial_uncased, Bool.not_false, Bool.true_and]
  rcases hnan : o.nan with _ | tn <;> rcases hinf : o.inf with _ | tf <;> rcases hinfy : o.infinity with _ | ti
  · simp [okAt]
  · by_cases h1 : startsWithUncased (a :: as) ti = true <;> by_cases h2 : ti.length = as.length + 1 <;>
      simp [okAt, h1, h2]
  · by_cases h1 : startsWithUncased (a :: as) tf = true <;> by_cases h2 : tf.length = as.length + 1 <;>
      simp [okAt, h1, h2]
  · by_cases h1 : startsWithUncased (a :: as) ti = true
    · by_cases h2 : ti.length = as.length + 1
      · simp [okAt, h1, h2]
      · have : ¬ tf.length = as.length + 1 := infinity_excludes o wf (a :: as) tf ti hinf hinfy h1 h2
        simp [okAt, h1, h2, this]
    · by_cases h3 : startsWithUncased (a :: as) tf = true <;> by_cases h4 : tf.length = as.length + 1 <;>
        simp [okAt, h1, h3, h4]
  · by_cases h1 : startsWithUncased (a :: as) tn = true <;> by_cases h2 : tn.length = as.length + 1 <;>
      simp [okAt, h1, h2]
  · by_cases h1 : startsWithUncased (a :: as) tn = true
    · have e1 := nan_excludes o wf a as tn ti hnan (Or.inr hinfy) h1
      by_cases h2 : tn.length = as.length + 1 <;> simp [okAt, h1, h2, e1]
    · by_cases h3 : startsWithUncased (a :: as) ti = true <;> by_cases h4 : ti.length = as.length + 1 <;>
        simp [okAt, h1, h3, h4]
  · by_cases h1 : startsWithUncased (a :: as) tn = true
    · have e1 := nan_excludes o wf a as tn tf hnan (Or.inl hinf) h1
      by_cases h2 : tn.length = as.length + 1 <;> simp [okAt, h1, h2, e1]
    · by_cases h3 : startsWithUncased (a :: as) tf = true <;> by_cases h4 : tf.length = as.length + 1 <;>
        simp [okAt, h1, h3, h4]
  · by_cases h1 : startsWithUncased (a :: as) tn = true
    · have e1 := nan_excludes o wf a as tn tf hnan (Or.inl hinf) h1
      have e2 := nan_excludes o wf a as tn ti hnan (Or.inr hinfy) h1
      by_cases h2 : tn.length = as.length + 1 <;> simp [okAt, h1, h2, e1, e2]
    · by_cases h5 : startsWithUncased (a :: as) ti = true
      · by_cases h2 : ti.length = as.length + 1
        · simp [okAt, h1, h5, h2]
        · have : ¬ tf.length = as.length + 1 := infinity_excludes o wf (a :: as) tf ti hinf hinfy h5 h2
          simp [okAt, h1, h5, h2, this]
      · by_cases h3 : startsWithUncased (a :: as) tf = true <;> by_cases h4 : tf.length = as.length + 1 <;>
          simp [okAt, h1, h5, h3, h4]

def stdSign (s : List Nat) : Bool × List Nat × Nat :=
  match s with
  | 43 :: cs => (false, cs, 1)
  | 45 :: cs => (true, cs, 1)
  | _ => (false, s, 0)

theorem parseStdComplete_stages (r er : Nat) (o : POpts) (s : List Nat) :
    parseStdComplete r er o s =
      if (stdSign s).2.1.isEmpty then .err
      else if okAt s.length (parseNumberStd r er o (stdSign s).1 (stdSign s).2.2 (stdSign s).2.1) then
        parseNumberStd r er o (stdSign s).1 (stdSign s).2.2 (stdSign s).2.1
      else if okAt s.length (parseSpecial o (stdSign s).1 (stdSign s).2.2 (stdSign s).2.1) then
        parseSpecial o (stdSign s).1 (stdSign s).2.2 (stdSign s).2.1
      else .err := by
  rfl

theorem stdSign_eq (s : List Nat) :
    stdSign s = ((splitSign s).1 == some true, (splitSign s).2, s.length - (splitSign s).2.length) ∧
      (splitSign s).2.length ≤ s.length := by
  unfold stdSign splitSign
  split
  · simp
  · simp
  · split <;> simp_all

/-- flags of a format without syntax flags (STANDARD, `from_radix`, mixed-base formats) -/
def stdSyn (r er : Nat) : Syn := { radix := r, expRadix := er }

theorem numberOk_std (r er : Nat) (p : Parts) : numberOk (stdSyn r er) p = okStd p := by
  simp [numberOk, stdSyn, signOk, okStd]

/-- **`Spec.Grammar` with no syntax flag set is the flag-free grammar `Spec.parseStdComplete`**, for every radix,
every option characters and every well-formed set of special strings, on every input. -/
theorem grammarFloatSyn_std (r er : Nat) (o : POpts) (wf : SpecialsWF o) (s : List Nat) :
    grammarFloatSyn (stdSyn r er) o s = parseStdComplete r er o s := by
  rw [parseStdComplete_stages]
  obtain ⟨hs1, hs2⟩ := stdSign_eq s
  rw [hs1]
  unfold grammarFloatSyn
  simp only [numberOk_std]
  cases s with
  | nil => simp [splitSign]
  | cons c cs =>
    simp only [List.isEmpty_cons, Bool.false_eq_true, if_false]
    have hso : signOk (stdSyn r er).noPosMant (stdSyn r er).reqMantSign (splitSign (c :: cs)).1 = true := by
      simp [signOk, stdSyn]
    simp only [hso, if_true]
    generalize hsg : splitSign (c :: cs) = sg at hs2 ⊢
    obtain ⟨sign, body⟩ := sg
    simp only at hs2 ⊢
    have hpos : (c :: cs).length - body.length + body.length = (c :: cs).length := by omega
    obtain ⟨hn1, hn2⟩ := number_std (stdSyn r er) rfl rfl rfl o sign ((c :: cs).length - body.length) body
    rw [hpos] at hn1 hn2
    change (_ → parseNumberStd r er o _ _ _ = _) at hn1
    change (_ → okAt _ (parseNumberStd r er o _ _ _) = _) at hn2
    cases hok : okStd (splitNumber (stdSyn r er) o sign body) with
    | true =>
      have h := hn1 hok
      rw [h]
      cases body with
      | nil => simp [okStd, splitNumber, splitPrefix, takeDigits, splitFraction, splitExponent, splitSuffix] at hok
      | cons b bs => simp [okAt]
    | false =>
      have h := hn2 hok
      rw [h]
      simp only [Bool.false_eq_true, if_false]
      cases body with
      | nil =>
        have : specialOf (stdSyn r er) o [] = none := by
          have h1 := wf.nan_ne; have h2 := wf.inf_ne; have h3 := wf.infinity_ne
          unfold specialOf isSpecial
          rcases hnan : o.nan with _ | tn <;> rcases hinf : o.inf with _ | tf <;> rcases hinfy : o.infinity with _ | ti <;>
            simp_all [stdSyn] <;> (try cases tn) <;> (try cases tf) <;> (try cases ti) <;> simp_all [eqSpecial]
        simp [this]
      | cons b bs =>
        have := special_std (stdSyn r er) rfl rfl o wf (sign == some true) ((c :: cs).length - (b :: bs).length)
          (b :: bs) (by simp)
        rw [hpos] at this
        simp only [List.isEmpty_cons, Bool.false_eq_true, if_false]
        rw [this]
        rfl

/-! ## plain formats have the standard flags -/

theorem syn_of_noformat (feats : Features) (f : Format) (h : feats.format = false) :
    Syn.of feats f = stdSyn f.mantissaRadix f.exponentRadix := by
  simp [Syn.of, h, stdSyn]

theorem flagBits_bit (f : Format) (h : f.flagBits = 12) (i : Nat) (hi : i < 64) :
    f.bit i = (i == 2 || i == 3) := by
  have hpow : 2 ^ 64 = 2 ^ i * 2 ^ (64 - i) := by rw [← Nat.pow_add]; congr 1; omega
  have key : f.raw / 2 ^ i % 2 = 12 / 2 ^ i % 2 := by
    have h' : f.raw % 2 ^ 64 = 12 := h
    have e1 : f.raw = 2 ^ 64 * (f.raw / 2 ^ 64) + 12 := by
      have := Nat.div_add_mod f.raw (2 ^ 64); omega
    rw [e1, hpow, Nat.mul_assoc, Nat.mul_add_div (Nat.two_pow_pos i)]
    have h2 : 2 ^ (64 - i) = 2 * 2 ^ (64 - i - 1) := by
      rw [← Nat.pow_succ']; congr 1; omega
    rw [h2, Nat.mul_assoc, Nat.mul_add_mod]
  unfold Format.bit
  rw [key]
  have all : ∀ j, j < 64 → decide (12 / 2 ^ j % 2 = 1) = (j == 2 || j == 3) := by decide
  exact all i hi

/-- a format without syntax flags, base prefix and base suffix has the standard flags under every feature set -/
theorem syn_of_plain (feats : Features) (f : Format) (h : f.flagBits = 12) (hp : f.basePrefix = 0)
    (hs : f.baseSuffix = 0) : Syn.of feats f = stdSyn f.mantissaRadix f.exponentRadix := by
  cases hf : feats.format with
  | false => exact syn_of_noformat feats f hf
  | true =>
    simp [Syn.of, hf, stdSyn, hp, hs, Format.requiredIntegerDigits, Format.requiredFractionDigits,
      Format.requiredExponentDigits, Format.requiredMantissaDigits, Format.noPositiveMantissaSign,
      Format.requiredMantissaSign, Format.noExponentNotation, Format.noPositiveExponentSign,
      Format.requiredExponentSign, Format.noExponentWithoutFraction, Format.noSpecial, Format.caseSensitiveSpecial,
      Format.noIntegerLeadingZeros, Format.noFloatLeadingZeros, Format.requiredExponentNotation,
      Format.caseSensitiveExponent, Format.caseSensitiveBasePrefix, Format.caseSensitiveBaseSuffix,
      flagBits_bit f h]
end LexVerif.Proof.Grammar
