import LexVerif.Model.Grisu
import LexVerif.Proof.DragonboxSpec
import LexVerif.Spec.Numeral
/-!
# Proof.GrisuSpec — what "Grisu is correct" means per input, and kernel-evaluated instances

`grisuOk t bits`: the model's `grisu` returns digit characters `'0'..'9'`, at most 17 (f64) / 9 (f32) of them, no
leading zero, and `digits · 10^k` is rounded by the exact `roundNE` back to `bits` (C02 demands round trip and the
digit bound of `compact` builds, not minimality).
-/
namespace LexVerif.Proof.GrisuSpec
open LexVerif.Spec LexVerif.Model LexVerif.Model.Dragonbox LexVerif.Proof.DragonboxSpec

def maxDigits : FTy → Nat | .f32 => 9 | .f64 => 17

def decFracN (D : Nat) (E : Int) : Nat × Nat :=
  if E ≥ 0 then (D * 10 ^ E.toNat, 1) else (D, 10 ^ (-E).toNat)

def grisuOk (t : FTy) (bits : Nat) : Bool :=
  match Grisu.grisu t bits with
  | some (ds, k) =>
    let vals := ds.map (· - 48)
    let D := ofDigits 10 vals
    ds.all (fun c => 48 ≤ c ∧ c ≤ 57) && ds.length ≤ maxDigits t && 1 ≤ ds.length && ds.head? != some 48
      && roundNE (fmtOf t) (decFracN D k).1 (decFracN D k).2 == bits
  | none => false

/-- every power of two of binary32 (all 254 finite non-zero exponent fields with a zero mantissa field) -/
theorem grisu_pow2_f32 : (expChunk .f32 0 255).all (grisuOk .f32) = true := by decide +kernel

/-- binary32: the smallest and largest subnormals and normals, and the neighbours of a few binade boundaries -/
theorem grisu_samples_f32 :
    ([1, 2, 3, 0x7FFFFF, 0x800000, 0x800001, 0x7F7FFFFF, 0x7F7FFFFE, 0x3F800000, 0x3F7FFFFF, 0x3F800001, 0x3DCCCCCD,
      0x4B800000, 0x4B7FFFFF, 0x501502F9, 0x5D5E0B6B].all (grisuOk .f32)) = true := by decide +kernel

/-- binary64: every 16th exponent field with a zero mantissa field, and the extreme patterns -/
theorem grisu_samples_f64 :
    ((((List.range 128).map fun i => (16 * i + 1) * 2 ^ 52)
      ++ [1, 2, 0xFFFFFFFFFFFFF, 0x10000000000000, 0x10000000000001, 0x7FEFFFFFFFFFFFFF, 0x7FEFFFFFFFFFFFFE,
          0x3FF0000000000000, 0x3FEFFFFFFFFFFFFF, 0x3FF0000000000001, 0x3FB999999999999A, 0x447CF7C4F4A7C4B0,
          0x4340000000000000, 0x433FFFFFFFFFFFFF]).all (grisuOk .f64)) = true := by decide +kernel

end LexVerif.Proof.GrisuSpec
