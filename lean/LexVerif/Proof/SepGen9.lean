import LexVerif.Proof.SepLocal4
/-!
# Proof.SepGen9 — `insert_preserves`, general form: if the stripped input is accepted as a number and none of the three
digit iterators of the run over the input with separators stops on a separator, the input with separators is accepted
as the same number
-/
set_option linter.unusedSimpArgs false
namespace LexVerif.Proof.Sep
open LexVerif LexVerif.Model LexVerif.Spec
open LexVerif.Props.C12

/-- the exponent iterator, if the run gets there from cursor `f`, does not stop on a separator -/
def ExpNormal (c : Cfg) (o : POpts) (s : List Nat) (f : Bytes) : Prop :=
  f.firstIs o.exp (c.caseSensitiveExponent && c.feats.format) = true →
  ∀ r, parseExponentSign c { f with index := f.index + 1 } = .ok r →
  ∀ e ds, Run c .exponent c.exponentRadix r.2 e ds → ∀ x, s[e.index]? = some x → c.isSep x = false

/-- the fraction iterator (if a decimal point follows the integer run ending at `eI`) and then the exponent iterator do
not stop on a separator -/
def FracNormal (c : Cfg) (o : POpts) (s : List Nat) (eI : Bytes) : Prop :=
  (s[eI.index]? = some o.dp → ∀ eF dsF, Run c .fraction c.mantissaRadix { eI with index := eI.index + 1 } eF dsF →
    (∀ x, s[eF.index]? = some x → c.isSep x = false) ∧ ExpNormal c o s eF) ∧
  (s[eI.index]? ≠ some o.dp → ExpNormal c o s eI)

/-- none of the three digit iterators of `parse_number` started at `b0` stops on a separator -/
def IntNormal (c : Cfg) (o : POpts) (s : List Nat) (b0 : Bytes) : Prop :=
  ∀ eI dsI, Run c .integer c.mantissaRadix b0 eI dsI →
    (∀ x, s[eI.index]? = some x → c.isSep x = false) ∧ FracNormal c o s eI

/-- the exponent phase, from the stripped run back to the run with separators -/
theorem exponentPhase_insert (c : Cfg) (o : POpts) (hG : GenStrip c o) (s : List Nat) (hasExp : Bool) (bC bP : Bytes)
    (hr : StripRel c s bC bP) (hNb : Normal c bC) (hx : hasExp = true → ∃ x, bC.slc[bC.index]? = some x)
    (hv : bC.index ≤ s.length) (hP : NoSignAfterSep c { bC with index := bC.index + 1 })
    (hNE : hasExp = true → ∀ r, parseExponentSign c { bC with index := bC.index + 1 } = .ok r →
      ∀ e ds, Run c .exponent c.exponentRadix r.2 e ds → ∀ x, s[e.index]? = some x → c.isSep x = false)
    (fr : Option (List Nat)) (ex : Int) (ep' : ExpPart)
    (h : exponentPhase c hasExp bP (fr.map (nonSep c)) ex = .ok ep') :
    ∃ ep, exponentPhase c hasExp bC fr ex = .ok ep ∧ StripRel c s ep.byte ep'.byte ∧
      ep'.explicit = ep.explicit ∧ ep'.exponent = ep.exponent ∧ ep.byte.index ≤ s.length ∧
      (∀ x, s[ep.byte.index]? = some x → c.isSep x = false) := by
  rw [exponentPhase_eq] at h ⊢
  cases hasExp
  · simp only [Bool.false_eq_true, if_false] at h ⊢
    split at h
    · cases h
    · next hc =>
      simp only [pure, Except.pure, Except.ok.injEq] at h
      subst h
      simp only [hc, Bool.false_eq_true, if_false, pure, Except.pure]
      exact ⟨_, rfl, hr, rfl, rfl, hv, fun x hx => hNb x (by rw [hr.1]; exact hx)⟩
  · obtain ⟨x, hget⟩ := hx rfl
    have hr1 := hr.step1 x hget (hNb x hget)
    have hlt : bC.index < bC.slc.length := (List.getElem?_eq_some_iff.mp hget).1
    simp only [if_true, step_release c hG.rel.debug, bind, Except.bind, Option.isNone_map] at h ⊢
    split at h
    · cases h
    · next hc1 =>
      split at h
      · cases h
      · next hc2 =>
        simp only [hc1, hc2, Bool.false_eq_true, if_false]
        unfold parseExponentSign at h ⊢
        cases hps : parseSign c c.noPositiveExponentSign c.requiredExponentSign "InvalidPositiveExponentSign"
            "MissingExponentSign" { bP with index := bP.index + 1 } with
        | error e => simp [hps] at h
        | ok r' =>
          simp only [hps] at h
          obtain ⟨r, h1, h2, h3, h4⟩ := parseSign_strip_rev_g c hG.rel.debug hG.sepPlus hG.sepMinus s _ _ _ _ _ _ hr1 hP r' hps
          simp only [h1, ← h2]
          have hv2 : r.2.index ≤ r.2.slc.length := by
            have := h4 (by simp only; omega)
            rw [h3.1]; simp only [hr.1] at this; exact this
          obtain ⟨ds, e, hR, hL⟩ := expTail_left_g c o hG r'.1 r.2 ex hv2
          have hNe := hNE rfl r (by unfold parseExponentSign; exact h1) e ds hR
          have hN2 : ∀ x, r.2.slc[e.index]? = some x → c.isSep x = false := by
            intro x hx; rw [h3.1] at hx; exact hNe x hx
          obtain ⟨g1, _, g3⟩ := hR.strip h3 hN2
          -- the stripped run found these digits, so there is at least one
          have hR' : expTail c r'.1 r'.2 ex =
              (if ds.length = 0 then .error (.err "EmptyExponent" (r'.2.index + ds.length))
               else .ok ⟨adv c .exponent ds.length r'.2,
                 if r'.1 then -(foldExponent c.exponentRadix 0 ds : Int) else (foldExponent c.exponentRadix 0 ds : Int),
                 ex + if r'.1 then -(foldExponent c.exponentRadix 0 ds : Int) else (foldExponent c.exponentRadix 0 ds : Int)⟩) := by
            unfold expTail
            simp only [parseDigits_nosep c .exponent _ hG.rel.debug (hG.rel.reach _) r'.2 h3.noSep, g1, bind, Except.bind,
              currentCount_adv_sub c .exponent _ _ (by decide), hG.reqExp, Bool.true_and, pure, Except.pure,
              decide_eq_true_eq, adv_index]
          rw [hR'] at h
          by_cases hz : ds.length = 0
          · simp [hz] at h
          · simp only [hz, if_false, Except.ok.injEq] at h
            subst h
            rw [hL]
            simp only [hz, if_false]
            refine ⟨_, rfl, g3, rfl, rfl, ?_, hNe⟩
            have := hR.valid; rw [h3.1] at this; exact this

end LexVerif.Proof.Sep
