import LexVerif.Proof.SepLocal4
/-!
# Proof.SepGen9 — `insert_preserves`, general form: if the stripped input is accepted as a number and none of the three
digit iterators of the run over the input with separators stops on a separator, the input with separators is accepted
as the same number
-/
set_option linter.unusedSimpArgs false
namespace LexVerif.Proof.Sep
open LexVerif LexVerif.Model LexVerif.Spec
open LexVerif.Props.C12

/-- the exponent iterator, if the run gets there from cursor `f`, does not stop on a separator -/
def ExpNormal (c : Cfg) (o : POpts) (s : List Nat) (f : Bytes) : Prop :=
  f.firstIs o.exp (c.caseSensitiveExponent && c.feats.format) = true →
  ∀ r, parseExponentSign c { f with index := f.index + 1 } = .ok r →
  ∀ e ds, Run c .exponent c.exponentRadix r.2 e ds → ∀ x, s[e.index]? = some x → c.isSep x = false

/-- the fraction iterator (if a decimal point follows the integer run ending at `eI`) and then the exponent iterator do
not stop on a separator -/
def FracNormal (c : Cfg) (o : POpts) (s : List Nat) (eI : Bytes) : Prop :=
  (s[eI.index]? = some o.dp → ∀ eF dsF, Run c .fraction c.mantissaRadix { eI with index := eI.index + 1 } eF dsF →
    (∀ x, s[eF.index]? = some x → c.isSep x = false) ∧ ExpNormal c o s eF) ∧
  (s[eI.index]? ≠ some o.dp → ExpNormal c o s eI)

/-- none of the three digit iterators of `parse_number` started at `b0` stops on a separator -/
def IntNormal (c : Cfg) (o : POpts) (s : List Nat) (b0 : Bytes) : Prop :=
  ∀ eI dsI, Run c .integer c.mantissaRadix b0 eI dsI →
    (∀ x, s[eI.index]? = some x → c.isSep x = false) ∧ FracNormal c o s eI

/-- the exponent phase, from the stripped run back to the run with separators -/
theorem exponentPhase_insert (c : Cfg) (o : POpts) (hG : GenStrip c o) (s : List Nat) (hasExp : Bool) (bC bP : Bytes)
    (hr : StripRel c s bC bP) (hNb : Normal c bC) (hx : hasExp = true → ∃ x, bC.slc[bC.index]? = some x)
    (hv : bC.index ≤ s.length) (hP : NoSignAfterSep c { bC with index := bC.index + 1 })
    (hNE : hasExp = true → ∀ r, parseExponentSign c { bC with index := bC.index + 1 } = .ok r →
      ∀ e ds, Run c .exponent c.exponentRadix r.2 e ds → ∀ x, s[e.index]? = some x → c.isSep x = false)
    (fr : Option (List Nat)) (ex : Int) (ep' : ExpPart)
    (h : exponentPhase c hasExp bP (fr.map (nonSep c)) ex = .ok ep') :
    ∃ ep, exponentPhase c hasExp bC fr ex = .ok ep ∧ StripRel c s ep.byte ep'.byte ∧
      ep'.explicit = ep.explicit ∧ ep'.exponent = ep.exponent ∧ ep.byte.index ≤ s.length ∧
      (∀ x, s[ep.byte.index]? = some x → c.isSep x = false) := by
  rw [exponentPhase_eq] at h ⊢
  cases hasExp
  · simp only [Bool.false_eq_true, if_false] at h ⊢
    split at h
    · cases h
    · next hc =>
      simp only [pure, Except.pure, Except.ok.injEq] at h
      subst h
      simp only [hc, Bool.false_eq_true, if_false, pure, Except.pure]
      exact ⟨_, rfl, hr, rfl, rfl, hv, fun x hx => hNb x (by rw [hr.1]; exact hx)⟩
  · obtain ⟨x, hget⟩ := hx rfl
    have hr1 := hr.step1 x hget (hNb x hget)
    have hlt : bC.index < bC.slc.length := (List.getElem?_eq_some_iff.mp hget).1
    simp only [if_true, step_release c hG.rel.debug, bind, Except.bind, Option.isNone_map] at h ⊢
    split at h
    · cases h
    · next hc1 =>
      split at h
      · cases h
      · next hc2 =>
        simp only [hc1, hc2, Bool.false_eq_true, if_false]
        unfold parseExponentSign at h ⊢
        cases hps : parseSign c c.noPositiveExponentSign c.requiredExponentSign "InvalidPositiveExponentSign"
            "MissingExponentSign" { bP with index := bP.index + 1 } with
        | error e => simp [hps] at h
        | ok r' =>
          simp only [hps] at h
          obtain ⟨r, h1, h2, h3, h4⟩ := parseSign_strip_rev_g c hG.rel.debug hG.sepPlus hG.sepMinus s _ _ _ _ _ _ hr1 hP r' hps
          simp only [h1, ← h2]
          have hv2 : r.2.index ≤ r.2.slc.length := by
            have := h4 (by simp only; omega)
            rw [h3.1]; simp only [hr.1] at this; exact this
          obtain ⟨ds, e, hR, hL⟩ := expTail_left_g c o hG r'.1 r.2 ex hv2
          have hNe := hNE rfl r (by unfold parseExponentSign; exact h1) e ds hR
          have hN2 : ∀ x, r.2.slc[e.index]? = some x → c.isSep x = false := by
            intro x hx; rw [h3.1] at hx; exact hNe x hx
          obtain ⟨g1, _, g3⟩ := hR.strip h3 hN2
          -- the stripped run found these digits, so there is at least one
          have hR' : expTail c r'.1 r'.2 ex =
              (if ds.length = 0 then .error (.err "EmptyExponent" (r'.2.index + ds.length))
               else .ok ⟨adv c .exponent ds.length r'.2,
                 if r'.1 then -(foldExponent c.exponentRadix 0 ds : Int) else (foldExponent c.exponentRadix 0 ds : Int),
                 ex + if r'.1 then -(foldExponent c.exponentRadix 0 ds : Int) else (foldExponent c.exponentRadix 0 ds : Int)⟩) := by
            unfold expTail
            simp only [parseDigits_nosep c .exponent _ hG.rel.debug (hG.rel.reach _) r'.2 h3.noSep, g1, bind, Except.bind,
              currentCount_adv_sub c .exponent _ _ (by decide), hG.reqExp, Bool.true_and, pure, Except.pure,
              decide_eq_true_eq, adv_index]
          rw [hR'] at h
          by_cases hz : ds.length = 0
          · simp [hz] at h
          · simp only [hz, if_false, Except.ok.injEq] at h
            subst h
            rw [hL]
            simp only [hz, if_false]
            refine ⟨_, rfl, g3, rfl, rfl, ?_, hNe⟩
            have := hR.valid; rw [h3.1] at this; exact this

/-- **`parse_number`, from the stripped run back to the run with separators** -/
theorem number_insert_gen (c : Cfg) (o : POpts) (hG : GenStrip c o) (hresI : Rescan c .integer)
    (hresF : Rescan c .fraction) (s : List Nat) (hb256 : ∀ x ∈ s, x < 256) (hP : NoSepBeforeSign c s) (b b' : Bytes)
    (hr : StripRel c s b b') (hv : b.index ≤ s.length) (hic : b.ic = 0) (hfc : b.fc = 0)
    (hstart : (∀ x, getPrev s b.index = some x → c.isDigit x = false ∧ c.isSep x = false) ∨
      (∀ x, s[b.index]? = some x → c.isSep x = false))
    (hN : IntNormal c o s b) (p neg fv : Bool) (n' : Number) (cnt' : Nat)
    (h' : parseNumber c p o b' neg fv = .ok (n', cnt')) (hcnt' : cnt' = (nonSep c s).length) :
    ∃ n, parseNumber c p o b neg fv = .ok (n, s.length) ∧ NumRel c n n' ∧ SlicesOK c n := by
  have hsl : b.slc = s := hr.1
  have hvb : Bytes.Valid b := by unfold Bytes.Valid; rw [hsl]; exact hv
  -- the integer phase
  obtain ⟨dsI, eI, hRI, hconI, hint⟩ := integerPhase_left c o hG b hvb
  obtain ⟨hNI, hFN⟩ := hN eI dsI hRI
  have heI : eI.slc = s := by rw [hRI.slc]; exact hsl
  have hvI : eI.index ≤ s.length := by have := hRI.valid; rw [hsl] at this; exact this
  have hNIb : ∀ x, b.slc[eI.index]? = some x → c.isSep x = false := by rw [hsl]; exact hNI
  unfold parseNumber at h' ⊢
  simp only [hG.rel.debug, Bool.false_and, Bool.false_eq_true, if_false, bind, Except.bind] at h' ⊢
  by_cases hzI : (c.requiredIntegerDigits && decide (dsI.length = 0)) = true
  · exfalso
    obtain ⟨h1, _, _⟩ := hRI.strip hr hNIb
    rw [integerPhase_rel c hG.rel b' b' false hr.noSep (prefixPhase_none c hG.noPrefix b')] at h'
    unfold intClosed at h'
    simp only [h1, hG.format, Bool.true_and, hzI, if_true] at h'
    cases h'
  · have hzI' : (c.requiredIntegerDigits && decide (dsI.length = 0)) = false := by simpa using hzI
    obtain ⟨hipR, hrI⟩ := integerPhase_right c o hG s b b' eI dsI hRI hr hNIb hzI'
    rw [hipR] at h'
    rw [hint, if_neg hzI]
    simp only at h' ⊢
    -- the fraction phase: both runs
    have hNIn : Normal c eI := by intro x hx; rw [heI] at hx; exact hNI x hx
    have hfracBoth : ∃ fp fp', fractionPhase c o eI (foldMantissa c.mantissaRadix 0 dsI) = .ok fp ∧
        fractionPhase c o (adv c .integer dsI.length b') (foldMantissa c.mantissaRadix 0 dsI) = .ok fp' ∧
        FracLeft c o b eI (foldMantissa c.mantissaRadix 0 dsI) fp ∧
        StripRel c s fp.byte fp'.byte ∧ fp'.mantissa = fp.mantissa ∧ fp'.nAfterDot = fp.nAfterDot ∧
        fp'.exponent = fp.exponent ∧ fp'.fraction = fp.fraction.map (nonSep c) ∧
        fp.byte.slc = s ∧ fp.byte.index ≤ s.length ∧ (∀ x, s[fp.byte.index]? = some x → c.isSep x = false) ∧
        ExpNormal c o s fp.byte := by
      have hvIv : Bytes.Valid eI := by unfold Bytes.Valid; rw [heI]; exact hvI
      rcases fractionPhase_left c o hG eI (foldMantissa c.mantissaRadix 0 dsI) hvIv with ⟨hnodp, hfr⟩ | ⟨hdp, dsF, eF, hRF, hconF, hfr⟩
      · have hne : s[eI.index]? ≠ some o.dp := by
          intro hh; simp [Bytes.firstIsCased, Bytes.first, heI, hh] at hnodp
        have hFL : FracLeft c o b eI (foldMantissa c.mantissaRadix 0 dsI) ⟨eI, foldMantissa c.mantissaRadix 0 dsI, 0, 0, none, false⟩ :=
          Or.inl ⟨rfl, hnodp⟩
        obtain ⟨_, _, fp', g1, g2, g3, g4, g5, g6⟩ := frac_right c o hG s b eI (adv c .integer dsI.length b')
          (foldMantissa c.mantissaRadix 0 dsI) _ hsl heI hvI hFL hrI hNI (fun _ => hNI)
        exact ⟨_, fp', hfr, g1, hFL, g2, g3, g4, g5, g6, heI, hvI, hNI, hFN.2 hne⟩
      · rw [heI] at hdp
        obtain ⟨hNF, hEN⟩ := hFN.1 hdp eF dsF hRF
        have hslF : eF.slc = s := by rw [hRF.slc]; exact heI
        have hvF : eF.index ≤ s.length := by have := hRF.valid; simp only [heI] at this; exact this
        have hN2 : ∀ x, eI.slc[eF.index]? = some x → c.isSep x = false := by
          intro x hx; rw [heI] at hx; exact hNF x hx
        by_cases hzF : (c.requiredFractionDigits && decide (dsF.length = 0)) = true
        · -- then the stripped run fails with EmptyFraction
          exfalso
          have hr1 := hrI.step1 o.dp (by rw [heI]; exact hdp) hG.sepDp
          obtain ⟨q1, _, _⟩ := hRF.strip hr1 hN2
          simp only at q1
          have hf : (adv c .integer dsI.length b').firstIsCased o.dp = true := by
            have hf1 := hrI.first hNIn
            unfold Bytes.firstIsCased
            rw [hf1]
            simp only [Bytes.first, heI, hdp, beq_self_eq_true]
          rw [fractionPhase_rel c hG.rel o _ _ hrI.noSep] at h'
          unfold fracClosed at h'
          simp only [hf, if_true, q1, hG.format, Bool.true_and, hzF] at h'
          cases h'
        · have hzF' : (c.requiredFractionDigits && decide (dsF.length = 0)) = false := by simpa using hzF
          rw [if_neg hzF] at hfr
          have hFL : FracLeft c o b eI (foldMantissa c.mantissaRadix 0 dsI) ⟨eF, foldMantissa c.mantissaRadix (foldMantissa c.mantissaRadix 0 dsI) dsF,
              dsF.length, scaleVal c (-(dsF.length : Int)), some (slice b.slc (eI.index + 1) eF.index), true⟩ :=
            Or.inr ⟨dsF, eF, by rw [hsl]; exact hdp, hRF, by simpa [heI, hsl] using hconF, hzF', rfl⟩
          obtain ⟨_, _, fp', g1, g2, g3, g4, g5, g6⟩ := frac_right c o hG s b eI (adv c .integer dsI.length b')
            (foldMantissa c.mantissaRadix 0 dsI) _ hsl heI hvI hFL hrI hNI (fun _ => hNF)
          refine ⟨_, fp', ?_, g1, hFL, g2, g3, g4, g5, g6, hslF, hvF, hNF, hEN⟩
          rw [hfr]; simp only [heI, hsl]
    obtain ⟨fp, fp', hfpL, hfpR, hFL, hrF, f1, f2, f3, f4, hfps1, hfps2, hNF, hEN⟩ := hfracBoth
    rw [hfpR] at h'
    rw [hfpL]
    simp only at h' ⊢
    have hNFn : Normal c fp.byte := by intro x hx; rw [hfps1] at hx; exact hNF x hx
    have hcc : Bytes.currentCount c fp'.byte = Bytes.currentCount c fp.byte := by
      simp only [Bytes.currentCount, hG.bytes, Bool.false_eq_true, if_false, hrF.2.2.2.1, hrF.2.2.2.2.1, hrF.2.2.2.2.2]
    have hfi : ∀ v cased, fp'.byte.firstIs v cased = fp.byte.firstIs v cased := by
      intro v cased; simp [Bytes.firstIs, Bytes.firstIsCased, Bytes.firstIsUncased, hrF.first hNFn]
    simp only [f1, f2, f3, f4, hfi, hcc] at h'
    -- the mantissa check
    by_cases hm : (c.requiredMantissaDigits && (decide (dsI.length + fp.nAfterDot = 0) ||
        c.feats.format && decide (Bytes.currentCount c fp.byte = 0))) = true
    · exfalso
      rw [if_pos hm] at h'
      cases hpk : peek c .integer b' with
      | error er => rw [hpk] at h'; cases h'
      | ok r => rw [hpk] at h'; simp only at h'; split at h' <;> cases h'
    · rw [if_neg hm] at h' ⊢
      -- the exponent phase
      cases hepR : exponentPhase c (fp.byte.firstIs o.exp (c.caseSensitiveExponent && c.feats.format)) fp'.byte
          (fp.fraction.map (nonSep c)) fp.exponent with
      | error er => rw [hepR] at h'; cases h'
      | ok ep' =>
        rw [hepR] at h'
        simp only [suffixPhase_none c hG.noSuffix] at h' ⊢
        obtain ⟨ep, hepL, hrE, e1, e2, hve, hNe⟩ := exponentPhase_insert c o hG s _ fp.byte fp'.byte hrF hNFn
          (fun hh => firstIs_some _ _ _ hh) hfps2 (hP.at _ hfps1) (fun hh => hEN hh) fp.fraction fp.exponent ep' hepR
        rw [hepL]
        simp only [e1, e2] at h' ⊢
        have hexp : (if (c.feats.format && !c.requiredMantissaDigits && decide (dsI.length + fp.nAfterDot = 0)) = true
            then (0 : Int) else ep.exponent) = ep.exponent := by
          simp only [hG.reqMant, Bool.not_true, Bool.and_false, Bool.false_and, Bool.false_eq_true, if_false]
        rw [hexp] at h' ⊢
        -- the end positions
        by_cases hle : dsI.length + fp.nAfterDot ≤ u64Step c.feats c.mantissaRadix
        · rw [if_pos hle] at h' ⊢
          simp only [pure, Except.pure, Except.ok.injEq, Prod.mk.injEq] at h'
          obtain ⟨rfl, hc2⟩ := h'
          have hend : ep.byte.index = s.length :=
            end_of_strip c s ep.byte.index hve hNe (by rw [← hrE.2.2.1, hc2, hcnt'])
          refine ⟨_, by simp only [pure, Except.pure, hend]; rfl, ?_, ?_⟩
          · simp only [NumRel, hsl, and_self]
          · intro hmd; cases hmd
        · rw [if_neg hle] at h' ⊢
          have hcE : cnt' = ep'.byte.index := manyDigitsPhase_count c o neg _ _ _ _ _ _ _ n' cnt' h'
          have hend : ep.byte.index = s.length :=
            end_of_strip c s ep.byte.index hve hNe (by rw [← hrE.2.2.1, ← hcE, hcnt'])
          -- the many-digits path on both sides
          have hnext : ∀ (e : Bytes), (∀ x, s[e.index]? = some x → c.isSep x = false) →
              (∀ x, s[e.index]? = some x → charToDigit x c.mantissaRadix = none) →
              ∀ x, s[e.index]? = some x → c.isDigit x = false ∧ c.isSep x = false := by
            intro e hn hs x hx
            exact ⟨isDigit_of_stop c x (hb256 x (List.mem_of_getElem? hx)) hG.radixM (hs x hx), hn x hx⟩
          have hokI : SliceOK c .integer (slice s b.index eI.index) := by
            have := sliceOK_of_run hresI hRI (fun hc => (hconI hc).2)
              (by intro hc; simp [Bytes.iterCount, hc, hic]) hvb (by rw [hsl]; exact hstart)
              (by rw [hsl]; exact hnext eI hNI (by intro x hx; exact hRI.stop x (by rw [hsl]; exact hx)))
            rw [hsl] at this; exact this
          have hfcI : eI.fc = 0 := by rw [hRI.eq]; simp [advS, hfc]
          have hokF : ∀ fd, fp.fraction = some fd → SliceOK c .fraction fd := by
            intro fd hfd
            rcases hFL with ⟨rfl, _⟩ | ⟨dsF, eF, hdp, hRF, hconF, _, rfl⟩
            · cases hfd
            · simp only [Option.some.injEq] at hfd
              subst hfd
              rw [hsl] at hdp
              have hvF : Bytes.Valid ({ eI with index := eI.index + 1 } : Bytes) := by
                unfold Bytes.Valid; simp only [heI]
                have := (List.getElem?_eq_some_iff.mp hdp).1; omega
              have := sliceOK_of_run hresF hRF (fun hc => by simpa [heI, hsl] using (hconF hc).2)
                (by intro hc; simp [Bytes.iterCount, hc, hfcI]) hvF
                (Or.inl (by
                  intro x hx
                  simp only [getPrev, heI, Nat.add_sub_cancel, Nat.succ_ne_zero, if_false, hdp, Option.some.injEq] at hx
                  subst hx
                  exact ⟨isDigit_of_stop c _ (hb256 _ (List.mem_of_getElem? hdp)) hG.radixM hG.dpDigit, hG.sepDp⟩))
                (by
                  simp only [heI]
                  exact hnext eF hNF (by intro x hx; exact hRF.stop x (by simp only [heI]; exact hx)))
              simpa [heI, hsl] using this
          have hfracM : s[eI.index]? = some o.dp → ∃ dsF eF,
              Run c .fraction c.mantissaRadix { eI with index := eI.index + 1 } eF dsF ∧
              (c.iterContiguous .fraction = true → NoSep c (slice s (eI.index + 1) eF.index)) ∧
              (∀ x, s[eF.index]? = some x → c.isSep x = false) := by
            intro hdp
            rcases hFL with ⟨rfl, hnodp⟩ | ⟨dsF, eF, _, hRF, hconF, _, rfl⟩
            · exfalso
              simp [Bytes.firstIsCased, Bytes.first, heI, hdp] at hnodp
            · exact ⟨dsF, eF, hRF, fun hc => by simpa [hsl] using (hconF hc).2, hNF⟩
          have hL := manyDigits_left c o hG s neg ⟨false, b, eI, foldMantissa c.mantissaRadix 0 dsI, dsI.length,
            slice b.slc b.index eI.index⟩ fp ep (dsI.length + fp.nAfterDot) (u64Step c.feats c.mantissaRadix) ep.exponent
            ep.byte.index eI dsI hsl hvb hRI (fun hc => by simpa [hsl] using (hconI hc).2) hNI hfracM
            (by simpa [hsl] using hokI) hokF
          rw [hL]
          have hnS : NoSep c (nonSep c s) := nonSep_noSep c s
          rw [manyDigits_rel c hG.rel (nonSep c s) hnS o neg _ _ _ _ _ _ _ hr.2.1 (nonSep_noSep c _)
            (by
              intro fd hfd
              rw [f4] at hfd
              cases hfr : fp.fraction with
              | none => rw [hfr] at hfd; cases hfd
              | some x =>
                rw [hfr] at hfd
                simp only [Option.map_some, Option.some.injEq] at hfd; rw [← hfd]; exact nonSep_noSep c _)] at h'
          simp only [hr.2.2.1, hG.format, hG.bytes, Bool.not_false, Bool.and_true, f1, f4, e1] at h' ⊢
          rw [manyClosed_endIdx _ _ _ _ _ _ _ _ _ _ _ _ _ _ ep'.byte.index ep.byte.index, h']
          obtain ⟨g1, g2, _⟩ := manyClosed_fields _ _ _ _ _ _ _ _ _ _ _ _ _ _ _ _ _ h'
          refine ⟨_, by simp only [Except.map, hend]; rfl, ?_, ?_⟩
          · simp only at g1 g2
            exact ⟨rfl, rfl, rfl, rfl, g1, g2, rfl⟩
          · intro _
            exact ⟨by simpa [hsl] using hokI, hokF⟩

/-- **none of the digit iterators of the run over `s` stops on a separator**: the cursor after `is_consumed`'s `peek`
does not stand on one, and neither do the cursors after the integer, fraction and exponent digits -/
def NonStuck (c : Cfg) (o : POpts) (s : List Nat) : Prop :=
  ∀ neg b1 v b0, parseMantissaSign c (Bytes.new s) = .ok (neg, b1) → peek c .integer b1 = .ok (v, b0) →
    (∀ x, s[b0.index]? = some x → c.isSep x = false) ∧ IntNormal c o s b0

/-- **insert_preserves, general form**: the stripped input is accepted as a number, no run of separators directly
precedes a sign, no digit iterator of the run over `s` stops on a separator ⟹ `s` is accepted as the same number. -/
theorem parseFloatSyntax_insert_gen (c : Cfg) (o : POpts) (hG : GenStrip c o) (hresI : Rescan c .integer)
    (hresF : Rescan c .fraction) (s : List Nat) (hb256 : ∀ x ∈ s, x < 256) (hP : NoSepBeforeSign c s)
    (hNS : NonStuck c o s) (fv : Bool) (n' : Number) (cnt : Nat)
    (h : parseFloatSyntax c o false (nonSep c s) fv = .ok (.number n' cnt)) :
    ∃ n, parseFloatSyntax c o false s fv = .ok (.number n s.length) ∧ NumRel c n n' ∧ SlicesOK c n := by
  unfold parseFloatSyntax at h ⊢
  simp only [] at h ⊢
  cases hps : parseMantissaSign c (Bytes.new (nonSep c s)) with
  | error e => simp [hps, bind, Except.bind] at h
  | ok r' =>
    obtain ⟨neg, b1'⟩ := r'
    have hr0 := stripRel_new c s
    have hps' := hps
    unfold parseMantissaSign at hps'
    obtain ⟨r, h1, h2, h3, h4⟩ := parseSign_strip_rev_g c hG.rel.debug hG.sepPlus hG.sepMinus s _ _ _ _ _ _ hr0
      (hP.at _ rfl) (neg, b1') hps'
    obtain ⟨neg0, b1⟩ := r
    simp only at h2 h3 h4
    subst h2
    have hpsL : parseMantissaSign c (Bytes.new s) = .ok (neg, b1) := by unfold parseMantissaSign; exact h1
    have hv1 : Bytes.Valid b1 := by
      unfold Bytes.Valid
      have := h4 (by simp [Bytes.new])
      simp only [new_slc] at this
      rw [h3.1]; exact this
    have hic1 : b1.ic = 0 ∧ b1.fc = 0 := by
      unfold parseSign at h1
      simp only [step_release c hG.rel.debug, bind, Except.bind, pure, Except.pure] at h1
      split at h1
      · split at h1
        · simp only [Except.ok.injEq, Prod.mk.injEq] at h1; rw [← h1.2]; exact ⟨rfl, rfl⟩
        · cases h1
      · simp only [Except.ok.injEq, Prod.mk.injEq] at h1; rw [← h1.2]; exact ⟨rfl, rfl⟩
      · split at h1
        · cases h1
        · simp only [Except.ok.injEq, Prod.mk.injEq] at h1; rw [← h1.2]; exact ⟨rfl, rfl⟩
    cases hp : peek c .integer b1 with
    | error e => exact absurd ((peek_error_iff c .integer b1).mp ⟨e, hp⟩) (hG.rel.reach _)
    | ok pr =>
      obtain ⟨v, b0⟩ := pr
      obtain ⟨hN0, hIN⟩ := hNS neg b1 v b0 hpsL hp
      have hsp := peek_spec c .integer b1 b0 v hv1 hp
      have hb0s : b0.slc = s := by rw [hsp.1]; exact h3.1
      have hv0 : b0.index ≤ s.length := by
        have := hsp.2.2.2.2.2.1; unfold Bytes.Valid at this; rw [hb0s] at this; exact this
      have hr00 : StripRel c s b0 b1' := h3.skip .integer v hv1 hp
      have hN0n : Normal c b0 := by intro x hx; rw [hb0s] at hx; exact hN0 x hx
      have hget := hr00.get hN0n
      have hn1' : NoSep c b1'.slc := h3.noSep
      -- the stripped run
      simp only [hps, bind, Except.bind] at h
      unfold isConsumed at h ⊢
      simp only [hG.format, Bool.not_true, Bool.false_eq_true, if_false, bind, Except.bind,
        peek_nosep c .integer b1' hn1' (hG.rel.reach _), pure, Except.pure] at h
      simp only [hpsL, bind, Except.bind, hG.format, Bool.not_true, Bool.false_eq_true, if_false, hp, pure, Except.pure]
      have hvv : v = b1'.slc[b1'.index]? := by rw [hget, hsp.2.2.2.2.2.2]
      rw [hvv]
      cases hnone : (b1'.slc[b1'.index]?).isNone with
      | true =>
        simp only [hnone, if_true] at h
        split at h <;> simp [pure, Except.pure] at h
      | false =>
        simp only [hnone, Bool.false_eq_true, if_false] at h ⊢
        cases hcn : parseCompleteNumber c o b1' neg fv with
        | error e =>
          exfalso
          simp only [hcn] at h
          cases e with
          | err k i =>
            simp only at h
            cases hsp2 : parseSpecialComplete c o b1' with
            | error e2 => simp [hsp2] at h
            | ok sp =>
              cases sp with
              | none => simp [hsp2] at h
              | some x => simp [hsp2] at h
          | panic t => simp at h
          | fault t => simp at h
        | ok n0 =>
          simp only [hcn, Except.ok.injEq, Parsed.number.injEq] at h
          obtain ⟨rfl, _⟩ := h
          unfold parseCompleteNumber at hcn ⊢
          cases hpn : parseNumber c false o b1' neg fv with
          | error e => simp [hpn, bind, Except.bind] at hcn
          | ok rn' =>
            obtain ⟨nn', count'⟩ := rn'
            simp only [hpn, bind, Except.bind] at hcn
            split at hcn
            · next hfull =>
              simp only [pure, Except.pure, Except.ok.injEq] at hcn
              subst hcn
              have hlen' : count' = (nonSep c s).length := by
                simp only [Bytes.bufferLength, h3.2.1] at hfull; exact hfull
              obtain ⟨n, hn, hrel, hsok⟩ := number_insert_gen c o hG hresI hresF s hb256 hP b0 b1' hr00 hv0
                (by rw [hsp.2.1]; exact hic1.1) (by rw [hsp.2.2.1]; exact hic1.2) (Or.inr hN0) hIN false neg fv nn' count'
                hpn hlen'
              refine ⟨n, ?_, hrel, hsok⟩
              simp only [hn, bind, Except.bind, Bytes.bufferLength, hb0s, if_true, pure, Except.pure]
            · cases hcn

end LexVerif.Proof.Sep
