import LexVerif.Proof.GrammarMany
/-!
# Proof.GrammarComplete — `parse_complete_number` against `splitNumber` / `numberOk`
-/
namespace LexVerif.Proof.Grammar
open LexVerif LexVerif.Spec LexVerif.Model

/-- the literal the implementation's exponent accumulation denotes (`foldExponent` saturates at `0x10000000`) -/
def Parts.litSat (y : Syn) (p : Parts) : FloatLit :=
  ⟨p.sign == some true, p.ints, p.fracs, if p.hasExp then expValue y.expRadix p.expSign p.exps else 0⟩

/-- what a parsed `Number` has in common with a literal: sign, the stored digit bytes, the explicit exponent -/
structure NumberIs (n : Number) (neg : Bool) (intBytes : List Nat) (fracBytes : Option (List Nat)) (e : Int) : Prop where
  neg : n.isNegative = neg
  int : n.integer = intBytes
  frac : n.fraction = fracBytes
  exp : n.explicitExp = e

theorem tl_nil_iff (b : Bytes) (hv : b.index ≤ b.slc.length) : tl b = [] ↔ b.index = b.slc.length := by
  have := tl_length b
  constructor
  · intro h; rw [h] at this; simp at this; omega
  · intro h; apply List.eq_nil_of_length_eq_zero; omega

/-- `parse_complete_number` on a separator-free, prefix-free format (release build):
a proper error means the grammar rejects, success means the grammar derives the whole rest of the input and
the `Number` carries exactly the digits / exponent of the derivation. -/
theorem parseCompleteNumber_sound {c : Cfg} (hs : Std c) (o : POpts) (b : Bytes) (neg fv : Bool) (sign : Option Bool)
    (hb : ∀ x ∈ b.slc, x < 256) (hv : b.index ≤ b.slc.length) :
    let p := splitNumber (cfgSyn c) o sign (tl b)
    (∀ k i, parseCompleteNumber c o b neg fv = .error (.err k i) → (p.rest.isEmpty && bodyOk (cfgSyn c) p) = false) ∧
    (∀ n, parseCompleteNumber c o b neg fv = .ok n → (p.rest.isEmpty && bodyOk (cfgSyn c) p) = true ∧
      NumberIs n neg ((tl b).take p.ints.length)
        (if p.point = true then some ((((tl b).drop p.ints.length).drop 1).take p.fracs.length) else none)
        (if p.hasExp = true then expValue c.exponentRadix p.expSign p.exps else 0)) := by
  intro p
  have hpre : (cfgSyn c).pre = 0 := by rw [syn_pre]; exact hs.noprefix
  have hp : p = _ := splitNumber_stages (cfgSyn c) hpre o sign (tl b)
  rw [syn_radix] at hp
  generalize hI : takeDigits c.mantissaRadix (tl b) = I at hp
  generalize hF : splitFraction (cfgSyn c) o I.2 = F at hp
  generalize hE : splitExponent (cfgSyn c) o F.2.2 = E at hp
  generalize hS : splitSuffix (cfgSyn c) E.2.2.2 = S at hp
  have hbody := bodyOk_stages c I.1 F.2.1 F.1 E sign S.1 S.2
  rw [← hp] at hbody
  obtain ⟨h1, h2⟩ := parseNumber_spec hs o b neg fv hb hv I hI.symm F hF.symm E hE.symm S hS.symm _ rfl
  rw [← hbody] at h1 h2
  have hI2 : I.2 = (tl b).drop I.1.length := by rw [← hI]; exact takeDigits_rest _ _
  have hpf : p.ints = I.1 ∧ p.point = F.1 ∧ p.fracs = F.2.1 ∧ p.hasExp = E.1 ∧ p.expSign = E.2.1 ∧
      p.exps = E.2.2.1 ∧ p.rest = S.2 := by rw [hp]; exact ⟨rfl, rfl, rfl, rfl, rfl, rfl, rfl⟩
  obtain ⟨e1, e2, e3, e4, e5, e6, e7⟩ := hpf
  rw [e1, e2, e3, e4, e5, e6, e7]
  unfold parseCompleteNumber
  cases hbo : bodyOk (cfgSyn c) p with
  | false =>
    obtain ⟨k, i, he⟩ := h1 hbo
    constructor
    · intro _ _ _; simp
    · intro n hn; simp [he, bind, Except.bind] at hn
  | true =>
    obtain ⟨ip, fp, ep, bF, e0, hpn, hslc, hval, htl, hint, hfr, hex⟩ := h2 hbo
    rw [hI2] at hfr
    have hcount : ∀ (n : Number) (cnt : Nat), parseNumber c false o b neg fv = .ok (n, cnt) →
        cnt = bF.index ∧ NumberIs n neg ip.integerDigits fp.fraction ep.explicit := by
      intro n cnt hok
      rw [hpn] at hok
      split at hok
      · simp only [Except.ok.injEq, Prod.mk.injEq] at hok
        obtain ⟨rfl, rfl⟩ := hok
        exact ⟨rfl, ⟨rfl, rfl, rfl, rfl⟩⟩
      · have := (manyDigitsPhase_fields c o neg ip fp ep _ _ e0 bF.index).h (n, cnt) hok
        exact ⟨this.2.2.2.2, ⟨this.1, this.2.1, this.2.2.1, this.2.2.2.1⟩⟩
    have hnoerr : ∀ k i, parseNumber c false o b neg fv ≠ .error (.err k i) := by
      intro k i hne
      rw [hpn] at hne
      split at hne
      · cases hne
      · exact (manyDigitsPhase_noErr c o neg ip fp ep _ _ e0 bF.index).h k i hne
    have hlen : b.bufferLength = bF.slc.length := by rw [hslc]; rfl
    cases hres : parseNumber c false o b neg fv with
    | error e =>
      constructor
      · intro k i hh
        simp only [bind, Except.bind] at hh
        injection hh with hh
        exact (hnoerr k i (by rw [hres, hh])).elim
      · intro n hn; simp [bind, Except.bind] at hn
    | ok r =>
      obtain ⟨n, cnt⟩ := r
      obtain ⟨hc, hnum⟩ := hcount n cnt hres
      subst hc
      simp only [bind, Except.bind, hlen]
      by_cases hend : bF.index = bF.slc.length
      · have : S.2 = [] := by rw [← htl]; exact (tl_nil_iff bF hval).mpr hend
        simp only [hend, if_true, this, List.isEmpty_nil, Bool.true_and]
        constructor
        · intro k i hh; cases hh
        · intro n' hn'
          simp only [pure, Except.pure, Except.ok.injEq] at hn'
          subst hn'
          refine ⟨by simp, ?_⟩
          rw [← hint, ← hfr, ← hex]
          exact hnum
      · have : S.2 ≠ [] := by
          rw [← htl]; intro h; exact hend ((tl_nil_iff bF hval).mp h)
        have hne : S.2.isEmpty = false := by
          cases hS2 : S.2 with
          | nil => exact absurd hS2 this
          | cons _ _ => rfl
        simp only [hend, if_false, hne, Bool.false_and]
        constructor
        · intro _ _ _; trivial
        · intro n' hn'; cases hn'

theorem takeDigits_take (r : Nat) : ∀ l : List Nat,
    (takeDigits r (l.take (takeDigits r l).1.length)).1 = (takeDigits r l).1 := by
  intro l
  induction l with
  | nil => simp [takeDigits]
  | cons x xs ih =>
    cases hd : digitVal r x with
    | none => simp [takeDigits, hd]
    | some d => simp [takeDigits, hd, ih]

/-- the digit values `numberBits` reads back from a stored slice are the digits of the run it was cut from -/
theorem sliceDigits_take {c : Cfg} (hs : Std c) (k : Comp) (l : List Nat) (hl : ∀ x ∈ l, x < 256) :
    sliceDigits c k (l.take (takeDigits c.mantissaRadix l).1.length) = (takeDigits c.mantissaRadix l).1 := by
  have hn : NoSep { c with debug := false } :=
    ⟨hs.nosep.sep0, hs.nosep.int, hs.nosep.frac, hs.nosep.exp, hs.nosep.spec⟩
  obtain ⟨b', h, _⟩ := parseDigits_run hn rfl k c.mantissaRadix hs.radix
    (Bytes.new (l.take (takeDigits c.mantissaRadix l).1.length))
    (fun x hx => hl x (List.mem_of_mem_take hx))
  unfold sliceDigits
  have : tl (Bytes.new (l.take (takeDigits c.mantissaRadix l).1.length)) =
      l.take (takeDigits c.mantissaRadix l).1.length := by simp [tl, Bytes.new]
  rw [this, takeDigits_take] at h
  rw [h]
end LexVerif.Proof.Grammar
