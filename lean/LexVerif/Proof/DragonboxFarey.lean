import Mathlib.Tactic.Ring
import Mathlib.Tactic.Linarith
import Mathlib.Tactic.LinearCombination
/-!
# Proof.DragonboxFarey — "the cache is precise enough" from a pair of Farey neighbours

For a positive rational `x = a/b` and a bound `N`, let `p1/q1 ≤ x < p2/q2` be fractions with
`p2·q1 − p1·q2 = 1` and `q1 + q2 > N` (a `Cert`).  Every `n ≤ N` with `m = ⌊n·x⌋` is
`(n, m) = α·(q1, p1) − γ·(q2, p2)` with integers `α ≥ 1`, `γ ≥ 0`, hence

* `(m+1)/n ≥ p2/q2`: an approximation `ξ = c/d` with `x ≤ ξ < p2/q2` has `⌊n·ξ⌋ = ⌊n·x⌋` for all `1 ≤ n ≤ N`
  (`floor_eq`);
* `n·x − m = α·(q1·x − p1) + γ·(p2 − q2·x)`: the fractional part of `n·x` is `0` or at least
  `min` of the two neighbour distances, except for the multiples `α·q1` (`frac_ge`).

This is the argument of the Dragonbox paper (best rational approximations from below / above); the pair is
*computed* by `Proof/DragonboxExp.lean` for every binary exponent and checked by the kernel.
-/
namespace LexVerif.Proof.DragonboxFarey

structure Cert (a b N p1 q1 p2 q2 : Nat) : Prop where
  hb : 0 < b
  lo : p1 * b ≤ a * q1
  hi : a * q2 < p2 * b
  det : p2 * q1 = p1 * q2 + 1
  big : N < q1 + q2

/-- integer core: the lattice decomposition -/
theorem int_decomp {a b p1 q1 p2 q2 n m : ℤ} (hb : 0 < b) (hq1 : 0 ≤ q1) (hq2 : 0 ≤ q2)
    (_lo : p1 * b ≤ a * q1) (hi : a * q2 < p2 * b) (det : p2 * q1 = p1 * q2 + 1)
    (hn : 0 < n) (hbig : n < q1 + q2) (hm : m * b ≤ n * a) :
    1 ≤ n * p2 - m * q2 ∧ 0 ≤ n * p1 - m * q1
      ∧ n * a - m * b = (n * p2 - m * q2) * (a * q1 - p1 * b) + (n * p1 - m * q1) * (p2 * b - a * q2) := by
  have hα : 1 ≤ n * p2 - m * q2 := by
    -- m b q2 ≤ n a q2 < n p2 b
    have h1 : m * b * q2 ≤ n * a * q2 := mul_le_mul_of_nonneg_right hm hq2
    have h2 : n * (a * q2) < n * (p2 * b) := mul_lt_mul_of_pos_left hi hn
    have h3 : (m * q2) * b < (n * p2) * b := by nlinarith
    have := lt_of_mul_lt_mul_right h3 (le_of_lt hb)
    omega
  have hid : (n * p2 - m * q2) * q1 - (n * p1 - m * q1) * q2 = n := by
    have : n * p2 * q1 = n * (p1 * q2 + 1) := by rw [← det]; ring
    linear_combination this
  refine ⟨hα, ?_, ?_⟩
  · by_contra hneg
    have hβ : 1 ≤ m * q1 - n * p1 := by omega
    have e1 : q1 ≤ (n * p2 - m * q2) * q1 := by nlinarith
    have e2 : q2 ≤ (m * q1 - n * p1) * q2 := by nlinarith
    have : (n * p2 - m * q2) * q1 + (m * q1 - n * p1) * q2 = n := by linear_combination hid
    omega
  · linear_combination (b * m - a * n) * det

variable {a b N p1 q1 p2 q2 : Nat}

/-- `(⌊n·a/b⌋ + 1)/n ≥ p2/q2` -/
theorem upper (h : Cert a b N p1 q1 p2 q2) {n : Nat} (_h1 : 1 ≤ n) (hn : n ≤ N) :
    n * p2 ≤ (n * a / b + 1) * q2 := by
  by_contra hcon
  have hcon : (n * a / b + 1) * q2 < n * p2 := Nat.lt_of_not_le hcon
  have hm : n * a < (n * a / b + 1) * b := by
    rw [Nat.mul_comm _ b]; exact Nat.lt_mul_div_succ _ h.hb
  generalize n * a / b + 1 = m at *
  -- β' = m q1 − n p1 ≥ 1
  have hβ : n * p1 < m * q1 := by
    have h2 : n * p1 * b ≤ n * a * q1 := by
      calc n * p1 * b = n * (p1 * b) := by ring
        _ ≤ n * (a * q1) := Nat.mul_le_mul_left n h.lo
        _ = n * a * q1 := by ring
    have h3 : n * a * q1 ≤ m * b * q1 := Nat.mul_le_mul_right q1 (Nat.le_of_lt hm)
    have hq1 : 0 < q1 := by
      by_contra h0
      have hq : q1 = 0 := by omega
      have hdet := h.det; rw [hq] at hdet; omega
    have h4 : n * a * q1 < m * b * q1 := Nat.mul_lt_mul_of_pos_right hm hq1
    have h5 : (n * p1) * b < (m * q1) * b := by
      calc n * p1 * b ≤ n * a * q1 := h2
        _ < m * b * q1 := h4
        _ = m * q1 * b := by ring
    exact Nat.lt_of_mul_lt_mul_right h5
  have hid : (n * p2 - m * q2 : ℤ) * q1 + (m * q1 - n * p1 : ℤ) * q2 = n := by
    have hd : (p2 * q1 : ℤ) = p1 * q2 + 1 := by exact_mod_cast h.det
    linear_combination (n : ℤ) * hd
  have e1 : (q1 : ℤ) ≤ (n * p2 - m * q2 : ℤ) * q1 := by
    have : (1 : ℤ) ≤ n * p2 - m * q2 := by
      have : ((m * q2 : ℕ) : ℤ) < ((n * p2 : ℕ) : ℤ) := by exact_mod_cast hcon
      push_cast at this; omega
    nlinarith
  have e2 : (q2 : ℤ) ≤ (m * q1 - n * p1 : ℤ) * q2 := by
    have : (1 : ℤ) ≤ m * q1 - n * p1 := by
      have : ((n * p1 : ℕ) : ℤ) < ((m * q1 : ℕ) : ℤ) := by exact_mod_cast hβ
      push_cast at this; omega
    nlinarith
  have : (q1 : ℤ) + q2 ≤ n := by omega
  have : q1 + q2 ≤ n := by exact_mod_cast this
  have := h.big
  omega

/-- **floors agree**: if `a/b ≤ c/d < p2/q2` then `⌊n·c/d⌋ = ⌊n·a/b⌋` for every `1 ≤ n ≤ N` -/
theorem floor_eq (h : Cert a b N p1 q1 p2 q2) {c d : Nat} (hd : 0 < d) (hge : a * d ≤ c * b)
    (hlt : c * q2 < p2 * d) {n : Nat} (h1 : 1 ≤ n) (hn : n ≤ N) : n * c / d = n * a / b := by
  have hup := upper h h1 hn
  have hq2 : 0 < q2 := by
    by_contra h0
    have h0 : q2 = 0 := by omega
    have hdet := h.det
    have hbig := h.big
    rw [h0] at hdet hbig
    have hq1 : q1 ≤ 1 := Nat.le_of_dvd Nat.one_pos ⟨p2, by rw [Nat.mul_comm]; simpa using hdet.symm⟩
    omega
  apply Nat.le_antisymm
  · -- n c < (m+1) d
    have : n * c / d < n * a / b + 1 := by
      rw [Nat.div_lt_iff_lt_mul hd]
      have s1 : n * c * q2 < n * p2 * d := by
        calc n * c * q2 = n * (c * q2) := by ring
          _ < n * (p2 * d) := Nat.mul_lt_mul_of_pos_left hlt (Nat.lt_of_lt_of_le Nat.zero_lt_one h1)
          _ = n * p2 * d := by ring
      have s2 : n * p2 * d ≤ (n * a / b + 1) * q2 * d := Nat.mul_le_mul_right d hup
      have s3 : (n * c) * q2 < ((n * a / b + 1) * d) * q2 := by
        calc n * c * q2 < n * p2 * d := s1
          _ ≤ (n * a / b + 1) * q2 * d := s2
          _ = (n * a / b + 1) * d * q2 := by ring
      exact Nat.lt_of_mul_lt_mul_right s3
    omega
  · rw [Nat.le_div_iff_mul_le hd]
    have hm : n * a / b * b ≤ n * a := Nat.div_mul_le_self _ _
    have s : (n * a / b * d) * b ≤ (n * c) * b := by
      calc n * a / b * d * b = (n * a / b * b) * d := by ring
        _ ≤ n * a * d := Nat.mul_le_mul_right d hm
        _ = n * (a * d) := by ring
        _ ≤ n * (c * b) := Nat.mul_le_mul_left n hge
        _ = n * c * b := by ring
    exact Nat.le_of_mul_le_mul_right s h.hb

/-- **fractional parts are bounded below**: with `D1 = a·q1 − p1·b`, `D2 = p2·b − a·q2` (the two neighbour distances times
`b`), for `1 ≤ n ≤ N` the numerator `n·a mod b` of the fractional part of `n·a/b` is `0`, or `≥ D1 + D2`, or `n = α·q1` and
it equals `α·D1`. -/
theorem frac_ge (h : Cert a b N p1 q1 p2 q2) {n : Nat} (h1 : 1 ≤ n) (hn : n ≤ N) :
    (a * q1 - p1 * b) + (p2 * b - a * q2) ≤ n * a % b
      ∨ ∃ α, 1 ≤ α ∧ n = α * q1 ∧ n * a % b = α * (a * q1 - p1 * b) := by
  have hmod : n * a % b = n * a - n * a / b * b := by
    have := Nat.div_add_mod (n * a) b
    rw [Nat.mul_comm b] at this; omega
  have hm : n * a / b * b ≤ n * a := Nat.div_mul_le_self _ _
  have hbig := h.big
  obtain ⟨hα, hγ, hid⟩ := int_decomp (a := a) (b := b) (p1 := p1) (q1 := q1) (p2 := p2) (q2 := q2)
    (n := n) (m := (n * a / b : ℕ)) (by exact_mod_cast h.hb) (by positivity) (by positivity)
    (by exact_mod_cast h.lo) (by exact_mod_cast h.hi) (by exact_mod_cast h.det) (by exact_mod_cast h1)
    (by have : ((n : ℕ) : ℤ) < ((q1 + q2 : ℕ) : ℤ) := by exact_mod_cast (by omega : n < q1 + q2)
        push_cast at this; exact this)
    (by exact_mod_cast hm)
  have hD1 : ((a * q1 - p1 * b : ℕ) : ℤ) = a * q1 - p1 * b := by
    rw [Nat.cast_sub h.lo]; push_cast; ring
  have hD2 : ((p2 * b - a * q2 : ℕ) : ℤ) = p2 * b - a * q2 := by
    rw [Nat.cast_sub (Nat.le_of_lt h.hi)]; push_cast; ring
  have hfr : ((n * a % b : ℕ) : ℤ) = n * a - (n * a / b : ℕ) * b := by
    rw [hmod, Nat.cast_sub hm]; push_cast; ring
  generalize hA : (n : ℤ) * p2 - ((n * a / b : ℕ) : ℤ) * q2 = α at *
  generalize hG : (n : ℤ) * p1 - ((n * a / b : ℕ) : ℤ) * q1 = γ at *
  have hD1n : (0 : ℤ) ≤ ((a * q1 - p1 * b : ℕ) : ℤ) := by positivity
  have hD2n : (0 : ℤ) ≤ ((p2 * b - a * q2 : ℕ) : ℤ) := by positivity
  rw [← hD1, ← hD2] at hid
  rw [← hfr] at hid
  by_cases hg0 : γ = 0
  · right
    -- n = α q1, frac = α D1
    obtain ⟨αn, rfl⟩ := Int.eq_ofNat_of_zero_le (by omega : 0 ≤ α)
    refine ⟨αn, by exact_mod_cast hα, ?_, ?_⟩
    · -- identity α q1 − γ q2 = n
      have hd : (p2 * q1 : ℤ) = p1 * q2 + 1 := by exact_mod_cast h.det
      have : (αn : ℤ) * q1 - γ * q2 = n := by
        rw [← hA, ← hG]; linear_combination ((n : ℤ)) * hd
      rw [hg0] at this
      have : ((αn * q1 : ℕ) : ℤ) = n := by push_cast; linarith
      exact_mod_cast this.symm
    · rw [hg0] at hid
      have : ((n * a % b : ℕ) : ℤ) = (αn : ℤ) * ((a * q1 - p1 * b : ℕ) : ℤ) := by
        rw [hid]; ring
      exact_mod_cast this
  · left
    have hγ1 : 1 ≤ γ := by omega
    have : ((a * q1 - p1 * b : ℕ) : ℤ) + ((p2 * b - a * q2 : ℕ) : ℤ) ≤ ((n * a % b : ℕ) : ℤ) := by
      rw [hid]; nlinarith
    exact_mod_cast this

/-- **the "fractional part is tiny" test is an integrality test**: with threshold `1/H`, `frac(n·c/d) < 1/H ↔ n·a/b ∈ ℤ`
for `1 ≤ n ≤ N`, provided the approximation error is small (`hint`), the neighbour distances are not tiny (`hfrac`) and
`n` is not one of the few multiples `α·q1` with `α·D1/b < 1/H` (`hexc`) -/
theorem flag_iff (h : Cert a b N p1 q1 p2 q2) {c d H : Nat} (hd : 0 < d) (hge : a * d ≤ c * b)
    (hlt : c * q2 < p2 * d) (hint : N * (c * b - a * d) * H < d * b)
    (hfrac : b ≤ ((a * q1 - p1 * b) + (p2 * b - a * q2)) * H)
    {n : Nat} (h1 : 1 ≤ n) (hn : n ≤ N)
    (hexc : ∀ α, 1 ≤ α → n = α * q1 → 0 < a * q1 - p1 * b → b ≤ α * (a * q1 - p1 * b) * H) :
    n * c % d * H < d ↔ b ∣ n * a := by
  have hfl := floor_eq h hd hge hlt h1 hn
  have e1 := Nat.div_add_mod (n * c) d
  have e2 := Nat.div_add_mod (n * a) b
  rw [hfl] at e1
  have hb := h.hb
  have hrb : n * a % b < b := Nat.mod_lt _ hb
  have hdv : b ∣ n * a ↔ n * a % b = 0 := Nat.dvd_iff_mod_eq_zero
  have hfr := frac_ge h h1 hn
  rw [hdv]
  generalize n * c % d = R at *
  generalize n * a % b = r at *
  generalize n * a / b = m at *
  have hcb : ((c * b - a * d : ℕ) : ℤ) = c * b - a * d := by
    rw [Nat.cast_sub hge]; push_cast; ring
  have e1z : (n : ℤ) * c = d * m + R := by exact_mod_cast e1.symm
  have e2z : (n : ℤ) * a = b * m + r := by exact_mod_cast e2.symm
  have hgez : (a : ℤ) * d ≤ c * b := by exact_mod_cast hge
  constructor
  · intro hR
    by_contra hnd
    have hr : 0 < r := Nat.pos_of_ne_zero hnd
    have hrH : b ≤ r * H := by
      rcases hfr with hA | ⟨α, hα1, hαn, hαr⟩
      · exact le_trans hfrac (Nat.mul_le_mul_right H hA)
      · rw [hαr]; exact hexc α hα1 hαn (by
          rcases Nat.eq_zero_or_pos (a * q1 - p1 * b) with h0 | h0
          · rw [hαr, h0] at hr; simp at hr
          · exact h0)
    -- R b ≥ r d
    have hRb : (r : ℤ) * d ≤ R * b := by nlinarith
    have hRb' : r * d ≤ R * b := by exact_mod_cast hRb
    have : b * d ≤ R * H * b := by
      calc b * d ≤ r * H * d := Nat.mul_le_mul_right d hrH
        _ = r * d * H := by ring
        _ ≤ R * b * H := Nat.mul_le_mul_right H hRb'
        _ = R * H * b := by ring
    have hlt' : R * H * b < d * b := Nat.mul_lt_mul_of_pos_right hR hb
    have : b * d < d * b := lt_of_le_of_lt this hlt'
    rw [Nat.mul_comm] at this
    exact lt_irrefl _ this
  · intro hr0
    rw [hr0, Nat.cast_zero, add_zero] at e2z
    have hRb : (R : ℤ) * b = n * ((c * b - a * d : ℕ) : ℤ) := by
      rw [hcb]; linear_combination (-(b : ℤ)) * e1z + (d : ℤ) * e2z
    have hRb' : R * b = n * (c * b - a * d) := by exact_mod_cast hRb
    have : R * H * b < d * b := by
      calc R * H * b = R * b * H := by ring
        _ = n * (c * b - a * d) * H := by rw [hRb']
        _ ≤ N * (c * b - a * d) * H :=
            Nat.mul_le_mul_right H (Nat.mul_le_mul_right _ hn)
        _ < d * b := hint
    exact Nat.lt_of_mul_lt_mul_right this

end LexVerif.Proof.DragonboxFarey
