import LexVerif.Proof.RoundNEDecode
import Mathlib.Tactic.Ring
import Mathlib.Tactic.Linarith
import Mathlib.Tactic.FieldSimp
import Mathlib.Tactic.Positivity
import Mathlib.Algebra.Order.Field.Rat
import Mathlib.Algebra.Order.Field.Power
/-!
# Proof.RoundNE — the rational value of a bit pattern and the ℚ-level meaning of rounding cells
-/
namespace LexVerif.Proof.RoundNE
open LexVerif.Spec

/-- exact value of a finite, non-negative bit pattern: `m · 2^e` of its `decode` -/
def valQ (f : Fmt) (bits : Nat) : ℚ := ((f.decode bits).m : ℚ) * (2 : ℚ) ^ (f.decode bits).e

/-- the unit of `ival`: the smallest subnormal `2^eminLsb = 2^-L` -/
def unitQ (f : Fmt) : ℚ := (2 : ℚ) ^ (-(L f : ℤ))

theorem unitQ_pos (f : Fmt) : 0 < unitQ f := by unfold unitQ; positivity

theorem valQ_eq_ival {f : Fmt} (hf : WF f) {b : Nat} (hb : b < f.infBits) :
    valQ f b = (ival f b : ℚ) * unitQ f := by
  have hp := hf.hp
  have hbias := bias_pos hf
  unfold valQ unitQ
  rw [decode_finite hf hb]
  unfold ival
  generalize b / 2 ^ (f.p - 1) = ef
  generalize b % 2 ^ (f.p - 1) = mf
  by_cases h0 : ef = 0
  · simp only [h0, if_true]
    rw [eminLsb_eq hf]
  · simp only [h0, if_false]
    rw [Nat.cast_mul, Nat.cast_pow, Nat.cast_ofNat, mul_assoc, ← zpow_natCast (2 : ℚ) (ef - 1),
      ← zpow_add₀ (by norm_num : (2 : ℚ) ≠ 0)]
    congr 2
    unfold L
    omega

theorem num_den_eq (f : Fmt) (num : Nat) {den : Nat} (hd : 0 < den) :
    (num : ℚ) / den = ((num * 2 ^ (L f) : ℕ) : ℚ) / den * unitQ f := by
  have : (den : ℚ) ≠ 0 := by positivity
  unfold unitQ
  rw [zpow_neg, zpow_natCast]
  push_cast
  field_simp

/-! ## the cell inequalities over ℚ (in units of `2^-L`) -/

section cellQ
variable {f : Fmt} {N D r : Nat} (c : InCell f N D r) (hD : 0 < D)
include c hD

theorem InCell.lowerQ (hr : r ≠ 0) : (ival f (r - 1) : ℚ) + ival f r ≤ 2 * ((N : ℚ) / D) := by
  have h : (D : ℚ) * ((ival f (r - 1) : ℚ) + ival f r) ≤ 2 * N := by exact_mod_cast c.lower hr
  have hD' : (0 : ℚ) < D := by exact_mod_cast hD
  rw [show 2 * ((N : ℚ) / D) = (2 * N) / D by ring, le_div_iff₀ hD']; linarith

theorem InCell.upperQ (hr : r < f.infBits) : 2 * ((N : ℚ) / D) ≤ (ival f r : ℚ) + ival f (r + 1) := by
  have h : 2 * (N : ℚ) ≤ (D : ℚ) * ((ival f r : ℚ) + ival f (r + 1)) := by exact_mod_cast c.upper hr
  have hD' : (0 : ℚ) < D := by exact_mod_cast hD
  rw [show 2 * ((N : ℚ) / D) = (2 * N) / D by ring, div_le_iff₀ hD']; linarith

theorem InCell.lower_tieQ (hr : r ≠ 0) (h : (ival f (r - 1) : ℚ) + ival f r = 2 * ((N : ℚ) / D)) :
    r % 2 = 0 := by
  apply c.lower_tie hr
  have hD' : (D : ℚ) ≠ 0 := by positivity
  have : (D : ℚ) * ((ival f (r - 1) : ℚ) + ival f r) = 2 * N := by rw [h]; field_simp
  exact_mod_cast this

theorem InCell.upper_tieQ (hr : r < f.infBits) (h : 2 * ((N : ℚ) / D) = (ival f r : ℚ) + ival f (r + 1)) :
    r % 2 = 0 := by
  apply c.upper_tie hr
  have hD' : (D : ℚ) ≠ 0 := by positivity
  have : 2 * (N : ℚ) = (D : ℚ) * ((ival f r : ℚ) + ival f (r + 1)) := by rw [← h]; field_simp
  exact_mod_cast this

/-- no pattern (finite, or the fictitious ones ≥ infBits) is nearer than the cell's own -/
theorem InCell.nearest (hr : r < f.infBits) (c' : Nat) :
    |(ival f r : ℚ) - (N : ℚ) / D| ≤ |(ival f c' : ℚ) - (N : ℚ) / D| := by
  rcases Nat.lt_trichotomy c' r with h | h | h
  · have hr0 : r ≠ 0 := by omega
    have m : (ival f c' : ℚ) ≤ ival f (r - 1) := by exact_mod_cast ival_mono f (by omega)
    have m' : (ival f (r - 1) : ℚ) ≤ ival f r := by exact_mod_cast ival_mono f (by omega)
    have lo := c.lowerQ hD hr0
    exact abs_le.mpr ⟨by linarith [neg_abs_le ((ival f c' : ℚ) - (N : ℚ) / D)],
      by linarith [neg_le_abs ((ival f c' : ℚ) - (N : ℚ) / D)]⟩
  · subst h; exact le_refl _
  · have m : (ival f (r + 1) : ℚ) ≤ ival f c' := by exact_mod_cast ival_mono f (by omega)
    have m' : (ival f r : ℚ) ≤ ival f (r + 1) := by exact_mod_cast ival_mono f (by omega)
    have up := c.upperQ hD hr
    exact abs_le.mpr ⟨by linarith [le_abs_self ((ival f c' : ℚ) - (N : ℚ) / D)],
      by linarith [le_abs_self ((ival f c' : ℚ) - (N : ℚ) / D)]⟩

/-- if another pattern is equally near, the cell's own pattern is even -/
theorem InCell.tie_even (hr : r < f.infBits) (c' : Nat) (hne : c' ≠ r)
    (heq : |(ival f r : ℚ) - (N : ℚ) / D| = |(ival f c' : ℚ) - (N : ℚ) / D|) : r % 2 = 0 := by
  rcases Nat.lt_trichotomy c' r with h | h | h
  · have hr0 : r ≠ 0 := by omega
    have m : (ival f c' : ℚ) ≤ ival f (r - 1) := by exact_mod_cast ival_mono f (by omega)
    have m' : (ival f c' : ℚ) < ival f r := by exact_mod_cast ival_strictMono f h
    have lo := c.lowerQ hD hr0
    have a1 := neg_le_abs ((ival f c' : ℚ) - (N : ℚ) / D)
    apply c.lower_tieQ hD hr0
    rcases le_or_gt ((ival f r : ℚ)) ((N : ℚ) / D) with g | g
    · rw [abs_of_nonpos (by linarith)] at heq; linarith
    · rw [abs_of_pos (by linarith)] at heq; linarith
  · exact absurd h hne
  · have m : (ival f (r + 1) : ℚ) ≤ ival f c' := by exact_mod_cast ival_mono f (by omega)
    have m' : (ival f r : ℚ) < ival f c' := by exact_mod_cast ival_strictMono f h
    have up := c.upperQ hD hr
    have a1 := le_abs_self ((ival f c' : ℚ) - (N : ℚ) / D)
    apply c.upper_tieQ hD hr
    rcases le_or_gt ((N : ℚ) / D) ((ival f r : ℚ)) with g | g
    · rw [abs_of_nonneg (by linarith)] at heq; linarith
    · rw [abs_of_neg (by linarith)] at heq; linarith

end cellQ

/-! ## the overflow threshold -/

/-- IEEE overflow threshold `(2 − 2^−p)·2^emax` = largest finite + half an ulp (`emax = bias`) -/
def thrQ (f : Fmt) : ℚ := (2 - (2 : ℚ) ^ (-(f.p : ℤ))) * (2 : ℚ) ^ (f.bias : ℤ)

theorem ovf_iff_thr {f : Fmt} (hf : WF f) (num : Nat) {den : Nat} (hd : 0 < den) :
    den * (ival f (f.infBits - 1) + ival f f.infBits) ≤ 2 * (num * 2 ^ (L f)) ↔
      thrQ f ≤ (num : ℚ) / den := by
  obtain ⟨i1, i2⟩ := ival_infBits hf
  have hp := hf.hp
  have hbias := bias_pos hf
  have hM := M_eq hf
  have hCn : 2 * 2 ^ (f.maxExpField - 2) = 2 ^ f.bias * 2 ^ f.bias := by
    rw [← Nat.pow_add, ← Nat.pow_succ']; congr 1; omega
  have hUn : 2 * 2 ^ (L f) = 2 ^ f.bias * 2 ^ (f.p - 1) := by
    rw [← Nat.pow_add, ← Nat.pow_succ']; congr 1; unfold L; omega
  have hAn := two_pow_P hf
  rw [← Nat.cast_le (α := ℚ)]
  unfold thrQ
  rw [zpow_neg, zpow_natCast, zpow_natCast]
  have hA : (2 : ℚ) ^ f.p = 2 * 2 ^ (f.p - 1) := by exact_mod_cast hAn
  have hC : 2 * (2 : ℚ) ^ (f.maxExpField - 2) = 2 ^ f.bias * 2 ^ f.bias := by exact_mod_cast hCn
  have hU : 2 * (2 : ℚ) ^ (L f) = 2 ^ f.bias * 2 ^ (f.p - 1) := by exact_mod_cast hUn
  have j1 : (ival f f.infBits : ℚ) = 2 * 2 ^ (f.p - 1) * 2 ^ (f.maxExpField - 2) := by exact_mod_cast i1
  have j2 : (ival f (f.infBits - 1) : ℚ) + 2 ^ (f.maxExpField - 2)
      = 2 * 2 ^ (f.p - 1) * 2 ^ (f.maxExpField - 2) := by exact_mod_cast i2
  push_cast
  rw [hA]
  have hTpos : (0 : ℚ) < 2 ^ (f.p - 1) := by positivity
  have hBpos : (0 : ℚ) < 2 ^ f.bias := by positivity
  have hUpos : (0 : ℚ) < 2 ^ (L f) := by positivity
  generalize (2 : ℚ) ^ (f.p - 1) = T at *
  generalize (2 : ℚ) ^ f.bias = B at *
  generalize (2 : ℚ) ^ (f.maxExpField - 2) = C at *
  generalize (2 : ℚ) ^ (L f) = U at *
  generalize (ival f f.infBits : ℚ) = I1 at *
  generalize (ival f (f.infBits - 1) : ℚ) = I2 at *
  have hD : (0 : ℚ) < den := by exact_mod_cast hd
  generalize (den : ℚ) = D at *
  generalize (num : ℚ) = N at *
  have hI2 : I2 = 2 * T * C - C := by linarith
  have hC' : C = B * B / 2 := by linarith
  have hU' : U = B * T / 2 := by linarith
  have e1 : D * (I2 + I1) = (B / 2) * ((4 * T - 1) * B * D) := by rw [hI2, j1, hC']; ring
  have e2 : 2 * (N * U) = (B / 2) * (2 * T * N) := by rw [hU']; ring
  have e3 : (2 - (2 * T)⁻¹) * B * D = ((4 * T - 1) * B * D) / (2 * T) := by
    have : T ≠ 0 := ne_of_gt hTpos
    field_simp; ring
  rw [e1, e2, le_div_iff₀ hD, e3, div_le_iff₀ (by positivity), mul_le_mul_iff_right₀ (by positivity)]
  constructor <;> intro h <;> linarith

end LexVerif.Proof.RoundNE
