import LexVerif.Proof.SepFreeMany
/-!
# Proof.SepFreeMany2 — the many-digits re-parse (`manyDigitsPhase`) in closed form, for both classes
-/
set_option linter.unusedSimpArgs false
namespace LexVerif.Proof.Sep
open LexVerif LexVerif.Model LexVerif.Spec
open LexVerif.Props.C12

/-- the re-parse proper, given the number `nd` of significant digits beyond `step` -/
def manyCore (r : Nat) (scale : Int → Int) (ids : List Nat) (ipN : Nat)
    (fraction : Option (List Nat)) (fpMant : Nat) (explicit : Int) (neg : Bool) (step : Nat) (ex0 : Int)
    (endIdx : Nat) (sepMode : Bool) (nd : Nat) : Except Err (Number × Nat) :=
  if nd > 0 then
    let z' := zerosPrefix ids
    let u := u64Spec r (ids.drop z') 0 step
    if (decide (u.2.2 = 0) || (sepMode && fraction.isNone)) = true then
      .ok (⟨u.2.1, scale ((ipN : Int) - ((z' + u.1 : Nat) : Int)) + explicit, neg, true, ids, fraction, explicit⟩, endIdx)
    else
      match fraction with
      | none => .error (.panic "fraction_digits.unwrap()")
      | some fd =>
        let zf' := if u.2.1 = 0 then zerosPrefix fd else 0
        let u2 := u64Spec r (fd.drop zf') u.2.1 u.2.2
        .ok (⟨u2.2.1, scale (-((zf' + u2.1 : Nat) : Int)) + explicit, neg, true, ids, fraction, explicit⟩, endIdx)
  else .ok (⟨fpMant, ex0, neg, false, ids, fraction, explicit⟩, endIdx)

/-- the re-parse as a function of the input bytes only. `sepMode` = the `!byte.is_contiguous() && fraction.is_none()`
shortcut of the separator build is active. -/
def manyClosed (r : Nat) (scale : Int → Int) (dp : Nat) (s : List Nat) (startIdx : Nat) (ids : List Nat) (ipN : Nat)
    (fraction : Option (List Nat)) (fpMant : Nat) (explicit : Int) (neg : Bool) (nDigits step : Nat) (ex0 : Int)
    (endIdx : Nat) (sepMode : Bool) : Except Err (Number × Nat) :=
  let zi := zerosPrefix (s.drop startIdx)
  let i1 := startIdx + zi
  let i2 := if (s[i1]? == some dp) = true then i1 + 1 else i1
  let zf := zerosPrefix (s.drop i2)
  manyCore r scale ids ipN fraction fpMant explicit neg step ex0 endIdx sepMode (nDigits - step - zi - zf)

@[simp] theorem adv_first (g : Cfg) (k : Comp) (n : Nat) (b : Bytes) : (adv g k n b).first = b.slc[b.index + n]? := by
  simp [Bytes.first]

theorem new_slc (l : List Nat) : (Bytes.new l).slc = l := rfl
theorem new_index (l : List Nat) : (Bytes.new l).index = 0 := rfl

theorem manyDigits_sep (c : Cfg) (hS : SepClass c) (s : List Nat) (hn : NoSep c s) (o : POpts) (neg : Bool)
    (ip : IntPart) (fp : FracPart) (ep : ExpPart) (nDigits step : Nat) (ex0 : Int) (endIdx : Nat)
    (hs : ip.start.slc = s) (hids : NoSep c ip.integerDigits) (hfd : ∀ fd, fp.fraction = some fd → NoSep c fd) :
    manyDigitsPhase c o neg ip fp ep nDigits step ex0 endIdx =
      manyClosed c.mantissaRadix (scaleVal c) o.dp s ip.start.index ip.integerDigits ip.nDigits fp.fraction fp.mantissa
        ep.explicit neg nDigits step ex0 endIdx true := by
  have hn0 : NoSep c ip.start.slc := by rw [hs]; exact hn
  unfold manyDigitsPhase manyClosed manyCore
  rw [skipZeros_nosep c .integer hS.debug (hS.reach _) ip.start hn0, iterCount_sep c hS .integer (Or.inl rfl)]
  simp only [bind, Except.bind, Bytes.firstIsCased, adv_first, hs]
  by_cases hdp : (s[ip.start.index + zerosPrefix (List.drop ip.start.index s)]? == some o.dp) = true <;>
  simp only [hdp, if_true, Bool.false_eq_true, if_false, step_release c hS.debug, pure, Except.pure] <;>
  ( rw [skipZeros_nosep c .fraction hS.debug (hS.reach _) _ (by simpa [hs] using hn), iterCount_sep c hS .fraction (Or.inr rfl)]
    simp only [adv_slc, adv_index, hs]
    split
    · rw [skipZeros_nosep c .integer hS.debug (hS.reach _) _ (by simpa [new_slc] using hids)]
      simp only [new_slc, new_index, List.drop_zero]
      rw [parseU64_sep c .integer hS.debug (hS.reach _) hS.int _ _ _ (by simpa [new_slc] using hids)]
      simp only [adv_slc, adv_index, new_slc, new_index, Nat.zero_add, hS.format, hS.bytes, Bool.true_and, Bool.not_false]
      split
      · simp only [pure, Except.pure, Bytes.currentCount, hS.bytes, Bool.false_eq_true, if_false,
          adv_count c .integer _ _ hS.format (by decide), scaleExponent_release c hS.debug]
        simp [Bytes.new]
      · cases hfr : fp.fraction with
        | none => simp [hfr] at *
        | some fd =>
          have hnf := hfd fd hfr
          simp only
          split
          · rw [skipZeros_nosep c .fraction hS.debug (hS.reach _) _ (by simpa [new_slc] using hnf)]
            simp only [new_slc, new_index, List.drop_zero, pure, Except.pure]
            rw [parseU64_sep c .fraction hS.debug (hS.reach _) hS.frac _ _ _ (by simpa [new_slc] using hnf)]
            simp only [adv_slc, adv_index, new_slc, new_index, Nat.zero_add, Bytes.currentCount, hS.bytes,
              Bool.false_eq_true, if_false, adv_count c .fraction _ _ hS.format (by decide),
              scaleExponent_release c hS.debug, *]
            simp [Bytes.new]
          · rw [parseU64_sep c .fraction hS.debug (hS.reach _) hS.frac _ _ _ (by simpa [new_slc] using hnf)]
            simp only [adv_slc, adv_index, new_slc, new_index, Nat.zero_add, Bytes.currentCount, hS.bytes,
              Bool.false_eq_true, if_false, adv_count c .fraction _ _ hS.format (by decide),
              scaleExponent_release c hS.debug, *]
            simp [Bytes.new]
    · simp [pure, Except.pure] )

theorem currentCount_new (c : Cfg) (l : List Nat) : Bytes.currentCount c (Bytes.new l) = 0 := by
  simp [Bytes.currentCount, Bytes.new]

/-- the many-digits re-parse of **any** valid format on separator-free input, in closed form -/
theorem manyDigits_rel (c : Cfg) (hS : RelClass c) (s : List Nat) (hn : NoSep c s) (o : POpts) (neg : Bool)
    (ip : IntPart) (fp : FracPart) (ep : ExpPart) (nDigits step : Nat) (ex0 : Int) (endIdx : Nat)
    (hs : ip.start.slc = s) (hids : NoSep c ip.integerDigits) (hfd : ∀ fd, fp.fraction = some fd → NoSep c fd) :
    manyDigitsPhase c o neg ip fp ep nDigits step ex0 endIdx =
      manyClosed c.mantissaRadix (scaleVal c) o.dp s ip.start.index ip.integerDigits ip.nDigits fp.fraction fp.mantissa
        ep.explicit neg nDigits step ex0 endIdx (c.feats.format && !c.bytesContiguous) := by
  have hn0 : NoSep c ip.start.slc := by rw [hs]; exact hn
  unfold manyDigitsPhase manyClosed manyCore
  rw [skipZeros_nosep c .integer hS.debug (hS.reach _) ip.start hn0, iterCount_rel c .integer (Or.inl rfl)]
  simp only [bind, Except.bind, Bytes.firstIsCased, adv_first, hs]
  by_cases hdp : (s[ip.start.index + zerosPrefix (List.drop ip.start.index s)]? == some o.dp) = true <;>
  simp only [hdp, if_true, Bool.false_eq_true, if_false, step_release c hS.debug, pure, Except.pure] <;>
  ( rw [skipZeros_nosep c .fraction hS.debug (hS.reach _) _ (by simpa [hs] using hn), iterCount_rel c .fraction (Or.inr rfl)]
    simp only [adv_slc, adv_index, hs]
    split
    · rw [skipZeros_nosep c .integer hS.debug (hS.reach _) _ (by simpa [new_slc] using hids)]
      simp only [new_slc, new_index, List.drop_zero]
      rw [parseU64_rel c .integer hS _ _ _ (by simpa [new_slc] using hids)]
      simp only [adv_slc, adv_index, new_slc, new_index, Nat.zero_add]
      split
      · simp only [pure, Except.pure, currentCount_adv c .integer _ _ (by decide), currentCount_new,
          scaleExponent_release c hS.debug, Nat.zero_add]
      · cases hfr : fp.fraction with
        | none => simp [hfr] at *
        | some fd =>
          have hnf := hfd fd hfr
          simp only
          split
          · rw [skipZeros_nosep c .fraction hS.debug (hS.reach _) _ (by simpa [new_slc] using hnf)]
            simp only [new_slc, new_index, List.drop_zero, pure, Except.pure]
            rw [parseU64_rel c .fraction hS _ _ _ (by simpa [new_slc] using hnf)]
            simp only [adv_slc, adv_index, new_slc, new_index, Nat.zero_add,
              currentCount_adv c .fraction _ _ (by decide), currentCount_new,
              scaleExponent_release c hS.debug, *]
          · rw [parseU64_rel c .fraction hS _ _ _ (by simpa [new_slc] using hnf)]
            simp only [new_slc, new_index, Nat.zero_add, List.drop_zero,
              currentCount_adv c .fraction _ _ (by decide), currentCount_new,
              scaleExponent_release c hS.debug, *]
    · simp [pure, Except.pure] )

theorem manyDigits_plain (c : Cfg) (hP : PlainClass c) (s : List Nat) (o : POpts) (neg : Bool)
    (ip : IntPart) (fp : FracPart) (ep : ExpPart) (nDigits step : Nat) (ex0 : Int) (endIdx : Nat)
    (hs : ip.start.slc = s) :
    manyDigitsPhase c o neg ip fp ep nDigits step ex0 endIdx =
      manyClosed c.mantissaRadix (scaleVal c) o.dp s ip.start.index ip.integerDigits ip.nDigits fp.fraction fp.mantissa
        ep.explicit neg nDigits step ex0 endIdx false := by
  rw [manyDigits_rel c hP.rel s (hP.noSep _) o neg ip fp ep nDigits step ex0 endIdx hs (hP.noSep _)
    (fun _ _ => hP.noSep _)]
  simp [hP.bytes]

theorem zerosPrefix_take_le (n : Nat) (l : List Nat) : zerosPrefix (l.take n) ≤ zerosPrefix l := by
  induction l generalizing n with
  | nil => simp [zerosPrefix]
  | cons x xs ih =>
    cases n with
    | zero => simp [zerosPrefix]
    | succ k =>
      simp only [List.take_succ_cons, zerosPrefix]
      split
      · have := ih k; omega
      · omega

/-- the `fraction.is_none()` shortcut of the separator build is never what decides: when there is no fraction and
more than `step` significant digits remain, the integer re-parse uses up the whole step. -/
theorem manyClosed_mode (r : Nat) (scale : Int → Int) (dp : Nat) (s : List Nat) (startIdx : Nat) (ids : List Nat)
    (ipN : Nat) (fraction : Option (List Nat)) (fpMant : Nat) (explicit : Int) (neg : Bool) (nDigits step : Nat)
    (ex0 : Int) (endIdx : Nat) (hids : ids = (s.drop startIdx).take ipN) (hlen : ipN ≤ (s.drop startIdx).length)
    (hnd : fraction = none → nDigits = ipN) :
    manyClosed r scale dp s startIdx ids ipN fraction fpMant explicit neg nDigits step ex0 endIdx true =
      manyClosed r scale dp s startIdx ids ipN fraction fpMant explicit neg nDigits step ex0 endIdx false := by
  unfold manyClosed
  simp only
  generalize hnd' : nDigits - step - zerosPrefix (List.drop startIdx s) - zerosPrefix (List.drop
    (if (s[startIdx + zerosPrefix (List.drop startIdx s)]? == some dp) = true then
      startIdx + zerosPrefix (List.drop startIdx s) + 1 else startIdx + zerosPrefix (List.drop startIdx s)) s) = nd
  unfold manyCore
  by_cases hpos : nd > 0
  · simp only [hpos, if_true]
    cases hfr : fraction with
    | some fd => simp
    | none =>
      have hN := hnd hfr
      have hz : zerosPrefix ids ≤ zerosPrefix (s.drop startIdx) := by rw [hids]; exact zerosPrefix_take_le _ _
      have hl : ids.length = ipN := by rw [hids, List.length_take]; omega
      have hu := u64Spec_step r (List.drop (zerosPrefix ids) ids) 0 step
      have hst : (u64Spec r (List.drop (zerosPrefix ids) ids) 0 step).2.2 = 0 := by
        rw [hu.1, hu.2, List.length_drop]
        omega
      simp [hst]
  · simp only [hpos, if_false]

end LexVerif.Proof.Sep
