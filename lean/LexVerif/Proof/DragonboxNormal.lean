import LexVerif.Proof.DragonboxExact
import LexVerif.Proof.DragonboxShortest
import LexVerif.Proof.DragonboxMath

/-!
# Proof.DragonboxNormal — `compute_nearest_normal` returns a pair of the oracle `Spec.shortest`, for every input
-/
namespace LexVerif.Proof.DragonboxNormal
open LexVerif.Model.Dragonbox LexVerif.Spec LexVerif.Proof.DragonboxBits LexVerif.Proof.DragonboxExp
open LexVerif.Proof.DragonboxExact LexVerif.Proof.DragonboxSpec LexVerif.Proof.DragonboxMath

/-- the body of `compute_nearest_normal` after the cache lookup, as a function of mantissa / exponent / `minus_k` / `beta` -/
def body (t : FTy) (mantissa : Nat) (exponent minusK beta : Int) (pow5 : Nat × Nat) : Nat × Int :=
    let isEven := mantissa % 2 = 0
    let kappa := t.kappa
    let twoFc := shl64 mantissa 1
    let deltai := computeDelta t pow5 beta
    let (zi, isZInteger) := computeMul t (shl64 (twoFc ||| 1) beta) pow5
    let bigDivisor := pow32 10 (kappa.toNat + 1)
    let smallDivisor := pow32 10 kappa.toNat
    let exp := kappa.toNat + 1
    let nMax := sub64 (u64 (shl64 1 (t.mantissaSize + 1) * bigDivisor)) 1
    let significand := divideByPow10 t zi exp nMax
    let r := u32 (sub64 zi (u64 (bigDivisor * significand)))
    let (significand, r, shortCircuit) : Nat × Nat × Bool :=
      if r < deltai then
        if r = 0 ∧ ¬ isEven ∧ isZInteger then (sub64 significand 1, bigDivisor, false)
        else (significand, r, true)
      else if r > deltai then (significand, r, false)
      else
        let twoFl := sub64 twoFc 1
        if ¬ isEven ∨ exponent < t.fcPmHalfLower ∨ exponent > t.divBy5Threshold then
          let parity := (computeMulParity t twoFl pow5 beta).1
          (significand, r, parity)
        else
          let (xiParity, xIsInteger) := computeMulParity t twoFl pow5 beta
          (significand, r, ¬ (¬ xiParity ∧ ¬ xIsInteger))
    if shortCircuit then
      processTrailingZeros t significand (i32 (i32 (minusK + kappa) + 1))
    else
      let significand := u64 (significand * 10)
      let dist := u32 (sub32 r (deltai / 2) + smallDivisor / 2)
      let approxYParity : Bool := ((dist ^^^ (smallDivisor / 2)) &&& 1) != 0
      let (dist, isDistDivByKappa) := checkDivPow10 t dist
      let significand := u64 (significand + dist)
      let significand :=
        if isDistDivByKappa then
          let (yiParity, isYInteger) := computeMulParity t twoFc pow5 beta
          let roundDown := preferRoundDown significand
          if (yiParity ≠ approxYParity) ∨ (isYInteger ∧ roundDown) then sub64 significand 1 else significand
        else significand
      (significand, i32 (minusK + kappa))

theorem computeNearestNormal_eq (t : FTy) (bits : Nat) :
    computeNearestNormal t bits =
      (dragonboxPower t (i32 (-(i32 (floorLog10Pow2 (t.exponent bits) - t.kappa))))).map fun pow5 =>
        body t (t.mantissa bits) (t.exponent bits) (i32 (floorLog10Pow2 (t.exponent bits) - t.kappa))
          (i32 (t.exponent bits + floorLog2Pow10 (i32 (-(i32 (floorLog10Pow2 (t.exponent bits) - t.kappa)))))) pow5 := rfl

/-- Step 3 (small divisor) -/
def step3 (t : FTy) (deltai : Nat) (py : Bool × Bool) (significand r : Nat) (E0 : Int) : Nat × Int :=
      let smallDivisor := 10 ^ t.kappa.toNat
      let significand := u64 (significand * 10)
      let dist := u32 (sub32 r (deltai / 2) + smallDivisor / 2)
      let approxYParity : Bool := ((dist ^^^ (smallDivisor / 2)) &&& 1) != 0
      let (dist, isDistDivByKappa) := checkDivPow10 t dist
      let significand := u64 (significand + dist)
      let significand :=
        if isDistDivByKappa then
          let (yiParity, isYInteger) := py
          let roundDown := preferRoundDown significand
          if (yiParity ≠ approxYParity) ∨ (isYInteger ∧ roundDown) then sub64 significand 1 else significand
        else significand
      (significand, i32 E0)

/-- the same steps with the cache multiplications replaced by their (exact) results -/
def pureBody (t : FTy) (q : Nat) (exponent : Int) (E0 : Int) (zi deltai : Nat) (isZInteger : Bool)
    (px py : Bool × Bool) : Nat × Int :=
    let isEven := q % 2 = 0
    let bigDivisor := 10 * 10 ^ t.kappa.toNat
    let significand := zi / bigDivisor
    let r := zi % bigDivisor
    let (significand, r, shortCircuit) : Nat × Nat × Bool :=
      if r < deltai then
        if r = 0 ∧ ¬ isEven ∧ isZInteger then (sub64 significand 1, bigDivisor, false)
        else (significand, r, true)
      else if r > deltai then (significand, r, false)
      else
        if ¬ isEven ∨ exponent < t.fcPmHalfLower ∨ exponent > t.divBy5Threshold then
          let parity := px.1
          (significand, r, parity)
        else
          let (xiParity, xIsInteger) := px
          (significand, r, ¬ (¬ xiParity ∧ ¬ xIsInteger))
    if shortCircuit then
      processTrailingZeros t significand (i32 (i32 E0 + 1))
    else
      step3 t deltai py significand r E0

theorem pow32_big (t : FTy) : pow32 10 (t.kappa.toNat + 1) = 10 * 10 ^ t.kappa.toNat := by cases t <;> decide
theorem pow32_small (t : FTy) : pow32 10 t.kappa.toNat = 10 ^ t.kappa.toNat := by cases t <;> decide

theorem div_big (t : FTy) {zi : Nat} (h : zi < 2 ^ prec t * (10 * 10 ^ t.kappa.toNat)) :
    divideByPow10 t zi (t.kappa.toNat + 1)
      (sub64 (u64 (shl64 1 (t.mantissaSize + 1) * pow32 10 (t.kappa.toNat + 1))) 1)
      = zi / (10 * 10 ^ t.kappa.toNat) := by
  cases t
  · have h' : zi < 2 ^ 24 * 100 := h
    exact LexVerif.Proof.DragonboxArith.divideByPow10_f32 (by omega) _
  · have h' : zi < 2 ^ 53 * 1000 := h
    have e : sub64 (u64 (shl64 1 (FTy.f64.mantissaSize + 1) * pow32 10 (FTy.f64.kappa.toNat + 1))) 1
        = 2 ^ 53 * 1000 - 1 := by decide
    rw [e]
    exact LexVerif.Proof.DragonboxArith.divideByPow10_f64 (by omega)

theorem rem_big {zi B : Nat} (hz : zi < 2 ^ 64) (hB : B < 2 ^ 32) (hB0 : 0 < B) :
    u32 (sub64 zi (u64 (B * (zi / B)))) = zi % B := by
  have h1 : B * (zi / B) ≤ zi := Nat.mul_div_le zi B
  have h2 := Nat.div_add_mod zi B
  have h3 := Nat.mod_lt zi hB0
  unfold u64
  rw [Nat.mod_eq_of_lt (by omega), sub64_eq h1 hz]
  unfold u32
  rw [Nat.mod_eq_of_lt (by omega)]
  omega

variable {t : FTy} {e : Int} {d : ExpData}

theorem nLo_le {q : Nat} (hq1 : 1 ≤ q) (hqn : e ≠ t.denormalExponent → 2 ^ (prec t - 1) ≤ q) :
    nLo t e ≤ 2 * q - 1 := by
  unfold nLo
  split
  · omega
  · rename_i hne
    have := hqn hne
    have e2 : 2 ^ prec t = 2 * 2 ^ (prec t - 1) := by cases t <;> decide
    omega

theorem not_exc_odd (F : Facts t e d) {n : Nat} (h : n % 2 = 1) : n ∉ excNs t e d := by
  intro hm
  have := (F.hexc n hm).1
  omega

theorem not_exc_even (F : Facts t e d) {q : Nat} (h : (e, q) ∉ excFloats t) : 2 * q ∉ excNs t e d := by
  intro hm
  have := (F.hexc _ hm).2
  rw [Nat.mul_div_cancel_left q (by decide : 0 < 2)] at this
  exact h this

theorem body_eq_pure (F : Facts t e d) {q : Nat} (hq1 : 1 ≤ q) (hq2 : q < 2 ^ prec t)
    (hqn : e ≠ t.denormalExponent → 2 ^ (prec t - 1) ≤ q) (hexc : (e, q) ∉ excFloats t) :
    body t q e d.minusK (d.beta : Int) d.pow5
      = pureBody t q e (d.minusK + t.kappa) ((2 * q + 1) * d.a / d.b) (2 * d.a / d.b)
          (decide (d.b ∣ (2 * q + 1) * d.a))
          (decide ((2 * q - 1) * d.a / d.b % 2 = 1), decide (d.b ∣ (2 * q - 1) * d.a))
          (decide (2 * q * d.a / d.b % 2 = 1), decide (d.b ∣ 2 * q * d.a)) := by
  have hN : 2 ^ (prec t + 1) = 2 * 2 ^ prec t := by rw [Nat.pow_succ]; ring
  have hlo := nLo_le hq1 hqn
  have h54 : (2 : Nat) ^ (prec t + 1) ≤ 2 ^ 54 := Nat.pow_le_pow_right (by decide) (prec_le t)
  have h54' : (2 : Nat) ^ 54 < 2 ^ 64 := by decide
  have hβ63 : d.beta ≤ 63 := by have := F.hb.2.1; omega
  have hu : (2 * q + 1) * 2 ^ d.beta < 2 ^ 64 := by
    have h1 : (2 * q + 1) * 2 ^ d.beta < 2 ^ (prec t + 1) * 2 ^ d.beta :=
      Nat.mul_lt_mul_of_pos_right (by omega) (Nat.two_pow_pos _)
    have h2 := F.hb.2.2
    have h3 : (2 : Nat) ^ (t.qb / 2) ≤ 2 ^ 64 := by cases t <;> decide
    omega
  have e1 : shl64 q 1 = 2 * q := shl64_one (by omega)
  have e2 : shl64 (shl64 q 1 ||| 1) (d.beta : Int) = (2 * q + 1) * 2 ^ d.beta := twoFc_or_one hβ63 hu
  have e3 := mul_exact F (n := 2 * q + 1) (by omega) (by omega) (by omega) (not_exc_odd F (by omega))
  have e4 := delta_exact F
  have e5 : sub64 (2 * q) 1 = 2 * q - 1 := sub64_one (by omega) (by omega)
  have e6 := parity_exact F (n := 2 * q - 1) (by omega) (by omega) hlo (not_exc_odd F (by omega))
  have e7 := parity_exact F (n := 2 * q) (by omega) (by omega) (by omega) (not_exc_even F hexc)
  -- bound on zi
  have hzi : (2 * q + 1) * d.a / d.b < 2 ^ prec t * (10 * 10 ^ t.kappa.toNat) := by
    rw [Nat.div_lt_iff_lt_mul F.hcert.1]
    have hd := F.hdelta.2
    -- (2q+1) a < (2q+1) 5T b ≤ 2^p 10 T b
    have h1 : 2 * ((2 * q + 1) * d.a) < (2 * q + 1) * (10 * 10 ^ t.kappa.toNat * d.b) := by
      calc 2 * ((2 * q + 1) * d.a) = (2 * q + 1) * (2 * d.a) := by ring
        _ < (2 * q + 1) * (10 * 10 ^ t.kappa.toNat * d.b) := Nat.mul_lt_mul_of_pos_left hd (by omega)
    have h2 : (2 * q + 1) * (10 * 10 ^ t.kappa.toNat * d.b) ≤ (2 * 2 ^ prec t) * (10 * 10 ^ t.kappa.toNat * d.b) :=
      Nat.mul_le_mul_right _ (by omega)
    have h3 : 2 * (2 ^ prec t * (10 * 10 ^ t.kappa.toNat) * d.b) = (2 * 2 ^ prec t) * (10 * 10 ^ t.kappa.toNat * d.b) := by
      ring
    omega
  have hzi64 : (2 * q + 1) * d.a / d.b < 2 ^ 64 := by
    have : 2 ^ prec t * (10 * 10 ^ t.kappa.toNat) < 2 ^ 64 := by cases t <;> decide
    omega
  have hB32 : 10 * 10 ^ t.kappa.toNat < 2 ^ 32 := by cases t <;> decide
  have hB0 : 0 < 10 * 10 ^ t.kappa.toNat := by cases t <;> decide
  rw [e1] at e2
  have hdiv := div_big t hzi
  rw [pow32_big] at hdiv
  unfold body pureBody step3
  simp only [e1, e2, e3, e4, e5, e6, e7, pow32_big, pow32_small, hdiv, rem_big hzi64 hB32 hB0]

theorem check_div (t : FTy) {n : Nat} (h : n ≤ 10 * 10 ^ t.kappa.toNat) :
    checkDivPow10 t n = (n / 10 ^ t.kappa.toNat, decide (n % 10 ^ t.kappa.toNat = 0)) := by
  cases t
  · have h' : n ≤ 100 := h
    exact LexVerif.Proof.DragonboxArith.checkDivPow10_f32 n (List.mem_range.mpr (by omega))
  · have h' : n ≤ 1000 := h
    exact LexVerif.Proof.DragonboxArith.checkDivPow10_f64 n (List.mem_range.mpr (by omega))

theorem xor_and_one (x y : Nat) : (x ^^^ y) &&& 1 = (x + y) % 2 := by
  rw [Nat.and_one_is_mod]
  have h := Nat.xor_mod_two_pow (a := x) (b := y) (n := 1)
  simp only [Nat.pow_one] at h
  rw [h, Nat.add_mod x y 2]
  rcases Nat.mod_two_eq_zero_or_one x with hx | hx <;> rcases Nat.mod_two_eq_zero_or_one y with hy | hy <;>
    rw [hx, hy] <;> rfl

/-- Step 3 returns a nearest multiple of `10^κ` to the centre -/
theorem step3_correct {a b q : Nat} (S : Setup a b (10 ^ t.kappa.toNat) q) (s' r' : Nat) (E0 : Int)
    (hz : (2 * q + 1) * a / b = s' * (10 * 10 ^ t.kappa.toNat) + r')
    (h1 : 2 * a / b ≤ r') (h2 : r' ≤ 10 * 10 ^ t.kappa.toNat) (hs : s' < 2 ^ 56) :
    ∃ D, step3 t (2 * a / b) (decide (2 * q * a / b % 2 = 1), decide (b ∣ 2 * q * a)) s' r' E0 = (D, i32 E0)
      ∧ Close a b (10 ^ t.kappa.toNat) q D := by
  obtain ⟨hh, hdist, ca, cb, cc⟩ := small_step S s' r' hz h1 h2
  have hT := S.hT
  generalize hTd : 10 ^ t.kappa.toNat = T at *
  have hr32 : r' < 2 ^ 32 := by rcases hT with rfl | rfl <;> omega
  have e1 : u64 (s' * 10) = s' * 10 := by unfold u64; exact Nat.mod_eq_of_lt (by omega)
  have e2 : sub32 r' (2 * a / b / 2) = r' - 2 * a / b / 2 := sub32_eq hh hr32
  have e3 : u32 (r' - 2 * a / b / 2 + T / 2) = r' - 2 * a / b / 2 + T / 2 := by
    unfold u32; exact Nat.mod_eq_of_lt (by rcases hT with rfl | rfl <;> omega)
  have e4 := check_div t (n := r' - 2 * a / b / 2 + T / 2) (by rw [hTd]; exact hdist)
  rw [hTd] at e4
  have hD64a : s' * 10 + (r' - 2 * a / b / 2 + T / 2) / T < 2 ^ 64 := by
    have : (r' - 2 * a / b / 2 + T / 2) / T ≤ 10 := by
      rcases hT with rfl | rfl <;> omega
    omega
  have e5 : u64 (s' * 10 + (r' - 2 * a / b / 2 + T / 2) / T) = s' * 10 + (r' - 2 * a / b / 2 + T / 2) / T := by
    unfold u64; exact Nat.mod_eq_of_lt hD64a
  have hcomm : s' * 10 + (r' - 2 * a / b / 2 + T / 2) / T = 10 * s' + (r' - 2 * a / b / 2 + T / 2) / T := by omega
  unfold step3
  simp only [hTd, e1, e2, e3, e4, e5, xor_and_one]
  rw [hcomm] at *
  generalize hD0 : 10 * s' + (r' - 2 * a / b / 2 + T / 2) / T = D0 at *
  have hD64 : D0 < 2 ^ 64 := by omega
  by_cases hdiv : (r' - 2 * a / b / 2 + T / 2) % T = 0
  · simp only [hdiv, decide_true, if_true]
    by_cases hpar : 2 * q * a / b % 2 = (r' - 2 * a / b / 2 + T / 2 + T / 2) % 2
    · obtain ⟨c1, c2⟩ := cc hdiv hpar
      by_cases hcond : (decide (2 * q * a / b % 2 = 1) ≠ ((r' - 2 * a / b / 2 + T / 2 + T / 2) % 2 != 0))
          ∨ (decide (b ∣ 2 * q * a) = true ∧ preferRoundDown D0 = true)
      · rw [if_pos hcond]
        rcases hcond with hne | ⟨hint, _⟩
        · exfalso; apply hne
          rcases Nat.mod_two_eq_zero_or_one (2 * q * a / b) with h0 | h0 <;> rw [h0] at hpar <;>
            rw [h0, ← hpar] <;> decide
        · obtain ⟨d1, d2⟩ := c2 (by simpa using hint)
          exact ⟨D0 - 1, by rw [sub64_one d1 hD64], d2⟩
      · rw [if_neg hcond]; exact ⟨D0, rfl, c1⟩
    · obtain ⟨d1, d2⟩ := cb hdiv hpar
      have hcond : (decide (2 * q * a / b % 2 = 1) ≠ ((r' - 2 * a / b / 2 + T / 2 + T / 2) % 2 != 0))
          ∨ (decide (b ∣ 2 * q * a) = true ∧ preferRoundDown D0 = true) := by
        left
        rcases Nat.mod_two_eq_zero_or_one (2 * q * a / b) with h0 | h0 <;>
          rcases Nat.mod_two_eq_zero_or_one (r' - 2 * a / b / 2 + T / 2 + T / 2) with h1' | h1' <;>
          rw [h0, h1'] at hpar <;> rw [h0, h1'] <;> simp at hpar ⊢
      rw [if_pos hcond]
      exact ⟨D0 - 1, by rw [sub64_one d1 hD64], d2⟩
  · simp only [hdiv, decide_false, Bool.false_eq_true, if_false]
    exact ⟨D0, rfl, ca hdiv⟩

/-- `D·10^(κ+1)` lies in the rounding interval (closed iff the significand is even) -/
def BigCand (a b T q D : Nat) : Prop :=
  1 ≤ D ∧ (2 * q - 1) * a ≤ D * (10 * T) * b ∧ D * (10 * T) * b ≤ (2 * q + 1) * a
    ∧ (q % 2 = 1 → (2 * q - 1) * a < D * (10 * T) * b ∧ D * (10 * T) * b < (2 * q + 1) * a)

theorem pure_correct {a b q : Nat} (S : Setup a b (10 ^ t.kappa.toNat) q) (e E0 : Int) (hq2 : q < 2 ^ prec t)
    (hwin : (e < t.fcPmHalfLower ∨ e > t.divBy5Threshold) → ¬ b ∣ (2 * q - 1) * a) :
    (∃ s, BigCand a b (10 ^ t.kappa.toNat) q s ∧ (∀ D, BigCand a b (10 ^ t.kappa.toNat) q D → D = s) ∧ s < 2 ^ prec t
        ∧ pureBody t q e E0 ((2 * q + 1) * a / b) (2 * a / b) (decide (b ∣ (2 * q + 1) * a))
            (decide ((2 * q - 1) * a / b % 2 = 1), decide (b ∣ (2 * q - 1) * a))
            (decide (2 * q * a / b % 2 = 1), decide (b ∣ 2 * q * a))
          = processTrailingZeros t s (i32 (i32 E0 + 1)))
    ∨ (∃ D, (∀ D', ¬ BigCand a b (10 ^ t.kappa.toNat) q D') ∧ Close a b (10 ^ t.kappa.toNat) q D
        ∧ pureBody t q e E0 ((2 * q + 1) * a / b) (2 * a / b) (decide (b ∣ (2 * q + 1) * a))
            (decide ((2 * q - 1) * a / b % 2 = 1), decide (b ∣ (2 * q - 1) * a))
            (decide (2 * q * a / b % 2 = 1), decide (b ∣ 2 * q * a))
          = (D, i32 E0)) := by
  have hzb := zi_bound S hq2
  have huniq := big_unique S
  obtain ⟨hδ1, hδ2⟩ := delta_bounds S
  have hT := S.hT
  have hp56 : 2 ^ prec t * (10 * 10 ^ t.kappa.toNat) < 2 ^ 56 * (10 * 10 ^ t.kappa.toNat) := by cases t <;> decide
  have hs3 := fun s' r' => step3_correct (t := t) S s' r' E0
  generalize hTd : 10 ^ t.kappa.toNat = T at *
  have hB0 : 0 < 10 * T := by rcases hT with rfl | rfl <;> decide
  have hdm := Nat.div_add_mod ((2 * q + 1) * a / b) (10 * T)
  have hrB := Nat.mod_lt ((2 * q + 1) * a / b) hB0
  have hsp : (2 * q + 1) * a / b / (10 * T) < 2 ^ prec t := by
    rw [Nat.div_lt_iff_lt_mul hB0]; omega
  have hs56 : (2 * q + 1) * a / b / (10 * T) < 2 ^ 56 := by
    rw [Nat.div_lt_iff_lt_mul hB0]; omega
  -- every candidate is `s`
  have hall : ∀ D, BigCand a b T q D → D = (2 * q + 1) * a / b / (10 * T) := by
    intro D hD
    by_contra hne
    rcases huniq D hne with h | h
    · exact absurd hD.2.1 (Nat.not_le.mpr h)
    · exact absurd hD.2.2.1 (Nat.not_le.mpr h)
  have hnone : ¬ BigCand a b T q ((2 * q + 1) * a / b / (10 * T)) → ∀ D', ¬ BigCand a b T q D' := by
    intro hn D' hD'
    exact hn (hall D' hD' ▸ hD')
  unfold pureBody
  simp only [hTd]
  by_cases c1 : (2 * q + 1) * a / b % (10 * T) < 2 * a / b
  · obtain ⟨hs1, hlo, hhi, heq⟩ := big_lt S c1
    simp only [c1, if_true]
    by_cases c2 : (2 * q + 1) * a / b % (10 * T) = 0 ∧ ¬ q % 2 = 0 ∧ decide (b ∣ (2 * q + 1) * a) = true
    · -- right endpoint excluded
      right
      simp only [c2, not_false_eq_true, and_self, if_true]
      have hsub : sub64 ((2 * q + 1) * a / b / (10 * T)) 1 = (2 * q + 1) * a / b / (10 * T) - 1 :=
        sub64_one hs1 (by omega)
      obtain ⟨D, hD, hC⟩ := hs3 ((2 * q + 1) * a / b / (10 * T) - 1) (10 * T)
        (by have := c2.1; generalize (2 * q + 1) * a / b / (10 * T) = s at *
            have : (s - 1) * (10 * T) = s * (10 * T) - 10 * T := by rw [Nat.sub_mul, Nat.one_mul]
            have : 1 * (10 * T) ≤ s * (10 * T) := Nat.mul_le_mul_right _ hs1
            rw [Nat.mul_comm (10 * T) s] at hdm
            omega)
        (by omega) (by omega) (by omega)
      refine ⟨D, hnone ?_, hC, ?_⟩
      · intro hc
        have hodd : q % 2 = 1 := by have := c2.2.1; omega
        have := (hc.2.2.2 hodd).2
        have := heq.mpr ⟨c2.1, by simpa using c2.2.2⟩
        omega
      · rw [hsub]; simpa using hD
    · left
      simp only [c2, if_false]
      refine ⟨_, ⟨hs1, Nat.le_of_lt hlo, hhi, fun hodd => ⟨hlo, ?_⟩⟩, hall, hsp, rfl⟩
      apply Nat.lt_of_le_of_ne hhi
      intro he
      obtain ⟨h0, hdv⟩ := heq.mp he
      exact c2 ⟨h0, by omega, by simpa using hdv⟩
  · simp only [c1, if_false]
    by_cases c3 : (2 * q + 1) * a / b % (10 * T) > 2 * a / b
    · right
      simp only [c3, if_true]
      have hgt := big_gt S c3
      obtain ⟨D, hD, hC⟩ := hs3 ((2 * q + 1) * a / b / (10 * T))
        ((2 * q + 1) * a / b % (10 * T))
        (by rw [Nat.mul_comm _ (10 * T)]; exact hdm.symm)
        (by omega) (by omega) hs56
      refine ⟨D, hnone ?_, hC, by simpa using hD⟩
      intro hc
      exact absurd hc.2.1 (Nat.not_le.mpr hgt)
    · have c4 : (2 * q + 1) * a / b % (10 * T) = 2 * a / b := by omega
      obtain ⟨hs1, hhi, hodd, heven⟩ := big_eq S c4
      simp only [c3, if_false]
      -- the step-3 alternative, used in several sub-cases
      have hstep : ¬ BigCand a b T q ((2 * q + 1) * a / b / (10 * T)) →
          ∃ D, (∀ D', ¬ BigCand a b T q D') ∧ Close a b T q D ∧
            step3 t (2 * a / b) (decide (2 * q * a / b % 2 = 1), decide (b ∣ 2 * q * a))
              ((2 * q + 1) * a / b / (10 * T)) ((2 * q + 1) * a / b % (10 * T)) E0 = (D, i32 E0) := by
        intro hn
        obtain ⟨D, hD, hC⟩ := hs3 ((2 * q + 1) * a / b / (10 * T))
          ((2 * q + 1) * a / b % (10 * T))
          (by rw [Nat.mul_comm _ (10 * T)]; exact hdm.symm)
          (by omega) (by omega) hs56
        exact ⟨D, hnone hn, hC, hD⟩
      have hcand_odd : (2 * q - 1) * a / b % 2 = 1 → BigCand a b T q ((2 * q + 1) * a / b / (10 * T)) :=
        fun hx => ⟨hs1, Nat.le_of_lt (hodd hx), Nat.le_of_lt hhi, fun _ => ⟨hodd hx, hhi⟩⟩
      by_cases cw : ¬ q % 2 = 0 ∨ e < t.fcPmHalfLower ∨ e > t.divBy5Threshold
      · simp only [cw, if_true]
        by_cases hx : (2 * q - 1) * a / b % 2 = 1
        · left
          simp only [hx, decide_true, if_true]
          exact ⟨_, hcand_odd hx, hall, hsp, rfl⟩
        · right
          simp only [hx, decide_false, Bool.false_eq_true, if_false]
          obtain ⟨hle, hiff⟩ := heven (by omega)
          obtain ⟨D, h1, h2, h3⟩ := hstep (by
            intro hc
            rcases cw with hq | hw
            · have := (hc.2.2.2 (by omega)).1; omega
            · have hnd := hwin hw
              have : (2 * q + 1) * a / b / (10 * T) * (10 * T) * b ≠ (2 * q - 1) * a := fun he => hnd (hiff.mp he)
              have := hc.2.1
              omega)
          exact ⟨D, h1, h2, h3⟩
      · simp only [cw, if_false]
        have hqe : q % 2 = 0 := by
          by_contra hq; exact cw (Or.inl hq)
        by_cases hx : (2 * q - 1) * a / b % 2 = 1
        · left
          simp only [hx, decide_true]
          rw [show (decide ¬(¬True ∧ ¬decide (b ∣ (2 * q - 1) * a) = true)) = true from by simp]
          simp only [if_true]
          exact ⟨_, hcand_odd hx, hall, hsp, rfl⟩
        · obtain ⟨hle, hiff⟩ := heven (by omega)
          by_cases hxi : b ∣ (2 * q - 1) * a
          · left
            simp only [hx, hxi, decide_false, decide_true]
            rw [show (decide ¬(¬false = true ∧ ¬True)) = true from by decide]
            simp only [if_true]
            refine ⟨_, ⟨hs1, ?_, Nat.le_of_lt hhi, fun ho => by omega⟩, hall, hsp, rfl⟩
            exact Nat.le_of_eq (hiff.mpr hxi).symm
          · right
            simp only [hx, hxi, decide_false]
            rw [show (decide ¬(¬false = true ∧ ¬false = true)) = false from by decide]
            simp only [Bool.false_eq_true, if_false]
            obtain ⟨D, h1, h2, h3⟩ := hstep (by
              intro hc
              have : (2 * q + 1) * a / b / (10 * T) * (10 * T) * b ≠ (2 * q - 1) * a := fun he => hxi (hiff.mp he)
              have := hc.2.1
              omega)
            exact ⟨D, h1, h2, h3⟩

end LexVerif.Proof.DragonboxNormal
