import LexVerif.Proof.DragonboxExact
import LexVerif.Proof.DragonboxShortest

/-!
# Proof.DragonboxNormal — `compute_nearest_normal` returns a pair of the oracle `Spec.shortest`, for every input
-/
namespace LexVerif.Proof.DragonboxNormal
open LexVerif.Model.Dragonbox LexVerif.Spec LexVerif.Proof.DragonboxBits LexVerif.Proof.DragonboxExp
open LexVerif.Proof.DragonboxExact LexVerif.Proof.DragonboxSpec

/-- the body of `compute_nearest_normal` after the cache lookup, as a function of mantissa / exponent / `minus_k` / `beta` -/
def body (t : FTy) (mantissa : Nat) (exponent minusK beta : Int) (pow5 : Nat × Nat) : Nat × Int :=
    let isEven := mantissa % 2 = 0
    let kappa := t.kappa
    let twoFc := shl64 mantissa 1
    let deltai := computeDelta t pow5 beta
    let (zi, isZInteger) := computeMul t (shl64 (twoFc ||| 1) beta) pow5
    let bigDivisor := pow32 10 (kappa.toNat + 1)
    let smallDivisor := pow32 10 kappa.toNat
    let exp := kappa.toNat + 1
    let nMax := sub64 (u64 (shl64 1 (t.mantissaSize + 1) * bigDivisor)) 1
    let significand := divideByPow10 t zi exp nMax
    let r := u32 (sub64 zi (u64 (bigDivisor * significand)))
    let (significand, r, shortCircuit) : Nat × Nat × Bool :=
      if r < deltai then
        if r = 0 ∧ ¬ isEven ∧ isZInteger then (sub64 significand 1, bigDivisor, false)
        else (significand, r, true)
      else if r > deltai then (significand, r, false)
      else
        let twoFl := sub64 twoFc 1
        if ¬ isEven ∨ exponent < t.fcPmHalfLower ∨ exponent > t.divBy5Threshold then
          let parity := (computeMulParity t twoFl pow5 beta).1
          (significand, r, parity)
        else
          let (xiParity, xIsInteger) := computeMulParity t twoFl pow5 beta
          (significand, r, ¬ (¬ xiParity ∧ ¬ xIsInteger))
    if shortCircuit then
      processTrailingZeros t significand (i32 (i32 (minusK + kappa) + 1))
    else
      let significand := u64 (significand * 10)
      let dist := u32 (sub32 r (deltai / 2) + smallDivisor / 2)
      let approxYParity : Bool := ((dist ^^^ (smallDivisor / 2)) &&& 1) != 0
      let (dist, isDistDivByKappa) := checkDivPow10 t dist
      let significand := u64 (significand + dist)
      let significand :=
        if isDistDivByKappa then
          let (yiParity, isYInteger) := computeMulParity t twoFc pow5 beta
          let roundDown := preferRoundDown significand
          if (yiParity ≠ approxYParity) ∨ (isYInteger ∧ roundDown) then sub64 significand 1 else significand
        else significand
      (significand, i32 (minusK + kappa))

theorem computeNearestNormal_eq (t : FTy) (bits : Nat) :
    computeNearestNormal t bits =
      (dragonboxPower t (i32 (-(i32 (floorLog10Pow2 (t.exponent bits) - t.kappa))))).map fun pow5 =>
        body t (t.mantissa bits) (t.exponent bits) (i32 (floorLog10Pow2 (t.exponent bits) - t.kappa))
          (i32 (t.exponent bits + floorLog2Pow10 (i32 (-(i32 (floorLog10Pow2 (t.exponent bits) - t.kappa)))))) pow5 := rfl

/-- the same steps with the cache multiplications replaced by their (exact) results -/
def pureBody (t : FTy) (q : Nat) (exponent : Int) (E0 : Int) (zi deltai : Nat) (isZInteger : Bool)
    (px py : Bool × Bool) : Nat × Int :=
    let isEven := q % 2 = 0
    let bigDivisor := 10 * 10 ^ t.kappa.toNat
    let smallDivisor := 10 ^ t.kappa.toNat
    let significand := zi / bigDivisor
    let r := zi % bigDivisor
    let (significand, r, shortCircuit) : Nat × Nat × Bool :=
      if r < deltai then
        if r = 0 ∧ ¬ isEven ∧ isZInteger then (sub64 significand 1, bigDivisor, false)
        else (significand, r, true)
      else if r > deltai then (significand, r, false)
      else
        if ¬ isEven ∨ exponent < t.fcPmHalfLower ∨ exponent > t.divBy5Threshold then
          let parity := px.1
          (significand, r, parity)
        else
          let (xiParity, xIsInteger) := px
          (significand, r, ¬ (¬ xiParity ∧ ¬ xIsInteger))
    if shortCircuit then
      processTrailingZeros t significand (i32 (i32 E0 + 1))
    else
      let significand := u64 (significand * 10)
      let dist := u32 (sub32 r (deltai / 2) + smallDivisor / 2)
      let approxYParity : Bool := ((dist ^^^ (smallDivisor / 2)) &&& 1) != 0
      let (dist, isDistDivByKappa) := checkDivPow10 t dist
      let significand := u64 (significand + dist)
      let significand :=
        if isDistDivByKappa then
          let (yiParity, isYInteger) := py
          let roundDown := preferRoundDown significand
          if (yiParity ≠ approxYParity) ∨ (isYInteger ∧ roundDown) then sub64 significand 1 else significand
        else significand
      (significand, i32 E0)

theorem pow32_big (t : FTy) : pow32 10 (t.kappa.toNat + 1) = 10 * 10 ^ t.kappa.toNat := by cases t <;> decide
theorem pow32_small (t : FTy) : pow32 10 t.kappa.toNat = 10 ^ t.kappa.toNat := by cases t <;> decide

theorem div_big (t : FTy) {zi : Nat} (h : zi < 2 ^ prec t * (10 * 10 ^ t.kappa.toNat)) :
    divideByPow10 t zi (t.kappa.toNat + 1)
      (sub64 (u64 (shl64 1 (t.mantissaSize + 1) * pow32 10 (t.kappa.toNat + 1))) 1)
      = zi / (10 * 10 ^ t.kappa.toNat) := by
  cases t
  · have h' : zi < 2 ^ 24 * 100 := h
    exact LexVerif.Proof.DragonboxArith.divideByPow10_f32 (by omega) _
  · have h' : zi < 2 ^ 53 * 1000 := h
    have e : sub64 (u64 (shl64 1 (FTy.f64.mantissaSize + 1) * pow32 10 (FTy.f64.kappa.toNat + 1))) 1
        = 2 ^ 53 * 1000 - 1 := by decide
    rw [e]
    exact LexVerif.Proof.DragonboxArith.divideByPow10_f64 (by omega)

theorem rem_big {zi B : Nat} (hz : zi < 2 ^ 64) (hB : B < 2 ^ 32) (hB0 : 0 < B) :
    u32 (sub64 zi (u64 (B * (zi / B)))) = zi % B := by
  have h1 : B * (zi / B) ≤ zi := Nat.mul_div_le zi B
  have h2 := Nat.div_add_mod zi B
  have h3 := Nat.mod_lt zi hB0
  unfold u64
  rw [Nat.mod_eq_of_lt (by omega), sub64_eq h1 hz]
  unfold u32
  rw [Nat.mod_eq_of_lt (by omega)]
  omega

variable {t : FTy} {e : Int} {d : ExpData}

theorem nLo_le {q : Nat} (hq1 : 1 ≤ q) (hqn : e ≠ t.denormalExponent → 2 ^ (prec t - 1) ≤ q) :
    nLo t e ≤ 2 * q - 1 := by
  unfold nLo
  split
  · omega
  · rename_i hne
    have := hqn hne
    have e2 : 2 ^ prec t = 2 * 2 ^ (prec t - 1) := by cases t <;> decide
    omega

theorem not_exc_odd (F : Facts t e d) {n : Nat} (h : n % 2 = 1) : n ∉ excNs t e d := by
  intro hm
  have := (F.hexc n hm).1
  omega

theorem not_exc_even (F : Facts t e d) {q : Nat} (h : (e, q) ∉ excFloats t) : 2 * q ∉ excNs t e d := by
  intro hm
  have := (F.hexc _ hm).2
  rw [Nat.mul_div_cancel_left q (by decide : 0 < 2)] at this
  exact h this

theorem body_eq_pure (F : Facts t e d) {q : Nat} (hq1 : 1 ≤ q) (hq2 : q < 2 ^ prec t)
    (hqn : e ≠ t.denormalExponent → 2 ^ (prec t - 1) ≤ q) (hexc : (e, q) ∉ excFloats t) :
    body t q e d.minusK (d.beta : Int) d.pow5
      = pureBody t q e (d.minusK + t.kappa) ((2 * q + 1) * d.a / d.b) (2 * d.a / d.b)
          (decide (d.b ∣ (2 * q + 1) * d.a))
          (decide ((2 * q - 1) * d.a / d.b % 2 = 1), decide (d.b ∣ (2 * q - 1) * d.a))
          (decide (2 * q * d.a / d.b % 2 = 1), decide (d.b ∣ 2 * q * d.a)) := by
  have hN : 2 ^ (prec t + 1) = 2 * 2 ^ prec t := by rw [Nat.pow_succ]; ring
  have hlo := nLo_le hq1 hqn
  have h54 : (2 : Nat) ^ (prec t + 1) ≤ 2 ^ 54 := Nat.pow_le_pow_right (by decide) (prec_le t)
  have h54' : (2 : Nat) ^ 54 < 2 ^ 64 := by decide
  have hβ63 : d.beta ≤ 63 := by have := F.hb.2.1; omega
  have hu : (2 * q + 1) * 2 ^ d.beta < 2 ^ 64 := by
    have h1 : (2 * q + 1) * 2 ^ d.beta < 2 ^ (prec t + 1) * 2 ^ d.beta :=
      Nat.mul_lt_mul_of_pos_right (by omega) (Nat.two_pow_pos _)
    have h2 := F.hb.2.2
    have h3 : (2 : Nat) ^ (t.qb / 2) ≤ 2 ^ 64 := by cases t <;> decide
    omega
  have e1 : shl64 q 1 = 2 * q := shl64_one (by omega)
  have e2 : shl64 (shl64 q 1 ||| 1) (d.beta : Int) = (2 * q + 1) * 2 ^ d.beta := twoFc_or_one hβ63 hu
  have e3 := mul_exact F (n := 2 * q + 1) (by omega) (by omega) (by omega) (not_exc_odd F (by omega))
  have e4 := delta_exact F
  have e5 : sub64 (2 * q) 1 = 2 * q - 1 := sub64_one (by omega) (by omega)
  have e6 := parity_exact F (n := 2 * q - 1) (by omega) (by omega) hlo (not_exc_odd F (by omega))
  have e7 := parity_exact F (n := 2 * q) (by omega) (by omega) (by omega) (not_exc_even F hexc)
  -- bound on zi
  have hzi : (2 * q + 1) * d.a / d.b < 2 ^ prec t * (10 * 10 ^ t.kappa.toNat) := by
    rw [Nat.div_lt_iff_lt_mul F.hcert.1]
    have hd := F.hdelta.2
    -- (2q+1) a < (2q+1) 5T b ≤ 2^p 10 T b
    have h1 : 2 * ((2 * q + 1) * d.a) < (2 * q + 1) * (10 * 10 ^ t.kappa.toNat * d.b) := by
      calc 2 * ((2 * q + 1) * d.a) = (2 * q + 1) * (2 * d.a) := by ring
        _ < (2 * q + 1) * (10 * 10 ^ t.kappa.toNat * d.b) := Nat.mul_lt_mul_of_pos_left hd (by omega)
    have h2 : (2 * q + 1) * (10 * 10 ^ t.kappa.toNat * d.b) ≤ (2 * 2 ^ prec t) * (10 * 10 ^ t.kappa.toNat * d.b) :=
      Nat.mul_le_mul_right _ (by omega)
    have h3 : 2 * (2 ^ prec t * (10 * 10 ^ t.kappa.toNat) * d.b) = (2 * 2 ^ prec t) * (10 * 10 ^ t.kappa.toNat * d.b) := by
      ring
    omega
  have hzi64 : (2 * q + 1) * d.a / d.b < 2 ^ 64 := by
    have : 2 ^ prec t * (10 * 10 ^ t.kappa.toNat) < 2 ^ 64 := by cases t <;> decide
    omega
  have hB32 : 10 * 10 ^ t.kappa.toNat < 2 ^ 32 := by cases t <;> decide
  have hB0 : 0 < 10 * 10 ^ t.kappa.toNat := by cases t <;> decide
  rw [e1] at e2
  have hdiv := div_big t hzi
  rw [pow32_big] at hdiv
  unfold body pureBody
  simp only [e1, e2, e3, e4, e5, e6, e7, pow32_big, pow32_small, hdiv, rem_big hzi64 hB32 hB0]

end LexVerif.Proof.DragonboxNormal
