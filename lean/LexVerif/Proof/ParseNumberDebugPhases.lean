import LexVerif.Proof.ParseNumberDebugU64
/-!
# Proof.ParseNumberDebugPhases — the phases of `parse_number` under `Ctx`

The integer and fraction phases are proved for iterators that never skip (`PeekTriv`: contiguous component
iterator, or `Bytes::IS_CONTIGUOUS`); sign, prefix, exponent and suffix for every separator configuration.
-/
namespace LexVerif.Proof.PNDebug
open LexVerif LexVerif.Model LexVerif.Spec
open LexVerif.Props.C12 (Bytes.Valid incCount_spec)
open LexVerif.Proof.PNTotal (Adv csum step_adv)

variable {c : Cfg}

theorem first_lt {b : Bytes} {v : Nat} (h : b.first = some v) : b.index < b.slc.length := get_lt h

theorem firstIsCased_get {b : Bytes} {v : Nat} (h : b.firstIsCased v = true) : b.slc[b.index]? = some v := by
  unfold Bytes.firstIsCased Bytes.first at h
  simpa using h

theorem firstIs_match {b : Bytes} {v : Nat} {cased : Bool} (h : b.firstIs v cased = true) :
    ∃ x, b.slc[b.index]? = some x ∧ matchesB x v cased = true := by
  unfold Bytes.firstIs at h
  split at h
  · next hc =>
    refine ⟨v, firstIsCased_get h, ?_⟩
    simp [matchesB, hc]
  · next hc =>
    unfold Bytes.firstIsUncased at h
    split at h
    · next x hx =>
      refine ⟨x, hx, ?_⟩
      have : cased = false := by simpa using hc
      simp [matchesB, this, h]
    · simp at h

/-- the byte accepted by `first_is(v, cased)` is not the separator -/
theorem firstIs_ne_sep {b : Bytes} {v : Nat} {cased : Bool} (h : b.firstIs v cased = true)
    (hs : matchesB c.fmt.digitSeparator v cased = false) :
    b.index < b.slc.length ∧ b.slc[b.index]? ≠ some c.fmt.digitSeparator := by
  obtain ⟨x, hx, hm⟩ := firstIs_match h
  refine ⟨get_lt hx, ?_⟩
  rw [hx]; intro he
  exact matchesB_ne hm hs (Option.some.inj he)

/-! ## signs -/

theorem parseSign_safe (cx : Ctx c) (np rq : Bool) (ip ms : String) (b : Bytes) (hb : Bytes.Valid b) :
    Safe (parseSign c np rq ip ms b) (fun r => Adv b r.2) := by
  unfold parseSign
  split
  · next h =>
    have hlt := first_lt h
    have hns : b.slc[b.index]? ≠ some c.fmt.digitSeparator := by
      have h' : b.slc[b.index]? = some 43 := h
      rw [h']; intro he; exact cx.sepNotPlus (Option.some.inj he).symm
    split
    · rw [step_ok b hlt (Or.inr hns)]; exact step_adv b 1 hlt
    · exact Safe.err
  · next h =>
    have hlt := first_lt h
    have hns : b.slc[b.index]? ≠ some c.fmt.digitSeparator := by
      have h' : b.slc[b.index]? = some 45 := h
      rw [h']; intro he; exact cx.sepNotMinus (Option.some.inj he).symm
    rw [step_ok b hlt (Or.inr hns)]; exact step_adv b 1 hlt
  · split
    · exact Safe.err
    · exact adv_refl hb

/-! ## prefix, slices, exponent scaling -/

theorem prefixPhase_safe (cx : Ctx c) (b : Bytes) (hb : Bytes.Valid b) :
    Safe (prefixPhase c b) (fun r => Adv b r.2) := by
  unfold prefixPhase
  simp only [prefixRepair, Bool.false_eq_true, if_false]
  split
  · next hcond =>
    simp only [Bool.and_eq_true, ne_eq, decide_eq_true_eq] at hcond
    refine Safe.bind (readIfValueCased_safe cx .integer 48 (Or.inr (zero_ne_sep cx)) b hb) ?_
    rintro ⟨zero, b1⟩ ⟨hadv, _⟩
    have hadv : Adv b b1 := hadv
    simp only
    split
    · refine Safe.bind (readIfValue_safe cx .integer c.basePrefix _ (cx.prefixOk (by simpa using hcond.2)) b1 hadv.valid') ?_
      rintro ⟨hit, b2⟩ hadv2
      have hadv2 : Adv b1 b2 := hadv2
      simp only
      split
      · exact Safe.err
      · exact hadv.trans hadv2
    · exact hadv
  · exact adv_refl hb

theorem sliceTo_ok (start : Bytes) (n : Nat) (tag : String) (h : start.index + n ≤ start.slc.length) :
    sliceTo c start n tag = .ok ((start.slc.drop start.index).take n) := by
  unfold sliceTo Bytes.asSlice
  rw [if_pos (by simp only [List.length_drop]; omega)]
  rfl

theorem scaleExponent_safe (cx : Ctx c) (i : Int) : Safe (scaleExponent c i) (fun _ => True) := by
  unfold scaleExponent
  split
  · trivial
  · next hne =>
    rcases cx.scale with h | h
    · exact absurd h hne
    · simp only [h, ne_eq, not_true_eq_false, decide_false, Bool.and_false, Bool.false_eq_true, if_false]
      trivial

theorem slice_allDig {r : Nat} {s : List Nat} {i j L : Nat} (h : DigRange r s i j) (hL : L ≤ j - i) :
    ∀ x ∈ (s.drop i).take L, IsDig r x := by
  intro x hx
  obtain ⟨n, hn⟩ := List.mem_iff_getElem?.mp hx
  rw [List.getElem?_take] at hn
  split at hn
  · next hlt =>
    rw [List.getElem?_drop] at hn
    obtain ⟨y, hy, hd⟩ := h (i + n) (by omega) (by omega)
    rw [hn] at hy; cases hy; exact hd
  · cases hn

theorem slice_allDS {k : Comp} {s : List Nat} {i j L : Nat} (h : DSRange c k s i j) (hL : L ≤ j - i) :
    ∀ x ∈ (s.drop i).take L, DSk c k x := by
  intro x hx
  obtain ⟨n, hn⟩ := List.mem_iff_getElem?.mp hx
  rw [List.getElem?_take] at hn
  split at hn
  · next hlt =>
    rw [List.getElem?_drop] at hn
    obtain ⟨y, hy, hd⟩ := h (i + n) (by omega) (by omega)
    rw [hn] at hy; cases hy; exact hd
  · cases hn

/-! ## integer phase -/

structure IntOk (c : Cfg) (b : Bytes) (ip : IntPart) : Prop where
  advStart : Adv b ip.start
  advByte : Adv ip.start ip.byte
  nle : ip.nDigits ≤ ip.byte.index - ip.start.index
  nbc : c.bytesContiguous = true → ip.nDigits = ip.byte.index - ip.start.index
  digits : ∃ L, L ≤ ip.byte.index - ip.start.index ∧ (c.bytesContiguous = true → L = ip.nDigits) ∧
    ip.integerDigits = (b.slc.drop ip.start.index).take L
  range : DSRange c .integer b.slc ip.start.index ip.byte.index

theorem IntOk.allDS {b : Bytes} {ip : IntPart} (h : IntOk c b ip) : ∀ x ∈ ip.integerDigits, DSk c .integer x := by
  obtain ⟨L, hL, _, hd⟩ := h.digits
  rw [hd]; exact slice_allDS h.range hL

theorem integerPhase_safe (cx : Ctx c) (hi : Good c .integer) (b : Bytes) (hb : Bytes.Valid b) :
    Safe (integerPhase c b) (IntOk c b) := by
  unfold integerPhase
  refine Safe.bind (prefixPhase_safe cx b hb) ?_
  rintro ⟨isPrefix, start⟩ hadv0
  have hadv0 : Adv b start := hadv0
  simp only
  refine Safe.bind (parse8Digits_safe cx .integer start 0 hadv0.valid') ?_
  rintro ⟨m1, b1⟩ ⟨hadv1, hd1⟩
  have hadv1 : Adv start b1 := hadv1
  have hd1 : DigRange c.mantissaRadix start.slc start.index b1.index := hd1
  simp only
  refine Safe.bind (parseDigits_ds cx .integer hi b1 hadv1.valid') ?_
  rintro ⟨ds, b2⟩ ⟨hadv2, hd2⟩
  have hadv2 : Adv b1 b2 := hadv2
  have hd2 : DSRange c .integer b1.slc b1.index b2.index := hd2
  simp only
  have hadv12 := hadv1.trans hadv2
  have hrange : DSRange c .integer b.slc start.index b2.index := by
    rw [← hadv0.slc]
    rw [hadv1.slc] at hd2
    exact hd1.toDS.trans hd2
  have hN1 := count_le (c := c) hadv12
  have hN2 : c.bytesContiguous = true → b2.currentCount c - start.currentCount c = b2.index - start.index := by
    intro h; rw [currentCount_bc h, currentCount_bc h]
  generalize b2.currentCount c - start.currentCount c = N at hN1 hN2 ⊢
  have hv2 : b2.index ≤ start.slc.length := hadv12.valid
  have hm2 : start.index ≤ b2.index := hadv12.mono
  split
  · exact Safe.err
  · generalize hL : (if (c.feats.format && !c.iterContiguous Comp.integer) = true then b2.index - start.index else N) = L
    have hL1 : L ≤ b2.index - start.index := by rw [← hL]; split <;> omega
    have hL2 : c.bytesContiguous = true → L = N := by
      intro hbc; have := hN2 hbc; rw [← hL]; split <;> omega
    rw [sliceTo_ok start _ _ (by omega)]
    simp only [bind, Except.bind]
    split
    · exact Safe.err
    · exact ⟨hadv0, hadv12, hN1, hN2, ⟨L, hL1, hL2, by simp only; rw [hadv0.slc]⟩, hrange⟩

/-! ## fraction phase -/

structure FracOk (c : Cfg) (byte : Bytes) (fp : FracPart) : Prop where
  adv : Adv byte fp.byte
  noFrac : fp.fraction = none → fp.nAfterDot = 0
  digits : ∀ fd, fp.fraction = some fd → ∀ x ∈ fd, DSk c .fraction x

theorem fractionPhase_safe (cx : Ctx c) (hf : Good c .fraction) (o : POpts)
    (hdp : c.bytesContiguous = true ∨ o.dp ≠ c.fmt.digitSeparator) (byte : Bytes) (m : Nat) (hb : Bytes.Valid byte) :
    Safe (fractionPhase c o byte m) (FracOk c byte) := by
  unfold fractionPhase
  split
  · next hdpb =>
    have hx := firstIsCased_get hdpb
    have hlt := get_lt hx
    rw [step_ok byte hlt (by
      rcases hdp with h | h
      · exact Or.inl h
      · right; rw [hx]; intro he; exact h (Option.some.inj he))]
    simp only [bind, Except.bind]
    have hadv0 : Adv byte { byte with index := byte.index + 1 } := step_adv byte 1 hlt
    refine Safe.bind (parse8Digits_safe cx .fraction _ m hadv0.valid') ?_
    rintro ⟨m1, b1⟩ ⟨hadv1, hd1⟩
    have hadv1 : Adv { byte with index := byte.index + 1 } b1 := hadv1
    have hd1 : DigRange c.mantissaRadix byte.slc (byte.index + 1) b1.index := hd1
    simp only
    refine Safe.bind (parseDigits_ds cx .fraction hf b1 hadv1.valid') ?_
    rintro ⟨ds, b2⟩ ⟨hadv2, hd2⟩
    have hadv2 : Adv b1 b2 := hadv2
    have hd2 : DSRange c .fraction b1.slc b1.index b2.index := hd2
    simp only
    have hadv12 := hadv1.trans hadv2
    have hrange : DSRange c .fraction byte.slc (byte.index + 1) b2.index := by
      rw [hadv1.slc] at hd2
      exact hd1.toDS.trans hd2
    have hN1 := count_le (c := c) hadv12
    generalize b2.currentCount c - Bytes.currentCount c { byte with index := byte.index + 1 } = N at hN1 ⊢
    have hv2 : b2.index ≤ byte.slc.length := hadv12.valid
    have hm2 : byte.index + 1 ≤ b2.index := hadv12.mono
    simp only at hN1
    rw [sliceTo_ok { byte with index := byte.index + 1 } _ _ (by simp only; split <;> omega)]
    simp only [bind, Except.bind]
    refine Safe.bind (scaleExponent_safe cx _) ?_
    intro e _
    split
    · exact Safe.err
    · refine ⟨hadv0.trans hadv12, by simp, ?_⟩
      intro fd hfd
      simp only [Option.some.injEq] at hfd
      subst hfd
      exact slice_allDS hrange (by split <;> omega)
  · exact ⟨adv_refl hb, fun _ => rfl, by simp⟩

/-! ## exponent and suffix -/

theorem exponentPhase_safe (cx : Ctx c) (hasExp : Bool) (byte : Bytes) (fr : Option (List Nat)) (e : Int)
    (hb : Bytes.Valid byte)
    (hin : hasExp = true → byte.index < byte.slc.length ∧
      (c.bytesContiguous = true ∨ byte.slc[byte.index]? ≠ some c.fmt.digitSeparator)) :
    Safe (exponentPhase c hasExp byte fr e) (fun ep => Adv byte ep.byte) := by
  unfold exponentPhase
  split
  · next hh =>
    have hlt := (hin hh).1
    rw [step_ok byte hlt (hin hh).2]
    simp only [bind, Except.bind]
    have hadv0 : Adv byte { byte with index := byte.index + 1 } := step_adv byte 1 hlt
    split
    · exact Safe.err
    · split
      · exact Safe.err
      · unfold parseExponentSign
        refine Safe.bind (parseSign_safe cx _ _ _ _ _ hadv0.valid') ?_
        rintro ⟨negExp, b1⟩ hadv1
        have hadv1 : Adv { byte with index := byte.index + 1 } b1 := hadv1
        simp only
        refine Safe.bind (parseDigits_safe cx .exponent c.exponentRadix cx.sepNotDigE b1 hadv1.valid') ?_
        rintro ⟨ds, b2⟩ ⟨hadv2, _⟩
        have hadv2 : Adv b1 b2 := hadv2
        simp only
        split
        · exact Safe.err
        · exact (hadv0.trans hadv1).trans hadv2
  · split
    · exact Safe.err
    · exact adv_refl hb

theorem suffixPhase_safe (cx : Ctx c) (byte : Bytes) (hb : Bytes.Valid byte) :
    Safe (suffixPhase c byte) (fun b' => Adv byte b') := by
  unfold suffixPhase
  split
  · next hcond =>
    simp only [Bool.and_eq_true, ne_eq, decide_eq_true_eq] at hcond
    obtain ⟨x, hx, hm⟩ := firstIs_match hcond.2
    have hlt := get_lt hx
    rw [step_ok byte hlt (by
      rcases cx.suffixOk (by simpa using hcond.1.2) with h | h
      · exact Or.inl h
      · right; rw [hx]; intro he; exact matchesB_ne hm h (Option.some.inj he))]
    exact step_adv byte 1 hlt
  · exact adv_refl hb

end LexVerif.Proof.PNDebug
