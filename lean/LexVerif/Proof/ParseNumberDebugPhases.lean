import LexVerif.Proof.ParseNumberDebugU64
/-!
# Proof.ParseNumberDebugPhases — the phases of `parse_number` under `Ctx`
-/
namespace LexVerif.Proof.PNDebug
open LexVerif LexVerif.Model LexVerif.Spec
open LexVerif.Props.C12 (Bytes.Valid incCount_spec)

variable {c : Cfg}

theorem first_lt {b : Bytes} {v : Nat} (h : b.first = some v) : b.index < b.slc.length := get_lt h

theorem firstIsCased_lt {b : Bytes} {v : Nat} (h : b.firstIsCased v = true) : b.index < b.slc.length := by
  unfold Bytes.firstIsCased at h
  exact first_lt (v := v) (by simpa using h)

theorem firstIs_lt {b : Bytes} {v : Nat} {cased : Bool} (h : b.firstIs v cased = true) : b.index < b.slc.length := by
  unfold Bytes.firstIs at h
  split at h
  · exact firstIsCased_lt h
  · unfold Bytes.firstIsUncased at h
    split at h
    · next x hx => exact first_lt hx
    · simp at h

/-! ## signs -/

theorem parseSign_safe (cx : Ctx c) (np rq : Bool) (ip ms : String) (b : Bytes) (hb : Bytes.Valid b) :
    Safe (parseSign c np rq ip ms b) (fun r => Adv b r.2) := by
  unfold parseSign
  split
  · next h =>
    have hlt := first_lt h
    split
    · rw [step_ok cx b hlt]; exact adv_step hlt
    · exact Safe.err
  · next h =>
    have hlt := first_lt h
    rw [step_ok cx b hlt]; exact adv_step hlt
  · split
    · exact Safe.err
    · exact Adv.refl hb

/-! ## prefix, slices, exponent scaling -/

theorem prefixPhase_safe (cx : Ctx c) (b : Bytes) (hb : Bytes.Valid b) :
    Safe (prefixPhase c b) (fun r => Adv b r.2) := by
  unfold prefixPhase
  split
  · next hcond =>
    simp only [Bool.and_eq_true, ne_eq] at hcond
    refine Safe.bind (readIfValueCased_safe cx .integer 48 (by decide) b hb) ?_
    rintro ⟨zero, b1⟩ ⟨hadv, _⟩
    simp only
    split
    · refine Safe.bind (readIfValue_safe cx .integer c.basePrefix (by simpa using hcond.2) _ b1 hadv.2.2) ?_
      rintro ⟨hit, b2⟩ hadv2
      simp only
      split
      · exact Safe.err
      · exact hadv.trans hadv2
    · exact hadv
  · exact Adv.refl hb

theorem sliceTo_ok (start : Bytes) (n : Nat) (tag : String) (h : start.index + n ≤ start.slc.length) :
    sliceTo c start n tag = .ok ((start.slc.drop start.index).take n) := by
  unfold sliceTo Bytes.asSlice
  rw [if_pos (by simp only [List.length_drop]; omega)]
  rfl

theorem scaleExponent_safe (cx : Ctx c) (i : Int) : Safe (scaleExponent c i) (fun _ => True) := by
  unfold scaleExponent
  split
  · trivial
  · next hne =>
    rcases cx.scale with h | h
    · exact absurd h hne
    · simp only [h, ne_eq, not_true_eq_false, decide_false, Bool.and_false, Bool.false_eq_true, if_false]
      trivial

theorem slice_allDig {r : Nat} {s : List Nat} {i j : Nat} (h : DigRange r s i j) :
    ∀ x ∈ (s.drop i).take (j - i), IsDig r x := by
  intro x hx
  obtain ⟨n, hn⟩ := List.mem_iff_getElem?.mp hx
  rw [List.getElem?_take] at hn
  split at hn
  · next hlt =>
    rw [List.getElem?_drop] at hn
    obtain ⟨y, hy, hd⟩ := h (i + n) (by omega) (by omega)
    rw [hn] at hy; cases hy; exact hd
  · cases hn

/-! ## integer phase -/

structure IntOk (c : Cfg) (b : Bytes) (ip : IntPart) : Prop where
  advStart : Adv b ip.start
  advByte : Adv ip.start ip.byte
  nDigits : ip.nDigits = ip.byte.index - ip.start.index
  digits : ip.integerDigits = (b.slc.drop ip.start.index).take ip.nDigits
  range : DigRange c.mantissaRadix b.slc ip.start.index ip.byte.index

theorem integerPhase_safe (cx : Ctx c) (b : Bytes) (hb : Bytes.Valid b) :
    Safe (integerPhase c b) (IntOk c b) := by
  unfold integerPhase
  refine Safe.bind (prefixPhase_safe cx b hb) ?_
  rintro ⟨isPrefix, start⟩ hadv0
  simp only
  refine Safe.bind (parse8Digits_safe cx .integer start 0 hadv0.2.2) ?_
  rintro ⟨m1, b1⟩ ⟨hadv1, hd1⟩
  have hadv1 : Adv start b1 := hadv1
  have hd1 : DigRange c.mantissaRadix start.slc start.index b1.index := hd1
  simp only
  refine Safe.bind (parseDigits_safe cx .integer c.mantissaRadix cx.r36 b1 hadv1.2.2) ?_
  rintro ⟨ds, b2⟩ ⟨hadv2, hd2⟩
  have hadv2 : Adv b1 b2 := hadv2
  have hd2 : DigRange c.mantissaRadix b1.slc b1.index b2.index := hd2
  simp only [currentCount_eq cx, ite_self]
  have hadv12 := hadv1.trans hadv2
  have hrange : DigRange c.mantissaRadix b.slc start.index b2.index := by
    rw [← hadv0.1]
    rw [hadv1.1] at hd2
    exact hd1.trans hd2
  split
  · exact Safe.err
  · have hle : start.index + (b2.index - start.index) ≤ start.slc.length := by
      have h1 := hadv12.2.1
      have h2 : b2.index ≤ b2.slc.length := hadv12.2.2
      rw [hadv12.1] at h2
      omega
    rw [sliceTo_ok start _ _ hle]
    simp only [bind, Except.bind]
    split
    · exact Safe.err
    · exact ⟨hadv0, hadv12, rfl, by simp only; rw [hadv0.1], hrange⟩

/-! ## fraction phase -/

structure FracOk (c : Cfg) (byte : Bytes) (fp : FracPart) : Prop where
  adv : Adv byte fp.byte
  noFrac : fp.fraction = none → fp.nAfterDot = 0
  digits : ∀ fd, fp.fraction = some fd → ∀ x ∈ fd, IsDig c.mantissaRadix x

theorem fractionPhase_safe (cx : Ctx c) (o : POpts) (byte : Bytes) (m : Nat) (hb : Bytes.Valid byte) :
    Safe (fractionPhase c o byte m) (FracOk c byte) := by
  unfold fractionPhase
  split
  · next hdp =>
    have hlt := firstIsCased_lt hdp
    rw [step_ok cx byte hlt]
    simp only [bind, Except.bind]
    have hadv0 : Adv byte { byte with index := byte.index + 1 } := adv_step hlt
    refine Safe.bind (parse8Digits_safe cx .fraction _ m hadv0.2.2) ?_
    rintro ⟨m1, b1⟩ ⟨hadv1, hd1⟩
    have hadv1 : Adv { byte with index := byte.index + 1 } b1 := hadv1
    have hd1 : DigRange c.mantissaRadix byte.slc (byte.index + 1) b1.index := hd1
    simp only
    refine Safe.bind (parseDigits_safe cx .fraction c.mantissaRadix cx.r36 b1 hadv1.2.2) ?_
    rintro ⟨ds, b2⟩ ⟨hadv2, hd2⟩
    have hadv2 : Adv b1 b2 := hadv2
    have hd2 : DigRange c.mantissaRadix b1.slc b1.index b2.index := hd2
    simp only [currentCount_eq cx, ite_self]
    have hadv12 := hadv1.trans hadv2
    have hrange : DigRange c.mantissaRadix byte.slc (byte.index + 1) b2.index := by
      rw [hadv1.1] at hd2
      exact hd1.trans hd2
    have hle : (byte.index + 1) + (b2.index - (byte.index + 1)) ≤ byte.slc.length := by
      have h1 := hadv12.2.1
      have h2 : b2.index ≤ b2.slc.length := hadv12.2.2
      rw [hadv12.1] at h2
      simp only at h1 h2
      omega
    rw [sliceTo_ok { byte with index := byte.index + 1 } _ _ hle]
    simp only [bind, Except.bind]
    refine Safe.bind (scaleExponent_safe cx _) ?_
    intro e _
    split
    · exact Safe.err
    · refine ⟨hadv0.trans hadv12, by simp, ?_⟩
      intro fd hfd
      simp only [Option.some.injEq] at hfd
      subst hfd
      exact slice_allDig hrange
  · exact ⟨Adv.refl hb, fun _ => rfl, by simp⟩

/-! ## exponent and suffix -/

theorem exponentPhase_safe (cx : Ctx c) (hasExp : Bool) (byte : Bytes) (fr : Option (List Nat)) (e : Int)
    (hb : Bytes.Valid byte) (hin : hasExp = true → byte.index < byte.slc.length) :
    Safe (exponentPhase c hasExp byte fr e) (fun ep => Adv byte ep.byte) := by
  unfold exponentPhase
  split
  · next hh =>
    have hlt := hin hh
    rw [step_ok cx byte hlt]
    simp only [bind, Except.bind]
    have hadv0 : Adv byte { byte with index := byte.index + 1 } := adv_step hlt
    split
    · exact Safe.err
    · split
      · exact Safe.err
      · unfold parseExponentSign
        refine Safe.bind (parseSign_safe cx _ _ _ _ _ hadv0.2.2) ?_
        rintro ⟨negExp, b1⟩ hadv1
        have hadv1 : Adv { byte with index := byte.index + 1 } b1 := hadv1
        simp only
        refine Safe.bind (parseDigits_safe cx .exponent c.exponentRadix cx.er36 b1 hadv1.2.2) ?_
        rintro ⟨ds, b2⟩ ⟨hadv2, _⟩
        have hadv2 : Adv b1 b2 := hadv2
        simp only
        split
        · exact Safe.err
        · exact (hadv0.trans hadv1).trans hadv2
  · split
    · exact Safe.err
    · exact Adv.refl hb

theorem suffixPhase_safe (cx : Ctx c) (byte : Bytes) (hb : Bytes.Valid byte) :
    Safe (suffixPhase c byte) (fun b' => Adv byte b') := by
  unfold suffixPhase
  split
  · next hcond =>
    simp only [Bool.and_eq_true] at hcond
    have hlt := firstIs_lt hcond.2
    rw [step_ok cx byte hlt]; exact adv_step hlt
  · exact Adv.refl hb

end LexVerif.Proof.PNDebug
