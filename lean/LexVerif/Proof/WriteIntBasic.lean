import LexVerif.Proof.Numeral
import LexVerif.Model.WriteInt
/-!
# Proof.WriteIntBasic — monad / buffer lemmas for `Model.WriteInt`, and the `compact` path
-/
namespace LexVerif.Model.WriteInt
open LexVerif.Spec

@[simp] theorem bind_ok {α β : Type} (a : α) (f : α → Res β) : (Res.ok a >>= f) = f a := rfl
@[simp] theorem bind_fault {α β : Type} (f : α → Res β) : ((Res.fault : Res α) >>= f) = Res.fault := rfl
@[simp] theorem bind_panic {α β : Type} (f : α → Res β) : ((Res.panic : Res α) >>= f) = Res.panic := rfl
@[simp] theorem pure_eq {α : Type} (a : α) : (pure a : Res α) = Res.ok a := rfl

theorem set_mid (p : List Nat) (x v : Nat) (s : List Nat) : (p ++ x :: s).set p.length v = p ++ v :: s := by
  induction p with
  | nil => rfl
  | cons a p ih => simp [ih]

theorem setC_mid (p : List Nat) (x v : Nat) (s : List Nat) : setC (p ++ x :: s) p.length v = .ok (p ++ v :: s) := by
  simp [setC]

theorem setU_mid (p : List Nat) (x v : Nat) (s : List Nat) : setU (p ++ x :: s) p.length v = .ok (p ++ v :: s) := by
  simp [setU]

theorem subIdx_eq (i k : Nat) (h1 : k ≤ i) (h2 : i < 2 ^ 64) : subIdx i k = i - k := by
  unfold subIdx usz; omega

theorem digitToChar_ok (d : Nat) (h : d < 36) : digitToChar d = .ok (digitChar d) := by
  simp [digitToChar, h]

/-- a non-empty list splits off its last element -/
theorem exists_snoc (l : List Nat) (h : 1 ≤ l.length) : ∃ p x, l = p ++ [x] ∧ p.length + 1 = l.length := by
  have hne : l ≠ [] := by intro e; simp [e] at h
  refine ⟨l.dropLast, l.getLast hne, (List.dropLast_concat_getLast hne).symm, ?_⟩
  simp; omega

/-! ## compact.rs -/

/-- the `while value >= radix` loop leaves the leading digit in `value` and has written the other
digits, least significant first, downwards from `index` -/
theorem compactLoop_spec (r : Nat) (hr : 2 ≤ r) (hr36 : r ≤ 36) : ∀ (value fuel : Nat) (pre suf : List Nat),
    value < 2 ^ fuel → 1 ≤ fuel → (toDigits r value).length ≤ pre.length + 1 → pre.length < 2 ^ 64 →
    ∃ v0 ds pre', toDigits r value = v0 :: ds ∧ v0 < r ∧ pre'.length + ds.length = pre.length ∧
      compactLoop r fuel value pre.length (pre ++ suf) = .ok (v0, pre'.length, pre' ++ ds.map digitChar ++ suf) := by
  intro value
  induction value using radix_induction r hr with
  | base n h =>
    intro fuel pre suf hf hf1 _ _
    refine ⟨n, [], pre, toDigits_lt r n h, h, by simp, ?_⟩
    cases fuel with
    | zero => omega
    | succ f => simp [compactLoop, Nat.not_le.mpr h]
  | step n h ih =>
    intro fuel pre suf hf hf1 hlen hpre
    cases fuel with
    | zero => omega
    | succ f =>
      have hstep := toDigits_step r n hr h
      rw [hstep] at hlen
      simp only [List.length_append, List.length_singleton] at hlen
      have hL := (toDigits_length_spec r (n / r) hr).1
      obtain ⟨p, x, hp, hpl⟩ := exists_snoc pre (by omega)
      have hf' : n / r < 2 ^ f := by
        rw [Nat.pow_succ] at hf
        exact Nat.div_lt_of_lt_mul (by
          calc n < 2 ^ f * 2 := hf
            _ ≤ r * 2 ^ f := by rw [Nat.mul_comm]; exact Nat.mul_le_mul_right _ hr)
      obtain ⟨v0, ds, pre', hd, hv0, hlen', hrun⟩ :=
        ih f p (digitChar (n % r) :: suf) hf' (by
          rcases Nat.eq_zero_or_pos f with h0 | h0
          · subst h0; simp at hf; omega
          · exact h0) (by omega) (by omega)
      refine ⟨v0, ds ++ [n % r], pre', by rw [hstep, hd]; simp, hv0, by simp; omega, ?_⟩
      have hm : n % r < 36 := by have := Nat.mod_lt n (by omega : 0 < r); omega
      have hm32 : n % r % 2 ^ 32 = n % r := Nat.mod_eq_of_lt (by omega)
      have hidx : subIdx pre.length 1 = p.length := by rw [subIdx_eq _ _ (by omega) hpre]; omega
      simp only [compactLoop, ge_iff_le, h, if_true, if_neg (by omega : ¬ r = 0)]
      rw [hidx, hm32, digitToChar_ok _ hm]
      subst hp
      simp only [bind_ok, List.append_assoc, List.singleton_append, setC_mid]
      rw [hrun]; simp

theorem copyToDst_ok (dst src : Buf) (h : src.length ≤ dst.length) :
    copyToDst dst src = .ok (src ++ dst.drop src.length, src.length) := by
  simp [copyToDst, h]

/-- `compact` writes exactly the canonical numeral at the start of the buffer -/
theorem compact_spec (bits r value : Nat) (buffer : Buf) (hb8 : 8 ≤ bits) (hb : bits ≤ 128)
    (hr : 2 ≤ r) (hr36 : r ≤ 36) (hv : value < 2 ^ bits)
    (hbuf : (numeral r value).length ≤ buffer.length) :
    compact bits r value buffer =
      .ok (numeral r value ++ buffer.drop (numeral r value).length, (numeral r value).length) := by
  have hlenle : (toDigits r value).length ≤ 128 := by
    -- value < 2^128 ≤ r^128
    have h1 : value < r ^ 128 := by
      calc value < 2 ^ bits := hv
        _ ≤ 2 ^ 128 := Nat.pow_le_pow_right (by omega) hb
        _ ≤ r ^ 128 := Nat.pow_le_pow_left hr 128
    obtain ⟨_, _, h3⟩ := toDigits_length_spec r value hr
    rcases h3 with h3 | h3
    · omega
    · rcases Nat.lt_or_ge 128 (toDigits r value).length with hgt | hle
      · exfalso
        have : r ^ 128 ≤ r ^ ((toDigits r value).length - 1) := Nat.pow_le_pow_right (by omega) (by omega)
        omega
      · exact hle
  have hrT : r % 2 ^ 32 % 2 ^ bits = r := by
    have h256 : (2:Nat) ^ 8 ≤ 2 ^ bits := Nat.pow_le_pow_right (by omega) hb8
    rw [Nat.mod_eq_of_lt (by omega : r < 2 ^ 32), Nat.mod_eq_of_lt (by omega)]
  have hfuel : value < 2 ^ loopFuel := by
    calc value < 2 ^ bits := hv
      _ ≤ 2 ^ loopFuel := Nat.pow_le_pow_right (by omega) (by unfold loopFuel; omega)
  obtain ⟨v0, ds, pre', hd, hv0, hlen', hrun⟩ :=
    compactLoop_spec r hr hr36 value loopFuel (List.replicate 128 0) [] hfuel (by unfold loopFuel; omega) (by simp; omega) (by simp)
  simp only [List.length_replicate, List.append_nil] at hrun hlen'
  have hdl : ds.length + 1 = (toDigits r value).length := by rw [hd]; simp
  obtain ⟨p, x, hp, hpl⟩ := exists_snoc pre' (by omega)
  have hidx : subIdx pre'.length 1 = p.length := by rw [subIdx_eq _ _ (by omega) (by omega)]; omega
  have hnum : numeral r value = digitChar v0 :: ds.map digitChar := by simp [numeral, hd]
  unfold compact
  rw [if_neg (by omega), hrT]
  simp only [hrun, bind_ok, hidx]
  rw [Nat.mod_eq_of_lt (by omega : v0 < 2 ^ 32), digitToChar_ok _ (by omega)]
  subst hp
  simp only [bind_ok, List.append_assoc, List.singleton_append, setC_mid]
  have hdrop : (p ++ digitChar v0 :: List.map digitChar ds).drop p.length = digitChar v0 :: ds.map digitChar := by
    simp
  rw [if_pos (by simp), hdrop, ← hnum, copyToDst_ok _ _ hbuf]

end LexVerif.Model.WriteInt
