/-!
# Proof.Bits — `&&&`/`|||`/`<<<`/`>>>` on `Nat` in terms of div/mod (helper lemmas for C18)
-/
namespace LexVerif.Proof.Bits

/-- a contiguous mask of `n` bits at position `s` extracts `f / 2^s % 2^n` in place -/
theorem and_shifted_mask (f n s : Nat) : f &&& ((2 ^ n - 1) <<< s) = (f / 2 ^ s % 2 ^ n) * 2 ^ s := by
  apply Nat.eq_of_testBit_eq
  intro i
  rw [Nat.testBit_and, Nat.testBit_shiftLeft, Nat.testBit_two_pow_sub_one, Nat.testBit_mul_two_pow,
    Nat.testBit_mod_two_pow, Nat.testBit_div_two_pow]
  by_cases h : s ≤ i
  · have : i - s + s = i := by omega
    simp [h, this, Bool.and_comm]
  · simp [h]

theorem and_shifted_mask_shr (f n s : Nat) : (f &&& ((2 ^ n - 1) <<< s)) >>> s = f / 2 ^ s % 2 ^ n := by
  rw [and_shifted_mask, Nat.shiftRight_eq_div_pow, Nat.mul_div_cancel _ (Nat.two_pow_pos s)]

/-- a single-bit mask -/
theorem and_two_pow (f i : Nat) : f &&& 2 ^ i = (f / 2 ^ i % 2) * 2 ^ i := by
  have := and_shifted_mask f 1 i
  simpa [Nat.shiftLeft_eq] using this

theorem and_two_pow_ne_zero (f i : Nat) : (f &&& 2 ^ i != 0) = decide (f / 2 ^ i % 2 = 1) := by
  rw [and_two_pow]
  have h : f / 2 ^ i % 2 = 0 ∨ f / 2 ^ i % 2 = 1 := by omega
  have hp : 2 ^ i ≠ 0 := Nat.ne_of_gt (Nat.two_pow_pos i)
  rcases h with h | h <;> simp [h]

theorem and_two_pow_eq_zero (f i : Nat) : (f &&& 2 ^ i == 0) = decide (f / 2 ^ i % 2 = 0) := by
  rw [and_two_pow]
  have h : f / 2 ^ i % 2 = 0 ∨ f / 2 ^ i % 2 = 1 := by omega
  have hp : 2 ^ i ≠ 0 := Nat.ne_of_gt (Nat.two_pow_pos i)
  rcases h with h | h <;> simp [h]

/-- OR of a value below `2^s` with a multiple of `2^s` is their sum -/
theorem or_mul_two_pow (x y s : Nat) (h : x < 2 ^ s) : x ||| y * 2 ^ s = x + y * 2 ^ s := by
  rw [Nat.or_comm, ← Nat.shiftLeft_eq, ← Nat.shiftLeft_add_eq_or_of_lt h, Nat.add_comm]

theorem or_shiftLeft (x y s : Nat) (h : x < 2 ^ s) : x ||| y <<< s = x + y * 2 ^ s := by
  rw [Nat.shiftLeft_eq, or_mul_two_pow x y s h]

end LexVerif.Proof.Bits
