import LexVerif.Proof.SepFree
/-!
# Proof.SepFree8 — the 8-digit fast paths (`parse_8digits`, the 8-digit part of `parse_u64_digits`)
agree with digit-by-digit parsing (radix ≤ 10, contiguous iterator, release build).
-/
namespace LexVerif.Proof.Sep
open LexVerif LexVerif.Model
open LexVerif.Props.C12

theorem radix8_eq : ∀ r : Fin 11, radix8 r.val = r.val ^ 8 := by decide

theorem radix8_pow (r : Nat) (h : r ≤ 10) : radix8 r = r ^ 8 := radix8_eq ⟨r, by omega⟩

/-- Horner value -/
def horner (r : Nat) (ds : List Nat) (a : Nat) : Nat := ds.foldl (fun acc d => acc * r + d) a

theorem horner_closed (r : Nat) (ds : List Nat) (a : Nat) : horner r ds a = a * r ^ ds.length + horner r ds 0 := by
  induction ds generalizing a with
  | nil => simp [horner]
  | cons d ds ih =>
    simp only [horner, List.foldl_cons, List.length_cons] at *
    rw [ih (a * r + d), ih (0 * r + d)]
    simp only [Nat.zero_mul, Nat.zero_add, Nat.pow_succ, Nat.add_mul]
    rw [Nat.mul_assoc, Nat.mul_comm r (r ^ ds.length)]
    omega

theorem horner_mod (r M : Nat) (ds : List Nat) (a : Nat) : horner r ds (a % M) % M = horner r ds a % M := by
  rw [horner_closed r ds (a % M), horner_closed r ds a, Nat.add_mod, Nat.mul_mod, Nat.mod_mod, ← Nat.mul_mod, ← Nat.add_mod]

theorem foldMantissa_mod (r : Nat) (ds : List Nat) (a : Nat) :
    foldMantissa r a ds % pow2_64 = horner r ds a % pow2_64 := by
  induction ds generalizing a with
  | nil => simp [foldMantissa, horner]
  | cons d ds ih =>
    simp only [foldMantissa, List.foldl_cons, horner] at *
    rw [ih]
    exact horner_mod r pow2_64 ds (a * r + d)

theorem foldMantissa_lt (r : Nat) (ds : List Nat) (a : Nat) (h : ds ≠ []) : foldMantissa r a ds < pow2_64 := by
  induction ds generalizing a with
  | nil => exact absurd rfl h
  | cons d ds ih =>
    simp only [foldMantissa, List.foldl_cons]
    cases ds with
    | nil => simp only [List.foldl_nil]; exact Nat.mod_lt _ (by decide)
    | cons e es => exact ih _ (by simp)

theorem foldMantissa_eq (r : Nat) (ds : List Nat) (a : Nat) (h : ds ≠ []) :
    foldMantissa r a ds = (a * r ^ ds.length + horner r ds 0) % pow2_64 := by
  rw [← horner_closed, ← foldMantissa_mod, Nat.mod_eq_of_lt (foldMantissa_lt r ds a h)]

theorem foldMantissa_append (r a : Nat) (xs ys : List Nat) :
    foldMantissa r a (xs ++ ys) = foldMantissa r (foldMantissa r a xs) ys := by
  simp [foldMantissa, List.foldl_append]

/-- eight digit bytes: the SWAR value step equals eight single steps -/
theorem val8_step (r m : Nat) (bs : List Nat) (hr : r ≤ 10) (hl : bs.length = 8) :
    (m * radix8 r + val8Digits r bs) % pow2_64 = foldMantissa r m (bs.map (· - 48)) := by
  have hne : bs.map (· - 48) ≠ [] := by
    intro h; have := congrArg List.length h; simp [hl] at this
  rw [foldMantissa_eq r _ m hne, radix8_pow r hr, List.length_map, hl]
  congr 2
  simp [val8Digits, horner, List.foldl_map]

theorem digit_of_is8 (r x : Nat) (hr : r ≤ 10) (h : (48 ≤ x && x < 48 + r) = true) :
    charToDigit x r = some (x - 48) ∧ charToValidDigit x r = x - 48 := by
  simp only [Bool.and_eq_true, decide_eq_true_eq] at h
  have hv : charToValidDigit x r = x - 48 := by
    simp only [charToValidDigit, hr, if_true]
    omega
  refine ⟨?_, hv⟩
  simp only [charToDigit, hv]
  split
  · rfl
  · omega

theorem digitsPrefix_is8 (r : Nat) (hr : r ≤ 10) (bs rest : List Nat) (h : is8Digits r bs = true) :
    digitsPrefix r (bs ++ rest) = bs.map (· - 48) ++ digitsPrefix r rest := by
  induction bs with
  | nil => simp
  | cons x xs ih =>
    simp only [is8Digits, List.all_cons, Bool.and_eq_true] at h
    have hx := (digit_of_is8 r x hr (by simpa using h.1)).1
    simp only [List.cons_append, digitsPrefix, hx, List.map_cons]
    rw [ih (by simpa [is8Digits] using h.2)]

theorem stepBy_release (c : Cfg) (contig : Bool) (n : Nat) (b : Bytes) (hd : c.debug = false) :
    b.stepBy c contig n = .ok { b with index := b.index + n } := by
  simp [Bytes.stepBy, hd]

theorem adv_add (c : Cfg) (k : Comp) (n m : Nat) (b : Bytes) : adv c k m (adv c k n b) = adv c k (n + m) b := by
  cases k <;> cases hf : c.feats.format <;> simp [adv, hf, Nat.add_assoc]

/-- `step_by_unchecked(8)` followed by eight `increment_count()` is `adv … 8` -/
theorem incCountFold_eq_adv (c : Cfg) (k : Comp) (b : Bytes) :
    (List.range 8).foldl (fun b _ => Bytes.incCount c k b) { b with index := b.index + 8 } = adv c k 8 b := by
  have h8 : List.range 8 = [0, 1, 2, 3, 4, 5, 6, 7] := by decide
  rw [h8]
  cases k <;> cases hf : c.feats.format <;> simp [List.foldl, Bytes.incCount, adv, hf]

/-- `try_parse_8digits` on a contiguous iterator (release): cursor and digit count advance by 8 -/
theorem tryParse8_cases (c : Cfg) (k : Comp) (b : Bytes) (hd : c.debug = false) :
    (tryParse8 c k b = .ok (none, b)) ∨
    (∃ bs, bs.length = 8 ∧ b.slc.drop b.index = bs ++ b.slc.drop (b.index + 8) ∧ b.index + 8 ≤ b.slc.length ∧
      is8Digits c.mantissaRadix bs = true ∧
      tryParse8 c k b = .ok (some (val8Digits c.mantissaRadix bs), adv c k 8 b)) := by
  unfold tryParse8 peekBytes
  simp only [hd, Bool.false_and, Bool.false_eq_true, if_false]
  by_cases hcond : (c.iterContiguous k && decide (b.slc.length - b.index ≥ 8) && decide (b.index ≤ b.slc.length)) = true
  · simp only [hcond, if_true]
    simp only [Bool.and_eq_true, decide_eq_true_eq] at hcond
    by_cases h8 : is8Digits c.mantissaRadix (List.take 8 (List.drop b.index b.slc)) = true
    · right
      refine ⟨(b.slc.drop b.index).take 8, ?_, ?_, by omega, h8, ?_⟩
      · simp only [List.length_take, List.length_drop]; omega
      · rw [← List.drop_drop, List.take_append_drop]
      · simp only [h8, if_true, stepBy_release c _ 8 b hd, bind, Except.bind, pure, Except.pure,
          incCountFold_eq_adv]
    · left; simp [h8, pure, Except.pure]
  · left; simp [hcond, pure, Except.pure]

/-- `parse_8digits` loop: consumes (and counts) `8·j` digit bytes and folds them like the digit-by-digit loop -/
theorem parse8Loop_spec (c : Cfg) (k : Comp) (hd : c.debug = false) (hr : c.mantissaRadix ≤ 10) :
    ∀ (fuel : Nat) (b : Bytes) (m : Nat), b.slc.length - b.index < fuel →
      ∃ j m1, parse8Loop c k fuel b m = .ok (m1, adv c k (8 * j) b) ∧
        (digitsPrefix c.mantissaRadix (b.slc.drop b.index)).length
          = 8 * j + (digitsPrefix c.mantissaRadix (b.slc.drop (b.index + 8 * j))).length ∧
        foldMantissa c.mantissaRadix m1 (digitsPrefix c.mantissaRadix (b.slc.drop (b.index + 8 * j)))
          = foldMantissa c.mantissaRadix m (digitsPrefix c.mantissaRadix (b.slc.drop b.index)) := by
  intro fuel
  induction fuel with
  | zero => intro b m h; omega
  | succ n ih =>
    intro b m hf
    unfold parse8Loop
    rcases tryParse8_cases c k b hd with h | ⟨bs, hl, hdrop, hle, h8, h⟩
    · refine ⟨0, m, ?_, by simp, by simp⟩
      simp [h, bind, Except.bind, pure, Except.pure, adv_zero]
    · obtain ⟨j, m1, h1, h2, h3⟩ := ih (adv c k 8 b)
        ((m * radix8 c.mantissaRadix + val8Digits c.mantissaRadix bs) % pow2_64)
        (by simp only [adv_slc, adv_index]; omega)
      simp only [adv_slc, adv_index, adv_add] at h1 h2 h3
      refine ⟨j + 1, m1, ?_, ?_, ?_⟩
      · simp only [h, bind, Except.bind, h1]
        have : 8 + 8 * j = 8 * (j + 1) := by omega
        rw [this]
      · have : b.index + 8 * (j + 1) = b.index + 8 + 8 * j := by omega
        rw [this, hdrop, digitsPrefix_is8 _ hr _ _ h8, List.length_append, List.length_map, hl, h2]
        omega
      · have : b.index + 8 * (j + 1) = b.index + 8 + 8 * j := by omega
        rw [this, h3, hdrop, digitsPrefix_is8 _ hr _ _ h8, foldMantissa_append, val8_step _ _ _ hr hl]

end LexVerif.Proof.Sep
