import LexVerif.Proof.GrisuExp
import LexVerif.Proof.GrisuArith
import LexVerif.Proof.GrisuCore
import LexVerif.Proof.GrisuCand
import LexVerif.Proof.GrisuInterval
import LexVerif.Proof.GrisuDigits
import LexVerif.Proof.GrisuSpec
/-!
# Proof.GrisuMain — `grisu` (compact builds) round-trips for EVERY finite non-zero binary32 / binary64 input

`grisu_ok`: the model's `grisu` returns 1 … 17 (9) digit characters without a leading zero whose value `digits·10^k`
lies strictly inside the rounding interval of the float, hence is read back (exact `roundNE`) as the same bits.
Ingredients: the kernel-checked per-(exponent, shift) certificate (`Proof/GrisuExp.lean`: which cached power is used,
`|c̃ − 10^k'/2^ce| ≤ 1/2`, the window `-60 … -32`), `mul` = correctly rounded product (`GrisuArith`), the error analysis
of the three products (`GrisuCore`), the digit-generation loops (`GrisuDigits`) and the oracle side (`GrisuCand`).
-/
namespace LexVerif.Proof.GrisuMain
open LexVerif.Model.Dragonbox LexVerif.Model.Grisu LexVerif.Spec LexVerif.Proof.GrisuExp
open LexVerif.Proof.GrisuArith LexVerif.Proof.GrisuCore LexVerif.Proof.GrisuCand LexVerif.Proof.GrisuInterval
open LexVerif.Proof.GrisuDigits LexVerif.Proof.GrisuSpec LexVerif.Proof.DragonboxSpec
open LexVerif.Proof.DragonboxShortest LexVerif.Proof.RoundNE

structure GFacts (e : Int) (su : Nat) (cp : Fp) (ki : Int) : Prop where
  hc : cachedGrisuPower (e - 1 - (su : Int)) = some (cp, ki)
  hsh : 32 ≤ -(e - 1 - (su : Int) + cp.exp + 64) ∧ -(e - 1 - (su : Int) + cp.exp + 64) ≤ 60
  hm : 2 ^ 63 ≤ cp.mant ∧ cp.mant < 2 ^ 64
  hr : -2000 ≤ ki ∧ ki ≤ 2000 ∧ -2000 ≤ cp.exp ∧ cp.exp ≤ 2000
  hpos : 0 < cDen ki cp.exp ∧ 0 < cNum ki cp.exp
  herr : 2 * (cp.mant * cDen ki cp.exp) ≤ 2 * cNum ki cp.exp + cDen ki cp.exp
      ∧ 2 * cNum ki cp.exp ≤ 2 * (cp.mant * cDen ki cp.exp) + cDen ki cp.exp
  hscale : 1 ≤ su ∧ (scalePQ (e - 2) (-ki)).1 * 2 ^ (su - 1) * cNum ki cp.exp
      = (scalePQ (e - 2) (-ki)).2 * 2 ^ (-(e - 1 - (su : Int) + cp.exp + 64)).toNat * 2 ^ 64 * cDen ki cp.exp

theorem gfacts_of_ok {t : FTy} {e : Int} {su : Nat} (h : gOk t e su = true) : ∃ cp ki, GFacts e su cp ki := by
  unfold gOk at h
  simp only [] at h
  cases hc : cachedGrisuPower (e - 1 - (su : Int)) with
  | none => rw [hc] at h; simp at h
  | some p =>
    obtain ⟨cp, ki⟩ := p
    rw [hc] at h
    simp only [Bool.and_eq_true, decide_eq_true_eq] at h
    obtain ⟨⟨⟨⟨⟨h1, h2⟩, h3⟩, h4⟩, h5⟩, h6⟩ := h
    exact ⟨cp, ki, hc, h1, h2, h3, h4, h5, h6⟩

/-- which certificate applies: normal significands have `su = 63 - p`, subnormal ones `64 - p ≤ su ≤ 62` -/
theorem gOk_of_float (t : FTy) {m : Nat} {e : Int} (hm1 : 1 ≤ m) (hm2 : m < 2 ^ prec t)
    (he1 : t.denormalExponent ≤ e) (he2 : e ≤ ((2 ^ t.exponentSize.toNat - 2 : Nat) : Int) - t.exponentBias)
    (hmn : e ≠ t.denormalExponent → 2 ^ (prec t - 1) ≤ m) :
    gOk t e (63 - Nat.log2 (2 * m + 1)) = true ∧ 63 - prec t ≤ 63 - Nat.log2 (2 * m + 1) := by
  have hne : 2 * m + 1 ≠ 0 := by omega
  have hup : Nat.log2 (2 * m + 1) < prec t + 1 := by
    rw [Nat.log2_lt hne, Nat.pow_succ]; omega
  by_cases hbig : 2 ^ (prec t - 1) ≤ m
  · have hlow : prec t ≤ Nat.log2 (2 * m + 1) := by
      rw [Nat.le_log2 hne]
      have : 2 ^ prec t = 2 * 2 ^ (prec t - 1) := by cases t <;> decide
      omega
    have hsu : 63 - Nat.log2 (2 * m + 1) = 63 - prec t := by omega
    rw [hsu]
    refine ⟨?_, le_refl _⟩
    cases t
    · have c1 : (((2 ^ FTy.f32.exponentSize.toNat - 2 : Nat) : Int) - FTy.f32.exponentBias) = 104 := by decide
      have c2 : FTy.f32.denormalExponent = -149 := rfl
      rw [c1] at he2; rw [c2] at he1
      exact gOk_f32_normal e he1 he2
    · have c1 : (((2 ^ FTy.f64.exponentSize.toNat - 2 : Nat) : Int) - FTy.f64.exponentBias) = 971 := by decide
      have c2 : FTy.f64.denormalExponent = -1074 := rfl
      rw [c1] at he2; rw [c2] at he1
      exact gOk_f64_normal e he1 he2
  · have he : e = t.denormalExponent := by
      by_contra hne'; exact hbig (hmn hne')
    have hlt : Nat.log2 (2 * m + 1) < prec t := by
      rw [Nat.log2_lt hne]
      have : 2 ^ prec t = 2 * 2 ^ (prec t - 1) := by cases t <;> decide
      omega
    subst he
    have hge1 : 1 ≤ Nat.log2 (2 * m + 1) := (Nat.le_log2 hne).mpr (by omega)
    refine ⟨?_, by omega⟩
    cases t
    · have hlt' : Nat.log2 (2 * m + 1) < 24 := hlt
      exact gOk_f32_sub (63 - Nat.log2 (2 * m + 1)) (by omega) (by omega)
    · have hlt' : Nat.log2 (2 * m + 1) < 53 := hlt
      exact gOk_f64_sub (63 - Nat.log2 (2 * m + 1)) (by omega) (by omega)

theorem interval_facts (t : FTy) {m su c : Nat} (hm1 : 1 ≤ m) (hm2 : m < 2 ^ prec t) (hsu : 63 - prec t ≤ su)
    (hc : 2 ^ 63 ≤ c) :
    rnd (if m = t.hiddenBit then (4 * m - 1) * 2 ^ (su - 1) else (2 * m - 1) * 2 ^ su) c + 3
        ≤ rnd ((2 * m + 1) * 2 ^ su) c
    ∧ rnd (2 * m * 2 ^ su) c + 1 ≤ rnd ((2 * m + 1) * 2 ^ su) c
    ∧ 10 * (rnd ((2 * m + 1) * 2 ^ su) c - 1) ≤ 10 ^ maxDigits t *
        (rnd ((2 * m + 1) * 2 ^ su) c - 1
          - (rnd (if m = t.hiddenBit then (4 * m - 1) * 2 ^ (su - 1) else (2 * m - 1) * 2 ^ su) c + 1)) := by
  cases t
  · exact interval_facts_f32 hm1 hm2 hsu hc
  · exact interval_facts_f64 hm1 hm2 hsu hc

theorem wf_fmtOf (t : FTy) : WF (fmtOf t) := by
  cases t
  · exact wf_f32
  · exact wf_f64

theorem decFracN_eq (D : Nat) (E : Int) : decFracN D E = decFrac D E := rfl

theorem grisu_unfold (t : FTy) (bits : Nat) :
    LexVerif.Model.Grisu.grisu t bits =
      match normalizedBoundaries t (fromFloat t bits) with
      | (lower, upper) =>
        match cachedGrisuPower upper.exp with
        | none => none
        | some (cp, ki) =>
          generateDigits (mul (normalize (fromFloat t bits)) cp)
            ⟨sub64 (mul upper cp).mant 1, (mul upper cp).exp⟩
            ⟨u64 ((mul lower cp).mant + 1), (mul lower cp).exp⟩ (i32 (-ki)) := by
  unfold LexVerif.Model.Grisu.grisu
  rfl

theorem fp_eq {x : Fp} {a : Nat} {b : Int} (h1 : x.mant = a) (h2 : x.exp = b) : x = ⟨a, b⟩ := by
  cases x; simp only [] at h1 h2; rw [h1, h2]

/-- **Grisu round-trips**: every finite non-zero float -/
theorem grisu_ok (t : FTy) (bits : Nat) (h0 : 0 < bits) (hfin : bits < (fmtOf t).infBits) :
    grisuOk t bits = true := by
  obtain ⟨lo, hiv, hlo, hm1, hm2, he1, he2, hmn⟩ := interval_all t bits h0 hfin
  have hpp : (fmtOf t).p = prec t := by cases t <;> rfl
  rw [hpp] at hm2 hmn
  have hfl : fromFloat t bits = ⟨t.mantissa bits, t.exponent bits⟩ := rfl
  have hgu := grisu_unfold t bits
  rw [hfl] at hgu
  generalize t.mantissa bits = m at *
  generalize t.exponent bits = e at *
  have hp54 : 2 ^ prec t ≤ 2 ^ 53 := Nat.pow_le_pow_right (by decide) (by cases t <;> decide)
  have he100 : -100000 ≤ e ∧ e ≤ 100000 := by
    have a1 : -1074 ≤ t.denormalExponent := by cases t <;> decide
    have a2 : (((2 ^ t.exponentSize.toNat - 2 : Nat) : Int) - t.exponentBias) ≤ 971 := by cases t <;> decide
    omega
  obtain ⟨hsu1, hsu62, hU63, hU64, hnorm, hbnd⟩ := boundaries_spec t m e hm1 (by omega) he100
  obtain ⟨hgok, hsup⟩ := gOk_of_float t hm1 hm2 he1 he2 hmn
  generalize hsu : 63 - Nat.log2 (2 * m + 1) = su at *
  obtain ⟨cp, ki, G⟩ := gfacts_of_ok hgok
  obtain ⟨cm, ce⟩ := cp
  obtain ⟨hGc, hGsh, hGm, hGr, hGpos, hGerr, hGscale⟩ := G
  simp only [] at hGc hGsh hGm hGr hGpos hGerr hGscale
  -- the three products
  obtain ⟨hL3, hW1, hcount⟩ := interval_facts t (su := su) (c := cm) hm1 hm2 hsup hGm.1
  generalize hL0 : (if m = t.hiddenBit then (4 * m - 1) * 2 ^ (su - 1) else (2 * m - 1) * 2 ^ su) = L0 at *
  have hL0lt : L0 < (2 * m + 1) * 2 ^ su := by
    rw [← hL0]
    obtain ⟨s1, rfl⟩ : ∃ s1, su = s1 + 1 := ⟨su - 1, by omega⟩
    rw [Nat.add_sub_cancel, Nat.pow_succ]
    split
    · have : (2 * m + 1) * (2 ^ s1 * 2) = (4 * m + 2) * 2 ^ s1 := by ring
      rw [this]; exact Nat.mul_lt_mul_of_pos_right (by omega) (Nat.two_pow_pos _)
    · exact Nat.mul_lt_mul_of_pos_right (by omega) (Nat.mul_pos (Nat.two_pow_pos _) (by decide))
  have hW0lt : 2 * m * 2 ^ su < (2 * m + 1) * 2 ^ su :=
    Nat.mul_lt_mul_of_pos_right (by omega) (Nat.two_pow_pos _)
  obtain ⟨mU, xU⟩ := mul_spec ⟨(2 * m + 1) * 2 ^ su, e - 1 - su⟩ ⟨cm, ce⟩ hU64 hGm.2
  obtain ⟨mW, xW⟩ := mul_spec ⟨2 * m * 2 ^ su, e - 1 - su⟩ ⟨cm, ce⟩ (by show 2 * m * 2 ^ su < 2 ^ 64; omega) hGm.2
  obtain ⟨mL, xL⟩ := mul_spec ⟨L0, e - 1 - su⟩ ⟨cm, ce⟩ (by show L0 < 2 ^ 64; omega) hGm.2
  have hUlt := mul_lt ⟨(2 * m + 1) * 2 ^ su, e - 1 - su⟩ ⟨cm, ce⟩ hU64 hGm.2
  simp only [] at mU xU mW xW mL xL hUlt
  obtain ⟨hsh1, hsh2⟩ := hGsh
  obtain ⟨hki1, hki2, hce1, hce2⟩ := hGr
  generalize hshd : (-(e - 1 - (su : Int) + ce + 64)).toNat = sh at *
  have hshI : -(e - 1 - (su : Int) + ce + 64) = (sh : Int) := by omega
  have hexp : i32 (i32 (e - 1 - (su : Int) + ce) + 64) = -(sh : Int) := by
    unfold i32; omega
  rw [hexp] at xU xW xL
  have hrU : (mul ⟨(2 * m + 1) * 2 ^ su, e - 1 - su⟩ ⟨cm, ce⟩).mant = rnd ((2 * m + 1) * 2 ^ su) cm := mU
  have hrW : (mul ⟨2 * m * 2 ^ su, e - 1 - su⟩ ⟨cm, ce⟩).mant = rnd (2 * m * 2 ^ su) cm := mW
  have hrL : (mul ⟨L0, e - 1 - su⟩ ⟨cm, ce⟩).mant = rnd L0 cm := mL
  rw [hrU] at hUlt
  generalize hU : rnd ((2 * m + 1) * 2 ^ su) cm = U at *
  generalize hW : rnd (2 * m * 2 ^ su) cm = W at *
  generalize hLw : rnd L0 cm = Lw at *
  have hsubU : sub64 U 1 = U - 1 := LexVerif.Proof.DragonboxBits.sub64_one (by omega) hUlt
  have hu64L : u64 (Lw + 1) = Lw + 1 := by unfold u64; exact Nat.mod_eq_of_lt (by omega)
  have hk32 : i32 (-ki) = -ki := by unfold i32; omega
  -- the digit loops
  obtain ⟨ds, κ, hgen, hκ1, hκ2, hchars, hne, hhead, hlow, hupp, hcnt⟩ :=
    generateDigits_spec ⟨W, -(sh : Int)⟩ ⟨U - 1, -(sh : Int)⟩ ⟨Lw + 1, -(sh : Int)⟩ (-ki) sh
      (by omega) (by omega) rfl (by show U - 1 < 2 ^ 64; omega) (by show 1 ≤ Lw + 1; omega)
      (by show Lw + 1 < U - 1; omega) (by show W ≤ U - 1; omega) (by omega)
  simp only [] at hlow hupp hcnt
  -- evaluate the model
  rw [hbnd] at hgu
  simp only [hGc] at hgu
  rw [hnorm, fp_eq hrW xW, hrU, hrL, xU, xL, hsubU, hu64L, hk32, hgen] at hgu
  unfold grisuOk
  rw [hgu]
  simp only []
  -- the five conditions of `grisuOk`
  have hlen := hcnt (maxDigits t) (by cases t <;> decide) hcount
  generalize hD : ofDigits 10 (ds.map (· - 48)) = D at *
  have hlen1 : 1 ≤ ds.length := by
    rcases ds with _ | ⟨c, r⟩
    · exact absurd rfl hne
    · simp
  -- round trip through the candidate lemma
  have hcand : Cand (interval (fmtOf t) bits) (-ki + κ) D := by
    rw [hiv]
    -- comparison fractions at scale -ki
    obtain ⟨hsu1', hsc⟩ := hGscale
    obtain ⟨hcd, hcn⟩ := hGpos
    obtain ⟨herr1, herr2⟩ := hGerr
    have hP := (scalePQ_pos (e - 2) (-ki)).1
    have hQ := (scalePQ_pos (e - 2) (-ki)).2
    -- true-value bounds of the shrunk ends
    have hLtrue : L0 * cNum ki ce < (Lw + 1) * 2 ^ 64 * cDen ki ce := by
      rw [← hLw]; exact prod_lower (by omega) hcd herr2
    have hUtrue : (U - 1) * 2 ^ 64 * cDen ki ce < (2 * m + 1) * 2 ^ su * cNum ki ce := by
      have : U - 1 + 1 = rnd ((2 * m + 1) * 2 ^ su) cm := by rw [hU]; omega
      exact prod_upper hU64 hcd herr1 this
    generalize cNum ki ce = cn at *
    generalize cDen ki ce = cd at *
    generalize hPd : (scalePQ (e - 2) (-ki)).1 = P at *
    generalize hQd : (scalePQ (e - 2) (-ki)).2 = Q at *
    -- lo·2^(su-1) ≤ L0, hi·2^(su-1) = U0
    have hloL : lo * 2 ^ (su - 1) ≤ L0 := by
      rw [← hL0]
      obtain ⟨s1, rfl⟩ : ∃ s1, su = s1 + 1 := ⟨su - 1, by omega⟩
      rw [Nat.add_sub_cancel]
      split at hlo
      · rename_i hh
        rw [if_pos hh]; exact Nat.mul_le_mul_right _ hlo
      · rename_i hh
        rw [if_neg hh, Nat.pow_succ]
        calc lo * 2 ^ s1 ≤ (4 * m - 2) * 2 ^ s1 := Nat.mul_le_mul_right _ hlo
          _ = (2 * m - 1) * (2 ^ s1 * 2) := by
            have : 4 * m - 2 = (2 * m - 1) * 2 := by omega
            rw [this]; ring
    have hhiU : (4 * m + 2) * 2 ^ (su - 1) = (2 * m + 1) * 2 ^ su := by
      obtain ⟨s1, rfl⟩ : ∃ s1, su = s1 + 1 := ⟨su - 1, by omega⟩
      rw [Nat.add_sub_cancel, Nat.pow_succ]; ring
    -- the two strict comparisons at scale `-ki`, scaled by 10^j
    have hlo' : lo * 10 ^ (-κ).toNat * Q < D * 10 ^ κ.toNat * P := by
      apply Nat.lt_of_mul_lt_mul_right (a := 2 ^ (su - 1) * cn)
      calc lo * 10 ^ (-κ).toNat * Q * (2 ^ (su - 1) * cn)
          = (lo * 2 ^ (su - 1)) * cn * (10 ^ (-κ).toNat * Q) := by ring
        _ ≤ L0 * cn * (10 ^ (-κ).toNat * Q) :=
            Nat.mul_le_mul_right _ (Nat.mul_le_mul_right _ hloL)
        _ < (Lw + 1) * 2 ^ 64 * cd * (10 ^ (-κ).toNat * Q) :=
            Nat.mul_lt_mul_of_pos_right hLtrue (Nat.mul_pos (Nat.pow_pos (by decide)) hQ)
        _ = ((Lw + 1) * 10 ^ (-κ).toNat) * (2 ^ 64 * cd * Q) := by ring
        _ ≤ (D * 10 ^ κ.toNat * 2 ^ sh) * (2 ^ 64 * cd * Q) := Nat.mul_le_mul_right _ hlow
        _ = D * 10 ^ κ.toNat * (Q * 2 ^ sh * 2 ^ 64 * cd) := by ring
        _ = D * 10 ^ κ.toNat * (P * 2 ^ (su - 1) * cn) := by rw [hsc]
        _ = D * 10 ^ κ.toNat * P * (2 ^ (su - 1) * cn) := by ring
    have hhi' : D * 10 ^ κ.toNat * P < (4 * m + 2) * 10 ^ (-κ).toNat * Q := by
      apply Nat.lt_of_mul_lt_mul_right (a := 2 ^ (su - 1) * cn)
      calc D * 10 ^ κ.toNat * P * (2 ^ (su - 1) * cn)
          = D * 10 ^ κ.toNat * (P * 2 ^ (su - 1) * cn) := by ring
        _ = D * 10 ^ κ.toNat * (Q * 2 ^ sh * 2 ^ 64 * cd) := by rw [hsc]
        _ = (D * 10 ^ κ.toNat * 2 ^ sh) * (2 ^ 64 * cd * Q) := by ring
        _ ≤ ((U - 1) * 10 ^ (-κ).toNat) * (2 ^ 64 * cd * Q) := Nat.mul_le_mul_right _ hupp
        _ = (U - 1) * 2 ^ 64 * cd * (10 ^ (-κ).toNat * Q) := by ring
        _ < (2 * m + 1) * 2 ^ su * cn * (10 ^ (-κ).toNat * Q) :=
            Nat.mul_lt_mul_of_pos_right hUtrue (Nat.mul_pos (Nat.pow_pos (by decide)) hQ)
        _ = (4 * m + 2) * 2 ^ (su - 1) * cn * (10 ^ (-κ).toNat * Q) := by rw [hhiU]
        _ = (4 * m + 2) * 10 ^ (-κ).toNat * Q * (2 ^ (su - 1) * cn) := by ring
    -- D ≥ 1
    have hD1 : 1 ≤ D * 10 ^ κ.toNat := by
      rcases Nat.eq_zero_or_pos (D * 10 ^ κ.toNat) with h | h
      · rw [h] at hlo'; simp at hlo'
      · exact h
    rw [← hPd, ← hQd] at hlo' hhi'
    by_cases hκ : 0 ≤ κ
    · have hj : (-κ).toNat = 0 := by omega
      rw [hj, Nat.pow_zero, Nat.mul_one] at hlo' hhi'
      have hc0 := cand_of_scaled
        { v := 4 * m, lo := lo, hi := 4 * m + 2, e2 := e - 2, incl := decide (m % 2 = 0) } (-ki) 0
        (D * 10 ^ κ.toNat) hD1 (by simpa using hlo') (by simpa using hhi')
      have : (-ki : Int) - ((0 : Nat) : Int) + ((κ.toNat : Nat) : Int) = -ki + κ := by omega
      rw [← this, cand_add_iff]
      exact hc0
    · have hk0 : κ.toNat = 0 := by omega
      rw [hk0, Nat.pow_zero, Nat.mul_one] at hlo' hhi' hD1
      have hc0 := cand_of_scaled
        { v := 4 * m, lo := lo, hi := 4 * m + 2, e2 := e - 2, incl := decide (m % 2 = 0) } (-ki) (-κ).toNat
        D hD1 hlo' hhi'
      have : (-ki : Int) - (((-κ).toNat : Nat) : Int) = -ki + κ := by omega
      rw [← this]
      exact hc0
  have hrt := cand_roundtrips (wf_fmtOf t) h0 hfin hcand
  rw [← decFracN_eq] at hrt
  simp only [Bool.and_eq_true, List.all_eq_true, decide_eq_true_eq, beq_iff_eq, bne_iff_ne, ne_eq]
  exact ⟨⟨⟨⟨hchars, hlen⟩, hlen1⟩, hhead⟩, hrt⟩

end LexVerif.Proof.GrisuMain
