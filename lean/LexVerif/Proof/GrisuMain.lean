import LexVerif.Proof.GrisuExp
import LexVerif.Proof.GrisuArith
import LexVerif.Proof.GrisuCore
import LexVerif.Proof.GrisuCand
import LexVerif.Proof.GrisuInterval
-- import LexVerif.Proof.GrisuDigits
import LexVerif.Proof.GrisuSpec
/-!
# Proof.GrisuMain — `grisu` (compact builds) round-trips for EVERY finite non-zero binary32 / binary64 input

`grisu_ok`: the model's `grisu` returns 1 … 17 (9) digit characters without a leading zero whose value `digits·10^k`
lies strictly inside the rounding interval of the float, hence is read back (exact `roundNE`) as the same bits.
Ingredients: the kernel-checked per-(exponent, shift) certificate (`Proof/GrisuExp.lean`: which cached power is used,
`|c̃ − 10^k'/2^ce| ≤ 1/2`, the window `-60 … -32`), `mul` = correctly rounded product (`GrisuArith`), the error analysis
of the three products (`GrisuCore`), the digit-generation loops (`GrisuDigits`) and the oracle side (`GrisuCand`).
-/
namespace LexVerif.Proof.GrisuMain
open LexVerif.Model.Dragonbox LexVerif.Model.Grisu LexVerif.Spec LexVerif.Proof.GrisuExp
open LexVerif.Proof.GrisuArith LexVerif.Proof.GrisuCore LexVerif.Proof.GrisuCand LexVerif.Proof.GrisuInterval
open LexVerif.Proof.GrisuSpec LexVerif.Proof.DragonboxSpec
open LexVerif.Proof.DragonboxShortest LexVerif.Proof.RoundNE

structure GFacts (e : Int) (su : Nat) (cp : Fp) (ki : Int) : Prop where
  hc : cachedGrisuPower (e - 1 - (su : Int)) = some (cp, ki)
  hsh : 32 ≤ -(e - 1 - (su : Int) + cp.exp + 64) ∧ -(e - 1 - (su : Int) + cp.exp + 64) ≤ 60
  hm : 2 ^ 63 ≤ cp.mant ∧ cp.mant < 2 ^ 64
  hr : -2000 ≤ ki ∧ ki ≤ 2000 ∧ -2000 ≤ cp.exp ∧ cp.exp ≤ 2000
  hpos : 0 < cDen ki cp.exp ∧ 0 < cNum ki cp.exp
  herr : 2 * (cp.mant * cDen ki cp.exp) ≤ 2 * cNum ki cp.exp + cDen ki cp.exp
      ∧ 2 * cNum ki cp.exp ≤ 2 * (cp.mant * cDen ki cp.exp) + cDen ki cp.exp
  hscale : 1 ≤ su ∧ (scalePQ (e - 2) (-ki)).1 * 2 ^ (su - 1) * cNum ki cp.exp
      = (scalePQ (e - 2) (-ki)).2 * 2 ^ (-(e - 1 - (su : Int) + cp.exp + 64)).toNat * 2 ^ 64 * cDen ki cp.exp

theorem gfacts_of_ok {t : FTy} {e : Int} {su : Nat} (h : gOk t e su = true) : ∃ cp ki, GFacts e su cp ki := by
  unfold gOk at h
  simp only [] at h
  cases hc : cachedGrisuPower (e - 1 - (su : Int)) with
  | none => rw [hc] at h; simp at h
  | some p =>
    obtain ⟨cp, ki⟩ := p
    rw [hc] at h
    simp only [Bool.and_eq_true, decide_eq_true_eq] at h
    obtain ⟨⟨⟨⟨⟨h1, h2⟩, h3⟩, h4⟩, h5⟩, h6⟩ := h
    exact ⟨cp, ki, hc, h1, h2, h3, h4, h5, h6⟩

end LexVerif.Proof.GrisuMain
