import LexVerif.Spec.Grammar
import LexVerif.Model.FormatDecimal
import LexVerif.Proof.Numeral
/-!
# Proof.RoundTripSplit — the documented grammar's splitter inverts the rendering of a number *shape* (C08)

A `Shape` is what the float writer's layout functions decide: integer digits, optional fraction digits, optional
exponent.  `Shape.render` turns it into bytes (digit characters, the decimal point, the exponent character, the
exponent sign, the exponent digits in the exponent radix).  `splitNumber_render`: `Spec.splitNumber` applied to the
rendering returns exactly the components of the shape and leaves nothing over; `numberOk_render` lists the
conditions on the shape under which every flag constraint of the grammar holds; `grammarFloatSyn_render` puts the
mantissa sign in front.
-/
namespace LexVerif.Proof.RoundTrip
open LexVerif.Spec LexVerif.Model

/-! ## digit characters -/

theorem digitVal_digitChar (r d : Nat) (hr : r ≤ 36) (hd : d < r) : digitVal r (digitChar d) = some d := by
  have h36 : d < 36 := by omega
  unfold digitVal digitVal36 digitChar
  by_cases h10 : d < 10
  · have h1 : 48 ≤ 48 + d ∧ 48 + d ≤ 57 := by omega
    simp [h10, h1, hd]
  · have h1 : ¬ (48 ≤ 55 + d ∧ 55 + d ≤ 57) := by omega
    have h2 : 65 ≤ 55 + d ∧ 55 + d ≤ 90 := by omega
    simp [h10, h1, h2, hd]

theorem digitChar_ne_sign (d : Nat) : digitChar d ≠ 43 ∧ digitChar d ≠ 45 := by
  unfold digitChar; split <;> omega

theorem digitChar_zero : digitChar 0 = 48 := rfl
theorem digitChar_one : digitChar 1 = 49 := rfl

theorem zeros_eq_chars (n : Nat) : zeros n = chars (List.replicate n 0) := by
  simp [zeros, chars, digitChar]

theorem chars_append (a b : List Nat) : chars (a ++ b) = chars a ++ chars b := by simp [chars]
theorem chars_cons (a : Nat) (b : List Nat) : chars (a :: b) = digitChar a :: chars b := rfl
theorem chars_nil : chars [] = [] := rfl
theorem chars_length (a : List Nat) : (chars a).length = a.length := by simp [chars]

/-- the next byte (if any) is not a digit of radix `r` -/
def NoDigitHead (r : Nat) (rest : List Nat) : Prop := ∀ c, rest.head? = some c → digitVal r c = none

theorem noDigitHead_nil (r : Nat) : NoDigitHead r [] := by intro c h; simp at h
theorem noDigitHead_cons (r c : Nat) (cs : List Nat) (h : digitVal r c = none) : NoDigitHead r (c :: cs) := by
  intro x hx; simp at hx; subst hx; exact h

theorem takeDigits_chars (r : Nat) (hr : r ≤ 36) (ds rest : List Nat) (hds : ∀ d ∈ ds, d < r)
    (hrest : NoDigitHead r rest) : takeDigits r (chars ds ++ rest) = (ds, rest) := by
  induction ds with
  | nil =>
    cases rest with
    | nil => simp [chars, takeDigits]
    | cons c cs =>
      have := hrest c rfl
      simp [chars, takeDigits, this]
  | cons d ds ih =>
    have hd := hds d (by simp)
    have ih' := ih (fun x hx => hds x (by simp [hx]))
    simp only [chars_cons, List.cons_append, takeDigits, digitVal_digitChar r d hr hd, ih']

theorem digitVal_sign (r : Nat) : digitVal r 43 = none ∧ digitVal r 45 = none := by
  constructor <;> simp [digitVal, digitVal36]

/-! ## shapes -/

/-- what a layout function decides -/
structure Shape where
  ints : List Nat
  frac : Option (List Nat)
  exp : Option Int
deriving Repr, DecidableEq

/-- exponent sign bytes: `-` when negative, `+` only when required -/
def expSignBytes (plusReq : Bool) (e : Int) : List Nat :=
  if e < 0 then [45] else if plusReq then [43] else []

/-- the same as the grammar's optional sign -/
def expSignOf (plusReq : Bool) (e : Int) : Option Bool :=
  if e < 0 then some true else if plusReq then some false else none

def expText (plusReq : Bool) (er expc : Nat) (e : Int) : List Nat :=
  [expc] ++ expSignBytes plusReq e ++ numeral er e.natAbs

def fracText (dp : Nat) : Option (List Nat) → List Nat
  | some fs => dp :: chars fs
  | none => []

def expPart (plusReq : Bool) (er expc : Nat) : Option Int → List Nat
  | some e => expText plusReq er expc e
  | none => []

def Shape.render (dp expc er : Nat) (plusReq : Bool) (s : Shape) : List Nat :=
  chars s.ints ++ (fracText dp s.frac ++ expPart plusReq er expc s.exp)

/-- the components the grammar must find -/
def Shape.parts (er : Nat) (plusReq : Bool) (sg : Option Bool) (s : Shape) : Parts :=
  ⟨sg, false, s.ints, s.frac.isSome, s.frac.getD [], s.exp.isSome,
   (match s.exp with | some e => expSignOf plusReq e | none => none),
   (match s.exp with | some e => toDigits er e.natAbs | none => []), false, []⟩

/-! ## the splitter on a rendering -/

theorem splitSign_nosign (c : Nat) (cs : List Nat) (h1 : c ≠ 43) (h2 : c ≠ 45) :
    splitSign (c :: cs) = (none, c :: cs) := by
  unfold splitSign
  split
  · rename_i h; cases h; exact absurd rfl h1
  · rename_i h; cases h; exact absurd rfl h2
  · rfl

theorem splitSign_expDigits (plusReq : Bool) (er : Nat) (her2 : 2 ≤ er) (e : Int) :
    splitSign (expSignBytes plusReq e ++ numeral er e.natAbs) = (expSignOf plusReq e, numeral er e.natAbs) := by
  unfold expSignBytes expSignOf
  by_cases h1 : e < 0
  · simp [h1, splitSign]
  · by_cases h2 : plusReq = true
    · simp [h1, h2, splitSign]
    · simp only [h1, h2, if_false, List.nil_append]
      obtain ⟨d, ds, hd⟩ : ∃ d ds, toDigits er e.natAbs = d :: ds := by
        cases h : toDigits er e.natAbs with
        | nil => exact absurd h (toDigits_ne_nil er _ her2)
        | cons d ds => exact ⟨d, ds, rfl⟩
      have hn : numeral er e.natAbs = digitChar d :: ds.map digitChar := by unfold numeral; rw [hd]; rfl
      rw [hn]
      exact splitSign_nosign _ _ (digitChar_ne_sign d).1 (digitChar_ne_sign d).2

theorem matchByte_self (cased : Bool) (c : Nat) : matchByte cased c c = true := by
  unfold matchByte eqUncased; cases cased <;> simp

theorem splitExponent_expText (y : Syn) (o : POpts) (plusReq : Bool) (her2 : 2 ≤ y.expRadix) (her : y.expRadix ≤ 36)
    (e : Int) :
    splitExponent y o (expText plusReq y.expRadix o.exp e) =
      (true, expSignOf plusReq e, toDigits y.expRadix e.natAbs, []) := by
  unfold expText
  simp only [List.singleton_append, List.cons_append, List.nil_append, splitExponent, matchByte_self, if_true,
    splitSign_expDigits plusReq y.expRadix her2 e]
  have h := takeDigits_chars y.expRadix her (toDigits y.expRadix e.natAbs) []
    (toDigits_digit_lt _ _ her2) (noDigitHead_nil _)
  simp only [List.append_nil] at h
  unfold numeral; unfold chars at h
  rw [h]

theorem splitExponent_nil (y : Syn) (o : POpts) : splitExponent y o [] = (false, none, [], []) := rfl
theorem splitSuffix_nil (y : Syn) : splitSuffix y [] = (false, []) := rfl

theorem splitFraction_some (y : Syn) (o : POpts) (hr : y.radix ≤ 36) (fs rest : List Nat) (hfs : ∀ d ∈ fs, d < y.radix)
    (hrest : NoDigitHead y.radix rest) :
    splitFraction y o (o.dp :: chars fs ++ rest) = (true, fs, rest) := by
  simp only [List.cons_append, splitFraction, if_true, takeDigits_chars y.radix hr fs rest hfs hrest]

theorem splitFraction_expText (y : Syn) (o : POpts) (plusReq : Bool) (hne : o.dp ≠ o.exp) (er : Nat) (e : Int) :
    splitFraction y o (expText plusReq er o.exp e) = (false, [], expText plusReq er o.exp e) := by
  unfold expText
  simp only [List.singleton_append, List.cons_append, List.nil_append, splitFraction]
  rw [if_neg (fun h => hne h.symm)]

theorem splitFraction_nil (y : Syn) (o : POpts) : splitFraction y o [] = (false, [], []) := rfl

theorem noDigitHead_expPart (r : Nat) (plusReq : Bool) (er expc : Nat) (h : digitVal r expc = none) (x : Option Int) :
    NoDigitHead r (expPart plusReq er expc x) := by
  cases x with
  | none => exact noDigitHead_nil r
  | some e => exact noDigitHead_cons r expc _ h

theorem noDigitHead_tail (r dp : Nat) (plusReq : Bool) (er expc : Nat) (hdp : digitVal r dp = none)
    (hexp : digitVal r expc = none) (f : Option (List Nat)) (x : Option Int) :
    NoDigitHead r (fracText dp f ++ expPart plusReq er expc x) := by
  cases f with
  | none => simpa [fracText] using noDigitHead_expPart r plusReq er expc hexp x
  | some fs => exact noDigitHead_cons r dp _ hdp

/-- **the splitter inverts the rendering**: given that the base prefix does not fire on the text -/
theorem splitNumber_render (y : Syn) (o : POpts) (sg : Option Bool) (s : Shape) (plusReq : Bool)
    (hr : y.radix ≤ 36) (her2 : 2 ≤ y.expRadix) (her : y.expRadix ≤ 36)
    (hints : ∀ d ∈ s.ints, d < y.radix) (hfrac : ∀ fs, s.frac = some fs → ∀ d ∈ fs, d < y.radix)
    (hdp : digitVal y.radix o.dp = none) (hexp : digitVal y.radix o.exp = none) (hne : o.dp ≠ o.exp)
    (hpre : splitPrefix y (s.render o.dp o.exp y.expRadix plusReq) = (false, s.render o.dp o.exp y.expRadix plusReq)) :
    splitNumber y o sg (s.render o.dp o.exp y.expRadix plusReq) = s.parts y.expRadix plusReq sg := by
  unfold splitNumber
  rw [hpre]
  obtain ⟨ints, frac, exp⟩ := s
  simp only [Shape.render] at *
  have htail := noDigitHead_tail y.radix o.dp plusReq y.expRadix o.exp hdp hexp frac exp
  simp only [takeDigits_chars y.radix hr ints _ hints htail]
  cases frac with
  | none =>
    cases exp with
    | none => simp [fracText, expPart, splitFraction_nil, splitExponent_nil, splitSuffix_nil, Shape.parts]
    | some e =>
      simp only [fracText, expPart, List.nil_append, splitFraction_expText y o plusReq hne,
        splitExponent_expText y o plusReq her2 her, splitSuffix_nil, Shape.parts]
      rfl
  | some fs =>
    have hfs := hfrac fs rfl
    cases exp with
    | none =>
      have := splitFraction_some y o hr fs [] hfs (noDigitHead_nil _)
      simp only [List.append_nil] at this
      simp only [fracText, expPart, List.append_nil, this, splitExponent_nil, splitSuffix_nil, Shape.parts]
      rfl
    | some e =>
      have := splitFraction_some y o hr fs (expText plusReq y.expRadix o.exp e) hfs (noDigitHead_cons _ _ _ hexp)
      simp only [fracText, expPart, this, splitExponent_expText y o plusReq her2 her, splitSuffix_nil, Shape.parts]
      rfl

/-! ## the flag constraints on a shape -/

/-- conditions on a shape under which the documented grammar accepts it (one per flag) -/
structure ShapeOk (y : Syn) (plusReq : Bool) (sg : Option Bool) (s : Shape) : Prop where
  sign : signOk y.noPosMant y.reqMantSign sg = true
  ints_ne : s.ints ≠ []                                             -- required_integer_digits, required_mantissa_digits
  frac_ne : ∀ fs, s.frac = some fs → fs ≠ []                        -- required_fraction_digits
  noLZ : y.noFloatLZ = true → leadingZeros s.ints = false           -- no_float_leading_zeros
  noExp : y.noExpNot = true → s.exp = none                          -- no_exponent_notation
  reqExp : y.reqExpNot = true → s.exp ≠ none                        -- required_exponent_notation
  expFrac : y.noExpWoFrac = true → s.exp ≠ none → s.frac ≠ none     -- no_exponent_without_fraction
  expSign : ∀ e, s.exp = some e → signOk y.noPosExp y.reqExpSign (expSignOf plusReq e) = true

theorem numberOk_render (y : Syn) (plusReq : Bool) (sg : Option Bool) (s : Shape) (her2 : 2 ≤ y.expRadix)
    (h : ShapeOk y plusReq sg s) : numberOk y (s.parts y.expRadix plusReq sg) = true := by
  obtain ⟨ints, frac, exp⟩ := s
  obtain ⟨h1, h2, h3, h4, h5, h6, h7, h8⟩ := h
  simp only at h2 h3 h4 h5 h6 h7 h8
  have hi : ints.isEmpty = false := by cases ints <;> simp_all
  unfold numberOk Shape.parts
  simp only [h1, hi, List.isEmpty_nil, Bool.true_and, Bool.and_false, Bool.false_and, Bool.not_false, Bool.and_true]
  cases frac with
  | none =>
    cases exp with
    | none =>
      cases hn : y.noFloatLZ <;> cases hq : y.reqExpNot <;> simp_all
    | some e =>
      have he : (toDigits y.expRadix e.natAbs).isEmpty = false := by
        have := toDigits_ne_nil y.expRadix e.natAbs her2
        cases h : toDigits y.expRadix e.natAbs <;> simp_all
      have h8' := h8 e rfl
      cases hn : y.noFloatLZ <;> cases hq : y.noExpNot <;> cases hw : y.noExpWoFrac <;> simp_all
  | some fs =>
    have hf : fs.isEmpty = false := by
      have := h3 fs rfl
      cases fs <;> simp_all
    cases exp with
    | none =>
      cases hn : y.noFloatLZ <;> cases hq : y.reqExpNot <;> simp_all
    | some e =>
      have he : (toDigits y.expRadix e.natAbs).isEmpty = false := by
        have := toDigits_ne_nil y.expRadix e.natAbs her2
        cases h : toDigits y.expRadix e.natAbs <;> simp_all
      have h8' := h8 e rfl
      cases hn : y.noFloatLZ <;> cases hq : y.noExpNot <;> simp_all

/-- the literal of the parts of a shape -/
theorem parts_lit (y : Syn) (plusReq : Bool) (sg : Option Bool) (s : Shape) (her2 : 2 ≤ y.expRadix) :
    (s.parts y.expRadix plusReq sg).lit y =
      ⟨sg == some true, s.ints, s.frac.getD [], s.exp.getD 0⟩ := by
  obtain ⟨ints, frac, exp⟩ := s
  unfold Parts.lit Shape.parts
  cases exp with
  | none => simp [ofDigits]
  | some e =>
    simp only [ofDigits_toDigits y.expRadix e.natAbs her2, Option.getD_some]
    unfold expSignOf
    by_cases h1 : e < 0
    · simp only [h1, if_true, beq_self_eq_true]
      congr 1; omega
    · by_cases h2 : plusReq = true
      · simp [h1, h2]; omega
      · simp [h1, h2]; omega

/-! ## the mantissa sign in front -/

/-- mantissa sign bytes -/
def signBytes : Option Bool → List Nat
  | some true => [45]
  | some false => [43]
  | none => []

theorem splitSign_signBytes (sg : Option Bool) (body : List Nat)
    (hb : ∀ c, body.head? = some c → c ≠ 43 ∧ c ≠ 45) : splitSign (signBytes sg ++ body) = (sg, body) := by
  match sg with
  | some true => simp [signBytes, splitSign]
  | some false => simp [signBytes, splitSign]
  | none =>
    simp only [signBytes, List.nil_append]
    cases body with
    | nil => rfl
    | cons c cs => exact splitSign_nosign c cs (hb c rfl).1 (hb c rfl).2

theorem render_head (dp expc er : Nat) (plusReq : Bool) (s : Shape) (h : s.ints ≠ []) :
    ∃ d ds, s.ints = d :: ds ∧ ∃ t, s.render dp expc er plusReq = digitChar d :: t := by
  obtain ⟨ints, frac, exp⟩ := s
  cases ints with
  | nil => exact absurd rfl h
  | cons d ds => exact ⟨d, ds, rfl, _, rfl⟩

/-- **a rendered shape with its sign is a number of the grammar**, with the literal of the shape -/
theorem grammarFloatSyn_render (y : Syn) (o : POpts) (sg : Option Bool) (s : Shape) (plusReq : Bool)
    (hr : y.radix ≤ 36) (her2 : 2 ≤ y.expRadix) (her : y.expRadix ≤ 36)
    (hints : ∀ d ∈ s.ints, d < y.radix) (hfrac : ∀ fs, s.frac = some fs → ∀ d ∈ fs, d < y.radix)
    (hdp : digitVal y.radix o.dp = none) (hexp : digitVal y.radix o.exp = none) (hne : o.dp ≠ o.exp)
    (hpre : splitPrefix y (s.render o.dp o.exp y.expRadix plusReq) = (false, s.render o.dp o.exp y.expRadix plusReq))
    (hok : ShapeOk y plusReq sg s) :
    grammarFloatSyn y o (signBytes sg ++ s.render o.dp o.exp y.expRadix plusReq) =
      .num ⟨sg == some true, s.ints, s.frac.getD [], s.exp.getD 0⟩
        (signBytes sg ++ s.render o.dp o.exp y.expRadix plusReq).length := by
  obtain ⟨d, ds, hd, t, ht⟩ := render_head o.dp o.exp y.expRadix plusReq s hok.ints_ne
  have hsplit := splitSign_signBytes sg (s.render o.dp o.exp y.expRadix plusReq) (by
    intro c hc; rw [ht] at hc; simp at hc; subst hc; exact digitChar_ne_sign d)
  have hne' : (signBytes sg ++ s.render o.dp o.exp y.expRadix plusReq).isEmpty = false := by
    rw [ht]; cases sg <;> simp
  unfold grammarFloatSyn
  simp only [hne', hsplit, splitNumber_render y o sg s plusReq hr her2 her hints hfrac hdp hexp hne hpre,
    numberOk_render y plusReq sg s her2 hok, parts_lit y plusReq sg s her2]
  simp

end LexVerif.Proof.RoundTrip
