import LexVerif.Proof.WriteIntJeaiiiArith
/-!
# Proof.WriteIntJeaiii — the `write_digits!` arms of `jeaiii.rs` write the canonical decimal numeral
-/
namespace LexVerif.Model.WriteInt
open LexVerif.Spec

theorem dm (x K a L : Nat) (h : x = a * K + L) (hL : L < K) : x / K = a ∧ x % K = L := by
  subst h
  have hK : 0 < K := by omega
  constructor
  · rw [Nat.mul_comm, Nat.mul_add_div hK, Nat.div_eq_of_lt hL]; simp
  · rw [Nat.mul_comm, Nat.mul_add_mod, Nat.mod_eq_of_lt hL]

theorem Chain.lt : ∀ {L : Nat} {ds : List Nat}, Chain L ds → L < 4294967296
  | _, [], h => h
  | _, _ :: _, h => h.1

theorem next2_eq (y : Nat) : next2 y = (y % 2 ^ 32 * 100 % 2 ^ 64, y % 2 ^ 32 * 100 % 2 ^ 64 / 2 ^ 32 % 2 ^ 32) := rfl

theorem jd_of_chain : ∀ (ds : List Nat) (y L : Nat), y % 2 ^ 32 = L → Chain L ds → (∀ d ∈ ds, d < 100) →
    jd y ds.length = ds := by
  intro ds
  induction ds with
  | nil => intro y L _ _ _; rfl
  | cons d ds ih =>
    intro y L hy hc hd
    obtain ⟨hL, L1, hL1, hc1⟩ := hc
    have hL1b := hc1.lt
    have hd100 : d < 100 := hd d (by simp)
    have e0 : y % 2 ^ 32 * 100 % 2 ^ 64 = L * 100 := by rw [hy]; omega
    obtain ⟨hdiv, hmod⟩ := dm (L * 100) 4294967296 d L1 hL1 hL1b
    simp only [List.length_cons, jd, next2_eq, e0]
    have e1 : L * 100 / 2 ^ 32 % 2 ^ 32 = d := by
      rw [show (2:Nat) ^ 32 = 4294967296 from rfl, hdiv]; omega
    rw [e1, ih (L * 100) L1 (by rw [show (2:Nat) ^ 32 = 4294967296 from rfl]; exact hmod) hc1
      (fun x hx => hd x (by simp [hx]))]

theorem chain_facts (q a : Nat) (ds : List Nat) (h : ∃ L0, q = a * 4294967296 + L0 ∧ Chain L0 ds)
    (hds : ∀ d ∈ ds, d < 100) : q / 2 ^ 32 = a ∧ jd q ds.length = ds := by
  obtain ⟨L0, hq, hc⟩ := h
  obtain ⟨hdiv, hmod⟩ := dm q 4294967296 a L0 hq hc.lt
  exact ⟨hdiv, jd_of_chain ds q L0 hmod hc hds⟩

/-! ## base-100 Horner form and the numeral -/

def horner (a : Nat) (ds : List Nat) : Nat := ds.foldl (fun acc d => acc * 100 + d) a

theorem numeral_pair (a d : Nat) (ha : 1 ≤ a) (hd : d < 100) :
    numeral 10 (a * 100 + d) = numeral 10 a ++ pair 10 d := by
  have h := toDigits_split 10 (by omega) 2 (a * 100 + d) (by omega)
  have e1 : (a * 100 + d) / 10 ^ 2 = a := by omega
  have e2 : (a * 100 + d) % 10 ^ 2 = d := by omega
  rw [e1, e2] at h
  unfold numeral
  rw [h, List.map_append, padDigits_two 10 d (by omega)]

theorem numeral_horner : ∀ (ds : List Nat) (a : Nat), 1 ≤ a → (∀ d ∈ ds, d < 100) →
    numeral 10 (horner a ds) = numeral 10 a ++ pairs ds := by
  intro ds
  induction ds with
  | nil => intro a _ _; simp [horner, pairs]
  | cons d ds ih =>
    intro a ha hd
    have hd0 : d < 100 := hd d (by simp)
    have := ih (a * 100 + d) (by omega) (fun x hx => hd x (by simp [hx]))
    simp only [horner, List.foldl_cons] at this ⊢
    rw [this, numeral_pair a d ha hd0]
    simp [pairs]

theorem numeral_one (a : Nat) (h : a < 10) : numeral 10 a = [digitChar a] := by
  simp [numeral, toDigits_lt 10 a h]

theorem numeral_two (a : Nat) (h1 : 10 ≤ a) (h2 : a < 100) : numeral 10 a = pair 10 a := by
  have : toDigits 10 a = [a / 10, a % 10] := by
    rw [toDigits_step 10 a (by omega) h1, toDigits_lt 10 (a / 10) (by omega)]; rfl
  simp [numeral, this, pair]

/-! ## lead digit(s) followed by `k` pairs -/

theorem lead1_spec (buf : Buf) (a k P : Nat) (ds : List Nat) (ha : a < 10) (hjd : jd P k = ds)
    (hds : ∀ d ∈ ds, d < 100) (hb : 1 + 2 * k ≤ buf.length) :
    (wr1 buf 0 a >>= fun w => print2s k w.1 1 P) = .ok (splice buf 0 ([digitChar a] ++ pairs ds), 1 + 2 * k) := by
  rw [wr1_spec buf 0 a ha (by omega), bind_ok]
  simp only []
  rw [print2s_spec k _ 1 P (by rw [hjd]; exact hds) (by rw [splice_length _ _ _ (by simp; omega)]; omega), hjd]
  have hk : ds.length = k := by rw [← hjd, jd_length]
  have := splice_append buf 0 [digitChar a] (pairs ds) (by simp [pairs_length, hk]; omega)
  simp only [List.length_singleton, Nat.zero_add] at this
  rw [this]

theorem lead2_spec (buf : Buf) (a k P : Nat) (ds : List Nat) (ha : a < 100) (hjd : jd P k = ds)
    (hds : ∀ d ∈ ds, d < 100) (hb : 2 + 2 * k ≤ buf.length) :
    (wr2 buf 0 (2 * a) >>= fun w => print2s k w.1 2 P) = .ok (splice buf 0 (pair 10 a ++ pairs ds), 2 + 2 * k) := by
  rw [wr2_spec buf 0 a ha (by omega), bind_ok]
  simp only []
  rw [print2s_spec k _ 2 P (by rw [hjd]; exact hds) (by rw [splice_length _ _ _ (by simp [pair]; omega)]; omega), hjd]
  have hk : ds.length = k := by rw [← hjd, jd_length]
  have := splice_append buf 0 (pair 10 a) (pairs ds) (by simp [pairs_length, hk, pair]; omega)
  have hl : (pair 10 a).length = 2 := rfl
  rw [hl] at this
  simp only [Nat.zero_add] at this
  rw [this]

/-- the common shape of every arm: the value is `horner a ds`, the writer produced `numeral a ++ pairs ds` -/
theorem numeral_lead (a : Nat) (ds : List Nat) (n : Nat) (ha1 : 1 ≤ a) (ha : a < 100) (hds : ∀ d ∈ ds, d < 100)
    (hn : horner a ds = n) :
    numeral 10 n = (if a < 10 then [digitChar a] else pair 10 a) ++ pairs ds ∧
    (numeral 10 n).length = (if a < 10 then 1 else 2) + 2 * ds.length := by
  rw [← hn, numeral_horner ds a ha1 hds]
  by_cases h : a < 10
  · rw [if_pos h, if_pos h, numeral_one a h]; simp [pairs_length]; omega
  · rw [if_neg h, if_neg h, numeral_two a (by omega) ha]; simp [pairs_length, pair]; omega

/-- `print_n!(@n …)` -/
theorem printN_spec (buf : Buf) (n M s k q a : Nat) (ds : List Nat)
    (hP : n % 2 ^ 64 * M % 2 ^ 64 / 2 ^ s = q)
    (hchain : ∃ L0, q = a * 4294967296 + L0 ∧ Chain L0 ds) (hk : ds.length = k)
    (ha1 : 1 ≤ a) (ha : a < 100) (hds : ∀ d ∈ ds, d < 100) (hn : horner a ds = n)
    (hb : (numeral 10 n).length ≤ buf.length) :
    printN buf n M s k = .ok (splice buf 0 (numeral 10 n), (numeral 10 n).length) := by
  obtain ⟨hq, hjd⟩ := chain_facts q a ds hchain hds
  obtain ⟨hnum, hlen⟩ := numeral_lead a ds n ha1 ha hds hn
  rw [hk] at hjd hlen
  have htwo : q / 2 ^ 32 % 2 ^ 32 = a := by rw [hq]; omega
  unfold printN
  simp only [Lit.hi32, hP, htwo]
  by_cases h : a < 10
  · rw [if_pos h] at hnum hlen
    rw [if_pos h]
    have := lead1_spec buf a k q ds h hjd hds (by omega)
    rw [wr1_spec buf 0 a h (by omega), bind_ok] at this ⊢
    simp only [] at this ⊢
    rw [this, hlen, hnum]
  · rw [if_neg h] at hnum hlen
    rw [if_neg h]
    have e : a * 2 % 2 ^ 32 = 2 * a := by omega
    rw [e]
    have := lead2_spec buf a k q ds ha hjd hds (by omega)
    rw [wr2_spec buf 0 a ha (by omega), bind_ok] at this ⊢
    simp only [] at this ⊢
    rw [this, hlen, hnum]

end LexVerif.Model.WriteInt
