import LexVerif.Proof.SepFreeMany2
/-!
# Proof.SepFreeNumber — `parse_number` on separator-free input: separator class vs. plain counterpart
-/
set_option linter.unusedSimpArgs false
namespace LexVerif.Proof.Sep
open LexVerif LexVerif.Model LexVerif.Spec
open LexVerif.Props.C12

theorem parseNumber_same (c c' : Cfg) (hS : RelClass c) (hP : PlainClass c') (hC : Counterpart c c')
    (isPartial : Bool) (o : POpts) (b : Bytes) (neg fv : Bool) (hn : NoSep c b.slc) :
    parseNumber c isPartial o b neg fv = parseNumber c' isPartial o b neg fv := by
  apply RelE.eq
  unfold parseNumber
  simp only [hS.debug, hP.debug, Bool.false_and, Bool.false_eq_true, if_false]
  refine RelE.bind (int_rel c c' hS hP hC b hn) ?_
  intro ip ip' hip
  obtain ⟨h1, h2, h3, h4, h5, h6, h7, h8, h9, h10, hlen⟩ := hip
  rw [h5]
  refine RelE.bind (frac_rel c c' hS hP hC b.slc hn o ip.byte ip'.byte h4 ip.mantissa ip.nDigits h8 h9) ?_
  intro fp fp' hfp
  obtain ⟨g1, g2, g3, g4, g5, g6, g7, g8, g9, g10⟩ := hfp
  have hfi : ∀ v cased, fp'.byte.firstIs v cased = fp.byte.firstIs v cased := by
    intro v cased; simp [Bytes.firstIs, Bytes.firstIsCased, Bytes.firstIsUncased, g1.first]
  have hcnt : (decide (ip.nDigits + fp.nAfterDot = 0) ||
      c.feats.format && decide (Bytes.currentCount c fp.byte = 0)) = decide (ip.nDigits + fp.nAfterDot = 0) := by
    by_cases h0 : ip.nDigits + fp.nAfterDot = 0
    · simp [h0]
    · have : Bytes.currentCount c fp.byte ≠ 0 := by
        unfold CountLBc at g7; omega
      simp [h0, this]
  have hcnt' : (decide (ip.nDigits + fp.nAfterDot = 0) ||
      c.feats.format && decide (Bytes.currentCount c' fp'.byte = 0)) = decide (ip.nDigits + fp.nAfterDot = 0) := by
    by_cases h0 : ip.nDigits + fp.nAfterDot = 0
    · simp [h0]
    · have : Bytes.currentCount c' fp'.byte ≠ 0 := by
        simp only [Bytes.currentCount, hP.bytes, if_true]; omega
      simp [h0, this]
  rw [h6, g3, g6, g2, g5, g4, h2, h7]
  simp only [hC.feats, hC.requiredMantissaDigits, hC.caseSensitiveExponent, hC.mantissaRadix, hfi, hcnt, hcnt']
  by_cases hm : (c.requiredMantissaDigits && decide (ip.nDigits + fp.nAfterDot = 0)) = true
  · simp only [hm, if_true]
    rw [peek_nosep c .integer ip.start (by rw [h3]; exact hn) (hS.reach _),
      peek_nosep c' .integer ip.start (hP.noSep _) (hP.reach _)]
    simp only [bind, Except.bind]
    split
    · simp [RelE, g1.2.2]
    · simp [RelE]
  · simp only [hm, Bool.false_eq_true, if_false]
    refine RelE.bind (exp_rel c c' hS hP hC b.slc hn _ fp.byte fp'.byte g1 fp.fraction fp.exponent) ?_
    intro ep ep' hep
    obtain ⟨k1, k2, k3⟩ := hep
    refine RelE.bind (suffix_rel c c' hS hP hC b.slc _ _ k1) ?_
    intro bC bP hb
    rw [k2, k3, ← hb.2.2]
    split
    · simp [RelE, pure, Except.pure]
    · apply RelE.of_eq
      have hids : NoSep c ip.integerDigits := by
        rw [h10]; exact (hn.drop _).take _
      have hfd : ∀ fd, fp.fraction = some fd → NoSep c fd := by
        intro fd hfd x hx; exact hn x (g9 fd hfd x hx)
      rw [manyDigits_rel c hS b.slc hn o neg ip fp ep _ _ _ _ h3 hids hfd,
        manyDigits_plain c' hP b.slc o neg ip' fp' ep' _ _ _ _ (by rw [h2]; exact h3)]
      cases (c.feats.format && !c.bytesContiguous)
      · rw [h2, h7, h6, g5, g2, k2, hC.mantissaRadix, funext (scaleVal_same c c' hC)]
      · rw [manyClosed_mode _ _ _ _ _ _ _ _ _ _ _ _ _ _ _ h10 hlen (by intro hfr; rw [g10 hfr]; rfl),
          h2, h7, h6, g5, g2, k2, hC.mantissaRadix, funext (scaleVal_same c c' hC)]

end LexVerif.Proof.Sep
