import LexVerif.Proof.RoundTripForm
import LexVerif.Spec.FormatValid
/-!
# Proof.RoundTripFlags — the writer's view of the format flags vs the grammar's (C08)

The writer reads the flags of the *effective* format (`effFmt`: every flag off without the `format` feature), the
grammar reads `Syn.of`.  Both agree on the flags the writer honours; the documented validity of the format
(`Spec.FormatValid`) excludes the contradictory pairs; the documented validity of the option characters
(`Spec.OptionsPunctuationValid`) makes the decimal point and the exponent character non-digits.
`writeDecimal_accepted` assembles the round trip on the shape level.
-/
namespace LexVerif.Proof.RoundTrip
open LexVerif.Spec LexVerif.Model LexVerif.Model.WriteFloat

/-! ## the effective format -/

theorem clr_eq (raw : Nat) : raw - raw % 2 ^ 64 = 2 ^ 64 * (raw / 2 ^ 64) := by
  have := Nat.div_add_mod raw (2 ^ 64); omega

theorem clr_bit (raw i : Nat) (hi : i < 64) : (raw - raw % 2 ^ 64) / 2 ^ i % 2 = 0 := by
  rw [clr_eq]
  generalize raw / 2 ^ 64 = q
  have h2 : (2:Nat) ^ 64 = 2 ^ i * (2 * 2 ^ (63 - i)) := by
    rw [← Nat.pow_succ', ← Nat.pow_add]; congr 1; omega
  rw [h2, Nat.mul_assoc, Nat.mul_div_cancel_left _ (Nat.pow_pos (by omega)), Nat.mul_assoc]
  exact Nat.mul_mod_right 2 _

theorem clr_byte (raw k : Nat) (hk : 64 ≤ k) : (raw - raw % 2 ^ 64) / 2 ^ k % 256 = raw / 2 ^ k % 256 := by
  have h2 : (2:Nat) ^ k = 2 ^ 64 * 2 ^ (k - 64) := by rw [← Nat.pow_add]; congr 1; omega
  rw [clr_eq, h2, ← Nat.div_div_eq_div_mul, Nat.mul_div_cancel_left _ (Nat.pow_pos (by omega)),
    Nat.div_div_eq_div_mul]

theorem effFmt_format (feats : Features) (fmt : Format) (h : feats.format = true) : effFmt feats fmt = fmt := by
  simp [effFmt, h]

theorem effFmt_bit (feats : Features) (fmt : Format) (h : feats.format = false) (i : Nat) (hi : i < 64) :
    (effFmt feats fmt).bit i = false := by
  simp [effFmt, h, Format.bit, clr_bit fmt.raw i hi]

theorem effFmt_byte (feats : Features) (fmt : Format) (k : Nat) (hk : 64 ≤ k) :
    (effFmt feats fmt).byteAt k = fmt.byteAt k := by
  unfold effFmt
  split
  · rfl
  · exact clr_byte fmt.raw k hk

theorem effFmt_exponentRadix (feats : Features) (fmt : Format) :
    (effFmt feats fmt).exponentRadix = fmt.exponentRadix := by
  unfold Format.exponentRadix Format.exponentRadixRaw Format.mantissaRadix
  rw [effFmt_byte _ _ 120 (by omega), effFmt_byte _ _ 104 (by omega)]

/-! ## the grammar's flags are the writer's flags -/

theorem syn_radix (feats : Features) (fmt : Format) : (Syn.of feats fmt).radix = fmt.mantissaRadix := by
  unfold Syn.of; split <;> rfl

theorem syn_expRadix (feats : Features) (fmt : Format) : (Syn.of feats fmt).expRadix = fmt.exponentRadix := by
  unfold Syn.of; split <;> rfl

theorem syn_noExpNot (feats : Features) (fmt : Format) :
    (Syn.of feats fmt).noExpNot = (effFmt feats fmt).noExponentNotation := by
  cases h : feats.format
  · simp [Syn.of, h, Format.noExponentNotation, effFmt_bit feats fmt h]
  · simp [Syn.of, h, effFmt_format feats fmt h]

theorem syn_reqExpNot (feats : Features) (fmt : Format) :
    (Syn.of feats fmt).reqExpNot = (effFmt feats fmt).requiredExponentNotation := by
  cases h : feats.format
  · simp [Syn.of, h, Format.requiredExponentNotation, effFmt_bit feats fmt h]
  · simp [Syn.of, h, effFmt_format feats fmt h]

theorem syn_noExpWoFrac (feats : Features) (fmt : Format) :
    (Syn.of feats fmt).noExpWoFrac = (effFmt feats fmt).noExponentWithoutFraction := by
  cases h : feats.format
  · simp [Syn.of, h, Format.noExponentWithoutFraction, effFmt_bit feats fmt h]
  · simp [Syn.of, h, effFmt_format feats fmt h]

theorem syn_reqExpSign (feats : Features) (fmt : Format) :
    (Syn.of feats fmt).reqExpSign = plusReqOf (effFmt feats fmt) feats := by
  cases h : feats.format
  · simp [Syn.of, h, plusReqOf]
  · simp [Syn.of, h, plusReqOf, effFmt_format feats fmt h]

/-- `+` on a non-negative mantissa is written exactly when required (`write.rs`) -/
def mantPlus (feats : Features) (fmt : Format) : Bool := feats.format && fmt.requiredMantissaSign

theorem syn_reqMantSign (feats : Features) (fmt : Format) :
    (Syn.of feats fmt).reqMantSign = mantPlus feats fmt := by
  cases h : feats.format <;> simp [Syn.of, h, mantPlus]

/-- the mantissa sign the writer emits -/
def mantSign (feats : Features) (fmt : Format) (neg : Bool) : Option Bool :=
  if neg then some true else if mantPlus feats fmt then some false else none

/-! ## what format validity gives -/

theorem radixSupported_range {feats : Features} {r : Nat} (h : RadixSupported feats r) : 2 ≤ r ∧ r ≤ 36 := by
  unfold RadixSupported at h
  split at h
  · exact h
  · split at h
    · simp at h; omega
    · omega

theorem unpack_eta (fmt : Format) :
    (unpack fmt.raw).noExponentNotation = fmt.noExponentNotation ∧
    (unpack fmt.raw).requiredExponentNotation = fmt.requiredExponentNotation ∧
    (unpack fmt.raw).noPositiveMantissaSign = fmt.noPositiveMantissaSign ∧
    (unpack fmt.raw).requiredMantissaSign = fmt.requiredMantissaSign ∧
    (unpack fmt.raw).noPositiveExponentSign = fmt.noPositiveExponentSign ∧
    (unpack fmt.raw).requiredExponentSign = fmt.requiredExponentSign ∧
    (unpack fmt.raw).exponentRadix = fmt.exponentRadix ∧
    (unpack fmt.raw).mantissaRadix = fmt.mantissaRadix ∧
    (unpack fmt.raw).basePrefix = fmt.basePrefix ∧
    (unpack fmt.raw).digitSeparator = fmt.digitSeparator :=
  ⟨rfl, rfl, rfl, rfl, rfl, rfl, rfl, rfl, rfl, rfl⟩

/-- consequences of `FormatValid` for the grammar's flag record -/
structure SynFacts (y : Syn) : Prop where
  expRadix2 : 2 ≤ y.expRadix
  expRadix36 : y.expRadix ≤ 36
  expFlags : ¬ (y.noExpNot = true ∧ y.reqExpNot = true)
  mantSign : ¬ (y.noPosMant = true ∧ y.reqMantSign = true)
  expSign : ¬ (y.noPosExp = true ∧ y.reqExpSign = true)

theorem synFacts_of_valid (feats : Features) (fmt : Format) (hv : FormatValid feats (unpack fmt.raw)) :
    SynFacts (Syn.of feats fmt) := by
  obtain ⟨_, _, hr3, _, _, _, _, hfl⟩ := hv
  have hr := radixSupported_range hr3
  have e := unpack_eta fmt
  rw [e.2.2.2.2.2.2.1] at hr
  cases h : feats.format
  · refine ⟨?_, ?_, ?_, ?_, ?_⟩ <;> simp [Syn.of, h, hr.1, hr.2]
  · simp only [h, if_true] at hfl
    obtain ⟨h1, h2, h3, _⟩ := hfl
    unfold ExponentFlagsOk at h1
    unfold MantissaSignOk at h2
    unfold ExponentSignOk at h3
    rw [e.1, e.2.1] at h1
    rw [e.2.2.1, e.2.2.2.1] at h2
    rw [e.2.2.2.2.1, e.2.2.2.2.2.1] at h3
    refine ⟨?_, ?_, ?_, ?_, ?_⟩
    · simp [Syn.of, h, hr.1]
    · simp [Syn.of, h, hr.2]
    · simpa [Syn.of, h] using h1
    · simpa [Syn.of, h] using h2
    · simpa [Syn.of, h] using h3

/-! ## punctuation is not a digit -/

theorem digitVal_mono {r R c : Nat} (h : digitVal R c = none) (hle : r ≤ R) : digitVal r c = none := by
  unfold digitVal at h ⊢
  cases hc : digitVal36 c with
  | none => rfl
  | some d =>
    simp only [hc] at h ⊢
    by_cases hd : d < R
    · simp [hd] at h
    · have : ¬ d < r := by omega
      simp [this]

theorem matchByte_digit_false (cased : Bool) (pre d R : Nat) (hd : d < 10) (hR : 10 ≤ R)
    (h : digitVal R pre = none) : matchByte cased pre (digitChar d) = false := by
  have hne : pre ≠ 48 + d := by
    intro h'
    subst h'
    have h1 : 48 ≤ 48 + d ∧ 48 + d ≤ 57 := by omega
    have h2 : d < R := by omega
    simp [digitVal, digitVal36, h1, h2] at h
  unfold matchByte eqUncased lower digitChar
  simp only [hd, if_true]
  cases cased
  · simp only [Bool.false_eq_true, if_false, decide_eq_false_iff_not]
    have h1 : ¬ (65 ≤ 48 + d ∧ 48 + d ≤ 90) := by omega
    simp only [h1, if_false]
    split <;> omega
  · simp only [if_true, decide_eq_false_iff_not]; omega

theorem render_second (dp expc er : Nat) (plusReq : Bool) (s : Shape) (hints : ∀ d ∈ s.ints, d < 10) (hne : s.ints ≠ []) :
    ∀ c, (s.render dp expc er plusReq).tail.head? = some c →
      (∃ d, d < 10 ∧ c = digitChar d) ∨ c = dp ∨ c = expc := by
  obtain ⟨ints, frac, exp⟩ := s
  intro c hc
  cases ints with
  | nil => exact absurd rfl hne
  | cons a rest =>
    cases rest with
    | cons b rest' =>
      simp [Shape.render, chars] at hc
      exact Or.inl ⟨b, hints b (by simp), hc.symm⟩
    | nil =>
      cases frac with
      | some fs =>
        simp [Shape.render, chars, fracText] at hc
        exact Or.inr (Or.inl hc.symm)
      | none =>
        cases exp with
        | some e =>
          simp [Shape.render, chars, fracText, expPart, expText] at hc
          exact Or.inr (Or.inr hc.symm)
        | none => simp [Shape.render, chars, fracText, expPart] at hc

theorem splitPrefix_none (y : Syn) (text : List Nat)
    (h : ∀ c, text.tail.head? = some c → (y.pre ≠ 0 && matchByte y.csPrefix y.pre c) = false) :
    splitPrefix y text = (false, text) := by
  unfold splitPrefix
  split
  · rename_i c cs
    have := h c (by simp)
    simp only [this]
    simp
  · rfl

/-- the base prefix does not match the decimal point or the exponent character under the prefix's case rule.
With a case-sensitive prefix this is part of the documented punctuation validity; with a case-insensitive prefix
(`x` vs decimal point `X`) it is **not** — see `Props.C08.finding_prefix_case`. -/
def PrefixClear (feats : Features) (fmt : Format) (dp expc : Nat) : Prop :=
  (Syn.of feats fmt).pre = 0 ∨
    (matchByte (Syn.of feats fmt).csPrefix (Syn.of feats fmt).pre dp = false ∧
     matchByte (Syn.of feats fmt).csPrefix (Syn.of feats fmt).pre expc = false)
instance (feats : Features) (fmt : Format) (dp expc : Nat) : Decidable (PrefixClear feats fmt dp expc) := by
  unfold PrefixClear; infer_instance

theorem syn_pre (feats : Features) (fmt : Format) :
    (Syn.of feats fmt).pre = 0 ∨ (feats.format = true ∧ (Syn.of feats fmt).pre = fmt.basePrefix) := by
  cases h : feats.format
  · left; simp [Syn.of, h]
  · right; simp [Syn.of, h]

/-- a case-sensitive prefix is clear by the documented option validity alone -/
theorem prefixClear_of_cased (feats : Features) (fmt : Format) (dp expc : Nat)
    (hp : OptionsPunctuationValid feats (unpack fmt.raw) expc dp) (hcs : (Syn.of feats fmt).csPrefix = true) :
    PrefixClear feats fmt dp expc := by
  rcases syn_pre feats fmt with h | ⟨hf, h⟩
  · exact Or.inl h
  · right
    obtain ⟨_, _, _, h4⟩ := hp
    obtain ⟨_, _, h5, h6, _, _⟩ := h4 hf
    rw [(unpack_eta fmt).2.2.2.2.2.2.2.2.1] at h5 h6
    rw [h, hcs]
    simp only [matchByte, if_true, decide_eq_false_iff_not]
    exact ⟨fun e => h5 e.symm, fun e => h6 e.symm⟩

theorem prefix_not_digit (feats : Features) (fmt : Format) (hv : FormatValid feats (unpack fmt.raw))
    (h10 : fmt.mantissaRadix = 10) (hpre : (Syn.of feats fmt).pre ≠ 0) :
    ∃ R, 10 ≤ R ∧ digitVal R (Syn.of feats fmt).pre = none := by
  rcases syn_pre feats fmt with h | ⟨hf, h⟩
  · exact absurd h hpre
  · obtain ⟨_, _, _, _, h5, _⟩ := hv
    refine ⟨(unpack fmt.raw).digitRadix, ?_, ?_⟩
    · unfold Unpacked.digitRadix
      rw [(unpack_eta fmt).2.2.2.2.2.2.2.1, h10]; omega
    · rw [h] at hpre ⊢
      unfold OptionalControl at h5
      rw [(unpack_eta fmt).2.2.2.2.2.2.2.2.1] at h5
      split at h5
      · rcases h5 with h5 | h5
        · exact absurd h5 hpre
        · exact h5.2.1
      · exact absurd h5 hpre

theorem splitPrefix_render (feats : Features) (fmt : Format) (hv : FormatValid feats (unpack fmt.raw))
    (h10 : fmt.mantissaRadix = 10) (dp expc er : Nat) (plusReq : Bool) (s : Shape)
    (hints : ∀ d ∈ s.ints, d < 10) (hne : s.ints ≠ []) (hclear : PrefixClear feats fmt dp expc) :
    splitPrefix (Syn.of feats fmt) (s.render dp expc er plusReq) = (false, s.render dp expc er plusReq) := by
  apply splitPrefix_none
  intro c hc
  by_cases hp : (Syn.of feats fmt).pre = 0
  · simp [hp]
  · have hcl : matchByte (Syn.of feats fmt).csPrefix (Syn.of feats fmt).pre dp = false ∧
        matchByte (Syn.of feats fmt).csPrefix (Syn.of feats fmt).pre expc = false := by
      rcases hclear with h | h
      · exact absurd h hp
      · exact h
    obtain ⟨R, hR, hdig⟩ := prefix_not_digit feats fmt hv h10 hp
    rcases render_second dp expc er plusReq s hints hne c hc with ⟨d, hd, rfl⟩ | rfl | rfl
    · simp [matchByte_digit_false _ _ d R hd hR hdig]
    · simp [hcl.1]
    · simp [hcl.2]

/-! ## the round trip on the shape level -/

theorem signOk_mant (y : Syn) (feats : Features) (fmt : Format) (neg : Bool)
    (h1 : y.reqMantSign = mantPlus feats fmt) (h2 : ¬ (y.noPosMant = true ∧ y.reqMantSign = true)) :
    signOk y.noPosMant y.reqMantSign (mantSign feats fmt neg) = true := by
  unfold signOk mantSign
  rw [h1] at h2 ⊢
  cases neg <;> cases hp : mantPlus feats fmt <;> cases hn : y.noPosMant <;> simp_all

theorem signOk_exp (y : Syn) (plusReq : Bool) (e : Int)
    (h1 : y.reqExpSign = plusReq) (h2 : ¬ (y.noPosExp = true ∧ y.reqExpSign = true)) :
    signOk y.noPosExp y.reqExpSign (expSignOf plusReq e) = true := by
  unfold signOk expSignOf
  rw [h1] at h2 ⊢
  by_cases he : e < 0
  · simp [he]
  · simp only [he, if_false]
    cases hp : plusReq <;> cases hn : y.noPosExp <;> simp_all

/-- **the decimal writer's bytes are a number of the documented grammar of the same format**, with the rounded
digits and the carried exponent -/
theorem writeDecimal_accepted (feats : Features) (fmt : Format) (wo : WOpts) (po : POpts) (ds : List Nat) (sci : Int)
    (neg : Bool) (hv : FormatValid feats (unpack fmt.raw)) (h10 : fmt.mantissaRadix = 10)
    (hdp : wo.dp = po.dp) (hexp : wo.exp = po.exp)
    (hpunct : OptionsPunctuationValid feats (unpack fmt.raw) po.exp po.dp)
    (hmx : wo.maxDigits ≠ some 0) (hin : WriterInput ds sci) (hclear : PrefixClear feats fmt po.dp po.exp) :
    ∃ l : FloatLit,
      grammarFloatComplete feats fmt po (signBytes (mantSign feats fmt neg) ++ writeDecimal fmt feats ds sci wo) =
        .num l (signBytes (mantSign feats fmt neg) ++ writeDecimal fmt feats ds sci wo).length ∧
      l.neg = neg ∧
      DigitsForm l.intDigits l.fracDigits l.exp (keptOf fmt feats ds sci wo)
        (sci + (if (truncateAndRound ds wo).2 then 1 else 0)) := by
  have hy := synFacts_of_valid feats fmt hv
  have hsd := shapeOf_digits fmt feats ds sci wo hin hmx
  have hsf := shapeOf_flags fmt feats ds sci wo
  have hR10 : (Syn.of feats fmt).radix = 10 := by rw [syn_radix, h10]
  -- decimal point / exponent character are not decimal digits
  obtain ⟨hc1, hc2, hne, _⟩ := hpunct
  have hRle : 10 ≤ (unpack fmt.raw).digitRadix := by
    unfold Unpacked.digitRadix; rw [(unpack_eta fmt).2.2.2.2.2.2.2.1, h10]; omega
  have hdpd : digitVal (Syn.of feats fmt).radix po.dp = none := by rw [hR10]; exact digitVal_mono hc1.2.1 hRle
  have hexd : digitVal (Syn.of feats fmt).radix po.exp = none := by rw [hR10]; exact digitVal_mono hc2.2.1 hRle
  rw [writeDecimal_shape, effFmt_exponentRadix, ← syn_expRadix feats fmt, hdp, hexp]
  have hints : ∀ d ∈ (shapeOf fmt feats ds sci wo).ints, d < (Syn.of feats fmt).radix := by
    rw [hR10]; exact hsd.ints_lt
  have hfrac : ∀ fs, (shapeOf fmt feats ds sci wo).frac = some fs → ∀ d ∈ fs, d < (Syn.of feats fmt).radix := by
    rw [hR10]; exact hsd.frac_lt
  have hpre := splitPrefix_render feats fmt hv h10 po.dp po.exp (Syn.of feats fmt).expRadix
    (plusReqOf (effFmt feats fmt) feats) (shapeOf fmt feats ds sci wo) hsd.ints_lt hsd.ints_ne hclear
  have hok : ShapeOk (Syn.of feats fmt) (plusReqOf (effFmt feats fmt) feats) (mantSign feats fmt neg)
      (shapeOf fmt feats ds sci wo) := by
    refine ⟨signOk_mant _ feats fmt neg (syn_reqMantSign feats fmt) hy.mantSign, hsd.ints_ne, hsd.frac_ne,
      fun _ => hsd.noLZ, ?_, ?_, ?_, ?_⟩
    · intro h; rw [syn_noExpNot] at h; exact hsf.noExp h
    · intro h
      have h' := h
      rw [syn_reqExpNot] at h'
      apply hsf.reqExp h'
      rw [← syn_noExpNot]
      cases hn : (Syn.of feats fmt).noExpNot
      · rfl
      · exact absurd ⟨hn, h⟩ hy.expFlags
    · intro h; rw [syn_noExpWoFrac] at h; exact hsf.expFrac h
    · intro e _; exact signOk_exp _ _ e (syn_reqExpSign feats fmt) hy.expSign
  have key := grammarFloatSyn_render (Syn.of feats fmt) po (mantSign feats fmt neg) (shapeOf fmt feats ds sci wo)
    (plusReqOf (effFmt feats fmt) feats) (by rw [hR10]; omega) hy.expRadix2 hy.expRadix36 hints hfrac hdpd hexd hne
    hpre hok
  refine ⟨_, key, ?_, hsd.form⟩
  unfold mantSign
  cases neg <;> cases mantPlus feats fmt <;> rfl

end LexVerif.Proof.RoundTrip
