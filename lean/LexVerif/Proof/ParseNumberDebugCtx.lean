import LexVerif.Proof.ParseNumberDebugBasic
/-!
# Proof.ParseNumberDebugCtx — what format validity gives the parser (`Ctx`)
-/
namespace LexVerif.Proof.PNDebug
open LexVerif LexVerif.Model

/-- the cargo feature `radix` enables `power-of-two` -/
def FeatsOk (f : Features) : Prop := f.radix = true → f.powerOfTwo = true

/-- byte `x` is accepted by a comparison against `v` (exact, or ASCII-case-insensitive) -/
def matchesB (x v : Nat) (cased : Bool) : Bool := if cased then x == v else eqIgnoreCase x v

/-- what format validity gives the parser; `c.fmt.digitSeparator` is the byte `step_unchecked` asserts on -/
structure Ctx (c : Cfg) : Prop where
  skipOk : ∀ k, c.skip k ≠ .unreachable
  nfbc : c.feats.format = false → c.bytesContiguous = true
  nfContig : c.feats.format = false → ∀ k, c.iterContiguous k = true
  sepNotDigM : ¬ IsDig c.mantissaRadix c.fmt.digitSeparator
  sepNotDigE : ¬ IsDig c.exponentRadix c.fmt.digitSeparator
  sepNotPlus : c.fmt.digitSeparator ≠ 43
  sepNotMinus : c.fmt.digitSeparator ≠ 45
  prefixOk : c.basePrefix ≠ 0 → c.iterContiguous .integer = true ∨
    matchesB c.fmt.digitSeparator c.basePrefix c.caseSensitiveBasePrefix = false
  suffixOk : c.baseSuffix ≠ 0 → c.bytesContiguous = true ∨
    matchesB c.fmt.digitSeparator c.baseSuffix c.caseSensitiveBaseSuffix = false
  r2 : 2 ≤ c.mantissaRadix
  r36 : c.mantissaRadix ≤ 36
  er36 : c.exponentRadix ≤ 36
  multi : ∀ k, canMultidigit c k = true → c.mantissaRadix ≤ 10
  pow : c.mantissaRadix ^ u64Step c.feats c.mantissaRadix ≤ pow2_64
  scale : c.mantissaRadix = c.exponentBase ∨ log2Radix c.mantissaRadix % log2Radix c.exponentBase = 0

/-- what `is_valid_options_punctuation` (plus the case-insensitive exclusion) gives -/
structure OCtx (c : Cfg) (o : Spec.POpts) : Prop where
  dpOk : c.bytesContiguous = true ∨ o.dp ≠ c.fmt.digitSeparator
  expOk : c.bytesContiguous = true ∨
    matchesB c.fmt.digitSeparator o.exp (c.caseSensitiveExponent && c.feats.format) = false

section validity
variable {feats : Features} {fmt : Format}

theorem fe_mantissa (h : (formatError feats fmt).isNone = true) : isValidRadix feats fmt.mantissaRadix = true := by
  unfold formatError at h
  cases hc : isValidRadix feats fmt.mantissaRadix with
  | true => rfl
  | false => simp [hc] at h

theorem fe_base (h : (formatError feats fmt).isNone = true) : isValidRadix feats fmt.exponentBase = true := by
  have h1 := fe_mantissa h
  unfold formatError at h
  cases hc : isValidRadix feats fmt.exponentBase with
  | true => rfl
  | false => simp [hc, h1] at h

theorem fe_expRadix (h : (formatError feats fmt).isNone = true) : isValidRadix feats fmt.exponentRadix = true := by
  have h1 := fe_mantissa h
  have h2 := fe_base h
  unfold formatError at h
  cases hc : isValidRadix feats fmt.exponentRadix with
  | true => rfl
  | false => simp [hc, h1, h2] at h

theorem fe_sep (h : (formatError feats fmt).isNone = true) :
    (if feats.format then isValidOptionalControl fmt fmt.digitSeparator else decide (fmt.digitSeparator = 0)) = true := by
  have h1 := fe_mantissa h
  have h2 := fe_base h
  have h3 := fe_expRadix h
  unfold formatError at h
  cases hc : (if feats.format then isValidOptionalControl fmt fmt.digitSeparator else decide (fmt.digitSeparator = 0)) with
  | true => rfl
  | false => simp [hc, h1, h2, h3] at h

theorem isValidRadix_le {r : Nat} (h : isValidRadix feats r = true) : 2 ≤ r ∧ r ≤ 36 := by
  unfold isValidRadix at h
  split at h
  · simpa using h
  · split at h
    · simp only [Bool.or_eq_true, decide_eq_true_eq] at h
      omega
    · simp only [decide_eq_true_eq] at h; omega

theorem isValidRadix_ten {r : Nat} (h : isValidRadix feats r = true) (hp : feats.powerOfTwo = false) (hf : FeatsOk feats) :
    r = 10 := by
  have hr : feats.radix = false := by
    cases hrr : feats.radix
    · rfl
    · have := hf hrr; simp [hp] at this
  unfold isValidRadix at h
  simpa [hr, hp] using h

theorem isNone_ite_some {c : Prop} [Decidable c] {a : String} {r : Option String}
    (h : (if c then some a else r).isNone = true) : ¬ c ∧ r.isNone = true := by
  split at h
  · simp at h
  · exact ⟨by assumption, h⟩

/-- the per-component "consecutive flag alone" check of `format_error_impl` -/
theorem fe_sepMask (h : (formatError feats fmt).isNone = true) (hf : feats.format = true) :
    (!fmt.bit 32 && !fmt.bit (32 + 3) && !fmt.bit (32 + 6) && fmt.bit (32 + 9)) = false ∧
    (!fmt.bit 33 && !fmt.bit (33 + 3) && !fmt.bit (33 + 6) && fmt.bit (33 + 9)) = false ∧
    (!fmt.bit 34 && !fmt.bit (34 + 3) && !fmt.bit (34 + 6) && fmt.bit (34 + 9)) = false := by
  unfold formatError at h
  simp only at h
  have h := (isNone_ite_some h).2
  have h := (isNone_ite_some h).2
  have h := (isNone_ite_some h).2
  have h := (isNone_ite_some h).2
  have h := (isNone_ite_some h).2
  have h := (isNone_ite_some h).2
  have h := (isNone_ite_some h).2
  rw [if_neg (by simp [hf])] at h
  have h := (isNone_ite_some h).2
  have h := (isNone_ite_some h).2
  have h := (isNone_ite_some h).2
  have h := (isNone_ite_some h).2
  have h := (isNone_ite_some h).2
  have h1 := isNone_ite_some h
  have h2 := isNone_ite_some h1.2
  have h3 := isNone_ite_some h2.2
  exact ⟨by simpa using h1.1, by simpa using h2.1, by simpa using h3.1⟩

end validity

theorem skip_ne_unreachable (c : Cfg) (h : (formatError c.feats c.fmt).isNone = true) (k : Comp) :
    c.skip k ≠ .unreachable := by
  cases hf : c.feats.format
  · cases k <;> simp [Cfg.skip, Cfg.sepFlags, Cfg.flag, Cfg.specialSep, hf, SepFlags.skip]
  · cases k
    · have := (fe_sepMask h hf).1
      simp only [Cfg.skip, Cfg.sepFlags, Cfg.flag, hf, if_true, Format.integerInternalSep, Format.integerLeadingSep,
        Format.integerTrailingSep, Format.integerConsecutiveSep]
      revert this
      cases c.fmt.bit 32 <;> cases c.fmt.bit 35 <;> cases c.fmt.bit 38 <;> cases c.fmt.bit 41 <;> simp [SepFlags.skip]
    · have := (fe_sepMask h hf).2.1
      simp only [Cfg.skip, Cfg.sepFlags, Cfg.flag, hf, if_true, Format.fractionInternalSep, Format.fractionLeadingSep,
        Format.fractionTrailingSep, Format.fractionConsecutiveSep]
      revert this
      cases c.fmt.bit 33 <;> cases c.fmt.bit 36 <;> cases c.fmt.bit 39 <;> cases c.fmt.bit 42 <;> simp [SepFlags.skip]
    · have := (fe_sepMask h hf).2.2
      simp only [Cfg.skip, Cfg.sepFlags, Cfg.flag, hf, if_true, Format.exponentInternalSep, Format.exponentLeadingSep,
        Format.exponentTrailingSep, Format.exponentConsecutiveSep]
      revert this
      cases c.fmt.bit 34 <;> cases c.fmt.bit 37 <;> cases c.fmt.bit 40 <;> cases c.fmt.bit 43 <;> simp [SepFlags.skip]
    · simp only [Cfg.skip]; split <;> simp

/-- with `Bytes::IS_CONTIGUOUS` no byte is a separator and `peek_1!/peek_n!` never move -/
theorem peekPred_contig (c : Cfg) (hbc : c.bytesContiguous = true) (p : Pred) (cnt : Nat) (b : Bytes) :
    peekPred c p cnt b = (b.slc[b.index]?, b) := by
  have hs : ∀ x, c.isSep x = false := by
    intro x
    simp only [Cfg.bytesContiguous, decide_eq_true_eq] at hbc
    simp [Cfg.isSep, hbc]
  unfold peekPred
  cases hv : b.slc[b.index]? with
  | none => rfl
  | some v => simp [hs]

theorem peek_contig (c : Cfg) (h : (formatError c.feats c.fmt).isNone = true) (hbc : c.bytesContiguous = true)
    (k : Comp) (b : Bytes) : peek c k b = .ok (b.slc[b.index]?, b) := by
  unfold peek
  have := skip_ne_unreachable c h k
  cases hs : c.skip k with
  | noskip => rfl
  | pred p => simp [peekPred_contig c hbc]
  | unreachable => exact absurd hs this

theorem scale_of_checkRadix (c : Cfg) (h : (formatError c.feats c.fmt).isNone = true)
    (hcr : checkRadix c.feats c.fmt = true) (hf : FeatsOk c.feats) :
    c.mantissaRadix = c.exponentBase ∨ log2Radix c.mantissaRadix % log2Radix c.exponentBase = 0 := by
  unfold Cfg.mantissaRadix Cfg.exponentBase
  by_cases heq : c.fmt.mantissaRadix = c.fmt.exponentBase
  · exact Or.inl heq
  · right
    cases hp : c.feats.powerOfTwo
    · have h1 := isValidRadix_ten (fe_mantissa h) hp hf
      have h2 := isValidRadix_ten (fe_base h) hp hf
      omega
    · unfold checkRadix at hcr
      have hn : (formatError c.feats c.fmt).isSome = false := by
        cases hx : formatError c.feats c.fmt <;> simp_all
      simp only [hn, hp, Bool.false_eq_true, if_false, Bool.true_and, ne_eq, heq, not_false_eq_true, decide_true,
        if_true, Bool.or_eq_true, Bool.and_eq_true, decide_eq_true_eq] at hcr
      rcases hcr with (((⟨h1, h2⟩ | ⟨h1, h2⟩) | ⟨h1, h2⟩) | ⟨h1, h2⟩) | ⟨h1, h2⟩ <;> rw [h1, h2] <;> decide

theorem isDig_mono {r r' x : Nat} (h : IsDig r x) (hr : r ≤ r') (h2 : 2 ≤ r) (hx : x < 256) : IsDig r' x := by
  unfold IsDig charToValidDigit at *
  split at h <;> split <;> (try split at h) <;> (try split at h) <;> (try split at h) <;>
    (try split) <;> (try split) <;> (try split) <;> omega

theorem matchesB_zero {v : Nat} (hv : v ≠ 0) (cased : Bool) : matchesB 0 v cased = false := by
  unfold matchesB
  cases cased
  · simp only [Bool.false_eq_true, if_false]
    cases h : eqIgnoreCase 0 v
    · rfl
    · unfold eqIgnoreCase lowerAscii at h
      simp at h
      split at h <;> omega
  · simp only [if_true]
    simp; omega

/-- the radix / separator-independent part -/
theorem Ctx.of_valid_gen (c : Cfg) (h : (formatError c.feats c.fmt).isNone = true)
    (hcr : checkRadix c.feats c.fmt = true) (hf : FeatsOk c.feats)
    (hpre : c.basePrefix ≠ 0 → c.iterContiguous .integer = true ∨
      matchesB c.fmt.digitSeparator c.basePrefix c.caseSensitiveBasePrefix = false)
    (hsuf : c.baseSuffix ≠ 0 → c.bytesContiguous = true ∨
      matchesB c.fmt.digitSeparator c.baseSuffix c.caseSensitiveBaseSuffix = false) : Ctx c := by
  have hm := fe_mantissa h
  have he := fe_expRadix h
  have hsepv := fe_sep h
  have hnf : c.feats.format = false → c.fmt.digitSeparator = 0 := by
    intro hfo; simpa [hfo] using hsepv
  have hdig : ∀ r, 2 ≤ r → r ≤ 36 → (r = c.fmt.mantissaRadix ∨ r = c.fmt.exponentRadix) →
      ¬ IsDig r c.fmt.digitSeparator := by
    intro r hr2 hr36 hrr
    cases hfo : c.feats.format
    · rw [hnf hfo]; exact not_isDig_zero hr36
    · intro hd
      simp only [hfo, if_true] at hsepv
      unfold isValidOptionalControl at hsepv
      simp only [Bool.and_eq_true] at hsepv
      have h1 := hsepv.1.1.1
      have hmono : IsDig (if c.fmt.mantissaRadix > c.fmt.exponentRadix then c.fmt.mantissaRadix else c.fmt.exponentRadix)
          c.fmt.digitSeparator := by
        refine isDig_mono hd ?_ hr2 (by unfold Format.digitSeparator Format.byteAt; omega)
        rcases hrr with rfl | rfl <;> split <;> omega
      unfold charToDigit at h1
      simp only at h1
      unfold IsDig at hmono
      rw [if_pos hmono] at h1
      simp at h1
  have hsign : c.fmt.digitSeparator ≠ 43 ∧ c.fmt.digitSeparator ≠ 45 := by
    cases hfo : c.feats.format
    · rw [hnf hfo]; omega
    · simp only [hfo, if_true] at hsepv
      unfold isValidOptionalControl at hsepv
      simp only [Bool.and_eq_true, ne_eq, decide_eq_true_eq] at hsepv
      exact ⟨hsepv.1.1.2, hsepv.1.2⟩
  refine ⟨skip_ne_unreachable c h, ?_, ?_, hdig _ (isValidRadix_le hm).1 (isValidRadix_le hm).2 (Or.inl rfl),
    hdig _ (isValidRadix_le he).1 (isValidRadix_le he).2 (Or.inr rfl), hsign.1, hsign.2, hpre, hsuf,
    (isValidRadix_le hm).1, (isValidRadix_le hm).2,
    (isValidRadix_le he).2, ?_, pow_u64Step _ _ hm, scale_of_checkRadix c h hcr hf⟩
  · intro hnf; simp [Cfg.bytesContiguous, Cfg.digitSeparator, hnf]
  · intro hnf k
    cases k <;> simp [Cfg.iterContiguous, Cfg.sepFlags, Cfg.flag, Cfg.specialSep, hnf, SepFlags.any]
  · intro k hk
    unfold canMultidigit at hk
    simp only [Bool.and_eq_true, Bool.or_eq_true, Bool.not_eq_true', decide_eq_true_eq] at hk
    rcases hk.2 with hp | hle
    · have := isValidRadix_ten hm hp hf
      unfold Cfg.mantissaRadix; omega
    · exact hle

theorem sep_zero_of_bc (c : Cfg) (h : (formatError c.feats c.fmt).isNone = true) (hbc : c.bytesContiguous = true) :
    c.fmt.digitSeparator = 0 := by
  have := fe_sep h
  cases hfo : c.feats.format
  · simpa [hfo] using this
  · simpa [Cfg.bytesContiguous, Cfg.digitSeparator, hfo] using hbc

/-- class 0: `Bytes::IS_CONTIGUOUS` -/
theorem Ctx.of_valid (c : Cfg) (h : (formatError c.feats c.fmt).isNone = true)
    (hcr : checkRadix c.feats c.fmt = true) (hf : FeatsOk c.feats) (hbc : c.bytesContiguous = true) : Ctx c := by
  have hs := sep_zero_of_bc c h hbc
  refine Ctx.of_valid_gen c h hcr hf ?_ ?_
  · intro hp; right; rw [hs]; exact matchesB_zero hp _
  · intro _; exact Or.inl hbc

theorem OCtx.of_bc (c : Cfg) (o : Spec.POpts) (hbc : c.bytesContiguous = true) : OCtx c o :=
  ⟨Or.inl hbc, Or.inl hbc⟩

/-- a contiguous component iterator (or any iterator of a contiguous `Bytes`) never skips -/
theorem peek_triv (c : Cfg) (cx : Ctx c) (k : Comp) (hk : c.bytesContiguous = true ∨ c.iterContiguous k = true)
    (b : Bytes) : peek c k b = .ok (b.slc[b.index]?, b) := by
  rcases hk with hbc | hic
  · unfold peek
    have := cx.skipOk k
    cases hs : c.skip k with
    | noskip => rfl
    | pred p => simp [peekPred_contig c hbc]
    | unreachable => exact absurd hs this
  · have hs : c.skip k = .noskip := by
      cases k
      · simp only [Cfg.iterContiguous, SepFlags.any, Bool.not_eq_true', Bool.or_eq_false_iff] at hic
        simp only [Cfg.skip]
        revert hic
        cases (c.sepFlags .integer) with | mk i l t cc => intro hic; simp_all [SepFlags.skip]
      · simp only [Cfg.iterContiguous, SepFlags.any, Bool.not_eq_true', Bool.or_eq_false_iff] at hic
        simp only [Cfg.skip]
        revert hic
        cases (c.sepFlags .fraction) with | mk i l t cc => intro hic; simp_all [SepFlags.skip]
      · simp only [Cfg.iterContiguous, SepFlags.any, Bool.not_eq_true', Bool.or_eq_false_iff] at hic
        simp only [Cfg.skip]
        revert hic
        cases (c.sepFlags .exponent) with | mk i l t cc => intro hic; simp_all [SepFlags.skip]
      · simp only [Cfg.iterContiguous, Bool.not_eq_true'] at hic
        simp [Cfg.skip, hic]
    simp [peek, hs]

end LexVerif.Proof.PNDebug
