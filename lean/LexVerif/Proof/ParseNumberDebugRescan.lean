import LexVerif.Proof.ParseNumberDebugBridge
import LexVerif.Proof.ParseNumberDebugSim
/-!
# Proof.ParseNumberDebugRescan — the many-digits re-scan of a stored slice in the debug build, for ANY separator predicate
whose re-scan is consistent with the first pass

`SliceRun c k b`: the release-build `parse_digits` of component `k` restarted in state `b` runs through the whole
buffer — so every byte `peek` returns on the way is a digit, never the separator. `parse_u64_digits` (debug build) walks
along that run: its `step_unchecked` is never on the digit separator and its overflow check never fires
(`u64Loop1_run_safe`). `skip_zeros` keeps the property (`skipZeros_u64ok`). The first pass provides it for the stored
slice (`firstPass_sliceRun`, from `rescan_pred2` / `rescan_itc_start`).
-/
set_option linter.unusedSimpArgs false
set_option linter.unusedVariables false
namespace LexVerif.Proof.PNDebug
open LexVerif LexVerif.Model LexVerif.Spec
open LexVerif.Props.C12 (Bytes.Valid incCount_spec peek_spec peek_some_in_range parseDigitsLoop_spec)
open LexVerif.Proof.PNTotal (Adv csum step_adv)
open LexVerif.Proof.Sep (Run slice slice_self slice_length advS peek_at_nonsep skipZerosLoop_along rescan_pred2
  rescan_itc_start rescan_empty isDigit_of_stop PeekStable)

variable {c : Cfg}

/-- the release-build `parse_digits` restarted in state `b` runs to the end of the buffer -/
def SliceRun (c : Cfg) (k : Comp) (b : Bytes) : Prop :=
  ∃ ds e, parseDigits (rel c) k c.mantissaRadix b = .ok (ds, e) ∧ b.slc[e.index]? = none

/-- what `parse_u64_digits` needs of the state it starts in: the old classes (`Good` iterator over digits / skipped
separators), or a non-contiguous iterator whose `parse_digits` runs through -/
def U64Ok (c : Cfg) (k : Comp) (b : Bytes) : Prop :=
  (Good c k ∧ DSRange c k b.slc b.index b.slc.length) ∨ (c.iterContiguous k = false ∧ SliceRun c k b)

theorem charToDigit_none_of_not_isDig {r x : Nat} (h : ¬ IsDig r x) : charToDigit x r = none := by
  unfold charToDigit
  unfold IsDig at h
  simp [h]

theorem sepRel (cx : Ctx c) : ∀ x, (rel c).isSep x = true → charToDigit x (rel c).mantissaRadix = none := by
  intro x hx
  have := isSep_eq cx (x := x) hx
  rw [this]
  exact charToDigit_none_of_not_isDig cx.sepNotDigM

theorem reachRel (cx : Ctx c) : ∀ k, (rel c).skip k ≠ .unreachable := cx.skipOk

theorem charToDigit_48 {r : Nat} (h : 2 ≤ r) : charToDigit 48 r = some 0 := by
  unfold charToDigit charToValidDigit
  split <;> simp <;> omega

theorem Safe.and {α : Type} {x : Except Err α} {P Q : α → Prop} (hx : Safe x P) (h : ∀ a, x = .ok a → Q a) :
    Safe x (fun a => P a ∧ Q a) := by
  cases x with
  | ok a => exact ⟨hx, h a rfl⟩
  | error e => cases e <;> simp_all [Safe]

/-- **`parse_u64_digits`' single-digit loop along a run of `parse_digits` that reaches the end of the buffer** (debug
build): every byte `peek` returns is a digit — `step_unchecked` is never on the separator, the overflow check holds -/
theorem u64Loop1_run_safe (cx : Ctx c) (k : Comp) :
    ∀ (fuel : Nat) (b e : Bytes) (ds : List Nat) (m step : Nat), Bytes.Valid b →
      parseDigitsLoop (rel c) k c.mantissaRadix fuel b = .ok (ds, e) → b.slc[e.index]? = none → MInv c m step →
      Safe (u64Loop1 c k fuel b m step) (fun r => Adv b r.1 ∧ MInv c r.2.1 r.2.2 ∧
        (r.2.2 = 0 ∨ r.1.index = b.slc.length)) := by
  intro fuel
  induction fuel with
  | zero => intro b e ds m step _ h; simp [parseDigitsLoop] at h
  | succ n ih =>
    intro b e ds m step hb hrun hend hinv
    obtain ⟨v, b1, hp, ha, hx, _⟩ := peek_gen cx k b hb
    rw [parseDigitsLoop.eq_2, peek_rel, hp] at hrun
    simp only [bind, Except.bind] at hrun
    unfold u64Loop1
    simp only [hp, bind, Except.bind]
    cases v with
    | none =>
      have hge : b1.slc.length ≤ b1.index := by
        rcases Nat.lt_or_ge b1.index b1.slc.length with h | h
        · have := hx; simp [h] at this
        · exact h
      have hv : b1.index ≤ b1.slc.length := ha.valid'
      refine ⟨ha, hinv, Or.inr ?_⟩
      have := ha.len; simp only; omega
    | some ch =>
      simp only at hrun ⊢
      have hxs : b1.slc[b1.index]? = some ch := hx.symm
      have hlt := get_lt hxs
      cases hdg : charToDigit ch c.mantissaRadix with
      | none =>
        exfalso
        simp only [hdg, pure, Except.pure, Except.ok.injEq, Prod.mk.injEq] at hrun
        rw [← hrun.2, ← ha.slc, hxs] at hend
        cases hend
      | some d =>
        have hyd : IsDig c.mantissaRadix ch := charToDigit_some hdg
        simp only [hdg, iterStep_rel] at hrun
        cases hrec : parseDigitsLoop (rel c) k c.mantissaRadix n
            (Bytes.incCount (rel c) k { b1 with index := b1.index + 1 }) with
        | error er => simp only [hrec] at hrun; cases hrun
        | ok r2 =>
          obtain ⟨ds2, e2⟩ := r2
          simp only [hrec, pure, Except.pure, Except.ok.injEq, Prod.mk.injEq] at hrun
          obtain ⟨_, he2⟩ := hrun
          subst he2
          split
          · next hs =>
            have hd : charToValidDigit ch c.mantissaRadix < c.mantissaRadix := hyd
            have hlt2 : m * c.mantissaRadix + charToValidDigit ch c.mantissaRadix
                < c.mantissaRadix ^ (u64Step c.feats c.mantissaRadix - (step - 1)) := by
              have e : u64Step c.feats c.mantissaRadix - (step - 1) = (u64Step c.feats c.mantissaRadix - step) + 1 := by
                have := hinv.1; omega
              rw [e]; exact horner_lt hinv.2 hd
            have hinv2 : MInv c (m * c.mantissaRadix + charToValidDigit ch c.mantissaRadix) (step - 1) :=
              ⟨by have := hinv.1; omega, hlt2⟩
            have hlt64 := hinv2.lt_pow2 cx
            have h1 : decide (m * c.mantissaRadix + charToValidDigit ch c.mantissaRadix ≥ pow2_64) = false := by
              simp; omega
            simp only [h1, Bool.and_false, Bool.false_eq_true, if_false]
            rw [iterStep_ok k b1 hlt (Or.inr (ne_sep_of_dig cx.sepNotDigM hxs hyd))]
            simp only
            rw [Nat.mod_eq_of_lt hlt64]
            have hi := incCount_spec c k { b1 with index := b1.index + 1 }
            have hadv : Adv b (Bytes.incCount c k { b1 with index := b1.index + 1 }) := adv_step_inc k ha hlt
            have hend2 : (Bytes.incCount c k { b1 with index := b1.index + 1 }).slc[e2.index]? = none := by
              rw [hi.1]; simp only; rw [ha.slc]; exact hend
            refine (ih _ e2 ds2 _ _ hadv.valid' hrec hend2 hinv2).mono ?_
            intro r ⟨ha2, hi2, hend3⟩
            rw [hi.1] at hend3
            simp only at hend3
            rw [ha.slc] at hend3
            exact ⟨hadv.trans ha2, hi2, hend3⟩
          · next hs =>
            exact ⟨ha, hinv, Or.inl (by simp only; omega)⟩

/-- `parse_u64_digits` from a state satisfying `U64Ok` -/
theorem parseU64Digits_safe2 (cx : Ctx c) (k : Comp) (b : Bytes) (m step : Nat) (hb : Bytes.Valid b)
    (hinv : MInv c m step) (h : U64Ok c k b) :
    Safe (parseU64Digits c k b m step) (fun r => Adv b r.1 ∧ MInv c r.2.1 r.2.2 ∧
      (r.2.2 = 0 ∨ r.1.index = b.slc.length)) := by
  rcases h with ⟨hg, hdig⟩ | ⟨hnc, ds, e, hrun, hend⟩
  · exact (parseU64Digits_safe cx k hg b m step hb hinv hdig).mono (fun r h => ⟨h.1, h.2.1, h.2.2.2⟩)
  · unfold parseU64Digits
    have hcm : canMultidigit c k = false := by simp [canMultidigit, hnc]
    simp only [hcm, Bool.and_false, Bool.false_eq_true, if_false, pure, Except.pure, bind, Except.bind]
    exact u64Loop1_run_safe cx k _ b e ds m step hb hrun hend hinv

theorem skipZeros_adv (cx : Ctx c) (k : Comp) (b : Bytes) (hb : Bytes.Valid b) (z : Nat) (b' : Bytes)
    (he : skipZeros c k b = .ok (z, b')) : Adv b b' :=
  (skipZeros_safe cx k b hb).of_eq_ok he

/-- `skip_zeros` keeps `U64Ok`: it walks along the run of `parse_digits` -/
theorem skipZeros_u64ok (cx : Ctx c) (k : Comp) (b : Bytes) (hb : Bytes.Valid b) (h : U64Ok c k b) (z : Nat) (b' : Bytes)
    (he : skipZeros c k b = .ok (z, b')) : U64Ok c k b' := by
  have hadv := skipZeros_adv cx k b hb z b' he
  rcases h with ⟨hg, hdig⟩ | ⟨hnc, ds, e, hrun, hend⟩
  · left
    refine ⟨hg, ?_⟩
    rw [hadv.slc]
    intro j h1 h2
    exact hdig j (by have := hadv.mono; omega) h2
  · right
    refine ⟨hnc, ?_⟩
    unfold skipZeros at he
    cases hl : skipZerosLoop c k (b.slc.length + 1) b with
    | error er => simp [hl, bind, Except.bind] at he
    | ok b1 =>
      simp only [hl, bind, Except.bind, pure, Except.pure, Except.ok.injEq, Prod.mk.injEq] at he
      obtain ⟨_, rfl⟩ := he
      rw [skipZerosLoop_rel cx k _ b hb] at hl
      unfold parseDigits at hrun
      obtain ⟨bz, z', g1, g2, g3, g4, g5, g6, g7, g8⟩ := skipZerosLoop_along (rel c) k c.mantissaRadix rfl
        (cx.skipOk k) (sepRel cx) (charToDigit_48 cx.r2) (b.slc.length + 1) b e ds hb hrun
      rw [hl] at g1
      simp only [Except.ok.injEq] at g1
      subst g1
      have hslc : b1.slc = b.slc := hadv.slc
      unfold SliceRun parseDigits
      rw [hslc]
      rcases Nat.lt_or_ge z' ds.length with hlt | hge
      · exact ⟨_, _, (g7 hlt).2, hend⟩
      · have hb1 := g8 (by omega)
        subst hb1
        refine ⟨[], b1, ?_, hend⟩
        rw [parseDigitsLoop.eq_2, peek_at_nonsep (rel c) k b1 (cx.skipOk k) (by
          intro x hx; rw [hslc, hend] at hx; cases hx)]
        simp only [hslc, hend, bind, Except.bind, pure, Except.pure]

end LexVerif.Proof.PNDebug
