import LexVerif.Proof.DragonboxShortest
/-!
# Proof.GrisuInterval — the oracle's rounding interval of ANY finite non-zero float in terms of the model's accessors

(`DragonboxShortest.interval_normal` covers the floats with a non-zero mantissa field; Grisu needs all of them.)
The lower end is `4m-1` (units `2^(e-2)`) exactly on a binade boundary above the smallest normal, `4m-2` otherwise; Grisu
uses `4m-1` whenever `m` is the hidden bit, which is never below the oracle's.
-/
namespace LexVerif.Proof.GrisuInterval
open LexVerif.Spec LexVerif.Proof.RoundNE LexVerif.Model.Dragonbox LexVerif.Proof.DragonboxSpec
open LexVerif.Proof.DragonboxShortest

theorem interval_all (t : FTy) (bits : Nat) (h0 : 0 < bits) (hfin : bits < (fmtOf t).infBits) :
    ∃ lo, interval (fmtOf t) bits =
      { v := 4 * t.mantissa bits, lo := lo, hi := 4 * t.mantissa bits + 2,
        e2 := t.exponent bits - 2, incl := decide (t.mantissa bits % 2 = 0) }
    ∧ lo ≤ (if t.mantissa bits = t.hiddenBit then 4 * t.mantissa bits - 1 else 4 * t.mantissa bits - 2)
    ∧ 1 ≤ t.mantissa bits ∧ t.mantissa bits < 2 ^ (fmtOf t).p
    ∧ t.denormalExponent ≤ t.exponent bits
    ∧ t.exponent bits ≤ ((2 ^ t.exponentSize.toNat - 2 : Nat) : Int) - t.exponentBias
    ∧ (t.exponent bits ≠ t.denormalExponent → 2 ^ ((fmtOf t).p - 1) ≤ t.mantissa bits) := by
  cases t with
  | f32 =>
    have hfin' : bits < 255 * 2 ^ 23 := hfin
    obtain ⟨hM, hE, hmask⟩ := fields32 bits
    obtain ⟨_, _, _, c4, c5, c6, c7, _, c9⟩ := consts32
    have hiv : interval (fmtOf FTy.f32) bits = _ := interval_f32 bits
    rw [decode_f32] at hiv
    have he : bits / 2 ^ 23 % 2 ^ 8 = bits / 2 ^ 23 := Nat.mod_eq_of_lt (by omega)
    have hlt : bits / 2 ^ 23 < 255 := by omega
    have hmf := Nat.mod_lt bits (Nat.two_pow_pos 23)
    have hd := Nat.div_add_mod bits (2 ^ 23)
    rw [c4, c5, c6, c7, c9]
    generalize bits / 2 ^ 23 % 2 ^ 8 = e at *
    generalize bits % 2 ^ 23 = mf at *
    by_cases h : e = 0
    · rw [if_pos h] at hiv hM hE
      dsimp only at hiv
      rw [hiv, hM, hE]
      refine ⟨_, rfl, ?_, by omega, by omega, by omega, by omega, by omega⟩
      rw [if_neg (by omega : ¬ (mf = 2 ^ 23 ∧ e > 1))]
      split <;> omega
    · rw [if_neg h] at hiv hM hE
      dsimp only at hiv
      rw [hiv, hM, hE]
      refine ⟨(if mf + 2 ^ 23 = 2 ^ 23 ∧ e > 1 then 4 * (mf + 2 ^ 23) - 1 else 4 * (mf + 2 ^ 23) - 2), ?_, ?_,
        by omega, by omega, by omega, by omega, by omega⟩
      · congr 1
        omega
      · split <;> split <;> omega
  | f64 =>
    have hfin' : bits < 2047 * 2 ^ 52 := hfin
    obtain ⟨hM, hE, hmask⟩ := fields64 bits
    obtain ⟨_, _, _, c4, c5, c6, c7, _, c9⟩ := consts64
    have hiv : interval (fmtOf FTy.f64) bits = _ := interval_f64 bits
    rw [decode_f64] at hiv
    have he : bits / 2 ^ 52 % 2 ^ 11 = bits / 2 ^ 52 := Nat.mod_eq_of_lt (by omega)
    have hlt : bits / 2 ^ 52 < 2047 := by omega
    have hmf := Nat.mod_lt bits (Nat.two_pow_pos 52)
    have hd := Nat.div_add_mod bits (2 ^ 52)
    rw [c4, c5, c6, c7, c9]
    generalize bits / 2 ^ 52 % 2 ^ 11 = e at *
    generalize bits % 2 ^ 52 = mf at *
    by_cases h : e = 0
    · rw [if_pos h] at hiv hM hE
      dsimp only at hiv
      rw [hiv, hM, hE]
      refine ⟨_, rfl, ?_, by omega, by omega, by omega, by omega, by omega⟩
      rw [if_neg (by omega : ¬ (mf = 2 ^ 52 ∧ e > 1))]
      split <;> omega
    · rw [if_neg h] at hiv hM hE
      dsimp only at hiv
      rw [hiv, hM, hE]
      refine ⟨(if mf + 2 ^ 52 = 2 ^ 52 ∧ e > 1 then 4 * (mf + 2 ^ 52) - 1 else 4 * (mf + 2 ^ 52) - 2), ?_, ?_,
        by omega, by omega, by omega, by omega, by omega⟩
      · congr 1
        omega
      · split <;> split <;> omega

end LexVerif.Proof.GrisuInterval
