import LexVerif.Proof.ParseNumberTotalMain
import LexVerif.Proof.ParseIntFormatSimple
/-!
# Proof.ParseIntFormatTotal — the format-feature integer model is total (C10, release build, EVERY valid format)

Invariant carried through every phase of `Model.ParseIntFormat.algorithm`: the iterator is a later state of the same
buffer (`PNTotal.Adv`: same slice, cursor inside the buffer, digit counts grow at most as fast as the cursor). From it:
no unchecked step leaves the buffer (`Err.fault "unchecked"`), no loop runs out of fuel (`Err.fault "fuel"`: every
`next()` that yields a byte moves the cursor), `unreachable!()` of the separator dispatch is excluded by
`format.is_valid()`, and every index handed to `Ok` / `Error` is `≤ length` — including the `usize` subtractions
`cursor - zeros`, `cursor - 1` (they cannot wrap: `zeros ≤ cursor` follows from the count part of `Adv`).
Separators (all 15 skip predicates), base prefix, base suffix and `no_integer_leading_zeros` are all covered.
-/
namespace LexVerif.Proof.PIF
open LexVerif LexVerif.Spec LexVerif.Model LexVerif.Model.ParseIntFormat LexVerif.Proof.PNTotal

/-- acceptable results: `Ok` with a count inside the input, `Error::Kind(i)` with `i` inside the input; never the
model's FAULT (unchecked step / slice / fuel) and never PANIC -/
def Total (len : Nat) : Res → Prop
  | .ok (_, n) => n ≤ len
  | .error (.err _ i) => i ≤ len
  | .error _ => False

theorem Total.mono {n m : Nat} (h : n ≤ m) {r : Res} (hr : Total n r) : Total m r := by
  cases r with
  | ok p => obtain ⟨v, k⟩ := p; simp only [Total] at *; omega
  | error x => cases x <;> simp only [Total] at * <;> omega

theorem Total.err {n i : Nat} {k : String} (h : i ≤ n) : Total n (err k i) := h

/-- the iterator lives in a buffer of length `n` -/
def Inb (n : Nat) (b : Bytes) : Prop := b.slc.length = n ∧ b.index ≤ n

theorem Inb.adv {n : Nat} {b b' : Bytes} (h : Inb n b) (ha : Adv b b') : Inb n b' :=
  ⟨by rw [ha.len]; exact h.1, by have := ha.valid; rw [h.1] at this; exact this⟩

theorem Inb.valid {n : Nat} {b : Bytes} (h : Inb n b) : b.index ≤ b.slc.length := by rw [h.1]; exact h.2

/-- a statement sequence with early return: falls through with the iterator inside the buffer, or returns a total result -/
def FlowTot (n : Nat) : Flow (Bytes × Nat) → Prop
  | .ok (b, _) => Inb n b
  | .error r => Total n r

variable {e : Env}

theorem intoOk_total {n : Nat} (value idx cnt : Nat) (h : idx ≤ n) : Total n (intoOk e value idx cnt) := by
  unfold intoOk; split
  · exact h
  · exact h

theorem invalidDigit_total (hd : e.c.debug = false) {n : Nat} (value idx cnt : Nat) (h1 : 1 ≤ idx) (h : idx ≤ n + 1) :
    Total n (invalidDigit e value idx cnt) := by
  have hs : usizeSub e.c.debug idx 1 = .ok (idx - 1) := by simp [usizeSub, h1]
  simp only [invalidDigit, hs]
  split
  · exact intoOk_total _ _ _ (by omega)
  · exact Total.err (by omega)

/-- `next()`: the iterator stays in the buffer, and a byte that is handed out moved the cursor -/
theorem iterNext_tot2 (hc : Rel e.c) (b : Bytes) (hv : b.index ≤ b.slc.length) :
    ∃ v b', iterNext e.c .integer b = .ok (v, b') ∧ Adv b b' ∧ (v ≠ none → b.index < b'.index) := by
  obtain ⟨x, b1, hp, ha, hx, hcs⟩ := peek_tot hc .integer b hv
  unfold iterNext
  simp only [hp, bind, Except.bind, pure, Except.pure]
  cases x with
  | none => exact ⟨none, b1, rfl, ha, by simp⟩
  | some y =>
    simp only
    have hlt := some_lt hx
    have ha1 : Adv b { b1 with index := b1.index + 1 } := ha.trans (step_adv b1 1 hlt)
    have hm := ha.mono
    refine ⟨_, _, rfl, ?_, ?_⟩
    · split
      · exact incCount_adv (c := e.c) .integer ha1 (by simp only [csum] at *; omega)
      · exact ha1
    · intro _
      split
      · rw [(LexVerif.Props.C12.incCount_spec e.c .integer _).2]; simp only; omega
      · simp only; omega

theorem fmtInvalidDigit_total (hc : Rel e.c) {n : Nat} (b : Bytes) (hb : Inb n b) (h1 : 1 ≤ b.index)
    (ch start value : Nat) (isEnd : Bool) (r : Res) (h : fmtInvalidDigit e b ch start value isEnd = .ret r) :
    Total n r := by
  have hd := hc.hd
  have fin : ∀ b' : Bytes, Inb n b' → 1 ≤ b'.index →
      Total n (invalidDigit e value b'.cursor (b'.iterCount e.c .integer)) := by
    intro b' hb' h1'
    exact invalidDigit_total hd _ _ _ h1' (by have := hb'.2; simp only [Bytes.cursor]; omega)
  have hsub : ∀ a c : Nat, ∀ x, usizeSub false a c ≠ .error x := by
    intro a c x; unfold usizeSub; split
    · simp
    · simp
  unfold fmtInvalidDigit at h
  simp only [hd, Bool.false_and, Bool.false_eq_true, if_false] at h
  split at h
  · split at h
    · next x hx => exact absurd hx (hsub _ _ _)
    · split at h
      · split at h
        · cases h
        · split at h
          · next hne =>
            have hlt : b.index < b.slc.length := by
              simp only [Bytes.isBufferEmpty, Bool.not_eq_true', decide_eq_false_iff_not, ge_iff_le, Nat.not_le] at hne
              exact hne
            have hst : stepChecked e.c b = .ok { b with index := b.index + 1 } := by
              simp only [stepChecked, ge_iff_le, Nat.not_le.mpr hlt, if_false, iterStep_rel hc]
            rw [hst] at h
            simp only [Inv.ret.injEq] at h
            rw [← h]
            exact fin _ ⟨hb.1, by have := hb.1; simp only; omega⟩ (by simp only; omega)
          · simp only [Inv.ret.injEq] at h; rw [← h]; exact fin b hb h1
      · simp only [Inv.ret.injEq] at h; rw [← h]; exact fin b hb h1
  · simp only [Inv.ret.injEq] at h; rw [← h]; exact fin b hb h1

theorem parse1Unchecked_total (hc : Rel e.c) {n : Nat} (sub isEnd : Bool) (start : Nat) :
    ∀ (fuel : Nat) (b : Bytes) (value : Nat), Inb n b → n - b.index < fuel →
      FlowTot n (parse1Unchecked e sub isEnd start fuel b value) := by
  intro fuel
  induction fuel with
  | zero => intro b v hb h; omega
  | succ f ih =>
    intro b value hb hf
    obtain ⟨v, b', hn, ha, hlt⟩ := iterNext_tot2 hc b hb.valid
    have hb' := hb.adv ha
    rw [parse1Unchecked, hn]
    cases v with
    | none => exact hb'
    | some ch =>
      have hlt := hlt (by simp)
      simp only
      cases hdg : ParseInt.charToDigit ch e.radix with
      | none =>
        simp only
        cases hfi : fmtInvalidDigit e b' ch start value isEnd with
        | brk => exact hb'
        | ret r => exact fmtInvalidDigit_total hc b' hb' (by omega) ch start value isEnd r hfi
      | some d =>
        simp only
        exact ih b' _ hb' (by have := hb'.2; omega)

theorem parse1Checked_total (hc : Rel e.c) {n : Nat} (sub : Bool) (start : Nat) :
    ∀ (fuel : Nat) (b : Bytes) (value : Nat), Inb n b → n - b.index < fuel →
      FlowTot n (parse1Checked e sub start fuel b value) := by
  intro fuel
  induction fuel with
  | zero => intro b v hb h; omega
  | succ f ih =>
    intro b value hb hf
    obtain ⟨v, b', hn, ha, hlt⟩ := iterNext_tot2 hc b hb.valid
    have hb' := hb.adv ha
    rw [parse1Checked, hn]
    cases v with
    | none => exact hb'
    | some ch =>
      have hlt := hlt (by simp)
      simp only
      cases hdg : ParseInt.charToDigit ch e.radix with
      | none =>
        simp only
        cases hfi : fmtInvalidDigit e b' ch start value true with
        | brk => exact hb'
        | ret r => exact fmtInvalidDigit_total hc b' hb' (by omega) ch start value true r hfi
      | some d =>
        simp only
        cases hm : ParseInt.mulAddChecked e.t sub value e.radixT d with
        | some w => exact ih b' _ hb' (by have := hb'.2; omega)
        | none =>
          have hs : usizeSub e.c.debug b'.cursor 1 = .ok (b'.index - 1) := by
            simp only [usizeSub, Bytes.cursor]; exact if_pos (show 1 ≤ b'.index by omega)
          simp only [hs]
          exact (show b'.index - 1 ≤ n by have := hb'.2; omega)

theorem loop8_noerr (t : IntTy) (r : Nat) (sub : Bool) (rest : List Nat) (v cur : Nat) (m : ParseInt.MRes) :
    ParseInt.loop8 t r sub rest v cur ≠ .error m := by
  fun_induction ParseInt.loop8 t r sub rest v cur with
  | case1 b0 b1 b2 b3 b4 b5 b6 b7 tl value cursor bytes h8 hlen => simp only [List.length_cons] at hlen; omega
  | case2 b0 b1 b2 b3 b4 b5 b6 b7 tl value cursor bytes h8 hlen ih => exact ih
  | case3 => simp
  | case4 => simp

theorem loop4_noerr (t : IntTy) (r : Nat) (sub : Bool) (rest : List Nat) (v cur : Nat) (m : ParseInt.MRes) :
    ParseInt.loop4 t r sub rest v cur ≠ .error m := by
  fun_induction ParseInt.loop4 t r sub rest v cur with
  | case1 b0 b1 b2 b3 tl value cursor bytes h8 hlen => simp only [List.length_cons] at hlen; omega
  | case2 b0 b1 b2 b3 tl value cursor bytes h8 hlen ih => exact ih
  | case3 => simp
  | case4 => simp

theorem multiLoop_total (hc : Rel e.c) {n : Nat} (sub : Bool) (b : Bytes) (value : Nat) (hb : Inb n b) :
    FlowTot n (multiLoop e sub b value) := by
  have hlen : b.asSlice.length = n - b.index := by simp only [Bytes.asSlice, List.length_drop, hb.1]
  unfold multiLoop
  simp only [hc.hd, Bool.false_and, Bool.false_eq_true, if_false]
  split
  · split
    · next m hl =>
      split at hl
      · exact absurd hl (loop8_noerr _ _ _ _ _ _ _)
      · exact absurd hl (loop4_noerr _ _ _ _ _ _ _)
    · next rest' v' cur' hl =>
      have key : ∃ k, k ≤ b.asSlice.length ∧ rest' = b.asSlice.drop k ∧ cur' = b.index + k := by
        split at hl
        · exact loop8_ok _ _ _ _ _ _ _ _ _ hl
        · exact loop4_ok _ _ _ _ _ _ _ _ _ hl
      obtain ⟨k, hk, _, hc'⟩ := key
      exact ⟨hb.1, by have := hb.2; simp only; omega⟩
  · exact hb

theorem parseDigitsUnchecked_total (hc : Rel e.c) {n : Nat} (sub isEnd : Bool) (start : Nat) (b : Bytes) (value : Nat)
    (hb : Inb n b) : FlowTot n (parseDigitsUnchecked e sub isEnd start b value) := by
  have hm := multiLoop_total hc sub b value hb
  unfold parseDigitsUnchecked
  cases hml : multiLoop e sub b value with
  | error r => rw [hml] at hm; exact hm
  | ok p =>
    obtain ⟨b1, v1⟩ := p
    rw [hml] at hm
    simp only
    exact parse1Unchecked_total hc sub isEnd start _ b1 v1 hm (by have := hm.1; have := hm.2; omega)

theorem FlowTot.mono {n m : Nat} (h : n ≤ m) {x : Flow (Bytes × Nat)} (hx : FlowTot n x) :
    match x with | .ok _ => True | .error r => Total m r := by
  cases x with
  | ok p => trivial
  | error r => exact Total.mono h hx

theorem parseDigitsChecked_total (hc : Rel e.c) {n : Nat} (sub : Bool) (start : Nat) (b : Bytes) (value od : Nat)
    (hb : Inb n b) : FlowTot n (parseDigitsChecked e sub start b value od) := by
  unfold parseDigitsChecked
  have tail : ∀ (b1 : Bytes) (v1 : Nat), Inb n b1 → FlowTot n (parse1Checked e sub start (b1.slc.length + 1) b1 v1) :=
    fun b1 v1 h1 => parse1Checked_total hc sub start _ b1 v1 h1 (by have := h1.1; have := h1.2; omega)
  by_cases hct : e.contig = true
  · simp only [hct, if_true]
    by_cases hlt : min b.slc.length (od + b.index) < b.index
    · have := hb.1; have := hb.2; omega
    · simp only [hlt, if_false]
      have hend : min b.slc.length (od + b.index) ≤ n := by have := hb.1; omega
      have hsm : Inb (min b.slc.length (od + b.index)) ⟨b.slc.take (min b.slc.length (od + b.index)), b.index, 0, 0, 0⟩ :=
        ⟨by simp only [List.length_take]; omega, by show b.index ≤ _; omega⟩
      have hu := parseDigitsUnchecked_total hc sub false start _ value hsm
      cases hpu : parseDigitsUnchecked e sub false start
          ⟨b.slc.take (min b.slc.length (od + b.index)), b.index, 0, 0, 0⟩ value with
      | error r => rw [hpu] at hu; exact Total.mono hend hu
      | ok p =>
        obtain ⟨b1, v1⟩ := p
        simp only
        exact tail _ _ ⟨hb.1, by have := hb.1; simp only; omega⟩
  · simp only [hct, Bool.false_eq_true, if_false]
    exact tail _ _ hb

/-! ## sign, prefix / leading zeros, digit phase -/

theorem parseSign_total (hc : Rel e.c) (s : List Nat) :
    (∀ x, ParseIntFormat.parseSign e (Bytes.new s) = .error x → Total s.length (.error x)) ∧
    (∀ neg b, ParseIntFormat.parseSign e (Bytes.new s) = .ok (neg, b) → Inb s.length b ∧ csum b = 0) := by
  have hst : ∀ b : Bytes, b.index < b.slc.length →
      (if b.index ≥ b.slc.length then (.error (.fault "unchecked") : Except Err Bytes) else b.step e.c) =
        .ok { b with index := b.index + 1 } := by
    intro b h; rw [if_neg (by omega), bstep_rel hc]
  have h0 : Inb s.length (Bytes.new s) ∧ csum (Bytes.new s) = 0 := ⟨⟨rfl, Nat.zero_le _⟩, rfl⟩
  constructor
  · intro x h
    unfold ParseIntFormat.parseSign at h
    simp only [Bytes.cursor] at h
    split at h
    · next hf =>
      have hlt : (Bytes.new s).index < (Bytes.new s).slc.length := some_lt hf.symm
      split at h
      · rw [hst _ hlt] at h; cases h
      · cases h; exact Nat.zero_le _
    · next hf =>
      have hlt : (Bytes.new s).index < (Bytes.new s).slc.length := some_lt hf.symm
      split at h
      · rw [hst _ hlt] at h; cases h
      · split at h
        · cases h; exact Nat.zero_le _
        · cases h
    · split at h
      · cases h; exact Nat.zero_le _
      · cases h
  · intro neg b h
    unfold ParseIntFormat.parseSign at h
    simp only [Bytes.cursor] at h
    have hstep : ∀ hlt : (Bytes.new s).index < (Bytes.new s).slc.length,
        Inb s.length { Bytes.new s with index := (Bytes.new s).index + 1 } ∧
          csum { Bytes.new s with index := (Bytes.new s).index + 1 } = 0 :=
      fun hlt => ⟨⟨rfl, by simp only [Bytes.new] at hlt ⊢; omega⟩, rfl⟩
    split at h
    · next hf =>
      have hlt : (Bytes.new s).index < (Bytes.new s).slc.length := some_lt hf.symm
      split at h
      · rw [hst _ hlt] at h; cases h; exact hstep hlt
      · cases h
    · next hf =>
      have hlt : (Bytes.new s).index < (Bytes.new s).slc.length := some_lt hf.symm
      split at h
      · rw [hst _ hlt] at h; cases h; exact hstep hlt
      · split at h
        · cases h
        · cases h; exact h0
    · split at h
      · cases h
      · cases h; exact h0

/-- number of zeros reported by `skip_zeros` is at most the distance the cursor moved, for a buffer whose counts do
not exceed its cursor -/
theorem iterCount_diff_le (c : Cfg) {b b' : Bytes} (ha : Adv b b') (h0 : csum b = 0) :
    b'.iterCount c .integer - b.iterCount c .integer ≤ b'.index := by
  have hcnt := ha.cnt
  simp only [Bytes.iterCount]
  split
  · omega
  · simp only [csum] at *; omega

theorem readPrefix_total (hc : Rel e.c) {n : Nat} (b1 : Bytes) (hb1 : Inb n b1) (zeros start : Nat) :
    (∀ r, readPrefix e b1 zeros start = .error r → Total n r) ∧
    (∀ p b2 st, readPrefix e b1 zeros start = .ok (p, b2, st) → Inb n b2 ∧ b1.index ≤ b2.index) := by
  obtain ⟨hit, b2, hr, ha2⟩ := readIfValue_tot hc .integer e.c.basePrefix e.c.caseSensitiveBasePrefix b1 hb1.valid
  have hb2 := hb1.adv ha2
  constructor
  · intro r h
    unfold readPrefix at h
    split at h
    · rw [hr] at h
      cases hit with
      | true =>
        simp only at h
        split at h
        · cases h; exact (show b2.index ≤ n from hb2.2)
        · cases h
      | false => cases h
    · cases h
  · intro p b3 st h
    unfold readPrefix at h
    split at h
    · rw [hr] at h
      cases hit with
      | true =>
        simp only at h
        split at h
        · cases h
        · cases h; exact ⟨hb2, ha2.mono⟩
      | false => cases h; exact ⟨hb2, ha2.mono⟩
    · cases h; exact ⟨hb1, Nat.le_refl _⟩

theorem leadingZeroCheck_total (hc : Rel e.c) {n : Nat} (isPrefix : Bool) (b2 : Bytes) (hb2 : Inb n b2)
    (zeros start : Nat) (hz : zeros ≤ b2.index) : FlowTot n (leadingZeroCheck e isPrefix b2 zeros start) := by
  have hd := hc.hd
  unfold leadingZeroCheck
  split
  · have hs : usizeSub e.c.debug b2.cursor zeros = .ok (b2.index - zeros) := by
      simp only [usizeSub, Bytes.cursor]; exact if_pos hz
    simp only [hs]
    split
    · exact (show b2.index - zeros ≤ n by have := hb2.2; omega)
    · obtain ⟨v, b3, hp, ha3, _, _⟩ := peek_tot hc .integer b2 hb2.valid
      have hb3 := hb2.adv ha3
      rw [hp]
      cases v with
      | some ch =>
        simp only
        split
        · exact (show b2.index - zeros ≤ n by have := hb2.2; omega)
        · exact invalidDigit_total hd _ _ _ (by omega) (by have := hb3.2; simp only [Bytes.cursor]; omega)
      | none => exact intoOk_total _ _ _ hb3.2
  · exact hb2

theorem prefixZeros_total (hc : Rel e.c) {n : Nat} (b : Bytes) (hb : Inb n b) (h0 : csum b = 0) (start : Nat) :
    FlowTot n (prefixZeros e b start) := by
  unfold prefixZeros
  split
  · obtain ⟨zeros, b1, hsz, ha1⟩ := skipZeros_tot hc .integer b hb.valid
    have hz : zeros ≤ b1.index := by
      have := iterCount_diff_le e.c ha1 h0
      unfold skipZeros at hsz
      cases hl : skipZerosLoop e.c .integer (b.slc.length + 1) b with
      | error x => simp [hl, bind, Except.bind] at hsz
      | ok b2 =>
        simp only [hl, bind, Except.bind, pure, Except.pure, Except.ok.injEq, Prod.mk.injEq] at hsz
        obtain ⟨h1, h2⟩ := hsz
        subst h2; subst h1; exact this
    have hb1 := hb.adv ha1
    simp only [hsz]
    have hrp := readPrefix_total hc b1 hb1 zeros (start + zeros)
    cases hx : readPrefix e b1 zeros (start + zeros) with
    | error r => exact hrp.1 r hx
    | ok p =>
      obtain ⟨isPrefix, b2, start2⟩ := p
      have hrp2 := hrp.2 isPrefix b2 start2 hx
      exact leadingZeroCheck_total hc isPrefix b2 hrp2.1 zeros start2 (by have := hrp2.2; omega)
  · exact hb

theorem negBlock_total (hc : Rel e.c) {n : Nat} (co isNeg : Bool) (b : Bytes) (hb : Inb n b) (start : Nat) :
    FlowTot n (negBlock e co isNeg b start) := by
  unfold negBlock
  split
  · exact parseDigitsUnchecked_total hc _ _ _ _ _ hb
  · exact hb

theorem mainBlock_total (hc : Rel e.c) {n : Nat} (co isNeg : Bool) (b : Bytes) (hb : Inb n b) (value start od : Nat) :
    FlowTot n (mainBlock e co isNeg b value start od) := by
  unfold mainBlock
  split
  · exact parseDigitsUnchecked_total hc _ _ _ _ _ hb
  · split
    · exact parseDigitsChecked_total hc _ _ _ _ _ hb
    · exact parseDigitsChecked_total hc _ _ _ _ _ hb

theorem digitsPhase_total (hc : Rel e.c) {n : Nat} (isNeg : Bool) (b : Bytes) (hb : Inb n b) (start : Nat) :
    match digitsPhase e isNeg b start with
    | .ok r => Total n r
    | .error r => Total n r := by
  unfold digitsPhase digitsBody
  simp only [hc.hd, Bool.false_and, Bool.false_eq_true, if_false]
  have h1 := negBlock_total hc (decide (b.asSlice.length ≤ ParseInt.overflowDigits e.t e.radix)) isNeg b hb start
  cases hn : negBlock e (decide (b.asSlice.length ≤ ParseInt.overflowDigits e.t e.radix)) isNeg b start with
  | error r => rw [hn] at h1; exact h1
  | ok p =>
    obtain ⟨b1, v1⟩ := p
    rw [hn] at h1
    simp only
    have h2 := mainBlock_total hc (decide (b.asSlice.length ≤ ParseInt.overflowDigits e.t e.radix)) isNeg b1 h1 v1 start
      (ParseInt.overflowDigits e.t e.radix)
    cases hm : mainBlock e (decide (b.asSlice.length ≤ ParseInt.overflowDigits e.t e.radix)) isNeg b1 v1 start
        (ParseInt.overflowDigits e.t e.radix) with
    | error r => rw [hm] at h2; exact h2
    | ok p2 =>
      obtain ⟨b2, v2⟩ := p2
      rw [hm] at h2
      exact intoOk_total _ _ _ (Nat.le_of_eq h2.1)

/-- **the model is total in a release build of any format whose separator dispatch has no `unreachable!()` arm** -/
theorem parseIntFormat_total_rel (hc : Rel e.c) (s : List Nat) : Total s.length (parseIntFormat e s) := by
  unfold parseIntFormat algorithm
  have hs := parseSign_total (e := e) hc s
  cases hps : ParseIntFormat.parseSign e (Bytes.new s) with
  | error x => exact hs.1 x hps
  | ok p =>
    obtain ⟨isNeg, b⟩ := p
    obtain ⟨hb, h0⟩ := hs.2 isNeg b hps
    simp only
    by_cases hemp : b.isBufferEmpty = true
    · simp only [hemp, if_true]
      by_cases hrq : e.requiredDigits = true
      · simp only [hrq, if_true]; exact (show b.index ≤ s.length from hb.2)
      · simp only [hrq, Bool.false_eq_true, if_false]; exact intoOk_total _ _ _ hb.2
    · simp only [hemp, Bool.false_eq_true, if_false]
      have hpz := prefixZeros_total hc b hb h0 b.cursor
      cases hp : prefixZeros e b b.cursor with
      | error r => rw [hp] at hpz; exact hpz
      | ok q =>
        obtain ⟨b1, start⟩ := q
        rw [hp] at hpz
        have := digitsPhase_total hc isNeg b1 hpz start
        simp only
        cases hdp : digitsPhase e isNeg b1 start with
        | ok r => rw [hdp] at this; exact this
        | error r => rw [hdp] at this; exact this

end LexVerif.Proof.PIF
