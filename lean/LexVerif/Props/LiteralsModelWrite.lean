import LexVerif.Gen.Literals
import LexVerif.Model.Dragonbox
import LexVerif.Model.Grisu
import LexVerif.Model.WriteBinary
/-!
# Props.LiteralsModelWrite — the literals the float-WRITER models carry are the literals of /repo's source

Same scheme as `Props/LiteralsModel.lean` (string→float side). `Gen.Literals` is re-extracted from the source text of
/repo on every run (per function: the integer literals in source order). Each model file lists, per transcribed function,
the literals of its body (`…Literals`), the magic numbers as named constants. Here:
* `decide` theorems `<model list> = Gen.Literals.<file>.k_<fn>.1` — a changed, added or removed literal in /repo breaks
  the theorem named after the function;
* `rfl` theorems `…_uses`: the model function IS its source body instantiated with the named constants (so the constant in
  the list is the one the model computes with, not a copy that could drift).
-/
namespace LexVerif.Props.LiteralsModelWrite
open LexVerif.Model LexVerif.Gen.Literals

/-! ## algorithm.rs (Dragonbox) -/
section Dragonbox
open LexVerif.Model.Dragonbox

theorem floor_log5_pow2 : floorLog5Pow2Literals = WriteFloatAlgorithm.k_floor_log5_pow2.1 := by decide
theorem floor_log10_pow2 : floorLog10Pow2Literals = WriteFloatAlgorithm.k_floor_log10_pow2.1 := by decide
theorem floor_log2_pow10 : floorLog2Pow10Literals = WriteFloatAlgorithm.k_floor_log2_pow10.1 := by decide
theorem floor_log5_pow2_minus_log5_3 :
    floorLog5Pow2MinusLog5_3Literals = WriteFloatAlgorithm.k_floor_log5_pow2_minus_log5_3.1 := by decide
theorem floor_log10_pow2_minus_log10_4_over_3 :
    floorLog10Pow2MinusLog10_4Over3Literals = WriteFloatAlgorithm.k_floor_log10_pow2_minus_log10_4_over_3.1 := by decide
theorem divide_by_pow10_32 : divideByPow10_32Literals = WriteFloatAlgorithm.k_divide_by_pow10_32.1 := by decide
theorem divide_by_pow10_64 : divideByPow10_64Literals = WriteFloatAlgorithm.k_divide_by_pow10_64.1 := by decide
theorem remove_trailing_zeros : removeTrailingZerosLiterals = WriteFloatAlgorithm.k_remove_trailing_zeros.1 := by decide
theorem rotr32 : rotr32Literals = WriteFloatAlgorithm.k_rotr32.1 := by decide
theorem rotr64 : rotr64Literals = WriteFloatAlgorithm.k_rotr64.1 := by decide
theorem umul128_upper64 : umul128Upper64Literals = WriteFloatAlgorithm.k_umul128_upper64.1 := by decide
theorem umul192_upper128 : umul192Upper128Literals = WriteFloatAlgorithm.k_umul192_upper128.1 := by decide
theorem umul192_lower128 : umul192Lower128Literals = WriteFloatAlgorithm.k_umul192_lower128.1 := by decide
theorem umul96_upper64 : umul96Upper64Literals = WriteFloatAlgorithm.k_umul96_upper64.1 := by decide
theorem compute_left_endpoint_u64 :
    computeLeftEndpointLiterals = WriteFloatAlgorithm.k_compute_left_endpoint_u64.1 := by decide
theorem compute_right_endpoint_u64 :
    computeRightEndpointLiterals = WriteFloatAlgorithm.k_compute_right_endpoint_u64.1 := by decide
theorem compute_round_up_u64 : computeRoundUpLiterals = WriteFloatAlgorithm.k_compute_round_up_u64.1 := by decide
theorem compute_mul : computeMulLiterals = WriteFloatAlgorithm.k_compute_mul.1 := by decide
theorem compute_mul_parity : computeMulParityLiterals = WriteFloatAlgorithm.k_compute_mul_parity.1 := by decide
theorem compute_delta : computeDeltaLiterals = WriteFloatAlgorithm.k_compute_delta.1 := by decide
theorem is_right_endpoint : isRightEndpointLiterals = WriteFloatAlgorithm.k_is_right_endpoint.1 := by decide
theorem is_left_endpoint : isLeftEndpointLiterals = WriteFloatAlgorithm.k_is_left_endpoint.1 := by decide
theorem count_factors : countFactorsLiterals = WriteFloatAlgorithm.k_count_factors.1 := by decide
theorem prefer_round_down : preferRoundDownLiterals = WriteFloatAlgorithm.k_prefer_round_down.1 := by decide
theorem compute_nearest_shorter :
    computeNearestShorterLiterals = WriteFloatAlgorithm.k_compute_nearest_shorter.1 := by decide
theorem compute_nearest_normal :
    computeNearestNormalLiterals = WriteFloatAlgorithm.k_compute_nearest_normal.1 := by decide
theorem to_decimal : toDecimalLiterals = WriteFloatAlgorithm.k_to_decimal.1 := by decide
theorem check_div_pow10_macro : checkDivPow10MacroLiterals = WriteFloatAlgorithm.k_check_div_pow10_macro.1 := by decide

/-! the model functions compute with exactly these constants -/
theorem floorLog5Pow2_uses (q : Int) :
    floorLog5Pow2 q = i32 (q * (litLog5Pow2Mul : Int)) / 2 ^ litLog5Pow2Shift := rfl
theorem floorLog10Pow2_uses (q : Int) :
    floorLog10Pow2 q = i32 (q * (litLog10Pow2Mul : Int)) / 2 ^ litLog10Pow2Shift := rfl
theorem floorLog2Pow10_uses (q : Int) :
    floorLog2Pow10 q = i32 (q * (litLog2Pow10Mul : Int)) / 2 ^ litLog2Pow10Shift := rfl
theorem floorLog5Pow2MinusLog5_3_uses (q : Int) :
    floorLog5Pow2MinusLog5_3 q
      = i32 (i32 (q * (litLog5Pow2M3Mul : Int)) - (litLog5Pow2M3Sub : Int)) / 2 ^ litLog5Pow2M3Shift := rfl
theorem floorLog10Pow2MinusLog10_4Over3_uses (q : Int) :
    floorLog10Pow2MinusLog10_4Over3 q
      = i32 (i32 (q * (litLog10Pow2M43Mul : Int)) - (litLog10Pow2M43Sub : Int)) / 2 ^ litLog10Pow2M43Shift := rfl
theorem divideByPow10_32_uses (n exp : Nat) :
    divideByPow10_32 n exp = if exp = 2 then u32 (u64 (n * litDiv100Magic) >>> litDiv100Shift) else n / pow32 exp 10 := rfl
theorem divideByPow10_64_uses (n exp nMax : Nat) :
    divideByPow10_64 n exp nMax =
      if exp = 3 ∧ nMax ≤ litDiv1000Guard then umul128Upper64 n litDiv1000Magic >>> litDiv1000Shift
      else n / pow64 exp 10 := rfl
theorem removeTrailingZeros_f64_uses (n : Nat) :
    removeTrailingZeros .f64 n =
      if u64 (u128 (n * litRtzMagic) >>> 64) &&& (2 ^ (litRtzBits - 64) - 1) = 0 ∧ u64 (u128 (n * litRtzMagic)) < litRtzMagic
      then rtz32From (u32 (u64 (u128 (n * litRtzMagic) >>> 64) >>> (litRtzBits - 64))) litRtzS8
      else rtz64From n 0 := rfl

/-- the per-type constants that are not function-body literals (`KAPPA`, the `Div10Info` statics) come from the R dump
(`Gen.Dragonbox`), see `Props.C02.dragonbox_model_consts`; the `Div10Info` magic numbers are pinned by
`Props.C02.check_div_pow10_exact` (a different constant makes the exactness theorem false) -/
example : f32Div10Info.magic = 6554 ∧ f32Div10Info.shift = 16 ∧ f64Div10Info.magic = 656 ∧ f64Div10Info.shift = 16
    ∧ modInv5U32 = 0xCCCCCCCD ∧ modInv5U64 = 0xCCCCCCCCCCCCCCCD := by decide

end Dragonbox

/-! ## compact.rs (Grisu) -/
section Grisu
open LexVerif.Model.Grisu

theorem fast_binary_power : fastBinaryPowerLiterals = WriteFloatCompact.k_fast_binary_power.1 := by decide
theorem fast_decimal_power : fastDecimalPowerLiterals = WriteFloatCompact.k_fast_decimal_power.1 := by decide
theorem cached_grisu_power : cachedGrisuPowerLiterals = WriteFloatCompact.k_cached_grisu_power.1 := by decide
theorem mul : mulLiterals = WriteFloatCompact.k_mul.1 := by decide
theorem normalize : normalizeLiterals = WriteFloatCompact.k_normalize.1 := by decide
theorem normalized_boundaries : normalizedBoundariesLiterals = WriteFloatCompact.k_normalized_boundaries.1 := by decide
theorem round_digit : roundDigitLiterals = WriteFloatCompact.k_round_digit.1 := by decide
theorem generate_digits : generateDigitsLiterals = WriteFloatCompact.k_generate_digits.1 := by decide
theorem grisu : grisuLiterals = WriteFloatCompact.k_grisu.1 := by decide

theorem fastBinaryPower_uses (q : Int) :
    fastBinaryPower q
      = Dragonbox.i32 (Dragonbox.i32 (q * ((litBinPowMulA : Int) + (litBinPowMulB : Int))) / 2 ^ litBinPowShift
          - (litBinPowBias : Int)) := rfl
theorem fastDecimalPower_uses (index : Nat) :
    fastDecimalPower index = Dragonbox.i32 (Dragonbox.i32 ((index : Int) * (litDecPowStep : Int)) - (litDecPowFirst : Int)) :=
  rfl

end Grisu

/-! ## binary.rs, hex.rs -/
section Binary
open LexVerif.Model.WriteBinary

theorem binary_fast_log2 : fastLog2Literals = WriteFloatBinary.k_fast_log2.1 := by decide
theorem binary_fast_ceildiv : fastCeildivLiterals = WriteFloatBinary.k_fast_ceildiv.1 := by decide
theorem binary_inverse_remainder : inverseRemainderLiterals = WriteFloatBinary.k_inverse_remainder.1 := by decide
theorem binary_calculate_shl : calculateShlLiterals = WriteFloatBinary.k_calculate_shl.1 := by decide
theorem binary_scale_sci_exp : scaleSciExpLiterals = WriteFloatBinary.k_scale_sci_exp.1 := by decide
theorem binary_write_float : writeFloatLiterals = WriteFloatBinary.k_write_float.1 := by decide
theorem binary_write_float_scientific :
    writeFloatScientificLiterals = WriteFloatBinary.k_write_float_scientific.1 := by decide
theorem binary_write_float_negative_exponent :
    writeFloatNegativeExponentLiterals = WriteFloatBinary.k_write_float_negative_exponent.1 := by decide
theorem binary_write_float_positive_exponent :
    writeFloatPositiveExponentLiterals = WriteFloatBinary.k_write_float_positive_exponent.1 := by decide
theorem binary_truncate_and_round : truncateAndRoundLiterals = WriteFloatBinary.k_truncate_and_round.1 := by decide
theorem hex_write_float : hexWriteFloatLiterals = WriteFloatHex.k_write_float.1 := by decide
theorem hex_write_float_scientific :
    writeFloatScientificLiterals = WriteFloatHex.k_write_float_scientific.1 := by decide
theorem hex_scale_sci_exp : hexScaleSciExpLiterals = WriteFloatHex.k_scale_sci_exp.1 := by decide

/-- the `(radix, base)` pairs the model accepts besides `radix = base` are hex.rs' documented ones -/
example : ∀ p ∈ [(4, 2), (8, 2), (16, 2), (32, 2), (16, 4)], validPair p.1 p.2 = true := by decide

end Binary

end LexVerif.Props.LiteralsModelWrite
