import LexVerif.Proof.SlowCompose
import LexVerif.Model.SlowBytes
import LexVerif.Proof.LitBits
import LexVerif.Proof.SlowLimbs
import LexVerif.Proof.SlowTruncation
/-!
# C01 / C05 — the big-integer slow path (`slow.rs`, `bigint.rs`) is correctly rounded (property theorems)

Model: `Model/Slow.lean` (value-level big integers with the real capacity checks), `Model/SlowBytes.lean`
(`byte_comp` on limbs, `slow_radix`); tied to the code by the component op `sl` (`Model/Ops/Slow.lean`,
`gens_slow.py`): the model agrees with the compiled crate on the whole stream, panics included.

Proved here, for **all** digit strings, exponents, float types `f32`/`f64`, the four builds (`default`, `compact`,
`radix`, `compact+radix`) and every radix that has a digit limit (10; 6, 12, 14, 18, 20, 22, 24, 26, 28, 30, 34, 36):

* `parseMantissa_value` (a) — `parse_mantissa` never panics and returns exactly the value and count of the first
  `max_digits` significant digits, with the `+1` adjustment iff a **non-zero** digit was cut;
* `positive_digit_comp_correct` (b) — for an exponent `≥ 0` the result is `roundNE (M·radix^e)` (overflow to infinity
  included) whenever the capacity checks do not fail, i.e. `M·radix^e < 2^(64·BIGINT_LIMBS)`; `positive_guard`: that
  holds when `M < radix^c` and `radix^(c+e)` fits (`positive_guard_decimal`: always for what Eisel–Lemire hands over);
* `negative_digit_comp_correct` (c) — for an exponent `< 0`, given that the error float `fp` (normalised, not below the
  underflow cut) rounds **down** to a finite float `b` with `b ≤ M/radix^j ≤ next(b)` (`SlowBracket`) and that the two
  scaled integers fit (`NegGuard`), the result is `roundNE (M/radix^j)`: the comparison with the half-way point
  `b + h` is exact, round down / up / ties-to-even follow it;
* `negative_digit_comp_correct_weak` — the same under the **weak** bracket of the pipeline theorem
  (`WeakBracket` = `Props.C01.Bracket` on the un-biased estimate: `b ≤ roundNE x ≤ b + 1` as bit patterns);
  `slowBracket_weak`: the strong bracket implies it;
* `scientific_exponent_spec`, `scientific_exponent_digits` — `scientific_exponent` = exponent + ⌊log_radix mantissa⌋;
* `small_mul_refines`, `shl_limbs_refines` — the value-level big integers agree with the limb-level ones;
* `slow_radix_correct` (d) — `slow_radix` = `scientific_exponent`, `parse_mantissa`, then (b) or (c); with
  `value_untruncated` / `value_zero_tail`: the rounded number is the exact value of the **whole** digit string when
  at most `max_digits` digits are significant or only zeros are cut.

* `truncation_invariant_proved` — replacing a non-zero cut tail by a single `1` digit does not change the rounding
  (`Proof.SlowTruncation`: no half-way point has more than `max_digits` digits), hence `slow_radix_correct_full_proved`.

Not proved: `byte_comp` (odd radices) — correspondence only
(`byte_comp_lowercase_regression`: the lower-case defect this model exposed, fixed in /repo 6651793).
-/
namespace LexVerif.Props.C01Slow
open LexVerif.Spec LexVerif.Proof.Tables LexVerif.Model LexVerif.Model.Slow LexVerif.Model.Bellerophon
open LexVerif.Proof.RoundNE LexVerif.Proof.ExtRound LexVerif.Proof.Slow

/-- the two float types -/
def IsFloat (F : FTy) : Prop := F = FTy.f64 ∨ F = FTy.f32

theorem layout_of {F : FTy} (hF : IsFloat F) :
    ∃ p eb, Layout F p eb ∧ F.C.denormalExponent = 1 - F.C.exponentBias := by
  rcases hF with h | h <;> subst h
  · exact ⟨_, _, layout_f64, by decide⟩
  · exact ⟨_, _, layout_f32, by decide⟩

theorem envRadix_facts {E : Env} {r : Nat} (h : EnvRadix E r) :
    2 ≤ r ∧ r % 2 = 0 ∧ E.debug = false ∧ E.L.bigintLimbs < 2 ^ 20 := by
  have hr : r = 10 ∨ r ∈ digitRadices := by
    rcases h with ⟨_, hr⟩ | ⟨_, hr⟩
    · exact Or.inl hr
    · exact Or.inr hr
  have h2 : 2 ≤ r ∧ r % 2 = 0 := by
    have hall : ∀ x ∈ digitRadices, 2 ≤ x ∧ x % 2 = 0 := by decide
    rcases hr with hr | hr
    · subst hr; decide
    · exact hall r hr
  refine ⟨h2.1, h2.2, ?_, ?_⟩
  · rcases h with ⟨hE | hE | hE, _⟩ | ⟨hE | hE, _⟩ <;> subst hE <;> rfl
  · rcases h with ⟨hE | hE | hE, _⟩ | ⟨hE | hE, _⟩ <;> subst hE <;> decide

theorem maxDigits_facts {E : Env} {r : Nat} (h : EnvRadix E r) {F : FTy} (hF : IsFloat F) {d : Nat}
    (hd : E.S.maxDigits F.fmt r = some d) : 0 < d ∧ r ^ (d + 1) ≤ 2 ^ (64 * E.L.bigintLimbs) := by
  have hm := (mant_of_envRadix h).2
  unfold mantFitB at hm
  simp only [List.all_cons, List.all_nil, Bool.and_true, Bool.and_eq_true] at hm
  rcases hF with hF | hF <;> subst hF
  · have := hm.2
    rw [show FTy.f64.fmt = f64 from rfl] at hd
    rw [hd] at this
    simpa using this
  · have := hm.1
    rw [show FTy.f32.fmt = f32 from rfl] at hd
    rw [hd] at this
    simpa using this

/-! ## (a) `parse_mantissa` -/

/-- what `parse_mantissa` must return for the significant digit bytes `bs` and the limit `d` -/
def mantissaOf (radix d : Nat) (bs : List Nat) : Nat × Nat :=
  if bs.length ≤ d then (ofDigits radix (dv radix bs), bs.length)
  else if anyNonzero (bs.drop d) then (ofDigits radix (dv radix (bs.take d)) * radix + 1, d + 1)
  else (ofDigits radix (dv radix (bs.take d)), d)

/-- **(a) `parseMantissa_value`**: the big mantissa and the digit count represent the digit string exactly: all
significant digits when there are at most `max_digits`; else the first `max_digits`, and `·radix + 1` with one more
digit counted **iff** some cut digit is non-zero. No capacity check fails (`radix^(max_digits+1)` fits `BIGINT_LIMBS`). -/
theorem parseMantissa_value {E : Env} {r : Nat} (h : EnvRadix E r) {F : FTy} (hF : IsFloat F) {d : Nat}
    (hd : E.S.maxDigits F.fmt r = some d) (integer : List Nat) (fraction : Option (List Nat))
    (hvi : ValidDigits r integer) (hvf : ∀ fr, fraction = some fr → ValidDigits r fr) :
    parseMantissa E r d integer fraction = some (mantissaOf r d (sigBytes integer fraction)) := by
  obtain ⟨hd0, hfit⟩ := maxDigits_facts h hF hd
  have hr := (envRadix_facts h).1
  rw [LexVerif.Proof.Slow.parseMantissa_value (mantOk_of_check (mant_of_envRadix h).1) hr hd0 integer fraction
    hvi hvf hfit]
  unfold mantissaOf
  split
  · rfl
  · split <;> rfl

/-! ## (b) `positive_digit_comp` -/

/-- **(b) `positive_digit_comp_correct`**: exponent `≥ 0`; under the explicit guard that the capacity checks do not fail
(exactly `M·radix^e < 2^(64·BIGINT_LIMBS)`) the result is the correctly rounded value of the integer `M·radix^e` -/
theorem positive_digit_comp_correct {E : Env} {r : Nat} (h : EnvRadix E r) {F : FTy} (hF : IsFloat F)
    {M : Nat} (hM : M ≠ 0) {e : Int} (he0 : 0 ≤ e) (he : e < 2 ^ 29)
    (hfit : M * r ^ e.toNat < 2 ^ (64 * E.L.bigintLimbs)) :
    ∃ res, positiveDigitComp E F r M e = some res ∧ 0 ≤ res.exp ∧
      extendedToFloat F res = roundNE F.fmt (M * r ^ e.toNat) 1 := by
  obtain ⟨p, eb, lay, _⟩ := layout_of hF
  exact positiveDigitComp_correct lay (bigPowOk_of_envRadix h).1 (envRadix_facts h).2.2.2 hM he0 he hfit

/-- the guard of (b) holds when the mantissa has `c` digits and `radix^(c+e)` fits the big integer -/
theorem positive_guard {r M c e cap : Nat} (hr : 0 < r) (hM : M < r ^ c) (hcap : r ^ (c + e) ≤ 2 ^ (64 * cap)) :
    M * r ^ e < 2 ^ (64 * cap) := by
  have : M * r ^ e < r ^ c * r ^ e := Nat.mul_lt_mul_of_pos_right hM (Nat.pow_pos hr)
  rw [← Nat.pow_add] at this
  omega

set_option exponentiation.threshold 500 in
/-- decimal: Eisel–Lemire / Bellerophon answer `infinity` themselves above `10^(308+19+…)`; everything they can hand to
the slow path (`c + e = sci_exp + 1 ≤ 400`) fits every build's big integer -/
theorem positive_guard_decimal {E : Env} (h : EnvRadix E 10) {M c e : Nat} (hM : M < 10 ^ c) (hce : c + e ≤ 400) :
    M * 10 ^ e < 2 ^ (64 * E.L.bigintLimbs) := by
  apply positive_guard (by decide) hM
  have h1 : 10 ^ (c + e) ≤ 10 ^ 400 := Nat.pow_le_pow_right (by decide) hce
  have h2 : 10 ^ 400 ≤ 2 ^ (64 * E.L.bigintLimbs) := by
    rcases h with ⟨hE | hE | hE, _⟩ | ⟨hE | hE, _⟩ <;> subst hE <;> decide +kernel
  omega

/-! ## (c) `negative_digit_comp` -/

/-- `b`: the error float rounded down to the float format (what `negative_digit_comp` computes first) -/
def roundedDown (F : FTy) (fp : ExtendedFloat80) : Nat := extendedToFloat F (round F fp roundDown)

/-- **the precondition the moderate path must establish**: `b ≤ num/den ≤ next(b)` in units of the least subnormal
(`ival`), for `b` the round-down of the (un-biased) error float -/
def SlowBracket (F : FTy) (fp : ExtendedFloat80) (num den : Nat) : Prop :=
  ival F.fmt (roundedDown F fp) * den ≤ num * 2 ^ L F.fmt ∧
  num * 2 ^ L F.fmt ≤ ival F.fmt (roundedDown F fp + 1) * den

/-- the capacity guard of `negative_digit_comp`: with `q` the significand and `k` the exponent field of `b`,
`be = k − EXPONENT_BIAS − e`, the two compared integers `(2q+1)·(radix/2)^j·2^max(be,0)` and `M·2^max(−be,0)` fit -/
def NegGuard (E : Env) (F : FTy) (p radix M : Nat) (fp : ExtendedFloat80) (e : Int) : Prop :=
  (2 * (fp.mant / 2 ^ shiftOf p fp.exp) + 1) * (radix / 2) ^ (-e).toNat *
      2 ^ (((fp.exp + 64 - p - 1).toNat : Int) - F.C.exponentBias - e).toNat < 2 ^ (64 * E.L.bigintLimbs) ∧
  M * 2 ^ (-(((fp.exp + 64 - p - 1).toNat : Int) - F.C.exponentBias - e)).toNat < 2 ^ (64 * E.L.bigintLimbs)

/-- **(c) `negative_digit_comp_correct`** (stated for a float type given by its layout `p`, `eb`; `layout_f64`,
`layout_f32`): exponent `e < 0`, `j = −e`; the error float is normalised (`2^63 ≤ mant < 2^64`), not below the
underflow cut (`−exp + 1 ≤ 64`), rounds down to a finite `b`, and brackets the value; the guard holds. Then the call
does not panic and returns the correctly rounded `M / radix^j`. -/
theorem negative_digit_comp_correct {E : Env} {r : Nat} (h : EnvRadix E r) {F : FTy} {p eb : Nat}
    (lay : Layout F p eb) (hden : F.C.denormalExponent = 1 - F.C.exponentBias)
    {M : Nat} (hM : M ≠ 0) (fp : ExtendedFloat80) (hm1 : 2 ^ 63 ≤ fp.mant) (hm2 : fp.mant < 2 ^ 64)
    (hp2 : -fp.exp + 1 ≤ 64) (hfe : fp.exp < 2 ^ 20) {e : Int} (he : e < 0) (he' : -(2 ^ 28 : Int) < e)
    (hfin : roundedDown F fp < F.fmt.infBits) (hbr : SlowBracket F fp M (r ^ (-e).toNat))
    (hg : NegGuard E F p r M fp e) :
    ∃ res, negativeDigitComp E F r M fp e = some res ∧ 0 ≤ res.exp ∧
      extendedToFloat F res = roundNE F.fmt M (r ^ (-e).toNat) := by
  obtain ⟨hr2, hev, hdbg, _⟩ := envRadix_facts h
  obtain ⟨_, Th, T2⟩ := bigPowOk_of_envRadix h
  unfold NegGuard at hg
  have hp := lay.hp; have hp64 := lay.hp64; have heb := lay.heb
  have hfp : F.fmt.p = p := by rw [lay.fmt]
  obtain ⟨qa, qb, qc, qd, qe⟩ := LexVerif.Proof.BinaryCorrect.quot_bounds hp (by omega) hm1 hm2 fp.exp hp2
  -- `b = k·2^(p−1) + q`
  have hb : roundedDown F fp =
      (fp.exp + 64 - p - 1).toNat * 2 ^ (p - 1) + fp.mant / 2 ^ shiftOf p fp.exp := by
    unfold roundedDown
    rw [round_down_bits lay fp hm1 hm2 hp2]
    unfold encode
    split
    · rename_i hinf
      exfalso
      unfold roundedDown at hfin
      rw [round_down_bits lay fp hm1 hm2 hp2] at hfin
      unfold encode at hfin
      rw [if_pos hinf] at hfin
      exact Nat.lt_irrefl _ hfin
    · rw [hfp]
  generalize hk : (fp.exp + 64 - p - 1).toNat = k at *
  generalize hq : fp.mant / 2 ^ shiftOf p fp.exp = q at *
  have h1 : 0 < k → 2 ^ (p - 1) ≤ q := fun h0 => (qa h0).2.1
  obtain ⟨hlo, hhi⟩ := hbr
  rw [hb] at hlo hfin
  have hi1 : ival F.fmt (k * 2 ^ (p - 1) + q) = q * 2 ^ k := by
    have := ival_kq F.fmt k q (by rw [hfp]; exact h1) (by rw [hfp]; omega)
    rwa [hfp] at this
  have hi2 : ival F.fmt (k * 2 ^ (p - 1) + q + 1) = (q + 1) * 2 ^ k := by
    have := ival_kq F.fmt k (q + 1) (by rw [hfp]; intro h0; have := h1 h0; omega) (by rw [hfp]; omega)
    rw [hfp] at this
    rw [Nat.add_assoc]; exact this
  rw [hi1] at hlo
  rw [hb, hi2] at hhi
  have hhalf : r / 2 * 2 = r := by omega
  exact negativeDigitComp_correct lay hden hdbg (show r = 2 * (r / 2) by omega) Th T2 hM fp hm1 hm2 hp2 hfe he he'
    k q hk.symm hq.symm hfin hlo hhi hg.1 hg.2

/-- the **weak** bracket, which is what the pipeline theorem (`Props.C01.Bracket`, there on the still-biased estimate) asks
of the moderate path: the correctly rounded value is `b` or its successor, as bit patterns. `SlowBracket` implies it
(`slowBracket_weak`); it is all `negative_digit_comp` needs. -/
def WeakBracket (F : FTy) (fp : ExtendedFloat80) (num den : Nat) : Prop :=
  roundedDown F fp ≤ roundNE F.fmt num den ∧ roundNE F.fmt num den ≤ roundedDown F fp + 1

theorem slowBracket_weak {F : FTy} {p eb : Nat} (lay : Layout F p eb) (fp : ExtendedFloat80) {num den : Nat}
    (hd : 0 < den) (hfin : roundedDown F fp < F.fmt.infBits) (h : SlowBracket F fp num den) :
    WeakBracket F fp num den := by
  have hf := lay.wf
  unfold WeakBracket
  unfold SlowBracket at h
  obtain ⟨hlo, hhi⟩ := h
  generalize roundedDown F fp = b at *
  have hL : 0 < 2 ^ L F.fmt := Nat.two_pow_pos _
  constructor
  · obtain ⟨e1, e2⟩ := toFrac_decode hf hfin
    have := roundNE_mono' hf e2 hd (a := (F.fmt.decode b).toFrac.1) (c := num) (by
      apply Nat.le_of_mul_le_mul_right _ hL
      calc (F.fmt.decode b).toFrac.1 * den * 2 ^ L F.fmt
          = (F.fmt.decode b).toFrac.1 * 2 ^ L F.fmt * den := by ring
        _ = ival F.fmt b * den * (F.fmt.decode b).toFrac.2 := by rw [e1]; ring
        _ ≤ num * 2 ^ L F.fmt * (F.fmt.decode b).toFrac.2 := Nat.mul_le_mul_right _ hlo
        _ = num * (F.fmt.decode b).toFrac.2 * 2 ^ L F.fmt := by ring)
    rwa [roundNE_of_float' hf hfin] at this
  · by_cases hb1 : b + 1 < F.fmt.infBits
    · obtain ⟨e1, e2⟩ := toFrac_decode hf hb1
      have := roundNE_mono' hf hd e2 (a := num) (c := (F.fmt.decode (b + 1)).toFrac.1) (by
        apply Nat.le_of_mul_le_mul_right _ hL
        calc num * (F.fmt.decode (b + 1)).toFrac.2 * 2 ^ L F.fmt
            = num * 2 ^ L F.fmt * (F.fmt.decode (b + 1)).toFrac.2 := by ring
          _ ≤ ival F.fmt (b + 1) * den * (F.fmt.decode (b + 1)).toFrac.2 := Nat.mul_le_mul_right _ hhi
          _ = (F.fmt.decode (b + 1)).toFrac.1 * 2 ^ L F.fmt * den := by rw [e1]; ring
          _ = (F.fmt.decode (b + 1)).toFrac.1 * den * 2 ^ L F.fmt := by ring)
      rwa [roundNE_of_float' hf hb1] at this
    · have := roundNE_le_infBits hf num hd
      omega

/-- **(c), weak-bracket form** — the precondition of the pipeline theorem suffices -/
theorem negative_digit_comp_correct_weak {E : Env} {r : Nat} (h : EnvRadix E r) {F : FTy} {p eb : Nat}
    (lay : Layout F p eb) (hden : F.C.denormalExponent = 1 - F.C.exponentBias)
    {M : Nat} (hM : M ≠ 0) (fp : ExtendedFloat80) (hm1 : 2 ^ 63 ≤ fp.mant) (hm2 : fp.mant < 2 ^ 64)
    (hp2 : -fp.exp + 1 ≤ 64) (hfe : fp.exp < 2 ^ 20) {e : Int} (he : e < 0) (he' : -(2 ^ 28 : Int) < e)
    (hfin : roundedDown F fp < F.fmt.infBits) (hbr : WeakBracket F fp M (r ^ (-e).toNat))
    (hg : NegGuard E F p r M fp e) :
    ∃ res, negativeDigitComp E F r M fp e = some res ∧ 0 ≤ res.exp ∧
      extendedToFloat F res = roundNE F.fmt M (r ^ (-e).toNat) := by
  obtain ⟨hr2, hev, hdbg, _⟩ := envRadix_facts h
  obtain ⟨_, Th, T2⟩ := bigPowOk_of_envRadix h
  unfold NegGuard at hg
  have hp := lay.hp; have hp64 := lay.hp64; have heb := lay.heb
  have hfp : F.fmt.p = p := by rw [lay.fmt]
  have hb : roundedDown F fp =
      (fp.exp + 64 - p - 1).toNat * 2 ^ (p - 1) + fp.mant / 2 ^ shiftOf p fp.exp := by
    unfold roundedDown
    rw [round_down_bits lay fp hm1 hm2 hp2]
    unfold encode
    split
    · rename_i hinf
      exfalso
      unfold roundedDown at hfin
      rw [round_down_bits lay fp hm1 hm2 hp2] at hfin
      unfold encode at hfin
      rw [if_pos hinf] at hfin
      exact Nat.lt_irrefl _ hfin
    · rw [hfp]
  obtain ⟨hlo, hhi⟩ := hbr
  rw [hb] at hlo hhi hfin
  exact negativeDigitComp_correct_weak lay hden hdbg (show r = 2 * (r / 2) by omega) Th T2 hM fp hm1 hm2 hp2 hfe
    he he' _ _ rfl rfl hfin hlo hhi hg.1 hg.2

/-- `roundedDown` of an estimate below the underflow cut is `+0` -/
theorem roundedDown_tiny {F : FTy} {p eb : Nat} (lay : Layout F p eb) (fp : ExtendedFloat80) (hm2 : fp.mant < 2 ^ 64)
    (hp2 : -fp.exp + 1 > 64) : roundedDown F fp = 0 := by
  unfold roundedDown
  rw [round_roundDown F fp hm2, round_tiny lay fp.mant fp.exp _ hm2 hp2, upOf_false]
  exact LexVerif.Proof.BinaryCorrect.ext_zero lay

/-- **(c) for every estimate**, weak-bracket form, **no lower bound on the estimate's exponent**: above the underflow
cut as `negative_digit_comp_correct_weak`; below it (`−exp + 1 > 64`, where `shared::round` clamps the shift to 64)
`b = +0`, `b + h` is half the least subnormal and the result is `0` or the least subnormal accordingly -/
theorem negative_digit_comp_correct_all {E : Env} {r : Nat} (h : EnvRadix E r) {F : FTy} {p eb : Nat}
    (lay : Layout F p eb) (hden : F.C.denormalExponent = 1 - F.C.exponentBias)
    {M : Nat} (hM : M ≠ 0) (fp : ExtendedFloat80) (hm1 : 2 ^ 63 ≤ fp.mant) (hm2 : fp.mant < 2 ^ 64)
    (hfe : fp.exp < 2 ^ 20) {e : Int} (he : e < 0) (he' : -(2 ^ 28 : Int) < e)
    (hfin : roundedDown F fp < F.fmt.infBits) (hbr : WeakBracket F fp M (r ^ (-e).toNat))
    (hg : NegGuard E F p r M fp e) :
    ∃ res, negativeDigitComp E F r M fp e = some res ∧ 0 ≤ res.exp ∧
      extendedToFloat F res = roundNE F.fmt M (r ^ (-e).toNat) := by
  by_cases hp2 : -fp.exp + 1 ≤ 64
  · exact negative_digit_comp_correct_weak h lay hden hM fp hm1 hm2 hp2 hfe he he' hfin hbr hg
  · obtain ⟨hr2, hev, hdbg, _⟩ := envRadix_facts h
    obtain ⟨_, Th, T2⟩ := bigPowOk_of_envRadix h
    have hp := lay.hp; have hp64 := lay.hp64; have heb := lay.heb
    have hk0 : (fp.exp + 64 - p - 1).toNat = 0 := by omega
    have hq0 : fp.mant / 2 ^ shiftOf p fp.exp = 0 := by
      apply Nat.div_eq_of_lt
      have hs : 64 ≤ shiftOf p fp.exp := by unfold shiftOf; split <;> omega
      exact Nat.lt_of_lt_of_le hm2 (Nat.pow_le_pow_right (by decide) hs)
    unfold NegGuard at hg
    rw [hk0, hq0] at hg
    obtain ⟨_, hhi⟩ := hbr
    rw [roundedDown_tiny lay fp hm2 (by omega)] at hhi
    exact negativeDigitComp_tiny_weak lay hden hdbg (show r = 2 * (r / 2) by omega) Th T2 hM fp hm2 (by omega) he he'
      (by simpa using hhi) hg.1 hg.2

/-- the capacity guard when the estimate rounds down to `+∞`: `b + h` is `(2·2^(p−1) + 1)·2^(2^eb − 2 − bias)` -/
def NegGuardInf (E : Env) (F : FTy) (p radix M : Nat) (e : Int) : Prop :=
  (2 * 2 ^ (p - 1) + 1) * (radix / 2) ^ (-e).toNat *
      2 ^ (((2 ^ F.fmt.ebits - 2 : Nat) : Int) - F.C.exponentBias - e).toNat < 2 ^ (64 * E.L.bigintLimbs) ∧
  M * 2 ^ (-(((2 ^ F.fmt.ebits - 2 : Nat) : Int) - F.C.exponentBias - e)).toNat < 2 ^ (64 * E.L.bigintLimbs)

/-- the two big integers of `negative_digit_comp` fit: for a finite round-down `NegGuard`, for `+∞` `NegGuardInf` -/
def NegFit (E : Env) (F : FTy) (p radix M : Nat) (fp : ExtendedFloat80) (e : Int) : Prop :=
  (roundedDown F fp < F.fmt.infBits ∧ NegGuard E F p radix M fp e) ∨
  (roundedDown F fp = F.fmt.infBits ∧ NegGuardInf E F p radix M e)

/-- **(c) total**: every normalised estimate — below the underflow cut, finite, or rounding down to `+∞` — that
weakly brackets the value, with the capacity guard that belongs to its case -/
theorem negative_digit_comp_correct_total {E : Env} {r : Nat} (h : EnvRadix E r) {F : FTy} {p eb : Nat}
    (lay : Layout F p eb) (hden : F.C.denormalExponent = 1 - F.C.exponentBias)
    {M : Nat} (hM : M ≠ 0) (fp : ExtendedFloat80) (hm1 : 2 ^ 63 ≤ fp.mant) (hm2 : fp.mant < 2 ^ 64)
    (hfe : fp.exp < 2 ^ 20) {e : Int} (he : e < 0) (he' : -(2 ^ 28 : Int) < e)
    (hbr : WeakBracket F fp M (r ^ (-e).toNat)) (hg : NegFit E F p r M fp e) :
    ∃ res, negativeDigitComp E F r M fp e = some res ∧ 0 ≤ res.exp ∧
      extendedToFloat F res = roundNE F.fmt M (r ^ (-e).toNat) := by
  rcases hg with ⟨hfin, hg⟩ | ⟨hinf, hg⟩
  · exact negative_digit_comp_correct_all h lay hden hM fp hm1 hm2 hfe he he' hfin hbr hg
  · obtain ⟨hr2, hev, hdbg, _⟩ := envRadix_facts h
    obtain ⟨_, Th, T2⟩ := bigPowOk_of_envRadix h
    have hfp : F.fmt.p = p := by rw [lay.fmt]
    have hpos := LexVerif.Proof.RoundNE.infBits_pos lay.wf
    have hp2 : -fp.exp + 1 ≤ 64 := by
      apply Classical.byContradiction; intro hcon
      rw [roundedDown_tiny lay fp hm2 (by omega)] at hinf
      omega
    have hov : F.fmt.infBits ≤ (fp.exp + 64 - p - 1).toNat * 2 ^ (p - 1) + fp.mant / 2 ^ shiftOf p fp.exp := by
      unfold roundedDown at hinf
      rw [round_down_bits lay fp hm1 hm2 hp2] at hinf
      unfold encode at hinf
      rw [hfp] at hinf
      split at hinf
      · assumption
      · omega
    have hval : roundNE F.fmt M (r ^ (-e).toNat) = F.fmt.infBits := by
      have := roundNE_le_infBits lay.wf M (Nat.pow_pos (by omega) : 0 < r ^ (-e).toNat)
      have := hbr.1
      omega
    have hfe : F.fmt.ebits = eb := by rw [lay.fmt]
    unfold NegGuardInf at hg
    rw [hfe] at hg
    exact negativeDigitComp_inf lay hden hdbg (show r = 2 * (r / 2) by omega) Th T2 hM fp hm1 hm2 hp2 he he' hov hval
      hg.1 hg.2

/-! ## (d) `slow_radix` -/

/-- the exponent `digit_comp` gives the big mantissa: leading digit at `radix^sciExp`, `c` digits -/
def digitExponent (sciExp : Int) (c : Nat) : Int := sciExp + 1 - c

/-- **(d) `slow_radix_correct`**: `slow_radix(num, fp)` for a radix with a digit limit is `scientific_exponent`, then
`parse_mantissa` (a), then `positive_digit_comp` (b) or `negative_digit_comp` (c), and the result is the correctly
rounded value of `M·radix^e`, `(M, c) = mantissaOf …`, `e = sci_exp + 1 − c`, given the guard of (b), resp. the
preconditions of (c) in the weak-bracket form (`WeakBracket`; `slowBracket_weak` gives it from `SlowBracket`). (`powFrac radix e M` is `M·radix^e` as a fraction.) -/
theorem slow_radix_correct {E : Env} {r : Nat} (h : EnvRadix E r) {F : FTy} {p eb : Nat}
    (lay : Layout F p eb) (hF : IsFloat F) (hden : F.C.denormalExponent = 1 - F.C.exponentBias) (radixFeature : Bool)
    {d : Nat} (hd : E.S.maxDigits F.fmt r = some d) (n : SNum) (fp : ExtendedFloat80)
    (hvi : ValidDigits r n.integer) (hvf : ∀ fr, n.fraction = some fr → ValidDigits r fr)
    (hne : sigBytes n.integer n.fraction ≠ []) (hbytes : ∀ c ∈ sigBytes n.integer n.fraction, c < 256)
    (hs1 : -(2 ^ 27 : Int) < scientificExponent r n.mantissa n.exponent)
    (hs2 : scientificExponent r n.mantissa n.exponent < 2 ^ 27)
    (hpos : 0 ≤ digitExponent (scientificExponent r n.mantissa n.exponent) (mantissaOf r d (sigBytes n.integer n.fraction)).2 →
      (mantissaOf r d (sigBytes n.integer n.fraction)).1 *
        r ^ (digitExponent (scientificExponent r n.mantissa n.exponent) (mantissaOf r d (sigBytes n.integer n.fraction)).2).toNat <
        2 ^ (64 * E.L.bigintLimbs))
    (hneg : digitExponent (scientificExponent r n.mantissa n.exponent) (mantissaOf r d (sigBytes n.integer n.fraction)).2 < 0 →
      2 ^ 63 ≤ fp.mant ∧ fp.mant < 2 ^ 64 ∧ fp.exp < 2 ^ 20 ∧
      WeakBracket F fp (mantissaOf r d (sigBytes n.integer n.fraction)).1
        (r ^ (-digitExponent (scientificExponent r n.mantissa n.exponent) (mantissaOf r d (sigBytes n.integer n.fraction)).2).toNat) ∧
      NegFit E F p r (mantissaOf r d (sigBytes n.integer n.fraction)).1 fp
        (digitExponent (scientificExponent r n.mantissa n.exponent) (mantissaOf r d (sigBytes n.integer n.fraction)).2)) :
    ∃ res, slowRadix E F radixFeature r n fp = some res ∧ 0 ≤ res.exp ∧
      extendedToFloat F res = roundNE F.fmt
        (powFrac r (digitExponent (scientificExponent r n.mantissa n.exponent) (mantissaOf r d (sigBytes n.integer n.fraction)).2)
          (mantissaOf r d (sigBytes n.integer n.fraction)).1).1
        (powFrac r (digitExponent (scientificExponent r n.mantissa n.exponent) (mantissaOf r d (sigBytes n.integer n.fraction)).2)
          (mantissaOf r d (sigBytes n.integer n.fraction)).1).2 := by
  obtain ⟨hr2, hev, hdbg, hcap⟩ := envRadix_facts h
  obtain ⟨hd0, hfitd⟩ := maxDigits_facts h hF hd
  have hpm := parseMantissa_value h hF hd n.integer n.fraction hvi hvf
  generalize hsci : scientificExponent r n.mantissa n.exponent = sciExp at *
  generalize hbs : sigBytes n.integer n.fraction = bs at *
  -- the count is small and the mantissa non-zero
  have hd20 : d + 1 < 2 ^ 26 := by
    have h1 : 2 ^ (d + 1) ≤ r ^ (d + 1) := Nat.pow_le_pow_left hr2 _
    have h2 : 2 ^ (d + 1) ≤ 2 ^ (64 * E.L.bigintLimbs) := Nat.le_trans h1 hfitd
    have h3 : d + 1 ≤ 64 * E.L.bigintLimbs := (Nat.pow_le_pow_iff_right (by decide)).mp h2
    have h20 : (2 : Nat) ^ 20 = 1048576 := by norm_num
    have h26 : (2 : Nat) ^ 26 = 67108864 := by norm_num
    rw [h20] at hcap
    rw [h26]
    omega
  have hc : (mantissaOf r d bs).2 ≤ d + 1 := by
    unfold mantissaOf; split
    · simp only; omega
    · split <;> simp
  have hMpos : (mantissaOf r d bs).1 ≠ 0 := by
    have hall := sig_value_pos (by omega : 0 < r) (by rw [hbs]; exact hne) (by rw [hbs]; exact hbytes)
    rw [hbs] at hall
    unfold mantissaOf; split
    · rename_i hle
      have := hall bs.length (List.length_pos_iff.mpr hne)
      rw [List.take_length] at this
      simp only; omega
    · have := hall d hd0
      split <;> simp only <;> omega
  generalize hMc : mantissaOf r d bs = Mc at *
  obtain ⟨M, c⟩ := Mc
  simp only at hc hMpos hpos hneg ⊢
  have h27 : (2 : Int) ^ 27 = 134217728 := by norm_num
  have h28 : (2 : Int) ^ 28 = 268435456 := by norm_num
  have h29 : (2 : Int) ^ 29 = 536870912 := by norm_num
  have h26 : (2 : Nat) ^ 26 = 67108864 := by norm_num
  have h27n : (2 : Nat) ^ 27 = 134217728 := by norm_num
  unfold slowRadix routeOf
  rw [hdbg, hd, hsci]
  simp only [Bool.false_and, Bool.false_eq_true, if_false]
  rw [digitComp_eq n.integer n.fraction fp sciExp d M c hpm (by omega) (by omega) (by omega)]
  unfold digitExponent at *
  unfold powFrac
  by_cases he : sciExp + 1 - (c : Int) ≥ 0
  · rw [if_pos he, if_pos he]
    exact positive_digit_comp_correct h hF hMpos he (by omega) (hpos he)
  · rw [if_neg he, if_neg he]
    obtain ⟨a1, a2, a4, a6, a7⟩ := hneg (by omega)
    exact negative_digit_comp_correct_total h lay hden hMpos fp a1 a2 a4 (by omega) (by omega) a6 a7

/-! ## the value that is rounded -/

/-- exact value of the complete significant digit string, leading digit at `radix^sciExp` -/
def sigValue (radix : Nat) (bs : List Nat) (sciExp : Int) : Nat × Nat :=
  powFrac radix (digitExponent sciExp bs.length) (ofDigits radix (dv radix bs))

/-- shifting digits between mantissa and exponent does not change the rounded value -/
theorem roundNE_powFrac_shift {f : Fmt} (hf : WF f) {r : Nat} (hr : 0 < r) (P k : Nat) (e : Int) :
    roundNE f (powFrac r e (P * r ^ k)).1 (powFrac r e (P * r ^ k)).2 =
      roundNE f (powFrac r (e + k) P).1 (powFrac r (e + k) P).2 := by
  have hden : ∀ (e : Int) (m : Nat), 0 < (powFrac r e m).2 := by
    intro e m; unfold powFrac; split
    · exact Nat.one_pos
    · exact Nat.pow_pos hr
  apply roundNE_congr' hf (hden _ _) (hden _ _)
  unfold powFrac
  by_cases h1 : e ≥ 0
  · rw [if_pos h1, if_pos (by omega)]
    simp only [Nat.mul_one]
    have : (e + k).toNat = k + e.toNat := by omega
    rw [this, Nat.pow_add]; ring
  · rw [if_neg h1]
    by_cases h2 : e + k ≥ 0
    · rw [if_pos h2]
      simp only [Nat.mul_one]
      have : k = (e + k).toNat + (-e).toNat := by omega
      conv => lhs; rw [this, Nat.pow_add]
      ring
    · rw [if_neg h2]
      simp only
      have : (-e).toNat = k + (-(e + k)).toNat := by omega
      rw [this, Nat.pow_add]; ring

/-- at most `max_digits` significant digits: the rounded number **is** the value of the digit string -/
theorem value_untruncated (radix d : Nat) (bs : List Nat) (sciExp : Int) (h : bs.length ≤ d) :
    powFrac radix (digitExponent sciExp (mantissaOf radix d bs).2) (mantissaOf radix d bs).1 =
      sigValue radix bs sciExp := by
  unfold mantissaOf sigValue
  rw [if_pos h]

theorem ofDigits_zero_tail (radix : Nat) (bs : List Nat) (h : anyNonzero bs = false) :
    ofDigits radix (dv radix bs) = 0 := by
  unfold anyNonzero at h
  apply ofDigits_zeros
  intro x hx
  unfold dv at hx
  obtain ⟨c, hc, rfl⟩ := List.mem_map.mp hx
  have hcz : c = 48 := by
    have := List.any_eq_false.mp h c hc
    simpa using this
  subst hcz
  unfold Binary.digitVal
  split
  · rfl
  · simp

/-- more than `max_digits` digits but only zeros cut: same rounded value as the whole digit string -/
theorem value_zero_tail {f : Fmt} (hf : WF f) {radix : Nat} (hr : 0 < radix) (d : Nat) (bs : List Nat) (sciExp : Int)
    (h : d < bs.length) (hz : anyNonzero (bs.drop d) = false) :
    roundNE f (powFrac radix (digitExponent sciExp (mantissaOf radix d bs).2) (mantissaOf radix d bs).1).1
        (powFrac radix (digitExponent sciExp (mantissaOf radix d bs).2) (mantissaOf radix d bs).1).2 =
      roundNE f (sigValue radix bs sciExp).1 (sigValue radix bs sciExp).2 := by
  unfold mantissaOf sigValue
  rw [if_neg (by omega), hz]
  simp only [Bool.false_eq_true, if_false]
  have hsplit : ofDigits radix (dv radix bs) =
      ofDigits radix (dv radix (bs.take d)) * radix ^ (bs.length - d) := by
    conv => lhs; rw [← List.take_append_drop d bs]
    rw [ofDigits_dv_append, ofDigits_zero_tail radix _ hz, List.length_drop, Nat.add_zero]
  rw [hsplit, roundNE_powFrac_shift hf hr]
  unfold digitExponent
  have : sciExp + 1 - (bs.length : Int) + ((bs.length - d : Nat) : Int) = sciExp + 1 - (d : Int) := by omega
  rw [this]

/-- a non-zero cut tail may be replaced by a single digit `1` without changing the rounding — the purpose of
`max_digits` (no half-way point between two floats has that many significant digits). The digit string starts with a
non-zero digit (as `sigBytes` does). **Proved**: `truncation_invariant_proved`. -/
def truncation_invariant : Prop :=
  ∀ (E : Env) (r : Nat), EnvRadix E r → ∀ (F : FTy), IsFloat F → ∀ d, E.S.maxDigits F.fmt r = some d →
    ∀ (bs : List Nat) (sciExp : Int), ValidDigits r bs → (∀ c ∈ bs, c < 256) → (∀ c cs, bs = c :: cs → c ≠ 48) →
      d < bs.length → anyNonzero (bs.drop d) = true →
      roundNE F.fmt (powFrac r (digitExponent sciExp (mantissaOf r d bs).2) (mantissaOf r d bs).1).1
          (powFrac r (digitExponent sciExp (mantissaOf r d bs).2) (mantissaOf r d bs).1).2 =
        roundNE F.fmt (sigValue r bs sciExp).1 (sigValue r bs sciExp).2

/-- a digit string with a non-zero byte has a non-zero value -/
theorem ofDigits_pos_of_anyNonzero {radix : Nat} (hr : 0 < radix) :
    ∀ (bs : List Nat), (∀ c ∈ bs, c < 256) → anyNonzero bs = true → 0 < ofDigits radix (dv radix bs)
  | [], _, h => by simp [anyNonzero] at h
  | c :: cs, hb, h => by
    simp only [dv, List.map_cons]
    rw [ofDigits_cons]
    by_cases h48 : c = 48
    · have : anyNonzero cs = true := by
        unfold anyNonzero at h ⊢
        simpa [h48] using h
      have := ofDigits_pos_of_anyNonzero hr cs (fun x hx => hb x (List.mem_cons_of_mem _ hx)) this
      unfold dv at this
      omega
    · have hd := digitVal_ne_zero (radix := radix) (hb c (List.mem_cons_self ..)) h48
      have : 0 < Binary.digitVal c radix * radix ^ (List.map (fun c => Binary.digitVal c radix) cs).length :=
        Nat.mul_pos (Nat.pos_of_ne_zero hd) (Nat.pow_pos hr)
      omega

/-- a digit string starting with a non-zero digit is at least `radix^(length − 1)` -/
theorem ofDigits_ge_of_head {radix : Nat} {c : Nat} {cs : List Nat} (hc : c < 256) (h48 : c ≠ 48) :
    radix ^ cs.length ≤ ofDigits radix (dv radix (c :: cs)) := by
  have hd := digitVal_ne_zero (radix := radix) hc h48
  simp only [dv, List.map_cons]
  rw [ofDigits_cons, List.length_map]
  have : 1 * radix ^ cs.length ≤ Binary.digitVal c radix * radix ^ cs.length := Nat.mul_le_mul_right _ (by omega)
  omega

/-- **`truncation_invariant` holds**: `Proof.SlowTruncation.roundNE_const_between` with the two table facts that define
`max_digits` (`Proof.SlowTables.halfwayB`, evaluated for every build and radix with a digit limit) -/
theorem truncation_invariant_proved : truncation_invariant := by
  intro E r h F hF d hd bs sciExp hv hb256 hhead hlen hz
  obtain ⟨hr2, hev, _, _⟩ := envRadix_facts h
  have hw := halfway_of_envRadix h
  unfold halfwayB at hw
  simp only [List.all_cons, List.all_nil, Bool.and_true, Bool.and_eq_true] at hw
  have hf : WF F.fmt := by rcases hF with hF | hF <;> subst hF <;> first | exact wf_f64 | exact wf_f32
  have hfacts : 1 ≤ d ∧ 2 ^ (F.fmt.p + 1) * 2 ^ (F.fmt.maxExpField - 2 - (L F.fmt + 1)) ≤ r ^ d ∧
      2 ^ (F.fmt.p + 1) * (r / 2) ^ (L F.fmt + 1) ≤ r ^ d := by
    rcases hF with hF | hF <;> subst hF
    · have := hw.2
      rw [show FTy.f64.fmt = f64 from rfl] at hd ⊢
      rw [hd] at this
      simpa [Bool.and_eq_true, and_assoc] using this
    · have := hw.1
      rw [show FTy.f32.fmt = f32 from rfl] at hd ⊢
      rw [hd] at this
      simpa [Bool.and_eq_true, and_assoc] using this
  obtain ⟨hd1, hi, hii⟩ := hfacts
  have hrpos : 0 < r := by omega
  unfold mantissaOf sigValue digitExponent
  rw [if_neg (by omega), hz]
  simp only [if_true]
  -- the digits
  have hsplit : ofDigits r (dv r bs) =
      ofDigits r (dv r (bs.take d)) * r ^ (bs.length - d) + ofDigits r (dv r (bs.drop d)) := by
    conv => lhs; rw [← List.take_append_drop d bs]
    rw [ofDigits_dv_append, List.length_drop]
  have htail1 := ofDigits_pos_of_anyNonzero hrpos (bs.drop d) (fun c hc => hb256 c (List.mem_of_mem_drop hc)) hz
  have htail2 := ofDigits_dv_lt (valid_drop hv d)
  rw [List.length_drop] at htail2
  have hP : r ^ (d - 1) ≤ ofDigits r (dv r (bs.take d)) := by
    cases hbs : bs with
    | nil => rw [hbs] at hlen; simp at hlen
    | cons c cs =>
      have h48 := hhead c cs hbs
      have hc : c < 256 := hb256 c (by rw [hbs]; exact List.mem_cons_self ..)
      obtain ⟨d', rfl⟩ : ∃ d', d = d' + 1 := ⟨d - 1, by omega⟩
      rw [List.take_succ_cons]
      have := ofDigits_ge_of_head (radix := r) (cs := cs.take d') hc h48
      rw [List.length_take, Nat.min_eq_left (by rw [hbs] at hlen; simp at hlen; omega)] at this
      simpa using this
  generalize hPv : ofDigits r (dv r (bs.take d)) = P at *
  generalize htl : ofDigits r (dv r (bs.drop d)) = tl at *
  generalize hS : ofDigits r (dv r bs) = S at *
  obtain ⟨m, hm⟩ : ∃ m, bs.length - d = m + 1 := ⟨bs.length - d - 1, by omega⟩
  rw [hm] at hsplit htail2
  -- both mantissas, at the exponent of the whole string, lie strictly between `P·r^(m+1)` and `(P+1)·r^(m+1)`
  have hshift := roundNE_powFrac_shift hf hrpos (P * r + 1) m (sciExp + 1 - (bs.length : Int))
  have hexp : sciExp + 1 - (bs.length : Int) + (m : Int) = sciExp + 1 - ((d + 1 : Nat) : Int) := by omega
  rw [hexp] at hshift
  rw [← hshift]
  have key := LexVerif.Proof.Truncation.roundNE_const_between hf (show r = 2 * (r / 2) by omega) (by omega) hd1 hi hii
    P (m + 1) ((P * r + 1) * r ^ m) S hP (by omega)
    (by
      have : (P * r + 1) * r ^ m = P * r ^ (m + 1) + r ^ m := by rw [Nat.pow_succ]; ring
      have := Nat.pow_pos hrpos (n := m)
      omega)
    (by
      have e1 : (P * r + 1) * r ^ m = P * r ^ (m + 1) + r ^ m := by rw [Nat.pow_succ]; ring
      have e2 : (P + 1) * r ^ (m + 1) = P * r ^ (m + 1) + r ^ m * r := by rw [Nat.pow_succ]; ring
      have : r ^ m * 1 < r ^ m * r := Nat.mul_lt_mul_of_pos_left (by omega) (Nat.pow_pos hrpos)
      omega)
    (by omega)
    (by
      have e2 : (P + 1) * r ^ (m + 1) = P * r ^ (m + 1) + r ^ (m + 1) := by ring
      omega)
    (sciExp + 1 - (bs.length : Int)).toNat (-(sciExp + 1 - (bs.length : Int))).toNat
  unfold powFrac
  by_cases hx : 0 ≤ sciExp + 1 - (bs.length : Int)
  · rw [if_pos hx, if_pos hx]
    have e0 : (-(sciExp + 1 - (bs.length : Int))).toNat = 0 := by omega
    rw [e0, Nat.pow_zero] at key
    exact key
  · rw [if_neg hx, if_neg hx]
    have e0 : (sciExp + 1 - (bs.length : Int)).toNat = 0 := by omega
    rw [e0, Nat.pow_zero, Nat.mul_one, Nat.mul_one] at key
    exact key

/-- **full statement** (a `Prop`): `slow_radix` returns the correctly rounded value of the complete digit string for
every build, radix with a digit limit, float type and input satisfying the moderate path's contract.
`slow_radix_correct` + `value_untruncated` + `value_zero_tail` prove it except for `truncation_invariant`. -/
def slow_radix_correct_full : Prop :=
  ∀ (E : Env) (r : Nat), EnvRadix E r → ∀ (F : FTy) (p eb : Nat), Layout F p eb → IsFloat F →
    ∀ (radixFeature : Bool) (d : Nat), E.S.maxDigits F.fmt r = some d → ∀ (n : SNum) (fp : ExtendedFloat80),
    ValidDigits r n.integer → (∀ fr, n.fraction = some fr → ValidDigits r fr) →
    sigBytes n.integer n.fraction ≠ [] → (∀ c ∈ sigBytes n.integer n.fraction, c < 256) →
    -(2 ^ 27 : Int) < scientificExponent r n.mantissa n.exponent → scientificExponent r n.mantissa n.exponent < 2 ^ 27 →
    (0 ≤ digitExponent (scientificExponent r n.mantissa n.exponent) (mantissaOf r d (sigBytes n.integer n.fraction)).2 →
      (mantissaOf r d (sigBytes n.integer n.fraction)).1 *
        r ^ (digitExponent (scientificExponent r n.mantissa n.exponent) (mantissaOf r d (sigBytes n.integer n.fraction)).2).toNat <
        2 ^ (64 * E.L.bigintLimbs)) →
    (digitExponent (scientificExponent r n.mantissa n.exponent) (mantissaOf r d (sigBytes n.integer n.fraction)).2 < 0 →
      2 ^ 63 ≤ fp.mant ∧ fp.mant < 2 ^ 64 ∧ fp.exp < 2 ^ 20 ∧
      WeakBracket F fp (mantissaOf r d (sigBytes n.integer n.fraction)).1
        (r ^ (-digitExponent (scientificExponent r n.mantissa n.exponent) (mantissaOf r d (sigBytes n.integer n.fraction)).2).toNat) ∧
      NegFit E F p r (mantissaOf r d (sigBytes n.integer n.fraction)).1 fp
        (digitExponent (scientificExponent r n.mantissa n.exponent) (mantissaOf r d (sigBytes n.integer n.fraction)).2)) →
    ∃ res, slowRadix E F radixFeature r n fp = some res ∧ 0 ≤ res.exp ∧
      extendedToFloat F res = roundNE F.fmt
        (sigValue r (sigBytes n.integer n.fraction) (scientificExponent r n.mantissa n.exponent)).1
        (sigValue r (sigBytes n.integer n.fraction) (scientificExponent r n.mantissa n.exponent)).2

/-- the full statement follows from `truncation_invariant` (everything else is proved) -/
theorem slow_radix_correct_full_of_truncation (ht : truncation_invariant) : slow_radix_correct_full := by
  intro E r h F p eb lay hF rf d hd n fp hvi hvf hne hbytes hs1 hs2 hpos hneg
  have hden : F.C.denormalExponent = 1 - F.C.exponentBias := by
    rcases hF with hF | hF <;> subst hF <;> decide
  obtain ⟨res, e1, e2, e3⟩ := slow_radix_correct h lay hF hden rf hd n fp hvi hvf hne hbytes hs1 hs2 hpos hneg
  refine ⟨res, e1, e2, ?_⟩
  rw [e3]
  have hr2 := (envRadix_facts h).1
  by_cases hl : (sigBytes n.integer n.fraction).length ≤ d
  · rw [value_untruncated r d _ _ hl]
  · by_cases hz : anyNonzero ((sigBytes n.integer n.fraction).drop d) = true
    · have hvs : ValidDigits r (sigBytes n.integer n.fraction) := by
        unfold sigBytes
        cases hfr : n.fraction with
        | none => exact valid_skipZeros hvi
        | some fr =>
          simp only
          split
          · exact valid_skipZeros (hvf fr hfr)
          · exact valid_append (valid_skipZeros hvi) (hvf fr hfr)
      exact ht E r h F hF d hd _ _ hvs hbytes (fun c cs hcs => sigBytes_head hcs) (by omega) hz
    · exact value_zero_tail lay.wf (by omega) d _ _ (by omega) (by simpa using hz)

/-- **`slow_radix_correct_full` holds**: `slow_radix` returns the correctly rounded value of the **complete** digit
string — any number of digits — for every build, radix with a digit limit and float type, on the stated domain -/
theorem slow_radix_correct_full_proved : slow_radix_correct_full :=
  slow_radix_correct_full_of_truncation truncation_invariant_proved

/-! ## non-vacuity: concrete half-way cases evaluated by the kernel -/

/-- ASCII bytes of a literal -/
def bytesOf (s : String) : List Nat := s.toList.map Char.toNat

/-- `9007199254740993·10^14 / 10^14 = 2^53 + 1` written with 30 digits is **exactly half-way** between `2^53` and
`2^53 + 2`: the slow path (decimal, binary64, error float as Eisel–Lemire returns it) answers the even neighbour;
one unit more in the 30th digit rounds up; one unit less rounds down -/
example :
    slowRadix envDefault FTy.f64 false 10 ⟨9007199254740993000, -3, bytesOf "900719925474099300000000000000", none⟩
      ⟨9223372036854776832, 1065⟩ = some ⟨0, 1076⟩ ∧
    slowRadix envDefault FTy.f64 false 10 ⟨9007199254740993000, -3, bytesOf "900719925474099300000000000001", none⟩
      ⟨9223372036854776832, 1065⟩ = some ⟨1, 1076⟩ ∧
    slowRadix envDefault FTy.f64 false 10 ⟨9007199254740992999, -3, bytesOf "900719925474099299999999999999", none⟩
      ⟨9223372036854776832, 1065⟩ = some ⟨0, 1076⟩ ∧
    extendedToFloat FTy.f64 ⟨0, 1076⟩ = roundNE f64 (2 ^ 53 + 1) 1 := by decide +kernel

/-- the hypotheses of (c) are satisfiable on that input: the error float is normalised, above the underflow cut, its
round-down `2^53` is finite and brackets `M / 10^14`, and the guard holds -/
example :
    mantissaOf 10 769 (bytesOf "900719925474099300000000000000") = (900719925474099300000000000000, 30) ∧
    scientificExponent 10 9007199254740993000 (-3) = 15 ∧
    roundedDown FTy.f64 ⟨9223372036854776832, 1065⟩ = 0x4340000000000000 ∧
    SlowBracket FTy.f64 ⟨9223372036854776832, 1065⟩ 900719925474099300000000000000 (10 ^ 14) ∧
    NegGuard envDefault FTy.f64 53 10 900719925474099300000000000000 ⟨9223372036854776832, 1065⟩ (-14) := by
  unfold SlowBracket NegGuard roundedDown
  decide +kernel

/-- (b): `(2^53 + 1)·2^50` (32 digits, exponent 0 relative to the digits) is a tie; its neighbours; and the overflow
boundary `2^1024 − 2^970` (half-way between the greatest finite double and `2^1024`) rounds to infinity -/
example :
    slowRadix envDefault FTy.f64 false 10 ⟨1014120480182583633, 13, bytesOf "10141204801825836337873532485632", none⟩
      ⟨9223372036854776824, 1115⟩ = some ⟨0, 1126⟩ ∧
    slowRadix envDefault FTy.f64 false 10 ⟨1014120480182583633, 13, bytesOf "10141204801825836337873532485633", none⟩
      ⟨9223372036854776824, 1115⟩ = some ⟨1, 1126⟩ ∧
    positiveDigitComp envDefault FTy.f64 10 (2 ^ 1024 - 2 ^ 970) 0 = some ⟨0, 2047⟩ ∧
    positiveDigitComp envDefault FTy.f64 10 (2 ^ 1024 - 2 ^ 970 - 1) 0 = some ⟨4503599627370495, 2046⟩ := by
  decide +kernel

/-- a radix-36 tie through `digit_comp`, binary32 -/
example : positiveDigitComp envRadix FTy.f32 36 (2 ^ 24 + 1) 3 =
    some ⟨(roundNE f32 ((2 ^ 24 + 1) * 36 ^ 3) 1) % 2 ^ 23, (roundNE f32 ((2 ^ 24 + 1) * 36 ^ 3) 1) / 2 ^ 23⟩ := by
  decide +kernel

/-- the capacity check is real: one limb beyond `BIGINT_LIMBS` and `Bigint::pow` returns `None` (the caller `unwrap`s) -/
example : positiveDigitComp envDefault FTy.f64 10 1 1195 = none ∧
    (positiveDigitComp envDefault FTy.f64 10 1 1194).isSome = true := by decide +kernel

/-! ## regression: `compare_bytes` and lower-case digits (odd radices ≥ 11, `byte_comp`) -/

/-- **`byte_comp_lowercase_regression`**: radix 11, `2179a75830112629` = `2^53 + 1`, an exact tie. Until /repo commit
6651793 `compare_bytes` compared the input byte `'a'` with the upper-case `'A'` that `digit_to_char_const` produced,
answered `Greater`, and the lower-case spelling parsed to `2^53 + 2` (the model of that code decided
`… = some ⟨1, 1076⟩`; found by this model's correspondence stream). Now digit values are compared: both spellings
give the even neighbour `2^53`. -/
theorem byte_comp_lowercase_regression :
    slowRadix envRadix FTy.f64 true 11 ⟨9007199254740993, 0, bytesOf "2179a75830112629", none⟩
      ⟨9223372036854776832, 1065⟩ = some ⟨0, 1076⟩ ∧
    slowRadix envRadix FTy.f64 true 11 ⟨9007199254740993, 0, bytesOf "2179A75830112629", none⟩
      ⟨9223372036854776832, 1065⟩ = some ⟨0, 1076⟩ ∧
    extendedToFloat FTy.f64 ⟨0, 1076⟩ = roundNE f64 (2 ^ 53 + 1) 1 := by decide +kernel

/-! ## `scientific_exponent` -/

/-- **`scientific_exponent_spec`**: for a non-zero `u64` mantissa `m` and `|exponent| ≤ 2^30`, `scientific_exponent`
returns `exponent + T` with `radix^T ≤ m < radix^(T+1)`: the weight of the leading digit of `m·radix^exponent` -/
theorem scientific_exponent_spec {radix : Nat} (hr : 2 ≤ radix) (hr36 : radix ≤ 36) {m : Nat} (hm1 : 1 ≤ m)
    (hm : m < 2 ^ 64) {e : Int} (he1 : -(2 ^ 30 : Int) ≤ e) (he2 : e ≤ 2 ^ 30) :
    ∃ T : Nat, radix ^ T ≤ m ∧ m < radix ^ (T + 1) ∧ scientificExponent radix m e = e + T :=
  scientificExponent_spec hr hr36 hm1 hm he1 he2

/-- for a mantissa written with `k` digits (leading digit non-zero) that is `exponent + k − 1` -/
theorem scientific_exponent_digits {radix : Nat} (hr : 2 ≤ radix) (hr36 : radix ≤ 36) (d : Nat) (ds : List Nat)
    (hd0 : d ≠ 0) (hds : ∀ x ∈ d :: ds, x < radix) (hm : ofDigits radix (d :: ds) < 2 ^ 64) {e : Int}
    (he1 : -(2 ^ 30 : Int) ≤ e) (he2 : e ≤ 2 ^ 30) :
    scientificExponent radix (ofDigits radix (d :: ds)) e = e + ds.length := by
  have hpos := ofDigits_pos_of_head (by omega : 0 < radix) ds hd0
  obtain ⟨T, t1, t2, t3⟩ := scientificExponent_spec hr hr36 hpos hm he1 he2
  have hlt := ofDigits_lt (d :: ds) hds
  have hge : radix ^ ds.length ≤ ofDigits radix (d :: ds) := by
    rw [ofDigits_cons]
    have : 1 * radix ^ ds.length ≤ d * radix ^ ds.length := Nat.mul_le_mul_right _ (by omega)
    omega
  rw [List.length_cons] at hlt
  have a1 : T < ds.length + 1 := (Nat.pow_lt_pow_iff_right (by omega : 1 < radix)).mp (Nat.lt_of_le_of_lt t1 hlt)
  have a2 : ds.length < T + 1 := (Nat.pow_lt_pow_iff_right (by omega : 1 < radix)).mp (Nat.lt_of_le_of_lt hge t2)
  rw [t3]
  have : T = ds.length := by omega
  rw [this]

/-! ## the value-level big integers refine the limb-level ones -/

/-- `small_mul` on a normalised limb vector (64-bit limbs, non-zero top limb): the value-level operation of
`Model.Slow` and the limb-level one of `Model.SlowBytes` return the same value and fail on the same inputs
(`try_push` beyond `SIZE` ⇔ the product needs more than `SIZE` limbs) -/
theorem small_mul_refines {cap : Nat} {x : Limbs} (h : Normalized x) (hlen : x.length ≤ cap) {y : Nat} (hy0 : y ≠ 0)
    (hy : y < 2 ^ 64) : (smallMulL cap x y).map valL = smallMul cap (valL x) y :=
  smallMul_refines h hlen hy0 hy

/-- `shl_limbs` likewise (`n + len > SIZE` ⇔ `n + limbsOf value > SIZE`) -/
theorem shl_limbs_refines {cap : Nat} {x : Limbs} (h : Normalized x) (n : Nat) :
    (shlLimbsL cap x n).map valL = shlLimbs cap (valL x) n := shlLimbs_refines h n

example : Normalized [5, 0, 7] ∧ (smallMulL 3 [5, 0, 7] (2 ^ 63)).map valL = none ∧
    (smallMulL 4 [5, 0, 7] (2 ^ 63)).map valL = some (valL [5, 0, 7] * 2 ^ 63) := by
  refine ⟨⟨?_, ?_⟩, by decide +kernel, by decide +kernel⟩
  · intro l hl; simp at hl; rcases hl with h | h | h <;> subst h <;> decide
  · intro l hl; simp at hl; subst hl; decide

end LexVerif.Props.C01Slow
