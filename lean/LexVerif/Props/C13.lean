import LexVerif.Proof.SepDigits
import LexVerif.Proof.SepFreeTop
import LexVerif.Proof.SepStrip5
/-!
# C13 — digit separators (property theorems about `Model.Iter` / `Model.ParseNumber`)

* `peek_skips_only_separators`, `parse_digits_yields_nonseparators`: a skip iterator never alters a value by itself —
  what it skips are separator bytes, what it yields are the other bytes, in order.
* `sep_free_same` (R4): on inputs without the separator byte the model treats a separator format and its
  separator-free counterpart identically — for **every** valid format (`RelClass`: release build, no component with
  the consecutive flag alone, multi-digit fast paths for radix ≤ 10 only), whatever components carry separator
  flags; `sep_free_same_full` is proved (`sep_free_same_full_holds`). Before /repo 7e8a135 + 12a2453 (8-digit blocks
  counted, contiguous iterators count by cursor) this held only when the integer and the fraction component both
  carried separator flags; the former refutation witnesses are now regression theorems (`sep_free_regression_*`).
* `strip_preserves` (R1): for the class where every digit component skips every separator (I+L+T+C), an input accepted
  as a number is accepted, as the same number, after deleting the separators. `strip_preserves_full` (all formats) is
  refuted by the I+T+C class (`strip_witness_itc`). **`Props/C13Gen.lean` extends R1 to every flag combination on
  every component except I+T+C on the integer / fraction component (`strip_preserves_all`), and R3 to the same classes
  under the documented position rules (`insert_preserves_doc`).**
* `position_witness_*` (R2): separators accepted at positions the flags do not enable.
* `insert_preserves` (R3): the converse for the same class — separators inserted anywhere except directly in front of
  a sign keep the input accepted as the same number.
-/
namespace LexVerif.Props.C13
open LexVerif LexVerif.Model LexVerif.Spec LexVerif.Proof.Sep
open LexVerif.Props.C12 (Bytes.Valid)

/-! ## 2. What a skip iterator skips and yields -/

/-- `DigitsIter::peek` of every component iterator, every format: the buffer is untouched, every byte the cursor
moved over is the digit separator, and the value returned is the byte under the new cursor. -/
theorem peek_skips_only_separators (c : Cfg) (k : Comp) (b b' : Bytes) (v : Option Nat) (hv : Bytes.Valid b)
    (hp : peek c k b = .ok (v, b')) :
    b'.slc = b.slc ∧ b.index ≤ b'.index ∧ (slice b.slc b.index b'.index).all c.isSep = true ∧
      v = b'.slc[b'.index]? := by
  have h := C12.peek_spec c k b b' v hv hp
  exact ⟨h.1, h.2.2.2.2.1, peek_skips c k b b' v hp, h.2.2.2.2.2.2⟩

/-- `parse_digits` over any skip iterator (release build; the separator is not a digit of `radix`, which
`format.is_valid()` guarantees): the digits handed to the callback are exactly the non-separator bytes of the
region the cursor moved over, in order. The iterator removes separators and nothing else. -/
theorem parse_digits_yields_nonseparators (c : Cfg) (k : Comp) (radix : Nat) (hd : c.debug = false)
    (hsep : ∀ x, c.isSep x = true → charToDigit x radix = none) (b b' : Bytes) (ds : List Nat)
    (hv : Bytes.Valid b) (h : parseDigits c k radix b = .ok (ds, b')) :
    (nonSep c (slice b.slc b.index b'.index)).map (fun x => charToDigit x radix) = ds.map some :=
  parseDigits_yields c k radix hd hsep b b' ds hv h

/-- non-vacuity: `1_2_` with I+L+T+C — the digits are those of the non-separator bytes -/
example :
    parseDigits ⟨{ format := true }, ⟨0xc + 0x5f * 2 ^ 64 + 0xfff * 2 ^ 32 + 10 * 2 ^ 104⟩, false⟩ .integer 10
      { slc := [49, 95, 50, 95], index := 0 } = .ok ([1, 2], { slc := [49, 95, 50, 95], index := 4, ic := 2 }) := by rfl

/-! ## 1. Separator-free inputs (R4) -/

/-- **R4 on the model.** `c` is any valid format in the release build (`RelClass`: separator byte and separator flags
on any components, or none), `c'` has no separators (`PlainClass`) and agrees with `c` on every other parameter
(`Counterpart`). Then every input without the separator byte gets the same result — value, count, error kind and
index — from both, for the complete and the partial parser. -/
theorem sep_free_same (c c' : Cfg) (hS : RelClass c) (hP : PlainClass c') (hC : Counterpart c c')
    (o : POpts) (isPartial : Bool) (input : List Nat) (fv : Bool) (hn : NoSep c input) :
    parseFloatSyntax c' o isPartial input fv = parseFloatSyntax c o isPartial input fv :=
  parseFloatSyntax_same c c' hS hP hC o isPartial input fv hn

/-- the same one level down: `parse_number` from any cursor -/
theorem sep_free_same_number (c c' : Cfg) (hS : RelClass c) (hP : PlainClass c') (hC : Counterpart c c')
    (isPartial : Bool) (o : POpts) (b : Bytes) (neg fv : Bool) (hn : NoSep c b.slc) :
    parseNumber c isPartial o b neg fv = parseNumber c' isPartial o b neg fv :=
  parseNumber_same c c' hS hP hC isPartial o b neg fv hn

/-- the full statement the property asks for: *every* format with separators against its counterpart -/
def sep_free_same_full : Prop :=
  ∀ (c c' : Cfg), c.debug = false → (∀ k, c.skip k ≠ .unreachable) → PlainClass c' → Counterpart c c' →
    ∀ (o : POpts) (isPartial : Bool) (input : List Nat), NoSep c input →
      parseFloatSyntax c' o isPartial input = parseFloatSyntax c o isPartial input

/-- the counterpart's radix condition carries over -/
theorem relClass_of_counterpart (c c' : Cfg) (hd : c.debug = false) (hk : ∀ k, c.skip k ≠ .unreachable)
    (hP : PlainClass c') (hC : Counterpart c c') : RelClass c :=
  ⟨hd, hk, fun h => by rw [← hC.mantissaRadix]; exact hP.radix (by rw [hC.feats]; exact h)⟩

/-- **the full statement holds** (since /repo 7e8a135 + 12a2453; it was refuted on the tree before) -/
theorem sep_free_same_full_holds : sep_free_same_full :=
  fun c c' hd hk hP hC o isPartial input hn =>
    sep_free_same c c' (relClass_of_counterpart c c' hd hk hP hC) hP hC o isPartial input true hn

/-! ### concrete formats (radix 10, `_`, STANDARD syntax flags; feature set radix+format) -/

def feats : Features := { format := true, radix := true, powerOfTwo := true }
/-- `fmt bits` = STANDARD | '_' | the given separator flag bits (bit 0 = integer-internal … bit 11 = exponent-consecutive) -/
def cfgOf (sepBits : Nat) (sep : Nat := 0x5f) : Cfg := ⟨feats, ⟨0xc + sep * 2 ^ 64 + sepBits * 2 ^ 32 + 10 * 2 ^ 104⟩, false⟩
def cPlain : Cfg := cfgOf 0 0
def cIltc : Cfg := cfgOf 0xfff          -- I+L+T+C in all three components
def cIntI : Cfg := cfgOf 0x001          -- integer-internal only       (fmtcat: sepmix_int_i)
def cFracI : Cfg := cfgOf 0x002         -- fraction-internal only      (sepmix_frac_i)
def cExpI : Cfg := cfgOf 0x004          -- exponent-internal only      (sepmix_exp_i)
def cNone : Cfg := cfgOf 0x000          -- separator byte, no flags    (sepmix_none)
def cIntFracI : Cfg := cfgOf 0x003      -- integer+fraction internal, exponent none

theorem plain_class : PlainClass cPlain := by
  refine ⟨rfl, rfl, ?_, ?_⟩
  · intro k; cases k <;> rfl
  · intro h; cases h

theorem iltc_class : RelClass cIltc := by
  refine ⟨rfl, ?_, by decide⟩
  intro k; cases k <;> decide

theorem iltc_counterpart : Counterpart cIltc cPlain := by constructor <;> rfl

theorem intfrac_class : RelClass cIntFracI := by
  refine ⟨rfl, ?_, by decide⟩
  intro k; cases k <;> decide

theorem intfrac_counterpart : Counterpart cIntFracI cPlain := by constructor <;> rfl

/-- non-vacuity of `sep_free_same`: the I+L+T+C format and the integer+fraction-only format against STANDARD,
on `12345678.12345678e5` -/
example : parseFloatSyntax cPlain {} false [49,50,51,52,53,54,55,56,46,49,50,51,52,53,54,55,56,101,53]
    = parseFloatSyntax cIltc {} false [49,50,51,52,53,54,55,56,46,49,50,51,52,53,54,55,56,101,53] :=
  sep_free_same cIltc cPlain iltc_class plain_class iltc_counterpart {} false _ true (by unfold NoSep; decide)

example : ∃ n, parseFloatSyntax cIntFracI {} false [49,50,51,52,53,54,55,56,46,49,50,51,52,53,54,55,56,101,53]
    = .ok (.number n 19) ∧ n.mantissa = 1234567812345678 ∧ n.exponent = -3 := ⟨_, rfl, rfl, rfl⟩

/-! ### regressions: the formerly excluded classes (finding `sep-format-uncounted-8digit-block`, repaired)

Each input below was a `decide`d refutation witness before /repo 7e8a135 + 12a2453 (the comment gives the old result);
now the separator format agrees with the separator-free counterpart, as `sep_free_same` proves in general. -/

/-- the result is the number with this count, mantissa, exponent and (optional) fraction slice -/
def numIs (r : Except Err Parsed) (cnt mant : Nat) (exp : Int) (frac : Option (List Nat)) : Bool :=
  match r with
  | .ok (.number n c) => c == cnt && n.mantissa == mant && n.exponent == exp && n.fraction == frac
  | _ => false

/-- fraction-only flags: `12345678` (no separator byte in it) — was `InvalidDigit 0` -/
theorem sep_free_regression_frac_only :
    numIs (parseFloatSyntax cFracI {} false [49,50,51,52,53,54,55,56]) 8 12345678 0 none = true ∧
    numIs (parseFloatSyntax cPlain {} false [49,50,51,52,53,54,55,56]) 8 12345678 0 none = true := by decide

/-- integer-only flags: `.12345678` — was `EmptyMantissa 9`; `1.123456789` — was mis-scaled (exponent −1, one-byte
fraction slice) -/
theorem sep_free_regression_int_only :
    numIs (parseFloatSyntax cIntI {} false [46,49,50,51,52,53,54,55,56]) 9 12345678 (-8)
      (some [49,50,51,52,53,54,55,56]) = true ∧
    numIs (parseFloatSyntax cPlain {} false [46,49,50,51,52,53,54,55,56]) 9 12345678 (-8)
      (some [49,50,51,52,53,54,55,56]) = true ∧
    numIs (parseFloatSyntax cIntI {} false [49,46,49,50,51,52,53,54,55,56,57]) 11 1123456789 (-9)
      (some [49,50,51,52,53,54,55,56,57]) = true ∧
    numIs (parseFloatSyntax cPlain {} false [49,46,49,50,51,52,53,54,55,56,57]) 11 1123456789 (-9)
      (some [49,50,51,52,53,54,55,56,57]) = true := by decide

/-- exponent-only flags: `12345678` — was `InvalidDigit 0` -/
theorem sep_free_regression_exp_only :
    numIs (parseFloatSyntax cExpI {} false [49,50,51,52,53,54,55,56]) 8 12345678 0 none = true := by decide

/-- separator byte without any flag: `12345678` — was `InvalidDigit 0` -/
theorem sep_free_regression_no_flags :
    numIs (parseFloatSyntax cNone {} false [49,50,51,52,53,54,55,56]) 8 12345678 0 none = true := by decide

/-- the formerly excluded classes are instances of the general theorem -/
theorem fracI_class : RelClass cFracI := by
  refine ⟨rfl, ?_, by decide⟩
  intro k; cases k <;> decide

example : parseFloatSyntax cPlain {} true [49,50,51,52,53,54,55,56,57,46,49,50,51,52,53,54,55,56,57,120]
    = parseFloatSyntax cFracI {} true [49,50,51,52,53,54,55,56,57,46,49,50,51,52,53,54,55,56,57,120] :=
  sep_free_same cFracI cPlain fracI_class plain_class (by constructor <;> rfl) {} true _ true (by unfold NoSep; decide)

/-! ## 3. Deleting the separators (R1) -/

/-- the digits `numberBits` reads from a stored slice do not change when the slice is stripped
(skip-everything iterator) -/
theorem sliceDigits_strip (c : Cfg) (k : Comp) (hk : c.skip k = .pred .iltc) (l : List Nat) :
    sliceDigits c k (nonSep c l) = sliceDigits c k l := by
  have h0 : ({ c with debug := false } : Cfg).skip k = .pred .iltc := hk
  unfold sliceDigits
  rw [parseDigits_skip { c with debug := false } k _ rfl h0, parseDigits_skip { c with debug := false } k _ rfl h0]
  simp only [new_slc, new_index, List.drop_zero]
  rw [(digitsSkip_strip _ _ _).1, (digitsSkip_strip _ _ _).1]
  congr 1
  show nonSep c (nonSep c l) = nonSep c l
  simp [nonSep, List.filter_filter]

/-- numbers related by `NumRel` have the same value -/
theorem numberBits_strip (c : Cfg) (hA : SkipAll c) (f : Fmt) (n n' : Number) (h : NumRel c n n') :
    numberBits c f n' = numberBits c f n := by
  obtain ⟨h1, h2, h3, h4, h5, h6, h7⟩ := h
  unfold numberBits
  rw [h1, h2, h3, h4, h5, h6, h7, sliceDigits_strip c .integer hA.int]
  cases n.fraction with
  | none => rfl
  | some fd => simp only [Option.map_some, sliceDigits_strip c .fraction hA.frac]

/-- **R1 on the model, class I+L+T+C** (`SkipAll`: every digit component skips every separator; no base prefix /
suffix; STANDARD's required exponent / mantissa digits; decimal point is not a sign character): an input the complete
parser accepts as a number is still accepted after all separator bytes are deleted, as the same number — same
mantissa, exponent, sign and digit slices up to separators — hence with the same value. -/
theorem strip_preserves (c : Cfg) (hA : SkipAll c) (o : POpts) (hdp : o.dp ≠ 43 ∧ o.dp ≠ 45) (s : List Nat)
    (fv : Bool) (n : Number) (cnt : Nat) (f : Fmt) (h : parseFloatSyntax c o false s fv = .ok (.number n cnt)) :
    ∃ n', parseFloatSyntax c o false (nonSep c s) fv = .ok (.number n' (nonSep c s).length) ∧
      NumRel c n n' ∧ numberBits c f n' = numberBits c f n := by
  obtain ⟨n', h1, h2⟩ := parseFloatSyntax_strip c hA o hdp s fv n cnt h
  exact ⟨n', h1, h2, numberBits_strip c hA f n n' h2⟩

/-- the statement the property asks for: every format with separators (no exclusion) -/
def strip_preserves_full : Prop :=
  ∀ (c : Cfg), c.debug = false → (∀ k, c.skip k ≠ .unreachable) → ∀ (o : POpts) (s : List Nat) (n : Number) (cnt : Nat),
    parseFloatSyntax c o false s = .ok (.number n cnt) →
      ∃ n', parseFloatSyntax c o false (nonSep c s) = .ok (.number n' (nonSep c s).length) ∧
        n'.mantissa = n.mantissa ∧ n'.exponent = n.exponent

theorem iltc_skipAll : SkipAll cIltc := by
  refine ⟨rfl, by decide, by decide, by decide, by decide, rfl, rfl, rfl, rfl, rfl, rfl, rfl, by decide, by decide⟩

/-- non-vacuity: `-_1_2._5_e+_1_0_` is accepted by the I+L+T+C format -/
example : ∃ n, parseFloatSyntax cIltc {} false [45,95,49,95,50,46,95,53,95,101,43,95,49,95,48,95] = .ok (.number n 16) ∧
    n.mantissa = 125 ∧ n.exponent = 9 := ⟨_, rfl, rfl, rfl⟩

def cItc : Cfg := cfgOf 0xfc7           -- I+T+C without L   (sep_itc; RUST / SWIFT / OCAML literal formats)
def cIlc : Cfg := cfgOf 0xe3f           -- I+L+C without T   (sep_ilc)

/-- the result is a number with this count and mantissa -/
def numIsM (r : Except Err Parsed) (cnt mant : Nat) : Bool :=
  match r with
  | .ok (.number n c) => c == cnt && n.mantissa == mant
  | _ => false

theorem numIsM_elim {r : Except Err Parsed} {cnt mant : Nat} (h : numIsM r cnt mant = true) :
    ∃ n, r = .ok (.number n cnt) ∧ n.mantissa = mant := by
  unfold numIsM at h
  split at h
  · next n c =>
    simp only [Bool.and_eq_true, beq_iff_eq] at h
    exact ⟨n, by rw [h.1], h.2⟩
  · cases h

/-- negation witness, class I+T+C (no L), for the code as it is (`Fix.itc = false`; void under the proposed repair
`fixes/C13-sep-itc-accepts-leading.diff`): `1._1234567890123456789` is accepted with mantissa 5712345678901234567,
the stripped `1.1234567890123456789` with 1123456789012345678 (the stored slice is re-scanned from `prev = None`) -/
theorem strip_witness_itc :
    Fix.itc = true ∨
    (numIsM (parseFloatSyntax cItc {} false [49,46,95,49,50,51,52,53,54,55,56,57,48,49,50,51,52,53,54,55,56,57]) 22
      5712345678901234567 = true ∧
     numIsM (parseFloatSyntax cItc {} false [49,46,49,50,51,52,53,54,55,56,57,48,49,50,51,52,53,54,55,56,57]) 21
      1123456789012345678 = true) := by decide

theorem strip_preserves_full_false (hcur : Fix.itc = false) : ¬ strip_preserves_full := by
  intro h
  rcases strip_witness_itc with hf | ⟨w1, w2⟩
  · rw [hcur] at hf; cases hf
  obtain ⟨n, hn, hm⟩ := numIsM_elim w1
  obtain ⟨n2, hn2, hm2⟩ := numIsM_elim w2
  obtain ⟨n', h1, h2, _⟩ := h cItc rfl (by intro k; cases k <;> decide) {} _ n 22 hn
  have hs : nonSep cItc [49,46,95,49,50,51,52,53,54,55,56,57,48,49,50,51,52,53,54,55,56,57]
      = [49,46,49,50,51,52,53,54,55,56,57,48,49,50,51,52,53,54,55,56,57] := by decide
  rw [hs, hn2] at h1
  simp only [Except.ok.injEq, Parsed.number.injEq] at h1
  rw [← h1.1, hm, hm2] at h2
  cases h2

/-! ## 4. Inserting separators (R3) -/

/-- **R3 on the model, class I+L+T+C.** `t` is accepted by the complete parser as a number and `s` arises from `t` by
inserting separator bytes anywhere except directly (through separators) in front of a sign character — for this
class that covers every leading / internal / trailing / consecutive position of every component. Then `s` is
accepted as the same number, hence with the same value. -/
theorem insert_preserves (c : Cfg) (hA : SkipAll c) (o : POpts) (t s : List Nat) (hst : nonSep c s = t)
    (hP : NoSepBeforeSign c s) (fv : Bool) (n' : Number) (cnt : Nat) (f : Fmt)
    (h : parseFloatSyntax c o false t fv = .ok (.number n' cnt)) :
    ∃ n, parseFloatSyntax c o false s fv = .ok (.number n s.length) ∧ NumRel c n n' ∧
      numberBits c f n = numberBits c f n' := by
  subst hst
  obtain ⟨n, h1, h2⟩ := parseFloatSyntax_insert c hA o s hP fv n' cnt h
  exact ⟨n, h1, h2, (numberBits_strip c hA f n n' h2).symm⟩

/-- the statement for every format: separators inserted at positions the flags enable (`Enabled` left abstract: any
predicate on (format, input) that implies the position rules of docs/DigitSeparators.md) -/
def insert_preserves_full (Enabled : Cfg → List Nat → Prop) : Prop :=
  ∀ (c : Cfg), c.debug = false → (∀ k, c.skip k ≠ .unreachable) → ∀ (o : POpts) (s : List Nat) (n' : Number) (cnt : Nat),
    Enabled c s → parseFloatSyntax c o false (nonSep c s) = .ok (.number n' cnt) →
      ∃ n, parseFloatSyntax c o false s = .ok (.number n s.length) ∧ n.mantissa = n'.mantissa ∧ n.exponent = n'.exponent

/-- non-vacuity: separators inserted into `-12.5e+10` at every kind of position -/
example : NoSepBeforeSign cIltc [45,95,49,95,50,46,95,53,95,101,43,95,49,95,48,95] :=
  noSepBeforeSign_of_B _ _ (by decide)

/-! ### separators accepted where the flags do not allow them (R2; reproduce on the implementation) -/

/-- the parser accepts the input as a number -/
def acceptsNum (r : Except Err Parsed) : Bool :=
  match r with
  | .ok (.number _ _) => true
  | _ => false

/-- I+T+C, leading not enabled: `+_1`, `1._5` are accepted by the code as it is (rejected under the repair `Fix.itc`:
`position_fixed_itc`) -/
theorem position_witness_itc :
    Fix.itc = true ∨ (acceptsNum (parseFloatSyntax cItc {} false [43,95,49]) = true ∧
      acceptsNum (parseFloatSyntax cItc {} false [49,46,95,53]) = true) := by decide

theorem position_fixed_itc :
    Fix.itc = false ∨ (acceptsNum (parseFloatSyntax cItc {} false [43,95,49]) = false ∧
      acceptsNum (parseFloatSyntax cItc {} false [49,46,95,53]) = false ∧
      acceptsNum (parseFloatSyntax cItc {} false [49,95,50,46,53,95]) = true) := by decide

/-- I+L+C, trailing not enabled: `1_`, `1.5_` are accepted by the code as it is (rejected under the repair `Fix.ilc`,
fixes/C13-sep-ilc-accepts-trailing.diff: `position_fixed_ilc`) -/
theorem position_witness_ilc :
    Fix.ilc = true ∨ (acceptsNum (parseFloatSyntax cIlc {} false [49,95]) = true ∧
      acceptsNum (parseFloatSyntax cIlc {} false [49,46,53,95]) = true) := by decide

theorem position_fixed_ilc :
    Fix.ilc = false ∨ (acceptsNum (parseFloatSyntax cIlc {} false [49,95]) = false ∧
      acceptsNum (parseFloatSyntax cIlc {} false [49,46,53,95]) = false ∧
      acceptsNum (parseFloatSyntax cIlc {} false [95,49,95,50,46,95,53]) = true) := by decide

end LexVerif.Props.C13
