import LexVerif.Gen.Literals
import LexVerif.Spec.LiteralsExpected
/-!
# Literals.UtilAscii — lexical-util/src/ascii.rs still has the literals and token shape the models were transcribed from

`Gen.Literals.UtilAscii` is re-extracted from /repo's source text on every run; `Spec.LiteralsExpected.UtilAscii` is the
committed snapshot. One theorem per fn / macro item, so a failing obligation names the item whose source moved;
`items_same` catches added or removed items. (Written by `extractors.literals.snapshot()`.)
-/
namespace LexVerif.Props.Literals.UtilAscii
open LexVerif

theorem items_same : Gen.Literals.UtilAscii.items = Spec.LiteralsExpected.UtilAscii.items := by decide
theorem k_is_valid_ascii : Gen.Literals.UtilAscii.k_is_valid_ascii = Spec.LiteralsExpected.UtilAscii.k_is_valid_ascii := by decide
theorem k_is_valid_ascii_slice : Gen.Literals.UtilAscii.k_is_valid_ascii_slice = Spec.LiteralsExpected.UtilAscii.k_is_valid_ascii_slice := by decide
theorem k_is_valid_letter : Gen.Literals.UtilAscii.k_is_valid_letter = Spec.LiteralsExpected.UtilAscii.k_is_valid_letter := by decide
theorem k_is_valid_letter_slice : Gen.Literals.UtilAscii.k_is_valid_letter_slice = Spec.LiteralsExpected.UtilAscii.k_is_valid_letter_slice := by decide

end LexVerif.Props.Literals.UtilAscii
