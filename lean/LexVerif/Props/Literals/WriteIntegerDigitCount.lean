import LexVerif.Gen.Literals
import LexVerif.Spec.LiteralsExpected
/-!
# Literals.WriteIntegerDigitCount — lexical-write-integer/src/digit_count.rs still has the literals and token shape the models were transcribed from

`Gen.Literals.WriteIntegerDigitCount` is re-extracted from /repo's source text on every run; `Spec.LiteralsExpected.WriteIntegerDigitCount` is the
committed snapshot. One theorem per fn / macro item, so a failing obligation names the item whose source moved;
`items_same` catches added or removed items. (Written by `extractors.literals.snapshot()`.)
-/
namespace LexVerif.Props.Literals.WriteIntegerDigitCount
open LexVerif

theorem items_same : Gen.Literals.WriteIntegerDigitCount.items = Spec.LiteralsExpected.WriteIntegerDigitCount.items := by decide
theorem k_fast_log2 : Gen.Literals.WriteIntegerDigitCount.k_fast_log2 = Spec.LiteralsExpected.WriteIntegerDigitCount.k_fast_log2 := by decide
theorem k_digit_count_macro : Gen.Literals.WriteIntegerDigitCount.k_digit_count_macro = Spec.LiteralsExpected.WriteIntegerDigitCount.k_digit_count_macro := by decide
theorem k_digit_log2 : Gen.Literals.WriteIntegerDigitCount.k_digit_log2 = Spec.LiteralsExpected.WriteIntegerDigitCount.k_digit_log2 := by decide
theorem k_digit_log4 : Gen.Literals.WriteIntegerDigitCount.k_digit_log4 = Spec.LiteralsExpected.WriteIntegerDigitCount.k_digit_log4 := by decide
theorem k_digit_log8 : Gen.Literals.WriteIntegerDigitCount.k_digit_log8 = Spec.LiteralsExpected.WriteIntegerDigitCount.k_digit_log8 := by decide
theorem k_digit_log16 : Gen.Literals.WriteIntegerDigitCount.k_digit_log16 = Spec.LiteralsExpected.WriteIntegerDigitCount.k_digit_log16 := by decide
theorem k_digit_log32 : Gen.Literals.WriteIntegerDigitCount.k_digit_log32 = Spec.LiteralsExpected.WriteIntegerDigitCount.k_digit_log32 := by decide
theorem k_digit_count : Gen.Literals.WriteIntegerDigitCount.k_digit_count = Spec.LiteralsExpected.WriteIntegerDigitCount.k_digit_count := by decide
theorem k_slow_digit_count : Gen.Literals.WriteIntegerDigitCount.k_slow_digit_count = Spec.LiteralsExpected.WriteIntegerDigitCount.k_slow_digit_count := by decide
theorem k_digit_impl_macro : Gen.Literals.WriteIntegerDigitCount.k_digit_impl_macro = Spec.LiteralsExpected.WriteIntegerDigitCount.k_digit_impl_macro := by decide

end LexVerif.Props.Literals.WriteIntegerDigitCount
